-- spike 4: software binary32 (round-to-nearest-even) sufficient for the f32 expressions in sakuramml
namespace F32

/-- a finite binary32 value mant * 2^exp with |mant| < 2^24 (normal range only; values here are ≪ 2^127) -/
structure F where
  mant : Int
  exp : Int
deriving Repr

def pow2 (k : Nat) : Nat := 2 ^ k

/-- round the rational n/d (d > 0) to binary32, RNE -/
def roundRat (n : Int) (d : Nat) : F :=
  if n = 0 then ⟨0, 0⟩ else
  let neg := n < 0
  let a := n.natAbs
  -- first guess of floor(log2 (a/d)), then fix up
  let e0 : Int := (Nat.log2 a : Int) - (Nat.log2 d : Int)
  let scaled (s : Int) : Nat × Nat :=     -- a/d / 2^s as N/D
    if s ≥ 0 then (a, d * pow2 s.toNat) else (a * pow2 (-s).toNat, d)
  let pick (e : Int) : Int :=              -- adjust e so that 2^23 ≤ (a/d)/2^(e-23) < 2^24
    let (N, D) := scaled (e - 23)
    if N / D < pow2 23 then e - 1 else if N / D ≥ pow2 24 then e + 1 else e
  let e := pick (pick e0)
  let s := e - 23
  let (N, D) := scaled s
  let m := N / D
  let r := N % D
  let m := if 2 * r > D ∨ (2 * r = D ∧ m % 2 = 1) then m + 1 else m
  let (m, s) := if m = pow2 24 then (pow2 23, s + 1) else (m, s)
  ⟨if neg then -(m : Int) else m, s⟩

def toRat (x : F) : Int × Nat :=
  if x.exp ≥ 0 then (x.mant * (pow2 x.exp.toNat : Int), 1) else (x.mant, pow2 (-x.exp).toNat)

def ofInt (i : Int) : F := roundRat i 1
def mul (x y : F) : F := let (a, b) := toRat x; let (c, d) := toRat y; roundRat (a * c) (b * d)
def add (x y : F) : F := let (a, b) := toRat x; let (c, d) := toRat y; roundRat (a * d + c * b) (b * d)
def div (x y : F) : F :=
  let (a, b) := toRat x; let (c, d) := toRat y
  if c = 0 then ⟨0, 0⟩ else
  let num := a * d; let den := b * c
  if den < 0 then roundRat (-num) den.natAbs else roundRat num den.natAbs
/-- `as isize`: truncate toward zero -/
def toInt (x : F) : Int := let (a, b) := toRat x; Int.tdiv a b

-- the expressions used by the code
def gate (len q : Int) : Int := toInt (div (mul (ofInt len) (ofInt q)) (ofInt 100))
def dots3 (res : Int) : Int := toInt (add (add (div (ofInt res) (ofInt 2)) (div (ofInt res) (ofInt 4))) (div (ofInt res) (ofInt 8)))
def ramp (lo hi j len : Int) : Int := toInt (add (mul (ofInt (hi - lo)) (div (ofInt j) (ofInt len))) (ofInt lo))
def bend (diff range : Int) : Int := toInt (mul (ofInt diff) (div (ofInt 8192) (ofInt range)))
end F32
