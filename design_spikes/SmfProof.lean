import Smf  -- (spike: was Lt.Smf)
namespace Smf
open Spike (encodeDelta decodeVlq vlq_roundtrip)

theorem vlq_small (n : Nat) (h : n < 128) (r : List Nat) : decodeVlq 0 (n :: r) = some (n, r) := by
  simp [decodeVlq, h]

/-- the message(s) of one event; for PitchBendRange the first of three -/
def msg1 (e : Event) : Msg :=
  match e.kind with
  | .noteOn => .noteOn e.ch e.v1 e.v3
  | .noteOff => .noteOff e.ch e.v1 e.v3
  | .voice => .prog e.ch e.v1
  | .cc => .cc e.ch e.v1 e.v2
  | .metaEv => .metaM e.v2 e.data
  | .sysex => .sysex e.data.tail
  | .pitchBend => .bend e.ch (e.v1 % 128) ((e.v1 / 128) % 128)
  | .pitchBendRange => .cc e.ch 0x65 0

theorem decodeMsg_simple (e : Event) (hv : Valid e) (hk : e.kind ≠ .pitchBendRange) (rest : List Nat) :
    decodeMsg (body e ++ rest) = some (msg1 e, rest) := by
  obtain ⟨hch, hv⟩ := hv
  cases hkind : e.kind <;> simp only [hkind] at hv hk
  · -- noteOn
    obtain ⟨h1, h3⟩ := hv
    have a : (0x90 + e.ch) / 16 = 9 := by omega
    have b : (0x90 + e.ch) % 16 = e.ch := by omega
    simp [body, msg1, hkind, decodeMsg, a, b, d7, h1, h3]
  · obtain ⟨h1, h3⟩ := hv
    have a : (0x80 + e.ch) / 16 = 8 := by omega
    have b : (0x80 + e.ch) % 16 = e.ch := by omega
    simp [body, msg1, hkind, decodeMsg, a, b, d7, h1, h3]
  · obtain ⟨h1, h2⟩ := hv
    have a : (0xB0 + e.ch) / 16 = 11 := by omega
    have b : (0xB0 + e.ch) % 16 = e.ch := by omega
    simp [body, msg1, hkind, decodeMsg, a, b, d7, h1, h2]
  · -- pitchBend
    have a : (0xE0 + e.ch) / 16 = 14 := by omega
    have b : (0xE0 + e.ch) % 16 = e.ch := by omega
    have c : e.v1 % 128 < 128 := Nat.mod_lt _ (by decide)
    have d : e.v1 / 128 % 128 < 128 := Nat.mod_lt _ (by decide)
    simp [body, msg1, hkind, decodeMsg, a, b, d7, c, d]
  · exact absurd rfl hk
  · -- voice
    have a : (0xC0 + e.ch) / 16 = 12 := by omega
    have b : (0xC0 + e.ch) % 16 = e.ch := by omega
    simp [body, msg1, hkind, decodeMsg, a, b, d7, hv]
  · -- meta
    obtain ⟨h1, h2, _, h3, h4⟩ := hv
    have hl : e.data.length < 128 := by omega
    simp only [body, msg1, hkind, h1, h3, List.cons_append, List.nil_append, decodeMsg]
    simp [d7, h2, vlq_small _ hl]
  · -- sysex
    obtain ⟨hh, hl⟩ := hv
    cases hd : e.data with
    | nil => simp [hd] at hh
    | cons x xs =>
      simp only [hd, List.head?_cons, Option.some.injEq] at hh
      simp only [hd, List.length_cons] at hl
      have hlen : xs.length < 128 := by omega
      simp only [body, msg1, hkind, hd, List.tail_cons, List.length_cons, Nat.add_sub_cancel,
        List.cons_append, List.nil_append, decodeMsg]
      simp [vlq_small _ hlen]

theorem isEot_msg1 (e : Event) (hv : Valid e) : isEot (msg1 e) = false := by
  obtain ⟨_, hv⟩ := hv
  cases hkind : e.kind <;> simp only [hkind] at hv <;> simp [msg1, hkind, isEot]
  · intro h; exact absurd h hv.2.2.1

theorem decodeTrack_step {f : Nat} {bs r r' : List Nat} {d : Nat} {m : Msg} {rest : List (Nat × Msg)}
    (h1 : decodeVlq 0 bs = some (d, r)) (h2 : decodeMsg r = some (m, r')) (h3 : isEot m = false)
    (h4 : decodeTrack f r' = some rest) : decodeTrack (f+1) bs = some ((d, m) :: rest) := by
  simp [decodeTrack, h1, h2, h3, h4]

theorem decodeMsg_cc (ch c v : Nat) (rest : List Nat) (hch : ch < 16) (hc : c < 128) (hv : v < 128) :
    decodeMsg ((0xB0 + ch) :: c :: v :: rest) = some (.cc ch c v, rest) := by
  have a : (0xB0 + ch) / 16 = 11 := by omega
  have b : (0xB0 + ch) % 16 = ch := by omega
  simp [decodeMsg, a, b, d7, hc, hv]

theorem decode_events (es : List Event) (hv : ∀ e ∈ es, Valid e) :
    ∀ (tp F : Nat), 3 * es.length + 1 ≤ F →
      decodeTrack F (genEvents tp es ++ [0x00, 0xFF, 0x2F, 0x00]) =
        some (expected tp es ++ [(0, .metaM 0x2F [])]) := by
  induction es with
  | nil =>
    intro tp F hF
    cases F with
    | zero => omega
    | succ f => simp [genEvents, expected, decodeTrack, decodeVlq, decodeMsg, d7, isEot]
  | cons e es ih =>
    intro tp F hF
    have hve := hv e (List.mem_cons_self)
    have hvs : ∀ x ∈ es, Valid x := fun x hx => hv x (List.mem_cons_of_mem _ hx)
    simp only [List.length_cons] at hF
    by_cases hk : e.kind = .pitchBendRange
    · -- three controller events
      obtain ⟨hch, _⟩ := hve
      have hr : (if e.v1 ≤ 24 then e.v1 else 0) < 128 := by split <;> omega
      obtain ⟨f, rfl⟩ : ∃ f, F = f + 3 := ⟨F - 3, by omega⟩
      have hrec := ih hvs e.time f (by omega)
      simp only [genEvents, body, hk, List.append_assoc, expected, expected1, List.cons_append, List.nil_append]
      refine decodeTrack_step (vlq_roundtrip _ _) (decodeMsg_cc _ _ _ _ hch (by decide) (by decide)) (by simp [isEot]) ?_
      refine decodeTrack_step (vlq_small 0 (by decide) _) (decodeMsg_cc _ _ _ _ hch (by decide) (by decide)) (by simp [isEot]) ?_
      exact decodeTrack_step (vlq_small 0 (by decide) _) (decodeMsg_cc _ _ _ _ hch (by decide) hr) (by simp [isEot]) hrec
    · obtain ⟨f, rfl⟩ : ∃ f, F = f + 1 := ⟨F - 1, by omega⟩
      have hrec := ih hvs e.time f (by omega)
      have hexp : expected1 (e.time - tp) e = [(e.time - tp, msg1 e)] := by
        cases hkind : e.kind <;> simp [expected1, msg1, hkind] <;> exact absurd hkind hk
      simp only [genEvents, List.append_assoc, expected, hexp]
      exact decodeTrack_step (vlq_roundtrip _ _) (decodeMsg_simple e hve hk _) (isEot_msg1 e hve) hrec

/-- C02 kernel: the independent SMF decoder reads back exactly the events, then a single final End-of-Track -/
theorem C02_decode (es : List Event) (hv : ∀ e ∈ es, Valid e) :
    decodeTrack (3 * es.length + 1) (genTrack es) = some (expected 0 es ++ [(0, .metaM 0x2F [])]) :=
  decode_events es hv 0 _ (Nat.le_refl _)

#print axioms C02_decode
end Smf
