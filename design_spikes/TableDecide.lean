import Gen  -- (spike: generated table, not kept)
namespace Spike
def ccTT : List Nat := "ControlChangeCommand".toList.map Char.toNat
def rowOk (r : Gen.Row) : Bool :=
  match r.ccDoc with
  | some n => r.tag1 == (n : Int) && r.tt == [67,111,110,116,114,111,108,67,104,97,110,103,101,67,111,109,109,97,110,100]
  | none => true
theorem cc_numbers_match_doc : Gen.sysFuncs.all rowOk = true := by decide +kernel
theorem table_size : Gen.sysFuncs.length = 190 := by decide +kernel
#print axioms cc_numbers_match_doc
end Spike
