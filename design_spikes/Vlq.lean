-- spike 1: VLQ round trip, core only
namespace Spike

/-- bytes after the last one, least significant group first (as the Rust loop builds `buf`) -/
def vlqMore : Nat → Nat → List Nat
  | 0, _ => []
  | fuel+1, v => if v > 0 then (128 + v % 128) :: vlqMore fuel (v / 128) else []

/-- array_push_delta for non-negative time -/
def encodeDelta (n : Nat) : List Nat :=
  ((n % 128) :: vlqMore (n+1) (n / 128)).reverse

/-- SMF variable-length quantity reader (spec): accumulate 7 bits while the high bit is set -/
def decodeVlq : Nat → List Nat → Option (Nat × List Nat)
  | _, [] => none
  | acc, b :: rest => if b < 128 then some (acc * 128 + b, rest) else decodeVlq (acc * 128 + (b - 128)) rest

#eval encodeDelta 0
#eval encodeDelta 255
#eval encodeDelta 16256
#eval decodeVlq 0 (encodeDelta 16256 ++ [1,2])
end Spike

namespace Spike

/-- most-significant-first continuation groups -/
def hi : Nat → List Nat
  | 0 => []
  | v+1 => hi ((v+1) / 128) ++ [128 + (v+1) % 128]
decreasing_by omega

theorem vlqMore_rev (fuel v : Nat) (h : v < fuel) : (vlqMore fuel v).reverse = hi v := by
  induction fuel generalizing v with
  | zero => omega
  | succ f ih =>
    cases v with
    | zero => simp [vlqMore, hi]
    | succ w =>
      have hlt : (w+1)/128 < f := by omega
      rw [vlqMore, hi.eq_2]
      simp [ih _ hlt]

theorem hi_succ (w : Nat) : ∃ q r, q < w + 1 ∧ r < 128 ∧ q * 128 + r = w + 1 ∧ hi (w+1) = hi q ++ [128 + r] :=
  ⟨(w+1)/128, (w+1)%128, by omega, Nat.mod_lt _ (by decide), by omega, hi.eq_2 w⟩

theorem decode_hi (v : Nat) : ∀ acc rest, ∃ k, decodeVlq acc (hi v ++ rest) = decodeVlq (acc * 128^k + v) rest := by
  induction v using Nat.strongRecOn with
  | _ v ih =>
    intro acc rest
    cases v with
    | zero => exact ⟨0, by simp [hi]⟩
    | succ w =>
      obtain ⟨q, r, hq, hr, hqr, hhi⟩ := hi_succ w
      obtain ⟨k, hk⟩ := ih q hq acc ([128 + r] ++ rest)
      refine ⟨k+1, ?_⟩
      rw [hhi, List.append_assoc, hk]
      simp only [List.cons_append, List.nil_append, decodeVlq]
      have : ¬ (128 + r < 128) := by omega
      simp only [this, if_false]
      have hacc : (acc * 128 ^ k + q) * 128 + (128 + r - 128) = acc * 128 ^ (k + 1) + (w + 1) := by
        have h1 : 128 + r - 128 = r := by omega
        rw [h1, Nat.pow_succ, Nat.add_mul, ← hqr]
        generalize 128 ^ k = p
        rw [Nat.mul_assoc]
        omega
      rw [hacc]

theorem vlq_roundtrip (n : Nat) (rest : List Nat) :
    decodeVlq 0 (encodeDelta n ++ rest) = some (n, rest) := by
  unfold encodeDelta
  rw [List.reverse_cons, vlqMore_rev _ _ (by omega : n / 128 < n + 1), List.append_assoc]
  obtain ⟨k, hk⟩ := decode_hi (n/128) 0 ([n % 128] ++ rest)
  rw [hk]
  simp only [List.cons_append, List.nil_append, decodeVlq, Nat.zero_mul, Nat.zero_add]
  have : n % 128 < 128 := Nat.mod_lt _ (by decide)
  simp only [this, if_true]
  have h : n / 128 * 128 + n % 128 = n := by have := Nat.div_add_mod n 128; omega
  rw [h]

#print axioms vlq_roundtrip
end Spike
