-- spike 12: tie_mode_gate / same-pitch merging (C13 kernel): a run of equal pitches becomes one note
namespace Tie

structure Ev where
  time : Int
  key : Int
  len : Int      -- v2: gate length
  vel : Int
deriving Repr, DecidableEq

/-- runner::tie_mode_gate: first note removed from the list becomes `last`; then the loop -/
def gateLoop (tieValue : Int) : Ev → List Ev → List Ev
  | last, [] => [last]
  | last, nx :: rest =>
    if last.key = nx.key then
      gateLoop tieValue { last with len := nx.time + nx.len - last.time } rest
    else
      { last with len := if tieValue = 0 then nx.time - last.time else tieValue } :: gateLoop tieValue nx rest

def tieModeGate (tieValue : Int) : List Ev → List Ev
  | [] => []
  | e :: es => gateLoop tieValue e es

/-- C13 merge law (mode 2; modes 0 and 1 share the same branch): a group of equal pitch is one note
    from the first note's start to the last note's end -/
theorem gate_same_pitch (tv : Int) (first : Ev) (rest : List Ev) (hk : ∀ e ∈ rest, e.key = first.key) :
    ∀ (acc : Ev), acc.key = first.key → acc.time = first.time →
      gateLoop tv acc rest =
        [{ acc with len := match rest.getLast? with
                            | none => acc.len
                            | some l => l.time + l.len - first.time }] := by
  induction rest with
  | nil => intro acc _ _; simp [gateLoop]
  | cons nx more ih =>
    intro acc hak hat
    have hnk : nx.key = first.key := hk nx List.mem_cons_self
    have hmore : ∀ e ∈ more, e.key = first.key := fun e he => hk e (List.mem_cons_of_mem _ he)
    have hcond : acc.key = nx.key := by rw [hak, hnk]
    rw [gateLoop, if_pos hcond]
    rw [ih hmore { acc with len := nx.time + nx.len - acc.time } hak hat]
    cases more with
    | nil => simp [hat]
    | cons m ms =>
      have hne : (m :: ms).getLast? = some ((m :: ms).getLast (by simp)) := List.getLast?_eq_some_getLast (by simp)
      simp [List.getLast?_cons_cons, hne]

/-- every note of the group is sounded at most once: output never longer than input -/
theorem gate_length_le (tv : Int) : ∀ (es : List Ev) (last : Ev), (gateLoop tv last es).length ≤ es.length + 1 := by
  intro es
  induction es with
  | nil => intro last; simp [gateLoop]
  | cons nx rest ih =>
    intro last
    simp only [gateLoop]
    split
    · have := ih { last with len := nx.time + nx.len - last.time }; simp; omega
    · have := ih nx; simp; omega

/-- different pitches with value 0: each note is gated until the next one begins -/
theorem gate_distinct_step (last nx : Ev) (rest : List Ev) (h : last.key ≠ nx.key) :
    gateLoop 0 last (nx :: rest) = { last with len := nx.time - last.time } :: gateLoop 0 nx rest := by
  simp [gateLoop, h]

#print axioms gate_same_pitch
end Tie
