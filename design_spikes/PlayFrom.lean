-- spike 13: Track::play_from as written (loop with accumulators) vs. its declarative law (C14 kernel)
namespace PF

inductive Kind where
  | noteOn | noteOff | cc | pitchBend | pitchBendRange | voice | metaEv | sysex | directSmf
deriving DecidableEq, Repr

structure Ev where
  kind : Kind
  time : Int
  ch : Int
  v1 : Int
  v2 : Int
deriving Repr, DecidableEq

/-- accumulator state of the loop: kept events (in order), cc table (controller ↦ value), program, channel -/
structure Acc where
  kept : List Ev
  cc : List (Int × Int)      -- association list, last write wins on lookup
  voice : Option Int
  ch : Int

def shift (p : Int) (e : Ev) : Ev := { e with time := e.time - p }

/-- one iteration of the `for e in self.events` loop -/
def stepEv (p : Int) (a : Acc) (e : Ev) : Acc :=
  match e.kind with
  | .metaEv | .sysex =>
      { a with kept := a.kept ++ [{ e with time := if e.time - p < 0 then 0 else e.time - p }] }
  | .noteOn => if e.time - p < 0 then a else { a with kept := a.kept ++ [shift p e] }
  | .voice => if e.time - p < 0 then { a with voice := some e.v1, ch := e.ch }
              else { a with kept := a.kept ++ [shift p e] }
  | .cc => if e.time - p < 0 then { a with cc := a.cc ++ [(e.v1, e.v2)], ch := e.ch }
           else { a with kept := a.kept ++ [shift p e] }
  | _ => a

def runLoop (p : Int) (es : List Ev) : Acc := es.foldl (stepEv p) ⟨[], [], none, 0⟩

/-- declarative description of what is kept -/
def keepOf (p : Int) (e : Ev) : Option Ev :=
  match e.kind with
  | .metaEv | .sysex => some { e with time := if e.time - p < 0 then 0 else e.time - p }
  | .noteOn | .voice | .cc => if e.time - p < 0 then none else some (shift p e)
  | _ => none

theorem kept_step (p : Int) (a : Acc) (e : Ev) :
    (stepEv p a e).kept = a.kept ++ (keepOf p e).toList := by
  unfold stepEv keepOf
  cases e.kind <;> simp <;> split <;> simp

theorem kept_fold (p : Int) (es : List Ev) (a : Acc) :
    (es.foldl (stepEv p) a).kept = a.kept ++ es.filterMap (keepOf p) := by
  induction es generalizing a with
  | nil => simp
  | cons e es ih =>
    rw [List.foldl_cons, ih, kept_step]
    cases h : keepOf p e <;> simp [List.filterMap_cons, h]

/-- C14 law, first half: the surviving events are exactly the notes/programs/controllers at or after
    the point, shifted so that the point is tick 0, plus meta/SysEx clamped at 0 — in their original order -/
theorem playFrom_kept (p : Int) (es : List Ev) :
    (runLoop p es).kept = es.filterMap (keepOf p) := by
  simpa [runLoop] using kept_fold p es ⟨[], [], none, 0⟩

/-- the program restored is the last one set strictly before the point -/
def lastVoice (p : Int) (es : List Ev) : Option Int :=
  ((es.filter (fun e => e.kind = .voice ∧ e.time - p < 0)).getLast?).map (·.v1)

theorem voice_fold (p : Int) (es : List Ev) (a : Acc) :
    (es.foldl (stepEv p) a).voice =
      match lastVoice p es with
      | some v => some v
      | none => a.voice := by
  induction es generalizing a with
  | nil => simp [lastVoice]
  | cons e es ih =>
    rw [List.foldl_cons, ih]
    by_cases hv : e.kind = .voice ∧ e.time - p < 0
    · have hstep : (stepEv p a e).voice = some e.v1 := by
        unfold stepEv; simp [hv.1, hv.2]
      simp only [lastVoice, List.filter_cons, hv, decide_true, and_self, if_true]
      cases hrest : List.filter (fun e => decide (e.kind = Kind.voice ∧ e.time - p < 0)) es with
      | nil => simp [lastVoice, hrest, hstep]
      | cons x xs =>
        have : ((x :: xs).getLast?) = some ((x :: xs).getLast (by simp)) := List.getLast?_eq_some_getLast (by simp)
        simp [lastVoice, hrest, List.getLast?_cons_cons, this]
    · have hstep : (stepEv p a e).voice = a.voice := by
        unfold stepEv
        cases hk : e.kind <;> simp <;> (try split) <;> simp_all
      simp only [lastVoice, List.filter_cons, hv, decide_false, if_false]
      rw [hstep]
      rfl

theorem playFrom_voice (p : Int) (es : List Ev) : (runLoop p es).voice = lastVoice p es := by
  have := voice_fold p es ⟨[], [], none, 0⟩
  simp only [runLoop]
  rw [this]
  cases lastVoice p es <;> rfl

#print axioms playFrom_kept
#print axioms playFrom_voice
end PF
