import random
from probe import run
from c15 import body, dec
rnd=random.Random(11); bad=0
def prog():
    out=[]
    for _ in range(rnd.randrange(3,12)):
        x=rnd.random()
        if x<0.55: out.append(rnd.choice("cdefgab")+rnd.choice(["","8","4","2","16"]))
        elif x<0.65: out.append("r"+rnd.choice(["","8","4"]))
        elif x<0.75: out.append("@%d"%rnd.randrange(1,129))
        elif x<0.88: out.append("y%d,%d"%(rnd.choice([1,7,10,11,64]),rnd.randrange(0,128)))
        elif x<0.94: out.append("Tempo=%d"%rnd.randrange(60,200))
        else: out.append("TrackName={\"x\"}")
    return " ".join(out)
for it in range(300):
    p=prog()
    r0=run("l4 "+p)
    ev0=dec(body(r0[1])[0])
    total=max(e[0] for e in ev0)
    starts=[e[0] for e in ev0 if e[1]=="ch" and e[2]>>4==9]
    pt=rnd.choice(starts) if starts and rnd.random()<0.6 else rnd.randrange(0,total+50)
    r1=run(f"PlayFrom({pt}) l4 "+p)
    if r1[0]!="OK": print("FAIL",r1[0],p); bad+=1; continue
    ev1=dec(body(r1[1])[0])
    # expected from ev0 (already split/sorted: reconstruct from pre-split semantics): notes = on/off pairs
    # Build expected list of (time,...) following the law.
    ons=[];exp=[]
    # pair note on/offs in ev0
    pend={}
    items=[]  # (kind,time,payload)
    for e in ev0:
        if e[1]=='ch' and e[2]>>4==9: pend.setdefault(e[3],[]).append(e); 
        elif e[1]=='ch' and e[2]>>4==8:
            on=pend[e[3]].pop(0); items.append(('note',on[0],(on,e)))
        elif e[1]=='meta' and e[2]==0x2f: pass
        else: items.append(('other',e[0],e))
    cc={};prg=None
    kept=[]
    for kind,tm,pl in sorted(items,key=lambda x:x[1]):
        if kind=='note':
            if tm>=pt: kept.append((tm-pt,)+pl[0][1:]); kept.append((pl[1][0]-pt,)+pl[1][1:])
        else:
            e=pl
            if e[1]=='meta': kept.append((max(0,tm-pt),)+e[1:])
            elif e[2]>>4==0xb:
                if tm<pt: cc[e[3]]=e[4]
                else: kept.append((tm-pt,)+e[1:])
            elif e[2]>>4==0xc:
                if tm<pt: prg=e[3]
                else: kept.append((tm-pt,)+e[1:])
    got=[e for e in ev1 if not (e[1]=='meta' and e[2]==0x2f)]
    restored=[(0,'ch',0xb0,k,v) for k,v in sorted(cc.items())]+([(0,'ch',0xc0,prg)] if prg is not None else [])
    # law: multiset equality, and restored events precede first note-on
    if sorted(map(str,got))!=sorted(map(str,kept+restored)):
        print("SET",pt,p,"\n  got",got[:8],"\n  exp",(kept+restored)[:8]); bad+=1; continue
    first_on=next((i for i,e in enumerate(got) if e[1]=='ch' and e[2]>>4==9),len(got))
    late=[e for e in got[first_on:] if e in restored]
    if late: bad+=1; 
    if late and bad<6: print("ORDER restored after first note:",pt,p,late[:3])
print("playfrom checked 300 bad",bad)
