import subprocess, sys
X="/tmp/sk/repo/target/release/examples/x"
def run(src, timeout=10):
    try:
        p=subprocess.run([X,src],capture_output=True,text=True,timeout=timeout)
    except subprocess.TimeoutExpired:
        return ("HANG","","")
    out=p.stdout
    if "PANIC" in out.split("\n")[:3] or out.startswith("PANIC"): return ("PANIC","","")
    hexl=[l for l in out.split("\n") if l.startswith("HEX ")]
    log=out.split("LOG<<",1)[1].split(">>",1)[0] if "LOG<<" in out else ""
    return ("OK", hexl[0][4:] if hexl else "", log)
def same(a,b,label):
    ra,rb=run(a),run(b)
    ok = ra[0]==rb[0]=="OK" and ra[1]==rb[1]
    print(("same " if ok else "DIFF ")+label, "" if ok else "\n   A=%r -> %s %s\n   B=%r -> %s %s"%(a,ra[0],ra[1][60:160],b,rb[0],rb[1][60:160]))
    return ok
