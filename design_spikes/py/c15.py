import re, subprocess, sys
from probe import run
def body(hexs):
    b=bytes.fromhex(hexs.replace(" ",""))
    # first (only) track body for single-track; else track n
    assert b[:4]==b'MThd'
    pos=14; tracks=[]
    while pos<len(b):
        assert b[pos:pos+4]==b'MTrk', b[pos:pos+4]
        ln=int.from_bytes(b[pos+4:pos+8],'big'); tracks.append(b[pos+8:pos+8+ln]); pos+=8+ln
    return tracks
def dec(tr):
    ev=[];p=0;t=0
    while p<len(tr):
        d=0
        while True:
            c=tr[p];p+=1;d=d<<7|(c&0x7f)
            if c<0x80:break
        t+=d; s=tr[p]
        if s==0xff:
            ty=tr[p+1]; ln=tr[p+2]; ev.append((t,'meta',ty,bytes(tr[p+3:p+3+ln]))); p+=3+ln
        elif s==0xf0:
            ln=tr[p+1]; ev.append((t,'sysex',bytes(tr[p+2:p+2+ln]))); p+=2+ln
        elif s>>4 in (0xc,0xd):
            ev.append((t,'ch',s,tr[p+1])); p+=2
        else:
            ev.append((t,'ch',s,tr[p+1],tr[p+2])); p+=3
    return ev
rows=[]
for l in open('/repo/src/mml_def.rs'):
    m=re.search(r'sysfunc(?:_cc|_rpn)?_add!\(sf, "([^"]+)", TokenType::(\w+), \'(.)\'(?:, ([^,)]+))?(?:, ([^,)]+))?\); // (.*)$',l)
    if m: rows.append(m.groups())
bad=0
for name,tt,arg,t1,t2,doc in rows:
    if tt=='ControlChangeCommand':
        m=re.match(r'CC#(\d+)',doc); docn=int(m.group(1))
        for v in (0,1,64,127):
            for form in (f"{name}({v})", f"{name}={v}"):
                r=run(form)
                if r[0]!='OK': print("FAIL",form,r[0]); bad+=1; continue
                ev=dec(body(r[1])[0])
                if ev[0]!=(0,'ch',0xb0,docn,v): print("MISMATCH",form,ev[0],"doc CC#",docn); bad+=1
    if tt in('RPNCommand','NRPNCommand'):
        r=run(f"{name}(5)"); ev=dec(body(r[1])[0]) if r[0]=='OK' else r[0]
        exp = [(0,'ch',0xb0,101 if tt=='RPNCommand' else 99,int(t1,0)),(0,'ch',0xb0,100 if tt=='RPNCommand' else 98,int(t2,0)),(0,'ch',0xb0,6,5)]
        if ev[:3]!=exp: print("MISMATCH",name,ev[:3],"expected",exp); bad+=1
    if tt=='MetaText':
        r=run(name+'={"ab"}'); ev=dec(body(r[1])[0])
        if ev[0][:3]!=(0,'meta',int(t1)) or ev[0][3]!=b'"ab"': print("META",name,ev[0])
    if tt=='Tempo':
        for bpm in (10,60,120,300):
            r=run(f"{name}({bpm})"); ev=dec(body(r[1])[0])
            if ev[0]!=(0,'meta',0x51,(60000000//bpm).to_bytes(3,'big')): print("TEMPO",name,bpm,ev[0]); bad+=1
print("rows",len(rows),"bad",bad)
# voices
import itertools
vd=[]
for l in open('/repo/voice.md'):
    m=re.match(r'\|\s*(\d+)\s*\|\s*(\w+)\s*\|',l)
    if m: vd.append((int(m.group(1)),m.group(2)))
vb=0
for no,nm in vd[:128]:
    r=run(f"@{nm} c"); ev=dec(body(r[1])[0])
    if ev[0]!=(0,'ch',0xc0,no-1): print("VOICE",nm,no,ev[0]); vb+=1
print("voices bad",vb)
# pitch bend sweep
pb=0
for v in list(range(-8192,8192,257))+[8191]:
    r=run(f"PB({v})"); ev=dec(body(r[1])[0]); x=v+8192
    if ev[0]!=(0,'ch',0xe0,x&0x7f,x>>7): print("PB",v,ev[0]); pb+=1
for v in range(0,128,7):
    r=run(f"p{v}"); ev=dec(body(r[1])[0]); x=v*128
    if ev[0]!=(0,'ch',0xe0,x&0x7f,x>>7): print("p",v,ev[0]); pb+=1
print("pb bad",pb)
for s in ["ResetGM","ResetGS","ResetXG","MasterVolume(100)","GSReverbMacro(3)","GS_RHYTHM(1)","TimeSignature(6,8)","TimeSignature(5,16)","Port(2)","DeviceNumber=$11 ResetGS","@3,1,2","Fadein(1)","Cresc(4,10,100)","Decresc(4)","TempoChange(100,120,!4)","DirectSMF($B0,7,100)","NoteOn(60,100) r NoteOff(60,0)"]:
    r=run(s)
    print(s,"->",r[0],[ (e[0],e[1])+tuple(x.hex() if isinstance(x,bytes) else x for x in e[2:]) for e in (dec(body(r[1])[0])[:6] if r[0]=='OK' else [])])
