#!/usr/bin/env python3
"""Prototype of the translator (DESIGN §3.1): extracts tables, constants, defaults, match tables,
entry-point pipelines and frame facts from the Rust source.  Prints a summary; the real tool will
emit Lean.  Exploratory — not part of the machinery."""
import re, sys, json, os
ROOT = sys.argv[1] if len(sys.argv) > 1 else "/repo"
def src(name): return open(os.path.join(ROOT, "src", name), encoding="utf-8").read()
def between(text, a, b):
    i = text.index(a); j = text.index(b, i + len(a)); return text[i + len(a):j]
out = {}
mml = src("mml_def.rs")
# 1. system functions
rows = re.findall(r'sysfunc(?:_cc|_rpn)?_add!\(sf, "([^"]+)", TokenType::(\w+), \'(.)\'(?:, ([^,)]+))?(?:, ([^,)]+))?\); // (.*)', between(mml, "//<SYSTEM_FUNCTION>", "//</SYSTEM_FUNCTION>"))
out["sysFuncs"] = len(rows)
# 2. variables
vs = between(mml, "//<VARIABLES>", "//</VARIABLES>")
ints = re.findall(r'var\.insert\(String::from\("(\w+)"\), SValue::from_i\((\d+)\)\)', vs)
strs = re.findall(r'var\.insert\(String::from\("(\w+)"\), SValue::from_str\("([^"]*)"\)\)', vs)
bools = re.findall(r'var\.insert\(String::from\("(\w+)"\), SValue::from_b\((true|false)\)\)', vs)
other = [l for l in vs.split("\n") if "var.insert" in l and not re.search(r'from_i\(|from_str\(|from_b\(', l)]
out["variables"] = dict(ints=len(ints), strs=[s[0] for s in strs], bools=[b[0] for b in bools], unparsed=[o.strip()[:60] for o in other])
# 3. reserved words
rs = mml[mml.index("//<RESERVED>"):mml.index("macro_rules! sysfunc_add")]
out["reserved"] = len(re.findall(r'var\.insert\(String::from\("(\w+)"\), (\d+)\)', rs))
# 4. rhythm macro
rm = re.findall(r"rhthm_macro\['(.)' as usize - 0x40\] = String::from\(\"([^\"]*)\"\)", between(mml, "// <RHYTHM_MACRO>", "// </RHYTHM_MACRO>"))
out["rhythm"] = rm
# 5. sutoton
su = re.findall(r'items\.set_item\("((?:[^"\\]|\\.)*)", "((?:[^"\\]|\\.)*)"\);', between(src("sutoton.rs"), "// <SUTOTON>", "// </SUTOTON>"))
out["sutoton"] = dict(rows=len(su), ascii_initial=[n for n, _ in su if ord(n[0]) < 128], empty_values=[n for n, v in su if v == ""])
# 6. constants
consts = {}
for f, pat in [("song.rs", r'pub const (SAKURA_\w+): \w+ = ([^;]+);'), ("lexer.rs", r'const (LEX_\w+): \w+ = ([^;]+);'), ("midi.rs", r'const (_?MIDI_\w+): \w+ = ([^;]+);')]:
    for k, v in re.findall(pat, src(f)): consts[k] = v.split("//")[0].strip()
out["consts"] = consts
# 7. struct defaults
song = src("song.rs")
def fields(body): return dict(re.findall(r'^\s*(\w+):\s*([^,\n]+),', body, re.M))
out["trackNew"] = fields(between(song, "        Track {\n", "        }\n"))
out["flagsNew"] = fields(between(song, "        Flags {\n", "        }\n"))
sn = between(song, "        Self {\n            debug: false,", "        }\n")
out["songNew"] = fields("            debug: false," + sn)
# 8. match tables
lex = src("lexer.rs")
out["noteLetters"] = re.findall(r"'([a-g])' => (\d+),", between(lex, "TokenType::Note,\n        match ch {", "_ => 0,"))
out["priorities"] = re.findall(r"'(.)' => (LEX_\w+),", between(lex, "let priority = match ch {", "_ => { 0 }"))
run = src("runner.rs")
out["denoLog2"] = re.findall(r"(\d+) => (\d+),", between(run, "let deno_v = match song.timesig_deno {", "_ => 2,"))
tok = src("token.rs")
out["zen2han"] = re.findall(r"'\\u\{([0-9A-F]+)\}'(?:\.\.='\\u\{([0-9A-F]+)\}')?", between(tok, "pub fn zen2han(c: char) -> char {", "// others"))
out["tokenTypes"] = len(re.findall(r"^\s{4}(\w+),", between(tok, "pub enum TokenType {", "}\n"), re.M))
out["tieMode"] = re.findall(r"(\d) => Self::(\w+),", between(mml, "pub fn from_i(i: isize) -> Self {", "_ => Self::Port"))
out["sysValueNames"] = re.findall(r'cmd == "(\w+)"', between(run, "// <SYSTEM_REF>", "// </SYSTEM_REF>"))
# 9. entry-point pipelines
lib = src("lib.rs")
CALLS = r"(sutoton::convert|lexer::lex|runner::exec|midi::generate|get_logs_str|set_language|Song::new|rand_seed)"
def pipeline(text, start, end=None):
    i = text.index(start); j = text.index(end, i) if end else len(text)
    return re.findall(CALLS, text[i:j])
out["entry"] = {
 "SakuraCompiler::compile": pipeline(lib, "pub fn compile(&mut self", "/// set message language"),
 "compile_to_midi": pipeline(lib, "pub fn compile_to_midi", "// ---"),
 "compile": pipeline(lib, "pub fn compile(source: &str, debug_level: u32)"),
 "cli": re.findall(r"(sutoton::convert|lex\(|exec\(|generate\(|get_logs_str|Song::new|rand_seed)", src("main.rs")[src("main.rs").index("fn compile_to_midi"):src("main.rs").index("#[cfg(test)]")]),
}
# 10. frame facts
allsrc = {f: src(f) for f in ["lexer.rs", "runner.rs", "song.rs", "midi.rs", "lib.rs", "sutoton.rs", "svalue.rs", "token.rs", "source_cursor.rs", "mml_def.rs"]}
def sites(pat, files=None):
    r = []
    for f, t in allsrc.items():
        if files and f not in files: continue
        for n, l in enumerate(t.split("\n"), 1):
            if re.search(pat, l) and not l.strip().startswith("//"): r.append(f"{f}:{n}")
    return r
out["frame"] = {
 "timebaseWriters": sites(r"\.timebase\s*="),
 "tracksMutators": sites(r"tracks\.(push|remove|clear|pop|truncate|insert|swap)|\.tracks\s*="),
 "printlnUnguarded": [s for s in sites(r"println!") if "if song.debug" not in open(os.path.join(ROOT,"src",s.split(":")[0])).read().split("\n")[int(s.split(":")[1])-1] and "flag_stdout" not in open(os.path.join(ROOT,"src",s.split(":")[0])).read().split("\n")[int(s.split(":")[1])-1]],
 "ambient": sites(r"static mut|thread_local|lazy_static|OnceCell|OnceLock|SystemTime|Instant::|env::var"),
 "hashIter": sites(r"\.(iter|keys|values|into_iter|drain)\(\)", ["mml_def.rs"]) ,
 "unsafeOrSwap": sites(r"\bunsafe\b|mem::swap|mem::replace|mem::take"),
 "execPosWrites": [s for s in sites(r"\bpos\s*(\+=|=)[^=]", ["runner.rs"])],
 "loopStackUses": sites(r"loop_stack\.", ["runner.rs"]),
 "panicSites": {"unwrap": len(sites(r"\.unwrap\(\)")), "index_or_slice": len(sites(r"\w\[[^\]]+\](?!\s*=\s*\[)")), "div_mod": len(sites(r"[^/]\s[/%]\s[^/=]"))},
}
# 11. docs
cmd = open(os.path.join(ROOT, "command.md"), encoding="utf-8").read()
out["commandMdRows"] = len(re.findall(r"^\| ([^|]+) \| ([^|]*) \|$", cmd, re.M))
voice = open(os.path.join(ROOT, "voice.md"), encoding="utf-8").read()
out["voiceMdRows"] = len(re.findall(r"^\|\s*(\d+)\s*\|\s*(\w+)\s*\|", voice, re.M))
print(json.dumps(out, ensure_ascii=False, indent=1))
