use std::io::Read;
fn main() {
    let args: Vec<String> = std::env::args().collect();
    let src = if args.len() > 1 { args[1].clone() } else { let mut s=String::new(); std::io::stdin().read_to_string(&mut s).unwrap(); s };
    let r = std::panic::catch_unwind(|| {
        let r = sakuramml::compile(&src, 0);
        (r.bin, r.log)
    });
    match r {
        Ok((bin, log)) => {
            println!("LOG<<{}>>", log);
            let d = std::panic::catch_unwind(|| sakuramml::midi::dump_midi(&bin, false));
            match d { Ok(s) => println!("{}", s), Err(_) => println!("DUMP PANIC") }
            let hex: Vec<String> = bin.iter().map(|b| format!("{:02x}", b)).collect();
            println!("HEX {}", hex.join(" "));
        }
        Err(_) => println!("PANIC"),
    }
}
