import subprocess, itertools, sys, collections, concurrent.futures as cf
X="/tmp/sk/repo/target/release/examples/x"
frags=["c","c4.","c&","n60,","n(","r","l8","l","o","o4","v","v100","v.onNote(","v.Random=","q","q50","t","t.Random=5 ","t-5","y","y1,","y1,5","y1.onTime(0,127,","p","p.T(","@","@5","(",")","[","[3","[0",":","]","'","{","}","{c d}4","$","$a{","`","\"","?","&","#","#A","#A={c}","//x\n","/*","\n","|",";","TR","TR(2)","TR=","CH(","Tempo","Tempo=","Tempo=120","TIME(","TIME(1:1:0)","TimeSignature(","TimeSignature(3,","Sub{","Div{","Rhythm{","Rhythm{b}","KeyFlag","KeyFlag+(","INT","INT A","INT A=","INT A=1+","STR S2={","ARRAY AA=(","PRINT(","PRINT(1/0)","PRINT(1%","IF(","IF(1){","FOR(","FOR(INT I=0;I<2;I++){","WHILE(","WHILE(1){","FUNCTION","FUNCTION F(","FUNCTION F(A){","RETURN","BREAK","PLAY(","PLAY({c},","SysEx","SysEx$=","SysEx=$f0,{","MasterVolume","GSEffect(","GSScaleTuning(","Slur(","Slur(1) c&d","PB","PB.onTime(","M","M(","M.onNote(","M.Frequency(0)","M.onTime(0,9,9)","PlayFrom","PlayFrom(","End","System.","System.MeasureShift","MID(","PRINT(MID({あ},1,1))","Random(","あ","！","１","~","~{","~{}={","=","-","+","0x","9999999999999999999","1","(1","{\"","0"]
print(len(frags),"fragments", len(frags)**2, "pairs")
def one(src):
    try:
        p=subprocess.run(["bash","-c","ulimit -v 1500000; exec "+X+' "$0"',src],capture_output=True,text=True,timeout=3)
    except subprocess.TimeoutExpired:
        return (src,"HANG","")
    out=p.stdout
    if p.returncode!=0: return (src,"ABORT rc=%d"%p.returncode,(p.stderr or "")[-200:])
    if "PANIC" in out[:200] or "\nPANIC" in out:
        m=[l for l in p.stderr.split("\n") if "panicked at" in l]
        return (src,"PANIC",m[0].split("panicked at ")[1] if m else "")
    if "DUMP PANIC" in out: return (src,"DUMP_PANIC","")
    return (src,"OK","")
cases=[a+b for a in frags for b in frags]+frags
res=collections.defaultdict(list)
with cf.ThreadPoolExecutor(16) as ex:
    for src,k,site in ex.map(one,cases):
        if k!="OK": res[(k,site.strip().split(":")[0:2] and ":".join(site.strip().split(":")[0:2]))].append(src)
for key,v in sorted(res.items(), key=lambda kv:-len(kv[1])):
    print(key, len(v), [repr(x) for x in sorted(v,key=len)[:3]])
