import sys
sys.argv=[sys.argv[0]]
import coresem as C
SEMI=C.SEMI
def oi(x): return "none" if x is None else f"(some ({x}))"
def lp(p): pct,n,dots=p; return f"⟨{'true' if pct else 'false'}, {oi(n)}, {dots}⟩"
def le(L):
    if L is None: return "none"
    h,parts=L; return f"(some ⟨{lp(h)}, [{', '.join(lp(p) for p in parts)}]⟩)"
def cmds(cs): return "["+", ".join(cmd(c) for c in cs)+"]"
def cmd(c):
    k=c[0]
    if k=='note':
        _,name,acc,nat,L,q,v,tm,o=c
        return f".note {SEMI[name]} ({acc}) {'true' if nat else 'false'} {le(L)} {oi(q)} {oi(v)} {oi(tm)} {oi(o)}"
    if k=='noten':
        _,no,L,q,v,tm=c; return f".noteN {no} {le(L)} {oi(q)} {oi(v)} {oi(tm)}"
    if k=='rest': return f".rest {le(c[1])} ({c[2]})"
    if k=='l': return f".setL {le(c[1])}"
    if k=='o': return f".setO {c[1]}"
    if k=='orel': return f".octRel ({c[1]})"
    if k=='v': return f".setV {c[1]}"
    if k=='q': return f".setQ {c[1]}"
    if k=='t': return f".setT {c[1]}"
    if k=='loop': return f".loop {c[1]} {cmds(c[2])} {'true' if c[3] is not None else 'false'} {cmds(c[3] or [])}"
    if k=='sub': return f".sub {cmds(c[1])}"
    if k=='div': return f".div {cmds(c[1])} {le(c[2])} {c[3]}"
    if k=='chord': return f".chord {cmds(c[1])} {le(c[2])} {oi(c[3])} {oi(c[4])}"
    if k=='tr': return f".track {c[1]}"
    if k=='ch': return f".channel ({c[1]})"
    if k=='kshift': return f".keyShift ({c[1]})"
    if k=='tkey': return f".trackKey ({c[1]})"
    if k=='keyflag': return f".keyFlag ({c[1]}) [{', '.join(str(SEMI[n]) for n in c[2])}]"
    raise Exception(k)
N=250
out=["import Lt.CoreSem","open CoreSem","def progs : List (List Cmd) := ["]
exp=[]
items=[]
for seed in range(N):
    r=C.R(seed); prog=C.gen_cmds(r,3,r.randrange(1,10),top=True)
    items.append("  "+cmds(prog))
    st=C.sem(prog,C.St()); exp.append(C.expected_streams(st))
out.append(",\n".join(items)); out.append("]")
out.append('def main : IO Unit := do\n  for p in progs do\n    let s := semL p St.init\n    IO.println (toString (s.tr.map stream))')
open('/tmp/sk/lt/CoreSemTest.lean','w').write("\n".join(out)+"\n")
import json
json.dump(exp,open('/tmp/sk/coresem_expected.json','w'))
print("emitted",N)
