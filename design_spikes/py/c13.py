import random
from probe import run
from c15 import body, dec
def evs(src):
    r=run(src)
    if r[0]!="OK": return r[0],None
    return "OK",[e for e in dec(body(r[1])[0])]
def notes(ev): # pair note on/off
    on={};res=[]
    for e in ev:
        if e[1]=='ch' and e[2]>>4==9: on.setdefault(e[3],[]).append(e[0])
        if e[1]=='ch' and e[2]>>4==8:
            st=on[e[3]].pop(0); res.append((st,e[0],e[3]))
    return sorted(res)
bad=0
rnd=random.Random(5)
for it in range(400):
    mode=rnd.randrange(0,4); val=rnd.choice([0,0,12,48,100])
    k=rnd.randrange(2,6)
    same=rnd.random()<0.4
    names=[rnd.choice("cdefgab") for _ in range(k)]
    if same: names=[names[0]]*k
    lens=[rnd.choice(["4","8","16","2","8.",""]) for _ in range(k)]
    q=rnd.choice([50,90,100])
    pre=f"Slur({mode},{val}) q{q} l4 o5 "
    grp=" ".join(n+l+("&" if i<k-1 else "") for i,(n,l) in enumerate(zip(names,lens)))
    plain=" ".join(n+l for n,l in zip(names,lens))
    rests=" ".join("r"+l for l in lens)
    tail=" o4 g8 a8"
    head="r1 "   # keep away from tick 0 (bend range event at t-1)
    s1,e1=evs(pre+head+grp+tail); s2,e2=evs(pre+head+plain+tail); s3,e3=evs(pre+head+rests+tail)
    if s1!="OK": print("FAIL",s1,pre+head+grp+tail); bad+=1; continue
    n1,n2,n3=notes(e1),notes(e2),notes(e3)
    # law: sentinels (key 55,57 at o4) identical in all three
    sent=lambda n:[x for x in n if x[2] in (55,57)]
    if not (sent(n1)==sent(n2)==sent(n3)): print("SENTINEL",mode,grp,sent(n1),sent(n2)); bad+=1
    g1=[x for x in n1 if x[2] not in (55,57)]; g2=[x for x in n2 if x[2] not in (55,57)]
    if same and mode in (0,1,2):
        exp=[(g2[0][0],g2[-1][1],g2[0][2])]
        if g1!=exp: print("MERGE",mode,val,q,grp,"got",g1,"exp",exp); bad+=1
    if mode==3:
        # every note held to end of group
        end=max(x[1] for x in g2)
        if sorted((x[0],x[2]) for x in g1)!=sorted((x[0],x[2]) for x in g2) or any(x[1]!=end for x in g1):
            print("ALPE",grp,g1,g2); bad+=1
    if mode==1 and not same:
        if len(g1)!=1 or g1[0][0]!=g2[0][0] or g1[0][1]!=g2[-1][1]: print("BEND one sustained",grp,g1,g2); bad+=1
    if mode==2 and not same and val==0:
        # gate until next note begins
        runs=[]
        for x in g2:
            if runs and runs[-1][2]==x[2]: runs[-1]=(runs[-1][0],x[1],x[2])
            else: runs.append(x)
        exp=[(a[0], (runs[i+1][0] if i+1<len(runs) else a[1]), a[2]) for i,a in enumerate(runs)]
        if g1!=sorted(exp): print("GATE",grp,q,"got",g1,"exp",sorted(exp)); bad+=1
    # no note sounded twice: number of note-ons in group ≤ number of plain notes
    if len(g1)>len(g2): print("TWICE",mode,grp,g1,g2); bad+=1
print("ties checked 400 bad",bad)
