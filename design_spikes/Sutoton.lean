-- spike 11: sutoton vocabulary search — first match in the byte-length-sorted list is the longest match (C17 kernel)
namespace Sut
open List

structure Item where
  name : List Nat
  value : List Nat

def utf8Len (c : Nat) : Nat := if c < 0x80 then 1 else if c < 0x800 then 2 else if c < 0x10000 then 3 else 4
def blen : List Nat → Nat
  | [] => 0
  | c :: cs => utf8Len c + blen cs

/-- `cur.eq(&cmd.name)` scanning `items` in order -/
def firstMatch (items : List Item) (rest : List Nat) : Option Item :=
  items.find? (fun it => it.name.isPrefixOf rest)

/-- invariant kept by `sort_items` (stable sort by `name.len()` descending) -/
def Sorted (items : List Item) : Prop := items.Pairwise (fun a b => blen b.name ≤ blen a.name)

theorem utf8Len_pos (c : Nat) : 1 ≤ utf8Len c := by
  unfold utf8Len; split <;> (try split) <;> (try split) <;> omega

theorem blen_append (a b : List Nat) : blen (a ++ b) = blen a + blen b := by
  induction a with
  | nil => simp [blen]
  | cons x xs ih => simp [blen, ih]; omega

theorem blen_ge_length (a : List Nat) : a.length ≤ blen a := by
  induction a with
  | nil => simp [blen]
  | cons x xs ih => have := utf8Len_pos x; simp [blen]; omega

/-- a strictly shorter prefix has strictly fewer bytes -/
theorem blen_lt_of_prefix {a b : List Nat} (h : a <+: b) (hl : a.length < b.length) : blen a < blen b := by
  obtain ⟨t, rfl⟩ := h
  rw [blen_append]
  have : 1 ≤ t.length := by simp at hl; omega
  have := blen_ge_length t
  omega

theorem first_match_is_longest (items : List Item) (rest : List Nat) (it : Item)
    (hs : Sorted items) (hf : firstMatch items rest = some it) :
    ∀ jt ∈ items, jt.name.isPrefixOf rest = true → jt.name.length ≤ it.name.length := by
  intro jt hj hjp
  unfold firstMatch at hf
  obtain ⟨hit, l1, l2, hsplit, hnone⟩ := List.find?_eq_some_iff_append.mp hf
  have hitp : it.name <+: rest := List.isPrefixOf_iff_prefix.mp (by simpa using hit)
  have hjtp : jt.name <+: rest := List.isPrefixOf_iff_prefix.mp hjp
  -- jt is not in l1 (nothing there matches)
  rw [hsplit] at hj hs
  rcases List.mem_append.mp hj with h1 | h2
  · have := hnone jt h1; simp [hjp] at this
  · rcases List.mem_cons.mp h2 with rfl | h3
    · exact Nat.le_refl _
    · -- jt after it in a list sorted by byte length descending
      have hsorted : blen jt.name ≤ blen it.name := by
        have hp := (List.pairwise_append.mp hs).2.1
        exact (List.pairwise_cons.mp hp).1 jt h3
      -- both are prefixes of `rest`
      by_cases hle : jt.name.length ≤ it.name.length
      · exact hle
      · have hlt : it.name.length < jt.name.length := by omega
        have hpre : it.name <+: jt.name := List.prefix_of_prefix_length_le hitp hjtp (by omega)
        have := blen_lt_of_prefix hpre hlt
        omega

/-- `sort_items` establishes the invariant -/
theorem sort_sorted (items : List Item) :
    Sorted (items.mergeSort (fun a b => decide (blen b.name ≤ blen a.name))) := by
  have := List.pairwise_mergeSort (le := fun a b : Item => decide (blen b.name ≤ blen a.name))
    (by intro a b c; simp only [decide_eq_true_eq]; omega)
    (by intro a b; simp only [Bool.or_eq_true, decide_eq_true_eq]; omega) items
  simpa [Sorted] using this

#print axioms first_match_is_longest
#print axioms sort_sorted
end Sut
