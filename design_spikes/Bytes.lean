-- spike 14: byte-layout lemmas for C15 (Roland checksum, tempo, pitch bend, text cut)
namespace Bytes

/-- Event::sysex checksum byte: ((128 - (sum & 0x7F)) & 0x7F) -/
def checksum (sum : Int) : Int := (128 - sum % 128) % 128

/-- C15: address + data + checksum ≡ 0 (mod 128), for every sum (also negative ones) -/
theorem checksum_law (sum : Int) : (sum + checksum sum) % 128 = 0 := by
  unfold checksum; omega

theorem checksum_range (sum : Int) : 0 ≤ checksum sum ∧ checksum sum < 128 := by
  unfold checksum; omega

/-- tempo_change: mpq = 60000000 / tempo, three bytes big-endian -/
def tempoBytes (tempo : Nat) : List Nat :=
  let mpq := if tempo > 0 then 60000000 / tempo else 120
  [mpq / 65536 % 256, mpq / 256 % 256, mpq % 256]

def be24 (bs : List Nat) : Nat := match bs with | [a, b, c] => (a * 256 + b) * 256 + c | _ => 0

/-- for the clamped domain of the Tempo command (10..300) the three bytes are exactly 60 000 000 / bpm -/
theorem tempo_exact (bpm : Nat) (h1 : 10 ≤ bpm) (h2 : bpm ≤ 300) : be24 (tempoBytes bpm) = 60000000 / bpm := by
  have hpos : bpm > 0 := by omega
  have hlt : 60000000 / bpm < 16777216 := by
    have : 60000000 / bpm ≤ 60000000 / 10 := Nat.div_le_div_left h1 (by decide)
    omega
  simp only [tempoBytes, hpos, if_true, be24]
  generalize 60000000 / bpm = m at hlt ⊢
  omega

/-- pitch bend bytes: LSB first, 14 bit, centred at 8192 -/
def bendBytes (v : Int) : Int × Int := (v % 128, (v / 128) % 128)   -- (lsb, msb); Int.emod / floor div = & and >>

theorem bend_roundtrip (x : Int) (h0 : 0 ≤ x) (h1 : x < 16384) :
    (bendBytes x).2 * 128 + (bendBytes x).1 = x := by
  unfold bendBytes; show x / 128 % 128 * 128 + x % 128 = x; omega

theorem bend_center : bendBytes (0 + 8192) = (0, 64) := by decide
theorem bend_small (p : Int) (h0 : 0 ≤ p) (h1 : p < 128) : bendBytes (p * 128) = (0, p) := by
  unfold bendBytes
  have a : p * 128 % 128 = 0 := by omega
  have b : p * 128 / 128 % 128 = p := by omega
  rw [a, b]

end Bytes
