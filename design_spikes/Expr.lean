-- spike 3: precedence-climbing parser (shape of the planned read_calc repair) inverts a minimal-parenthesis printer
namespace Ex

structure Op where
  id : Nat
  lvl : Nat          -- 1 = tightest (* / %), 2 (+ -), 3 (comparisons), 4 (& |)
deriving DecidableEq, Repr

inductive Tk where
  | num (n : Int) | op (o : Op) | lp | rp
deriving DecidableEq, Repr

inductive Expr where
  | num (n : Int)
  | bin (o : Op) (a b : Expr)
deriving DecidableEq, Repr

def top : Nat := 4

-- executable parser, fuel-bounded
mutual
def parseValue : Nat → List Tk → Option (Expr × List Tk)
  | 0, _ => none
  | _+1, .num n :: r => some (.num n, r)
  | f+1, .lp :: r =>
    match parseLevel f top r with
    | some (e, .rp :: r') => some (e, r')
    | _ => none
  | _+1, _ => none
def parseLevel : Nat → Nat → List Tk → Option (Expr × List Tk)
  | 0, _, _ => none
  | f+1, m, ts =>
    match parseValue f ts with
    | some (e, r) => parseLoop f m e r
    | none => none
def parseLoop : Nat → Nat → Expr → List Tk → Option (Expr × List Tk)
  | 0, _, _, _ => none
  | f+1, m, left, .op o :: r =>
    if o.lvl ≤ m then
      match parseLevel f (o.lvl - 1) r with
      | some (right, r') => parseLoop f m (.bin o left right) r'
      | none => none
    else some (left, .op o :: r)
  | _+1, _, left, ts => some (left, ts)
end

/-- printer with minimal parentheses; `m` = loosest level allowed unparenthesised -/
def body (pa pb : List Tk) (o : Op) : List Tk := pa ++ (.op o :: pb)

def print : Nat → Expr → List Tk
  | _, .num n => [.num n]
  | m, .bin o a b =>
    if o.lvl ≤ m then print o.lvl a ++ (.op o :: print (o.lvl - 1) b)
    else .lp :: (print o.lvl a ++ (.op o :: print (o.lvl - 1) b)) ++ [.rp]

def wfE : Expr → Prop
  | .num _ => True
  | .bin o a b => 1 ≤ o.lvl ∧ o.lvl ≤ top ∧ wfE a ∧ wfE b

#eval print top (.bin ⟨0,1⟩ (.bin ⟨1,2⟩ (.num 1) (.num 2)) (.num 3))   -- (1+2)*3
#eval parseLevel 50 top (print top (.bin ⟨0,1⟩ (.bin ⟨1,2⟩ (.num 1) (.num 2)) (.num 3)))
#eval parseLevel 50 top (print top (.bin ⟨1,2⟩ (.num 10) (.bin ⟨1,2⟩ (.num 2) (.num 3))))  -- 10-(2-3)

end Ex
