-- spike 10: exec_while (parametric in condition/body effect) — unrolling, BREAK/CONTINUE scope, limit (C11 kernel)
namespace While

structure Ops (σ : Type) where
  cond : σ → Bool
  body : σ → σ
  flag : σ → Nat            -- Flags.break_flag: 0 none, 1 break, 2 continue, 3 return
  clearFlag : σ → σ
  logLimit : σ → σ

/-- runner::exec_while as written (limit test before the flag is examined) -/
def execWhile {σ} (o : Ops σ) (maxLoop : Nat) : Nat → Nat → σ → σ
  | 0, _, s => s
  | f+1, c, s =>
    if o.cond s = false then s else
    if c + 1 > maxLoop then o.logLimit (o.body s) else
    if o.flag (o.body s) = 1 then o.clearFlag (o.body s)
    else if o.flag (o.body s) = 2 then execWhile o maxLoop f (c+1) (o.clearFlag (o.body s))
    else if o.flag (o.body s) = 3 then o.body s
    else execWhile o maxLoop f (c+1) (o.body s)

def iterate {σ} (f : σ → σ) : Nat → σ → σ
  | 0, s => s
  | k+1, s => iterate f k (f s)

/-- condition true exactly `k` more times, body never raises a flag -/
def RunsFor {σ} (o : Ops σ) : Nat → σ → Prop
  | 0, s => o.cond s = false
  | k+1, s => o.cond s = true ∧ o.flag (o.body s) = 0 ∧ RunsFor o k (o.body s)

/-- unrolling: a WHILE whose condition holds k times (within the limit) is the body written k times -/
theorem while_unroll {σ} (o : Ops σ) (maxLoop : Nat) :
    ∀ (k F c : Nat) (s : σ), RunsFor o k s → c + k ≤ maxLoop → k + 1 ≤ F →
      execWhile o maxLoop F c s = iterate o.body k s := by
  intro k
  induction k with
  | zero =>
    intro F c s h _ hF
    obtain ⟨f, rfl⟩ : ∃ f, F = f + 1 := ⟨F - 1, by omega⟩
    simp only [RunsFor] at h
    simp [execWhile, h, iterate]
  | succ k ih =>
    intro F c s h hc hF
    obtain ⟨f, rfl⟩ : ∃ f, F = f + 1 := ⟨F - 1, by omega⟩
    obtain ⟨h1, h2, h3⟩ := h
    have hl : ¬ (c + 1 > maxLoop) := by omega
    simp only [execWhile, h1, hl, h2, iterate]
    simp
    exact ih f (c+1) (o.body s) h3 (by omega) (by omega)

/-- BREAK leaves exactly this loop and is consumed by it -/
theorem while_break {σ} (o : Ops σ) (maxLoop f c : Nat) (s : σ)
    (hc : o.cond s = true) (hl : c + 1 ≤ maxLoop) (hb : o.flag (o.body s) = 1) :
    execWhile o maxLoop (f+1) c s = o.clearFlag (o.body s) := by
  have : ¬ (c + 1 > maxLoop) := by omega
  simp [execWhile, hc, this, hb]

/-- the cut-off: with a condition that never fails and a flag-free body the loop stops after
    maxLoop + 1 passes and logs once -/
theorem while_limit {σ} (o : Ops σ) (maxLoop : Nat)
    (hc : ∀ s, o.cond s = true) (hf : ∀ s, o.flag (o.body s) = 0) :
    ∀ (c F : Nat) (s : σ), c ≤ maxLoop → maxLoop + 2 - c ≤ F →
      execWhile o maxLoop F c s = o.logLimit (iterate o.body (maxLoop + 1 - c) s) := by
  intro c F s hcm hF
  induction h : maxLoop - c generalizing c F s with
  | zero =>
    have : c = maxLoop := by omega
    subst this
    obtain ⟨f, rfl⟩ : ∃ f, F = f + 1 := ⟨F - 1, by omega⟩
    have e : c + 1 - c = 1 := by omega
    simp [execWhile, hc, e, iterate]
  | succ d ih =>
    obtain ⟨f, rfl⟩ : ∃ f, F = f + 1 := ⟨F - 1, by omega⟩
    have hl : ¬ (c + 1 > maxLoop) := by omega
    have e : maxLoop + 1 - c = (maxLoop + 1 - (c+1)) + 1 := by omega
    simp only [execWhile, hc, hl, hf, e, iterate]
    simp
    have e2 : maxLoop - c = maxLoop + 1 - (c + 1) := by omega
    rw [e2]
    exact ih (c+1) f (o.body s) (by omega) (by omega) (by omega)

/-- D#42 in the model: if the last pass before the cut-off ended with CONTINUE, the flag is still
    set afterwards (unless logLimit clears it, which the code does not) -/
theorem while_limit_leaks {σ} (o : Ops σ) (f : Nat) (s : σ)
    (hc : o.cond s = true) (hlog : ∀ x, o.flag (o.logLimit x) = o.flag x) (h2 : o.flag (o.body s) = 2) :
    o.flag (execWhile o 0 (f+1) 0 s) = 2 := by
  simp [execWhile, hc, hlog, h2]

#print axioms while_unroll
#print axioms while_limit
end While
