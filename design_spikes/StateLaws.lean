-- spike 16: small state laws — change_cur_track / track_sync (C12), exec_sub / exec_div (C06), add_log / get_logs_str (C19)
namespace StateLaws

structure Trk where
  timepos : Int
  length : Int
  channel : Int
deriving Repr

def clampCh (c : Int) : Int := if c < 0 then 0 else if c > 15 then 15 else c
def newTrk (tb ch : Int) : Trk := ⟨0, tb, clampCh ch⟩

/-- Song::change_cur_track **after the planned repair of D#8**: each new track takes its own index − 1 -/
def growTo (tb : Int) : Nat → List Trk → List Trk
  | 0, ts => ts
  | f+1, ts => growTo tb f (ts ++ [newTrk tb ((ts.length : Int) - 1)])

def changeCurTrack (tb : Int) (ts : List Trk) (no : Nat) : List Trk :=
  growTo tb (no + 1 - ts.length) ts

theorem growTo_length (tb : Int) (f : Nat) (ts : List Trk) : (growTo tb f ts).length = ts.length + f := by
  induction f generalizing ts with
  | zero => simp [growTo]
  | succ f ih => simp [growTo, ih]; omega

/-- C01/C12: every intermediate track is materialised -/
theorem change_length (tb : Int) (ts : List Trk) (no : Nat) :
    (changeCurTrack tb ts no).length = max ts.length (no + 1) := by
  simp [changeCurTrack, growTo_length]; omega

theorem growTo_prefix (tb : Int) (f : Nat) (ts : List Trk) : ts <+: growTo tb f ts := by
  induction f generalizing ts with
  | zero => exact List.prefix_refl _
  | succ f ih => exact List.IsPrefix.trans (List.prefix_append _ _) (ih _)

/-- C12: a track first used after a higher-numbered one still has its own default channel -/
theorem growTo_channel (tb : Int) (f : Nat) (ts : List Trk) (i : Nat) (h1 : ts.length ≤ i) (h2 : i < ts.length + f) :
    ((growTo tb f ts)[i]?).map (·.channel) = some (clampCh ((i : Int) - 1)) := by
  induction f generalizing ts with
  | zero => omega
  | succ f ih =>
    simp only [growTo]
    by_cases hi : i = ts.length
    · have hp := growTo_prefix tb f (ts ++ [newTrk tb ((ts.length : Int) - 1)])
      obtain ⟨t, ht⟩ := hp
      rw [← ht, hi]
      simp [List.getElem?_append_left, List.getElem?_append_right, newTrk]
    · exact ih (ts ++ [newTrk tb ((ts.length : Int) - 1)]) (by simp; omega) (by simp; omega)

/-- Song::track_sync -/
def trackSync (ts : List Trk) (cur : Nat) : List Trk :=
  match ts[cur]? with
  | some c => ts.map (fun t => { t with timepos := c.timepos })
  | none => ts
theorem trackSync_all (ts : List Trk) (cur : Nat) (c : Trk) (h : ts[cur]? = some c) :
    ∀ t ∈ trackSync ts cur, t.timepos = c.timepos := by
  intro t ht; simp [trackSync, h] at ht; obtain ⟨_, _, rfl⟩ := ht; rfl

/-- exec_sub / exec_div on the current track, parametric in the body effect -/
def execSub (body : Trk → Trk) (t : Trk) : Trk := { body t with timepos := t.timepos }
def execDiv (body : Trk → Trk) (divLen cnt : Int) (t : Trk) : Trk :=
  let t1 := { t with length := if cnt > 0 then Int.tdiv divLen cnt else 0 }
  { body t1 with timepos := t.timepos + divLen, length := t.length }

theorem sub_restores (body : Trk → Trk) (t : Trk) : (execSub body t).timepos = t.timepos := rfl
theorem div_advances (body : Trk → Trk) (L cnt : Int) (t : Trk) :
    (execDiv body L cnt t).timepos = t.timepos + L ∧ (execDiv body L cnt t).length = t.length := ⟨rfl, rfl⟩

/-- Song::add_log and get_logs_str -/
def addLog (maxLogs : Nat) (logs : List (List Nat)) (m : List Nat) : List (List Nat) :=
  if maxLogs ≤ logs.length then logs else logs ++ [m]

theorem addLog_cap (maxLogs : Nat) (logs : List (List Nat)) (m : List Nat) (h : logs.length ≤ maxLogs) :
    (addLog maxLogs logs m).length ≤ maxLogs := by
  unfold addLog
  split
  · exact h
  · simp; omega

theorem addLogs_cap (maxLogs : Nat) (ms : List (List Nat)) :
    (ms.foldl (addLog maxLogs) []).length ≤ maxLogs := by
  suffices ∀ logs : List (List Nat), logs.length ≤ maxLogs → (ms.foldl (addLog maxLogs) logs).length ≤ maxLogs from
    this [] (by simp)
  induction ms with
  | nil => intro logs h; simpa
  | cons m ms ih => intro logs h; exact ih _ (addLog_cap maxLogs logs m h)

def logsStr (maxChars : Nat) (joined : List Nat) : List Nat :=
  if joined.length ≤ maxChars then joined else joined.take maxChars ++ [46, 46, 46]

theorem logsStr_bound (maxChars : Nat) (j : List Nat) : (logsStr maxChars j).length ≤ maxChars + 3 := by
  unfold logsStr; split
  · omega
  · simp; omega

#print axioms growTo_channel
#print axioms addLogs_cap
end StateLaws
