import Vlq  -- (spike: was Lt.Basic)
-- spike 9: midi::array_readl_delta_time (index loop over the byte vector) — C20 kernel
namespace DumpDelta
open Spike (encodeDelta hi vlqMore vlqMore_rev hi_succ)

/-- the reader as written today (`cv < 0x7F`): returns (value, new pos) -/
def readOld (a : List Nat) : Nat → Nat → Nat → Nat × Nat   -- fuel pos v
  | 0, pos, v => (v, pos)
  | f+1, pos, v =>
    match a[pos]? with
    | none => (v, pos)
    | some cv => if cv < 0x7F then (v * 128 + cv, pos + 1) else readOld a f (pos + 1) (v * 128 + cv % 128)

/-- the repaired reader (`cv < 0x80`) -/
def readNew (a : List Nat) : Nat → Nat → Nat → Nat × Nat
  | 0, pos, v => (v, pos)
  | f+1, pos, v =>
    match a[pos]? with
    | none => (v, pos)
    | some cv => if cv < 0x80 then (v * 128 + cv, pos + 1) else readNew a f (pos + 1) (v * 128 + cv % 128)

/-- negation witness for the unchanged code: delta 127 is encoded as the single byte 7F, and the
    old reader runs into the next byte (here a note-on status 0x90) -/
theorem readOld_wrong : readOld (encodeDelta 127 ++ [0x90, 60, 100]) 10 0 0 ≠ (127, 1) := by decide

example : readNew (encodeDelta 127 ++ [0x90, 60, 100]) 10 0 0 = (127, 1) := by decide

theorem readNew_hi (a : List Nat) (v : Nat) : ∀ (pre : List Nat) (rest : List Nat) (acc f : Nat),
    a = pre ++ hi v ++ rest → (hi v).length ≤ f →
    ∃ k, readNew a (f + 1) pre.length acc =
      readNew a (f + 1 - (hi v).length) (pre.length + (hi v).length) (acc * 128 ^ k + v) := by
  induction v using Nat.strongRecOn with
  | _ v ih =>
    intro pre rest acc f ha hf
    cases v with
    | zero => exact ⟨0, by simp [hi]⟩
    | succ w =>
      obtain ⟨q, r, hq, hr, hqr, hhi⟩ := hi_succ w
      rw [hhi] at ha hf ⊢
      simp only [List.length_append, List.length_cons, List.length_nil] at hf ⊢
      obtain ⟨k, hk⟩ := ih q hq pre ([128 + r] ++ rest) acc f (by rw [ha]; simp) (by omega)
      refine ⟨k + 1, ?_⟩
      rw [hk]
      -- one more step over the byte 128 + r
      have hget : a[pre.length + (hi q).length]? = some (128 + r) := by
        rw [ha]; simp [List.getElem?_append_right, List.getElem?_append_left]
      obtain ⟨g, hg⟩ : ∃ g, f + 1 - (hi q).length = g + 1 := ⟨f - (hi q).length, by omega⟩
      rw [hg, readNew, hget]
      have h1 : ¬ (128 + r < 0x80) := by omega
      have h2 : (128 + r) % 128 = r := by omega
      simp only [h1, if_false, h2]
      have hacc : (acc * 128 ^ k + q) * 128 + r = acc * 128 ^ (k + 1) + (w + 1) := by
        rw [Nat.pow_succ, Nat.add_mul, ← hqr]
        generalize 128 ^ k = p
        rw [Nat.mul_assoc]; omega
      rw [hacc]
      congr 1 <;> omega

/-- C20 kernel: the repaired reader returns exactly the encoded delta and stops right after it -/
theorem readNew_inverts (n : Nat) (pre rest : List Nat) (f : Nat) (hf : (encodeDelta n).length ≤ f) :
    readNew (pre ++ encodeDelta n ++ rest) (f + 1) pre.length 0 = (n, pre.length + (encodeDelta n).length) := by
  have henc : encodeDelta n = hi (n / 128) ++ [n % 128] := by
    unfold encodeDelta
    rw [List.reverse_cons, vlqMore_rev _ _ (by omega : n / 128 < n + 1)]
  rw [henc] at hf ⊢
  simp only [List.length_append, List.length_cons, List.length_nil] at hf ⊢
  obtain ⟨k, hk⟩ := readNew_hi (pre ++ (hi (n / 128) ++ [n % 128]) ++ rest) (n / 128) pre ([n % 128] ++ rest) 0 f
    (by simp) (by omega)
  rw [hk]
  have hget : (pre ++ (hi (n / 128) ++ [n % 128]) ++ rest)[pre.length + (hi (n / 128)).length]? = some (n % 128) := by
    simp [List.getElem?_append_right, List.getElem?_append_left]
  obtain ⟨g, hg⟩ : ∃ g, f + 1 - (hi (n / 128)).length = g + 1 := ⟨f - (hi (n / 128)).length, by omega⟩
  rw [hg, readNew, hget]
  have h1 : n % 128 < 0x80 := Nat.mod_lt _ (by decide)
  simp only [h1, if_true, Nat.zero_mul, Nat.zero_add]
  have := Nat.div_add_mod n 128
  congr 1 <;> omega

#print axioms readNew_inverts
#print axioms readOld_wrong
end DumpDelta
