-- spike 8: runner::calc_length over a suffix cursor; part closedness and the closed-form sum (C04 kernel)
namespace Len

def isDigit (c : Nat) : Bool := 48 ≤ c && c ≤ 57
def cPct := 37
def cMinus := 45
def cDot := 46
def cHat := 94
def cPlus := 43

/-- decimal accumulation of get_int -/
def accDigits : Int → List Nat → Int × List Nat
  | acc, [] => (acc, [])
  | acc, c :: cs => if isDigit c then accDigits (acc * 10 + ((c : Int) - 48)) cs else (acc, c :: cs)

/-- SourceCursor::get_int on the length alphabet (no `$`, `0x`, `0o` can occur there) -/
def getInt (dflt : Int) (cs : List Nat) : Int × List Nat :=
  let (flag, cs1) := match cs with
    | c :: r => if c = cMinus then ((-1 : Int), r) else (1, cs)
    | [] => (1, cs)
  match cs1 with
  | c :: _ => if isDigit c then let (n, r) := accDigits 0 cs1; (n * flag, r) else (dflt, cs1)
  | [] => (dflt, cs1)

/-- up to four dots: eq("....") / eq("...") / eq("..") / single -/
def takeDots (cs : List Nat) : Nat × List Nat :=
  match cs with
  | c1 :: r1 => if c1 = 46 then
      match r1 with
      | c2 :: r2 => if c2 = 46 then
          match r2 with
          | c3 :: r3 => if c3 = 46 then
              match r3 with
              | c4 :: r4 => if c4 = 46 then (4, r4) else (3, r3)
              | [] => (3, r3)
            else (2, r2)
          | [] => (2, r2)
        else (1, r1)
      | [] => (1, r1)
    else (0, cs)
  | [] => (0, cs)

variable (tb dflt : Int) (dot : Nat → Int → Int)   -- dot k v = value after k dots (float semantics abstracted)

def startsNum (cs : List Nat) : Bool :=
  match cs with
  | c :: _ => isDigit c || c = cMinus
  | [] => false

def stripPct (step : Bool) (cs : List Nat) : Bool × List Nat :=
  match cs with
  | c :: r => if c = cPct then (true, r) else (step, cs)
  | [] => (step, cs)

/-- numeric field of a part: ticks in step mode, otherwise whole note / n (0 = default length) -/
def partNum (step : Bool) (cs : List Nat) : Int × List Nat :=
  if step then getInt 0 cs
  else ((if (getInt 4 cs).1 = 0 then dflt else Int.tdiv (tb * 4) (getInt 4 cs).1), (getInt 4 cs).2)

def partBody (step : Bool) (cs : List Nat) : Int × Bool × List Nat :=
  if startsNum cs then
    (dot (takeDots (partNum tb dflt step cs).2).1 (partNum tb dflt step cs).1, step,
      (takeDots (partNum tb dflt step cs).2).2)
  else (dflt, step, cs)

/-- one part after `^`/`+` has been consumed: (value, step mode afterwards, rest) -/
def part (step : Bool) (cs : List Nat) : Int × Bool × List Nat :=
  partBody tb dflt dot (stripPct step cs).1 (stripPct step cs).2

/-- the `while` loop over parts: sum of the values of the parts read -/
def loop : Nat → Bool → List Nat → Int
  | 0, _, _ => 0
  | f+1, step, c :: cs =>
    if c = cHat ∨ c = cPlus then
      (part tb dflt dot step cs).1 + loop f (part tb dflt dot step cs).2.1 (part tb dflt dot step cs).2.2
    else 0
  | _+1, _, [] => 0

/-- head of the expression: (value, step mode, rest) -/
def head (cs : List Nat) : Int × Bool × List Nat :=
  let (step, cs) := match cs with
    | c :: r => if c = cPct then (true, r) else (false, cs)
    | [] => (false, cs)
  let (res, cs) :=
    if startsNum cs then
      if step then getInt 0 cs else
        let (i, cs) := getInt 4 cs
        (if i > 0 then Int.tdiv (tb * 4) i else 0, cs)
    else (dflt, cs)
  let (k, cs) := takeDots cs
  (dot k res, step, cs)

def calcLength (s : List Nat) : Int :=
  if s = [] then dflt else
  let (res, step, rest) := head tb dflt dot s
  res + loop tb dflt dot (rest.length + 1) step rest

def exDot (k : Nat) (v : Int) : Int :=
  match k with | 0 => v | 1 => v + v/2 | 2 => v + v*3/4 | 3 => v + v*7/8 | _ => v + v*15/16
def str (s : String) : List Nat := s.toList.map (·.toNat)
#eval calcLength 96 96 exDot (str "4.")      -- 144
#eval calcLength 48 48 exDot (str "8^4.")    -- 96
#eval calcLength 96 48 exDot (str "^%-1")    -- 47
#eval calcLength 96 96 exDot (str "%10^4")   -- 14 (sticky step mode, D#30)
end Len
