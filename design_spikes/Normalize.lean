import Smf  -- (spike: was Lt.Smf)
-- spike 7: split_note_off + events_sort (stable) — C02 normalisation lemmas
namespace Norm
open Smf List

def noteOffOf (e : Event) : Event := { e with kind := .noteOff, time := e.time + e.v2 }

def splitNoteOff : List Event → List Event
  | [] => []
  | e :: es => if e.kind = .noteOn then e :: noteOffOf e :: splitNoteOff es else e :: splitNoteOff es

def le (a b : Event) : Bool := decide (a.time ≤ b.time)
def sortByTime (es : List Event) : List Event := es.mergeSort le
def normalize (es : List Event) : List Event := sortByTime (splitNoteOff es)

theorem le_trans' : ∀ a b c : Event, le a b → le b c → le a c := by
  intro a b c; simp only [le, decide_eq_true_eq]; omega
theorem le_total' : ∀ a b : Event, le a b || le b a := by
  intro a b; simp only [le, Bool.or_eq_true, decide_eq_true_eq]; omega

theorem normalize_perm (es : List Event) : (normalize es).Perm (splitNoteOff es) :=
  List.mergeSort_perm _ _

theorem normalize_sorted (es : List Event) : (normalize es).Pairwise (fun a b => a.time ≤ b.time) := by
  have := List.pairwise_mergeSort le_trans' le_total' (splitNoteOff es)
  simpa [le, normalize, sortByTime] using this

/-- stability: two events issued in this order whose ticks are in order stay in this order -/
theorem normalize_stable (es : List Event) (a b : Event) (hab : a.time ≤ b.time)
    (h : [a, b] <+ splitNoteOff es) : [a, b] <+ normalize es :=
  List.pair_sublist_mergeSort le_trans' le_total' (by simpa [le] using hab) h

/-- every note-on is followed (in issue order) by its note-off at start + gate with equal channel/key/velocity -/
theorem split_pairs (es : List Event) (e : Event) (he : e ∈ es) (hk : e.kind = .noteOn) :
    [e, noteOffOf e] <+ splitNoteOff es := by
  induction es with
  | nil => cases he
  | cons x xs ih =>
    rcases List.mem_cons.mp he with rfl | hx
    · simp only [splitNoteOff, hk, if_true]
      exact (List.Sublist.cons_cons _ (List.Sublist.cons_cons _ (List.nil_sublist _)))
    · have := ih hx
      simp only [splitNoteOff]
      split
      · exact (this.cons _).cons _
      · exact this.cons _

theorem note_off_after_on (es : List Event) (e : Event) (he : e ∈ es) (hk : e.kind = .noteOn) :
    [e, noteOffOf e] <+ normalize es :=
  normalize_stable es e (noteOffOf e) (by simp [noteOffOf]) (split_pairs es e he hk)

/-- no event is lost or invented: non-note-on events pass through, each note-on adds exactly one note-off -/
theorem split_length (es : List Event) :
    (splitNoteOff es).length = es.length + (es.filter (fun e => e.kind = .noteOn)).length := by
  induction es with
  | nil => rfl
  | cons x xs ih =>
    simp only [splitNoteOff, List.filter_cons]
    split <;> simp_all <;> omega

#print axioms note_off_after_on
#print axioms normalize_sorted
end Norm
