import Core  -- (spike: was Lt.Core)
namespace Core
open Loop

theorem runFuel_of_runN {α σ} (act : α → σ → σ) (toks : List (Tok α)) :
    ∀ (k : Nat) (c c' : Cfg σ), runN act toks k c = some c' → step act toks c' = none →
      ∀ F, k + 1 ≤ F → runFuel act toks F c = some c'.2.2 := by
  intro k
  induction k with
  | zero =>
    intro c c' h hs F hF
    simp [runN] at h; subst h
    obtain ⟨f, rfl⟩ : ∃ f, F = f + 1 := ⟨F - 1, by omega⟩
    simp [runFuel, hs]
  | succ k ih =>
    intro c c' h hs F hF
    obtain ⟨f, rfl⟩ : ∃ f, F = f + 1 := ⟨F - 1, by omega⟩
    simp only [runN] at h
    cases hst : step act toks c with
    | none => simp [hst] at h
    | some c1 =>
      simp only [hst] at h
      simp only [runFuel, hst]
      exact ih c1 c' h hs f (by omega)

theorem step_at_end {α σ} (act : α → σ → σ) (toks : List (Tok α)) (st : List Item) (s : σ) :
    step act toks (toks.length, st, s) = none := by
  simp [step]

/-- one level, executable form of `machine_trace` -/
theorem level_run {α} (ts : List (Tree α)) (hw : wfL ts = true) :
    ∃ k, ∀ {σ} (act : α → σ → σ) (s : σ) (F : Nat), k + 1 ≤ F →
      runFuel act (flattenL ts) F (0, [], s) = some (foldAct act (unrollL ts) s) := by
  obtain ⟨k, hk⟩ := machine_trace ts hw
  exact ⟨k, fun act s F hF => runFuel_of_runN act _ k _ _ (hk act s) (step_at_end act _ _ _) F hF⟩

mutual
theorem wf_toTree (c : Cmd) (h : cwf c = true) : wf (toTree c) = true := by
  cases c with
  | loop n b hb k =>
    simp only [cwf, Bool.and_eq_true, decide_eq_true_eq, Bool.or_eq_true] at h
    obtain ⟨⟨⟨hn, hb1⟩, hk1⟩, hbk⟩ := h
    simp only [toTree, wf, Bool.and_eq_true, decide_eq_true_eq, Bool.or_eq_true]
    refine ⟨⟨⟨hn, wf_toTrees b hb1⟩, wf_toTrees k hk1⟩, ?_⟩
    rcases hbk with h1 | h2
    · exact Or.inl h1
    · right; cases k <;> simp_all [toTrees]
  | note _ _ => simp [toTree, wf]
  | rest _ => simp [toTree, wf]
  | setL _ => simp [toTree, wf]
  | sub b => simp [toTree, wf]
  | div _ _ b => simp [toTree, wf]
theorem wf_toTrees (cs : List Cmd) (h : cwfL cs = true) : wfL (toTrees cs) = true := by
  cases cs with
  | nil => simp [toTrees, wfL]
  | cons c cs =>
    simp only [cwfL, Bool.and_eq_true] at h
    simp [toTrees, wfL, wf_toTree c h.1, wf_toTrees cs h.2]
end


theorem fold_iterL {σ} (act : Leaf → σ → σ) (a b : List Leaf) (fa fb : σ → σ)
    (ha : ∀ s, foldAct act a s = fa s) (hb : ∀ s, foldAct act b s = fb s) (n : Nat) (s : σ) :
    foldAct act (iterL a b n) s = iter fa fb n s := by
  have ha' : foldAct act a = fa := funext ha
  have hb' : foldAct act b = fb := funext hb
  rw [← ha', ← hb', iter_fold]

-- exec_refines_sem (spike form): with enough nesting depth `d` and per-level fuel `F`, executing the
-- unrolled leaves (blocks recursively running the loop machine on their children) is `sem`.
mutual
theorem refine (c : Cmd) (hw : cwf c = true) : ∀ d, depth c ≤ d →
    ∃ F0, ∀ F, F0 ≤ F → ∀ s, foldAct (actD F d) (unroll (toTree c)) s = sem c s := by
  intro d hd
  cases c with
  | note len key => exact ⟨0, fun F _ s => by cases d <;> simp [toTree, unroll, foldAct, actD, sem]⟩
  | rest len => exact ⟨0, fun F _ s => by cases d <;> simp [toTree, unroll, foldAct, actD, sem]⟩
  | setL n => exact ⟨0, fun F _ s => by cases d <;> simp [toTree, unroll, foldAct, actD, sem]⟩
  | loop n b hb k =>
    simp only [cwf, Bool.and_eq_true, decide_eq_true_eq, Bool.or_eq_true] at hw
    simp only [depth] at hd
    obtain ⟨Fb, hFb⟩ := refineL b hw.1.1.2 d (by omega)
    obtain ⟨Fk, hFk⟩ := refineL k hw.1.2 d (by omega)
    refine ⟨max Fb Fk, fun F hF s => ?_⟩
    simp only [toTree, unroll, sem]
    exact fold_iterL _ _ _ _ _ (hFb F (by omega)) (hFk F (by omega)) n s
  | sub b =>
    simp only [cwf] at hw
    simp only [depth] at hd
    obtain ⟨d', rfl⟩ : ∃ d', d = d' + 1 := ⟨d - 1, by omega⟩
    obtain ⟨Fb, hFb⟩ := refineL b hw d' (by omega)
    obtain ⟨k, hk⟩ := level_run (toTrees b) (wf_toTrees b hw)
    refine ⟨max Fb (k + 1), fun F hF s => ?_⟩
    simp only [toTree, unroll, foldAct, List.foldl_cons, List.foldl_nil, actD, sem]
    rw [hk (actD F d') s F (by omega)]
    simp only []
    rw [hFb F (by omega)]
  | div cnt len b =>
    simp only [cwf] at hw
    simp only [depth] at hd
    obtain ⟨d', rfl⟩ : ∃ d', d = d' + 1 := ⟨d - 1, by omega⟩
    obtain ⟨Fb, hFb⟩ := refineL b hw d' (by omega)
    obtain ⟨k, hk⟩ := level_run (toTrees b) (wf_toTrees b hw)
    refine ⟨max Fb (k + 1), fun F hF s => ?_⟩
    simp only [toTree, unroll, foldAct, List.foldl_cons, List.foldl_nil, actD, sem]
    rw [hk (actD F d') _ F (by omega)]
    simp only []
    rw [hFb F (by omega)]
theorem refineL (cs : List Cmd) (hw : cwfL cs = true) : ∀ d, depthL cs ≤ d →
    ∃ F0, ∀ F, F0 ≤ F → ∀ s, foldAct (actD F d) (unrollL (toTrees cs)) s = semL cs s := by
  intro d hd
  cases cs with
  | nil => exact ⟨0, fun F _ s => by simp [toTrees, unrollL, foldAct, semL]⟩
  | cons c cs =>
    simp only [cwfL, Bool.and_eq_true] at hw
    simp only [depthL] at hd
    obtain ⟨F1, h1⟩ := refine c hw.1 d (by omega)
    obtain ⟨F2, h2⟩ := refineL cs hw.2 d (by omega)
    refine ⟨max F1 F2, fun F hF s => ?_⟩
    simp only [toTrees, unrollL, foldAct_append, semL]
    rw [h1 F (by omega), h2 F (by omega)]
end

/-- end to end for the spike language: run the loop machine on the flattened top-level token list -/
theorem exec_refines_sem (cs : List Cmd) (hw : cwfL cs = true) :
    ∃ F0, ∀ F, F0 ≤ F → ∀ s,
      runFuel (actD F (depthL cs)) (flattenL (toTrees cs)) F (0, [], s) = some (semL cs s) := by
  obtain ⟨F1, h1⟩ := refineL cs hw (depthL cs) (Nat.le_refl _)
  obtain ⟨k, hk⟩ := level_run (toTrees cs) (wf_toTrees cs hw)
  refine ⟨max F1 (k + 1), fun F hF s => ?_⟩
  rw [hk (actD F (depthL cs)) s F (by omega), h1 F (by omega)]

#print axioms exec_refines_sem
end Core
