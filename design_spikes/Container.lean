import Smf  -- (spike: was Lt.Smf)
-- spike 6: strict SMF container parser + theorem for midi::generate (C01 kernel)
namespace Container

def be16 (v : Nat) : List Nat := [(v / 256) % 256, v % 256]
def be32 (v : Nat) : List Nat := [(v / 16777216) % 256, (v / 65536) % 256, (v / 256) % 256, v % 256]

def MThd : List Nat := [77, 84, 104, 100]
def MTrk : List Nat := [77, 84, 114, 107]

/-- midi::generate after play_from/normalize: header then one chunk per (already generated) track body -/
def chunk (b : List Nat) : List Nat := MTrk ++ be32 b.length ++ b
def generate (timebase : Nat) (bodies : List (List Nat)) : List Nat :=
  MThd ++ be32 6 ++ be16 1 ++ be16 bodies.length ++ be16 timebase ++ (bodies.map chunk).flatten

-- strict parser (spec)
def rd16 : List Nat → Option (Nat × List Nat)
  | a :: b :: r => if a < 256 ∧ b < 256 then some (a * 256 + b, r) else none
  | _ => none
def rd32 : List Nat → Option (Nat × List Nat)
  | a :: b :: c :: d :: r =>
    if a < 256 ∧ b < 256 ∧ c < 256 ∧ d < 256 then some (((a * 256 + b) * 256 + c) * 256 + d, r) else none
  | _ => none

structure Header where
  fmt : Nat
  ntrks : Nat
  division : Nat
deriving DecidableEq, Repr

/-- exactly `n` chunks and then nothing -/
def parseChunks : Nat → List Nat → Option (List (List Nat))
  | 0, bs => if bs = [] then some [] else none
  | n+1, bs =>
    match bs with
    | 77 :: 84 :: 114 :: 107 :: r =>
      match rd32 r with
      | some (len, r') =>
        if len ≤ r'.length then
          match parseChunks n (r'.drop len) with
          | some cs => some (r'.take len :: cs)
          | none => none
        else none
      | none => none
    | _ => none

def parseSmf : List Nat → Option (Header × List (List Nat))
  | 77 :: 84 :: 104 :: 100 :: r =>
    match rd32 r with
    | some (6, r1) =>
      match rd16 r1 with
      | some (fmt, r2) => match rd16 r2 with
        | some (n, r3) => match rd16 r3 with
          | some (dv, r4) => match parseChunks n r4 with
            | some cs => some (⟨fmt, n, dv⟩, cs)
            | none => none
          | none => none
        | none => none
      | none => none
    | _ => none
  | _ => none

theorem rd16_be16 (v : Nat) (h : v < 65536) (r : List Nat) : rd16 (be16 v ++ r) = some (v, r) := by
  have h1 : v / 256 % 256 < 256 := Nat.mod_lt _ (by decide)
  have h2 : v % 256 < 256 := Nat.mod_lt _ (by decide)
  simp only [be16, List.cons_append, List.nil_append, rd16, h1, h2, and_self, if_true]
  congr 2; omega

theorem rd32_be32 (v : Nat) (h : v < 4294967296) (r : List Nat) : rd32 (be32 v ++ r) = some (v, r) := by
  have h1 : v / 16777216 % 256 < 256 := Nat.mod_lt _ (by decide)
  have h2 : v / 65536 % 256 < 256 := Nat.mod_lt _ (by decide)
  have h3 : v / 256 % 256 < 256 := Nat.mod_lt _ (by decide)
  have h4 : v % 256 < 256 := Nat.mod_lt _ (by decide)
  simp only [be32, List.cons_append, List.nil_append, rd32, h1, h2, h3, h4, and_self, if_true]
  congr 2; omega

theorem parseChunks_gen (bodies : List (List Nat)) (hl : ∀ b ∈ bodies, b.length < 4294967296) :
    parseChunks bodies.length (bodies.map chunk).flatten = some bodies := by
  induction bodies with
  | nil => simp [parseChunks]
  | cons b bs ih =>
    have hb := hl b List.mem_cons_self
    have ih' := ih (fun x hx => hl x (List.mem_cons_of_mem _ hx))
    simp only [List.length_cons, List.map_cons, List.flatten_cons, chunk, MTrk, List.cons_append,
      List.nil_append, List.append_assoc, parseChunks]
    rw [rd32_be32 _ hb]
    simp [ih']

/-- C01 kernel: the strict parser accepts generate's output, reads back format 1, the track count,
    the time base, and exactly the bodies; nothing precedes, separates or trails. -/
theorem C01_container (tb : Nat) (bodies : List (List Nat)) (htb : tb < 32768)
    (hn : bodies.length < 65536) (hl : ∀ b ∈ bodies, b.length < 4294967296) :
    parseSmf (generate tb bodies) = some (⟨1, bodies.length, tb⟩, bodies) := by
  simp only [generate, MThd, List.cons_append, List.nil_append, List.append_assoc, parseSmf]
  rw [rd32_be32 6 (by decide)]
  simp only []
  rw [rd16_be16 1 (by decide)]
  simp only []
  rw [rd16_be16 _ hn]
  simp only []
  rw [rd16_be16 _ (by omega)]
  simp only []
  rw [parseChunks_gen bodies hl]

/-- every body produced by genTrack ends with the End-of-Track bytes -/
theorem genTrack_eot (es : List Smf.Event) : [0x00, 0xFF, 0x2F, 0x00] <:+ Smf.genTrack es :=
  ⟨_, rfl⟩

#print axioms C01_container
end Container
