-- spike 15: Track::calc_v_on_note (same shape for q/t/o/l) — onNote / onCycle indexing laws (C16 kernel)
namespace OnNote

structure St where
  vals : Option (List Int)
  idx : Nat
  cyc : Bool
  cur : Int          -- track.velocity
deriving Repr

/-- calc_v_on_note(def): returns (value for this note, new state) -/
def calcV (s : St) (dflt : Int) : Int × St :=
  match s.vals with
  | none => (dflt, s)
  | some ia =>
    if ia.length = 0 then (dflt, s) else
    if s.idx ≥ ia.length then
      if s.cyc then
        (ia.getD (0 % ia.length) 0, { s with idx := 1, cur := ia.getD (0 % ia.length) 0 })
      else (dflt, { s with vals := none, idx := 0 })
    else (ia.getD (s.idx % ia.length) 0, { s with idx := s.idx + 1, cur := ia.getD (s.idx % ia.length) 0 })

/-- state after i notes, all asking with default `d` -/
def after (s : St) (d : Int) : Nat → St
  | 0 => s
  | i+1 => (calcV (after s d i) d).2

def nth (s : St) (d : Int) (i : Nat) : Int := (calcV (after s d i) d).1

/-- onNote: the i-th following note (0-based) gets the i-th value -/
theorem onNote_state (vs : List Int) (cur d : Int) : ∀ i, i ≤ vs.length →
    (after ⟨some vs, 0, false, cur⟩ d i).vals = some vs ∧ (after ⟨some vs, 0, false, cur⟩ d i).idx = i ∧
    (after ⟨some vs, 0, false, cur⟩ d i).cyc = false := by
  intro i
  induction i with
  | zero => intro _; simp [after]
  | succ i ih =>
    intro hi
    obtain ⟨h1, h2, h3⟩ := ih (by omega)
    have hne : ¬ vs.length = 0 := by omega
    have hlt : ¬ i ≥ vs.length := by omega
    simp only [after, calcV, h1, h2, h3, hne, hlt, if_false]
    simp

theorem onNote_ith (vs : List Int) (cur d : Int) (i : Nat) (hi : i < vs.length) :
    nth ⟨some vs, 0, false, cur⟩ d i = vs.getD i 0 := by
  obtain ⟨h1, h2, h3⟩ := onNote_state vs cur d i (by omega)
  have hne : ¬ vs.length = 0 := by omega
  have hlt : ¬ i ≥ vs.length := by omega
  simp only [nth, calcV, h1, h2, hne, hlt, if_false, Nat.mod_eq_of_lt hi]

/-- … and then stops: the note after the list gets the default and the reservation is cleared -/
theorem onNote_stops (vs : List Int) (cur d : Int) (hne : vs ≠ []) :
    nth ⟨some vs, 0, false, cur⟩ d vs.length = d ∧
    (after ⟨some vs, 0, false, cur⟩ d (vs.length + 1)).vals = none := by
  obtain ⟨h1, h2, h3⟩ := onNote_state vs cur d vs.length (Nat.le_refl _)
  have hl : ¬ vs.length = 0 := by
    intro h; exact hne (List.length_eq_zero_iff.mp h)
  constructor
  · simp [nth, calcV, h1, h2, h3, hl]
  · simp [after, calcV, h1, h2, h3, hl]

#print axioms onNote_ith
#print axioms onNote_stops
end OnNote
