import Trace  -- (spike: was Lt.Trace)
-- spike 17: composition — loop machine (parametric theorem) + recursive block tokens (Sub/Div) + concrete sem
namespace Core
open Loop

structure St where
  tp : Int
  l : Int
  evs : List (Int × Int × Int)      -- (start, key, duration)
deriving Repr

/-- non-loop tokens; blocks carry their (flat) child token list -/
inductive Leaf where
  | note (len : Option Int) (key : Int)
  | rest (len : Option Int)
  | setL (n : Int)
  | sub (children : List (Tok Leaf))
  | div (cnt : Int) (len : Option Int) (children : List (Tok Leaf))

def lenOf (len : Option Int) (s : St) : Int := len.getD s.l

/-- executable run of one level: iterate `step` until it halts or fuel runs out -/
def runFuel {α σ} (act : α → σ → σ) (toks : List (Tok α)) : Nat → Cfg σ → Option σ
  | 0, _ => none
  | f+1, c => match step act toks c with
    | none => some c.2.2
    | some c' => runFuel act toks f c'

/-- effect of a leaf token with nesting-depth fuel `d` and per-level step fuel `F` -/
def actD (F : Nat) : Nat → Leaf → St → St
  | _, .note len key, s => { s with tp := s.tp + lenOf len s, evs := s.evs ++ [(s.tp, key, lenOf len s * 9 / 10)] }
  | _, .rest len, s => { s with tp := s.tp + lenOf len s }
  | _, .setL n, s => { s with l := n }
  | 0, .sub _, s => s
  | d+1, .sub ch, s =>
      match runFuel (actD F d) ch F (0, [], s) with
      | some s' => { s' with tp := s.tp }
      | none => s
  | 0, .div _ _ _, s => s
  | d+1, .div cnt len ch, s =>
      let dl := lenOf len s
      match runFuel (actD F d) ch F (0, [], { s with l := if cnt > 0 then Int.tdiv dl cnt else 0 }) with
      | some s' => { s' with tp := s.tp + dl, l := s.l }
      | none => s

-- ---------------- specification: command trees and their denotation ----------------
inductive Cmd where
  | note (len : Option Int) (key : Int)
  | rest (len : Option Int)
  | setL (n : Int)
  | loop (n : Nat) (body : List Cmd) (hb : Bool) (brk : List Cmd)
  | sub (body : List Cmd)
  | div (cnt : Int) (len : Option Int) (body : List Cmd)

mutual
def sem : Cmd → St → St
  | .note len key, s => { s with tp := s.tp + lenOf len s, evs := s.evs ++ [(s.tp, key, lenOf len s * 9 / 10)] }
  | .rest len, s => { s with tp := s.tp + lenOf len s }
  | .setL n, s => { s with l := n }
  | .loop n b _ k, s => iter (semL b) (semL k) n s
  | .sub b, s => { semL b s with tp := s.tp }
  | .div cnt len b, s =>
      let dl := lenOf len s
      { semL b { s with l := if cnt > 0 then Int.tdiv dl cnt else 0 } with tp := s.tp + dl, l := s.l }
def semL : List Cmd → St → St
  | [], s => s
  | c :: cs, s => semL cs (sem c s)
end

mutual
def toTree : Cmd → Tree Leaf
  | .note len key => .leaf (.note len key)
  | .rest len => .leaf (.rest len)
  | .setL n => .leaf (.setL n)
  | .loop n b hb k => .loop n (toTrees b) hb (toTrees k)
  | .sub b => .leaf (.sub (flattenL (toTrees b)))
  | .div cnt len b => .leaf (.div cnt len (flattenL (toTrees b)))
def toTrees : List Cmd → List (Tree Leaf)
  | [] => []
  | c :: cs => toTree c :: toTrees cs
end

mutual
def cwf : Cmd → Bool
  | .loop n b hb k => decide (1 ≤ n) && cwfL b && cwfL k && (hb || k.isEmpty)
  | .sub b => cwfL b
  | .div _ _ b => cwfL b
  | _ => true
def cwfL : List Cmd → Bool
  | [] => true
  | c :: cs => cwf c && cwfL cs
end

mutual
def depth : Cmd → Nat
  | .loop _ b _ k => max (depthL b) (depthL k)
  | .sub b => depthL b + 1
  | .div _ _ b => depthL b + 1
  | _ => 0
def depthL : List Cmd → Nat
  | [] => 0
  | c :: cs => max (depth c) (depthL cs)
end

end Core
