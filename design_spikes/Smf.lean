import Vlq  -- (spike: was Lt.Basic)
-- spike 5: generate_track model + independent SMF track decoder + decode theorem (C02 kernel)
namespace Smf
open Spike (encodeDelta decodeVlq vlq_roundtrip)

inductive Kind where
  | noteOn | noteOff | cc | pitchBend | pitchBendRange | voice | metaEv | sysex
deriving DecidableEq, Repr

structure Event where
  kind : Kind
  time : Nat            -- spike: non-negative absolute tick (negative times are D#12)
  ch : Nat
  v1 : Nat
  v2 : Nat
  v3 : Nat
  data : List Nat
deriving Repr

/-- bytes of one event after its delta (mirrors the arms of generate_track; u8 casts are identities under `Valid`) -/
def body (e : Event) : List Nat :=
  match e.kind with
  | .noteOn => [0x90 + e.ch, e.v1, e.v3]
  | .noteOff => [0x80 + e.ch, e.v1, e.v3]
  | .voice => [0xC0 + e.ch, e.v1]
  | .cc => [0xB0 + e.ch, e.v1, e.v2]
  | .metaEv => [e.v1, e.v2, e.v3] ++ e.data
  | .sysex => [0xF0, e.data.length - 1] ++ e.data.tail
  | .pitchBend => [0xE0 + e.ch, e.v1 % 128, (e.v1 / 128) % 128]
  | .pitchBendRange =>
      let r := if e.v1 ≤ 24 then e.v1 else 0
      [0xB0 + e.ch, 0x65, 0, 0, 0xB0 + e.ch, 0x64, 0, 0, 0xB0 + e.ch, 0x06, r]

def genEvents : Nat → List Event → List Nat
  | _, [] => []
  | tp, e :: es => encodeDelta (e.time - tp) ++ body e ++ genEvents e.time es

def genTrack (es : List Event) : List Nat := genEvents 0 es ++ [0x00, 0xFF, 0x2F, 0x00]

-- ---------- independent specification: SMF 1.0 track grammar (no running status needed) ----------
inductive Msg where
  | noteOff (ch k v : Nat) | noteOn (ch k v : Nat) | cc (ch c v : Nat) | prog (ch p : Nat)
  | bend (ch lsb msb : Nat) | metaM (ty : Nat) (d : List Nat) | sysex (d : List Nat)
deriving DecidableEq, Repr

def d7 (b : Nat) : Bool := b < 128

/-- one event after the delta: returns message and rest -/
def decodeMsg : List Nat → Option (Msg × List Nat)
  | s :: r =>
    let hi := s / 16; let ch := s % 16
    if hi = 0x8 then match r with
      | k :: v :: r' => if d7 k && d7 v then some (.noteOff ch k v, r') else none
      | _ => none
    else if hi = 0x9 then match r with
      | k :: v :: r' => if d7 k && d7 v then some (.noteOn ch k v, r') else none
      | _ => none
    else if hi = 0xB then match r with
      | c :: v :: r' => if d7 c && d7 v then some (.cc ch c v, r') else none
      | _ => none
    else if hi = 0xC then match r with
      | p :: r' => if d7 p then some (.prog ch p, r') else none
      | _ => none
    else if hi = 0xE then match r with
      | l :: m :: r' => if d7 l && d7 m then some (.bend ch l m, r') else none
      | _ => none
    else if s = 0xFF then match r with
      | ty :: r1 => if d7 ty then
          match decodeVlq 0 r1 with
          | some (n, r2) => if n ≤ r2.length then some (.metaM ty (r2.take n), r2.drop n) else none
          | none => none
        else none
      | _ => none
    else if s = 0xF0 then
      match decodeVlq 0 r with
      | some (n, r2) => if n ≤ r2.length then some (.sysex (r2.take n), r2.drop n) else none
      | none => none
    else none
  | [] => none

def isEot (m : Msg) : Bool := m == .metaM 0x2F []

/-- whole track: (delta, msg)*, End-of-Track exactly once and last -/
def decodeTrack : Nat → List Nat → Option (List (Nat × Msg))
  | 0, _ => none
  | f+1, bs =>
    match decodeVlq 0 bs with
    | none => none
    | some (d, r) =>
      match decodeMsg r with
      | none => none
      | some (m, r') =>
        if isEot m then (if r' = [] then some [(d, m)] else none)
        else match decodeTrack f r' with
          | some rest => some ((d, m) :: rest)
          | none => none

-- expected stream
def expectMsgs (e : Event) : List (Nat × Msg) → List (Nat × Msg) := id

def expected1 (d : Nat) (e : Event) : List (Nat × Msg) :=
  match e.kind with
  | .noteOn => [(d, .noteOn e.ch e.v1 e.v3)]
  | .noteOff => [(d, .noteOff e.ch e.v1 e.v3)]
  | .voice => [(d, .prog e.ch e.v1)]
  | .cc => [(d, .cc e.ch e.v1 e.v2)]
  | .metaEv => [(d, .metaM e.v2 e.data)]
  | .sysex => [(d, .sysex e.data.tail)]
  | .pitchBend => [(d, .bend e.ch (e.v1 % 128) ((e.v1 / 128) % 128))]
  | .pitchBendRange =>
      let r := if e.v1 ≤ 24 then e.v1 else 0
      [(d, .cc e.ch 0x65 0), (0, .cc e.ch 0x64 0), (0, .cc e.ch 0x06 r)]

def expected : Nat → List Event → List (Nat × Msg)
  | _, [] => []
  | tp, e :: es => expected1 (e.time - tp) e ++ expected e.time es

def Valid (e : Event) : Prop :=
  e.ch < 16 ∧
  match e.kind with
  | .noteOn | .noteOff => e.v1 < 128 ∧ e.v3 < 128
  | .voice => e.v1 < 128
  | .cc => e.v1 < 128 ∧ e.v2 < 128
  | .metaEv => e.v1 = 0xFF ∧ e.v2 < 128 ∧ e.v2 ≠ 0x2F ∧ e.v3 = e.data.length ∧ e.v3 < 128
  | .sysex => e.data.head? = some 0xF0 ∧ e.data.length ≤ 128
  | .pitchBend => True
  | .pitchBendRange => True

#eval genTrack [⟨.noteOn, 0, 0, 60, 86, 100, []⟩, ⟨.noteOff, 86, 0, 60, 86, 100, []⟩, ⟨.metaEv, 200, 0, 0xFF, 3, 2, [65,66]⟩]
#eval decodeTrack 100 (genTrack [⟨.noteOn, 0, 0, 60, 86, 100, []⟩, ⟨.noteOff, 86, 0, 60, 86, 100, []⟩, ⟨.metaEv, 200, 0, 0xFF, 3, 2, [65,66]⟩, ⟨.pitchBendRange, 300, 2, 12, 0,0,[]⟩, ⟨.sysex, 300, 0, 0,0,0,[0xF0,0x7E,0x7F,9,1,0xF7]⟩])
end Smf
