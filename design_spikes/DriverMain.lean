import Vlq  -- (spike: was Lt.Basic)
open Spike
def hexToNats (s : String) : List Nat :=
  let cs := s.toList
  let rec go : List Char → List Nat
    | a :: b :: rest => ((String.ofList [a,b]).toNat?.getD 0) :: go rest
    | _ => []
  go cs
def step (line : String) : String :=
  match line.trimAscii.toString.splitOn " " with
  | ["vlq", n] => match n.toNat? with
      | some k => toString (encodeDelta k)
      | none => "bad-op"
  | ["text", s] => toString (s.toList.map Char.toNat).length
  | _ => "bad-op"
partial def loop (h : IO.FS.Stream) : IO Unit := do
  let line ← h.getLine
  if line.isEmpty then return ()
  IO.println (step line)
  loop h
def main : IO Unit := do loop (← IO.getStdin)
