#!/usr/bin/env python3
"""check.py <property-id> [--tier quick|thorough] [--replay <file>]
Decides one property of /repo's current working tree: proof obligations (Lean) + the tie of the
model to the code (regenerated tables, correspondence with the real code) + search for a failing
input when either breaks.  See DESIGN.md §2."""
import sys, os, json, time, random, importlib, hashlib, traceback
sys.path.insert(0, os.path.dirname(os.path.abspath(__file__)))
from vlib import core

def main():
    args = sys.argv[1:]
    if not args:
        print(__doc__); return 2
    pid = args[0].upper()
    tier = os.environ.get("VERIF_TIER", "quick")
    replay = None
    i = 1
    while i < len(args):
        if args[i] == "--tier": tier = args[i + 1]; i += 2
        elif args[i] == "--replay": replay = args[i + 1]; i += 2
        else: i += 1
    seed = int(os.environ.get("VERIF_SEED", "20260930"))
    t0 = time.time()
    mod = importlib.import_module("vlib.props." + pid.lower())
    evidence_path = os.path.join(core.VERIF, "evidence", pid + ".json")
    P = core.prepare(need_cli=getattr(mod, "NEED_CLI", False), need_ovf=getattr(mod, "NEED_OVF", False))
    if P.build_error:
        core.log(P.build_error)
        print("ERROR: /repo does not build; cannot decide %s" % pid)
        return 2
    problems = []      # (kind, text): broken obligations / tie
    # ---- translator
    changed, terr = core.gen_tables(P)
    if terr:
        problems.append(("translator", "translator could not parse the source: " + terr))
    # ---- proof obligations
    targets = ["SakuraVerif.Props." + pid, "sakura-driver"]
    ok, out = core.lake_build(targets)
    obligations = core.theorem_names(pid + ".lean")
    discharged = 0
    axioms_seen = {}
    if not ok:
        # which theorem failed?  keep the first error lines
        errs = [l for l in out.split("\n") if "error" in l][:6]
        problems.append(("obligation", "lake build %s failed: %s" % (" ".join(targets), " | ".join(errs))))
        # the driver may still be usable for the search if it was built
        ok_d, out_d = core.lake_build(["sakura-driver"])
        if not ok_d and core.restore_committed_gen():
            # the regenerated tables do not fit the model: search for a failing input with the model of the unchanged code
            ok_d, out_d = core.lake_build(["sakura-driver"])
            if ok_d: problems.append(("translator", "the tables regenerated from the source do not build with the model; searching with the committed tables"))
        driver_ok = ok_d
    else:
        driver_ok = True
        bad = core.audit_sources()
        if bad:
            problems.append(("audit", "forbidden construct in Lean sources: " + "; ".join(bad[:5])))
        ax, axout, rc = core.print_axioms(pid, obligations)
        for n in obligations:
            if n in ax and set(ax[n]) <= core.ALLOWED_AXIOMS:
                discharged += 1
            else:
                problems.append(("axioms", "theorem %s: axioms %s" % (n, ax.get(n, "not reported"))))
        axioms_seen = sorted({a for v in ax.values() for a in v})
        if tier == "thorough":
            r = core.sh(["lake", "env", "leanchecker", "SakuraVerif.Props." + pid], cwd=core.LEAN, check=False, timeout=3000)
            if r.returncode != 0:
                problems.append(("leanchecker", r.stdout[-500:]))
    if not driver_ok:
        print("VIOLATION property=%s replay=%s no-failing-input-found" % (pid, write_replay(pid, dict(kind="broken-obligation", detail=problems, note="model driver does not build; no search possible"))))
        write_evidence(evidence_path, pid, tier, seed, mod, obligations, discharged, axioms_seen, [], 0, t0, 1, problems, P)
        return 1
    # ---- correspondence / spec streams
    rng = random.Random(seed)
    known = core.load_known()
    open_known = [k for k in known.get("open", []) if k["property"] == pid]
    if replay:
        rp = json.load(open(replay))
        streams = mod.streams(tier, rng, P, only=rp.get("stream"), cases=[rp["case"]] if "case" in rp else None)
    else:
        streams = mod.streams(tier, rng, P)
    all_results = []
    violations = []; mismatches = []; known_hits = []
    nontriv = 0
    for st in streams:
        res, nt = core.run_stream(P, st)
        nontriv += nt
        for r in res:
            r["stream"] = st.name
            v = r["verdict"]
            if v is None: continue
            kf = match_known(open_known, st.name, r["case"])
            if kf is not None:
                known_hits.append((kf, r)); continue
            (violations if v[0] == "violation" else mismatches).append(r)
        for r in res:
            if r["verdict"] is None: r["case"].pop("prog", None)
        all_results.append((st, res))
    # known findings must still reproduce (else the entry is stale: say so, but that is not a violation)
    for kf in open_known:
        hit = any(k is kf for k, _ in known_hits)
        if hit:
            print("KNOWN-FINDING: property=%s %s" % (pid, kf["what"]))
        else:
            core.log("note: known finding no longer reproduces: %s" % kf["what"])
    nviol = 0
    rc = 0
    if violations:
        r = shrink_first(P, violations, all_results)
        path = write_replay(pid, dict(kind="counterexample", stream=r["stream"], case=r["case"], impl=r["impl"][:4000],
                                      model_req=[x[:2000] for x in r["model_req"]], model=r["model"], why=r["verdict"][1], seed=seed, tier=tier, tree=P.hash))
        print("VIOLATION property=%s replay=%s" % (pid, path))
        core.log("  failing input: %s\n  why: %s" % (r["case"].get("show", r["case"].get("req", ""))[:400], r["verdict"][1]))
        nviol = len(violations); rc = 1
    elif mismatches or problems:
        # the property is no longer shown to hold; the streams above were the search
        first = mismatches[0] if mismatches else None
        d = dict(kind="broken-correspondence" if mismatches else "broken-obligation", problems=problems, seed=seed, tier=tier, tree=P.hash)
        if first:
            d.update(stream=first["stream"], case=first["case"], impl=first["impl"][:4000], model=first["model"], why=first["verdict"][1])
        d["searched"] = "all streams of this property were run against the real code; no input violating the executable specification was found"
        path = write_replay(pid, d)
        print("VIOLATION property=%s replay=%s no-failing-input-found" % (pid, path))
        for k, t in problems: core.log("  broken %s: %s" % (k, t[:600]))
        if first: core.log("  first disagreement: %s\n  %s" % (first["case"].get("show", first["case"]["req"])[:300], first["verdict"][1]))
        nviol = max(1, len(mismatches)); rc = 1
    write_evidence(evidence_path, pid, tier, seed, mod, obligations, discharged, axioms_seen, all_results, nontriv, t0, nviol, problems, P, len(known_hits))
    core.log("%s %s: %d obligations (%d discharged), %d cases, %d violations, %.1fs" % (pid, tier, len(obligations), discharged, sum(len(r) for _, r in all_results), nviol, time.time() - t0))
    return rc

def match_known(open_known, stream, case):
    for k in open_known:
        if k.get("stream") not in (None, stream): continue
        if "req" in k and k["req"] == case.get("req"): return k
        if "key" in k and k["key"] == case.get("key"): return k
        if "src" in k and k["src"] == case.get("src"): return k
    return None

def shrink_first(P, violations, all_results):
    """pick the smallest violating case; streams that know how to shrink do it themselves"""
    r = min(violations, key=lambda r: len(r["case"].get("req", "")))
    st = next(s for s, _ in all_results if s.name == r["stream"])
    rebuild = getattr(st, "ast_rebuild", None)
    if rebuild and r["case"].get("prog") is not None:
        try:
            from vlib import shrink as shr
            def fails(progs):
                sub = core.Stream(st.name, [rebuild(r["case"], p) for p in progs], st.model_reqs, st.judge, None, st.rule, st.timeout_case, st.capture_stdout)
                res, _ = core.run_stream(P, sub)
                return [x["verdict"] is not None and x["verdict"][0] == "violation" for x in res]
            small = shr.shrink([tuple(c) if isinstance(c, list) else c for c in r["case"]["prog"]], fails)
            sub = core.Stream(st.name, [rebuild(r["case"], small)], st.model_reqs, st.judge, None, st.rule, st.timeout_case, st.capture_stdout)
            res, _ = core.run_stream(P, sub)
            if res and res[0]["verdict"] is not None:
                res[0]["stream"] = st.name
                res[0]["case"].pop("prog", None)
                return res[0]
        except Exception:
            core.log("shrink failed: " + traceback.format_exc()[-800:])
    r["case"].pop("prog", None)
    return r

def write_replay(pid, d):
    d["property"] = pid
    h = hashlib.sha256(json.dumps(d, sort_keys=True, default=str).encode()).hexdigest()[:10]
    path = os.path.join(core.VERIF, "replays", "%s-%s.json" % (pid, h))
    core.write_json(path, d)
    return path

def write_evidence(path, pid, tier, seed, mod, obligations, discharged, axioms, all_results, nontriv, t0, nviol, problems, P, nknown=0):
    samples = []
    progs = 0; hist = {}
    for st, res in all_results:
        progs += len(res)
        hist[st.name] = len(res)
        for r in res[:2]:
            samples.append(dict(stream=st.name, input=r["case"].get("show", r["case"]["req"])[:300], impl=r["impl"][:200], model=[m[:200] for m in r["model"]][:3]))
    for n in obligations[:3]:
        samples.append(dict(obligation=n))
    cov = dict(
        obligations=max(1, len(obligations)), discharged=discharged,
        checker_cmd="cd /verif/lean && lake build SakuraVerif.Props.%s && #print axioms on every theorem (axioms ⊆ propext, Classical.choice, Quot.sound)%s" % (pid, "; lake env leanchecker SakuraVerif.Props.%s" % pid if tier == "thorough" else ""),
        trusted_base=["Lean 4.33.0 kernel", "axioms: " + (", ".join(axioms) if axioms else "none"), "tools/gen_tables.py (regex translator of tables/constants/frame facts)",
                      "correspondence harness (harness/src/main.rs, vlib/) on the inputs explored", "Rust std (Vec, String, HashMap, sort_by stable) modelled, not verified"] + list(getattr(mod, "TRUSTED", [])),
        programs=progs, disagreements_checked=progs, evaluations=progs, distinct_nontrivial=nontriv,
        rule=getattr(mod, "RULE", "") or "; ".join("%s: %s" % (s.name, s.rule) for s, _ in all_results),
        streams=hist, samples=samples[:12], theorems=obligations, broken=[list(p) for p in problems],
        known_findings_reproduced=nknown, tree=P.hash, exhaustive=False)
    ev = dict(property_id=pid, tier=tier if tier in ("quick", "thorough") else "quick", seed=seed, level="proof", coverage=cov,
              assumptions=list(getattr(mod, "ASSUMPTIONS", [])), wall_s=round(time.time() - t0, 2), violations=nviol)
    core.write_json(path, ev)

if __name__ == "__main__":
    try:
        sys.exit(main())
    except SystemExit:
        raise
    except Exception:
        traceback.print_exc()
        sys.exit(2)
