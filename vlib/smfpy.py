"""A small reader of the Standard MIDI Files the compiler writes (explicit status bytes), for judges that need ticks of events.
smf_events(hexbin) -> list of tracks, each a list of (tick, kind, a, b): kind in 'on','off','cc','pc','pb','meta','sysex','other'"""
def _vlq(b, i):
    v = 0
    while True:
        c = b[i]; i += 1
        v = (v << 7) | (c & 0x7F)
        if c < 0x80: return v, i
def smf_events(hexbin):
    b = bytes.fromhex(hexbin) if hexbin and hexbin != "~" else b""
    if b[:4] != b"MThd": return None
    pos = 14; tracks = []
    while pos + 8 <= len(b) and b[pos:pos + 4] == b"MTrk":
        ln = int.from_bytes(b[pos + 4:pos + 8], "big"); body = b[pos + 8:pos + 8 + ln]; pos += 8 + ln
        i = 0; t = 0; evs = []
        try:
            while i < len(body):
                d, i = _vlq(body, i); t += d
                st = body[i]; i += 1
                hi = st & 0xF0
                if st == 0xFF:
                    ty = body[i]; i += 1; n, i = _vlq(body, i); evs.append((t, "meta", ty, bytes(body[i:i + n]))); i += n
                elif st == 0xF0 or st == 0xF7:
                    n, i = _vlq(body, i); evs.append((t, "sysex", st, bytes(body[i:i + n]))); i += n
                elif hi in (0x80, 0x90, 0xA0, 0xB0, 0xE0):
                    kind = {0x80: "off", 0x90: "on", 0xA0: "other", 0xB0: "cc", 0xE0: "pb"}[hi]
                    evs.append((t, kind, (st & 0x0F, body[i]), body[i + 1])); i += 2
                elif hi in (0xC0, 0xD0):
                    evs.append((t, "pc" if hi == 0xC0 else "other", (st & 0x0F, body[i]), 0)); i += 1
                else:
                    evs.append((t, "bad", st, 0)); break
        except IndexError:
            evs.append((t, "bad", -1, 0))
        tracks.append(evs)
    return tracks
