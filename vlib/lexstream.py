"""Correspondence stream for Model.Lexer: the real `lexer::lex` (harness op `tokens`) against the Lean model (driver op `lex`)
on raw texts of the core note language.  Texts outside the modelled subset (the model answers `unsupported`) are skipped and counted."""
from .core import Stream, hx, unhx
from . import mml

INT_FORMS = ["%d", "%d", "%d", "-%d", "$%x", "0x%x", "0o%o", "(%d)", "=%d", "( %d )", "!%d", "(%d,%d)".replace(",%d", ",3"), "=(%d)", "{%d}", "XY", "(XY)"]
LEN = ["", "", "4", "8", "16", "2.", "4..", "%96", "%-10", "1^2", "4^", "^", "8+8", "4 ^ 8", "4|^16", "4\n^8", "4\n\n^8.", "4 \n // k\n ^", "4\n/* k */^%5", "0", "-4", "...."]
SEPS = [" ", " ", " ", "", "", "\t", "\n", "\r\n", " | ", ";", " ; ", "\n\n", "//x\n", " /* y */ ", "/**/", "/*/", "\n## z\n", "\n# z\n", "\n#-z\n", "/// dbg\n", "/** doc */", "　"]
BAD = ["!", "β", "¿", "\\", "/", "~", "%", "^", "=", "+", "-", "*", ",", ".", "0", "7", "}", "h", "z", "w", "&"]

def g_int(rng):
    f = rng.choice(INT_FORMS)
    n = rng.choice([0, 1, 2, 5, 8, 10, 60, 100, 127, 128, 255, 1000, 65536])
    try: return f % n
    except TypeError: return f

def g_note(rng):
    s = rng.choice("cdefgab") + rng.choice(["", "", "", "+", "-", "#", "*", "++", "+-", "*-"]) + rng.choice(LEN)
    k = rng.randrange(0, 6)
    args = []
    for i in range(k if rng.random() < 0.5 else 0):
        args.append(rng.choice(["", "", "50", "100", "-1", "+5", " 7", "$10", "0x7f", "0"]))
    if args: s += rng.choice(["", " "]) + "," + ",".join(args)
    if rng.random() < 0.15: s += rng.choice(["&", "& ", "&2", "&$a", "& 3"])
    return s

def g_token(rng, depth):
    x = rng.random()
    if x < 0.30: return g_note(rng)
    if x < 0.36: return "n" + g_int(rng) + rng.choice(["", ",", ",4", ",8.,50", " ,%96,,100", ",,,,+3", ",4&", ",4,1,2,-3"])
    if x < 0.42: return "r" + rng.choice(["", "*", "-", "*-"]) + rng.choice(LEN)
    if x < 0.47: return "l" + rng.choice(LEN + [".", ".4", ".x"])
    if x < 0.52: return "o" + rng.choice([g_int(rng), ".Random(2)", ".Random=1", "", ".x"])
    if x < 0.57: return "q" + rng.choice([g_int(rng), "++", "--", "__3 80", "_2 50", ".Random(10)", ""])
    if x < 0.62: return "v" + rng.choice([g_int(rng), "++", "--", "__2 90", "_1 70", ".Random(20)", "", "-5"])
    if x < 0.66: return "t" + rng.choice([g_int(rng), "__4 2", "_ 3", ".Random(5)", "", "-3"])
    if x < 0.72: return rng.choice([">", "<", "(", ")", "`", '"', "?", ":"])
    if x < 0.80 and depth > 0:
        body = " ".join(g_token(rng, depth - 1) for _ in range(rng.randrange(0, 4)))
        return "[" + rng.choice(["", " ", "3", " 3 ", "(2)", "=4", "\t2"]) + body + rng.choice(["]", " ]", ""])
    if x < 0.86 and depth > 0:
        body = rng.choice(SEPS).join(g_token(rng, depth - 1) for _ in range(rng.randrange(0, 4)))
        return "{" + body + rng.choice(["}", "}", " }", ""]) + rng.choice(LEN)
    if x < 0.91:
        body = "".join(g_note(rng) for _ in range(rng.randrange(1, 4)))
        return "'" + body + "'" + rng.choice(["", "4", "2.", "^", ",50", "4,50,100", ",,90", "4 ,80"])
    if x < 0.96 and depth > 0:
        body = rng.choice(SEPS).join(g_token(rng, depth - 1) for _ in range(rng.randrange(0, 4)))
        return rng.choice(["Sub", "S", "Sub ", "Sub/*c*/"]) + "{" + body + rng.choice(["}", "}", ""])
    if x < 0.985: return rng.choice(BAD)
    return rng.choice(["End x y", "END", "]", "'"])

def g_text(rng):
    n = rng.randrange(1, 12)
    out = []
    for _ in range(n):
        out.append(g_token(rng, 2)); out.append(rng.choice(SEPS))
    s = "".join(out)
    r = rng.random()
    if r < 0.15 and s:
        # mutate: drop / duplicate / replace one character
        i = rng.randrange(0, len(s)); k = rng.random()
        s = s[:i] + s[i + 1:] if k < 0.4 else (s[:i] + s[i] + s[i:] if k < 0.7 else s[:i] + rng.choice("c4^.,{}[]'/*\n (-$") + s[i + 1:])
    if rng.random() < 0.12 and s:
        # full-width forms of some characters: `lex` reads the command character in its half-width form (letters, `＃`, `｛` are replaced
        # before the word / block is read); it can meet them unconverted in the text of a `{"…"}` string variable
        idx = [i for i, ch in enumerate(s) if 0x21 <= ord(ch) <= 0x7E]
        for i in rng.sample(idx, min(len(idx), rng.choice([1, 1, 2, 4, 40]))):
            s = s[:i] + chr(ord(s[i]) - 0x21 + 0xFF01) + s[i + 1:]
    return s

FIXED = ["", "c", "c4\n^8", "c4\n\n^", "c4\n d", "l8 [ 3 cde] g", "[ 3 c : d] e", "{[ 3 c]}4", "Sub{[ 3 c]}", "'ceg r' d", "/**/l4 c d e", "c >/**/ d e", "l4 c\n/**/ d /* second */ e",
         "c4\n// comment\n^8. d", "r\n\n\n^^ c", "! ! ! ! ! ! ! ! ! ! ! ! ! ! ! ! ! ! ! ! ! ! ! ! ! ! ! ! ! ! ! ! ! c", "{c\nd e}4 !", "Sub{ c\n ! }\n !", "c 4 d | 8", "n60 , 4", "v ( 10 , 20 )", "o=5 q=(80) t=-2",
         "c End d", "c END\nd", "Endx c", "c ENDING d e", "c End_ d", "End1 c", "c d End", "Sub{c End d} e"]

def lex_stream(tier, rng, P, only=None, cases=None, extra_texts=()):
    big = tier == "thorough"
    def mk():
        cs = []
        n = 40000 if big else 4000
        texts = list(FIXED) + list(extra_texts)
        for i in range(n): texts.append(g_text(rng))
        for i in range(n // 8):
            # printed programs of the core-language generator (only those inside the subset are compared)
            texts.append(mml.pr(mml.gen_cmds(rng, 2, rng.randrange(1, 8), top=False)))
        for i, t in enumerate(texts):
            cs.append(dict(req="tokens " + hx(t), src=t, show=repr(t)[:300], key="x%d" % i))
        return cs
    def model(c, st, f): return ["lex " + hx(c["src"])]
    def judge(c, impl, m):
        st, f = impl
        if "unsupported" in m[0]: return None
        if st != "ok": return ("mismatch", "the real lexer did not return normally on a text the model accepts: " + st)
        if "toks=" not in m[0]: return ("mismatch", "model lexer failed: " + m[0][:100])
        mt = m[0].split("toks=")[1].split(" ")[0]; ml = m[0].split("log=")[1].split(" ")[0]
        if mt != f["toks"]:
            a = unhx(f["toks"]).decode("utf-8", "replace").split(" ("); b = unhx(mt).decode("utf-8", "replace").split(" (")
            for x, y in zip(a, b):
                if x != y: return ("mismatch", "token lists differ: real (%s  model (%s" % (x[:150], y[:150]))
            return ("mismatch", "token lists differ in length: real %d model %d" % (len(a), len(b)))
        if ml != f["log"]:
            return ("mismatch", "lexer log differs: real %r model %r" % (unhx(f["log"]).decode("utf-8", "replace")[-160:], unhx(ml).decode("utf-8", "replace")[-160:]))
        return None
    def nt(c, impl, m):
        return m[0][:400] if "toks=" in m[0] and impl[0] == "ok" else None
    s = Stream("lexer", cases if (cases and only == "lexer") else mk(), model, judge, nt,
               "lexer: raw texts over the core note language (notes with every argument form, lengths with inner layout and line continuation, n/r/l/o/q/v/t "
               "with decimal/hex/octal/parenthesised/!length values, loops, chords, tuplets and Sub blocks nested, every comment form, separators, line breaks, "
               "unknown characters, End, single-character mutations; half-width text, as `lex` receives it from sutoton::convert) through the real lexer::lex and through Model.Lexer; token lists "
               "(type, value, data, children, line numbers of LineNo tokens) and the lexer's log must be identical; texts outside the modelled subset are skipped. "
               "non-trivial = distinct token lists", timeout_case=20.0)
    return s
