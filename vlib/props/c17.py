"""C17 — sutoton and full-width text: streams."""
import os, subprocess, tempfile, shutil
from ..core import Stream, hx, unhx, WORK
from tools import gen_tables
from .. import mml

NEED_CLI = True      # the command-line tool is an entry point too: it must run the same preprocessor

RULE = ("convert: structured inputs (concatenations of vocabulary words incl. overlapping ones, user definitions ~{n}={v} and their later "
        "uses, ASCII MML, {\"...\"} strings and comments that contain vocabulary words) through the real sutoton::convert; the output must equal "
        "the independent longest-match specification (Spec.Sutoton.expected, Lean) and the model's convert; ascii: generated ASCII MML must "
        "come back unchanged apart from outer whitespace; zen2han: every scalar value (thorough) / boundary ranges + sample (quick) vs the "
        "model; midi: a Japanese piece and its transliteration compile to identical bytes. non-trivial = distinct outputs of inputs with >= 1 vocabulary word")
ASSUMPTIONS = ["text segments of the structured generator contain no `~`, `{\"`, `//`, `/*` (those are generated as their own segments)",
               "the expected transliteration of a piece is its greedy longest-match segmentation"]
TRUSTED = ["Spec.Sutoton.greedy/longestMatch (explicit maximum) is my reading of 'always preferring the longest word'"]

ASCII_MML = ["c", "d8", "e4.", "r", "l8", "o5", "v100", "q90", "t2", ">", "<", "[2 c d]", "TR(2)", "@3", "y7,100", "'ceg'", "Sub{c}", " ", "\n", "|", "c+", "n60,4", "(", ")", "{cde}4", "Tempo(120)", "#A={cde} #A", "INT X=3", "PRINT(X)"]

def hx_seg(kind, *parts):
    return kind + ":".join(hx(p) for p in parts)

def gen_structured(rng, vocab):
    segs = []; src = ""
    names = [n for n, v in vocab]
    userdefs = []
    for _ in range(rng.randrange(1, 8)):
        r = rng.random()
        if r < 0.55:
            # text: words and ascii
            t = ""
            for _ in range(rng.randrange(1, 8)):
                x = rng.random()
                if x < 0.55: t += rng.choice(names)
                elif x < 0.65 and userdefs:
                    u = rng.choice(userdefs)
                    # sometimes the half-width spelling of a word defined with full-width characters: not that word
                    t += (u if rng.random() < 0.75 else "".join(chr(ord(ch) - 0xFF01 + 0x21) if 0xFF01 <= ord(ch) <= 0xFF5E else (" " if ch == "　" else ch) for ch in u))
                elif x < 0.9: t += rng.choice(ASCII_MML)
                elif x < 0.95: t += rng.choice(["　", "ａ", "１", "（", "）", "｜", "＃", "＠"])
                else: t += rng.choice(["あ", "ん", "漢", "é", "😀"])
            t = t.replace("//", "/ /").replace("/*", "/ *").replace('{"', '{ "').replace("~", "")
            segs.append(hx_seg("T", t)); src += t
        elif r < 0.7:
            # (names may contain full-width ASCII and ideographic spaces: a word is the text as written, matched as written)
            name = rng.choice(["どー", "あ", "メロ", "x1", "ドレ", rng.choice(names) + "ー", rng.choice(names), "サビ１", "Ｖ", "メロ　Ａ", "ａｂ", "x１", "𝄞", "𝄞メロ", "x😀", "𠮷野"])      # (… and characters beyond the basic plane: a word is counted in characters)
            name = rng.choice([name, name, "AB", "Intro", "Bメロ2"])
            # (a word defined again takes the new value from there on — half-width names included, which are short in bytes but not in characters)
            if userdefs and rng.random() < 0.35: name = rng.choice(userdefs)
            value = rng.choice(["c", "d8", "[2 e]", "o4", "", "l8 c d", "{v}", "c\nd", "\ne\n\n"])      # a definition may span lines
            if "{" in name or "}" in name: continue
            form = rng.choice(["~{%s}={%s}", "~{%s} = {%s}", "～{%s}={%s}", "~ {%s}{%s}"])
            segs.append(hx_seg("D", name, value)); src += form % (name, value)
            if name: userdefs.append(name)
        elif r < 0.85:
            body = rng.choice(names) + rng.choice(["abc", "ドレミ", " x ", ""]) + rng.choice(names) + rng.choice(["", "", "\"", " \"x\" ", "}"])     # quotes and braces inside the string, also directly before its end
            s = '{"' + body + '"}'
            segs.append(hx_seg("V", s)); src += s
        else:
            body = rng.choice(["", "", "*", "* ", " /"]) + rng.choice(names) + rng.choice(["", " memo ", "ドレミ"]) + rng.choice(["", "", "*", " *", " / *", "**"])     # banner comments `/** … **/`
            if rng.random() < 0.5: s = "//" + body + "\n"
            else: s = "/*" + body + "*/"
            segs.append(hx_seg("V", s)); src += s
    return src, ",".join(segs)

def streams(tier, rng, P, only=None, cases=None):
    big = tier == "thorough"
    T = gen_tables.extract(P.srcdir)
    vocab = T["sutoton"]
    def mk_conv():
        cs = []
        n = 6000 if big else 800
        for i in range(n):
            src, segs = gen_structured(rng, vocab)
            cs.append(dict(req="convert " + hx(src), src=src, show=src, segs=segs, key="s%d" % i))
        # corpus: past findings (empty user-defined name used to hang)
        cs.append(dict(req="convert " + hx("~{}={x} ド"), src="~{}={x} ド", show="~{}={x} ド", segs=hx_seg("D", "", "x") + "," + hx_seg("T", " ド"), key="corpus-empty-name"))
        # every vocabulary word alone and doubled
        for n_, v in vocab:
            for s in (n_, n_ + n_, "c" + n_ + "d"):
                cs.append(dict(req="convert " + hx(s), src=s, show=s, segs=hx_seg("T", s), key="w" + s))
        return cs
    def conv_model(c, st, f):
        return [c["req"], "sutspec " + c["segs"]]
    def conv_judge(c, impl, m):
        st, f = impl
        if st != "ok": return ("violation", "convert did not return: " + st)
        if m[1] != "ok out=" + f["out"]:
            return ("violation", "convert output %r differs from the longest-match specification %r" % (unhx(f["out"]).decode("utf-8", "replace")[:120], unhx(m[1].split("out=")[1]).decode("utf-8", "replace")[:120]))
        if m[0] != "ok out=" + f["out"]: return ("mismatch", "model convert differs from the implementation")
        return None
    def conv_nt(c, impl, m):
        return impl[1].get("out") if impl[0] == "ok" and len(c["src"]) > 2 else None
    s1 = Stream("convert", cases if (cases and only == "convert") else mk_conv(), conv_model, conv_judge, conv_nt, "structured sutoton inputs through sutoton::convert")
    # ---- ascii identity
    def mk_ascii():
        cs = []
        n = 3000 if big else 400
        for i in range(n):
            src = mml.pr(mml.gen_program(rng)) if i % 3 else " ".join(rng.choice(ASCII_MML) for _ in range(rng.randrange(1, 12)))
            if i % 4 == 1:
                # several lines, with Windows line ends (a CR is a character of the text like any other: it stays where it is)
                src = rng.choice(["\r\n", "\n", "\r\n\r\n"]).join(rng.choice(ASCII_MML) for _ in range(rng.randrange(2, 8)))
                if rng.random() < 0.5: src += rng.choice([' TrackName={"a\r\nb"} c', " /* x\r\ny */ d", " // rem\r\ne"])
            src = rng.choice(["", " ", "\n\n", "\t"]) + src + rng.choice(["", " ", "\n"])
            if "~" in src: continue
            cs.append(dict(req="convert " + hx(src), src=src, show=src, key="a%d" % i))
        return cs
    def ascii_model(c, st, f): return [c["req"]]
    def ascii_judge(c, impl, m):
        st, f = impl
        if st != "ok": return ("violation", "convert did not return: " + st)
        out = unhx(f["out"]).decode("utf-8", "replace")
        want = c["src"].rstrip()
        while want and want[0].isspace() and want[0] not in "\n\r": want = want[1:]
        if out != want: return ("violation", "plain ASCII MML was rewritten: %r -> %r" % (c["src"][:100], out[:100]))
        if m[0] != "ok out=" + f["out"]: return ("mismatch", "model convert differs from the implementation")
        return None
    s2 = Stream("ascii", cases if (cases and only == "ascii") else mk_ascii(), ascii_model, ascii_judge, lambda c, i, m: i[1].get("out"), "ASCII MML through convert")
    # ---- zen2han
    def mk_z():
        if big:
            pts = [c for c in range(0, 0x110000) if not (0xD800 <= c <= 0xDFFF)]
        else:
            pts = set()
            for a in (0, 0x20, 0x7E, 0xFF01, 0xFF5E, 0x2002, 0x200B, 0x3000, 0xFEFF, 0xD7FF, 0xE000, 0x10FFFF):
                for d in range(-40, 41):
                    if 0 <= a + d <= 0x10FFFF: pts.add(a + d)
            pts |= set(range(0, 0x3100)) | set(range(0xFE00, 0x10000))
            for _ in range(2000): pts.add(rng.randrange(0, 0x110000))
            pts = sorted(c for c in pts if not (0xD800 <= c <= 0xDFFF))
        return [dict(req="zen2han %d" % c, key="z%d" % c, show="zen2han(U+%04X)" % c) for c in pts]
    def z_judge(c, impl, m):
        if impl[0] != "ok": return ("violation", "zen2han did not return")
        if m[0] != "ok out=" + impl[1]["out"]: return ("violation", "width map of %s is %s, specification says %s" % (c["show"], impl[1]["out"], m[0]))
        return None
    s3 = Stream("zen2han", cases if (cases and only == "zen2han") else mk_z(), lambda c, st, f: [c["req"]], z_judge, lambda c, i, m: c["key"] if i[1].get("out") != c["req"].split()[1] else None, "width map per scalar value")
    # ---- same MIDI for a Japanese piece and its transliteration
    def mk_midi():
        cs = []
        n = 1500 if big else 200
        words = [(n_, v) for n_, v in vocab]
        for i in range(n):
            ws = [rng.choice(words) for _ in range(rng.randrange(1, 10))]
            jp = "".join(w[0] for w in ws)
            cs.append(dict(req=None, jp=jp, key="m%d" % i, show=jp))
        return cs
    def mk_midi_ascii():
        # a source that is ASCII throughout but defines and uses words: the definitions must be applied in the whole pipeline too
        cs = []
        for i in range(120 if big else 25):
            name = rng.choice(["abc", "riff", "x1", "qq", "Zed"]); value = rng.choice(["o5 l8 cde", "c d", "[2 e]", "l8 g", "o4 c2"])
            uses = [rng.choice([name, name, "r", "e8"]) for _ in range(rng.randrange(1, 5))]
            if name not in uses: uses.append(name)
            jp = "~{%s}={%s} %s" % (name, value, " ".join(uses)); mml_ = " ".join(value if u == name else u for u in uses)
            cs.append(dict(req="compile2 %s %s" % (hx(jp), hx(mml_)), jp=jp, mml=mml_, key="a%d" % i, show="%s  vs  %s" % (jp, mml_)))
            # ... and through the object API (`SakuraCompiler::compile`), which runs the same preprocessor first
            cs.append(dict(req="objseq en 0 %s %s" % (hx(jp), hx(mml_)), jp=jp, mml=mml_, key="ao%d" % i, show="[object API] %s  vs  %s" % (jp, mml_)))
        # ... and through `compile_to_midi`; the definition may be written with blanks, tabs or a comment between `~` and `{`
        from ..core import run_oracle, parse_resp
        pend = []
        for i in range(60 if big else 14):
            name = rng.choice(["abc", "riff", "x1", "qq", "Zed"]); value = rng.choice(["o5 l8 cde", "c d", "[2 e]", "l8 g", "o4 c2"])
            gap = rng.choice(["", " ", "\t", " /* w */ ", "  ", "/**/", " /** doc */ ", "/***/"])
            uses = [rng.choice([name, name, "r", "e8"]) for _ in range(rng.randrange(1, 5))]
            if name not in uses: uses.append(name)
            g2 = rng.choice(["", " ", "/**/", " /** x */ ", " /* y */"]); g3 = rng.choice(["", " ", "/**/", " /** z */"])
            pend.append(("~%s{%s}%s=%s{%s} %s" % (gap, name, g2, g3, value, " ".join(uses)), " ".join(value if u == name else u for u in uses)))
        refs = run_oracle(P, ["compile %s 0 en lib" % hx(m_) for _, m_ in pend], 20.0, tag="c17m")
        for i, ((jp, mml_), r_) in enumerate(zip(pend, refs)):
            st_, f_ = parse_resp(r_)
            if st_ != "ok": continue
            for entry in ("midi", "lib", "obj"):
                cs.append(dict(req="compile %s 0 en %s" % (hx(jp), entry), jp=jp, mml=mml_, expect=f_["bin"], key="am%d%s" % (i, entry), show="[%s] %s  vs  %s" % (entry, jp, mml_)))
            # ... and through the command-line tool (a fresh process reading the text from a file)
            cs.append(dict(req="compile %s 0 en lib" % hx(jp), jp=jp, mml=mml_, expect=f_["bin"], cli=True, key="am%dcli" % i, show="[command line] %s  vs  %s" % (jp, mml_)))
        for j, (jp, mml_) in enumerate([("~{do}={c}~{re}={d} l4 do re do", "l4 c d c"), ("ドレミ", "cde"), ("~{x1}={[2 e]} x1 c", "[2 e] c"), ("トラック2 ドレ", "TR=2 cd")]):
            cs.append(dict(req="objseq en 0 %s %s" % (hx(jp), hx(mml_)), jp=jp, mml=mml_, key="aof%d" % j, show="[object API] %s  vs  %s" % (jp, mml_)))
        return cs
    def mk_midi_syn():
        # words the command reference documents as another word's synonym (`| クレッシェンド | 大きく(音長),(最終値)//… |`): same MIDI as that word
        import re as _re, os as _os
        cs = []
        try: doc = open(_os.path.join(P.srcdir, "command.md"), encoding="utf-8").read()
        except Exception: doc = ""
        names = set(n_ for n_, _ in vocab)
        for mo in _re.finditer(r"^\| (\S+) \| (\S+?)\(音長\),\(最終値\)//", doc, _re.M):
            w, canon = mo.group(1), mo.group(2)
            if w != canon and w in names and canon in names:
                for args in ("(2,127) c d", "(1,30) c", "2,100 c d e"):
                    a, b = "l4 c " + w + args, "l4 c " + canon + args
                    cs.append(dict(req="compile2 %s %s" % (hx(a), hx(b)), jp=a, mml=b, key="syn-" + w + args[:3], show="%s  vs  %s" % (a, b)))
        return cs
    mcases = cases if (cases and only == "midi") else (mk_midi() + mk_midi_ascii() + mk_midi_syn())
    # expected transliteration comes from the Lean specification: two-phase (first ask the driver)
    from ..core import run_driver
    if mcases and mcases[0].get("req") is None:
        todo = [c for c in mcases if c.get("req") is None]
        outs = run_driver(["sutspec " + hx_seg("T", c["jp"]) for c in todo])
        for c, o in zip(todo, outs):
            c["mml"] = unhx(o.split("out=")[1]).decode("utf-8", "replace") if "out=" in o else ""
            c["req"] = "compile2 %s %s" % (hx(c["jp"]), hx(c["mml"]))
            c["show"] = "%s  vs  %s" % (c["jp"], c["mml"])
    def midi_judge(c, impl, m):
        st, f = impl
        if st != "ok": return None
        if c.get("cli"):
            tmp = tempfile.mkdtemp(prefix="sv-cli17-", dir=WORK)
            try:
                srcf = os.path.join(tmp, "a.mml"); outf = os.path.join(tmp, "a.mid")
                open(srcf, "w", encoding="utf-8").write(c["jp"])
                r = subprocess.run([P.cli, srcf, outf], stdout=subprocess.PIPE, stderr=subprocess.PIPE, timeout=60)
                got = open(outf, "rb").read().hex() if (r.returncode == 0 and os.path.exists(outf)) else "failed rc=%d" % r.returncode
            finally:
                shutil.rmtree(tmp, ignore_errors=True)
            if got != c["expect"]: return ("violation", "through the command-line tool, a source with word definitions compiles to other MIDI than its transliteration")
        if "expect" in c:
            if f.get("bin") != c["expect"]: return ("violation", "a source with word definitions compiles to other MIDI than its transliteration through one of the entry points")
            return None
        if "bins" in f:
            b = f["bins"].split(",")
            if len(b) != 2 or b[0] != b[1]: return ("violation", "through the object API, Japanese notation / word definitions and the transliteration compile to different MIDI")
            return None
        if f["bin1"] != f["bin2"]:
            return ("violation", "a word and the word the reference documents it as compile to different MIDI" if c["key"].startswith("syn-") else "Japanese notation and its transliteration compile to different MIDI")
        return None
    s4 = Stream("midi", mcases, lambda c, st, f: [], midi_judge, lambda c, i, m: i[1].get("bin1") or i[1].get("bins") or i[1].get("bin"), "piece vs transliteration", timeout_case=20.0)
    return [s for s in (s1, s2, s3, s4) if only in (None, s.name)]
