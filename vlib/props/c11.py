"""C11 — IF/FOR/WHILE/BREAK/CONTINUE and user functions: streams."""
import re
from ..core import Stream, hx, unhx

RULE = ("script: random script programs (nested IF/ELSE, WHILE, FOR with BREAK/CONTINUE at every depth, loops that hit the 10000-iteration limit, "
        "user functions with positional/defaulted parameters called as statements and inside expressions, RETURN from inside loops, Result=, "
        "bounded recursion, shadowing of caller variables, bodies that emit notes and PRINTs) run by the real lexer+runner; the log text and the "
        "sequence of emitted note numbers must equal those of the reference interpreter Spec.Script (Lean). "
        "scriptexec: the same programs through the harness op scriptrun (real token list, real function table, log, notes, height of the value stack); the "
        "literal model Model.ScriptExec run on those real tokens must give the same log, notes and stack height, the real token lists must lie inside the token "
        "classes Stm/Ex/Arg of the stack theorem (C11_call_leaves_no_value), and no value may be left on the stack. "
        "non-trivial = distinct (log, notes) outputs of programs with >= 1 loop or call")
ASSUMPTIONS = ["operands of binary operators inside script expressions are parenthesised or atomic where needed by the C10 grammar (C10 covers precedence)",
               "all statements are on one source line (line accounting is C19's subject)", "functions used inside expressions RETURN a value"]
TRUSTED = ["Spec.Script (reference interpreter) is my reading of the documented control-flow and call semantics"]

VARS = ["IA", "JB", "KC", "ND", "ME"]

class G:
    def __init__(self, rng):
        self.rng = rng; self.funcs = []; self.loop_depth = 0; self.in_func = False; self.nloops = 0; self.ncalls = 0; self.names = list(VARS)
        self.subs = False      # wrap some statement runs in `Sub{ … }` (script stream only)
    def expr(self, d, allow_call=True):
        r = self.rng
        if d == 0 or r.random() < 0.35:
            if r.random() < 0.5: return ("lit", r.randint(0, 9))
            return ("var", r.choice(self.names))
        if allow_call and self.funcs and r.random() < 0.2:
            f = r.choice(self.funcs); self.ncalls += 1
            nargs = r.randint(0 if r.random() < 0.3 else max(0, len(f["params"]) - f["ndef"]), len(f["params"]))
            return ("call", f["name"], [self.expr(d - 1, False) for _ in range(nargs)])
        op = r.choice([3, 3, 4, 0, 1, 2])
        return ("bin", op, self.expr(d - 1, allow_call), self.expr(d - 1, allow_call))
    def cond(self):
        r = self.rng
        if r.random() < 0.2:
            # a plain number as the condition: every value other than 0 (negative ones too) counts as true
            return r.choice([("bin", 4, self.expr(1, False), self.expr(1, False)), ("bin", 4, ("lit", r.randint(0, 3)), ("lit", r.randint(0, 6))), self.expr(1, False)])
        op = r.choice([5, 6, 7, 8, 9, 10])
        c = ("bin", op, self.expr(1, False), self.expr(1, False))
        if r.random() < 0.2: c = ("bin", r.choice([11, 12]), c, ("bin", r.choice([7, 9]), self.expr(1, False), self.expr(0)))
        return c
    def block(self, d, n=None):
        return [self.stmt(d) for _ in range(n if n is not None else self.rng.randrange(1, 4))]
    def stmt(self, d):
        r = self.rng; x = r.random()
        if self.subs and d > 0 and r.random() < 0.12:
            # `Sub{X}` only restores the time pointer: BREAK / CONTINUE / RETURN inside it act on the enclosing loop or call as if written bare
            return ("sub", self.block(d - 1))
        if d > 0 and x < 0.14:
            return ("if", self.cond(), self.block(d - 1), self.block(d - 1) if r.random() < 0.5 else [])
        if d > 0 and x < 0.26 and self.loop_depth < 3:
            self.loop_depth += 1; self.nloops += 1
            v = "XL" + "ABC"[self.loop_depth - 1] + ("F" if self.in_func else ""); lim = r.randint(0, 5)
            body = self.block(d - 1)
            self.loop_depth -= 1
            loop = ("for", v, ("lit", r.randint(0, 2)), ("bin", r.choice([9, 10]), ("var", v), ("lit", lim)), ("inc", v, 1), body)
            # the loop variable stays visible after the loop: its final value shows how often the increment clause ran
            return ("seq", [loop, ("print", ("var", v))]) if r.random() < 0.6 else loop
        if d > 0 and x < 0.36 and self.loop_depth < 3:
            self.loop_depth += 1; self.nloops += 1
            v = "XW" + "ABC"[self.loop_depth - 1] + ("F" if self.in_func else ""); lim = r.randint(0, 5)
            body = self.block(d - 1)
            # the counter is advanced first so that CONTINUE cannot skip it (termination of the generated program)
            body = [("inc", v, 1)] + body
            self.loop_depth -= 1
            return ("seq", [("decl", v, ("lit", 0)), ("while", ("bin", 9, ("var", v), ("lit", lim)), body)] + ([("print", ("var", v))] if r.random() < 0.5 else []))
        if x < 0.42 and self.loop_depth > 0: return ("if", self.cond(), [r.choice([("break",), ("continue",)])], [])
        if x < 0.45 and self.in_func: return ("ret", self.expr(1, False))
        if x < 0.50 and self.funcs:
            f = r.choice(self.funcs); self.ncalls += 1
            nargs = r.randint(0 if r.random() < 0.3 else max(0, len(f["params"]) - f["ndef"]), len(f["params"]))
            return ("call", f["name"], [self.expr(1, False) for _ in range(nargs)])
        if x < 0.62: return ("print", self.expr(2))
        if x < 0.70: return ("note", r.randint(36, 96))
        if x < 0.80: return ("decl", r.choice(VARS), self.expr(1))
        if x < 0.90: return ("assign", r.choice(VARS), self.expr(2))
        return ("inc", r.choice(VARS), r.choice([1, -1]))
    def func(self, idx):
        r = self.rng
        name = ["FA", "FB", "FC", "GG"][idx]
        np = r.randint(0, 3); ndef = r.randint(0, np)
        params = []
        pool = list(VARS); r.shuffle(pool)
        for i in range(np):
            # parameters often carry the name of a caller variable (shadowing; arguments mentioning such a name read the caller's value)
            # declared defaults may stand anywhere in the list (a parameter without one takes 0 when its argument is omitted)
            params.append((pool[i] if r.random() < 0.5 else ["PA", "QB", "RC"][i], r.randint(0, 9) if (i >= np - ndef or r.random() < 0.25) else None))
        self.in_func = True; self.names = list(VARS) + [p for p, _ in params if p not in VARS] * 2
        body = self.block(2, r.randrange(1, 4))
        # every function ends by yielding a value (a call of a function that yields none has no specified value inside an expression)
        body.append(("ret", self.expr(1, False)) if r.random() < 0.7 else ("assign", "Result", self.expr(1, False)))
        self.in_func = False; self.names = list(VARS)
        f = dict(name=name, params=params, ndef=ndef, body=body)
        return f

def flat(stmts):
    out = []
    for s in stmts:
        if s[0] == "seq": out += flat(s[1])
        elif s[0] == "if": out.append(("if", s[1], flat(s[2]), flat(s[3])))
        elif s[0] == "while": out.append(("while", s[1], flat(s[2])))
        elif s[0] == "for": out.append(("for", s[1], s[2], s[3], s[4], flat(s[5])))
        elif s[0] == "sub": out.append(("sub", flat(s[1])))
        else: out.append(s)
    return out

OPS = {0: "*", 1: "/", 2: "%", 3: "+", 4: "-", 5: "==", 6: "!=", 7: ">", 8: ">=", 9: "<", 10: "<=", 11: "&", 12: "|"}
def pe(e):
    k = e[0]
    if k == "lit": return str(e[1])
    if k == "var": return e[1]
    if k == "call": return "%s(%s)" % (e[1], ", ".join(pe(a) for a in e[2]))
    return "(%s %s %s)" % (pe(e[2]), OPS[e[1]], pe(e[3]))
def ps(stmts):
    out = []
    for s in stmts:
        k = s[0]
        if k == "print": out.append("PRINT(%s);" % pe(s[1]))
        elif k == "note": out.append("n%d" % s[1])
        elif k == "decl": out.append("INT %s=%s;" % (s[1], pe(s[2])))
        elif k == "assign": out.append("%s=%s;" % (s[1], pe(s[2])))
        elif k == "inc": out.append("%s%s;" % (s[1], "++" if s[2] > 0 else "--"))
        elif k == "if": out.append("IF(%s){ %s }" % (pe(s[1]), ps(s[2])) + (" ELSE { %s }" % ps(s[3]) if s[3] else ""))
        elif k == "while": out.append("WHILE(%s){ %s }" % (pe(s[1]), ps(s[2])))
        elif k == "for": out.append("FOR(INT %s=%s; %s; %s++){ %s }" % (s[1], pe(s[2]), pe(s[3]), s[4][1], ps(s[5])))
        elif k == "break": out.append("BREAK")
        elif k == "continue": out.append("CONTINUE")
        elif k == "ret": out.append("RETURN(%s);" % pe(s[1]))
        elif k == "call": out.append("%s(%s);" % (s[1], ", ".join(pe(a) for a in s[2])))
        elif k == "sub": out.append("Sub{ %s }" % ps(s[1]))
    return " ".join(out)
def se(e):
    k = e[0]
    if k == "lit": return str(e[1])
    if k == "var": return e[1]
    if k == "call": return "(call %s (%s))" % (e[1], " ".join(se(a) for a in e[2]))
    return "(b %d %s %s)" % (e[1], se(e[2]), se(e[3]))
def ss(stmts):
    out = []
    for s in stmts:
        k = s[0]
        if k == "print": out.append("(print %s)" % se(s[1]))
        elif k == "note": out.append("(note %d)" % s[1])
        elif k in ("decl", "assign"): out.append("(%s %s %s)" % (k, s[1], se(s[2])))
        elif k == "inc": out.append("(inc %s %d)" % (s[1], s[2]))
        elif k == "if": out.append("(if %s %s %s)" % (se(s[1]), ss(s[2]), ss(s[3])))
        elif k == "while": out.append("(while %s %s)" % (se(s[1]), ss(s[2])))
        elif k == "for": out.append("(for %s %s %s (inc %s 1) %s)" % (s[1], se(s[2]), se(s[3]), s[4][1], ss(s[5])))
        elif k == "break": out.append("(break)")
        elif k == "continue": out.append("(continue)")
        elif k == "ret": out.append("(ret %s)" % se(s[1]))
        elif k == "call": out.append("(call %s (%s))" % (s[1], " ".join(se(a) for a in s[2])))
        elif k == "sub":
            inner = ss(s[1])[1:-1]
            if inner: out.append(inner)
    return "(" + " ".join(out) + ")"

def gen_case(rng, sharp=True):
    g = G(rng)
    g.subs = sharp
    nf = rng.choice([0, 0, 1, 2, 3])
    for i in range(nf):
        f = g.func(i)
        g.funcs.append(f)      # later functions may call earlier ones (and themselves is avoided)
    prog = flat([("decl", v, ("lit", rng.randint(0, 5))) for v in VARS] + g.block(rng.choice([1, 2, 3, 4]), rng.randrange(1, 6)))
    fsrc = " ".join("FUNCTION %s(%s){ %s }" % (f["name"], ", ".join(p if d is None else "%s=%d" % (p, d) for p, d in f["params"]), ps(flat(f["body"]))) for f in g.funcs)
    fsexp = "(" + " ".join("(fn %s (%s) %s)" % (f["name"], " ".join("(%s %s)" % (p, 0 if d is None else d) for p, d in f["params"]), ss(flat(f["body"]))) for f in g.funcs) + ")"
    src = (fsrc + " " if fsrc else "") + ps(prog)
    sx = ss(prog)
    if sharp and rng.random() < 0.25:
        # a sharpened note written before the definitions on the same line (`#` also begins the line-comment forms `##`, `# `, `#-`,
        # but only at command position): the definitions after it are still definitions
        txt, key = rng.choice([("c# ", 61), ("c## ", 62), ("c#- ", 60), ("d# ", 63), ("e#-c ", None)])
        if key is None: src = "e#- c " + src; sx = "((note 64) (note 60) " + sx[1:]
        else: src = txt + src; sx = "((note %d) " % key + sx[1:]
    return src, "(%s %s)" % (fsexp, sx), g.nloops + g.ncalls

FIXED = [
    ("FOR(INT I=0;I<10;I++){ IF(I==3){BREAK} } PRINT(I)", "(() ((for I 0 (b 9 I 10) (inc I 1) ((if (b 5 I 3) ((break)) ()))) (print I)))"),
    ("FOR(INT I=0;I<4;I++){ IF(I==1){CONTINUE} n60 } PRINT(I)", "(() ((for I 0 (b 9 I 4) (inc I 1) ((if (b 5 I 1) ((continue)) ()) (note 60))) (print I)))"),
    ("FUNCTION FACT(KA,ACC){ IF(KA<=1){ RETURN(ACC) } RETURN(FACT(KA-1, ACC*KA)) } PRINT(FACT(5,1))",
     "(((fn FACT ((KA _) (ACC _)) ((if (b 10 KA 1) ((ret ACC)) ()) (ret (call FACT ((b 4 KA 1) (b 0 ACC KA))))))) ((print (call FACT (5 1)))))"),
    ("FUNCTION DIFF(IA,JB){ RETURN(IA-JB) } INT IA=10; INT JB=3; PRINT(DIFF(JB,IA))",
     "(((fn DIFF ((IA _) (JB _)) ((ret (b 4 IA JB))))) ((decl IA 10) (decl JB 3) (print (call DIFF (JB IA)))))"),
    ("INT I=0 WHILE(1==1){ I++ CONTINUE } PRINT(I) n60", "(() ((decl I 0) (while (b 5 1 1) ((inc I 1) (continue))) (print I) (note 60)))"),
    ("INT I=0 FOR(INT J=0; 1==1; J++){ I++ } PRINT(I) n61", "(() ((decl I 0) (for J 0 (b 5 1 1) (inc J 1) ((inc I 1))) (print I) (note 61)))"),
    ("FUNCTION F(A){RETURN(A+1)} FUNCTION G(A){RETURN(A+100)} PRINT(G(1)) PRINT(F(1))", "(((fn F ((A _)) ((ret (b 3 A 1)))) (fn G ((A _)) ((ret (b 3 A 100))))) ((print (call G (1))) (print (call F (1)))))"),
    ("FUNCTION F(A){ WHILE(1==1){ IF(A>3){ RETURN(A) } A++ } } PRINT(F(1))", "(((fn F ((A _)) ((while (b 5 1 1) ((if (b 7 A 3) ((ret A)) ()) (inc A 1)))))) ((print (call F (1)))))"),
    # a call made as a statement inside a function that is itself being evaluated inside an expression; then a call with omitted arguments
    ("INT IA=3; FUNCTION FA(JB=7){ PRINT(JB); RETURN((JB * IA)); } FUNCTION FB(PA){ FA(); RETURN(1); } INT ND=(FB(5) * FB(5)); PRINT(ND)",
     "(((fn FA ((JB 7)) ((print JB) (ret (b 0 JB IA)))) (fn FB ((PA _)) ((call FA ()) (ret 1)))) ((decl IA 3) (decl ND (b 0 (call FB (5)) (call FB (5)))) (print ND)))"),
    # a parameter without a declared default after one with a default: omitted, it is 0 (not the earlier parameter's default)
    ("FUNCTION F(PA=5, QB){ PRINT(PA) PRINT(QB) RETURN(PA+QB) } F() F(1) PRINT(F(1,2)) PRINT(F())",
     "(((fn F ((PA 5) (QB 0)) ((print PA) (print QB) (ret (b 3 PA QB))))) ((call F ()) (call F (1)) (print (call F (1 2))) (print (call F ()))))"),
    ("FUNCTION G(PA=3, QB, RC=7, KA){ RETURN(((PA*1000)+(QB*100))+((RC*10)+KA)) } PRINT(G()) PRINT(G(1)) PRINT(G(1,2)) PRINT(G(1,2,3)) PRINT(G(1,2,3,4))",
     "(((fn G ((PA 3) (QB 0) (RC 7) (KA 0)) ((ret (b 3 (b 3 (b 0 PA 1000) (b 0 QB 100)) (b 3 (b 0 RC 10) KA)))))) ((print (call G ())) (print (call G (1))) (print (call G (1 2))) (print (call G (1 2 3))) (print (call G (1 2 3 4)))))"),
    # an argument left empty in the middle or at the front keeps its position, in a call written inside an expression as in a statement
    # (the empty slot is the absent value: written `ZZNONE`, a name that is never defined, for the reference interpreter)
    ("FUNCTION F(PA=1,QB=2,RC=3){ RETURN(((PA*100)+(QB*10))+RC) } PRINT(F(7,,9)) PRINT(F(,5)) PRINT(F(,,4)) INT X=F(,8,)+1 PRINT(X)",
     "(((fn F ((PA 1) (QB 2) (RC 3)) ((ret (b 3 (b 3 (b 0 PA 100) (b 0 QB 10)) RC))))) ((print (call F (7 ZZNONE 9))) (print (call F (ZZNONE 5))) (print (call F (ZZNONE ZZNONE 4))) (decl X (b 3 (call F (ZZNONE 8)) 1)) (print X)))"),
    ("FUNCTION G(PA=1,QB=2,RC=3){ PRINT(((PA*100)+(QB*10))+RC) } G(7,,9) G(,5) INT Y=G(6,,)",
     "(((fn G ((PA 1) (QB 2) (RC 3)) ((print (b 3 (b 3 (b 0 PA 100) (b 0 QB 10)) RC))))) ((call G (7 ZZNONE 9)) (call G (ZZNONE 5)) (decl Y (call G (6)))))"),
    # a loop condition is any value: it holds while the value is not 0, negative numbers included (as for IF)
    ("INT N=0-3 WHILE(N){ PRINT(N) n60 N++ } PRINT(N)", "(() ((decl N (b 4 0 3)) (while N ((print N) (note 60) (inc N 1))) (print N)))"),
    ("FOR(INT I=0-2; I; I++){ PRINT(I) n61 } PRINT(I)", "(() ((for I (b 4 0 2) I (inc I 1) ((print I) (note 61))) (print I)))"),
    ("INT N=0-2 IF(N){ PRINT(1) }ELSE{ PRINT(2) } WHILE(N+1){ N++ PRINT(N) }", "(() ((decl N (b 4 0 2)) (if N ((print 1)) ((print 2))) (while (b 3 N 1) ((inc N 1) (print N)))))"),
    # an omitted argument may be written with blanks around its comma: it still holds its place
    ("FUNCTION F(PA=7,QB=9){ RETURN((PA*10)+QB) } PRINT(F( ,3)) PRINT(F(1, )) INT X=F( , ) PRINT(X) FUNCTION G(PA=1,QB=2,RC=3){ RETURN(((PA*100)+(QB*10))+RC) } PRINT(G(5, ,6)) PRINT(G( , ,4)) PRINT(G( ,8))",
     "(((fn F ((PA 7) (QB 9)) ((ret (b 3 (b 0 PA 10) QB)))) (fn G ((PA 1) (QB 2) (RC 3)) ((ret (b 3 (b 3 (b 0 PA 100) (b 0 QB 10)) RC))))) ((print (call F (ZZNONE 3))) (print (call F (1))) (decl X (call F ())) (print X) (print (call G (5 ZZNONE 6))) (print (call G (ZZNONE ZZNONE 4))) (print (call G (ZZNONE 8)))))"),
    # RETURN out of a loop whose condition is a bare literal ends the loop with the call: no further pass, no limit error
    ("FUNCTION FIND(ND){ FOR(INT I=0; 1; I++){ IF(I*I>=ND){ RETURN(I) } } } PRINT(FIND(10)) PRINT(FIND(0))",
     "(((fn FIND ((ND _)) ((for I 0 1 (inc I 1) ((if (b 8 (b 0 I I) ND) ((ret I)) ())))))) ((print (call FIND (10))) (print (call FIND (0)))))"),
    ("FUNCTION FW(KA){ WHILE(1){ KA++ IF(KA>5){ RETURN(KA) } } } PRINT(FW(1)) FUNCTION FX(KA){ FOR(INT J=0; 7; J++){ FOR(INT K=0; 1; K++){ IF(K==2){ RETURN(J+K+KA) } } } } PRINT(FX(10))",
     "(((fn FW ((KA _)) ((while 1 ((inc KA 1) (if (b 7 KA 5) ((ret KA)) ()))))) (fn FX ((KA _)) ((for J 0 7 (inc J 1) ((for K 0 1 (inc K 1) ((if (b 5 K 2) ((ret (b 3 (b 3 J K) KA))) ())))))))) ((print (call FW (1))) (print (call FX (10)))))"),
    # control flow written inside `Sub{ }` acts on the enclosing loop / call
    ("FOR(INT I=0;I<3;I++){ Sub{ n60 IF(I==1){BREAK} n62 } n64 PRINT(I) } PRINT(I)",
     "(() ((for I 0 (b 9 I 3) (inc I 1) ((note 60) (if (b 5 I 1) ((break)) ()) (note 62) (note 64) (print I))) (print I)))"),
    ("INT K=0 WHILE(K<4){ K++ Sub{ IF(K==2){CONTINUE} n60 } PRINT(K) } FUNCTION FF(KA){ Sub{ n61 RETURN(KA+1) n62 } n63 RETURN(0) } PRINT(FF(6))",
     "(((fn FF ((KA _)) ((note 61) (ret (b 3 KA 1)) (note 62) (note 63) (ret 0)))) ((decl K 0) (while (b 9 K 4) ((inc K 1) (if (b 5 K 2) ((continue)) ()) (note 60) (print K))) (print (call FF (6)))))"),
    # a statement after an IF block whose name begins with ELSE is that statement, not the keyword
    ("INT ELSEV=1 IF(1){ PRINT(5) } ELSEV=2 PRINT(ELSEV) IF(0){ PRINT(6) } ELSEV=3 PRINT(ELSEV)",
     "(() ((decl ELSEV 1) (if 1 ((print 5)) ()) (assign ELSEV 2) (print ELSEV) (if 0 ((print 6)) ()) (assign ELSEV 3) (print ELSEV)))"),
    ("FUNCTION ElseDo(A){ PRINT(A+1) } IF(0){ PRINT(1) } ElseDo(4) IF(1){ PRINT(2) }ELSE{ PRINT(3) } ElseDo(7)",
     "(((fn ElseDo ((A _)) ((print (b 3 A 1))))) ((if 0 ((print 1)) ()) (call ElseDo (4)) (if 1 ((print 2)) ((print 3))) (call ElseDo (7))))"),
    ("INT X=5 FUNCTION F(A=2){ INT X=A+1 X=X+1 Result=X } PRINT(F()) PRINT(X)", "(((fn F ((A 2)) ((decl X (b 3 A 1)) (assign X (b 3 X 1)) (assign Result X)))) ((decl X 5) (print (call F ())) (print X)))"),
]

SPELL = {"CONTINUE": ["Continue"], "BREAK": ["Break", "EXIT", "Exit"], "RETURN": ["Return"], "FOR": ["For"], "WHILE": ["While"], "IF": ["If"], "PRINT": ["Print"],
         "INT": ["Int"], "FUNCTION": ["Function"]}
def respell(rng, src):
    """the other spellings of the script words (every word of the command table has an upper-case and a capitalised entry, BREAK also EXIT)"""
    return re.sub(r"\b(CONTINUE|BREAK|RETURN|FOR|WHILE|IF|PRINT|INT|FUNCTION)\b", lambda m_: rng.choice(SPELL[m_.group(1)] + [m_.group(1)]), src)

def streams(tier, rng, P, only=None, cases=None):
    big = tier == "thorough"
    def mk():
        cs = []
        n = 8000 if big else 1000
        for i in range(n):
            src, sx, nt_ = gen_case(rng)
            if i % 3 == 2: src = respell(rng, src)
            cs.append(dict(req="run " + hx(src), src=src, show=src, sexp=sx, nt=nt_, key="s%d" % i))
        for j, (src, sx) in enumerate(FIXED):
            cs.append(dict(req="run " + hx(src), src=src, show=src, sexp=sx, nt=1, key="fixed%d" % j))
        # the same statements laid out over several lines: ELSE on the line after the closing brace or after a comment, bodies on their own lines
        ML = [("IF(1){ PRINT(1) }\nELSE{ PRINT(2) }\nPRINT(3)", "(() ((if 1 ((print 1)) ((print 2))) (print 3)))"),
              ("IF(0){ PRINT(1) } // no\nELSE{ PRINT(2) }\nPRINT(3)", "(() ((if 0 ((print 1)) ((print 2))) (print 3)))"),
              ("INT A=0\nIF(A){\n PRINT(1)\n}\n\nELSE{\n PRINT(2) n60\n}\nPRINT(3)", "(() ((decl A 0) (if A ((print 1)) ((print 2) (note 60))) (print 3)))"),
              ("FOR(INT I=0;I<3;I++){\n IF(I==1){ PRINT(I) }\n ELSE{ n60 }\n}\nPRINT(I)", "(() ((for I 0 (b 9 I 3) (inc I 1) ((if (b 5 I 1) ((print I)) ((note 60))))) (print I)))"),
              ("FUNCTION F(A){\n IF(A>1){ RETURN(1) } /* c */\n ELSE{ RETURN(2) }\n}\nPRINT(F(5)) PRINT(F(0))", "(((fn F ((A 0)) ((if (b 7 A 1) ((ret 1)) ((ret 2)))))) ((print (call F (5))) (print (call F (0)))))")]
        # a call written as a statement without an argument list ends with its name: what stands on the next line is the next statement
        ML += [("FUNCTION RIFF(NA=2){ PRINT(NA) n60 }\nRIFF\nn62\nPRINT(9)", "(((fn RIFF ((NA 2)) ((print NA) (note 60)))) ((call RIFF ()) (note 62) (print 9)))"),
               ("FUNCTION BEAT(){ n61 }\nFOR(INT I=0;I<2;I++){\n BEAT\n PRINT(I)\n}\nBEAT\n\n// c\nPRINT(5)", "(((fn BEAT () ((note 61)))) ((for I 0 (b 9 I 2) (inc I 1) ((call BEAT ()) (print I))) (call BEAT ()) (print 5)))")]
        # blanks or a line break between `FOR(` and the type word of the initialiser: the same loop, nothing logged about it
        ML += [("FOR( INT I=0; I<3; I++){ PRINT(I) n60 }\nPRINT(I)", "(() ((for I 0 (b 9 I 3) (inc I 1) ((print I) (note 60))) (print I)))"),
               ("FOR(\nINT I=0; I<2; I++){ PRINT(I) }", "(() ((for I 0 (b 9 I 2) (inc I 1) ((print I)))))"),
               ("FUNCTION F(A){ FOR(  INT K=1; K<A; K++){ PRINT(K) } RETURN(K) }\nPRINT(F(3))", "(((fn F ((A 0)) ((for K 1 (b 9 K A) (inc K 1) ((print K))) (ret K)))) ((print (call F (3)))))")]
        for j, (src, sx) in enumerate(ML):
            cs.append(dict(req="run " + hx(src), src=src, show=src, sexp=sx, nt=1, key="ml%d" % j, multiline=True))
            # … and the same layouts with Windows line ends
            src2 = src.replace("\n", "\r\n")
            cs.append(dict(req="run " + hx(src2), src=src2, show=repr(src2), sexp=sx, nt=1, key="mlcr%d" % j, multiline=True))
        for j, (src, sx) in enumerate([("FUNCTION Twice(XQ)\r\n{ RETURN(XQ*2) }\r\nPRINT(Twice(4))\r\n", "(((fn Twice ((XQ _)) ((ret (b 0 XQ 2))))) ((print (call Twice (4)))))"),
                                       ("INT A=1\r\nWHILE(A<3)\r\n{ A++ }\r\nPRINT(A)", "(() ((decl A 1) (while (b 9 A 3) ((inc A 1))) (print A)))")]):
            cs.append(dict(req="run " + hx(src), src=src, show=repr(src), sexp=sx, nt=1, key="mlcrf%d" % j, multiline=True))
        return cs
    def model(c, st, f): return ["script " + hx(c["sexp"])]
    def judge(c, impl, m):
        st, f = impl
        if st != "ok": return ("violation", "script did not run normally: " + st)
        if "log=" not in m[0]: return ("mismatch", "reference interpreter failed: " + m[0])
        if " big=1" in m[0]: return None      # the run left the 64-bit domain (a variable at or beyond 2^62): outside the tie's domain
        want_log = unhx(m[0].split("log=")[1].split(" ")[0]).decode("utf-8", "replace")
        want_log = "\n".join(want_log.split("\n")[:100])          # the log keeps at most 100 entries (C19)
        if len(want_log) > 4096: want_log = want_log[:4096] + "..."
        want_notes = m[0].split("notes=")[1].split(" ")[0]
        if re.search(r"\d{18,}", want_log): return None      # values beyond 64 bits: the model's integers are unbounded, the domain is |n| < 2^63
        got_log = unhx(f.get("log", "~")).decode("utf-8", "replace")
        got_notes = ",".join(e.split(":")[3] for e in f["tracks"].split(";")[0].split(",") if e.startswith("on:"))
        if c.get("multiline"): got_log = re.sub(r"\[PRINT\]\(\d+\)", "[PRINT](0)", got_log)      # (line numbers are C19's subject)
        if got_log != want_log:
            return ("violation", "log differs from the unrolled/interpreted program: got %r want %r" % (got_log[-200:], want_log[-200:]))
        if got_notes != want_notes:
            return ("violation", "emitted notes differ: got %s want %s" % (got_notes[-120:], want_notes[-120:]))
        return None
    def nt(c, impl, m): return (m[0][:200]) if c["nt"] >= 1 and impl[0] == "ok" else None
    s1 = Stream("script", cases if (cases and only == "script") else mk(), model, judge, nt, "script programs vs the reference interpreter", timeout_case=30.0)
    # ---- scriptexec: the literal model of the script arms of runner::exec (Model.ScriptExec) on the REAL token lists and function tables
    def mk_sx():
        cs = []
        n = 8000 if big else 1000
        for i in range(n):
            src, sx, nt_ = gen_case(rng, sharp=False)
            cs.append(dict(req="scriptrun " + hx(src), src=src, show=src, nt=nt_, key="x%d" % i))
        for j, (src, sx) in enumerate(FIXED):
            if "Sub{" in src: continue      # (the literal script model covers the script arms only)
            cs.append(dict(req="scriptrun " + hx(src), src=src, show=src, nt=1, key="xfixed%d" % j))
        for j, src in enumerate(["FUNCTION F(X,Y=2){ RETURN(X+Y) } PRINT(F(1)); F(2,3); F(); PRINT(F())", "INT A=1; FUNCTION G(){ A=5; PRINT(A) } G(); PRINT(A)",
                                 "FUNCTION H(N){ IF(N<=0){ RETURN(0) } RETURN(N+H(N-1)) } PRINT(H(4))", "INT K=0; WHILE(K<3){ K++; IF(K==2){ CONTINUE } PRINT(K) } PRINT(K)",
                                 "FUNCTION Q(){ FOR(INT I=0;I<5;I++){ IF(I==2){ RETURN(I*10) } } RETURN(99) } PRINT(Q()+1)", "PRINT(1+2*3); PRINT((1+2)*3); PRINT(7/2); PRINT(7%3); PRINT(1==1); PRINT(2>3)"]):
            cs.append(dict(req="scriptrun " + hx(src), src=src, show=src, nt=1, key="xf%d" % j))
        return cs
    def sx_model(c, st, f):
        if st != "ok": return []
        return ["scriptexec %s %s" % (f["toks"], f["funcs"])]
    def norm_log(text):
        out = []
        for e in text.split("\n"):
            m_ = re.match(r"^\[ERROR\]\((-?\d+)\) .*(WHILE|FOR)\(>\d+\)$", e)
            out.append("[LIMIT-%s](%s)" % (m_.group(2)[0], m_.group(1)) if m_ else e)
        return "\n".join(out)
    def sx_judge(c, impl, m):
        st, f = impl
        if st != "ok": return ("violation", "script did not run normally: " + st)
        if not m or "log=" not in m[0]:
            return ("mismatch", "the literal model does not cover a generated program: " + (m[0] if m else "")[:80])
        d = dict(x.split("=", 1) for x in m[0].split(" ")[1:] if "=" in x)
        if d.get("big") == "1": return None      # a variable at or beyond 2^62: outside the 64-bit domain of the tie
        want_log = unhx(d["log"]).decode("utf-8", "replace") if d["log"] != "~" else ""
        want_log = "\n".join(want_log.split("\n")[:100])
        got_log = norm_log(unhx(f["log"]).decode("utf-8", "replace")) if f["log"] != "~" else ""
        if re.search(r"\d{18,}", want_log): return None      # values beyond 64 bits (the model's integers are unbounded)
        if len(want_log) > 4000 or len(got_log) > 4000: got_log = got_log[:4000]; want_log = want_log[:4000]
        if got_log != want_log: return ("mismatch", "literal script model log differs: real %r model %r" % (got_log[-160:], want_log[-160:]))
        if f["notes"] != d["notes"]: return ("mismatch", "literal script model notes differ: real %s model %s" % (f["notes"][-80:], d["notes"][-80:]))
        if f["stack"] != d["stack"]: return ("mismatch", "value stack height differs: real %s model %s" % (f["stack"], d["stack"]))
        if d.get("wf") != "1": return ("mismatch", "the real token list is outside the classes Stm/Ex/Arg of the stack theorem")
        if f["stack"] != "0": return ("violation", "a value is left on the stack after the program (%s)" % f["stack"])
        return None
    s2 = Stream("scriptexec", cases if (cases and only == "scriptexec") else mk_sx(), sx_model, sx_judge,
                lambda c, i, m: (m[0][:200]) if c["nt"] >= 1 and i[0] == "ok" and m else None,
                "literal script-runner model on real token lists: log, notes, stack height; token classes of the stack theorem", timeout_case=30.0)
    return [s for s in (s1, s2) if only in (None, s.name)]
