"""C18 — spacing, bar lines, separators and comments never change the music: streams."""
from ..core import Stream, hx, unhx
from .. import mml, lexstream

RULE = ("relayout: programs given as a list of complete commands (core language, controllers, script statements, macros; expression-valued arguments "
        "closed by ')' or ';') are written twice with independently chosen layout between the commands — blanks, tabs, CR/LF, '|', ';', and comments "
        "// …, /* … */, ## …, # …, #- … with arbitrary comment text, and one variant in full-width characters — the compiled bytes must be identical; "
        "sep: the same command followed by each separator in turn. non-trivial = distinct outputs of programs with >= 3 commands")
ASSUMPTIONS = ["layout is inserted only between complete commands; a line-continuation of a note length ('\\n' followed by '^') is not generated",
               "comment texts contain no line break (line comments) / no '*' (range comments)", "full-width variants are generated for commands without braces strings"]
TRUSTED = ["the generator's tokenisation of a program into complete commands",
           "Model.Lexer is tied to lexer.rs / source_cursor.rs by the `lexer` stream (identical token lists and lexer log); integers are unbounded in the model"]

SEPS = [" ", "  ", "\t", "\n", "\r\n", " | ", ";", " ; ", "\n\n", " |\n"]
COMMENT_TEXT = ["", "memo", "c d e", "TR(2) v10", "ドレミ", "x = [1", "end?", "  spaced  "]

def gen_tokens(rng):
    toks = []
    for _ in range(rng.randrange(3, 12)):
        x = rng.random()
        if x < 0.45:
            c = mml.gen_cmds(rng, 1, 1, top=True)
            for cmd in c: toks.append(mml.pr([cmd]))
        elif x < 0.6: toks.append(rng.choice(["y7,100;", "y10,%d;" % rng.randint(0, 127), "V(90)", "EP(%d)" % rng.randint(0, 127), "@%d;" % rng.randint(1, 128), "Tempo(%d)" % rng.randint(60, 200), "P(64)"]))
        elif x < 0.7: toks.append(rng.choice(["INT A=3;", "INT B=A+1;", "PRINT(A);", "A=A+1;", "IF(A>2){ c }", "FOR(INT I=0;I<2;I++){ d }", "TIME(2:1:0)", "KeyShift(1)", "FUNCTION FZ(){ e }", "FZ()", "FZ();", "FUNCTION FZ(){ e }"]))
        elif x < 0.8: toks.append(rng.choice(["#M={c d}", "#M", "STR S2={e f};", "S2", "Sub{c e}", "[2 c d]", "{c d e}4", "'ceg'2"]))
        if rng.random() < 0.06:
            # a ramp command with an expression-valued argument closed by the next separator, followed by the one-character velocity commands
            toks.append(rng.choice(["Cresc=2", "Decresc=3", "Cresc=%d" % rng.randint(1, 4)]) + "\0" if rng.random() < 0.5 else rng.choice(["Cresc=2;", "Decresc=3;"]))
            toks.append(rng.choice([")", "(", ") c", "( d"]))
        if rng.random() < 0.05:
            # a hexadecimal SysEx list ends where its commas end: a note a–f or a command A–F after it is not another byte
            toks.append(rng.choice(["SysEx$=F0,7E,7F,09,01,F7", "SysEx$=f0,41,10,42,12,40,00,7f,00,41,f7", "SysEx$=F0,7E,7F,09,01,F7;"]))
            toks.append(rng.choice(["c", "d8", "e", "a b", "f#8", "CH(2) c", "b4"]))
        if rng.random() < 0.05:
            # string macros defined on lines of their own and compared as texts: equality is a matter of the characters, not of where
            # a definition stands
            if rng.random() < 0.5: toks += ["#SA={c}", "#SB={%s}" % rng.choice(["c", "c", "d"]), "IF(#SA=#SB){ c }ELSE{ e }"]
            else: toks += ["#Mode={major}", rng.choice(["c", "r"]), "IF(#Mode%s{major}){ 'ceg' }ELSE{ 'ce-g' }" % rng.choice(["=", "==", "!="])]
        if rng.random() < 0.06:
            # a controller written in the short form `y<no>,<value>` (no parentheses of its own), followed by the velocity step `)`
            # (the value is an expression: `|`, a line break or `;` would end or continue it, so only blanks or a range comment follow — mark \1)
            toks.append("y%d,%d\1" % (rng.choice([7, 10, 11, 91]), rng.randint(0, 127)))
            toks.append(rng.choice([")", ") c", ")d", ") ) e"]))
        if rng.random() < 0.06:
            # a command that may be written without any argument, followed by a one-character command that looks like the start of one
            toks.append(rng.choice(["Cresc", "Decresc", "CRESC", "TrackSync", "ResetGM;", "PlayFromHere"]))
            toks.append(rng.choice(["(", "( c", "(d", "=" if False else "( e f"]))
        elif x < 0.9: toks.append(rng.choice(["c", "d8", "r4", "l8", "o5", "v100", "q90", ">", "<", "n60,4", "g2^8", "c#", "f#8", "d#", "a#4"]))     # a written sharp before the next separator
        else:
            # an expression-valued argument closed by nothing but the line break (marked with a trailing NUL), often followed by a command
            # that starts with a character that is an operator inside expressions
            toks.append(rng.choice(["@%d" % rng.randint(1, 128), "y7,%d" % rng.randint(0, 127), "TR=%d" % rng.randint(1, 4), "Tempo=%d" % rng.randint(60, 200), "INT A=%d" % rng.randint(0, 9), "A=A+1", "v=%d" % rng.randint(1, 127), "o=%d" % rng.randint(3, 6), "KeyShift=2", "PRINT(A)",
                                    "TR=A", "y7,A", "INT B=A", "v=A", "@A", "A=B"]) + "\0")      # (… also ending in a bare name: the line break ends it, a `(` on the next line is the next command)
            if rng.random() < 0.7: toks.append(rng.choice([">", "<", ">c", "<d8", "(c)", "(c d) e", "( c", "-c", "+c", "*c" if False else "c", "'ce'", "[2 c]", "{c d}4"]))
        if rng.random() < 0.08:
            # ... also inside a loop, right before the loop-break ':' (which is an argument separator inside expressions)
            toks += ["[%d" % rng.randint(2, 3), rng.choice(["c", "d8 e"]), rng.choice(["Tempo=%d" % rng.randint(60, 200), "@%d" % rng.randint(1, 128), "TR=1", "v=%d" % rng.randint(1, 127), "y7,%d" % rng.randint(0, 127)]) + "\0", ":", rng.choice(["g", "a b"]), "]"]
    if rng.random() < 0.08:
        # a key-flag list written without parentheses ends with its line: note names at the start of the next line are notes
        toks += [rng.choice(["KeyFlag+fc", "KeyFlag-be", "KeyFlag+f", "KeyFlag-bea"]) + "\2", rng.choice(["cdefg", "a b l8 cdefgab", "f c", "e"]), "c"]
    if rng.random() < 0.08:
        # a macro / string variable that is defined, referred to without arguments at the end of a line, and a tuplet or a velocity step on the next line
        d_, r_ = rng.choice([("#M={c8d8}", "#M"), ("STR S2={c8d8};", "S2")])
        toks += [d_, r_ + "\2", rng.choice(["{efg}4", "(e f) g", "{c d}2 e", "( c"]), "c"]
    toks = [t for t in toks if t]
    # a macro / variable reference takes a directly following `{…}` or `(…)` on its line as its argument: close it with `;` there
    for i in range(len(toks) - 1):
        if toks[i] in ("#M", "S2") and toks[i + 1][:1] in ("{", "(", "="):
            # (… or with a line break: a reference without arguments ends with its line — marked \2: `;` in the canonical text, a line break in the layouts)
            toks[i] += ";" if (toks[i + 1][:1] == "=" or rng.random() < 0.5) else "\2"
    if rng.random() < 0.06:
        # a written sharp, later a function definition, and a call of that function: whether the definition is found must not depend on
        # what else is written on its line
        # (not directly before a token that a note would take as the continuation of its length: `g#4 +c`)
        ok = [k for k in range(len(toks) + 1) if k == len(toks) or toks[k][:1] not in "+-^.%0123456789"]
        i = rng.choice(ok); toks.insert(i, rng.choice(["c#", "f#8", "d#", "g#4"]))
        j = rng.randrange(i + 1, len(toks) + 1); toks.insert(j, "FUNCTION FY(){ g }")
        toks.insert(rng.randrange(0, len(toks) + 1), rng.choice(["FY()", "FY();"]))
    return toks

NL_SEPS = ["\n", "\r\n", "\n\n", " \n", "\t\n ", " //%s\n", "\t// %s\n", " /*%s*/\n", "\n##%s\n", "\n# %s\n", "\n#-%s\n"]

def layout(rng, toks, rich=True):
    out = []
    for i, t in enumerate(toks):
        if t.endswith("\0") or t.endswith("\2"):
            out.append(t[:-1]); sep = rng.choice(NL_SEPS if rich else NL_SEPS[:5])
            out.append(sep % rng.choice(COMMENT_TEXT).replace("*", "") if "%s" in sep else sep)
            continue
        if t.endswith("\1"):
            out.append(t[:-1]); out.append(rng.choice([" ", "\t", "  ", " /*" + rng.choice(COMMENT_TEXT).replace("*", "") + "*/ "] if rich else [" ", "  ", "\t"]))
            continue
        out.append(t)
        if i == len(toks) - 1: break
        r = rng.random()
        if not rich or r < 0.6: out.append(rng.choice(SEPS))
        elif r < 0.7: out.append(" //" + rng.choice(COMMENT_TEXT) + "\n")
        elif r < 0.8: out.append(" /*" + rng.choice(COMMENT_TEXT).replace("*", "") + "*/ ")
        elif r < 0.87: out.append("\n##" + rng.choice(COMMENT_TEXT) + "\n")
        elif r < 0.94: out.append("\n# " + rng.choice(COMMENT_TEXT) + "\n")
        else: out.append("\n#-" + rng.choice(COMMENT_TEXT) + "\n")
    return "".join(out)

def widen(s):
    """full-width form of printable ASCII (blank -> ideographic space)"""
    out = []
    for ch in s:
        o = ord(ch)
        if ch == " ": out.append("　")
        elif 0x21 <= o <= 0x7E: out.append(chr(o + 0xFEE0))
        else: out.append(ch)
    return "".join(out)

def streams(tier, rng, P, only=None, cases=None):
    big = tier == "thorough"
    def mk():
        cs = []
        n = 8000 if big else 1000
        for i in range(n):
            toks = gen_tokens(rng)
            a = "".join(t[:-1] + "\n" if t.endswith("\0") else (t[:-1] + "; " if (t.endswith("\1") or t.endswith("\2")) else t + " ") for t in toks)
            if i % 5 == 4 and not any(("{" in t or '"' in t or "#" in t or "/" in t) for t in toks):
                b = widen(layout(rng, toks, rich=False)); kind = "wide"
            else:
                b = layout(rng, toks); kind = "layout"
            cs.append(dict(req="compile2 %s %s" % (hx(a), hx(b)), src=a, src2=b, show="%s   vs   %r" % (a[:150], b[:200]), ntok=len(toks), kind=kind, key="l%d" % i))
        # full-width forms of the sutoton definition syntax and of whole command lines
        for j, (a, b) in enumerate([("~{ぱ}={g} l4 ドレミ ぱレミ", "～{ぱ}={g} l4 ドレミ ぱレミ"), ("~{ぱ}={g} l4 ドレミ ぱレミ", "～{ぱ}={g}　ｌ４　ドレミ　ぱレミ"),
                                    ("l8 c d e [2 f g] o5 a", "ｌ８　ｃ　ｄ　ｅ　［２　ｆ　ｇ］　ｏ５　ａ"), ("v100 q80 c4. d8 r", "ｖ１００　ｑ８０　ｃ４．　ｄ８　ｒ"),
                                    ("TR(2) c ; TR(1) d", "ＴＲ（２）　ｃ　；　ＴＲ（１）　ｄ"), ("~{x1}={[2 e]} x1 c", "～{x1}={[2 e]} x1 c")]):
            cs.append(dict(req="compile2 %s %s" % (hx(a), hx(b)), src=a, src2=b, show="%r vs %r" % (a, b), ntok=3, kind="wide", key="fw%d" % j))
        for sep in SEPS + [" //x\n", " /*x*/ ", "\n##x\n", "\n# x\n", "\n#-x\n"]:
            for cmd in ["c", "l8", "v100", "y7,100;", "TR(2)", "[2 c]", "n60,4"]:
                a = cmd + " e"; b = cmd + sep + "e"
                cs.append(dict(req="compile2 %s %s" % (hx(a), hx(b)), src=a, src2=b, show="%r vs %r" % (a, b), ntok=3, kind="sep", key="s" + cmd + sep))
            # the same with notes in Japanese notation, sharpened with a half-width '#': the sharp is part of the note for the preprocessor too
            for cmd in ["ド#", "ファ#8", "ド", "ソ#4.", "c#"]:
                for nxt in ["レミ", "ミ e", "e ファ"]:
                    a = cmd + " " + nxt; b = cmd + sep + nxt
                    cs.append(dict(req="compile2 %s %s" % (hx(a), hx(b)), src=a, src2=b, show="%r vs %r" % (a, b), ntok=3, kind="sep", key="k" + cmd + sep + nxt))
        # an expression-valued argument closed by the line break, with a comment in front of that line break, followed on the next line by a
        # character that is an operator inside expressions — at top level and inside Rhythm{…} / Sub{…} blocks
        for wrap in ["%s", "Rhythm{ %s }", "Sub{ %s } c", "[2 %s ]"]:
            for cmd in ["@1", "y7,100", "@3,0", "y10,20"]:
                for follow in ["| b4 s4", "> s8 s8 b4", "< b4", "| c d"] if "Rhythm" in wrap else ["| c4 d4", "> c8 d8 e4", "< c", "(c) d"]:
                    for sepc in [" // kit\n", " //\n", " /* x */\n", "\t// a | b\n"]:
                        a = wrap % (cmd + "\n" + follow); b = wrap % (cmd + sepc + follow)
                        cs.append(dict(req="compile2 %s %s" % (hx(a), hx(b)), src=a, src2=b, show="%r vs %r" % (a, b), ntok=3, kind="sep", key="cm" + wrap + cmd + follow + sepc))
        for j in range(300 if big else 60):
            # kana lines with written sharps in several layouts against the MML transliteration
            notes = [rng.choice([("ド", "c"), ("レ", "d"), ("ミ", "e"), ("ファ", "f"), ("ソ", "g"), ("ラ", "a"), ("シ", "b")]) for _ in range(rng.randrange(2, 7))]
            shp = [rng.random() < 0.4 for _ in notes]
            a = " ".join(n[1] + ("#" if s_ else "") for n, s_ in zip(notes, shp))
            b = "".join(n[0] + ("#" if s_ else "") + rng.choice([" ", " ", "", "  ", "\t", " | ", ";"]) for n, s_ in zip(notes, shp))
            cs.append(dict(req="compile2 %s %s" % (hx(a), hx(b)), src=a, src2=b, show="%r vs %r" % (a, b), ntok=len(notes), kind="sep", key="kana%d" % j))
        return cs
    def judge(c, impl, m):
        st, f = impl
        if st != "ok": return ("violation", "program did not compile normally: " + st)
        if f["bin1"] != f["bin2"]: return ("violation", "layout changed the music: %r vs %r" % (c["src"][:120], c["src2"][:160]))
        return None
    s1 = Stream("relayout", cases if (cases and only == "relayout") else mk(), lambda c, st, f: [], judge,
                lambda c, i, m: i[1].get("bin1") if i[0] == "ok" and c["ntok"] >= 3 else None, "program vs re-laid-out program", timeout_case=20.0)
    s2 = lexstream.lex_stream(tier, rng, P, only, cases)
    return [s for s in (s1, s2) if only in (None, s.name)]
