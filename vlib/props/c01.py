"""C01 — SMF container: streams."""
from ..core import Stream, hx
from .. import gen
from .. import mml

RULE = ("generate: random songs (0-40 tracks, all event kinds, wild values) through the real midi::generate, judged by the "
        "strict container parser Spec.parseSmf (Lean) on the real bytes and compared with the model's bytes; "
        "compile: sources (multi-track, TIMEBASE, malformed) through the real pipeline, same predicate. "
        "non-trivial = distinct (track count, division, chunk lengths) signatures with >= 1 non-empty track")
ASSUMPTIONS = ["time base 48..32767, track numbers 0..999, chunk bodies < 4 GiB are the quantifier's domain"]
TRUSTED = ["Spec.Smf.parseSmf (strict container grammar) is my reading of SMF 1.0"]

def _sig(bin_hex):
    return (len(bin_hex), bin_hex[16:28])

def streams(tier, rng, P, only=None, cases=None):
    big = tier == "thorough"
    out = []
    # ---- stream 1: generate on random songs
    def mk_gen():
        cs = []
        n = 1500 if big else 250
        for i in range(n):
            nt = rng.choice([0, 1, 1, 2, 3, 5, 16, 40]) if i % 7 else rng.randint(0, 40)
            tb = rng.choice([48, 96, 120, 480, 960, 32767, rng.randint(48, 32767)])
            pf = -1 if rng.random() < 0.8 else rng.randint(0, 600)
            tracks = ";".join(gen.rand_track(rng) for _ in range(nt)) if nt else None
            if tracks is None:
                # a song always has >= 1 track in the real code; zero-track songs only via this op
                tracks = "~"; nt = 1
            cs.append(dict(req="generate %d %d %s" % (tb, pf, tracks), tb=tb, nt=nt, key="gen%d" % i))
        return cs
    def gen_model(c, status, f):
        if status != "ok": return []
        return [c["req"], "spec.c01 %s %d %d" % (f["bin"], c["nt"], c["tb"])]
    def gen_judge(c, impl, m):
        st, f = impl
        if st != "ok": return ("violation", "generate did not return: " + st)
        if not m[1].startswith("ok holds=1"): return ("violation", "container predicate fails on the real bytes: " + m[1])
        if m[0] != "ok bin=" + f["bin"]: return ("mismatch", "model bytes differ from implementation bytes")
        return None
    def gen_nt(c, impl, m):
        return _sig(impl[1].get("bin", "")) if impl[0] == "ok" and len(impl[1].get("bin", "")) > 60 else None
    s1 = Stream("generate", cases if (cases and only == "generate") else mk_gen(), gen_model, gen_judge, gen_nt, "random songs through midi::generate")
    # ---- stream 2: compile of sources
    def mk_src():
        cs = []
        n = 1200 if big else 200
        for i in range(n):
            src, ntr, tb = mml.multitrack_source(rng, malformed=(i % 5 == 0))
            cs.append(dict(req="run " + hx(src), src=src, show=src, key="src%d" % i, expect_tb=tb))
        for j, src in enumerate(mml.sample_sources()):
            cs.append(dict(req="run " + hx(src), src=src, show=src[:200], key="sample%d" % j, expect_tb=None))
        return cs
    def src_model(c, status, f):
        if status != "ok": return []
        nt = len(f["tracks"].split(";"))
        return ["spec.c01 %s %d %s" % (f["bin"], nt, f["tb"])]
    def src_judge(c, impl, m):
        st, f = impl
        if st != "ok": return ("violation", "compile did not return normally: " + st) if st in ("panic", "hang", "abort") and not c.get("may_fail") else None
        if not m[0].startswith("ok holds=1"): return ("violation", "container predicate fails on the real bytes: " + m[0])
        if c.get("expect_tb") is not None and int(f["tb"]) != c["expect_tb"]:
            return ("violation", "division %s but the time base in effect is %d" % (f["tb"], c["expect_tb"]))
        return None
    def src_nt(c, impl, m):
        return _sig(impl[1].get("bin", "")) if impl[0] == "ok" and len(impl[1].get("bin", "")) > 60 else None
    s2 = Stream("compile", cases if (cases and only == "compile") else mk_src(), src_model, src_judge, src_nt, "sources through the real pipeline")
    for s in (s1, s2):
        if only in (None, s.name): out.append(s)
    return out
