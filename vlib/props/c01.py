"""C01 — SMF container: streams."""
import os, subprocess, tempfile, shutil
from ..core import Stream, hx, WORK
from .. import gen
from .. import mml

RULE = ("generate: random songs (0-40 tracks, all event kinds, wild values) through the real midi::generate, judged by the "
        "strict container parser Spec.parseSmf (Lean) on the real bytes and compared with the model's bytes; "
        "compile: sources (multi-track, TIMEBASE, malformed) through the real pipeline, same predicate; cli: the file the command-line tool writes over an "
        "existing (longer) output file is a well-formed container equal to the returned bytes. "
        "non-trivial = distinct (track count, division, chunk lengths) signatures with >= 1 non-empty track")
ASSUMPTIONS = ["time base 48..32767, track numbers 0..999, chunk bodies < 4 GiB are the quantifier's domain"]
TRUSTED = ["Spec.Smf.parseSmf (strict container grammar) is my reading of SMF 1.0"]

NEED_CLI = True

def _sig(bin_hex):
    return (len(bin_hex), bin_hex[16:28])

def streams(tier, rng, P, only=None, cases=None):
    big = tier == "thorough"
    out = []
    # ---- stream 1: generate on random songs
    def mk_gen():
        cs = []
        n = 1500 if big else 250
        for i in range(n):
            nt = rng.choice([0, 1, 1, 2, 3, 5, 16, 40]) if i % 7 else rng.randint(0, 40)
            tb = rng.choice([48, 96, 120, 480, 960, 32767, rng.randint(48, 32767)])
            pf = -1 if rng.random() < 0.8 else rng.randint(0, 600)
            tracks = ";".join(gen.rand_track(rng) for _ in range(nt)) if nt else None
            if tracks is None:
                # a song always has >= 1 track in the real code; zero-track songs only via this op
                tracks = "~"; nt = 1
            cs.append(dict(req="generate %d %d %s" % (tb, pf, tracks), tb=tb, nt=nt, key="gen%d" % i))
        return cs
    def gen_model(c, status, f):
        if status != "ok": return []
        return [c["req"], "spec.c01 %s %d %d" % (f["bin"], c["nt"], c["tb"])]
    def gen_judge(c, impl, m):
        st, f = impl
        if st != "ok": return ("violation", "generate did not return: " + st)
        if not m[1].startswith("ok holds=1"): return ("violation", "container predicate fails on the real bytes: " + m[1])
        if m[0] != "ok bin=" + f["bin"]: return ("mismatch", "model bytes differ from implementation bytes")
        return None
    def gen_nt(c, impl, m):
        return _sig(impl[1].get("bin", "")) if impl[0] == "ok" and len(impl[1].get("bin", "")) > 60 else None
    s1 = Stream("generate", cases if (cases and only == "generate") else mk_gen(), gen_model, gen_judge, gen_nt, "random songs through midi::generate")
    # ---- stream 2: compile of sources
    def mk_src():
        cs = []
        n = 1200 if big else 200
        for i in range(n):
            src, ntr, tb = mml.multitrack_source(rng, malformed=(i % 5 == 0))
            cs.append(dict(req="run " + hx(src), src=src, show=src, key="src%d" % i, expect_tb=tb))
        for j, src in enumerate(mml.sample_sources()):
            cs.append(dict(req="run " + hx(src), src=src, show=src[:200], key="sample%d" % j, expect_tb=None))
        # meta texts longer than the 127-byte cap made of multi-byte characters, at every alignment of the cut (compilation returns bytes)
        for j in range(0, 4):
            for src in ["TIMEBASE(480) TrackName={%s%s} TR(2) cde" % ("x" * j, "桜" * 60), "Copyright={\"%s%s\"} c" % ("y" * (120 + j), "あいう"), "%sText{%s%s} c" % ("TR(3) " if j % 2 else "", "z" * j, "é𝄞漢" * 20)]:
                cs.append(dict(req="run " + hx(src), src=src, show=src[:120], key="longmeta%d-%d" % (j, len(src)), expect_tb=None))
        # chunk bodies longer than 16 bits can say (every byte of the 32-bit length field matters)
        for j, src in enumerate(["l16 [9 [1000 c]]", "l16 [40 [1000 c]] TR=2 c"] + (["l16 [300 [1000 c]]", "l16 [9 [1000 c]] TR(3) l16 [33 [1000 d]]"] if big else [])):
            cs.append(dict(req="run " + hx(src), src=src, show=src, key="bigchunk%d" % j, expect_tb=96))
        # track numbers at and beyond what the header's 16-bit count can say (the count must still equal the number of chunks)
        for j, src in enumerate(["TR=65535 c", "TR(65534) c TR=70000 d", "TR=65536 c TR(3) d"] + (["Track(100000) c", "TR=65534 c", "TR(131071) c"] if big else [])):
            cs.append(dict(req="run " + hx(src), src=src, show=src, key="bigtr%d" % j, expect_tb=96))
        return cs
    def src_model(c, status, f):
        if status != "ok": return []
        nt = len(f["tracks"].split(";"))
        return ["spec.c01 %s %d %s" % (f["bin"], nt, f["tb"])]
    def src_judge(c, impl, m):
        st, f = impl
        if st != "ok": return ("violation", "compile did not return normally: " + st) if st in ("panic", "hang", "abort") and not c.get("may_fail") else None
        if not m[0].startswith("ok holds=1"): return ("violation", "container predicate fails on the real bytes: " + m[0])
        if c["key"].startswith("longmeta"):
            # the End-of-Track at the end of each chunk is an event: read as a sequence of events (these sources write no verbatim bytes), every
            # chunk must end exactly with it
            from ..smfpy import smf_events
            for k, evs in enumerate(smf_events(f["bin"]) or [[]]):
                if not evs or evs[-1][1] != "meta" or evs[-1][2] != 0x2F or any(e[1] == "bad" for e in evs) or any(e[1] == "meta" and e[2] == 0x2F for e in evs[:-1]):
                    return ("violation", "chunk %d does not read as events ending in End-of-Track (a text length of 128 or more written as one byte?)" % k)
        if c.get("expect_tb") is not None and int(f["tb"]) != c["expect_tb"]:
            return ("violation", "division %s but the time base in effect is %d" % (f["tb"], c["expect_tb"]))
        return None
    def src_nt(c, impl, m):
        return _sig(impl[1].get("bin", "")) if impl[0] == "ok" and len(impl[1].get("bin", "")) > 60 else None
    s2 = Stream("compile", cases if (cases and only == "compile") else mk_src(), src_model, src_judge, src_nt, "sources through the real pipeline")
    # ---- stream 3: the file the command-line tool writes (also over an existing, longer file) is the same container
    def mk_cli():
        cs = []
        n = 60 if big else 12
        for i in range(n):
            first, _, _ = mml.multitrack_source(rng, malformed=False)
            second = rng.choice(["l4 ce", "c", "TR(1) c TR(2) d", mml.multitrack_source(rng, malformed=False)[0]])
            cs.append(dict(req="run " + hx(second), src=second, first=first, show="%s   (written over the output of: %s)" % (second[:120], first[:120]), key="cli%d" % i))
        return cs
    def cli_model(c, status, f):
        if status != "ok": return []
        tmp = tempfile.mkdtemp(prefix="sv-cli1-", dir=WORK)
        try:
            out = os.path.join(tmp, "song.mid"); got = None
            for k, text in enumerate((c["first"], c["src"])):
                srcf = os.path.join(tmp, "s%d.mml" % k); open(srcf, "w", encoding="utf-8").write(text)
                r = subprocess.run([P.cli, srcf, out], stdout=subprocess.PIPE, stderr=subprocess.PIPE, timeout=60)
                if r.returncode != 0: c["_cli"] = "rc=%d" % r.returncode; return []
            got = open(out, "rb").read().hex() or "~"
            c["_cli"] = got
        finally:
            shutil.rmtree(tmp, ignore_errors=True)
        nt = len(f["tracks"].split(";"))
        return ["spec.c01 %s %d %s" % (got, nt, f["tb"])]
    def cli_judge(c, impl, m):
        st, f = impl
        if st != "ok": return None
        if not m: return ("violation", "the command-line tool failed: " + str(c.get("_cli")))
        if not m[0].startswith("ok holds=1"): return ("violation", "the file written by the command-line tool is not a well-formed container: " + m[0])
        if c["_cli"] != f["bin"]: return ("violation", "the file written by the command-line tool differs from the bytes compilation returns")
        return None
    s3 = Stream("cli", cases if (cases and only == "cli") else mk_cli(), cli_model, cli_judge, lambda c, i, m: c.get("_cli", "")[:200] if i[0] == "ok" else None,
                "the command-line tool writing over an existing output file", timeout_case=30.0)
    # ---- one compiler object used for several sources: each file is the file of its own source (division, track count, chunks)
    def mk_obj():
        cs = []
        firsts = ["TimeBase=480", "TimeBase(960)", "TIMEBASE=48", "TimeBase(192) // header only", "TR=5", "TR=3 l8", "INT A=3", "STR S={c}", "#M={d e}", "l8 o3 v50 q10", "TimeBase=480 TR=2",
                  "TimeBase(960) c", "TR=7 c d", "Function F(){ c } ", "KeyFlag+(fc)", "TimeSignature(3,4)"]
        seconds = ["l4 cde", "c", "TR=1 c", "o5 [2 c d] e", "TimeBase(120) c", "r", ""]
        for i in range(200 if big else 40):
            a = rng.choice(firsts); b = rng.choice(seconds)
            cs.append(dict(req="objseq en 0 %s %s %s" % (hx(a), hx(b), hx(b)), src=b, first=a, show="[one object] %s   then   %s" % (a, b), key="obj%d" % i))
        return cs
    def obj_model(c, status, f):
        if status != "ok": return []
        return ["compile-ref " + c["src"]]
    def obj_judge(c, impl, m):
        st, f = impl
        if st != "ok": return ("violation", "the object API did not return: " + st)
        b = f.get("bins", "").split(",")
        if len(b) != 3: return ("mismatch", "unexpected objseq reply")
        if b[1] != b[2]: return ("violation", "one object, the same source twice: different files")
        ref = c.get("_ref")
        if ref is not None and b[1] != ref: return ("violation", "the file of a source compiled on a used object differs from the file of that source (header %s vs %s)" % (b[1][16:28], ref[16:28]))
        return None
    ocases = cases if (cases and only == "object") else mk_obj()
    if ocases and "_ref" not in ocases[0]:
        from ..core import run_oracle, parse_resp
        refs = run_oracle(P, ["compile %s 0 en lib" % hx(c["src"]) for c in ocases], 20.0, tag="c01o")
        for c, r_ in zip(ocases, refs):
            st_, f_ = parse_resp(r_)
            c["_ref"] = f_.get("bin") if st_ == "ok" else None
    s4 = Stream("object", ocases, lambda c, st, f: [], obj_judge, lambda c, i, m: i[1].get("bins") if i[0] == "ok" else None,
                "one SakuraCompiler object, several sources: each file is its own source's file", timeout_case=30.0)
    for s in (s1, s2, s3, s4):
        if only in (None, s.name): out.append(s)
    return out
