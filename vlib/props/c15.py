"""C15 — every command emits the prescribed MIDI message: exhaustive sweeps through the real code."""
from ..core import Stream, hx, run_oracle, parse_resp
from tools import gen_tables

RULE = ("sweep: every command/alias row of the regenerated system-function table in the classes controller / RPN / NRPN / text / tempo / "
        "time signature / voice / pitch bend / reset / master / GS effect, plus y, @, p and every voice.md name, compiled as a one-command "
        "program by the real code for every value of its domain (7-bit exhaustive; 14-bit, tempo 1..400, voices 1..128 exhaustive in the "
        "thorough tier, strided in quick); the decoded real bytes must be exactly the messages of Spec.Messages (hand-written from the MIDI "
        "standard). context: the same one-command programs after music that leaves per-track state behind (slurs, earlier settings of the same parameter, "
        "other channel/track) must add exactly the events they add after a silent prefix reaching the same track, channel and time. non-trivial = distinct (command, decoded message) pairs")
ASSUMPTIONS = ["text payloads are written in braces (`TrackName{abc}`) or between double quotes after `=` (`Text=\"abc\"`, no quote inside); characters the sutoton preprocessor rewrites are not used in payloads",
               "values outside the documented domain are only required to be clamped into 7 bits"]
TRUSTED = ["Spec.Messages tables (controller numbers, RPN/NRPN addresses, meta types, reset strings) are my transcription of the MIDI/GM/GS/XG documents"]

TEXT_CHARS = "abcXYZ 019-_.é€ΩЖ😀"

def streams(tier, rng, P, only=None, cases=None):
    big = tier == "thorough"
    T = gen_tables.extract(P.srcdir)
    rows = T["sysFuncs"]
    cs = []
    def add(name, src, args=(), txt="", key=None):
        cs.append(dict(req="run " + hx(src), src=src, show=src, name=name, args=list(args), txt=txt, key=key or src))
    def vals7():
        return list(range(128)) if big else sorted(set(list(range(0, 128, 9)) + [0, 1, 2, 12, 24, 63, 64, 126, 127]))
    for r in rows:
        n, tt = r["name"], r["tt"]
        if tt == "ControlChangeCommand":
            for v in vals7(): add(n, "%s(%d)" % (n, v), [v])
            add(n, "%s=%d" % (n, 77), [77]); add(n, "%s(200)" % n, [200])
        elif tt in ("RPNCommand", "NRPNCommand"):
            for v in vals7():
                add(n, "%s(%d)" % (n, v), [v])
                if v in (0, 2, 12, 24, 64): cs[-1]["ctx"] = True      # values a device (or a slur) may already have set: always part of the context stream
        elif tt == "MetaText":
            lens = range(0, 201) if big else list(range(0, 12)) + [60, 126, 127, 128, 129, 200]
            for L in lens:
                txt = "".join(rng.choice(TEXT_CHARS) for _ in range(L))
                add(n, "%s{%s}" % (n, txt), [], txt)
            # the text written between double quotes after `=`: it is taken up to the next quote, byte for byte (a backslash is a backslash)
            for L in (0, 1, 3, 7, 20):
                txt = "".join(rng.choice(TEXT_CHARS + "\\\\/:") for _ in range(L))
                add(n, '%s="%s"' % (n, txt), [], txt)
            for txt in ("a\\b", "C:\\", "\\", "x\\n", "\\\\"): add(n, '%s="%s"' % (n, txt), [], txt)
        elif tt == "Tempo":
            for v in (range(1, 401) if (big or n in ("Tempo", "T")) else list(range(1, 401, 13)) + [9, 10, 11, 120, 151, 299, 300, 301]): add(n, "%s(%d)" % (n, v), [v])
        elif tt == "TimeSignature":
            for a in ([2, 3, 4, 5, 6, 7, 9, 12, 64] if not big else range(2, 65)):
                for d in (2, 4, 8, 16): add(n, "%s(%d,%d)" % (n, a, d), [a, d])
        elif tt == "Voice":
            for v in (range(1, 129) if big else list(range(1, 129, 7)) + [128]): add(n, "%s(%d)" % (n, v), [v])
            for bank in ([10, 3, 4], [10, 3], [5, 0, 0], [5, 0], [1, 0, 7], [128, 8, 0], [64, 127, 127], [7, 1]): add(n, "%s(%s)" % (n, ",".join(map(str, bank))), bank)
            # an argument left out keeps its place and counts as 0: the values after it stay with their own controllers
            for txt, bank in (("5,,2", [5, 0, 2]), ("9,,127", [9, 0, 127]), ("64,,1", [64, 0, 1])): add(n, "%s(%s)" % (n, txt), bank)
        elif tt == "PitchBend":
            for v in (range(-8192, 8192, 1 if big else 257)): add(n, "%s(%d)" % (n, v), [v])
            for v in (-8192, -1, 0, 1, 8191): add(n, "%s(%d)" % (n, v), [v])
        elif tt == "SysexReset":
            add(n, n); add(n, n + " ")
        elif tt == "SysExCommand":
            rng_v = vals7() if n == "MasterVolume" else [-8192, -100, 0, 1, 8191] + list(range(-8192, 8192, 997))
            for v in rng_v: add(n, "%s(%d)" % (n, v), [v])
        elif tt == "GSEffect" and n not in ("GS_RHYTHM", "GSScaleTuning"):
            if n == "GSEffect":
                for v in (0, 5, 127): add(n, "GSEffect($30,%d)" % v, [0x30, v])
                add(n, "GSEffect(,4)", [0, 4])
            else:
                for v in vals7()[::3]: add(n, "%s(%d)" % (n, v), [v])
        elif tt == "ControlChange" and not n.startswith("PlayFrom"):
            for c in ([0, 1, 7, 10, 11, 64, 91, 127] if not big else range(128)):
                for v in (0, 64, 127): add(n, "%s(%d,%d)" % (n, c, v), [c, v])
        elif tt in ("RPN", "NRPN"):
            for (a, b, c) in [(0, 0, 12), (0, 1, 64), (1, 8, 64), (1, 32, 100), (127, 127, 127)]: add(n, "%s(%d,%d,%d)" % (n, a, b, c), [a, b, c])
            for txt, a3 in (("0,,64", [0, 0, 64]), (",8,64", [0, 8, 64]), ("1,,5", [1, 0, 5])): add(n, "%s(%s)" % (n, txt), a3)
    # lower-case commands
    for c in ([0, 1, 7, 10, 11, 64, 91, 127] if not big else range(128)):
        for v in vals7()[::4]: add("y", "y%d,%d" % (c, v), [c, v])
        # (the controller number and the value in the other spellings of a number)
        add("y", "y$%X,%d" % (c, 100), [c, 100]); add("y", "y0x%x,$%X" % (c, 64), [c, 64]); add("y", "y%d,$7F" % c, [c, 127])
    for v in vals7(): add("p", "p%d" % v, [v]); 
    for v in (range(1, 129) if big else list(range(1, 129, 5)) + [128]): add("@", "@%d" % v, [v])
    for txt, bank in (("5,,2", [5, 0, 2]), ("100,,127", [100, 0, 127])): add("@", "@" + txt, bank)
    add("@", "@0", [0]); add("@", "@129", [129])
    for bank in ([10, 3, 4], [10, 3], [5, 0, 0], [5, 0], [1, 0, 7], [128, 8, 0], [64, 127, 127], [7, 1]): add("@", "@" + ",".join(map(str, bank)), bank)   # explicit banks, including bank 0/0
    for no, nm in T["voiceMd"]:
        if int(no) <= 128 or True:
            add("@name", "@" + nm, [], nm)
    def model(c, st, f):
        if st != "ok": return []
        return ["spec.c15 %s 0 16 %s %s %s" % (hx(c["name"]), ",".join(str(a) for a in c["args"]) or "~", hx(c["txt"]), f["bin"])]
    def judge(c, impl, m):
        st, f = impl
        if st != "ok": return ("violation", "command did not compile normally: %s %s" % (st, f))
        if not m[0].startswith("ok holds=1"): return ("violation", "emitted bytes are not the prescribed message: " + m[0])
        return None
    def nt(c, impl, m):
        return (c["name"], impl[1].get("bin")) if impl[0] == "ok" and m and "note=" not in m[0] else None
    s1 = Stream("sweep", cases if (cases and only == "sweep") else cs, model, judge, nt, "one-command programs over each command's domain")
    # ---- context: the same commands after music that leaves per-track state behind (a slur, earlier settings of the same parameter, another
    #      channel, another track).  The events the command adds must be the ones it adds after a silent prefix reaching the same track,
    #      channel and time (which the sweep judges against Spec.Messages).
    def mk_ctx():
        prefixes = ["l4 c&e c", "Slur(1,0) c&d e", "Slur(0,48) l8 c&g&c d", "CH(3) c", "TR(2) CH(5) r4", "c d e", "y1,5 r8", "@5 c", "Tempo(90) r", "BR(2) c", "BR(12) c",
                    "PitchBend(100) c", "M(10) c", "TR(3) l4 c&e c CH(2)", "%CMD% r", "%CMD% %CMD%", "l4 c&e c %CMD% r"]
        sample = list(cs) if big else rng.sample(cs, min(len(cs), 400))
        if big and len(sample) > 6000: sample = rng.sample(sample, 6000)
        plan = []
        for c in sample:
            pre = rng.choice(prefixes).replace("%CMD%", c["src"].strip())
            plan.append((c, pre))
        for c in cs:
            if c.get("ctx"):
                for pre in ("l4 c&e c", "Slur(1,0) c&d e", "TR(3) l4 c&e c CH(2)", "%CMD% r", "BR(2) c"):
                    plan.append((c, pre.replace("%CMD%", c["src"].strip())))
        uniq = sorted(set(pre for _, pre in plan))
        info = {}
        for pre, line in zip(uniq, run_oracle(P, ["run " + hx(pre) for pre in uniq], tag="c15pre")):
            st, f = parse_resp(line)
            if st != "ok": continue
            cur = int(f["cur"]); trs = f["tracks"].split(";"); sts = f["state"].split(";")
            if cur >= len(trs): continue
            n = 0 if trs[cur] in ("~", "") else len(trs[cur].split(","))
            kv = dict(x.split(":") for x in sts[cur].split(","))
            info[pre] = (cur, n, int(kv["tp"]), int(kv["ch"]))
        out = []
        for i, (c, pre) in enumerate(plan):
            if pre not in info: continue
            cur, n, tp, ch = info[pre]
            a = pre + " " + c["src"]
            b = "TR(%d) CH(%d)%s %s" % (cur, ch + 1, (" r%%%d" % tp) if tp > 0 else "", c["src"])
            out.append(dict(req="run2 %s %s" % (hx(a), hx(b)), src=a, ref=b, show="%s   vs   %s" % (a, b), cur=cur, n=n, name=c["name"], key="x%d" % i))
        return out
    def ctx_judge(c, impl, m):
        st, f = impl
        if st != "ok": return ("violation", "command did not compile normally after a prefix: %s" % st)
        t1 = f["tracks1"].split(";"); t2 = f["tracks2"].split(";")
        e1 = [] if c["cur"] >= len(t1) or t1[c["cur"]] in ("~", "") else t1[c["cur"]].split(",")
        e2 = [] if c["cur"] >= len(t2) or t2[c["cur"]] in ("~", "") else t2[c["cur"]].split(",")
        if e1[c["n"]:] != e2:
            return ("violation", "after the prefix the command adds %s, on a fresh track at the same position it adds %s" % (e1[c["n"]:][:6], e2[:6]))
        return None
    s2 = Stream("context", cases if (cases and only == "context") else mk_ctx(), lambda c, st, f: [], ctx_judge,
                lambda c, i, m: (c["name"], c["src"][:12]) if i[0] == "ok" else None, "commands after state-leaving music vs after a silent prefix")
    # ---- SysEx$ with Roland checksum groups `{…}`: after every group the byte that makes the group's sum 0 modulo 128
    def mk_sx():
        out = []
        for i in range(600 if big else 80):
            ng = rng.choice([1, 1, 2, 2, 3])
            groups = [[rng.randrange(0, 128) for _ in range(rng.randrange(1, 6))] for _ in range(ng)]
            head = [0xF0, 0x41, 0x10, 0x42, 0x12]; between = [[rng.randrange(0, 128) for _ in range(rng.choice([0, 0, 1]))] for _ in range(ng)]
            text = ",".join("%02x" % b for b in head); exp = list(head)
            for g, bt in zip(groups, between):
                # (blanks or a comment may stand before the brace that closes the group)
                text += ",{" + ",".join("%02x" % b for b in g) + rng.choice(["", "", " ", "  ", "\t", " /* sum */", "/*x*/ "]) + "}"; exp += g + [(128 - sum(g) % 128) % 128]
                if bt: text += "," + ",".join("%02x" % b for b in bt); exp += bt
            text += ",f7"; exp += [0xF7]
            src = "SysEx$=" + text + "; c"
            out.append(dict(req="run " + hx(src), src=src, show=src, exp="".join("%02x" % b for b in exp), ng=ng, key="sx%d" % i))
        return out
    def sx_judge(c, impl, m):
        st, f = impl
        if st != "ok": return ("violation", "SysEx command did not compile normally: " + st)
        evs = [e for e in f["tracks"].split(";")[0].split(",") if e.startswith("sysex:")]
        if len(evs) != 1: return ("violation", "expected one SysEx event, got %d" % len(evs))
        got = evs[0].split(":")[6]
        if got != c["exp"]: return ("violation", "SysEx bytes %s, prescribed (every group followed by its own checksum) %s" % (got, c["exp"]))
        return None
    s3 = Stream("sysexsum", cases if (cases and only == "sysexsum") else mk_sx(), lambda c, st, f: [], sx_judge,
                lambda c, i, m: (c["ng"], c["exp"][:40]) if i[0] == "ok" else None, "SysEx$ with one to three checksum groups")
    # ---- sysexev: Event::sysex on arbitrary value lists with group markers (-1 opens, -2 closes; also unbalanced and nested) against
    #      the literal model Model.Messages.sysexData (the theorems C15_sysex_group_checksum / sysexGo_group are about it)
    def mk_se():
        out = []
        for i in range(3000 if big else 400):
            vals = []
            for _ in range(rng.randrange(0, 14)):
                r = rng.random()
                vals.append(-1 if r < 0.15 else -2 if r < 0.3 else rng.choice([rng.randrange(0, 128), rng.randrange(0, 256), 300, -3, 127, 0]))
            flag = 1 if rng.random() < 0.8 else 0
            v = ",".join(map(str, vals)) or "~"
            out.append(dict(req="sysex %d %s" % (flag, v), flag=flag, vals=v, show="Event::sysex(%s, checksum=%d)" % (v, flag), key="se%d" % i))
        return out
    def se_judge(c, impl, m):
        st, f = impl
        if st != "ok": return ("violation", "Event::sysex did not return normally: " + st)
        if m[0] != "ok data=" + f["data"]: return ("mismatch", "Model.Messages.sysexData = %s, implementation = %s" % (m[0], f["data"]))
        return None
    s4 = Stream("sysexev", cases if (cases and only == "sysexev") else mk_se(), lambda c, st, f: ["sysexdata %d %s" % (c["flag"], c["vals"])], se_judge,
                lambda c, i, m: i[1].get("data") if i[0] == "ok" else None, "Event::sysex vs the literal model")
    # ---- a program number with its bank, re-issued at a play-from point: the bank select still precedes the program change
    from ..smfpy import smf_events
    def mk_pb():
        out = []
        for i in range(200 if big else 40):
            prog = rng.randint(1, 128); msb = rng.randint(0, 127); lsb = rng.randint(0, 127)
            v = rng.choice(["@%d,%d,%d", "Voice(%d,%d,%d)", "VOICE(%d,%d,%d)"]) % (prog, msb, lsb)
            mid = rng.choice(["", "y7,100 ", "c d ", "y11,90 y10,64 "])
            pf = rng.choice(["r1 PlayFrom(2:1:0) c", "r1 ? c d", "l1 c PlayFromHere e", "r2 r2 PlayFrom(1:4:0) g"])
            src = "%s %s%s" % (v, mid, pf)
            out.append(dict(req="run " + hx(src), src=src, show=src, prog=prog - 1, msb=msb, lsb=lsb, key="pb%d" % i))
        return out
    def pb_judge(c, impl, m):
        st, f = impl
        if st != "ok": return ("violation", "program did not compile normally: " + st)
        trk = smf_events(f.get("bin", "~"))
        if not trk: return ("violation", "no track in the file")
        evs = trk[0]
        pcs = [k for k, e in enumerate(evs) if e[1] == "pc"]
        if not pcs: return ("violation", "the program change is not re-issued at the play-from point")
        k = pcs[0]
        before = [(e[2][1], e[3]) for e in evs[:k] if e[1] == "cc"]
        if (0, c["msb"]) not in before or (32, c["lsb"]) not in before:
            return ("violation", "the re-issued program change is not preceded by its bank select (controllers before it: %s)" % before[:6])
        if evs[k][2][1] != c["prog"]: return ("violation", "re-issued program %d, written %d" % (evs[k][2][1], c["prog"]))
        return None
    s5 = Stream("pfbank", cases if (cases and only == "pfbank") else mk_pb(), lambda c, st, f: [], pb_judge, lambda c, i, m: i[1].get("bin") if i[0] == "ok" else None,
                "bank select before the program change re-issued at a play-from point")
    # ---- words of the Japanese notation that stand for a controller command, followed by a word that stands for an operator-like
    #      character (`上` = `>`, `｜`): the word is a whole command, what follows it is the next command
    def mk_jp():
        out = []
        for j, (a, b) in enumerate([("ペダル上ド", "y64,127; >c"), ("ペダル｜ドミソ 放す｜ド", "y64,127; | ceg y64,0; | c"), ("放す上レ", "y64,0; >d"), ("ペダル下ミ", "y64,127; <e"),
                                    ("ペダル ドレミ 放す", "y64,127; cde y64,0;"), ("ペダル", "y64,127;"), ("ドペダル上ドレ放す下ミ", "c y64,127; >cd y64,0; <e")]):
            out.append(dict(req="compile2 %s %s" % (hx(a), hx(b)), src=a, src2=b, show="%s   vs   %s" % (a, b), key="jp%d" % j))
        return out
    def jp_judge(c, impl, m):
        st, f = impl
        if st != "ok": return ("violation", "program did not compile normally: " + st)
        if f["bin1"] != f["bin2"]: return ("violation", "a controller word of the Japanese notation is not its command: %s vs %s" % (c["src"], c["src2"]))
        return None
    s6 = Stream("jpwords", cases if (cases and only == "jpwords") else mk_jp(), lambda c, st, f: [], jp_judge, lambda c, i, m: i[1].get("bin1") if i[0] == "ok" else None,
                "controller words of the Japanese notation followed by operator-like words")
    # ---- every spelling of a command word (`PlayFrom` / `PLAY_FROM`, `Tempo` / `TEMPO` / `T`-less forms of the table …) with the same argument
    #      in the same place gives the same file (the search side of C15_spellings_agree)
    def mk_sp():
        groups = {}
        for r in rows:
            w = r["name"].upper().replace("SYSTEM.", "").replace("_", "")
            groups.setdefault(w, []).append(r["name"])
        out = []
        for w, names in sorted(groups.items()):
            # (words whose name proper begins with a lower-case letter — `vAdd`, `qAdd`, `q2Add` — are not read through the table: a lower-case
            #  letter starts a one-letter command; they write no message and are left out)
            if any(n.replace("System.", "")[:1].islower() for n in names): continue
            for other in names[1:]:
                for tmpl in ("l4 c d %s(2) e f", "l4 c d %s(1:3:0) e f"):
                    a, b = tmpl % names[0], tmpl % other
                    out.append(dict(req="compile2 %s %s" % (hx(a), hx(b)), src=a, src2=b, show="%s   vs   %s" % (a, b), key="sp-%s-%s" % (other, tmpl[9:12])))
        return out
    def sp_judge(c, impl, m):
        st, f = impl
        if st != "ok": return None      # (a word that cannot stand there fails the same way under every spelling; C07 is about not failing)
        if f["bin1"] != f["bin2"]: return ("violation", "two spellings of one command word give different files: %s vs %s" % (c["src"], c["src2"]))
        return None
    s7 = Stream("spellings", cases if (cases and only == "spellings") else mk_sp(), lambda c, st, f: [], sp_judge, lambda c, i, m: i[1].get("bin1") if i[0] == "ok" else None,
                "the spellings of each command word, same argument, same place")
    return [s for s in (s1, s2, s3, s4, s5, s6, s7) if only in (None, s.name)]
