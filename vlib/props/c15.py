"""C15 — every command emits the prescribed MIDI message: exhaustive sweeps through the real code."""
from ..core import Stream, hx
from tools import gen_tables

RULE = ("sweep: every command/alias row of the regenerated system-function table in the classes controller / RPN / NRPN / text / tempo / "
        "time signature / voice / pitch bend / reset / master / GS effect, plus y, @, p and every voice.md name, compiled as a one-command "
        "program by the real code for every value of its domain (7-bit exhaustive; 14-bit, tempo 1..400, voices 1..128 exhaustive in the "
        "thorough tier, strided in quick); the decoded real bytes must be exactly the messages of Spec.Messages (hand-written from the MIDI "
        "standard). non-trivial = distinct (command, decoded message) pairs")
ASSUMPTIONS = ["text payloads are written without quotes (`TrackName{abc}`); characters the sutoton preprocessor rewrites are not used in payloads",
               "values outside the documented domain are only required to be clamped into 7 bits"]
TRUSTED = ["Spec.Messages tables (controller numbers, RPN/NRPN addresses, meta types, reset strings) are my transcription of the MIDI/GM/GS/XG documents"]

TEXT_CHARS = "abcXYZ 019-_.é€ΩЖ😀"

def streams(tier, rng, P, only=None, cases=None):
    big = tier == "thorough"
    T = gen_tables.extract(P.srcdir)
    rows = T["sysFuncs"]
    cs = []
    def add(name, src, args=(), txt="", key=None):
        cs.append(dict(req="run " + hx(src), src=src, show=src, name=name, args=list(args), txt=txt, key=key or src))
    def vals7():
        return list(range(128)) if big else sorted(set(list(range(0, 128, 9)) + [0, 1, 63, 64, 126, 127]))
    for r in rows:
        n, tt = r["name"], r["tt"]
        if tt == "ControlChangeCommand":
            for v in vals7(): add(n, "%s(%d)" % (n, v), [v])
            add(n, "%s=%d" % (n, 77), [77]); add(n, "%s(200)" % n, [200])
        elif tt in ("RPNCommand", "NRPNCommand"):
            for v in vals7(): add(n, "%s(%d)" % (n, v), [v])
        elif tt == "MetaText":
            lens = range(0, 201) if big else list(range(0, 12)) + [60, 126, 127, 128, 129, 200]
            for L in lens:
                txt = "".join(rng.choice(TEXT_CHARS) for _ in range(L))
                add(n, "%s{%s}" % (n, txt), [], txt)
        elif tt == "Tempo":
            for v in (range(1, 401) if (big or n in ("Tempo", "T")) else list(range(1, 401, 13)) + [9, 10, 11, 120, 151, 299, 300, 301]): add(n, "%s(%d)" % (n, v), [v])
        elif tt == "TimeSignature":
            for a in ([2, 3, 4, 5, 6, 7, 9, 12, 64] if not big else range(2, 65)):
                for d in (2, 4, 8, 16): add(n, "%s(%d,%d)" % (n, a, d), [a, d])
        elif tt == "Voice":
            for v in (range(1, 129) if big else list(range(1, 129, 7)) + [128]): add(n, "%s(%d)" % (n, v), [v])
            for bank in ([10, 3, 4], [10, 3], [5, 0, 0], [5, 0], [1, 0, 7], [128, 8, 0], [64, 127, 127], [7, 1]): add(n, "%s(%s)" % (n, ",".join(map(str, bank))), bank)
        elif tt == "PitchBend":
            for v in (range(-8192, 8192, 1 if big else 257)): add(n, "%s(%d)" % (n, v), [v])
            for v in (-8192, -1, 0, 1, 8191): add(n, "%s(%d)" % (n, v), [v])
        elif tt == "SysexReset":
            add(n, n); add(n, n + " ")
        elif tt == "SysExCommand":
            rng_v = vals7() if n == "MasterVolume" else [-8192, -100, 0, 1, 8191] + list(range(-8192, 8192, 997))
            for v in rng_v: add(n, "%s(%d)" % (n, v), [v])
        elif tt == "GSEffect" and n not in ("GS_RHYTHM", "GSScaleTuning"):
            if n == "GSEffect":
                for v in (0, 5, 127): add(n, "GSEffect($30,%d)" % v, [0x30, v])
            else:
                for v in vals7()[::3]: add(n, "%s(%d)" % (n, v), [v])
        elif tt == "ControlChange" and not n.startswith("PlayFrom"):
            for c in ([0, 1, 7, 10, 11, 64, 91, 127] if not big else range(128)):
                for v in (0, 64, 127): add(n, "%s(%d,%d)" % (n, c, v), [c, v])
        elif tt in ("RPN", "NRPN"):
            for (a, b, c) in [(0, 0, 12), (0, 1, 64), (1, 8, 64), (1, 32, 100), (127, 127, 127)]: add(n, "%s(%d,%d,%d)" % (n, a, b, c), [a, b, c])
    # lower-case commands
    for c in ([0, 1, 7, 10, 11, 64, 91, 127] if not big else range(128)):
        for v in vals7()[::4]: add("y", "y%d,%d" % (c, v), [c, v])
    for v in vals7(): add("p", "p%d" % v, [v]); 
    for v in (range(1, 129) if big else list(range(1, 129, 5)) + [128]): add("@", "@%d" % v, [v])
    add("@", "@0", [0]); add("@", "@129", [129])
    for bank in ([10, 3, 4], [10, 3], [5, 0, 0], [5, 0], [1, 0, 7], [128, 8, 0], [64, 127, 127], [7, 1]): add("@", "@" + ",".join(map(str, bank)), bank)   # explicit banks, including bank 0/0
    for no, nm in T["voiceMd"]:
        if int(no) <= 128 or True:
            add("@name", "@" + nm, [], nm)
    def model(c, st, f):
        if st != "ok": return []
        return ["spec.c15 %s 0 16 %s %s %s" % (hx(c["name"]), ",".join(str(a) for a in c["args"]) or "~", hx(c["txt"]), f["bin"])]
    def judge(c, impl, m):
        st, f = impl
        if st != "ok": return ("violation", "command did not compile normally: %s %s" % (st, f))
        if not m[0].startswith("ok holds=1"): return ("violation", "emitted bytes are not the prescribed message: " + m[0])
        return None
    def nt(c, impl, m):
        return (c["name"], impl[1].get("bin")) if impl[0] == "ok" and m and "note=" not in m[0] else None
    s1 = Stream("sweep", cases if (cases and only == "sweep") else cs, model, judge, nt, "one-command programs over each command's domain")
    return [s for s in (s1,) if only in (None, s.name)]
