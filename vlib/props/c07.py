"""C07 — compilation never crashes or hangs, whatever the input text: streams."""
import os, json, re
from ..core import Stream, hx, unhx, VERIF
from .. import mml

RULE = ("fragments: every sequence of up to k lexical fragments of the language's alphabet (k = 2 exhaustive over ~140 fragments; k = 3 sampled in quick, "
        "larger sample in thorough; random k <= 8) compiled by the real entry point in a supervised worker (wall-clock and address-space limit); "
        "mutants: grammar-derived programs and the sample songs with characters deleted, duplicated, replaced and truncated, arguments dropped or out of "
        "range; unicode: arbitrary Unicode strings. Outcome classes ok | panic(site) | hang | abort; anything but ok is a violation. "
        "non-trivial = distinct inputs that compile with a non-empty log or a non-empty track")
ASSUMPTIONS = ["work the program explicitly requests is excluded by the property: generators keep repeat counts, lengths and track numbers <= 999 and do not build recursive macros/functions",
               "stack exhaustion from thousands of nested brackets and allocator behaviour are runtime phenomena outside the model (observed by the worker supervisor only)"]
TRUSTED = ["the worker supervisor (timeouts, RLIMIT_AS) classifies hangs and aborts"]

NEED_OVF = True

BIG = ["9223372036854775807", "9223372036854775808", "99999999999999999999999", "-9223372036854775807", "-9223372036854775808", "4611686018427387904",
       "2147483648", "4294967296", "18446744073709551615", "-99999999999999999999999"]
# one numeric slot each; none of them is a repeat count, a track number, a macro depth or the length of a ramp (work the program asks for stays bounded)
BIG_TEMPLATES = ["v%s c", "c%%%s", "o%s c", "q%s c", "t%s c", "l%s c", "l%%%s c", "l%%%s c.", "l%%%s c^^", "r%s c", "r%%%s c", "c%s", "c^%s", "c,%s", "c,,%s", "c,,,%s", "c,,,,%s", "n%s", "n60,%s", "n60,,%s",
                 "y1,%s c", "y%s,1 c", "p%s c", "PB(%s) c", "@%s c", "@1,%s c", "Tempo(%s) c", "Tempo=%s; c", "TempoChange(%s,120,4) c", "KeyShift(%s) c", "TrackKey(%s) c", "TimeBase=%s c1", "TimeBase(%s) c",
                 "Time(%s:1:1) c", "Time(1:%s:1) c", "Time(1:1:%s) c", "TIME(%s) c", "PlayFrom(%s:1:0) c", "TimeSignature(%s,4) TIME(2:1:0) c", "TimeSignature(4,%s) TIME(2:1:0) c",
                 "INT A=%s; A=A+1; PRINT(A) c", "INT A=%s; A=A-2; PRINT(A)", "INT A=%s; A=A*A; PRINT(A)", "INT A=%s; A++; PRINT(A)", "INT A=%s; A--; PRINT(A)", "PRINT(%s+1)", "PRINT(%s-2)", "PRINT(0-%s)", "PRINT(%s*3)", "PRINT(%s/-1)", "PRINT(%s%%-1)",
                 "PRINT(Random(%s))", "PRINT(Random(1,%s))", "PRINT(Random(%s,0))", "PRINT(Random(%s,-5))", "INT A=Random(%s,5) PRINT(A)", "KeyFlag=(%s) c", "KeyFlag=(0,%s,0) c d", "o.onNote(%s) b", "o.onNote(%s) c- d", "o.onCycle(%s,1) c d e", "PRINT(MID({abc},%s,2))", "PRINT(MID({abc},1,%s))", "PRINT(CHR(%s))", "PRINT(HEX(%s))", "ARRAY A=(1,2) PRINT(A(%s))", "PRINT(ABS(%s))",
                 "v.onNote(%s) c", "q.onNote(%s) c", "t.onNote(%s) c", "o.onNote(%s) c", "l.onNote(%s) c", "v.Random(%s) c d", "t.Random(%s) c d", "q.Random(%s) c d", "o.Random(%s) c d", "v.onTime(0,%s,96) c",
                 "y1.onTime(%s,0,96) c", "p.onTime(0,%s,96) c", "PB.onTime(0,%s,96) c", "y1.Frequency(%s) y1.onTime(0,127,96) c", "y1.onNote(%s) c",
                 "Slur(%s) c&d e", "c&d,%s e", "BR(%s) c", "RPN(%s,1,1)", "RPN(1,%s,1)", "RPN(1,1,%s)", "NRPN(1,1,%s)", "M(%s)", "MasterVolume(%s)", "MasterBalance(%s)", "SysEx$=f0,%s,f7;",
                 "DirectSMF(%s) c", "Port(%s) c", "CH(%s) c", "CH=%s c", "v+%s c", "v-%s c", "o+%s c", "q+%s c", "t-%s c", "(%s c", ")%s c", "vAdd(%s) ( c", "qAdd(%s) c", "MeasureShift(%s) TIME(2:1:0) c", "RandomSeed(%s) v.Random(9) c",
                 "{c d}%s", "{c d}%%%s", "'ce'%s", "'ce',%s", "'ce',,%s", "Sub{c%s} d", "Rhythm{b%s}", "Cresc(4,%s,127)", "Cresc(4,1,%s)", "GSReverbMacro(%s)", "Voice(%s)", "Voice(1,%s)",
                 "FOR(INT I=%s;I<3;I++){c}", "FOR(INT I=0;I>%s;I++){BREAK}", "IF(%s){c}", "WHILE(0>%s){BREAK}", "FUNCTION F(A){ RETURN(A*2) } PRINT(F(%s))", "#M={c #?1} #M(%s)", "STR S={a}; PRINT(S+%s)", "PRINT({a}*%s)"]

def fragments():
    line = open(os.path.join(VERIF, "tools", "fragments.json"), encoding="utf-8").read()
    return json.loads(line)

def mutate(rng, s):
    if not s: return s
    k = rng.random()
    i = rng.randrange(0, len(s)); j = min(len(s), i + rng.randrange(1, 6))
    if k < 0.25: return s[:i] + s[j:]
    if k < 0.45: return s[:i] + s[i:j] + s[i:j] + s[j:]
    if k < 0.6: return s[:j]
    if k < 0.8: return s[:i] + rng.choice(["(", ")", "{", "}", "[", "]", ",", "=", "-", "'", "\"", "$", "#", "&", "^", ".", "%", "!", "0", "999", "-1", "あ", "\n", " "]) + s[i:]
    return s[:i] + rng.choice(["128", "-128", "999", "0", "65536", ""]) + s[j:]

def streams(tier, rng, P, only=None, cases=None):
    big = tier == "thorough"
    fr = fragments()
    def mk_frag():
        cs = []; seen = set()
        def add(src, key):
            if src in seen: return
            if src.count("WHILE(") + src.count("FOR(") > 1: return      # nested loops that each run into the 10000-pass limit: 10^8 passes are work the program asks for
            if "TR=Random(" in src or "TR(Random(" in src or "TRRandom(" in src: return   # a random track number up to 2^31 is work the program asks for     # nested endless loops: 10^8 iterations are work the program asks for
            seen.add(src); cs.append(dict(req="compile %s 0 en lib" % hx(src), src=src, show=repr(src)[:200], key=key))
        for a in fr: add(a, "1")
        for a in fr:
            for b in fr: add(a + b, "2")
        n3 = 60000 if big else 6000
        for _ in range(n3):
            add("".join(rng.choice(fr) for _ in range(3)), "3")
        for _ in range(20000 if big else 2000):
            add(rng.choice(["", " "]).join(rng.choice(fr) for _ in range(rng.randrange(4, 9))), "k")
        # full-width forms of every fragment reaching the lexer unconverted (the text of a `{"..."}` string variable is not passed through
        # the sutoton converter): the lexer's own full-width handling
        def fw(t): return "".join(chr(ord(ch) - 0x21 + 0xFF01) if 0x21 <= ord(ch) <= 0x7E else ch for ch in t)
        for a in fr:
            if '"' in a or "FUNCTION" in a.upper(): continue
            add('STR Zqx={"%s"} Zqx f' % fw(a), "fw")
            add('STR Zqx={"%s"} Zqx f' % "".join(fw(ch) if rng.random() < 0.4 else ch for ch in a), "fw")
        # corpus of past crashes / hangs
        add('STR A={"｛cde｝4"} A f', "corpus")
        for src in ["[(-1) ]", "[(-1) c] d", "INT N=0-1; [(N) c] d", "[=-1 c d] e", "INT N=0-9223372036854775807; [(N) [(N) c]]"]: add(src, "corpus")
        # logs longer than the 4096-character cap made of multi-byte text, at every alignment of the cut
        for k in range(0, 7):
            add("Print({%s}) FOR(INT I=0;I<120;I++){ Print({春の歌、桜、弥生の空は見渡す限り}) } l4 cde" % ("a" * k), "corpus")
            add("Print({%s}) FOR(INT I=0;I<99;I++){ Print({é𝄞あ}+I) ZZ%d }" % ("b" * k, k), "corpus")
        for src in ["TimeSignature(4)", "SysEx=", "MasterVolume(100)", "MasterBalance(0)", "~{}={x} ド", "M.Frequency(0) M.onTime(0,127,!1)", "Random(0)", "PRINT(Random(0))",
                    "PRINT(RandomSelect())", "PRINT(Random(5,4))", "y1,", "$あ{n36,}", "v__1,100 c", "PRINT(7%0)", "PRINT(MID({abc},10,2))", "y200,1 c c PlayFrom(1:2:0)",
                    "INT A=(1", "PRINT(MID({あ},1,1))", "[0 c]", "[-1 c]", "TR(-1) c", "CH(99) c", "o99 c", "q-5 c", "l0 c", "c0", "{}", "{ }0", "'c'0", "TIME(0:0:0) c", "TimeSignature(0,0) TIME(2:1:0) c",
                    "Tempo(0)", "TempoChange(1,2,0)", "TempoChange(10,20)", "Fadein(0)", "Cresc(0)", "Decresc=", "DeviceNumber()", "KeyFlag", "KeyFlag=(", "UseKeyShift(", "System.TimeBase=0", "PlayFrom()",
                    "GSScaleTuning(1,2)", "GSEffect()", "GSReverbMacro()", "Port()", "MetaText", "TrackName=", "Voice()", "NoteOn(1)", "DirectSMF()", "RPN(1)", "NRPN()", "A(1)", "ARRAY A=(1,2) PRINT(A(5)) PRINT(A(-1))",
                    # every index around the ends of an array or string, the empty array, indices computed in a loop
                    "Array A=(1,2,3) Print(A(3))", "ARRAY A=(1,2,3) PRINT(A(2)) PRINT(A(3)) PRINT(A(4)) PRINT(A(0)) PRINT(A(0-1))", "Array A=(60,64,67) FOR(Int I=0; I<=SizeOf(A); I++){ Int N=A(I) Print(N) }",
                    "ARRAY E=() PRINT(E(0)) PRINT(SizeOf(E))", "ARRAY A=(7) PRINT(A(1)) INT K=A(1) n(K)", "STR S={abc} PRINT(S(3)) PRINT(S(2)) PRINT(S(0))", "ARRAY A=(1,2) INT I=SizeOf(A) PRINT(A(I)) A(I)",
                    "STR S={a} PRINT(S(1))",
                    # literals with digits their base does not have
                    "INT A=0o18 PRINT(A)", "v0o8 c", "c4,0o8", "[0o8 c16]", "@0o18 c", "TR=0o8 c", "INT B=0o9 PRINT(B)", "INT C=0xG1 PRINT(C)", "INT D=$ZZ PRINT(D)", "PRINT(0o777) PRINT(0o) PRINT(0x)",
                    # small negative counts and positions in the string built-ins
                    "STR A={abcd};PRINT(MID(A,2,-1))", "PRINT(MID({abcd},3,-2)) PRINT(MID({abcd},4,-1)) PRINT(MID({abcd},4,-3))", "PRINT(MID({abcd},-1,2)) PRINT(MID({abcd},-3,-3)) PRINT(MID({abcd},0,-1))",
                    "PRINT(MID({あいう},2,-1)) PRINT(MID({あいう},3,-2))", "PRINT(CHR(-1)) PRINT(CHR(-65)) PRINT(HEX(-1)) PRINT(HEX(-255))", "PRINT(REPLACE({abc},{},{x})) PRINT(REPLACE({},{a},{b}))", "FUNCTION F(){ F2() }", "F(1)", "RETURN(1)", "BREAK", "CONTINUE", "ELSE{c}", "IF(1)", "WHILE(1)", "FOR(", "FOR(;;){BREAK}", "#A #A", "#A={#?1} #A", "Rhythm{(", "Rhythm{Sub", "R{$}", "$", "$=", "v.onNote() c", "v.onNote(=) c",
                    "y1.onNote() c", "y.onTime c", "p.onTime() c", "PB.T c", "l.onNote() c", "o.onCycle() c", "t.onNote(1,) c", "q.Random() c", "v.onTime(1,2) c", "v.onTime(0,1,0) c", "M.onTime(0,127,0) c", "M.onTime(0,127,-5) c", "Slur(9) c&d e", "c& &d e", "n& c", "r& c",
                    "Sub{", "Div{c}-4", "{c}%0", "c%-5 d", "l%-9 c d", "r-1 c", "c,,,-999 d", "TIME(-5) c", "PlayFrom(-1) c", "PlayFrom(99:1:0) c", "? ? c",
                    "WHILE(1){ CONTINUE }", "INT I=0; WHILE(I<4){ IF(I==2){ CONTINUE } c I++ } d", "FOR(;;){ CONTINUE }", "FOR(INT I=0; 1; I++){ CONTINUE }", "INT N=0 FOR(INT I=0; I<4; ){ N++ IF(N>=2){ CONTINUE } c I++ } d", "FOR(INT I=0;1;){ IF(1){ CONTINUE } c }", "FUNCTION F(){ FOR(INT I=0;1;I++){ c CONTINUE } } F()",
                    "WHILE(1){ IF(1){ CONTINUE } c }",
                    "FUNCTION F(){ WHILE(1){ IF(1){ CONTINUE } } } F()", "WHILE(1){ FOR(INT I=0;I<2;I++){ CONTINUE } CONTINUE }",
                    "INT A=-9223372036854775808; INT B=0-1; PRINT(A/B)", "INT A=-9223372036854775808; INT B=0-1; PRINT(A%B)", "PRINT(-9223372036854775808/(0-1))",
                    "PRINT(9999999999999999999)", "v9999999999999999999 c", "TIME(9999999999999999999) c", "o9999999999999999999 c", "n9999999999999999999", "INT A=9999999999999999999*9999999999999999999 PRINT(A)"]:
            add(src, "corpus")
        return cs
    def judge(c, impl, m):
        st, f = impl
        if st == "ok": return None
        if st == "abort":
            # a mutation may leave a call of a function inside that function's own (now unclosed) body: unbounded user recursion, which the
            # property excludes; the stack then overflows by request
            for name in re.findall(r"(?i)FUNCTION\s+([A-Za-z_][A-Za-z0-9_]*)", c["src"]):
                if len(re.findall(r"\b%s\s*\(" % re.escape(name), c["src"])) >= 2: return None
        msg = ""
        if st == "panic":
            try: msg = unhx(f.get("msg", "~")).decode("utf-8", "replace")[:160]
            except Exception: msg = ""
        return ("violation", "compile did not return normally: %s %s" % (st, msg))
    def nt(c, impl, m):
        if impl[0] != "ok": return None
        return c["src"] if (impl[1].get("log", "~") != "~" or len(impl[1].get("bin", "")) > 60) else None
    s1 = Stream("fragments", cases if (cases and only == "fragments") else mk_frag(), lambda c, st, f: [], judge, nt, "fragment sequences", timeout_case=8.0)
    def mk_mut():
        cs = []
        n = 20000 if big else 2500
        samples = mml.sample_sources()
        for i in range(n):
            k = rng.random()
            if k < 0.6: base = mml.pr(mml.gen_program(rng, depth=rng.choice([1, 2, 3]), maxlen=8))
            elif k < 0.8 and samples:
                s = rng.choice(samples); a = rng.randrange(0, max(1, len(s) - 400)); base = s[a:a + rng.randrange(20, 400)]
            else:
                base = rng.choice(["INT A=3; FOR(INT I=0;I<3;I++){ IF(I==1){ c }ELSE{ d } } PRINT(A)", "FUNCTION F(A,B=2){ RETURN(A+B) } PRINT(F(1)) F(2,3)",
                                   "#M={c #?1} #M({d}) STR S={e} S", "Slur(1) c&d&e f Slur(0,10) g&a", "v.onNote(10,20) y1.onTime(0,127,!4) c d p.onTime(0,64,!8) e",
                                   "TR(2) CH(3) @5; Tempo(90) TimeSignature(3,4) TIME(2:1:0) c", "Rhythm{bshs b4s8} $x{n40,} R{x}", "'ceg'4 {c d e}4 Sub{ c } [3 c : d]",
                                   "SysEx$=f0,41,10,42,12,{40,00,7f,00},f7; ResetGS MasterVolume(100)", "PLAY({c d},{e f}) TrackSync KeyFlag+(fc) KeyShift(2) c"])
            src = base
            for _ in range(rng.randrange(1, 4)): src = mutate(rng, src)
            src = re.sub(r"\d{5,}", lambda m: m.group(0)[:3], src)      # counts/lengths/track numbers stay <= 999 (larger ones are work the program asks for)
            cs.append(dict(req="compile %s 0 en lib" % hx(src), src=src, show=repr(src)[:200], key="m%d" % i))
        for j, s in enumerate(samples):
            cs.append(dict(req="compile %s 0 en lib" % hx(s), src=s, show="sample %d" % j, key="sample%d" % j))
        return cs
    s2 = Stream("mutants", cases if (cases and only == "mutants") else mk_mut(), lambda c, st, f: [], judge, nt, "mutated programs and songs", timeout_case=15.0)
    def mk_uni():
        cs = []
        n = 8000 if big else 1000
        pools = [lambda: chr(rng.randrange(0x20, 0x7F)), lambda: chr(rng.choice([9, 10, 13, 0, 0x7F])), lambda: chr(rng.randrange(0x3040, 0x30FF)), lambda: chr(rng.randrange(0xFF01, 0xFF5E)),
                 lambda: chr(rng.choice([0x3000, 0xFEFF, 0x200B, 0x203E, 0x2028, 0xA0])), lambda: chr(rng.randrange(0x1F300, 0x1F600)), lambda: chr(rng.randrange(0x80, 0x800)), lambda: chr(rng.randrange(0x4E00, 0x9FFF))]
        for i in range(n):
            src = "".join(rng.choice(pools)() for _ in range(rng.randrange(0, 40)))
            cs.append(dict(req="compile %s 0 en lib" % hx(src), src=src, show=repr(src)[:200], key="u%d" % i))
        return cs
    s3 = Stream("unicode", cases if (cases and only == "unicode") else mk_uni(), lambda c, st, f: [], judge, nt, "arbitrary Unicode strings", timeout_case=8.0)
    # ---- overflow: the build with arithmetic overflow checks on (what `cargo test` and debug builds run): numbers near and beyond the 64-bit
    #      range in every numeric slot, then fragment sequences and mutants as above
    def mk_ovf():
        cs = []; seen = set()
        def add(src, key):
            if src in seen: return
            seen.add(src); cs.append(dict(req="compile %s 0 en lib" % hx(src), src=src, show=repr(src)[:200], key=key))
        for t in BIG_TEMPLATES:
            for b in BIG: add(t.replace("%s", b, 1) if t.count("%s") == 1 else t % b, "big")
        for a in fr: add(a, "1")
        nums = [a for a in fr if any(ch.isdigit() for ch in a)]
        for a in nums:
            for b in nums:
                if (a + b).count("WHILE(") + (a + b).count("FOR(") <= 1: add(a + b, "2")
        for _ in range(20000 if big else 1500):
            src = rng.choice(["", " "]).join(rng.choice(fr) for _ in range(rng.randrange(2, 6)))
            if src.count("WHILE(") + src.count("FOR(") > 1 or "Random(" in src and "TR" in src: continue
            add(re.sub(r"\d{5,}", lambda m: m.group(0)[:3], src), "k")
        # every fragment (and a list of stateful suffixes) after a command that puts a part of the state at the edge of the 64-bit
        # range: the time pointer, the default length, key shifts, velocity/gate/timing/octave, reservations, ramps
        M = "9223372036854775807"; N = "-9223372036854775808"
        pre = ["TIME(%s) " % M, "TIME(%s) " % N, "l%%%s " % M, "l%%-%s " % M, "KeyFlag=(%s) " % ",".join([M] * 7), "TrackKey(%s) " % M, "TrackKey(%s) " % N, "KeyShift(%s) " % M,
               "KeyShift(%s) " % N, "v%s " % M, "q%s " % M, "t%s " % M, "t%s " % N, "o%s " % M, "MeasureShift(%s) " % M, "vAdd(%s) " % M, "qAdd(%s) " % M, "v.Random(%s) " % M,
               "t.Random(%s) " % M, "q.Random(%s) " % M, "o.Random(%s) " % M, "INT A=%s; " % M, "TIME(%s) l%%%s " % (M, M), "r%%%s " % M, "r%%%s r%%%s " % (M, M), "Tempo(%s) " % M,
               "CH(%s) " % M, "PB(%s) " % M, "p%s " % M, "BR(%s) " % M, "Slur(1,%s) " % M, "Slur(2,%s) " % M, "Slur(3,%s) " % M, "l.onNote(%s,%s) " % (M, M), "t.onNote(%s,%s) " % (M, N),
               "o.onNote(%s) " % M, "q.onNote(%s) " % M, "v.onNote(%s) " % M, "v.onTime(%s,%s,96) " % (M, N), "TimeSignature(%s,4) " % M, "RandomSeed(%s) " % M,
               "t.Random=4 t%s " % M, "v.Random=4 v%s " % M, "q.Random=4 q%s " % M, "o.Random=4 o%s " % M, "t.Random=4 t%s " % N, "SysEx={%s,%s} " % (M, M), "SysEx$=f0,{%s,%s},f7; " % (M, M),
               # ... and at the other edge: zero and tiny values of what later commands divide by or step with
               "TimeBase(0) ", "TimeBase(1) ", "TimeBase=3 ", "TimeBase(-5) ", "TimeBase(%s) " % M, "TimeBase(%s) " % N, "TimeSignature(0,0) ", "TimeSignature(1,1) ", "l%0 ", "l0 ", "q0 ", "v0 ", "Tempo(0) ",
               "MeasureShift(%s) " % N, "TimeBase(2) TimeSignature(1,64) ",
               # negative and extreme slur values in every mode
               "Slur(0,-1) ", "Slur(0,-48) ", "Slur(1,-1) ", "Slur(2,-5) ", "Slur(3,-7) ", "Slur(0,%s) " % N,      # (a glide of 2^63 ticks is work the program asks for: not generated)
                "Slur(1,%s) " % N, "Slur(2,%s) " % N, "INT NS=0-48 Slur(0,NS) "]
        suf = ["", "c...", "c....", "c..", "c^%" + M + "..", "c^%" + M + "...", "c^%" + M + "....", "r....", "n60,4...", "'ce'4...", "{cd}4....", "l4... c", "c", "c&d e", "'ce' d", "{cd}4", "q++ c", "q-- c", "v++ c", "( c", ") c", "> c", "< c", "` c", '" c', "q__5 c", "v__5 c", "r c", "n60", "n60& n62", "c^c", "l4 c", "[3 c]",
               "Sub{c} d", "PLAY({c},{d})", "TrackSync c", "? c", "y1,5 c", "y1.onNote(1,2) c", "Cresc(1) c", "PB.T(0,1,!8) c", "M.onTime(0,9,9) c", "TempoChange(100,120,!4) c", "TimeSig(3,4) TIME(2:1:0) c"]
        for pi, p_ in enumerate(pre):
            for a in (suf + fr if big else suf + [x for k_, x in enumerate(fr) if (k_ + pi) % 4 == 0]):
                if "WHILE(" in a or "FOR(" in a: continue
                add(p_ + a, "edge")
        for j, s_ in enumerate(mml.sample_sources()): add(s_, "sample%d" % j)
        return cs
    s4 = Stream("overflow", cases if (cases and only == "overflow") else mk_ovf(), lambda c, st, f: [], judge, nt, "overflow-checked build: extreme numbers, fragments, songs", timeout_case=15.0)
    s4.variant = "ovf"
    return [s for s in (s1, s2, s3, s4) if only in (None, s.name)]
