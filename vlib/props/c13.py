"""C13 — ties and slurs: streams."""
from ..core import Stream, hx, unhx, run_driver

RULE = ("tie: programs with one or more tied groups (2..7 notes, any pitches incl. repeats and returns, lengths, gates, velocities; Slur modes 0-3 and values, changed between the groups of a program with the one- and two-argument forms; "
        "groups at top level, in loops, tuplets, Sub, on several tracks) are run with '&' and, as reference, with every '&' removed; the events of the "
        "tied run must be the events of the plain run with each group replaced by the model's flush of that group (notes and bend-range/reset events "
        "exactly; mode-0 glide samples only by their time window), the time pointers must be equal, and everything after the group identical. "
        "non-trivial = distinct tied outputs with >= 1 pitch change inside a group")
ASSUMPTIONS = ["no other event-producing command is written between the notes of a tied group", "a group is closed by a following note on the same track (a group left open at the end of a track is outside the statement)",
               "glide sample values of mode 0 come from f32 products in the code and are compared by window, not by value"]
TRUSTED = ["Model.Tie.flush is tied to the code by this stream; the laws are proved about it"]

NOTES = "cdefgab"

def gen_group(rng):
    n = rng.choice([2, 2, 3, 3, 4, 5, 7])
    pitches = []
    for _ in range(n):
        if pitches and rng.random() < 0.3: pitches.append(pitches[-1])
        elif len(pitches) >= 2 and rng.random() < 0.2: pitches.append(pitches[0])
        else: pitches.append(rng.choice(NOTES) + rng.choice(["", "", "+", "-"]))
    lens = [rng.choice(["", "", "4", "8", "16", "2", "8.", "%30", "32", "%5"]) for _ in range(n)]
    gates = [rng.choice(["", "", "50", "100", "80", "150", "200", "300", "1"]) for _ in range(n)]     # a note's own gate may exceed 100 %
    # the mark may carry a value (`&2`, `&48`, `&$20`): any value other than 0 ties the note to the next one
    ties = [rng.choice(["&", "&", "&", "&1", "&2", "&3", "&48", "&$20"]) for _ in range(n)]
    # the slots after the velocity (timing, octave) may be written too: the mark follows the last slot written
    tails = [rng.choice(["", "", "", ",,4", ",,5", ",,6", ",3", ",-2,5", ",0,6"]) for _ in range(n)]
    return pitches, lens, gates, ties, tails

def render_group(g, tied, mark=111):
    pitches, lens, gates, ties, tails = g
    out = []
    for i, (p, l, q) in enumerate(zip(pitches, lens, gates)):
        s = p + l + "," + q + ",%d" % mark + tails[i]      # velocities 111..113 mark the notes of tied groups (one value per group)
        if tied and i < len(pitches) - 1: s += ties[i]
        out.append(s)
    return " ".join(out)

def gen_case(rng):
    """Slur is a per-track setting: Slur(m,v) sets mode and value, Slur(m) only the mode; the settings in force when a group is flushed
       (= at the note that closes it) decide how it sounds; groups of one case carry their own marker velocity"""
    mode, val = 0, 0
    tb = rng.choice([96, 96, 48, 480])
    parts_t = []; parts_p = []; groups = []; gm = {}
    def both(s):
        parts_t.append(s); parts_p.append(s)
    def slur():
        nonlocal mode, val
        m = rng.choice([0, 1, 2, 3])
        if rng.random() < 0.6:
            v = rng.choice([0, 0, 10, 24, 48, 96]) if m in (0, 2) else rng.choice([0, 0, 100])
            both(rng.choice(["Slur(%d,%d)", "SLUR(%d,%d)"]) % (m, v)); mode, val = m, v
        else:
            both("Slur(%d)" % m); mode = m
    if tb != 96: both("TimeBase(%d)" % tb)
    if rng.random() < 0.3: both("TR(%d)" % rng.choice([1, 2, 3]))
    if rng.random() < 0.8: slur()
    if rng.random() < 0.5: both(rng.choice(["o4", "v90", "q80", "l8", "c", "r8", "d e"]))
    # a bend-sensitivity command of the user (an RPN message of its own) does not change how a slur is rendered
    if rng.random() < 0.25: both(rng.choice(["BR(%d)", "BendRange(%d)", "PitchBendSensitivity(%d)"]) % rng.choice([1, 2, 5, 11, 12, 24]))
    ngroups = rng.choice([1, 1, 2, 3])
    curch = [None]
    for gi in range(ngroups):
        if gi > 0 and rng.random() < 0.6: slur()
        if gi > 0 and rng.random() < 0.3:
            # the track moves to another channel between two groups
            nc = rng.choice([c_ for c_ in range(1, 17) if c_ != curch[0]]); curch[0] = nc; both("CH(%d)" % nc)
        g = gen_group(rng); groups.append(g); mark = 111 + gi; gm[str(mark)] = [mode, val]
        ctx = rng.random()
        t, p = render_group(g, True, mark), render_group(g, False, mark)
        if ctx < 0.6: parts_t.append(t); parts_p.append(p)
        elif ctx < 0.75: parts_t.append("[2 %s n100]" % t); parts_p.append("[2 %s n100]" % p)
        elif ctx < 0.82: parts_t.append("Sub{%s n40} r" % t); parts_p.append("Sub{%s n40} r" % p)
        elif ctx < 0.9 and " " in t:
            # a group that begins on the last note of a tuplet (or Sub block) and ends after it
            w = rng.choice(["{r %s}4 %s", "Div{r8 %s}2 %s", "{%s}8 %s", "Sub{r %s} %s"])
            t1, t2 = t.split(" ", 1); p1, p2 = p.split(" ", 1)
            parts_t.append(w % (t1, t2)); parts_p.append(w % (p1, p2))
        else: parts_t.append("{%s n41}2" % t); parts_p.append("{%s n41}2" % p)
        both(rng.choice(["n100", "n100 r", "n100,8 d"]))      # the group is closed by the next note (sentinel)
    changes = sum(1 for g in groups for a, b in zip(g[0], g[0][1:]) if a != b)
    return " ".join(parts_t), " ".join(parts_p), gm, tb, groups, changes

def parse_evs(s):
    return [] if s in ("~", "") else s.split(",")

def streams(tier, rng, P, only=None, cases=None):
    big = tier == "thorough"
    def mk():
        cs = []
        n = 6000 if big else 800
        for i in range(n):
            t, p, gm, tb, groups, ch = gen_case(rng)
            cs.append(dict(req="run2 %s %s" % (hx(t), hx(p)), src=t, plain=p, show=t, gm=gm, tb=tb, glens=[len(g[0]) for g in groups], changes=ch, key="t%d" % i))
        for j, (t, p, mode, val) in enumerate([("Slur(3) l4 c,,111&d,,111 e", "Slur(3) l4 c,,111 d,,111 e", 3, 0), ("Slur(1) l4 c,,111&d,,111&c,,111 e", "Slur(1) l4 c,,111 d,,111 c,,111 e", 1, 0), ("Slur(2,10) c,,111&c,,111&d,,111 e", "Slur(2,10) c,,111 c,,111 d,,111 e", 2, 10)]):
            cs.append(dict(req="run2 %s %s" % (hx(t), hx(p)), src=t, plain=p, show=t, gm={"111": [mode, val]}, tb=96, glens=[2 if j == 0 else 3], changes=1, key="fixed%d" % j))
        return cs
    def model(c, st, f):
        return []      # needs the plain run's events: evaluated in judge with a direct driver call
    def judge(c, impl, m):
        st, f = impl
        if st != "ok": return ("violation", "tied program did not compile: " + st)
        t1 = f["tracks1"].split(";"); t2 = f["tracks2"].split(";")
        if len(t1) != len(t2): return ("violation", "number of tracks differs between tied and plain run")
        # only the track that holds the groups matters; others must be identical
        for ti, (a, b) in enumerate(zip(t1, t2)):
            ea, eb = parse_evs(a), parse_evs(b)
            exp = expected_from_plain(c, eb)
            if exp is None: return ("mismatch", "model flush failed")
            ok, why = compare(c, ea, exp)
            if not ok: return ("violation", "track %d: %s" % (ti, why))
        return None
    def nt(c, impl, m): return impl[1].get("tracks1") if impl[0] == "ok" and c["changes"] >= 1 else None
    s1 = Stream("tie", cases if (cases and only == "tie") else mk(), model, judge, nt, "tied program vs plain program + model flush", timeout_case=20.0)
    # ---- the same pairs in the file: the notes after a group sound at the ticks they have without `&` (what the writer makes of the bend
    #      range / bend events of a group must not move anything that follows)
    from ..smfpy import smf_events
    def mk_m():
        cs = []
        for i in range(3000 if big else 400):
            t, p, gm, tb, groups, ch = gen_case(rng)
            lead = rng.choice(["", "", "r4 ", "l4 c ", "r8 r8 r2 "])      # the first group need not start at tick 0
            cs.append(dict(req="compile2 %s %s" % (hx(lead + t), hx(lead + p)), src=lead + t, plain=lead + p, show=lead + t, changes=ch, key="m%d" % i))
        for j, (a, b) in enumerate([("l4 c d&e g n100", "l4 c d e g n100"), ("l4 Slur(1) r c&e g n100", "l4 Slur(1) r c e g n100")]):
            cs.append(dict(req="compile2 %s %s" % (hx(a), hx(b)), src=a, plain=b, show=a, changes=1, key="mfixed%d" % j))
        # a bar line or blanks between a note and its tie mark: the same tie (`c|&c`, `c4 | &c4`)
        for j, (a, b) in enumerate([("l4 c|&c d", "l4 c&c d"), ("l4 c4 | &c4 d", "l4 c4&c4 d"), ("Slur(0,24) l4 c | &e g", "Slur(0,24) l4 c&e g"), ("l8 c &c|&c d", "l8 c&c&c d"),
                                    ("Slur(1) l4 c|&e|&g a", "Slur(1) l4 c&e&g a"), ("Slur(2,10) l4 e | &f g", "Slur(2,10) l4 e&f g"), ("l4 c8.|&c16 d", "l4 c8.&c16 d"),
                                    # the documented names of the modes are the modes
                                    ("Slur(SLUR_ALPE) l4 c&e&g a", "Slur(3) l4 c&e&g a"), ("Slur(SLUR_GATE,10) l4 c&e&g a", "Slur(2,10) l4 c&e&g a"), ("Slur(SLUR_BEND) l4 c&e g", "Slur(1) l4 c&e g"),
                                    ("Slur(SLUR_PORT,24) l4 c&e g", "Slur(0,24) l4 c&e g"), ("Slur(SLUR_ALPE,24) l4 c&d e", "Slur(3,24) l4 c&d e")]):
            cs.append(dict(req="compile2 %s %s" % (hx(a), hx(b)), src=a, plain=b, show=a, changes=1, same=True, key="mbar%d" % j))
        # a slur that only rises (falls) never bends below (above) the centre, however wide the interval: at the end of the 14-bit range the bend stays there
        for j, (a, b, d) in enumerate([("l4 Slur(1) c&>c n100", "l4 Slur(1) c >c n100", 1), ("Slur(1,0) l4 c&g&>e&>e n100", "Slur(1,0) l4 c g >e >e n100", 1),
                                       ("Slur(0,48) l4 c&>c n100", "Slur(0,48) l4 c >c n100", 1), ("l4 Slur(1) o4 c&>>c n100", "l4 Slur(1) o4 c >>c n100", 1),
                                       ("l4 Slur(1) o6 c&<<c n100", "l4 Slur(1) o6 c <<c n100", -1), ("l4 Slur(1) o6 c&<c&<c n100", "l4 Slur(1) o6 c <c <c n100", -1)]):
            cs.append(dict(req="compile2 %s %s" % (hx(a), hx(b)), src=a, plain=b, show=a, changes=1, dir=d, key="mdir%d" % j))
        return cs
    def m_judge(c, impl, m):
        st, f = impl
        if st != "ok": return ("violation", "tied program did not compile: " + st)
        if c.get("same"):
            return ("violation", "two spellings of the same tied text (a bar line / blank before the tie mark, a named mode) give different output: %r vs %r" % (c["src"], c["plain"])) if f["bin1"] != f["bin2"] else None
        ta, tb_ = smf_events(f["bin1"]), smf_events(f["bin2"])
        if ta is None or tb_ is None or len(ta) != len(tb_): return ("violation", "tied and plain program give different numbers of tracks")
        for ti, (a, b) in enumerate(zip(ta, tb_)):
            sa = [e[0] for e in a if e[1] == "on" and e[2][1] == 100]; sb = [e[0] for e in b if e[1] == "on" and e[2][1] == 100]
            if sa != sb: return ("violation", "track %d: the notes after the groups start at ticks %s in the file, without & at %s" % (ti, sa[:8], sb[:8]))
            if any(e[1] == "bad" for e in a): return ("violation", "track %d of the tied program is not a legal event stream" % ti)
            if c.get("dir"):
                pbs = [e[2][1] + 128 * e[3] for e in a if e[1] == "pb"]
                if not pbs: return ("violation", "a slur in bend mode wrote no bend")
                if c["dir"] > 0 and min(pbs) < 8192: return ("violation", "a slur that only rises bends below the centre (%d): the value wrapped" % min(pbs))
                if c["dir"] < 0 and max(pbs) > 8192: return ("violation", "a slur that only falls bends above the centre (%d): the value wrapped" % max(pbs))
        return None
    s2 = Stream("tiemidi", cases if (cases and only == "tiemidi") else mk_m(), lambda c, st, f: [], m_judge,
                lambda c, i, m: i[1].get("bin1") if i[0] == "ok" and c["changes"] >= 1 else None, "tied vs plain program in the file: ticks of the notes after the groups", timeout_case=20.0)
    return [s for s in (s1, s2) if only in (None, s.name)]

def expected_from_plain(c, eb):
    """a tied group = a maximal run of consecutive note-ons carrying one marker velocity (111..113) in the plain run"""
    groups = []; cur = []; curm = None
    for idx, e in enumerate(eb):
        p = e.split(":")
        if p[0] == "on" and p[5] in c["gm"]:
            if cur and p[5] != curm: groups.append(cur); cur = []
            cur.append(idx); curm = p[5]
        else:
            if cur: groups.append(cur); cur = []
    if cur: groups.append(cur)
    outs = []; brv = -1; prevch = None
    for g in groups:
        evs = ",".join(eb[i] for i in g)
        chv = eb[g[0]].split(":")[2]
        if prevch is not None and chv != prevch: brv = 0      # the bend range is a setting of the channel: sent again on another channel
        prevch = chv
        gmode, gval = c["gm"][eb[g[0]].split(":")[5]]
        r = run_driver(["tieflush %d %s %d %d %d %s" % (gmode, chv, c["tb"], brv, gval, evs)])[0]
        if not r.startswith("ok ev="): return None
        outs.append(r.split("ev=")[1].split(" ")[0]); brv = int(r.split("br=")[1])
    exp = []; i = 0
    starts = {g[0]: (g, k) for k, g in enumerate(groups)}
    while i < len(eb):
        if i in starts:
            g, k = starts[i]
            exp += parse_evs(outs[k]); i = g[-1] + 1
        else:
            exp.append(eb[i]); i += 1
    return exp

def compare(c, got, exp):
    def split(evs):
        notes = [e for e in evs if not e.startswith("pb:")]
        bends = [e for e in evs if e.startswith("pb:")]
        return notes, bends
    gn, gb = split(got); en, eb_ = split(exp)
    if gn != en:
        for i, (a, b) in enumerate(zip(gn, en)):
            if a != b: return False, "event %d is %s, the tie law gives %s" % (i, a, b)
        return False, "different number of note/range events: %d vs %d" % (len(gn), len(en))
    if all(mv[0] != 0 for mv in c["gm"].values()):
        if gb != eb_: return False, "bend events differ: %s vs %s" % (gb[:6], eb_[:6])
    else:
        # resets (value 8192) exactly, glide samples by count bound and window
        gr = [e for e in gb if e.split(":")[3] == "8192"]; er = [e for e in eb_ if e.split(":")[3] == "8192"]
        if gr != er: return False, "bend resets differ: %s vs %s" % (gr[:6], er[:6])
        if abs(len(gb) - len(eb_)) > max(2, len(eb_) // 10): return False, "number of glide samples %d vs model %d" % (len(gb), len(eb_))
    return True, ""
