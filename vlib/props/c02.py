"""C02 — each track is a legal MIDI event stream reproducing the events: streams."""
from ..core import Stream, hx
from .. import gen, mml

RULE = ("generate: random event lists (all kinds, channels 0..15, deltas over every VLQ boundary up to 2^28-1, values inside/outside "
        "7 bits, SysEx/meta payloads 0..300 bytes, same-tick runs of 64-200 events, out-of-order and negative ticks) through the real "
        "midi::generate; the real bytes are decoded by the independent SMF decoder Spec.decodeTrack (Lean) and must equal "
        "expected(normalize(events)) + one EOT; model bytes are also compared byte for byte. "
        "run: sources through lex+exec+generate with the event snapshot taken before generate, same predicate. "
        "non-trivial = distinct byte strings with >= 1 event")
ASSUMPTIONS = ["DirectSMF/NoteOn()/NoteOff() verbatim bytes are excluded by the property",
               "channel 0..15 (guaranteed by Track::new/Channel clamps), meta length one byte (text is cut at 127 bytes by the runner)"]
TRUSTED = ["Spec.Smf.decodeTrack / Spec.expected are my reading of SMF 1.0 and of 'the song's event list'"]

CTRL = ["y%d,%d", "Volume(%d)#", "Expression(%d)#", "Panpot(%d)#", "M(%d)#", "PitchBend(%d)#", "p(%d)#", "@%d#", "BR(%d)#",
        "Tempo(%d)#", "TrackName{\"abc%d\"}#", "SysEx$=f0,7e,7f,09,01,f7;#", "ResetGM#", "Lyric{\"la%d\"}#"]

def rich_source(rng):
    parts = []
    for _ in range(rng.randrange(1, 6)):
        if rng.random() < 0.5:
            parts.append(mml.pr(mml.gen_cmds(rng, 2, rng.randrange(1, 5), top=True)))
        else:
            f = rng.choice(CTRL)
            a = rng.choice([0, 1, 64, 127, 128, 200, 300, 8192, rng.randint(0, 127)])
            b = rng.randint(0, 127)
            if "#" in f:
                f = f.replace("#", "")
                parts.append(f % a if "%d" in f else f)
            else:
                parts.append(f % (a % 128, b))
    if rng.random() < 0.15:
        n = rng.choice([100, 126, 127, 128, 129, 200, 300]); ch = rng.choice(["a", "é", "♪", "😀"])
        parts.insert(rng.randrange(0, len(parts) + 1), rng.choice(["TrackName", "Lyric", "Text", "Copyright"]) + "={" + ch * (n // len(ch.encode("utf-8")) + 1) + "}")
    if rng.random() < 0.1:
        parts.insert(rng.randrange(0, len(parts) + 1), "SysEx$=f0," + ",".join("%02x" % rng.randint(0, 127) for _ in range(rng.choice([5, 126, 127, 128, 200]))) + ",f7;")
    if rng.random() < 0.15:
        # a track beyond the sixteen channels, on its default channel: every status byte still names a channel 0..15
        parts.insert(0, rng.choice(["TR=%d", "TR(%d)", "Track(%d)"]) % rng.choice([16, 17, 18, 20, 33, 100]))
    return " ".join(parts)

def streams(tier, rng, P, only=None, cases=None):
    big = tier == "thorough"
    def mk_gen():
        cs = []
        n = 2500 if big else 400
        for i in range(n):
            nt = rng.choice([1, 1, 2, 3])
            trs = []
            for _ in range(nt):
                r = rng.random()
                if r < 0.08: trs.append(gen.same_tick_run(rng, rng.choice([64, 100, 200])))
                else: trs.append(gen.rand_track(rng, maxlen=rng.choice([12, 30])))
            pf = -1 if rng.random() < 0.85 else rng.randint(0, 400)
            cs.append(dict(req="generate %d %d %s" % (rng.choice([48, 96, 480]), pf, ";".join(trs)), pf=pf, tracks=";".join(trs), key="gen%d" % i))
        return cs
    def gen_model(c, status, f):
        if status != "ok": return []
        return [c["req"], "spec.c02 %s %d %s" % (f["bin"], c["pf"], c["tracks"])]
    def gen_judge(c, impl, m):
        st, f = impl
        if st != "ok": return ("violation", "generate did not return: " + st)
        if not m[1].startswith("ok holds=1"): return ("violation", "decoded track differs from the event list: " + m[1])
        if m[0] != "ok bin=" + f["bin"]: return ("mismatch", "model bytes differ from implementation bytes")
        return None
    def nt(c, impl, m):
        b = impl[1].get("bin", "") if impl[0] == "ok" else ""
        return b if len(b) > 60 else None
    s1 = Stream("generate", cases if (cases and only == "generate") else mk_gen(), gen_model, gen_judge, nt, "random event lists through midi::generate")
    def mk_src():
        cs = []
        n = 2000 if big else 300
        for i in range(n):
            src = rich_source(rng)
            cs.append(dict(req="run " + hx(src), src=src, show=src, key="src%d" % i))
        for j, src in enumerate(mml.sample_sources()):
            cs.append(dict(req="run " + hx(src), src=src, show=src[:200], key="sample%d" % j))
        # notes whose gate comes out negative (a negative rate, a negative length, a Random gate): the note-off still follows its note-on
        # tempi below 4 beats a minute (more microseconds a beat than three bytes hold): the tempo event still has a payload of three bytes
        for j, src in enumerate(["TempoChange(3) c", "TempoChange(1) c d", "TempoChange(6,2,!1) l4 cdef", "TempoChange(2,!1) c", "TempoChange(3,1,!4) c d e", "TempoChange(0) c", "TempoChange(-5) c"]):
            cs.append(dict(req="run " + hx(src), src=src, show=src, key="slow%d" % j))
        for j, src in enumerate(["c4,-10 d", "l%-20 c d", "q100 q.Random=250 c d e f g a b", "c%-5,50 d", "'ce'4,-20 g", "n60,4,-30 n62", "l4 c,-1 c,-100 c,-1000"]):
            cs.append(dict(req="run " + hx(src), src=src, show=src, key="neg%d" % j))
        return cs
    def src_model(c, status, f):
        if status != "ok": return []
        return ["spec.c02 %s %s %s" % (f["bin"], f["pf"], f["tracks"])]
    def src_judge(c, impl, m):
        st, f = impl
        if st != "ok": return None      # crashes are C07's business
        if not m[0].startswith("ok holds=1"): return ("violation", "decoded track differs from the song's event list: " + m[0])
        return None
    s2 = Stream("run", cases if (cases and only == "run") else mk_src(), src_model, src_judge, nt, "sources through the real pipeline, event snapshot before generate")
    return [s for s in (s1, s2) if only in (None, s.name)]
