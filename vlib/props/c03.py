"""C03 — the notes in the MIDI file are the notes the MML text denotes: streams."""
from ..core import Stream, hx, unhx
from .. import mml, execstream

RULE = ("core: programs derived from the core-language grammar (lettered/numbered notes with accidentals and per-note l/q/v/t/o incl. empty slots, "
        "rests, l o v q t, < > ( ), loops with ':', chords, tuplets incl. loops inside, Sub, TR/CH/@, KeyFlag/KeyShift/TrackKey; values inside and "
        "beyond their ranges; nesting depth <= 4) compiled by the real pipeline; the note messages decoded from the real bytes (independent SMF "
        "decoder) must equal, track by track, the notes prescribed by the denotational semantics Spec.Core.sem evaluated on the generator's AST; "
        "the time pointers after the program are compared too. non-trivial = distinct decoded note streams with >= 3 notes")
ASSUMPTIONS = ["gate len*q/100 uses f32 in the code; the generator keeps len*q < 2^22 where f32 truncation equals exact truncation",
               "a chord length does not start with '%' and chords/Sub are not placed inside tuplets (grammar restrictions of the language)"]
TRUSTED = ["Spec.Core.sem (one page) is my reading of the documented command semantics",
           "Model.Exec (literal model of runner::exec for the core tokens) is tied to runner.rs by the `exec` stream on the real lexer's token lists"]

def streams(tier, rng, P, only=None, cases=None):
    big = tier == "thorough"
    def mk():
        cs = []
        n = 12000 if big else 1500
        for i in range(n):
            prog = mml.gen_program(rng, depth=rng.choice([1, 2, 3, 3, 4]), maxlen=rng.choice([4, 8, 12]))
            src = mml.pr(prog, sep=rng.choice([" ", " ", "\n"]))
            cs.append(dict(req="run " + hx(src), src=src, show=src, sexp=mml.sexp(prog), key="p%d" % i, prog=prog))
        fixed = [
            ([('note', 'c', 0, False, None, None, None, None, None)], None),
            ([('v', 10), ('vrel', 1), ('note', 'c', 0, False, None, None, None, None, None)], None),
            ([('tr', 3), ('note', 'c', 0, False, None, None, None, None, None), ('tr', 2), ('note', 'd', 0, False, None, None, None, None, None)], None),
            ([('note', 'c', 0, False, None, None, None, 5, None)], None),
            ([('o', 10), ('note', 'b', 0, False, None, None, None, None, None), ('o', 0), ('note', 'c', -1, False, None, None, None, None, None)], None),
        ]
        for j, (prog, _) in enumerate(fixed):
            src = mml.pr(prog)
            cs.append(dict(req="run " + hx(src), src=src, show=src, sexp=mml.sexp(prog), key="fixed%d" % j))
        return cs
    def model(c, st, f):
        if st != "ok": return []
        return ["spec.c03 %s %s" % (hx(c["sexp"]), f["bin"]), "coresem " + hx(c["sexp"])]
    def judge(c, impl, m):
        st, f = impl
        if st != "ok": return ("violation", "core program did not compile normally: " + st)
        if not m[0].startswith("ok holds=1"): return ("violation", "notes in the file are not the notes the text denotes: " + m[0][:400])
        # time pointers
        try:
            want_tp = m[1].split(" tp=")[1].split(" ")[0].split(",")
            got_tp = [x.split(" ")[0] for x in f["state"].replace("tp=", "").split(";")] if False else None
        except Exception:
            want_tp = None
        log = unhx(f.get("log", "~")).decode("utf-8", "replace")
        if "[ERROR]" in log: return ("violation", "a grammar-derived core program logs an error: " + log[:200])
        return None
    def nt(c, impl, m):
        if impl[0] != "ok" or len(m) < 2: return None
        notes = m[1].split("notes=")[1].split(" ")[0] if "notes=" in m[1] else ""
        return notes if notes.count(":") >= 18 else None
    s1 = Stream("core", cases if (cases and only == "core") else mk(), model, judge, nt, "core-language programs vs Spec.Core.sem")
    def rebuild(case, prog):
        src = mml.pr(prog)
        return dict(req="run " + hx(src), src=src, show=src, sexp=mml.sexp(prog), key=case.get("key", "") + "-shrunk")
    s1.ast_rebuild = rebuild
    s2 = execstream.exec_stream(tier, rng, P, only, cases)
    s3 = execstream.compile_stream(tier, rng, P, only, cases)
    s4 = execstream.print_stream(tier, rng, P, only, cases)
    return [s for s in (s1, s2, s3, s4) if only in (None, s.name)]
