"""C03 — the notes in the MIDI file are the notes the MML text denotes: streams."""
import re
from ..core import Stream, hx, unhx
from .. import mml, execstream

RULE = ("core: programs derived from the core-language grammar (lettered/numbered notes with accidentals and per-note l/q/v/t/o incl. empty slots, "
        "rests, l o v q t, < > ( ), loops with ':', chords, tuplets incl. loops inside, Sub, TR/CH/@, KeyFlag/KeyShift/TrackKey; values inside and "
        "beyond their ranges; nesting depth <= 4) compiled by the real pipeline; the note messages decoded from the real bytes (independent SMF "
        "decoder) must equal, track by track, the notes prescribed by the denotational semantics Spec.Core.sem evaluated on the generator's AST; "
        "the time pointers after the program are compared too. non-trivial = distinct decoded note streams with >= 3 notes")
ASSUMPTIONS = ["gate len*q/100 uses f32 in the code; the generator keeps len*q < 2^22 where f32 truncation equals exact truncation",
               "a chord length does not start with '%' and chords/Sub are not placed inside tuplets (grammar restrictions of the language)"]
TRUSTED = ["Spec.Core.sem (one page) is my reading of the documented command semantics",
           "Model.Exec (literal model of runner::exec for the core tokens) is tied to runner.rs by the `exec` stream on the real lexer's token lists"]

def streams(tier, rng, P, only=None, cases=None):
    big = tier == "thorough"
    def mk():
        cs = []
        n = 12000 if big else 1500
        for i in range(n):
            prog = mml.gen_program(rng, depth=rng.choice([1, 2, 3, 3, 4]), maxlen=rng.choice([4, 8, 12]))
            src = mml.pr(prog, sep=rng.choice([" ", " ", "\n"]))
            if i % 3 == 1:
                # a loop played twice may be written without its count, whatever its body begins with (a note, a chord, a tuplet, `Sub`, `TR` …)
                src = re.sub(r"\[[ \t]*2[ \t]+(?=[a-gr'{\[nolvq<>STD])", "[", src)
            cs.append(dict(req="run " + hx(src), src=src, show=src, sexp=mml.sexp(prog), key="p%d" % i, prog=prog))
        fixed = [
            ([('note', 'c', 0, False, None, None, None, None, None)], None),
            ([('v', 10), ('vrel', 1), ('note', 'c', 0, False, None, None, None, None, None)], None),
            ([('tr', 3), ('note', 'c', 0, False, None, None, None, None, None), ('tr', 2), ('note', 'd', 0, False, None, None, None, None, None)], None),
            ([('note', 'c', 0, False, None, None, None, 5, None)], None),
            ([('o', 10), ('note', 'b', 0, False, None, None, None, None, None), ('o', 0), ('note', 'c', -1, False, None, None, None, None, None)], None),
            # a relative step that is clamped, directly followed by the opposite step: each step is clamped on its own
            ([('o', 0), ('orel', -1), ('orel', 1), ('note', 'c', 0, False, None, None, None, None, None)], None), ([('o', 10), ('orel', 1), ('orel', -1), ('note', 'c', 0, False, None, None, None, None, None)], None),
            ([('orel', 1)] * 7 + [('orel', -1), ('note', 'c', 0, False, None, None, None, None, None)], None), ([('v', 124), ('vrel', 1), ('vrel', -1), ('note', 'c', 0, False, None, None, None, None, None)], None), ([('v', 3), ('vrel', -1), ('vrel', 1), ('note', 'c', 0, False, None, None, None, None, None)], None),
            ([('v', 120), ('vrel', 1), ('vrel', 1), ('vrel', -1), ('vrel', -1), ('note', 'c', 0, False, None, None, None, None, None), ('orel', -1), ('orel', -1), ('orel', -1), ('orel', -1), ('orel', -1), ('orel', -1), ('orel', 1), ('note', 'c', 0, False, None, None, None, None, None)], None),
        ]
        # a per-note slot left empty takes the track's value, also when a later slot of the same note is written (`t10 c4,,,,6`)
        N_ = lambda nm, q=None, v=None, tm=None, o=None: ('note', nm, 0, False, None, q, v, tm, o)
        fixed += [([('t', 10), N_('c', o=6), N_('d')], None), ([('t', 7), N_('e', v=64, o=4), N_('f', q=50, o=5), N_('g', tm=0, o=5), N_('a')], None),
                  ([('q', 50), ('v', 33), ('t', 4), N_('c', o=3), N_('d', v=90, o=3), N_('e', q=100, o=3), N_('f', tm=2, o=3)], None)]
        for j, (prog, _) in enumerate(fixed):
            src = mml.pr(prog)
            cs.append(dict(req="run " + hx(src), src=src, show=src, sexp=mml.sexp(prog), key="fixed%d" % j))
        # blanks inside the parentheses of an argument, also before the closing one: the same command
        for j, (src, prog) in enumerate([("v( 100 ) c", [('v', 100), N_('c')]), ("o( 4 ) c", [('o', 4), N_('c')]), ("q( 50 ) d", [('q', 50), N_('d')]), ("t( 3 ) e", [('t', 3), N_('e')]),
                                         ("v(90 ) c o(6 ) d", [('v', 90), N_('c'), ('o', 6), N_('d')]), ("v(\t64\t) c", [('v', 64), N_('c')])]):
            cs.append(dict(req="run " + hx(src), src=src, show=src, sexp=mml.sexp(prog), key="paren%d" % j))
        # gate sweep: every (length in ticks, gate rate) pair of a dense grid sounds for the truncated exact product len*q/100
        for g in range(1, 151 if big else 101):
            for lo in range(1, 1201 if big else 501, 100):
                prog = [('q', g)] + [('note', 'c', 0, False, ((True, L, 0), []), None, None, None, None) for L in range(lo, lo + 100)]
                src = mml.pr(prog)
                cs.append(dict(req="run " + hx(src), src=src, show=src, sexp=mml.sexp(prog), key="gate%d-%d" % (g, lo), prog=prog))
        return cs
    def model(c, st, f):
        if st != "ok": return []
        return ["spec.c03 %s %s" % (hx(c["sexp"]), f["bin"]), "coresem " + hx(c["sexp"])]
    def judge(c, impl, m):
        st, f = impl
        if st != "ok": return ("violation", "core program did not compile normally: " + st)
        if not m[0].startswith("ok holds=1"): return ("violation", "notes in the file are not the notes the text denotes: " + m[0][:400])
        # time pointers
        try:
            want_tp = m[1].split(" tp=")[1].split(" ")[0].split(",")
            got_tp = [x.split(" ")[0] for x in f["state"].replace("tp=", "").split(";")] if False else None
        except Exception:
            want_tp = None
        log = unhx(f.get("log", "~")).decode("utf-8", "replace")
        if "[ERROR]" in log: return ("violation", "a grammar-derived core program logs an error: " + log[:200])
        return None
    def nt(c, impl, m):
        if impl[0] != "ok" or len(m) < 2: return None
        notes = m[1].split("notes=")[1].split(" ")[0] if "notes=" in m[1] else ""
        return notes if notes.count(":") >= 18 else None
    s1 = Stream("core", cases if (cases and only == "core") else mk(), model, judge, nt, "core-language programs vs Spec.Core.sem")
    def rebuild(case, prog):
        src = mml.pr(prog)
        return dict(req="run " + hx(src), src=src, show=src, sexp=mml.sexp(prog), key=case.get("key", "") + "-shrunk")
    s1.ast_rebuild = rebuild
    s2 = execstream.exec_stream(tier, rng, P, only, cases)
    s3 = execstream.compile_stream(tier, rng, P, only, cases)
    s4 = execstream.print_stream(tier, rng, P, only, cases)
    # ---- numeric key signatures: KeyFlag=(a,b,c,d,e,f,g), one signed value per note name
    def mk_kf():
        cs = []
        for i in range(400 if big else 60):
            vals = [rng.choice([0, 0, 1, -1, 1, -1, 2]) for _ in range(rng.choice([7, 7, 7, 3, 5, 1]))]
            txt = ",".join(rng.choice(["%d", "%d", "+%d"]) % v if v >= 0 else str(v) for v in vals)
            src = "%s=(%s) a b c d e f g" % (rng.choice(["KeyFlag", "System.KeyFlag", "KeyFlag"]), txt)
            cs.append(dict(req="lexrun " + hx(src), src=src, show=src, vals=vals, key="kf%d" % i))
        return cs
    def kf_model(c, st, f): return ["keyflagspec " + ",".join(str(v) for v in c["vals"])]
    def kf_judge(c, impl, m):
        st, f = impl
        if st != "ok": return ("violation", "key signature program did not run normally: " + st)
        got = dict(p.split(":", 1) for p in f["song"].split(",") if ":" in p).get("kf")
        want = m[0].split("kf=")[1].strip()
        if got != want: return ("violation", "key flags after %s are %s, the signature denotes %s" % (c["src"].split(" ")[0], got, want))
        return None
    s5 = Stream("keyflag", cases if (cases and only == "keyflag") else mk_kf(), kf_model, kf_judge, lambda c, i, m: m[0] if i[0] == "ok" else None,
                "numeric key signatures vs the documented table", timeout_case=20.0)
    return [s for s in (s1, s2, s3, s4, s5) if only in (None, s.name)]
