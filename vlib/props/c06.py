"""C06 — Sub, tuplets and chords: streams."""
import re
from ..core import Stream, hx, unhx
from .. import mml, execstream

RULE = ("blocks: programs dominated by Sub{}, tuplets {..}L / Div{..}L and chords '..'L with arbitrary core-language contents (any nesting of the three in "
        "one another and in loops, all length forms incl. default), each followed by a sentinel note; judged by Spec.Core.sem on the decoded notes "
        "(start ticks, durations, sentinel position) and by the time pointer after the program (PRINT(TIME)-free: the harness reads the track state). "
        "non-trivial = distinct decoded note streams of programs containing >= 1 block with >= 2 elements")
ASSUMPTIONS = ["inside a tuplet every member of a chord is one counted element (the lexer counts note tokens; Spec.Core.countElem says the same); Sub is not placed inside tuplets by the generator",
               "a Sub body does not switch tracks (the pointer restored is the current track's)"]
TRUSTED = ["Spec.Core.sem / countElems are my reading of the block laws"]

def gen_blocky(rng, depth):
    def body(d, in_div=False, in_chord=False):
        out = []
        for _ in range(rng.randrange(1, 4)):
            x = rng.random()
            if d > 0 and x < 0.2 and not in_div: out.append(('sub', body(d - 1)))
            elif d > 0 and x < 0.45: out.append(('div', body(d - 1, True), mml.gen_len(rng), rng.choice(['{', 'D'])))
            elif d > 0 and x < 0.6:
                b = [mml.gen_note(rng, 0, in_div) for _ in range(rng.randrange(1, 4))]
                b = [c for c in b if c[0] == 'note'] or [('note', 'c', 0, False, None, None, None, None, None)]
                L = mml.gen_len(rng) if not in_div else None      # inside a tuplet: the tuplet's share; every member is one counted element
                if L is not None and (L[0][0] or L[0][1] is None): L = ((False, rng.choice([1, 2, 4, 8]), L[0][2]), L[1])
                out.append(('chord', b, L, rng.choice([None, None, 50, 100]), rng.choice([None, None, 77])))
            elif d > 0 and x < 0.7:
                n = rng.choice([1, 2, 3])
                brk = None if rng.random() < 0.5 else body(d - 1, in_div)
                if brk is not None and rng.random() < 0.35:
                    # a second `:` in the same loop: reached only on the passes that are not the last one, where it does nothing
                    brk.insert(rng.randrange(0, len(brk) + 1), ('raw', ':'))
                out.append(('loop', n, body(d - 1, in_div), brk))
            else: out += mml.gen_cmds(rng, 0, 1, in_div=in_div)
        return out
    prog = body(depth)
    prog.append(('noten', 100, None, None, None, None))    # sentinel
    return prog

def has_block(cs):
    for c in cs:
        if c[0] in ('sub', 'div', 'chord') and len(c[1]) >= 2: return True
        if c[0] == 'loop' and (has_block(c[2]) or has_block(c[3] or [])): return True
        if c[0] in ('sub', 'div') and has_block(c[1]): return True
    return False

def streams(tier, rng, P, only=None, cases=None):
    big = tier == "thorough"
    def mk():
        cs = []
        n = 10000 if big else 1200
        for i in range(n):
            prog = gen_blocky(rng, rng.choice([1, 2, 3, 4]))
            if i % 12 == 5:
                # a tuplet whose body holds a loop with two `:` (the second one is passed on every pass but the last, where it is not reached)
                el = lambda k: mml.gen_cmds(rng, 0, k, in_div=True)
                loop = ('loop', rng.choice([2, 3, 4]), el(rng.randrange(1, 3)), el(rng.randrange(0, 3)) + [('raw', ':')] + el(rng.randrange(1, 3)))
                prog = [('div', el(rng.randrange(0, 2)) + [loop] + el(rng.randrange(0, 3)), mml.gen_len(rng), '{'), ('noten', 100, None, None, None, None)]
            src = mml.pr(prog)
            if i % 3 == 2:
                # a loop played twice may be written without its count (`[c d]`): the same loop, also as an element of a tuplet
                src = re.sub(r"\[[ \t]*2[ \t]+(?=[a-gr'{\[nolvq<>])", "[", src)
            cs.append(dict(req="run " + hx(src), src=src, show=src, sexp=mml.sexp(prog), blk=has_block(prog), key="b%d" % i, prog=prog))
        for j, src_prog in enumerate([
            [('l', ((False, 4, 0), [])), ('div', [('note', 'c', 0, False, ((False, None, 0), [(False, None, 0)]), None, None, None, None), ('note', 'd', 0, False, None, None, None, None, None)], None, '{'), ('note', 'e', 0, False, None, None, None, None, None)],
            [('div', [('loop', 2, [('note', 'c', 0, False, None, None, None, None, None), ('note', 'd', 0, False, None, None, None, None, None)], None)], ((False, 4, 0), []), '{')],
        ]):
            src = mml.pr(src_prog)
            cs.append(dict(req="run " + hx(src), src=src, show=src, sexp=mml.sexp(src_prog), blk=True, key="fixed%d" % j, prog=src_prog))
        return cs
    def model(c, st, f):
        if st != "ok": return []
        return ["spec.c03 %s %s" % (hx(c["sexp"]), f["bin"]), "coresem " + hx(c["sexp"])]
    def judge(c, impl, m):
        st, f = impl
        if st != "ok": return ("violation", "block program did not compile normally: " + st)
        if not m[0].startswith("ok holds=1"): return ("violation", "block laws violated (notes differ from the semantics): " + m[0][:300])
        try:
            want = m[1].split(" tp=")[1].split(" ")[0].split(",")
            got = [seg.split(",")[0].replace("tp:", "") for seg in f["state"].split(";")]
            if got != want: return ("violation", "time pointers after the program are %s, the laws give %s" % (got, want))
        except Exception:
            pass
        return None
    def nt(c, impl, m):
        if impl[0] != "ok" or len(m) < 2 or not c["blk"]: return None
        return m[1].split("notes=")[1].split(" ")[0] if "notes=" in m[1] else None
    s1 = Stream("blocks", cases if (cases and only == "blocks") else mk(), model, judge, nt, "block-heavy programs vs Spec.Core.sem")
    def rebuild(case, prog):
        src = mml.pr(prog)
        return dict(req="run " + hx(src), src=src, show=src, sexp=mml.sexp(prog), blk=True, key=case.get("key", "") + "-shrunk")
    s1.ast_rebuild = rebuild
    # ---- chordtie: a tie mark `&` written after a member of a chord does not take the member out of the chord: the chord laws
    #      (same start, the chord's length and gate, pointer advanced by one length) hold as without the mark
    def mk_ct():
        cs = []
        for i in range(1500 if big else 200):
            members = [rng.choice("cdefgab") + rng.choice(["", "", "+", "4", "8", "-"]) for _ in range(rng.randrange(2, 5))]
            marked = [m + ("&" if rng.random() < 0.5 else "") for m in members]
            if not any(m.endswith("&") for m in marked): marked[0] += "&"
            tail = rng.choice(["", "2", "4", "8.", "2,50", "4,,90", "1,100,70"])
            wrap = rng.choice(["%s", "%s", "[2 %s r8]", "{%s d}4", "Sub{%s} r", "l8 q100 %s", "Slur(1) %s", "Slur(2,10) %s"])
            a = wrap % ("'" + " ".join(marked) + "'" + tail) + " n100"; b = wrap % ("'" + " ".join(members) + "'" + tail) + " n100"
            cs.append(dict(req="compile2 %s %s" % (hx(a), hx(b)), src=a, src2=b, show="%s   vs   %s" % (a, b), key="ct%d" % i))
        # an empty slot after the chord's length (`'ceg'4,,`, `'ce'2,50,`) means "not given": the members keep their own gate / velocity
        for i in range(400 if big else 60):
            members = " ".join(rng.choice("cdefgab") + rng.choice(["", "", ",,90", "8"]) for _ in range(rng.randrange(2, 5)))
            ln = rng.choice(["", "4", "2", "8."])
            t1, t2 = rng.choice([(",,", ""), (",50,", ",50"), (",,", ""), (", ,", ""), (",100,", ",100")])
            wrap = rng.choice(["%s", "v80 %s", "[2 %s r8]", "l8 q70 %s"])
            a = wrap % ("'" + members + "'" + ln + t1) + " n100"; b = wrap % ("'" + members + "'" + ln + t2) + " n100"
            cs.append(dict(req="compile2 %s %s" % (hx(a), hx(b)), src=a, src2=b, show="%s   vs   %s" % (a, b), key="ce%d" % i))
        # a chord written over several lines (line breaks, blank lines, a comment between its members) is the chord written on one line
        for i in range(300 if big else 50):
            members = [rng.choice("cdefgab") + rng.choice(["", "", "8", "+", ",,90"]) for _ in range(rng.randrange(2, 5))]
            tail = rng.choice(["", "2", "4", "8.", "2,50", "4,,90"])
            gaps = [rng.choice([" ", "\n", "\n\n", " \n ", "\r\n", " /* x */\n"]) for _ in members[1:]]
            if all(g == " " for g in gaps): gaps[0] = "\n"
            multi = members[0] + "".join(g + m for g, m in zip(gaps, members[1:]))
            wrap = rng.choice(["%s", "%s", "[2 %s r8]", "{%s d}4", "Sub{%s} r", "l8 q100 %s"])
            a = wrap % ("'" + multi + "'" + tail) + " d n100"; b = wrap % ("'" + " ".join(members) + "'" + tail) + " d n100"
            cs.append(dict(req="compile2 %s %s" % (hx(a), hx(b)), src=a, src2=b, show="%r   vs   %r" % (a, b), key="cl%d" % i))
        return cs
    def ct_judge(c, impl, m):
        st, f = impl
        if st != "ok": return ("violation", "chord program did not compile normally: " + st)
        if f["bin1"] != f["bin2"]: return ("violation", "%s changed the chord: %s vs %s" % ("an empty argument slot" if c["key"].startswith("ce") else ("a line break inside a chord" if c["key"].startswith("cl") else "a tie mark inside a chord"), c["src"][:100], c["src2"][:100]))
        return None
    # ---- octave-once marks (`"` one octave down, `` ` `` one octave up, for the next note only) inside Sub / tuplet / chord blocks: the block
    #      ends at its own closing brace / quote whatever stands inside, and the marked note equals `o4 note o5` / `o6 note o5`
    def mk_q():
        cs = []
        for i in range(1500 if big else 250):
            notes = [rng.choice("cdefgab") + rng.choice(["", "", "8", "4"]) for _ in range(rng.randrange(1, 5))]
            marks = [rng.choice(["", "", '"', "`"]) for _ in notes]
            if not any(marks): marks[rng.randrange(len(marks))] = '"'
            a_in = " ".join(m + n for m, n in zip(marks, notes))
            b_in = " ".join(("o4 %s o5" % n) if m == '"' else (("o6 %s o5" % n) if m == "`" else n) for m, n in zip(marks, notes))
            lead = rng.choice(["", " ", "c "])
            wrap = rng.choice(["Sub{%s} d", "{%s}4 f", "[2 Sub{ {%s}2 } a ]", "Sub{ c {%s}4 } d e", "{c {%s} d}2 e", "Div{%s}4 g", "S{%s} r d"])
            a = "o5 l4 " + (wrap % (lead + a_in)) + " n100"; b = "o5 l4 " + (wrap % (lead + b_in)) + " n100"
            cs.append(dict(req="compile2 %s %s" % (hx(a), hx(b)), src=a, src2=b, show="%s   vs   %s" % (a, b), key="q%d" % i))
        return cs
    def q_judge(c, impl, m):
        st, f = impl
        if st != "ok": return ("violation", "block program did not compile normally: " + st)
        if f["bin1"] != f["bin2"]: return ("violation", "an octave-once mark inside a block changes more than its note: %r vs %r" % (c["src"][:120], c["src2"][:120]))
        return None
    # ---- rhythm mode: `Sub` / `Div` / tuplet / loop blocks written inside `Rhythm{…}` (with or without blanks between the keyword and its brace)
    #      are the same blocks over the drum notes the letters stand for
    DRUM = {"b": 36, "s": 38, "h": 42, "m": 46}
    def mk_r():
        cs = []
        def body(d):
            ra, pa = [], []
            for _ in range(rng.randrange(1, 5)):
                x = rng.random()
                if d > 0 and x < 0.3:
                    r_in, p_in = body(d - 1)
                    kw = rng.choice(["Sub", "Sub", "SUB", "S"]); gap = rng.choice(["", "", " ", "  ", "\t"]) if kw != "S" else ""
                    ra.append(kw + gap + "{" + r_in + "}"); pa.append("Sub{" + p_in + "}")
                elif d > 0 and x < 0.45:
                    r_in, p_in = body(d - 1); ln = rng.choice(["4", "2", ""])
                    ra.append("{" + r_in + "}" + ln); pa.append("{" + p_in + "}" + ln)
                elif d > 0 and x < 0.55:
                    r_in, p_in = body(d - 1)
                    ra.append("[2 " + r_in + "]"); pa.append("[2 " + p_in + "]")
                elif x < 0.65: ra.append("r"); pa.append("r")
                else:
                    ch = rng.choice("bshm"); ln = rng.choice(["", "", "8", "4", "2"])
                    ra.append(ch + ln); pa.append("n%d,%s" % (DRUM[ch], ln))
            return " ".join(ra), " ".join(pa)
        for i in range(1200 if big else 200):
            r_in, p_in = body(2)
            ln = rng.choice(["l4", "l8", "l4"])
            a = "Rhythm{ %s %s } n100" % (ln, r_in); b = "%s %s n100" % (ln, p_in)
            cs.append(dict(req="compile2 %s %s" % (hx(a), hx(b)), src=a, src2=b, show="%s   vs   %s" % (a, b), key="r%d" % i))
        return cs
    def r_judge(c, impl, m):
        st, f = impl
        if st != "ok": return ("violation", "rhythm program did not compile normally: " + st)
        if f["bin1"] != f["bin2"]: return ("violation", "a block inside Rhythm{} is not the block over the drum notes: %r vs %r" % (c["src"][:120], c["src2"][:120]))
        return None
    s5 = Stream("rhythmblocks", cases if (cases and only == "rhythmblocks") else mk_r(), lambda c, st, f: [], r_judge, lambda c, i, m: i[1].get("bin1") if i[0] == "ok" else None,
                "Sub / tuplet / loop blocks inside Rhythm{} vs the same blocks over n-notes")
    # ---- commands that write something but do not move the pointer (tempo ramps, controller ramps, text) inside Sub / tuplet / loop
    #      blocks: the notes stand where they stand without those commands
    from ..smfpy import smf_events
    def mk_x():
        cs = []
        extras = ["TempoChange(120,140,!32)", "TempoChange(100,90,!64)", "TempoChange(120,60,!4)", "TempoChange(80,100)", "Tempo(90)", "y7.onTime(0,127,!8)", "y11.T(127,0,!32)",
                  "p.onTime(0,64,!16)", "TrackName={\"x\"};", "y7,100;", "@5;", "TempoChange(120,121,!1)", "TempoChange(120,140,%1)", "TempoChange(60,61,%5)"]
        for i in range(600 if big else 120):
            notes = [rng.choice("cdefgab") + rng.choice(["", "", "8", "16"]) for _ in range(rng.randrange(2, 6))]
            k = rng.randrange(0, len(notes) + 1); ex = rng.choice(extras)
            with_ = " ".join(notes[:k] + [ex] + notes[k:]); without = " ".join(notes)
            wrap = rng.choice(["Sub{%s} f", "{%s}4 f", "{%s}2 f g", "[2 %s] f", "Sub{ {%s}4 } f", "'c e' Sub{%s} g", "{c {%s}8 d}2 f"])
            a = "l4 " + (wrap % with_) + " n100"; b = "l4 " + (wrap % without) + " n100"
            cs.append(dict(req="compile2 %s %s" % (hx(a), hx(b)), src=a, src2=b, show="%s   vs   %s" % (a, b), key="x%d" % i))
        # chord members played by a function, a macro or a string variable called between the quotes: they are members like written-out notes
        calls = [("Function TOP(){ e g }", "TOP()", "e g"), ("#M={e g}", "#M", "e g"), ("STR SQ={g b}", "SQ", "g b"), ("Function TP(INT K=1){ [(K) e] g }", "TP(2)", "e e g"),
                 ("Function TQ(){ e TOP2() } Function TOP2(){ g }", "TQ()", "e g")]
        for i in range(200 if big else 40):
            pre, call, inl = rng.choice(calls)
            wrap = rng.choice(["'c %s'2 d", "'%s'4 c", "Sub{ 'd %s'8 } f", "[2 'c %s'] e", "'%s c'1 d"])
            a = pre + " l4 " + (wrap % call) + " n100"; b = pre + " l4 " + (wrap % inl) + " n100"
            cs.append(dict(req="compile2 %s %s" % (hx(a), hx(b)), src=a, src2=b, show="%s   vs   %s" % (a, b), key="xc%d" % i))
        # an element of a tuplet whose own length is joined with '+' is one element: the others keep their share
        for j, (a, b) in enumerate([("{{cd}8+8 e}2 f", "{{cd}4 e}2 f"), ("{c r16+16 e}4. g", "{c r8 e}4. g"), ("{c d8+8 e}1 g", "{c d4 e}1 g"), ("l8 {e {cd}16+16+8 g a}1 b", "l8 {e {cd}4 g a}1 b"),
                                    ("{c n62,8+8 e}1 g", "{c n62,4 e}1 g")]):
            cs.append(dict(req="compile2 %s %s" % (hx("l4 " + a + " n100"), hx("l4 " + b + " n100")), src="l4 " + a + " n100", src2="l4 " + b + " n100", show="%s   vs   %s" % (a, b), key="xl%d" % j))
        return cs
    def x_judge(c, impl, m):
        st, f = impl
        if st != "ok": return ("violation", "block program did not compile normally: " + st)
        ta, tb_ = smf_events(f["bin1"]), smf_events(f["bin2"])
        if ta is None or tb_ is None or len(ta) != len(tb_): return ("violation", "different numbers of tracks")
        for a, b in zip(ta, tb_):
            na = [(e[0], e[2]) for e in a if e[1] in ("on", "off")]; nb = [(e[0], e[2]) for e in b if e[1] in ("on", "off")]
            if na != nb:
                if c["key"].startswith("xl"): return ("violation", "a length joined with '+' changed the shares of a tuplet: %s vs %s" % (na[:6], nb[:6]))
                if c["key"].startswith("xc"): return ("violation", "chord members played through a call differ from the written-out chord: %s vs %s" % (na[:6], nb[:6]))
                return ("violation", "a command that does not move the pointer moved the notes of a block: %s vs %s" % (na[:6], nb[:6]))
        return None
    s6 = Stream("blockextras", cases if (cases and only == "blockextras") else mk_x(), lambda c, st, f: [], x_judge, lambda c, i, m: i[1].get("bin1") if i[0] == "ok" else None,
                "tempo / controller ramps and texts inside blocks do not move the notes")
    s4 = Stream("oncemarks", cases if (cases and only == "oncemarks") else mk_q(), lambda c, st, f: [], q_judge, lambda c, i, m: i[1].get("bin1") if i[0] == "ok" else None,
                "octave-once marks inside blocks vs explicit octave commands")
    s3 = Stream("chordtie", cases if (cases and only == "chordtie") else mk_ct(), lambda c, st, f: [], ct_judge,
                lambda c, i, m: i[1].get("bin1") if i[0] == "ok" else None, "chord with tie marks vs the same chord without", timeout_case=20.0)
    sx = execstream.exec_stream(tier, rng, P, only, cases)
    return [s for s in (s1, s3, s4, s5, s6, sx) if only in (None, s.name)]
