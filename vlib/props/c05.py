"""C05 — loop brackets mean repetition: streams."""
import re
from ..core import Stream, hx, unhx
from .. import mml

RULE = ("unroll: loop-heavy programs (nesting <= 5, counts 1..5, with/without ':', loops inside Sub, tuplets, chords-free bodies, macro bodies, mixed with "
        "state-changing commands; loops with omitted count whose body starts with a macro / variable / function call) and the generator-side textual unrolling of the same AST are both compiled by the real pipeline: the bytes must be "
        "identical (the property's own statement); sem: the same programs against Spec.Core.sem (decoded notes); omitted count = 2. "
        "non-trivial = distinct outputs of programs whose execution takes >= 1 backward jump (a loop with count >= 2)")
ASSUMPTIONS = ["loop counts are literals, parenthesised literals or variables with values 1..5", "a macro call inside a tuplet is outside the checked domain (known limitation D#37b, see DESIGN)"]
TRUSTED = ["the generator's textual unrolling mirrors Props.C05.unrollL (same definition, Python)"]

def unroll_cmds(cs):
    out = []
    for c in cs:
        k = c[0]
        if k == 'loop':
            n, a, b = c[1], unroll_cmds(c[2]), unroll_cmds(c[3] or [])
            for i in range(n):
                out += a
                if i < n - 1: out += b
        elif k == 'sub': out.append(('sub', unroll_cmds(c[1])))
        elif k == 'div': out.append(('div', unroll_cmds(c[1])) + tuple(c[2:]))
        elif k == 'chord': out.append(('chord', unroll_cmds(c[1])) + tuple(c[2:]))
        else: out.append(c)
    return out

def has_jump(cs):
    for c in cs:
        if c[0] == 'loop' and (c[1] >= 2 or has_jump(c[2]) or has_jump(c[3] or [])): return True
        if c[0] in ('sub', 'div', 'chord') and has_jump(c[1]): return True
    return False

def loop_in_div(cs, inside=False):
    for c in cs:
        if c[0] == 'loop' and (inside or loop_in_div(c[2], inside) or loop_in_div(c[3] or [], inside)): return True
        if c[0] == 'div' and loop_in_div(c[1], True): return True
        if c[0] in ('sub', 'chord') and loop_in_div(c[1], inside): return True
    return False

def gen_loopy(rng, depth):
    """a command list that is guaranteed to contain loops"""
    def body(d, in_div=False):
        out = []
        for _ in range(rng.randrange(1, 4)):
            x = rng.random()
            if d > 0 and x < 0.45:
                n = rng.choice([1, 2, 2, 3, 4, 5])
                a = body(d - 1, in_div)
                b = None if rng.random() < 0.5 else body(d - 1, in_div)
                out.append(('loop', n, a, b))
            elif d > 0 and x < 0.55 and not in_div: out.append(('sub', body(d - 1)))
            elif d > 0 and x < 0.65 and not in_div: out.append(('div', body(d - 1, True), mml.gen_len(rng), '{'))
            else: out += mml.gen_cmds(rng, 0, 1, in_div=in_div)
        return out
    return body(depth)

def streams(tier, rng, P, only=None, cases=None):
    big = tier == "thorough"
    def mk():
        cs = []
        n = 8000 if big else 1000
        for i in range(n):
            prog = gen_loopy(rng, rng.choice([1, 2, 3, 4, 5]))
            src = mml.pr(prog)
            if rng.random() < 0.3: src = re.sub(r"\[2 (?![(=0-9])", "[ ", src)    # omitted count = 2 ("[ (" would read the parenthesis as the count)
            un = mml.pr(unroll_cmds(prog))
            decl = ""
            if rng.random() < 0.3 and not loop_in_div(prog):
                # (a tuplet counts its elements when the text is read, so a loop inside one needs a literal count)
                # loop counts given by a variable or an expression instead of a literal: `[(N) …]`, `[=N …]`, `[(3) …]` (the count slot reads one value, not an expression)
                names = iter(["CntA", "CntB", "CntC", "CntD", "CntE", "CntF", "CntG", "CntH"])
                def repl(mo):
                    nonlocal decl
                    k = int(mo.group(1)); r = rng.random()
                    if r < 0.4: return mo.group(0)
                    if r < 0.55: return rng.choice(["[(%d) ", "[(%d) ", "[(%d ) ", "[( %d ) ", "[( %d) "]) % k      # blanks inside the parentheses of a count
                    nm = next(names, None)
                    if nm is None: return mo.group(0)
                    decl += "Int %s=%d; " % (nm, k)
                    return (rng.choice(["[(%s) ", "[(%s ) ", "[( %s ) "]) if r < 0.85 else "[=%s ") % nm
                src = re.sub(r"\[(\d+) ", repl, src)
            if rng.random() < 0.12:
                # the count (and the brackets / the colon) written in full-width characters
                fw = lambda t: "".join(chr(ord(ch) + 0xFEE0) if "!" <= ch <= "~" else ch for ch in t)
                src = re.sub(r"\[(\d+) ", lambda mo: rng.choice(["[", "\uff3b"]) + fw(mo.group(1)) + " ", src)
                if rng.random() < 0.5: src = src.replace(" : ", " \uff1a ")
            wrap = rng.random()
            if wrap < 0.15:       # inside a macro body
                src, un = "#A={%s} #A r #A" % src, "#A={%s} #A r #A" % un
            elif wrap < 0.25:
                src, un = "STR Mcr={%s} Mcr" % src, "STR Mcr={%s} Mcr" % un
            src = decl + src
            cs.append(dict(req="compile2 %s %s" % (hx(src), hx(un)), src=src, un=un, show=src, jump=has_jump(prog), sexp=mml.sexp(prog) if wrap >= 0.25 else None, key="u%d" % i, prog=(prog if wrap >= 0.25 and not decl else None)))
        # loops with the count omitted whose body starts with a macro / string-variable / function call
        for j in range(40 if big else 12):
            kind = rng.choice(["var", "hash", "str", "func"]); body = rng.choice(["c e", "o5c", "d8 r8", "v100 g"]); tail = rng.choice(["d", "d e", "r"])
            brk = rng.choice(["", "", " : e"])
            if kind == "var": d, call = "XA={%s} " % body, "XA"
            elif kind == "hash": d, call = "#M={%s} " % body, "#M"
            elif kind == "str": d, call = "STR SV={%s}; " % body, "SV"
            else: d, call = "FUNCTION FA(){ %s } " % body, "FA()"
            sp = rng.choice(["", " ", "\t"])
            a = "%sl8 [%s%s %s%s] g" % (d, sp, call, tail, brk)
            b = "%sl8 %s %s%s %s %s g" % (d, call, tail, brk.replace(" :", ""), call, tail)
            cs.append(dict(req="compile2 %s %s" % (hx(a), hx(b)), src=a, un=b, show=a, jump=True, sexp=None, key="mac%d" % j))
        # a macro / string variable whose own text contains ':' or brackets, called inside a loop: the ':' belongs to the text of the macro
        # (where no loop is open), not to the loop around the call
        for j in range(60 if big else 16):
            kind = rng.choice(["hash", "str", "var"]); body = rng.choice(["c : d", "c:d", "c : d e", ": c", "c :", "c ] d", "c : [2 d]", "[2 c : d] :"]); tail = rng.choice(["e", "e f", "r", ": e", ""])
            k = rng.choice([2, 3, 4])
            if kind == "hash": d, call = "#M={%s} " % body, "#M"
            elif kind == "str": d, call = "STR SV={%s}; " % body, "SV"
            else: d, call = "XA={%s} " % body, "XA"
            a = "%sl8 [%d %s %s] g" % (d, k, call, tail)
            t2 = tail.replace(": e", "e")
            parts = [("%s %s" % (call, t2)) for _ in range(k - 1)] + [call if tail.startswith(":") else "%s %s" % (call, tail)]
            b = "%sl8 %s g" % (d, " ".join(parts))
            cs.append(dict(req="compile2 %s %s" % (hx(a), hx(b)), src=a, un=b, show=a, jump=True, sexp=None, key="mcolon%d" % j))
        # a tie mark at the end of a pass (before `]` or `:`): the pending tie carries into the next pass / out of the loop exactly as in
        # the unrolled text
        for j in range(60 if big else 16):
            k = rng.choice([2, 3, 4]); nn = lambda: rng.choice("cdefgab") + rng.choice(["", "", "8", "4"])
            head = [nn() for _ in range(rng.randrange(0, 3))] + [nn() + "&"]
            tail = rng.choice(["e", "c d", "r", "n60"])
            if rng.random() < 0.5:
                a = "[%d %s]" % (k, " ".join(head)); b = " ".join(head * k)
            else:
                rest = [nn() for _ in range(rng.randrange(1, 3))]
                a = "[%d %s : %s]" % (k, " ".join(head), " ".join(rest)); b = " ".join((head + rest) * (k - 1) + head)
            wrap = rng.choice(["l4 %s " + tail, "l4 %s " + tail, "l8 Sub{%s " + tail + "} g", "Slur(1) l4 %s " + tail, "#A={%s} l4 #A " + tail])
            cs.append(dict(req="compile2 %s %s" % (hx(wrap % a), hx(wrap % b)), src=wrap % a, un=wrap % b, show=wrap % a, jump=True, sexp=None, key="tieend%d" % j))
        # a value list written in the `=` form (no parentheses) directly before the `:` of the loop: the colon is still the loop's
        for j in range(40 if big else 12):
            x = rng.choice(["v.onNote=110,70", "q.onCycle=80,90", "t.onNote=1,2,3", "v.onCycle=100,60", "o.onNote=4,5", "l.onNote=48,24", "v.N=90,80", "q.C=50,100",
                            "@(2)", "@(17)", "Voice(9)", "@(3,1)", "v(90)", "q(70)"])      # (… and commands whose argument is closed by its parenthesis)
            k = rng.choice([2, 3]); h = rng.choice(["c8", "c8 d8", "e"]); t = rng.choice(["d8", "g8 a8", "r8"]); tail = rng.choice(["e", "f g", "r"])
            wrapl = rng.choice(["%s", "%s", "Sub{%s} r", "Div{%s}2"])
            a = wrapl % ("[%d %s %s : %s ]" % (k, h, x, t)) + " " + tail
            b = wrapl % (" ".join(["%s %s %s" % (h, x, t)] * (k - 1) + ["%s %s" % (h, x)])) + " " + tail
            if "Div{" in wrapl: continue      # (a tuplet counts the elements of the written text: the unrolled text has another count)
            cs.append(dict(req="compile2 %s %s" % (hx("l4 " + a), hx("l4 " + b)), src="l4 " + a, un="l4 " + b, show="l4 " + a, jump=True, sexp=None, key="eqlist%d" % j))
        for j, (a, b) in enumerate([("#A={c} [2 #A #A={d}] e", "#A={c} #A #A={d} #A #A={d} e"), ("#A={c:d} [3 #A e] g", "#A={c:d} #A e #A e #A e g")]):
            cs.append(dict(req="compile2 %s %s" % (hx(a), hx(b)), src=a, un=b, show=a, jump=True, sexp=None, key="mfix%d" % j))
        for j, (a, b) in enumerate([("[1 c : [2 d] e] f", "c f"), ("[c d]", "c d c d"), ("[3 c : d]", "c d c d c"), ("{[2 c d]}4", "{c d c d}4"), ("Sub{[2 c : >]} e", "Sub{c > c} e"),
                                    # a loop with two ':' in one body (the last pass ends at the first), also inside tuplets
                                    ("[3 c : d : e] f", "c d e c d e c f"), ("{[3 c : d : e]}4 f", "{c d e c d e c}4 f"), ("Sub{ {[2 c : d e : f]}2 } g", "Sub{ {c d e f c}2 } g"),
                                    ("[2 {[3 c : d : e]}4 : f] g", "{c d e c d e c}4 f {c d e c d e c}4 g"), ("l8 {[4 c : d : e : f]}1 g", "l8 {c d e f c d e f c d e f c}1 g")]):
            cs.append(dict(req="compile2 %s %s" % (hx(a), hx(b)), src=a, un=b, show=a, jump=True, sexp=None, key="fixed%d" % j))
        return cs
    def model(c, st, f):
        if st != "ok" or not c.get("sexp"): return []
        return ["spec.c03 %s %s" % (hx(c["sexp"]), f["bin1"])]
    def judge(c, impl, m):
        st, f = impl
        if st != "ok": return ("violation", "loop program did not compile normally: " + st)
        if f["bin1"] != f["bin2"]:
            return ("violation", "a loop does not produce the output of its unrolled text: %r vs %r" % (c["src"][:150], c["un"][:150]))
        if m and not m[0].startswith("ok holds=1"): return ("violation", "loop program's notes differ from the semantics: " + m[0][:300])
        return None
    def nt(c, impl, m): return impl[1].get("bin1") if impl[0] == "ok" and c["jump"] else None
    s1 = Stream("unroll", cases if (cases and only == "unroll") else mk(), model, judge, nt, "loop program vs its unrolled text", timeout_case=20.0)
    def rebuild(case, prog):
        src = mml.pr(prog); un = mml.pr(unroll_cmds(prog))
        return dict(req="compile2 %s %s" % (hx(src), hx(un)), src=src, un=un, show=src + "   vs   " + un, jump=True, sexp=mml.sexp(prog), key=case.get("key", "") + "-shrunk")
    s1.ast_rebuild = rebuild
    return [s for s in (s1,) if only in (None, s.name)]
