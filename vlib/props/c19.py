"""C19 — errors carry the right line, never derail the music, and the log stays bounded: streams."""
import re
from ..core import Stream, hx, unhx
from .. import mml

RULE = ("errors: a valid multi-line program and the same program with offending characters / unknown bare words inserted at top-level command "
        "boundaries on arbitrary lines (also leading blank lines, after notes followed by several line breaks): the bytes must be identical and the log "
        "must hold exactly one [ERROR] entry per insertion, naming the offending text and its 0-based line, in order; print: PRINT entries carry the "
        "line of their statement; bound: 0..300 PRINTs and 0..120 offending characters — never more than 100 entries (30 lexer errors + 1 notice), "
        "text <= 4096+3 characters; end: everything after End/END is ignored; stdout: with debug off the library prints nothing (captured process "
        "stdout per case). non-trivial = distinct logs with >= 1 entry")
ASSUMPTIONS = ["insertions are separated from their neighbours by blanks and are not placed directly after a command whose argument they would continue "
               "(e.g. '^' or '.' after a note), which is the meaning of 'at a top-level command boundary'"]
TRUSTED = ["the expected message prefixes are taken from the English message catalogue: `Unknown Character: \"x\"` and `Syntax Error \"WORD\"`"]

BAD_CHARS = ["!", "β", "\\", "₩", "¿"]
BAD_WORDS = ["ZZZ", "Foo", "QQQ", "Xyzzy", "Endx", "ENDING", "End_1"]      # words that merely begin with End/END are unknown words like any other

def valid_lines(rng):
    lines = []
    for _ in range(rng.randrange(1, 7)):
        n = rng.randrange(0, 5)
        toks = []
        for _ in range(n):
            toks.append(rng.choice(["c", "d8", "e4.", "r", "l8", "o5", "v100", "q90", "[2 c d]", "n60,4", "'ceg'", "@3;", "y7,100;", "TR(2)", "Sub{c}", "{cde}4", ">", "<", "g2^8",
                                    "(", ")", "( d )", "(c) e"]))      # (the velocity steps `(` `)`: an unknown word in front of them takes nothing with it)
        lines.append(toks)
    return lines

def render(lines):
    return "\n".join(" ".join(l) for l in lines)

MULTI = ["/* a\nb */", "/* x */", "// rem\n", "[2 c\n d]", "Sub{ c\n d }", "{c\nd e}4", "'c\neg'", "[3 c :\n\n d]", "~{ぱ}={c\nd}", "~{ぴ} = {\nr\n\n}", "PRINT(\n1)" ]      # (word definitions of the Japanese notation may span lines too)

def gen_flat(rng):
    """flat token list with explicit separators; tokens may span lines; a '^' continuation directly follows a note across line breaks.
       returns [(token, separator-after, may-insert-after)]"""
    toks = []
    for _ in range(rng.randrange(1, 14)):
        k = rng.random()
        if k < 0.2:
            cont = rng.choice(["^", "^4", "^8.", "^16"])
            sep = rng.choice(["\n", "\n\n", " \n ", "\n  ", " ", "\n/* k */", "\n// k\n"])
            toks.append((rng.choice(["c4", "d8", "e", "r4", "g2."]), sep, False)); toks.append((cont, None, True))
        elif k < 0.35:
            t = rng.choice(MULTI)
            if t.startswith("PRINT"): t = rng.choice(MULTI[:-1])
            toks.append((t, None, True))
        else:
            toks.append((rng.choice(["c", "d8", "e4.", "r", "l8", "o5", "v100", "q90", "[2 c d]", "n60,4", "'ceg'", "@3;", "y7,100;", "TR(2)", "Sub{c}", "{cde}4", ">", "<", "g2^8"]), None, True))
    out = []
    for t, sep, ins in toks:
        if sep is None: sep = rng.choice([" ", " ", " ", "\n", "\n", "\n\n", " \n"])
        out.append((t, sep, ins))
    return out

def gen_err_case(rng):
    if rng.random() < 0.5: return gen_err_case_lines(rng)
    toks = gen_flat(rng)
    lead = "\n" * rng.choice([0, 0, 1, 3])
    clean = lead; dirty = lead; exp = []
    slots = [i for i, (t, sep, ins) in enumerate(toks) if ins]
    chosen = {}
    for _ in range(rng.randrange(1, 5)):
        if slots:
            chosen.setdefault(rng.choice(slots), []).append(rng.choice(BAD_CHARS) if rng.random() < 0.6 else rng.choice(BAD_WORDS))
    for i, (t, sep, ins) in enumerate(toks):
        if t.startswith("//"): sep = ""          # the line comment already ends its line
        clean += t + sep; dirty += t + sep
        for bad in chosen.get(i, []):
            if not dirty.endswith((" ", "\n")): dirty += " "; clean += " "
            exp.append((dirty.count("\n"), bad)); dirty += bad + " "
    return clean, dirty, exp

def gen_err_case_lines(rng):
    lines = valid_lines(rng)
    if rng.random() < 0.3: lines = [[] for _ in range(rng.randrange(1, 4))] + lines     # leading blank lines
    if rng.random() < 0.3:
        k = rng.randrange(0, len(lines)); lines[k] = lines[k] + ["c"]; lines.insert(k + 1, []); lines.insert(k + 1, [])   # note then blank lines
    dirty = [list(l) for l in lines]
    ins = []
    for _ in range(rng.randrange(1, 5)):
        li = rng.randrange(0, len(dirty))
        pos = rng.randrange(0, len(dirty[li]) + 1)
        bad = rng.choice(BAD_CHARS) if rng.random() < 0.6 else rng.choice(BAD_WORDS)
        dirty[li].insert(pos, "\0" + bad)
    # expected entries in source order
    exp = []
    for li, l in enumerate(dirty):
        for t in l:
            if t.startswith("\0"): exp.append((li, t[1:]))
    dirty = [[t[1:] if t.startswith("\0") else t for t in l] for l in dirty]
    return render(lines), render(dirty), exp

def entries(loghex):
    t = unhx(loghex).decode("utf-8", "replace")
    return [x for x in t.split("\n") if x != ""] if t else []

def streams(tier, rng, P, only=None, cases=None):
    big = tier == "thorough"
    def mk_err():
        cs = []
        n = 6000 if big else 800
        for i in range(n):
            clean, dirty, exp = gen_err_case(rng)
            if i % 6 == 5 and not re.search(r"\n[\s|]*(//[^\n]*\n|/\*.*?\*/)*[\s|]*\^", clean, re.S):      # (a length continued on the next line with `^` needs a bare line feed)
                # the same text with Windows line ends: a line is still counted once
                clean = clean.replace("\n", "\r\n"); dirty = dirty.replace("\n", "\r\n")
            cs.append(dict(req="compile2 %s %s" % (hx(dirty), hx(clean)), src=dirty, show=dirty[:300], exp=exp, key="e%d" % i))
        # a comment that spans lines inside an expression, in front of an operator that binds looser than the one before it
        for j, (d, c_, exp) in enumerate([("Tempo=2*30 /* a\nb */ +1 z c", "Tempo=2*30 /* a\nb */ +1 c", [(1, "z")]), ("INT A=2*3 /* a\n\nb */ - 1; ZZZ d", "INT A=2*3 /* a\n\nb */ - 1; d", [(2, "ZZZ")]),
                                          ("y7,1+2*3 /* a\nb */ +4; z", "y7,1+2*3 /* a\nb */ +4;", [(1, "z")]), ("INT B=(1+2*3 /* a\nb */ >2); z c", "INT B=(1+2*3 /* a\nb */ >2); c", [(1, "z")])]):
            cs.append(dict(req="compile2 %s %s" % (hx(d), hx(c_)), src=d, show=repr(d), exp=exp, key="cmt%d" % j))
        # offending text inside a macro / string variable: the entry carries the line where the text is used, with or without arguments
        for j, (d, c_, exp) in enumerate([("\n\n#A={c ! d}\n#A", "\n\n#A={c d}\n#A", [(3, "!")]), ("STR Mcr={c ! d}\n\nr\nMcr e", "STR Mcr={c d}\n\nr\nMcr e", [(3, "!")]),
                                          ("#A={c #?1 ! d}\n\n#A({e})", "#A={c #?1 d}\n\n#A({e})", [(2, "!")]), ("\n#B={ZZZ c}\n\n\nr #B r\n#B", "\n#B={c}\n\n\nr #B r\n#B", [(4, "ZZZ"), (5, "ZZZ")])]):
            cs.append(dict(req="compile2 %s %s" % (hx(d), hx(c_)), src=d, show=repr(d), exp=exp, key="mac%d" % j))
        for j, (d, c_, exp) in enumerate([("#M={ c #?1 ! d }\nFunction F(A){ c }\ne\nF(1) #M({e})", "#M={ c #?1 d }\nFunction F(A){ c }\ne\nF(1) #M({e})", [(3, "!")]),
                                          ("#M={ o#?1 ZZZ c }\n\n/* a\nb */ #M(5)", "#M={ o#?1 c }\n\n/* a\nb */ #M(5)", [(3, "ZZZ")]),
                                          ("#M={ #?1 ! }\nFOR(INT I=0;I<2;I++){\n c\n} #M({d})", "#M={ #?1 }\nFOR(INT I=0;I<2;I++){\n c\n} #M({d})", [(3, "!")]),
                                          ("#M={ #?1 ! }\nc4\n^8 #M({d})", "#M={ #?1 }\nc4\n^8 #M({d})", [(2, "!")])]):
            cs.append(dict(req="compile2 %s %s" % (hx(d), hx(c_)), src=d, show=repr(d), exp=exp, key="macarg%d" % j))
        # a bare word spelled like a parameter or a local variable of a function defined earlier is unknown outside that function
        for j, (d, c_, exp) in enumerate([("FUNCTION Beat(Len){ l(Len) c d }\nBeat(8)\ne Len f g", "FUNCTION Beat(Len){ l(Len) c d }\nBeat(8)\ne f g", [(2, "Len")]),
                                          ("Function Fq(Int Aq, Str Bq){ c }\n\nFq(1,{a}) Aq d\nBq e", "Function Fq(Int Aq, Str Bq){ c }\n\nFq(1,{a}) d\n e", [(2, "Aq"), (3, "Bq")]),
                                          ("FUNCTION Gx(Pq=3){ INT Loc=Pq c }\nGx()\n\nLoc d Pq", "FUNCTION Gx(Pq=3){ INT Loc=Pq c }\nGx()\n\n d ", [(3, "Loc"), (3, "Pq")])]):
            cs.append(dict(req="compile2 %s %s" % (hx(d), hx(c_)), src=d, show=repr(d), exp=exp, key="param%d" % j))
        for j, (d, c_, exp) in enumerate([("c !d e", "c d e", [(0, "!")]), ("\n\nc\n!", "\n\nc\n", [(3, "!")]), ("c\n\n\n!", "c\n\n\n", [(3, "!")]), ("c\n\n\nZZZ d", "c\n\n\n d", [(3, "ZZZ")])]):
            cs.append(dict(req="compile2 %s %s" % (hx(d), hx(c_)), src=d, show=repr(d), exp=exp, key="fixed%d" % j))
        return cs
    def err_judge(c, impl, m):
        st, f = impl
        if st != "ok": return ("violation", "program with offending text did not compile normally: " + st)
        if f["bin1"] != f["bin2"]: return ("violation", "offending characters changed the music (bytes differ from the clean program)")
        got = entries(f["log1"])
        if entries(f["log2"]): return ("mismatch", "the clean program logs something: " + str(entries(f["log2"]))[:200])
        exp = c["exp"]
        if len(exp) <= 30:
            if len(got) != len(exp): return ("violation", "%d log entries for %d insertions: %s" % (len(got), len(exp), got[:4]))
            for g, (line, bad) in zip(got, exp):
                pre1 = '[ERROR](%d) Unknown Character: "%s"' % (line, bad); pre2 = '[ERROR](%d) Syntax Error "%s"' % (line, bad)
                if not (g.startswith(pre1) or g.startswith(pre2)):
                    return ("violation", "entry %r does not name %r on line %d" % (g[:80], bad, line))
        return None
    s1 = Stream("errors", cases if (cases and only == "errors") else mk_err(), lambda c, st, f: [], err_judge,
                lambda c, i, m: i[1].get("log1") if i[0] == "ok" else None, "valid program + inserted offending text", timeout_case=20.0, capture_stdout=True)
    # ---- PRINT lines, bounds, End, stdout
    def mk_misc():
        cs = []
        n = 3000 if big else 400
        for i in range(n):
            k = rng.random()
            if k < 0.15:
                toks = gen_flat(rng); src = ""; exp = []
                for t, sep, ins in toks:
                    if t.startswith("//"): sep = ""
                    src += t + sep
                    if ins and rng.random() < 0.4:
                        if not src.endswith((" ", "\n")): src += " "
                        v = rng.randint(0, 99); exp.append("[PRINT](%d) %d" % (src.count("\n"), v)); src += "PRINT(%d); " % v
                cs.append(dict(req="run " + hx(src), src=src, show=src[:300], kind="print", exp=exp, key="m%d" % i))
            elif k < 0.18:
                # a PRINT whose argument list runs over several lines carries the line of the statement
                lines = valid_lines(rng); exp = []
                for li in range(len(lines)):
                    if rng.random() < 0.6:
                        v = rng.randint(0, 99)
                        form = rng.choice(["PRINT(/* a\nb */ %d);", "PRINT(%d /* a\nb\nc */);", "PRINT({%d\nzz});", "PRINT(/* a\n\nb */ %d /* c\nd */);"]) % v
                        lines[li].append(form); exp.append((li, v))
                src = ""; out = []; ln = 0
                for li, l in enumerate(lines):
                    for t in l:
                        if t.startswith("PRINT("): out.append("[PRINT](%d) %d" % (ln, [e for e in exp if e[0] == li][-1][1]))
                        src += t + " "; ln += t.count("\n")
                    src += "\n"; ln += 1
                cs.append(dict(req="run " + hx(src), src=src, show=src[:300], kind="print", exp=out, key="m%d" % i))
            elif k < 0.22:
                # statements that run again after control has been on later lines: loops and FOR bodies spanning lines, a function defined below its call
                lead = rng.choice([0, 0, 1, 2]); form = rng.choice(["loop", "for", "func", "if", "else", "sub", "div", "while"]); reps = rng.randint(1, 3)
                if form in ("if", "else", "sub", "div"): reps = 1      # blocks that run once but are read by a nested pass of the lexer
                body = []; nl = rng.randint(1, 3)
                for li in range(nl + 1):
                    toks = [rng.choice(["c", "d8", "r", "v100"]) for _ in range(rng.randrange(0, 3))]
                    if rng.random() < 0.7 or li == 0: toks.insert(rng.randrange(0, len(toks) + 1), "PRINT(%d);" % (10 * li + rng.randint(0, 9)))
                    body.append(toks)
                if form == "loop": body[0].insert(0, "[%d" % reps); body[-1].append("]")
                elif form == "for": body[0].insert(0, "FOR(INT I=0;I<%d;I++){" % reps); body[-1].append("}")
                elif form == "while": body[0].insert(0, "INT WW=0; WHILE(WW<%d){ WW=WW+1;" % reps); body[-1].append("}")
                elif form == "if": body[0].insert(0, rng.choice(["IF(1){", "IF(2>1){", "IF(1) {"])); body[-1].append("}")
                elif form == "else":
                    if rng.random() < 0.5: body[0].insert(0, rng.choice(["IF(0){ c } ELSE {", "IF(0){ c }ELSE{"])); body[-1].append("}")
                    else:
                        # ELSE on a line of its own after the `}` of the THEN block
                        body = [["IF(0){", "c"], ["}"]] + [[] for _ in range(rng.choice([0, 0, 1]))] + [["ELSE {"] + body[0]] + body[1:] + [["}"]]
                elif form == "sub": body[0].insert(0, rng.choice(["Sub{", "S{", "Sub {"])); body[-1].append("}")
                elif form == "div": body[0].insert(0, "{"); body[-1].append("}2")
                else: body = [["FA();"] * reps + ["PRINT(99);"], ["FUNCTION FA(){"]] + body[1:] + [["}"]]
                lines = [[] for _ in range(lead)] + body
                once = []
                for li, l in enumerate(lines):
                    for t in l:
                        if t.startswith("PRINT("): once.append((li, int(t[6:-2])))
                if form == "func": exp = ["[PRINT](%d) %d" % e for e in once[1:]] * reps + ["[PRINT](%d) %d" % once[0]]
                else: exp = ["[PRINT](%d) %d" % e for e in once] * reps
                src = render(lines)
                cs.append(dict(req="run " + hx(src), src=src, show=src[:300], kind="print", exp=exp, key="m%d" % i))
            elif k < 0.3:
                lines = valid_lines(rng); exp = []
                for li in range(len(lines)):
                    if rng.random() < 0.5:
                        v = rng.randint(0, 99); lines[li].insert(rng.randrange(0, len(lines[li]) + 1), "PRINT(%d);" % v); exp.append("[PRINT](%d) %d" % (li, v))
                src = render(lines)
                cs.append(dict(req="run " + hx(src), src=src, show=src[:300], kind="print", exp=exp, key="m%d" % i))
            elif k < 0.55:
                nprint = rng.choice([0, 1, 50, 99, 100, 101, 150, 300]);
                src = "\n".join("PRINT({%s})" % ("x" * rng.choice([1, 10, 60])) for _ in range(nprint)) + "\nc"
                cs.append(dict(req="run " + hx(src), src=src, show="%d PRINT statements" % nprint, kind="bound", n=nprint, key="m%d" % i))
            elif k < 0.75:
                nerr = rng.choice([0, 1, 29, 30, 31, 32, 60, 120])
                bads = [rng.choice(BAD_CHARS) for _ in range(nerr)]
                if rng.random() < 0.5 and nerr >= 2:
                    # the same number of offending characters spread over nested blocks (tuplets, Sub, loops): one budget for the whole source
                    cut1 = rng.randrange(0, nerr); cut2 = rng.randrange(cut1, nerr + 1)
                    wrap = rng.choice(["{ %s c d }4", "Sub{ %s c }", "[2 %s c ]", "Sub{ {%s c}4 }"])
                    src = " ".join(bads[:cut1]) + "\n" + (wrap % " ".join(bads[cut1:cut2])) + "\n" + " ".join(bads[cut2:]) + " c"
                    if "[2" in wrap: nerr = nerr      # the lexer reads the loop body once
                else:
                    src = " ".join(bads) + " c"
                cs.append(dict(req="run " + hx(src), src=src, show="%d offending characters" % nerr, kind="lexbound", n=nerr, key="m%d" % i))
            elif k < 0.9:
                head = render(valid_lines(rng))
                tail = rng.choice(["e f g", "!!! ZZZ", "PRINT(1)", "TR(5) c", "[", "{", "Function Tempo(){ g }", "FUNCTION Foo(){ g } Foo()", "\nFunction Foo(){ g }", "\nFUNCTION Foo(A){ g }\nFUNCTION Foo(){ a }"])
                kw = rng.choice(["End", "END"])
                headerr = rng.random() < 0.3
                if headerr: head = rng.choice(["Foo c d e", "c Foo() d", "Foo(1) e", "l8 c Foo\nd e"])      # a word the ignored tail would define
                src = head + "\n" + kw + rng.choice([" ", "\n", " ; "]) + tail
                cs.append(dict(req="compile2 %s %s" % (hx(src), hx(head + "\n")), src=src, show=src[:300], kind="end", headerr=headerr, key="m%d" % i))
            else:
                src = rng.choice(["FOR(INT I=0;I<2;I++){c}", "PRINT(1,,2)", "INT A=(1 ? 2)", "WHILE(0){ }", "Foo(1)", "c !d", "System.Unknown(1)", "PRINT(MID({a},1))",
                                  # expressions laid out over lines, stray characters inside conditions and argument lists
                                  "FUNCTION FOO(A,B){ RETURN(A+B); }\nINT X = FOO(3,\n            5)\nPRINT(X)\nc d e", "INT X=8 IF(X == 8\n){ c }", "IF(1 ?){c}", "INT X=0 WHILE(X<3 @){ X++ }",
                                  "PRINT(1 +\n 2)", "FUNCTION G(A){ RETURN(A) } G(1 ! 2) PRINT(G(3 $))", "FOR(INT I=0; I<2 ~; I++){ c }", "INT A=(1\n+2\n) PRINT(A)", "IF(\n1\n){ d }ELSE{ e }",
                                  # values that are clamped when the file is written (nothing is said about it on standard output)
                                  "PB(8192) c", "PB(-8193) c", "p(128) c", "Slur(1) l4 c&>c d", "y7,200 c", "@200 c", "v200 c,,300", "TimeBase(10) c", "Tempo(1000) c", "CH(20) c", "o12 c", "n200,4"])
                cs.append(dict(req="run " + hx(src), src=src, show=src, kind="stdout", key="m%d" % i))
        return cs
    def misc_judge(c, impl, m):
        st, f = impl
        out = c.get("_stdout", "").strip()
        if out: return ("violation", "the library wrote to standard output with debug off: %r" % out[:120])
        if st != "ok":
            return ("violation", "did not compile normally: " + st) if c["kind"] != "stdout" else None
        if c["kind"] == "print":
            got = [e for e in entries(f["log"]) if e.startswith("[PRINT]")]
            if got != c["exp"]: return ("violation", "PRINT entries %s, expected %s" % (got[:5], c["exp"][:5]))
        elif c["kind"] == "bound":
            got = entries(f["log"]); text = unhx(f["log"]).decode("utf-8", "replace")
            if len(got) > 100: return ("violation", "%d log entries" % len(got))
            if len(text) > 4096 + 3: return ("violation", "log text has %d characters" % len(text))
            if len(text) <= 4096 and len(got) != min(c["n"], 100): return ("violation", "%d entries for %d PRINTs" % (len(got), c["n"]))
        elif c["kind"] == "lexbound":
            got = entries(f["log"])
            want = c["n"] if c["n"] <= 30 else 31
            if len(got) != want: return ("violation", "%d entries for %d lexer errors (expected %d)" % (len(got), c["n"], want))
            if c["n"] > 30 and "Unknown Character" in got[30]: return ("violation", "the 31st entry is not the too-many-errors notice: " + got[30][:80])
        elif c["kind"] == "end":
            if f["bin1"] != f["bin2"]: return ("violation", "text after End changed the output")
            nonear = lambda h: [re.sub(r' near ".*$', "", e, flags=re.S) for e in entries(h)]      # the quoted context of a message may show the following text
            if nonear(f["log1"]) != nonear(f["log2"]): return ("violation", "text after End changed the log: " + str(entries(f["log1"]))[:160])
            if entries(f["log1"]) and not c.get("headerr"): return ("violation", "text after End was reported: " + str(entries(f["log1"]))[:160])
        return None
    s2 = Stream("misc", cases if (cases and only == "misc") else mk_misc(), lambda c, st, f: [], misc_judge,
                lambda c, i, m: (c["kind"], i[1].get("log", i[1].get("log1"))) if i[0] == "ok" else None, "PRINT lines, log bounds, End, stdout", timeout_case=20.0, capture_stdout=True)
    return [s for s in (s1, s2) if only in (None, s.name)]
