"""C20 — the dump lists every event of a compiled file at its true position: streams."""
import re
from ..core import Stream, hx, unhx, run_oracle, parse_resp
from .. import gen, mml
from .c02 import rich_source

RULE = ("dump: real compiler outputs (sources with all event kinds, TIME(m:b:t) placements, one time signature per file, "
        "several tracks, lengths that produce delta bytes 0x7F and multi-byte deltas) are dumped by the real dump_midi; the text is "
        "judged against lines derived from the independent SMF decoder (Spec.decodeTrack) and the position formula (Lean): one line "
        "per event, in file order, position m:b:t under the signature in force, kind and values. gen: generate on random event lists "
        "(deltas up to 2^28-1) then dump. dumptext: the literal model of the whole dump (Model.DumpText.dump — header checks, track loop, per-kind formatting and cursor "
        "advance, text payload reader) must give the real text character for character on (a) compiler outputs, (b) compiler outputs holding arbitrary verbatim bytes "
        "(DirectSMF: complete, truncated, meaningless messages) on which the real dump must also return normally, (c) damaged files. non-trivial = distinct dump texts with >= 3 event lines")
ASSUMPTIONS = ["one time signature per file (the property's quantifier)", "rendering of trailing explanatory comments is not part of the property and is not compared"]
TRUSTED = ["Spec.Dump (expected lines) is my reading of 'kind and values as written'",
           "Model.DumpText is a hand-written literal model of dump_midi; it is tied to the code by the dumptext stream (exact text equality), the theorems C20_walker_lists_every_event / C20_dump_loop_terminates are about it"]

def timed_source(rng):
    """one time signature, notes placed with TIME(m:b:t); deltas around 0x7F"""
    num = rng.choice([2, 3, 4, 5, 6, 7, 9, 12]); den = rng.choice([2, 4, 8, 16])
    tb = rng.choice([48, 96, 96, 120, 480, 960, 50, 49, 90, 100, 250])      # also time bases whose whole note is no multiple of the denominator
    parts = ["TimeBase(%d)" % tb, "TimeSignature(%d,%d)" % (num, den)]
    beat = 4 * tb // den
    placed = []     # positions written with TIME(m:b:t) on the first track: the dump must list an event at each
    for tr in range(rng.choice([1, 1, 2, 3])):
        parts.append("TR(%d)" % tr)
        for _ in range(rng.randrange(1, 6)):
            r = rng.random()
            if r < 0.5:
                # (measures far out too: delta times of three and four bytes, up to the four-byte limit of the format)
                m = rng.randint(1, 40) if rng.random() < 0.85 else rng.choice([200, 5462, 5463, 6000, 30000, min(268435455 // max(1, beat * num) - 1, 600000)])
                b = rng.randint(1, num); t = rng.randint(0, max(0, beat - 1))
                parts.append("TIME(%d:%d:%d) %s" % (m, b, t, rng.choice(["c", "d8", "e2", "n60,4", "y7,100;", "@3;"])))
                if tr == 0: placed.append((m, b, t))
            elif r < 0.54:
                # verbatim bytes of every channel-message kind (1- and 2-data-byte forms), followed by further events
                parts.append(rng.choice(["DirectSMF($D0,$%02X)" % rng.randint(0, 127), "DirectSMF($C%X,%d)" % (rng.randint(0, 15), rng.randint(0, 127)),
                                         "DirectSMF($A0,%d,%d)" % (rng.randint(0, 127), rng.randint(0, 127)), "DirectSMF($E0,%d,%d)" % (rng.randint(0, 127), rng.randint(0, 127)),
                                         "DirectSMF($B0,7,100)", "DirectSMF($90,60,100) DirectSMF($80,60,0)"]) + " " + rng.choice(["c", "d8 e", "r c"]))
            elif r < 0.58:
                # meta events whose payload holds bytes >= 0x80 (not valid UTF-8 on their own) or multi-byte text, followed by further events
                parts.append(rng.choice(["Port(%d)" % rng.choice([200, 128, 255, 127, 0, 5]), "TrackName={\"%s\"}" % rng.choice(["あいう", "é", "Ж€😀", "abc"]), "Lyric={\"ら\"}", "Marker={\"ü\"}"]) + " " + rng.choice(["c", "d8 e", "TIME(2:1:0) c"]))
            elif r < 0.64:
                # every other kind of event the writer emits: slurs (bend range, bends), bends, RPN/NRPN groups, SysEx
                parts.append(rng.choice(["l4 c&d e", "Slur(1) c&e g", "BR(12) c", "BR(%d) d&f" % rng.randint(1, 24), "PB(%d) c" % rng.randint(-8000, 8000), "p%d d" % rng.randint(0, 127),
                                         "FineTune(%d) c" % rng.randint(0, 127), "VibratoRate(64) VibratoDepth(64) e", "RPN(0,1,%d) c" % rng.randint(0, 127), "NRPN(1,8,64) c",
                                         "ResetGM c", "MasterVolume(100) d", "SysEx$=f0,7e,7f,9,1,f7; e", "c&d&e f&f g",
                                         "SysEx$=41,10,42,12,40,00,7F,00,41,F7; c", "SysEx$=41,10,42,12,{40,00,7F,00},F7; d", "SysEx$=f0,41,10,42,12,40,00,7F,00,41; e", "SysEx$=7e,7f,9,1; c",
                                         # an F7 among the data bytes is data; messages of 128 bytes and more have a length field of two bytes
                                         "SysEx$=f0,41,f7,10,f7; c", "SysEx$=f0,f7,f7; d", "SysEx$=f0,41,10,f7,42,f7,00,f7; e",
                                         "SysEx$=f0," + ",".join("%02x" % rng.randint(0, 127) for _ in range(rng.choice([125, 126, 127, 128, 200, 300]))) + ",f7; c",
                                         "SysEx$=f0," + ",".join(rng.choice(["f7", "00", "41", "7f"]) for _ in range(rng.randint(1, 9))) + ",f7; d"]) + " " + rng.choice(["c", "TIME(3:1:0) d", "r e"]))
            elif r < 0.75:
                parts.append("l%%%d q100 %s" % (rng.choice([127, 126, 128, 255, 16383, 16384, 2097151, 2097152, rng.randint(1, 300)]), rng.choice(["c d", "e r f", "g"])))
            else:
                parts.append(mml.pr(mml.gen_cmds(rng, 1, rng.randrange(1, 4), top=False)))
    timed_source.placed = placed
    return " ".join(parts)

def streams(tier, rng, P, only=None, cases=None):
    big = tier == "thorough"
    def model(c, status, f):
        if status != "ok": return []
        return ["spec.c20 %s %s" % (f["bin"], f["text"])]
    def judge(c, impl, m):
        st, f = impl
        if st == "hang": return ("violation", "dump (or compile) does not terminate")
        if st != "ok":
            return ("violation", "dump did not return normally on a compiler output: " + st + " " + str(f)) if c.get("strict") else None
        if not m[0].startswith("ok holds=1"): return ("violation", "dump text disagrees with the decoded file: " + m[0])
        # a note (or controller, program) placed with TIME(m:b:t) is listed at TIME(m:b:t)
        if c.get("placed") and not re.search(r"(?<![A-Za-z])t[-+]?\d|(?<![A-Za-z])t\.|t__|(?<![A-Za-z])t=|(?<![A-Za-z])t\(", c["src"]):      # (a timing command moves the notes after it off their written position)
            text = unhx(f["text"]).decode("utf-8", "replace")
            first = text.split("// ----- TRACK -----")[1] if "// ----- TRACK -----" in text else text
            for (mm, bb, tt) in c["placed"]:
                if ("TIME(%03d:%03d:%03d) " % (mm, bb, tt)) not in first:
                    return ("violation", "nothing is listed at TIME(%d:%d:%d), where the source placed an event" % (mm, bb, tt))
        return None
    def nt(c, impl, m):
        t = impl[1].get("text", "") if impl[0] == "ok" else ""
        return t if t.count("54494d4528") >= 3 else None   # "TIME(" occurrences
    def mk_src():
        cs = []
        n = 1500 if big else 250
        for i in range(n):
            src = timed_source(rng) if i % 2 == 0 else rich_source(rng)
            cs.append(dict(req="compile_dump " + hx(src), src=src, show=src, key="src%d" % i, strict=True, placed=(list(timed_source.placed) if i % 2 == 0 else [])))
        for j, src in enumerate(mml.sample_sources()):
            cs.append(dict(req="compile_dump " + hx(src), src=src, show=src[:200], key="sample%d" % j, strict=True))
        for j, src in enumerate(["l%127 q100 c d", "l%16383 q100 c d e", "TimeSignature(3,8) TIME(5:2:10) c", "TR(2) l%127 c TR(1) TIME(2:1:0) d",
                                 # verbatim meta events with degenerate values: a tempo of 0 microseconds, a time signature with numerator 0
                                 "DirectSMF($FF,$51,$03,0,0,0) c d", "c DirectSMF($FF,$58,$04,0,2,24,8) d e", "DirectSMF($FF,$58,$04,0,3,24,8) l8 c d e f g",
                                 "TR(1) DirectSMF($FF,$51,$03,0,0,0) c TR(2) DirectSMF($FF,$58,$04,0,2,24,8) d",
                                 # more tracks than fit in 15 bits: the track count is a full 16-bit field
                                 "TR=32768 TIME(2:3:7) e", "TR=300 c TR=299 TIME(3:1:0) e"]):
            cs.append(dict(req="compile_dump " + hx(src), src=src, show=src, key="fixed%d" % j, strict=True))
        return cs
    s1 = Stream("dump", cases if (cases and only == "dump") else mk_src(), model, judge, nt, "compiler outputs dumped by the real dump_midi", timeout_case=20.0)
    # ---- dumptext: the literal model of the whole dump (Model.DumpText) against the real text, character for character:
    #      (a) compiler outputs as above, (b) compiler outputs holding arbitrary verbatim bytes (`DirectSMF`): complete, truncated and
    #      meaningless messages anywhere in a track — the dump must still return, (c) arbitrary byte strings (damaged files)
    def mk_text():
        cs = []
        n = 1200 if big else 200
        def rbytes(k): return ",".join(str(rng.choice([rng.randrange(0, 256), rng.randrange(0, 128), 0xFF, 0xF0, 0xF7, 0x90, 0x80, 0x2F, 0x51, 0x58, 0, 3])) for _ in range(k))
        for i in range(n):
            r = rng.random()
            if r < 0.35: src = timed_source(rng) if i % 2 else rich_source(rng)
            else:
                parts = []
                for _ in range(rng.randrange(1, 5)):
                    parts.append(rng.choice(["c", "d8 e", "r4", "TR(2) c", "TimeSignature(3,8)", "Tempo(90)", "l%200 g", "TrackName={\"a\"};", "@5;"]))
                    if rng.random() < 0.8: parts.append("DirectSMF(%s)" % rbytes(rng.randrange(1, 9)))
                src = " ".join(parts)
            cs.append(dict(req="compile_dump " + hx(src), src=src, show=src[:300], key="t%d" % i, strict=True))
        for j, src in enumerate(["c DirectSMF($FF)", "c DirectSMF($90)", "c DirectSMF($F0,1)", "DirectSMF(62,100) c", "DirectSMF($FF,1,200,65) c", "DirectSMF($F7,1,$F8) c", "c DirectSMF($E0,1)",
                                 "DirectSMF($FF,$51,$03,0,0,0) c", "DirectSMF($FF,$58,$04,0,2,24,8) c", "DirectSMF($FF,$58,$04,4,32,24,8) c", "DirectSMF($FF,$58,$04,4,31,24,8) c", "DirectSMF($C0,255) c"]):
            cs.append(dict(req="compile_dump " + hx(src), src=src, show=src, key="tf%d" % j, strict=True))
        # (c) damaged files: byte strings derived from real outputs
        seeds = ["l4 c d e", "TR(1) c TR(2) d Tempo(100)", "TimeSignature(6,8) TIME(3:2:0) c TrackName={\"x\"};", "SysEx$=f0,41,10,42,12,40,00,7f,00,41,f7; c"]
        bins = []
        for line in run_oracle(P, ["compile_dump " + hx(x) for x in seeds], tag="c20seed"):
            st, f = parse_resp(line)
            if st == "ok": bins.append(bytes.fromhex(f["bin"]))
        for i in range(600 if big else 120):
            if not bins: break
            b = bytearray(rng.choice(bins)); k = rng.random()
            if k < 0.3: b = b[:rng.randrange(0, len(b) + 1)]
            elif k < 0.6:
                for _ in range(rng.randrange(1, 4)): b[rng.randrange(len(b))] = rng.choice([0, 0xFF, 0x80, 0x7F, rng.randrange(256)])
            elif k < 0.8:
                p_ = rng.randrange(len(b) + 1); b[p_:p_] = bytes(rng.randrange(256) for _ in range(rng.randrange(1, 6)))
            elif k < 0.9: b = bytearray(b"MThd\0\0\0\6\0\1" + bytes(rng.randrange(256) for _ in range(rng.randrange(0, 40))))
            else: b = bytearray(rng.randrange(256) for _ in range(rng.randrange(0, 30)))
            hb = bytes(b).hex() or "~"
            cs.append(dict(req="dump " + hb, src=hb, show="bytes " + hb[:120], key="d%d" % i, strict=False, bin=hb))
        return cs
    def text_model(c, status, f):
        if status != "ok": return []
        return ["dumptext " + (f["bin"] if "bin" in f else c["bin"])]
    def text_judge(c, impl, m):
        st, f = impl
        if st == "hang": return ("violation", "dump does not terminate")
        if st != "ok":
            return ("violation", "dump did not return normally on a compiler output: " + st + " " + str(f)[:200]) if c.get("strict") else None
        want = m[0].split("text=")[1] if m and "text=" in m[0] else None
        if want != f["text"]:
            a = unhx(f["text"]).decode("utf-8", "replace").split("\n"); b = unhx(want or "~").decode("utf-8", "replace").split("\n")
            for x, y in zip(a, b):
                if x != y: return ("mismatch", "literal dump model differs from the real text: real %r model %r" % (x[:100], y[:100]))
            return ("mismatch", "literal dump model differs from the real text in length: real %d lines, model %d" % (len(a), len(b)))
        return None
    s2 = Stream("dumptext", cases if (cases and only == "dumptext") else mk_text(), text_model, text_judge,
                lambda c, i, m: i[1].get("text", "")[:400] if i[0] == "ok" else None, "literal dump model vs real text; verbatim bytes; damaged files", timeout_case=20.0)
    return [s for s in (s1, s2) if only in (None, s.name)]
