"""C12 — tracks are independent; TrackSync and PLAY: streams."""
from ..core import Stream, hx, unhx
from .. import mml, execstream

RULE = ("alone: a multi-track program and the same program with the blocks of all other tracks removed give the chosen track the same event list "
        "(notes, controllers, programs, bends, meta events); permute: multi-track programs (1..12 tracks, numbers 0..40, blocks of track-local commands in any order/interleaving, first use after a higher "
        "number) and a re-ordering of the same blocks that keeps each track's own order: every MTrk chunk must be byte-identical; sem: the same "
        "programs against Spec.Core.sem (channels of implicitly created tracks); sync: TrackSync and PLAY(p1..pn) with parts of unequal length followed "
        "by a sentinel on every track — decoded notes and final pointers = sem. non-trivial = distinct outputs with >= 2 non-empty tracks")
ASSUMPTIONS = ["blocks contain only track-local commands (no KeyShift/KeyFlag/TimeBase/Random/TIME, which are song-global or absolute by definition)",
               "PLAY parts contain no track switches"]
TRUSTED = ["the generator's block permutation preserves each track's own block order"]

def gen_blocks(rng):
    ntr = rng.choice([2, 3, 4, 6, 12])
    nums = rng.sample([0, 1, 2, 3, 4, 5, 7, 9, 15, 16, 17, 25, 40], min(ntr, 13))
    blocks = []
    for _ in range(rng.randrange(ntr, ntr * 3)):
        tr = rng.choice(nums)
        body = mml.gen_cmds(rng, 2, rng.randrange(1, 5), top=False)
        if rng.random() < 0.15: body.insert(0, ('ch', rng.randrange(1, 17)))
        if rng.random() < 0.3:
            # commands that write non-note events (meta, controller, program, bend): they belong to the chunk of the track they are issued on
            body.insert(rng.randrange(0, len(body) + 1), ('raw', rng.choice(["TimeSignature(%d,%d)" % (rng.randint(2, 7), rng.choice([4, 8])), "Tempo(%d)" % rng.randint(60, 200),
                "TrackName={\"t%d\"};" % rng.randint(0, 9), "TempoChange(%d,%d,!%d);" % (rng.randint(60, 200), rng.randint(60, 200), rng.choice([1, 2, 4])), "y7,%d;" % rng.randint(0, 127), "@%d;" % rng.randint(1, 128), "PB(%d)" % rng.randint(-100, 100), "Marker={\"m\"};", "P(%d)" % rng.randint(0, 127)])))
        blocks.append((tr, body))
    return blocks

SLUR_TEXTS = ["l4 c&d e", "e&g a", "Slur(1) c&e g", "c&c d", "Slur(0,24) d&f", "c&d&e f", "BR(12) c&e", "@3 c", "y1,5 c d", "Slur(2) e&g", "PB(100) c", "r4 g&a", "Slur(3) c&e&g",
              # chords that collect no lettered note (empty, a rest, numbered notes only): the chord is over at its closing quote
              "l4 'n36n42' n38", "c ''2 d", "'r' e", "'' c", "l8 e 'r4' f 'gb'4"]
def gen_text_blocks(rng):
    """blocks of slurred groups, on tracks that share MIDI channels (tracks 0 and 1 do by default; others by CH=): what a track writes for
    its own slur (bend range, bends) must not depend on what another track on that channel wrote"""
    nums = rng.sample([0, 1, 2, 3, 5, 9], rng.choice([2, 2, 3]))
    ch = rng.randrange(1, 17); shared = rng.random() < 0.7
    blocks = []; first = set()
    for _ in range(rng.randrange(len(nums), len(nums) * 3)):
        tr = rng.choice(nums)
        txt = " ".join(rng.choice(SLUR_TEXTS) for _ in range(rng.randrange(1, 3)))
        if tr not in first and shared and not (set(nums) <= {0, 1} and rng.random() < 0.5): txt = "CH=%d %s" % (ch, txt)
        first.add(tr)
        blocks.append((tr, [('raw', txt + ";")]))
    return blocks

SCRIPT_PRE = "#Riff={l#?1 e} #Two={#?1 r8 #?2} STR SV={c #?1} Function FN(INT K=2){ [(K) g16] }"
SCRIPT_TEXTS = ["INT NQ", "STR MEMO", "INT NQ; c", "#Riff(8)", "#Riff(16) #Riff(4)", "c d", "#Two({e},{g})", "ARRAY AQ;", "SV({d})", "FN(3)", "FN", "Int NQ; Str XQ;", "r4", "l8 e"]
def gen_script_blocks(rng):
    """blocks that declare variables without a value, call macros / string variables with arguments and call functions as statements: what one
    track's block leaves behind in the interpreter (an empty value stack, a pending flag) must not reach the next track's block"""
    nums = rng.sample([0, 1, 2, 3, 5, 9], rng.choice([2, 2, 3]))
    blocks = []
    for _ in range(rng.randrange(len(nums), len(nums) * 3)):
        blocks.append((rng.choice(nums), [('raw', " ".join(rng.choice(SCRIPT_TEXTS) for _ in range(rng.randrange(1, 4))) + ";")]))
    return blocks

def permute(rng, blocks):
    """shuffle keeping the relative order of blocks of the same track"""
    order = [b[0] for b in blocks]
    rng.shuffle(order)
    queues = {}
    for tr, body in blocks: queues.setdefault(tr, []).append(body)
    out = []
    for tr in order: out.append((tr, queues[tr].pop(0)))
    return out

def to_prog(blocks):
    prog = []
    for tr, body in blocks:
        prog.append(('tr', tr)); prog += body
    return prog

def streams(tier, rng, P, only=None, cases=None):
    big = tier == "thorough"
    def mk_perm():
        cs = []
        n = 6000 if big else 700
        for i in range(n):
            blocks = gen_blocks(rng)
            p1 = to_prog(blocks); p2 = to_prog(permute(rng, blocks))
            s1 = mml.pr(p1); s2 = mml.pr(p2)
            cs.append(dict(req="compile2 %s %s" % (hx(s1), hx(s2)), src=s1, src2=s2, show=s1[:300], sexp=mml.sexp(p1), ntr=len(set(b[0] for b in blocks)), key="p%d" % i))
        for i in range(n // 4):
            blocks = gen_text_blocks(rng)
            p1 = to_prog(blocks); p2 = to_prog(permute(rng, blocks))
            s1 = mml.pr(p1); s2 = mml.pr(p2)
            cs.append(dict(req="compile2 %s %s" % (hx(s1), hx(s2)), src=s1, src2=s2, show=s1[:300], sexp=None, ntr=len(set(b[0] for b in blocks)), key="pt%d" % i))
        for i in range(n // 4):
            blocks = gen_script_blocks(rng)
            p1 = to_prog(blocks); p2 = to_prog(permute(rng, blocks))
            s1 = SCRIPT_PRE + " " + mml.pr(p1); s2 = SCRIPT_PRE + " " + mml.pr(p2)
            cs.append(dict(req="compile2 %s %s" % (hx(s1), hx(s2)), src=s1, src2=s2, show=s1[:300], sexp=None, ntr=len(set(b[0] for b in blocks)), key="ps%d" % i))
        # a track selected from inside a user function (or a macro) stays selected after the call: the commands that follow are addressed to it
        for j, (a, b) in enumerate([("Function SEL(INT T){ TR=T } SEL(3) c SEL(1) d SEL(3) e", "TR=3 c TR=1 d TR=3 e"),
                                    ("Function HEAD(){ TR=2 l8 cd } TR=1 c HEAD() e TrackSync TR=1 g", "TR=1 c TR=2 l8 cd e TrackSync TR=1 g"),
                                    ("#T2={TR=2} TR=1 c #T2 d TR=1 e", "TR=1 c TR=2 d TR=1 e"), ("Function K(){ TR(4) CH(3) } K() c d TR(1) e", "TR(4) CH(3) c d TR(1) e"),
                                    ("Function W(N){ FOR(INT I=1;I<=N;I++){ TR=I c } } W(3) d", "TR=1 c TR=2 c TR=3 c d"),
                                    # TrackSync inside a Sub block moves the other tracks for good: only the current track's pointer is put back
                                    ("TR(2) TR(1) r1 Sub{ TrackSync } TR(2) c", "TR(2) TR(1) r1 TrackSync TR(2) c")]):
            cs.append(dict(req="compile2 %s %s" % (hx(a), hx(b)), src=a, src2=b, show=a, sexp=None, ntr=3, key="fsel%d" % j))
        for j, (a, b) in enumerate([("TR(3) c TR(2) d TR(1) e", "TR(1) e TR(2) d TR(3) c")]):
            cs.append(dict(req="compile2 %s %s" % (hx(a), hx(b)), src=a, src2=b, show=a, sexp=None, ntr=3, key="fixed%d" % j))
        return cs
    def perm_model(c, st, f):
        if st != "ok" or not c.get("sexp"): return []
        return ["spec.c03 %s %s" % (hx(c["sexp"]), f["bin1"])]
    def perm_judge(c, impl, m):
        st, f = impl
        if st != "ok": return ("violation", "multi-track program did not compile: " + st)
        if f["bin1"] != f["bin2"]:
            if c["key"].startswith("fsel"): return ("violation", "a track command inside a call or a block does not act like the command written out: %r vs %r" % (c["src"][:160], c["src2"][:160]))
            return ("violation", "re-ordering blocks of different tracks changed a track chunk: %r vs %r" % (c["src"][:160], c["src2"][:160]))
        if m and not m[0].startswith("ok holds=1"): return ("violation", "tracks differ from the semantics (default channels?): " + m[0][:300])
        return None
    # ---- a track's events depend on its own blocks only: the program restricted to one track gives that track the same events
    def mk_alone():
        cs = []
        n = 3000 if big else 400
        for i in range(n):
            blocks = gen_blocks(rng)
            if rng.random() < 0.35:
                # an octave-once mark (` or ") directly before the last chord or note of a block: the next block (another track) must not feel it
                j = rng.randrange(len(blocks)); tr_, body_ = blocks[j]
                nt_ = lambda: ('note', rng.choice("cdefgab"), 0, False, None, None, None, None, None)
                last = ('chord', [nt_() for _ in range(rng.randrange(2, 4))], None, None, None) if rng.random() < 0.6 else nt_()
                blocks[j] = (tr_, body_ + [('raw', rng.choice(["`", '"'])), last])
            k = rng.choice(sorted(set(b[0] for b in blocks)))
            p1 = to_prog(blocks); p2 = to_prog([b for b in blocks if b[0] == k])
            s1_, s2_ = mml.pr(p1), mml.pr(p2)
            cs.append(dict(req="run2 %s %s" % (hx(s1_), hx(s2_)), src=s1_, src2=s2_, show=s1_[:300], k=k, ntr=len(set(b[0] for b in blocks)), key="a%d" % i))
        for i in range(n // 4):
            blocks = gen_text_blocks(rng)
            k = rng.choice(sorted(set(b[0] for b in blocks)))
            p1 = to_prog(blocks); p2 = to_prog([b for b in blocks if b[0] == k])
            s1_, s2_ = mml.pr(p1), mml.pr(p2)
            cs.append(dict(req="run2 %s %s" % (hx(s1_), hx(s2_)), src=s1_, src2=s2_, show=s1_[:300], k=k, ntr=len(set(b[0] for b in blocks)), key="at%d" % i))
        for i in range(n // 4):
            blocks = gen_script_blocks(rng)
            k = rng.choice(sorted(set(b[0] for b in blocks)))
            p1 = to_prog(blocks); p2 = to_prog([b for b in blocks if b[0] == k])
            s1_, s2_ = SCRIPT_PRE + " " + mml.pr(p1), SCRIPT_PRE + " " + mml.pr(p2)
            cs.append(dict(req="run2 %s %s" % (hx(s1_), hx(s2_)), src=s1_, src2=s2_, show=s1_[:300], k=k, ntr=len(set(b[0] for b in blocks)), key="as%d" % i))
        for j, (a, b, k) in enumerate([("TR=1 l4 c TR=2 l4 d TimeSignature=3,4 e", "TR=2 l4 d TimeSignature=3,4 e", 2), ("TR(1) Tempo(90) c TR(0) d", "TR(1) Tempo(90) c", 1),
                                       # the same song-level command written on two tracks at the same tick is written on both
                                       ("TR=1 Tempo=100 c TR=2 Tempo=100 e", "TR=2 Tempo=100 e", 2), ("TR=2 Tempo=100 e TR=1 Tempo=100 c", "TR=1 Tempo=100 c", 1),
                                       ("TR=1 l4 c Tempo=90 d TR=3 l4 r Tempo=90 e", "TR=3 l4 r Tempo=90 e", 3), ("TR=1 TimeSignature=3,4 c TR=2 TimeSignature=3,4 d", "TR=2 TimeSignature=3,4 d", 2),
                                       ("TR=1 TrackName={\"x\"}; c TR=2 TrackName={\"x\"}; d", "TR=2 TrackName={\"x\"}; d", 2), ("TR=1 y7,100; c TR=2 CH=2 y7,100; d", "TR=2 CH=2 y7,100; d", 2),
                                       # a track's own transposition, under each of its names, stays with the track
                                       ("TR=1 TR_KEY(3) c TR=2 c", "TR=2 c", 2), ("TR=2 c TR=1 TR_KEY(3) c TR=2 d", "TR=2 c TR=2 d", 2), ("TR=1 TrackKey=2 e TR=3 e", "TR=3 e", 3),
                                       ("TR=1 TrackKey(5) c TR=2 TR_KEY(-2) d TR=1 e", "TR=1 TrackKey(5) c TR=1 e", 1), ("TR=3 TR_KEY(1) n60 TR=1 n60", "TR=1 n60", 1)]):
            cs.append(dict(req="run2 %s %s" % (hx(a), hx(b)), src=a, src2=b, show=a, k=k, ntr=2, key="afixed%d" % j))
        return cs
    def alone_judge(c, impl, m):
        st, f = impl
        if st != "ok": return ("violation", "multi-track program did not run: " + st)
        t1 = f["tracks1"].split(";"); t2 = f["tracks2"].split(";")
        k = c["k"]
        if k >= len(t1) or k >= len(t2): return ("mismatch", "track %d missing" % k)
        if t1[k] != t2[k]:
            return ("violation", "track %d has other events when the blocks of the other tracks are removed: %s vs %s" % (k, t1[k][:160], t2[k][:160]))
        for j, ev in enumerate(t2):
            if j != k and ev != "~":
                return ("violation", "a program that only addresses track %d wrote events to track %d: %s" % (k, j, ev[:160]))
        return None
    s0 = Stream("alone", cases if (cases and only == "alone") else mk_alone(), lambda c, st, f: [], alone_judge,
                lambda c, i, m: i[1].get("tracks1") if i[0] == "ok" and c["ntr"] >= 2 else None, "multi-track program vs the same program restricted to one track", timeout_case=20.0)
    s1 = Stream("permute", cases if (cases and only == "permute") else mk_perm(), perm_model, perm_judge,
                lambda c, i, m: i[1].get("bin1") if i[0] == "ok" and c["ntr"] >= 2 else None, "block permutations", timeout_case=20.0)
    def mk_sync():
        cs = []
        n = 4000 if big else 500
        for i in range(n):
            prog = []
            ntr = rng.choice([1, 2, 3, 4])
            for t in range(ntr):
                prog.append(('tr', rng.choice([0, 1, 2, 3, 5])))
                prog += mml.gen_cmds(rng, 1, rng.randrange(0, 4), top=False)
            if rng.random() < 0.5:
                prog.append(('tsync',))
            else:
                parts = [(mml.gen_cmds(rng, 1, rng.choice([0, 1, 1, 2, 3]), top=False) or rng.choice([[], [('raw', '')]])) for _ in range(rng.randrange(1, 5))]     # an empty part leaves its track silent; the later parts keep their tracks
                prog.append(('play', parts))
            # sentinel on several tracks
            for t in rng.sample([0, 1, 2, 3, 4, 5], rng.randrange(1, 4)):
                prog.append(('tr', t)); prog.append(('noten', 100, None, None, None, None))
            src = mml.pr(prog)
            cs.append(dict(req="run " + hx(src), src=src, show=src[:300], sexp=mml.sexp(prog), key="s%d" % i, prog=prog))
        fixed = [('play', [[('l', ((False, 4, 0), [])), ('note', 'c', 0, False, None, None, None, None, None), ('note', 'd', 0, False, None, None, None, None, None), ('note', 'e', 0, False, None, None, None, None, None)],
                           [('l', ((False, 8, 0), [])), ('note', 'g', 0, False, None, None, None, None, None)],
                           [('l', ((False, 2, 0), [])), ('note', 'a', 0, False, None, None, None, None, None)]]),
                 ('rest', None, 1), ('note', 'f', 0, False, None, None, None, None, None)]
        cs.append(dict(req="run " + hx(mml.pr(fixed)), src=mml.pr(fixed), show=mml.pr(fixed), sexp=mml.sexp(fixed), key="fixed-play", prog=fixed))
        return cs
    def sync_model(c, st, f):
        if st != "ok": return []
        return ["spec.c03 %s %s" % (hx(c["sexp"]), f["bin"]), "coresem " + hx(c["sexp"])]
    def sync_judge(c, impl, m):
        st, f = impl
        if st != "ok": return ("violation", "program did not compile: " + st)
        if not m[0].startswith("ok holds=1"): return ("violation", "TrackSync/PLAY: notes differ from the semantics: " + m[0][:300])
        want = m[1].split(" tp=")[1].split(" ")[0].split(",")
        got = [seg.split(",")[0].replace("tp:", "") for seg in f["state"].split(";")]
        if got != want: return ("violation", "time pointers after the program are %s, documented %s" % (got, want))
        if f["cur"] != m[1].split("cur=")[1].split(" ")[0]: return ("violation", "current track not restored")
        return None
    s2 = Stream("sync", cases if (cases and only == "sync") else mk_sync(), sync_model, sync_judge,
                lambda c, i, m: i[1].get("bin") if i[0] == "ok" else None, "TrackSync / PLAY programs vs Spec.Core.sem")
    def rebuild(case, prog):
        src = mml.pr(prog)
        return dict(req="run " + hx(src), src=src, show=src, sexp=mml.sexp(prog), key=case.get("key", "") + "-shrunk")
    s2.ast_rebuild = rebuild
    sx = execstream.exec_stream(tier, rng, P, only, cases)
    return [s for s in (s0, s1, s2, sx) if only in (None, s.name)]
