"""C10 — script expressions: streams."""
import re
from ..core import Stream, hx, unhx

RULE = ("expr: random well-typed expression trees (depth <= 7; + - * / %, unary minus, parentheses, the 8 comparison spellings, & |, decimal/$hex/0x/0o "
        "literals, INT/STR variables, string constants) printed with minimal parentheses and with redundant ones, evaluated by the real "
        "lexer+runner through PRINT; the logged text must equal evalTree of the tree (Lean model of the CalcTree arm), whose printed form the "
        "model parser is proved to read back; exprexec: the same programs through the literal script runner Model.ScriptExec on the real token lists (CalcTree arm with integers, booleans, strings, absent values): same log and stack height; builtins: MID/SizeOf/REPLACE/CHR/S.s/array indexing over ASCII and non-ASCII text vs the model. "
        "non-trivial = distinct (shape, value) pairs of trees with >= 2 operators")
ASSUMPTIONS = ["intermediate magnitudes stay below 2^62 (generator discards larger trees); isize wrap-around is outside the property",
               "binary operators are written with surrounding blanks (`A - -5`): `A--5` is the decrement statement by the language's own grammar"]
TRUSTED = ["Ex.evalOp / Ex.evalTree are my reading of 'as in ordinary arithmetic' (truncating division like Rust/C)"]

OPS = {0: "*", 1: "/", 2: "%", 3: "+", 4: "-", 5: ["=", "=="], 6: ["!=", "<>"], 7: ">", 8: ">=", 9: "<", 10: "<=", 11: "&", 12: "|"}
def lvl(i): return 1 if i <= 2 else 2 if i <= 4 else 3 if i <= 10 else 4

def tdiv(a, b):
    q = abs(a) // abs(b)
    return q if (a >= 0) == (b >= 0) else -q
def tmod(a, b): return a - b * tdiv(a, b)

class Gen:
    def __init__(self, rng):
        self.rng = rng
        self.vars = {}
    def lit(self, v):
        r = self.rng.random()
        if v < 0: return "-%d" % -v if r < 0.8 else "-$%X" % -v if r < 0.9 else "-0x%X" % -v
        if r < 0.7: return str(v)
        if r < 0.8: return "$%X" % v
        if r < 0.9: return "0x%x" % v
        return "0o%o" % v
    def int_expr(self, d):
        """returns (tree, value) ; tree = ('I', v, text) | ('n', t) | ('b', op, a, b)"""
        rng = self.rng
        if d == 0 or rng.random() < 0.25:
            if self.vars and rng.random() < 0.3:
                name = rng.choice(sorted(self.vars))
                return ("I", self.vars[name], name), self.vars[name]
            v = rng.choice([0, 1, 2, 3, 5, 7, 10, 12, 100, 255, 1000, rng.randint(0, 50)])
            if rng.random() < 0.15: v = -v
            return ("I", v, self.lit(v)), v
        r = rng.random()
        if r < 0.12:
            t, v = self.int_expr(d - 1)
            return ("n", t), -v
        op = rng.choice([0, 0, 1, 1, 2, 3, 3, 4, 4])
        a, va = self.int_expr(d - 1); b, vb = self.int_expr(d - 1)
        if op == 0: v = va * vb
        elif op == 1: v = 0 if vb == 0 else tdiv(va, vb)
        elif op == 2: v = 0 if vb == 0 else tmod(va, vb)
        elif op == 3: v = va + vb
        else: v = va - vb
        if abs(v) > 2 ** 62: return self.int_expr(0)
        return ("b", op, a, b), v
    def bool_expr(self, d):
        rng = self.rng
        if d <= 1 or rng.random() < 0.5:
            op = rng.choice([5, 6, 7, 8, 9, 10])
            a, va = self.int_expr(max(0, d - 1)); b, vb = self.int_expr(max(0, d - 1))
            return ("b", op, a, b)
        op = rng.choice([11, 12])
        return ("b", op, self.bool_expr(d - 1), self.bool_expr(d - 1))
    def str_expr(self, d):
        rng = self.rng
        s = rng.choice(["a", "xyz", "", "Ab1", "é€", "12", "-3"])
        leaf = ("S", s)
        if d == 0 or rng.random() < 0.3: return leaf
        r = rng.random()
        if r < 0.4:
            a, _ = self.int_expr(d - 1)
            return ("b", 3, leaf, a) if rng.random() < 0.5 else ("b", 3, a, leaf)
        return ("b", 3, self.str_expr(d - 1), self.str_expr(d - 1)) if r < 0.7 else ("b", rng.choice([5, 6]), leaf, ("S", rng.choice(["a", "xyz", "b"])))

def polish(t):
    k = t[0]
    if k == "I": return ["I%d" % t[1]]
    if k == "S": return ["S" + hx(t[1])]
    if k == "n": return ["n"] + polish(t[1])
    return ["b%d" % t[1]] + polish(t[2]) + polish(t[3])

def text_of(t, m, rng, redundant):
    """minimal-parenthesis print at level m (mirrors Ex.print); `redundant` adds harmless parentheses"""
    k = t[0]
    if k == "I": s = t[2]
    elif k == "S": s = "{" + t[1] + "}"
    elif k == "n":
        e = t[1]
        if e[0] == "b": s = "-(" + text_of(e, 4, rng, redundant) + ")"
        elif e[0] == "I" and e[2][0] in "-0123456789$": s = "-(" + e[2] + ")" if e[2].startswith("-") else "- " + e[2] if rng.random() < 0.3 else "-(" + e[2] + ")"
        elif e[0] == "n": s = "-" + text_of(e, 0, rng, redundant)
        else: s = "-" + text_of(e, 0, rng, redundant)
        return s
    else:
        op = t[1]; L = lvl(op)
        sym = OPS[op]
        if isinstance(sym, list): sym = rng.choice(sym)
        body = text_of(t[2], L, rng, redundant) + " " + sym + " " + text_of(t[3], L - 1, rng, redundant)
        s = body if L <= m else "(" + body + ")"
    if redundant and rng.random() < 0.2: s = "(" + s + ")"
    return s

def nops(t):
    return 0 if t[0] in "IS" else nops(t[1]) if t[0] == "n" else 1 + nops(t[2]) + nops(t[3])

def prints(log_hex):
    out = []
    for line in unhx(log_hex).decode("utf-8", "replace").split("\n"):
        if line.startswith("[PRINT]("):
            out.append(line.split(") ", 1)[1] if ") " in line else "")
        elif line.strip():
            out.append("!" + line)
    return out

TEXT_CHARS = "abcXYZ019-_.é€ΩЖ😀 "

def streams(tier, rng, P, only=None, cases=None):
    big = tier == "thorough"
    def mk_expr():
        cs = []
        n = 12000 if big else 1500
        for i in range(n):
            g = Gen(rng)
            prelude = ""
            for name in rng.sample(["A", "BB", "N", "VAL"], rng.randrange(0, 3)):
                v = rng.randint(-20, 60); g.vars[name] = v
                prelude += "INT %s=%d; " % (name, v)
            d = rng.choice([1, 2, 3, 4, 5, 6, 7])
            kind = rng.random()
            t = g.int_expr(d)[0] if kind < 0.5 else g.bool_expr(min(d, 5)) if kind < 0.85 else g.str_expr(min(d, 3))
            txt = text_of(t, 4, rng, i % 3 == 0)
            src = prelude + "PRINT(" + txt + ")"
            cs.append(dict(req="run " + hx(src), src=src, show=src, tree=",".join(polish(t)), nops=nops(t), key="e%d" % i))
        for j, (src, tree) in enumerate([("PRINT(2*3+1)", "b3,b0,I2,I3,I1"), ("PRINT(10-2-3)", "b4,b4,I10,I2,I3"), ("PRINT(8/2/2)", "b1,b1,I8,I2,I2"),
                                         ("PRINT(1<2&2<3)", "b11,b9,I1,I2,b9,I2,I3"), ("PRINT(7%0)", "b2,I7,I0"), ("PRINT((2*3)+1)", "b3,b0,I2,I3,I1"),
                                         # the ends of the 64-bit range written as literals
                                         ("PRINT(-9223372036854775808)", "n,I9223372036854775808"), ("PRINT(9223372036854775807)", "I9223372036854775807"),
                                         ("PRINT(-9223372036854775807)", "n,I9223372036854775807"),
                                         # hexadecimal literals wider than 32 bits
                                         ("PRINT($100000000)", "I4294967296"), ("PRINT(0x100000000 / 65536)", "b1,I4294967296,I65536"), ("PRINT($7FFFFFFFFFFFFFFF)", "I9223372036854775807"),
                                         ("PRINT($FFFFFFFF+1)", "b3,I4294967295,I1"), ("PRINT(0x1000000000 / $10000000)", "b1,I68719476736,I268435456"), ("PRINT(-9223372036854775808+1)", "b3,n,I9223372036854775808,I1")]):
            cs.append(dict(req="run " + hx(src), src=src, show=src, tree=tree, nops=2, key="fixed%d" % j))
        return cs
    def expr_model(c, st, f): return ["expr " + c["tree"]]
    def expr_judge(c, impl, m):
        st, f = impl
        if st != "ok": return ("violation", "evaluation did not return normally: %s" % st)
        pr = prints(f["log"])
        want = unhx(m[0].split("out=")[1].split(" ")[0]).decode("utf-8", "replace") if "out=" in m[0] else None
        if "roundtrip=1" not in m[0]: return ("mismatch", "model parser does not read the printed tree back: " + m[0])
        if len(pr) != 1 or pr[0] != want:
            return ("violation", "PRINT shows %r, the conventional value is %r" % (pr, want))
        return None
    def expr_nt(c, impl, m): return (c["tree"][:40], m[0]) if c["nops"] >= 2 else None
    s1 = Stream("expr", cases if (cases and only == "expr") else mk_expr(), expr_model, expr_judge, expr_nt, "expression trees through PRINT")
    # ---- exprexec: the same kind of programs through the literal script runner (Model.ScriptExec) on the REAL token lists: the CalcTree arm
    #      with integers, booleans, strings and absent values (C10_runner_computes_tree / C10_calc_ops are about that model)
    def mk_xe():
        cs = []
        for c in mk_expr()[: (4000 if big else 600)]:
            cs.append(dict(req="scriptrun " + hx(c["src"]), src=c["src"], show=c["src"], nops=c["nops"], key="x" + c["key"]))
        for j, src in enumerate(["PRINT(ZZ+1)", "PRINT(ZZ=0)", "PRINT({a}+ZZ)", "INT A=3; PRINT(A>ZZ)", "PRINT(ZZ>1)", "PRINT({10}+5)", "PRINT({b}>{a})", "PRINT(1={1})", "PRINT((1<2)+1)"]):
            cs.append(dict(req="scriptrun " + hx(src), src=src, show=src, nops=2, key="xf%d" % j))
        return cs
    def xe_model(c, st, f):
        if st != "ok": return []
        return ["scriptexec %s %s" % (f["toks"], f["funcs"])]
    def xe_judge(c, impl, m):
        st, f = impl
        if st != "ok": return ("violation", "evaluation did not return normally: %s" % st)
        if not m or "log=" not in m[0]: return None      # outside the modelled token set (reported in the evidence as not covered)
        d = dict(x.split("=", 1) for x in m[0].split(" ")[1:] if "=" in x)
        if d["log"] != f["log"]:
            return ("mismatch", "literal script model prints %r, the real runner %r" % (unhx(d["log"]).decode("utf-8", "replace")[-80:] if d["log"] != "~" else "", unhx(f["log"]).decode("utf-8", "replace")[-80:] if f["log"] != "~" else ""))
        if d["stack"] != f["stack"]: return ("mismatch", "value stack height differs: real %s model %s" % (f["stack"], d["stack"]))
        return None
    s3 = Stream("exprexec", cases if (cases and only == "exprexec") else mk_xe(), xe_model, xe_judge,
                lambda c, i, m: (m[0][:120]) if i[0] == "ok" and m and c["nops"] >= 2 else None, "expression programs through the literal script runner on real tokens")
    # ---- built-ins
    def rtext(maxlen=12):
        return "".join(rng.choice(TEXT_CHARS) for _ in range(rng.randrange(0, maxlen))).strip()
    def mk_b():
        cs = []
        n = 6000 if big else 800
        for i in range(n):
            k = rng.choice(["mid", "sizeof", "replace", "chr", "array", "sizeofarr", "dots"])
            if k == "mid":
                s = rtext(); a = rng.randint(0, 14); b = rng.randint(0, 14)
                src = "PRINT(MID({%s},%d,%d))" % (s, a, b); mreq = "builtin mid %s %d %d" % (hx(s), a, b)
            elif k == "sizeof":
                s = rtext(20); src = "PRINT(SizeOf({%s}))" % s; mreq = "builtin sizeof %s" % hx(s)
            elif k == "replace":
                s = rtext(16); a = rng.choice(["a", "b", "ab", "é", "X", "0", rtext(3) or "c"]); b = rng.choice(["", "Z", "ab", "€€"])
                if rng.random() < 0.5: s = s + a + s[:3] + a
                src = "PRINT(REPLACE({%s},{%s},{%s}))" % (s, a, b); mreq = "builtin replace %s %s %s" % (hx(s), hx(a), hx(b))
            elif k == "dots":
                s = rtext(12); a = rng.choice(["a", "b", "X", "é"]); b = rng.choice(["", "Z", "qq"])
                s = s + a + a
                src = "STR TXT={%s} TXT.s({%s},{%s}) PRINT(TXT)" % (s, a, b); mreq = "builtin replace %s %s %s" % (hx(s), hx(a), hx(b))
            elif k == "chr":
                c = rng.choice([65, 97, 48, 0x3042, 0xE9, 0x1F600, rng.randint(33, 126)])
                src = "PRINT(CHR(%d))" % c; mreq = "builtin chr %d" % c
            elif k == "array":
                arr = [rng.randint(-9, 99) for _ in range(rng.randrange(1, 7))]; ix = rng.randrange(0, len(arr))
                form = rng.random(); nm = rng.choice(["A", "Arr", "ZZTop"]); lit = ",".join(map(str, arr))
                if form < 0.5: src = "ARRAY %s=(%s) PRINT(%s(%d))" % (nm, lit, nm, ix)
                elif form < 0.7 and len(arr) >= 2:      # (`(61)` alone is a parenthesised number, not a one-element array)
                    # an array assigned again with a plain `=` is still indexed from 0
                    old_ = ",".join(str(rng.randint(0, 9)) for _ in range(rng.randrange(1, 5)))
                    src = "ARRAY %s=(%s) %s=(%s) PRINT(%s(%d))" % (nm, old_, nm, lit, nm, ix)
                elif form < 0.85 and len(arr) >= 2:
                    # ... and so is an array received as a function parameter
                    src = "FUNCTION FQ(QP){ PRINT(QP(%d)) } FQ((%s))" % (ix, lit)
                else: src = "ARRAY %s=(%s); INT IX=%d; PRINT(%s(IX))" % (nm, lit, ix, nm)
                mreq = "expr I%d" % arr[ix]
            elif rng.random() < 0.3:
                # an array whose elements are arrays: SizeOf counts the top-level elements, indexing returns the inner array
                inner = [[rng.randint(0, 9) for _ in range(rng.randrange(1, 4))] for _ in range(rng.randrange(2, 4))]
                defs = "".join("ARRAY A%d=(%s);" % (k, ",".join(map(str, a))) for k, a in enumerate(inner))
                src = defs + "ARRAY ZZA=(%s);PRINT(SizeOf(ZZA))" % ",".join("A%d" % k for k in range(len(inner))); mreq = "expr I%d" % len(inner)
            else:
                arr = [rng.randint(0, 99) for _ in range(rng.randrange(1, 9))]
                src = "ARRAY A=(%s) PRINT(SizeOf(A))" % ",".join(map(str, arr)); mreq = "expr I%d" % len(arr)
            if k in ("mid", "replace", "chr", "sizeof") and rng.random() < 0.2:
                # the argument list of a call may be laid out over several lines (a line break after `(`, after a comma, before `)`)
                src = re.sub(r"\},(?=[\d{])", lambda mo: "}," + rng.choice(["\n", "\n  ", " \n"]), src)
                src = re.sub(r"(\d),(?=\d)", lambda mo: mo.group(1) + "," + rng.choice(["\n", "\n\t"]), src)
                if rng.random() < 0.5: src = src.replace("CHR(", "CHR(\n").replace("SizeOf(", "SizeOf(\n")
            elif k == "array" and src.startswith("ARRAY") and "IX" not in src and rng.random() < 0.2:
                src = re.sub(r"\((\d+)\)\)$", lambda mo: "(\n%s))" % mo.group(1), src)
            cs.append(dict(req="run " + hx(src), src=src, show=src, mreq=mreq, kind=k, key="b%d" % i))
        for j, (src, mreq) in enumerate([("PRINT(MID({abc},10,2))", "builtin mid 616263 10 2"), ("PRINT(SizeOf({é€}))", "builtin sizeof " + hx("é€")), ("PRINT(MID({é€x},2,1))", "builtin mid %s 2 1" % hx("é€x"))]):
            cs.append(dict(req="run " + hx(src), src=src, show=src, mreq=mreq, kind="fixed", key="bf%d" % j))
        return cs
    def b_judge(c, impl, m):
        st, f = impl
        if st != "ok": return ("violation", "built-in did not return normally: %s" % st)
        pr = prints(f["log"])
        want = unhx(m[0].split("out=")[1].split(" ")[0]).decode("utf-8", "replace") if "out=" in m[0] else None
        if len(pr) != 1 or pr[0] != want: return ("violation", "PRINT shows %r, specified value %r" % (pr, want))
        return None
    s2 = Stream("builtins", cases if (cases and only == "builtins") else mk_b(), lambda c, st, f: [c["mreq"]], b_judge, lambda c, i, m: (c["kind"], m[0]), "string/array built-ins through PRINT")
    return [s for s in (s1, s3, s2) if only in (None, s.name)]
