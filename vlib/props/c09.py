"""C09 — macros, string variables and Rhythm blocks: streams."""
from ..core import Stream, hx, unhx, run_driver
from .. import mml

RULE = ("macro: string macros / string variables (#A, STR A) with 0..12 parameters (#?1..#?12), bodies with state changes, loops, Sub, several parameters; "
        "call sites at top level, in loops, Sub, inside other macros, and — with bodies that execute BREAK/CONTINUE/RETURN — inside FOR/WHILE bodies and user functions; the program that calls the macro and the program with the call replaced by the "
        "model's substituted body (Lean substArgs) must compile to identical bytes and logs; builtin: OctaveUnison/Unison5th/Unison3th/Unison vs their "
        "documented definitions; rhythm: Rhythm{...} blocks over built-in and user-redefined letters, parenthesised spans and Sub vs the model's expansion "
        "(Lean rhythmExpand) written inline. non-trivial = distinct outputs with >= 1 expansion")
ASSUMPTIONS = ["argument texts are balanced MML fragments without ',' at top level and without '#?' (they are text, substituted verbatim)",
               "a macro call is not placed inside a tuplet (the tuplet count is taken at lex time: documented limitation)"]
TRUSTED = ["the generator-side inlining of the call site"]

FRAGS = ["c", "d8", "e4.", "r", "o4", "v90", "q80", "l8", ">", "<", "[2 c d]", "n60,8", '"c d"', '"e"', '`c d`', "'ce'", "c d e", "g2^8"]

def body_with_params(rng, nparams):
    parts = []
    for _ in range(rng.randrange(1, 6)):
        if nparams and rng.random() < 0.5: parts.append("#?%d" % rng.randint(1, nparams))
        else: parts.append(rng.choice(FRAGS))
    if nparams and not any("#?" in p for p in parts): parts.append("#?1")
    # `{"` opens a string literal for the preprocessor: a body that begins with the octave-once mark `"` must also end with it (one literal)
    if parts[0].startswith('"') and len(parts) > 1: parts.insert(0, "c")
    return " ".join(parts)

def streams(tier, rng, P, only=None, cases=None):
    big = tier == "thorough"
    def mk_macro():
        raw = []
        n = 5000 if big else 600
        for i in range(n):
            npar = rng.choice([0, 0, 1, 2, 3, 10, 12])
            body = body_with_params(rng, npar)
            args = [rng.choice(FRAGS[:15]) for _ in range(npar)]
            # (also string variables named like the words that read a system value — TIMEPTR, TIMEPOS, KEY_SHIFT are not reserved)
            name = rng.choice(["#A", "#Mac", "#1", "#2nd", "#_x", "STRV", "STRV", "TIMEPTR", "TIMEPOS", "KEY_SHIFT", "Flute", "Snare1", "GrandPiano"])      # (… and like voice / drum constants)
            if name.startswith("#"): define = "%s={%s}" % (name, body); call0 = name
            else: define = "STR %s={%s};" % (name, body); call0 = name
            # (an argument position may be left empty: it still holds its place, the parameter is the empty text)
            if npar >= 2 and rng.random() < 0.2: args[rng.randrange(npar)] = ""
            call = call0 + ("(%s)" % ",".join(("{%s}" % a) if (a or rng.random() < 0.3) else "" for a in args) if npar else "")
            site = rng.choice(["%s", "%s", "[2 %s]", "Sub{ %s } r", "o5 %s v100", "#Outer={ %s r} #Outer",
                               # (… as a statement inside a function that is itself called inside an expression)
                               "Function FQ(){ %s d Result=1 } INT XQ=FQ() e", "Function GQ(){ %s Result=3 } l8 IF(GQ()=3){ g }"])
            if npar == 0 and rng.random() < 0.25:
                # a reference without arguments at the end of a line: what the next line begins with (a tuplet, a velocity step) is the next command
                site = rng.choice(["%s\n{f g a}4 b", "%s // play it\n{c d}4 e", "%s\n(e) f", "l8 %s\n{c}2 d", "%s \n\n{g a}2", "%s /* x */\n( c"])
            # (also after declarations without an initial value: they leave nothing behind that a later call could pick up)
            pre = rng.choice(["", "l8 ", "o4 v80 ", "INT NQ ", "STR XQ l8 ", "ARRAY AQ; ", "Int NQ; Str XQ; "])
            raw.append(dict(define=define, call=call, site=site, pre=pre, body=body, args=args))
        # a nested block that begins with an octave-once mark (`{"d e}4`: a tuplet, not a string): the body ends at its own brace
        for body in ['c {"d e}4 ', 'Sub{ c {"e}8 } g', '{`c d}2 e', 'l8 [2 {"g a}4 ] c']:
            raw.append(dict(define="#A={%s}" % body, call="#A", site="%s f", pre="", body=body, args=[]))
            raw.append(dict(define="STR STRV={%s};" % body, call="STRV", site="%s f", pre="l8 ", body=body, args=[]))
        for i in range(n // 10):
            # texts that begin and end with the octave-once marks `"` / `` ` `` (MML commands, not quotation marks): as a whole argument and as
            # a whole string-variable body
            q = rng.choice(['"', '`']); inner = rng.choice(["c", "c d", "e8 g", "c d e"]); txt = q + inner + q
            k = rng.random()
            if k < 0.4: body = "#?1 e"; args = [txt]; name = rng.choice(["#A", "#Mac", "#1", "#_m"]); define = "%s={%s}" % (name, body); call = "%s({%s})" % (name, txt)
            elif k < 0.7: body = txt; args = []; define = "STR STRV={%s};" % txt; call = "STRV"
            else: body = "c #?2 #?1"; args = [txt, rng.choice(["d", txt])]; define = "STR STRV={%s};" % body; call = "STRV({%s},{%s})" % (args[0], args[1])
            raw.append(dict(define=define, call=call, site=rng.choice(["%s", "%s f", "[2 %s]"]), pre=rng.choice(["", "l8 "]), body=body, args=args))
        for i in range(n // 12):
            # two macros / string variables whose names are in a prefix relation, the shorter one called without arguments from a body
            # or site that also mentions the longer one
            kind = rng.choice(["#", "STR"])
            if kind == "#": shortn, longn = rng.choice([("#A", "#AB"), ("#M", "#Mac"), ("#Ri", "#Riff")])
            else: shortn, longn = rng.choice([("Rif", "Riff"), ("Pt", "Ptn"), ("Ab", "Abc")])
            lbody = rng.choice(["e g", "o5 c", "f8 a8", "r"])
            sbody = rng.choice(["c %s d", "%s", "l8 %s %s e", "[2 %s] c"]).replace("%s", longn)
            if kind == "#": define = "%s={%s} %s={%s}" % (longn, lbody, shortn, sbody)
            else: define = "STR %s={%s}; STR %s={%s};" % (longn, lbody, shortn, sbody)
            site = rng.choice(["%s", "[2 %s]", "Sub{ %s } r", "l8 %s c"])
            raw.append(dict(define=define, call=shortn, site=site, pre=rng.choice(["", "l8 "]), body=sbody.replace(longn, lbody), args=[]))
        for i in range(n // 10):
            # macro bodies that execute BREAK / CONTINUE / RETURN, called with arguments from inside FOR / WHILE bodies and user functions:
            # the control statement must act on the enclosing loop exactly as in the inlined text
            body = rng.choice(["IF(I==#?1){BREAK} c", "IF(I==#?1){CONTINUE} e", "c IF(I>=#?1){BREAK} d", "IF(I==#?1){RETURN(7)} g", "IF(I<#?1){CONTINUE} c #?2"])
            args = [str(rng.randint(0, 3)), rng.choice(["e", "r8", "o5"])]
            name = rng.choice(["#A", "#Mac"]); define = "%s={%s}" % (name, body)
            call = name + "(%s,{%s})" % (rng.choice(["%s", "{%s}"]) % args[0], args[1])      # a bare argument must be a number
            site = rng.choice(["FOR(INT I=0;I<4;I++){ %s d }", "INT I=0; WHILE(I<4){ I++; %s d }", "FUNCTION FA(){ FOR(INT I=0;I<3;I++){ %s a } RETURN(1) } FA()",
                               "FOR(INT I=0;I<3;I++){ FOR(INT J=0;J<2;J++){ %s d } e }"])
            raw.append(dict(define=define, call=call, site=site, pre="l8 ", body=body, args=args))
        outs = run_driver(["macrosubst %s %s" % (hx(r["body"]), " ".join(hx(a) for a in r["args"])) if r["args"] else "macrosubst %s" % hx(r["body"]) for r in raw])
        cs = []
        for i, (r, o) in enumerate(zip(raw, outs)):
            inl = unhx(o.split("out=")[1]).decode("utf-8", "replace") if "out=" in o else "?"
            a = r["pre"] + r["define"] + " " + (r["site"] % r["call"]) + " n100"
            b = r["pre"] + r["define"] + " " + (r["site"] % inl) + " n100"
            if r["define"].startswith(("#1", "#2", "#_")):
                # names that begin with a digit or an underscore: the inlined text stands without the definition (on the same lines), so that a
                # definition that is not taken as one is seen
                a = r["pre"] + r["define"] + "\n" + (r["site"] % r["call"]) + " n100"
                b = r["pre"] + "\n" + (r["site"] % inl) + " n100"
            cs.append(dict(req="compile2 %s %s" % (hx(a), hx(b)), src=a, src2=b, show="%s   vs   %s" % (a[:160], b[:160]), key="m%d" % i))
        for j, (a, b) in enumerate([("OctaveUnison{cde} f", "Sub{> cde <} cde f"), ("Unison5th{cde} f", "Sub{ Key=7 cde Key=0 } cde f"),
                                    ("Unison3th{c d} f", "Sub{ Key=4 c d Key=0 } c d f"), ("Unison{cde},7 f", "Sub{ Key=7 cde Key=0 } cde f"),
                                    ("#A={o#?1} #A(0) c", "o0 c"), ("STR BBB={o0 #?1 #?2 #?3} BBB({c},{d},{e})", "o0 c d e"),
                                    # a nested block that begins with an octave-once mark (`{"d e}4` is a tuplet, not a string): the body ends at its own brace
                                    ('#A={c {"d e}4 } #A f', 'c {"d e}4  f'), ('STR AQ={c {"d e}4 } AQ f', 'c {"d e}4  f'), ('#A={Sub{ c {`e}8 } g} l8 #A f', 'l8 Sub{ c {`e}8 } g f')]):
            cs.append(dict(req="compile2 %s %s" % (hx(a), hx(b)), src=a, src2=b, show="%s   vs   %s" % (a, b), key="builtin%d" % j))
        return cs
    def judge(c, impl, m):
        st, f = impl
        if st != "ok": return ("violation", "macro program did not compile normally: " + st)
        if f["bin1"] != f["bin2"]: return ("violation", "a macro call does not produce the output of its substituted text: %r vs %r" % (c["src"][:140], c["src2"][:140]))
        if "\x7f" in c["src"]: return None      # (an undefined 0x7F is passed on and reported as an unknown character: the wording of that report is not compared)
        if f["log1"] != f["log2"]: return ("violation", "logs differ between the call and the inlined text")
        return None
    s1 = Stream("macro", cases if (cases and only == "macro") else mk_macro(), lambda c, st, f: [], judge,
                lambda c, i, m: i[1].get("bin1") if i[0] == "ok" else None, "macro call vs inlined body", timeout_case=20.0)
    def mk_rhythm():
        raw = []
        n = 3000 if big else 400
        for i in range(n):
            defs = {}
            if rng.random() < 0.4:
                for _ in range(rng.randrange(1, 3)):
                    ch = rng.choice("bshxkQ@\x7f"); defs[ch] = rng.choice(["n40,", "n35,", "n60,", "r", "Sub{n36,}n42,", "Sub{n36,}Sub{n38,}n46,", "[2 n41,16]n43,", "'n36,n42,'", "{n38,n38,n38,}"])   # definitions may hold nested blocks
            text = ""
            for _ in range(rng.randrange(1, 10)):
                x = rng.random()
                if x < 0.6: text += rng.choice("bshmcHMLo_" + "".join(defs.keys()) + ("\x7f" if rng.random() < 0.2 else ""))      # (0x7F: the last slot of the table, undefined unless `$` defined it)
                elif x < 0.75: text += (rng.choice(["4", "8", "16", "2"]) if text and text[-1] in "bshmcHMLo_" else " ")   # a length only directly after a letter
                elif x < 0.85: text += "(" + rng.choice(["c", "v100", "o5", "q50", "v(100) o3 c4", "q(50) d", "o(3) e v(90)", "TR(2) c TR(1)"]) + ")"
                elif x < 0.92: text += rng.choice(["Sub{b}", "SUB{s}"])
                else: text += rng.choice(["[2 b s]", "r", "l8"])
            raw.append(dict(defs=defs, text=text))
        outs = run_driver(["rhythm %s %s" % (",".join("%d:%s" % (ord(k), hx(v)) for k, v in r["defs"].items()) or "~", hx(r["text"])) for r in raw])
        cs = []
        for i, (r, o) in enumerate(zip(raw, outs)):
            exp = unhx(o.split("out=")[1]).decode("utf-8", "replace") if "out=" in o else "?"
            pre = " ".join("$%s{%s}" % (k, v) for k, v in r["defs"].items())
            kw = rng.choice(["Rhythm", "RHYTHM", "R"])
            a = (pre + " " if pre else "") + "%s{%s} n100" % (kw, r["text"]); b = (pre + " " if pre else "") + exp + " n100"
            cs.append(dict(req="compile2 %s %s" % (hx(a), hx(b)), src=a, src2=b, show="%s   vs   %s" % (a[:160], b[:160]), key="r%d" % i))
        return cs
    s2 = Stream("rhythm", cases if (cases and only == "rhythm") else mk_rhythm(), lambda c, st, f: [], judge,
                lambda c, i, m: i[1].get("bin1") if i[0] == "ok" else None, "Rhythm block vs expanded text", timeout_case=20.0)
    return [s for s in (s1, s2) if only in (None, s.name)]
