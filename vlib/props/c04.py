"""C04 — note-length expressions: streams."""
from ..core import Stream, hx

RULE = ("calc: length strings from the grammar [%]?[-]?digits? dots? ((^|+) part)* (time bases 48..32767, defaults 0..4*tb) through "
        "the real runner::calc_length; judged against the closed form headVal+sumVals (Lean, from the generator's syntax tree) and "
        "compared with the model calcLength on the text. pipeline: `TimeBase l r<L> n60` sources — the tick of the note after the rest "
        "must be the documented value, also with blanks/tabs/bar lines between the parts and '^' parts continued on later lines (after blank lines and comments); bang: !L arguments (TIME(!L), read_arg_value and read_value positions). "
        "non-trivial = distinct (value, number of parts) with >= 1 part or dot")
ASSUMPTIONS = ["f32 dot arithmetic is exact for |v|*15 < 2^24 (all generated cases); outside that domain the model's exact arithmetic is not claimed",
               "a head value n <= 0 gives 0 and a part value 0 gives the default (code behaviour kept; the grammar's documented domain is n >= 1)"]
TRUSTED = ["Len.headVal / Len.partVal (closed form) are my reading of the documented length rules"]

def gen_part(rng, first):
    pct = rng.random() < 0.2
    has = rng.random() < (0.85 if first else 0.7)
    neg = has and rng.random() < 0.05
    if has:
        if pct: d = str(rng.choice([0, 1, 10, 96, 127, 128, 480, 1000, rng.randint(0, 5000)]))
        else: d = str(rng.choice([1, 2, 3, 4, 6, 8, 12, 16, 24, 32, 48, 64, 96, 128, 5, 7, 0, 100, 192, rng.randint(1, 400)]))
        if rng.random() < 0.05: d = "0" + d
    else:
        d = ""
    dots = rng.choice([0, 0, 0, 1, 1, 2, 3, 4]) if (has or first or neg) else 0
    if not has and not neg and not first: dots = 0
    if not has and pct and not first: pass
    return dict(pct=pct, neg=neg, digs=d, dots=dots)

def render(p):
    return ("%" if p["pct"] else "") + ("-" if p["neg"] else "") + p["digs"] + "." * p["dots"]

def syn(p):
    return "%d:%d:%s:%d" % (p["pct"], p["neg"], p["digs"] or "~", p["dots"])

def gen_expr(rng, no_neg_head=False, layout=False, plus_ok=False):
    h = gen_part(rng, True)
    if no_neg_head: h["neg"] = False
    ps = [(rng.choice("^^^+"), gen_part(rng, False)) for _ in range(rng.choice([0, 0, 1, 1, 2, 3, 6]))]
    if no_neg_head and ps and render(h) == "" and not plus_ok:
        ps[0] = ("^", ps[0][1])      # after a note letter a leading '+' would be a sharp, not a separator
    # a part consisting of '%' alone followed by nothing numeric is fine ("^%" adds default)
    text = render(h) + "".join(sep + render(p) for sep, p in ps)
    s = syn(h) + "".join(";%d/%s" % (ord(sep), syn(p)) for sep, p in ps)
    if layout:
        # inside a source text blanks, tabs and bar lines may stand between the parts, and a part introduced by '^' may stand on a later line
        # (after blank lines, line comments and range comments)
        text = render(h)
        for sep, p in ps:
            lay = rng.choice(["", " ", "\t", " | ", "  "])
            if sep == "^" and rng.random() < 0.5: lay = rng.choice(["\n", "\n\n", " \n  ", "\n// k\n", "\n\n\n", "\n/* k */ ", "\n\t\n// a\n// b\n"])
            text += lay + sep + render(p)
    return text, s, len(ps) + h["dots"]

def streams(tier, rng, P, only=None, cases=None):
    big = tier == "thorough"
    def mk_calc():
        cs = []
        n = 20000 if big else 3000
        for i in range(n):
            text, s, k = gen_expr(rng)
            tb = rng.choice([48, 96, 96, 120, 192, 384, 480, 960, 32767, rng.randint(48, 32767)])
            d = rng.choice([tb, tb // 2, tb * 4, 0, 1, rng.randint(0, 4 * tb)])
            cs.append(dict(req="calc_length %s %d %d" % (hx(text), tb, d), show="calc_length(%r, %d, %d)" % (text, tb, d), syn=s, tb=tb, d=d, k=k, key="c%d" % i))
        return cs
    def calc_model(c, st, f):
        return [c["req"], "lenspec %d %d %s" % (c["tb"], c["d"], c["syn"])]
    def calc_judge(c, impl, m):
        st, f = impl
        if st != "ok": return ("violation", "calc_length did not return: " + st)
        if m[1] != "ok out=" + f["out"]: return ("violation", "calc_length = %s but the documented value is %s" % (f["out"], m[1]))
        if m[0] != "ok out=" + f["out"]: return ("mismatch", "model calcLength = %s, implementation = %s" % (m[0], f["out"]))
        return None
    def calc_nt(c, impl, m):
        return (impl[1].get("out"), c["k"]) if impl[0] == "ok" and c["k"] > 0 else None
    s1 = Stream("calc", cases if (cases and only == "calc") else mk_calc(), calc_model, calc_judge, calc_nt, "length strings through runner::calc_length")
    # ---- whole pipeline: the tick of a note after a rest of length L / a tuplet / `l`
    def mk_pipe():
        cs = []
        n = 3000 if big else 500
        for i in range(n):
            form = rng.choice(["rest", "note", "noten", "l", "lsub", "bang_time", "bang_arg", "after_res", "nol", "nol", "div", "div", "divin", "chord", "chord"])
            # (in the length slot of a numbered note a leading '+' is a separator after an omitted head, as '^' is: `n61,+4`)
            # (… and after the rest letter: `r+8` is the default length tied to an eighth)
            lay_ = form in ("rest", "note", "l") and rng.random() < 0.4
            text, s, k = gen_expr(rng, True, layout=lay_, plus_ok=(form == "noten" or (form == "rest" and not lay_)))
            if form == "rest" and not lay_ and rng.random() < 0.25:
                e0 = dict(pct=False, neg=False, digs="", dots=0); p0 = dict(pct=False, neg=False, digs=rng.choice(["4", "8", "2", "16", ""]), dots=rng.choice([0, 0, 1]))
                text = "+" + render(p0); s = syn(e0) + ";%d/%s" % (ord("+"), syn(p0)); k = 1 + p0["dots"]
            if form == "noten" and rng.random() < 0.5:
                # the bare shapes `+N` / `^N` (one plain number after an omitted head), with and without the comma before the slot
                e0 = dict(pct=False, neg=False, digs="", dots=0); p0 = dict(pct=False, neg=False, digs=rng.choice(["4", "8", "2", "16", "0", "1"]), dots=rng.choice([0, 0, 1]))
                sep0 = rng.choice("+^")
                text = sep0 + render(p0); s = syn(e0) + ";%d/%s" % (ord(sep0), syn(p0)); k = 1 + p0["dots"]
            tb = rng.choice([48, 96, 120, 480, 960])
            tbw = tb      # the number written after TimeBase (form `nol` also writes numbers outside 48..32767: the time base in effect is the clamped one)
            dtext, ds, _ = gen_expr(rng, True)
            if form == "rest": src = "TimeBase(%d) l%s r%s n60" % (tb, dtext, text)
            elif form == "note": src = "TimeBase(%d) l%s c%s n60" % (tb, dtext, text)
            elif form == "chord":
                # the length written after a chord moves the pointer from the chord's start, whatever stands between the quotes (rests and
                # numbered notes included); a chord's length must begin with a digit or `^`
                if not text or text[0] not in "0123456789^": continue
                src = "TimeBase(%d) l%s %s'%s'%s n60" % (tb, dtext, rng.choice(["", "r4 ", "c "]), rng.choice(["ce", "ce r8", "c r", "ce n67,8", "r8 ce", "c e g", "n61 r"]), text)
                if src.split("'")[0].endswith(("r4 ", "c ")): continue      # (keeps the sentinel's expected tick the bare value)
            elif form == "div": src = "TimeBase(%d) l%s %s%s n60" % (tb, dtext, rng.choice(["{cde}", "{c d}", "Div{c}", "{c {d e}}", "{[3 c]}"]), text)   # the length written after a tuplet
            elif form == "divin":
                # inside an enclosing tuplet the default of the inner tuplet's length is the share of the outer one; after both, the outer length counts
                src = "TimeBase(%d) l%s {c {d e}^}%s n60" % (tb, dtext, text)
            elif form == "noten": src = "TimeBase(%d) l%s n61%s n60" % (tb, dtext, ("," + text) if text else "")   # numbered note: its length slot
            elif form == "after_res":
                # a used-up length reservation (l.onNote / l.onCycle stopped by `l`) leaves the default length alone: an omitted length is again `l`
                k = rng.choice([1, 2, 3])
                res = [rng.choice([("!4", tb), ("!2", 2 * tb), ("!8", tb // 2), ("!1", 4 * tb)]) for _ in range(k)]
                src = "TimeBase(%d) l%s l.onNote(%s) %s r%s n60" % (tb, dtext, ",".join(r_[0] for r_ in res), " ".join(rng.choice(["c", "d8", "e"]) for _ in range(k)), text)
                off = sum(r_[1] for r_ in res)
            elif form == "nol":
                # no `l` command at all: the default length is a quarter note of the time base in effect, on the first track too
                if rng.random() < 0.3: tbw = rng.choice([24, 1, 47, 40000, 32768, 65536]); tb = min(max(48, tbw), 32767)
                src = "%s r%s n60" % (rng.choice(["TimeBase(%d)", "TimeBase=%d", "TIMEBASE(%d)", "TimeBase(96) TimeBase(%d)"]) % tbw, text); ds = None
            elif form == "l":
                if rng.random() < 0.15:
                    nd = rng.choice([1, 1, 2, 3]); text = "." * nd; s = "0:0:~:%d" % nd; k = 1      # dots alone: the dotted default (`l.`)
                # (the rest may follow the length directly, also after dots alone: `l.r`, `l4.r`)
                sep = "" if (text and text[-1] in ".0123456789" and rng.random() < 0.5) else " "
                src = "TimeBase(%d) l%s%sr n60" % (tb, text, sep); ds = None
            elif form == "lsub":
                # a default length set inside Sub{ } (or a loop) stays in force after the block: only a tuplet restores it
                src = "TimeBase(%d) l1 %s r n60" % (tb, rng.choice(["Sub{ l%s c }", "Sub{ l%s }", "[1 l%s ] Sub{ c }", "Sub{ Sub{ l%s } d }"]) % text); ds = None
            elif form == "bang_time": src = "TimeBase(%d) TIME(!%s) n60" % (tb, text); ds = "bang"
            else: src = "TimeBase(%d) TIME=!%s; n60" % (tb, text); ds = "bang"
            if not text and form in ("bang_time", "bang_arg", "l", "lsub"):
                continue
            cs.append(dict(req="run " + hx(src), src=src, show=src, syn=s, dsyn=ds, form=form, tb=tb, k=k, key="p%d" % i, off=(off if form == "after_res" else 0)))
        return cs
    def pipe_model(c, st, f):
        # value of the default-length expression (evaluated with def = tb), then the expression
        if c["dsyn"] in (None, "bang"):
            return ["lenspec %d %d %s" % (c["tb"], c["tb"], c["syn"])]
        return ["lenspec %d %d %s" % (c["tb"], c["tb"], c["dsyn"])]
    def last_on_time(f):
        evs = f["tracks"].split(";")[0].split(",")
        ons = [e for e in evs if e.startswith("on:")]
        for e in reversed(ons):
            p = e.split(":")
            if p[3] == "60": return int(p[1])
        return None
    def pipe_judge(c, impl, m):
        return None   # second phase decides (needs the default first)
    s2cases = cases if (cases and only == "pipeline") else mk_pipe()
    def pipe_model2(c, st, f):
        return pipe_model(c, st, f)
    # two-step evaluation: we need lenspec(tb, dflt, syn) where dflt itself comes from lenspec.  Do it with
    # a nested request: first the default, then (in judge) compare using a second driver call prepared here.
    def pipe_model_full(c, st, f):
        if c["dsyn"] in (None, "bang"):
            return ["lenspec %d %d %s" % (c["tb"], c["tb"], c["syn"])]
        # default length = value of l<dtext> evaluated with def = tb; we cannot chain requests, so ask for all
        # candidate defaults: the driver evaluates `lenspec2 tb dsyn syn`
        return ["lenspec2 %d %s %s" % (c["tb"], c["dsyn"], c["syn"])]
    def pipe_judge_full(c, impl, m):
        st, f = impl
        if st != "ok": return None
        got = last_on_time(f)
        if got is None: return ("mismatch", "no sentinel note found")
        want = int(m[0].split("out=")[1]) + c.get("off", 0)
        if got != want:
            return ("violation", "note after %s of length expression starts at tick %d, documented value %d" % (c["form"], got, want))
        return None
    def pipe_nt(c, impl, m):
        return (c["form"], m[0]) if impl[0] == "ok" and c["k"] > 0 else None
    s2 = Stream("pipeline", s2cases, pipe_model_full, pipe_judge_full, pipe_nt, "length expressions inside sources")
    # ---- the length argument of the ramp commands written with `=` (Cresc=L,lo,hi …): an omitted head or an empty `^` part is the
    #      current default length there too — the same ramp as with the default written out
    def mk_rd():
        cs = []
        dl = [("l8", "8"), ("l2", "2"), ("l16", "16"), ("l4.", "4."), ("l%30", "%30"), ("", "4")]
        for i in range(300 if big else 60):
            lcmd, dtxt = rng.choice(dl)
            a_len, b_len = rng.choice([("4^", "4^" + dtxt), ("^", dtxt + "^" + dtxt), ("^16", dtxt + "^16"), ("2^^", "2^%s^%s" % (dtxt, dtxt)), ("8.^", "8.^" + dtxt), ("%24^", "%24^" + dtxt)])
            cmd = rng.choice(["Cresc", "Decresc", "CRESC"]); lo = rng.randint(0, 127); hi = rng.randint(0, 127)
            tail = rng.choice(["r1 c", "c d e f", "l1 c"])
            a = "%s %s=%s,%d,%d %s" % (lcmd, cmd, a_len, lo, hi, tail); b = "%s %s=%s,%d,%d %s" % (lcmd, cmd, b_len, lo, hi, tail)
            cs.append(dict(req="compile2 %s %s" % (hx(a), hx(b)), src=a, src2=b, show="%s   vs   %s" % (a, b), key="rd%d" % i))
        return cs
    def rd_judge(c, impl, m):
        st, f = impl
        if st != "ok": return ("violation", "ramp program did not compile normally: " + st)
        if f["bin1"] != f["bin2"]: return ("violation", "an omitted part of a ramp's length is not the default length: %s vs %s" % (c["src"][:100], c["src2"][:100]))
        return None
    s3 = Stream("rampdefault", cases if (cases and only == "rampdefault") else mk_rd(), lambda c, st, f: [], rd_judge, lambda c, i, m: i[1].get("bin1") if i[0] == "ok" else None,
                "omitted parts in the length argument of Cresc= / Decresc=")
    return [s for s in (s1, s2, s3) if only in (None, s.name)]
