"""C08 — output depends only on the source: streams."""
import os, subprocess, tempfile, shutil
from ..core import Stream, hx, unhx, run_oracle, WORK
from .. import mml

NEED_CLI = True
RULE = ("determinism: every source (core programs, scripts, macros, Random-using programs with and without RandomSeed, malformed text, programs whose log is full while PRINT arguments still draw random numbers, sample songs) is compiled "
        "by the three library entry points x debug 0/1 x message language en/ja in N fresh oracle processes (fresh hash seeds), and by one SakuraCompiler object "
        "after random earlier compilations; all MIDI bytes must be identical, logs identical per language (and identical across processes); cli: for programs "
        "without randomness the command-line binary (fresh process each time) writes the same file. non-trivial = distinct byte strings compared")
ASSUMPTIONS = ["the CLI reseeds the random generator from the clock by design: programs using Random without RandomSeed are compared across library entry points only",
               "debug 1 makes the library print to stdout; only the returned bytes and log are compared"]
TRUSTED = ["process-level isolation of the oracle workers (each run_oracle call starts new processes)"]

SRC_FIXED = ["c d e", "v.Random(20) q.Random(10) c d e f g a b", "RandomSeed(5) t.Random(10) c d e f", "RandomSeed(0) v.Random(30) t.Random(9) c d e f g", "RANDOM_SEED=0 q.Random(20) l8 cdefgab", "RandomSeed(4294967296) PRINT(Random(100)) v.Random(40) c d e",
             "RandomSeed(0) PRINT(Random(1000)) PRINT(RandomSelect(1,2,3,4,5)) o.Random(2) c d e", "PRINT(Random(100)) PRINT(Random(100))", "INT A=1 PRINT(A) ZZZ ! c",
             "TR(3) c TR(1) d", "FUNCTION F(A){RETURN(A*2)} PRINT(F(4))", "#A={c d} #A #A", "ドレミ", "KeyFlag+(fc) c d e f", "PRINT(RandomSelect(1,2,3,4,5))",
             # all-ASCII sources that use the sutoton preprocessor (user word definitions): every entry point must run the same preprocessing
             "~{Riff}={l8 cdef} o5 Riff g Riff", "~{xy}={r} c xy d", "~{Up}={>} c Up c /* ascii only */", "~{q}={v127} cq",
             # the log is full (100 entries) while PRINT arguments still draw random numbers: the music after it must not depend on debug/entry point
             "RandomSeed(7) [120 Print(Random(100))] v.Random=40 l8 cdefgab>c", "[101 PRINT(Random(9))] v.Random(20) c d e f",
             "FOR(INT I=0;I<105;I++){ PRINT(Random(5)); } v.Random=30 c d e", "[100 PRINT(Random(9))] t.Random(9) c d e f", "[99 PRINT(Random(9))] q.Random(9) c d e f"]

def streams(tier, rng, P, only=None, cases=None):
    big = tier == "thorough"
    nproc = 10 if big else 3
    def mk():
        srcs = list(SRC_FIXED)
        n = 600 if big else 80
        for i in range(n):
            k = rng.random()
            if k < 0.5: srcs.append(mml.pr(mml.gen_program(rng, depth=2, maxlen=8)))
            elif k < 0.7: srcs.append(rng.choice(["v.Random(%d) " % rng.randint(1, 30), "t.Random(%d) " % rng.randint(1, 9), "o.Random(2) ", "RandomSeed(%d) q.Random(9) " % rng.choice([0, 0, 1, 4294967296, rng.randint(1, 999)]), "RandomSeed(0) v.Random(25) "]) + mml.pr(mml.gen_program(rng, depth=1, maxlen=6)))
            elif k < 0.74: srcs.append("%s[%d PRINT(%s)] %s c d e f g" % (rng.choice(["", "RandomSeed(%d) " % rng.randint(1, 99)]), rng.choice([98, 100, 101, 130, 250]), rng.choice(["Random(50)", "Random(3)+1", "RandomSelect(1,2,3)"]), rng.choice(["v.Random(%d)" % rng.randint(5, 40), "t.Random(7)", "q.Random(30)", "o.Random(2)"])))
            elif k < 0.85: srcs.append(rng.choice(["INT A=%d; FOR(INT I=0;I<3;I++){ PRINT(A+I) c }", "STR S={c d} S S PRINT({x%d})", "INT N=%d IF(N>5){ c }ELSE{ d } PRINT(N)"]) % rng.randint(0, 9))
            else: srcs.append(mml.pr(mml.gen_program(rng, depth=1, maxlen=5)) + rng.choice([" !", " ZZZ", " (", " }", " あ"]))
        # user functions and variables named like commands of the language (the reserved-word table is a hash map): the outcome — accepted,
        # warned or refused — must be the same in every compilation
        from tools import gen_tables
        try: cmd_names = [r["name"] for r in gen_tables.extract(P.srcdir)["sysFuncs"] if r["name"][:1].isupper() and r["name"].isalnum()]
        except Exception: cmd_names = ["Chorus", "Reverb", "Expression", "Modulation", "Tempo", "Voice", "PanPot", "Sustain"]
        for _ in range(60 if big else 14):
            nm = rng.choice(cmd_names)
            srcs.append(rng.choice(["Function %s(N){ Result = N + 12 } Int K = %s(48) n(K)", "FUNCTION %s(N){ RETURN(N+1) } PRINT(%s(2)) c",
                                    "Int %s=3; PRINT(%s) c", "STR %s={c d}; %s e"]) % (nm, nm))
        # every command directly after an IF block (where the lexer looks for ELSE): the same tokens in every compilation
        for _ in range(150 if big else 45):
            nm = rng.choice([n_ for n_ in cmd_names if n_.upper() not in ("END", "INCLUDE", "ELSE", "PLAY", "FUNCTION", "WHILE", "FOR", "IF", "RETURN", "BREAK", "CONTINUE")])
            srcs.append(rng.choice(["o5 IF(1==1){ c } %s(100) d", "IF(0){ c } %s(1) e", "IF(1){ d }\n%s(64) c", "INT Q=1 IF(Q){ e } %s=5; g"]) % nm)
        # … and so must parameters and local variables of a user function that are named like commands
        for _ in range(40 if big else 10):
            a, b, c3 = rng.choice(cmd_names), rng.choice(cmd_names), rng.choice(cmd_names)
            srcs.append(rng.choice(["Function Swell(Int %s, Int %s){ l8 c d e } TR(1) o5 l4 Swell(100, 40) g PRINT({%s})",
                                    "FUNCTION Fq(%s, %s=3){ INT %s=1 RETURN(5) } PRINT(Fq(1)) c",
                                    "Function Gq(Str %s){ Int %s = 2; Int %s = 3; c } Gq({a}) d"]) % (a, b, c3))
        # values of failing built-in calls (wrong argument counts, bad indices) that end up in the file as meta text: the message language
        # changes the wording of the log, never such a value
        for fn in ['MID("abcdef",2)', "MID({x})", "MID()", "REPLACE({abc},{b})", "REPLACE({a})", "REPLACE()", "HEX()", "CHR()", "SizeOf()", "ABS()", "MID({abc},{q},{r})", "ASC()", "NoSuchFn(3)"]:
            for kw in ["TrackName", "Text", "Lyric"]:
                srcs.append("%s=%s c" % (kw, fn))
            srcs.append("STR S=%s; TrackName=S; PRINT(S) c" % fn)
        # stray characters inside conditions and argument lists (the lexer skips them, with a message only when debugging): what is
        # skipped must not depend on the debug level
        srcs += ["Function ADD(A,B){ Result=A+B; } Int X=ADD(60;4); n(X)", "Int N=4; IF(N\u00d72==8){ c }ELSE{ d }", "IF(1 ?){c}ELSE{d}", "INT X=0 WHILE(X<3 @){ X++ c }",
                 "FOR(INT I=0; I<2 ~; I++){ c }", "PRINT(1 ! 2) c", "INT A=(1 ?2) n(60+A)", "INT A=3 IF(A ?>2){ e }ELSE{ f }", "FUNCTION G(A){ RETURN(A) } n(G(60 $4))", "IF(2 \u3042>1){ c }ELSE{ d }"]
        # the same length texts under different time bases and default lengths, one compilation after another in one process: nothing
        # computed for one song may be remembered for the next
        tbsrcs = ["c8 d4. e16", "TimeBase(48) l2 c8 d4. e16", "TimeBase(480) l4 c8 d4. e16", "TimeBase(192) l1 c8 d4. e16 r8", "l8 c8 d4. e16", "TimeBase(960) c8 d4. e16 c", "TimeBase(48) c8 d4. e16 c"]
        srcs += tbsrcs
        # byte-level layout of the source file: line ends, byte-order mark, line breaks inside strings and comments — the command-line tool
        # must hand the library's entry point the text as it is
        srcs += ['TrackName={"ab\r\ncd"}\r\nl8 cde\r\n', 'Text{"a\rb"} c\rd', "\ufeffc d e", "c\r\nd\r\ne\r\n", "/* x\r\ny */ c\r\n", "PRINT({a\r\nb}) c\r\n",
                 'Lyric={"la\r\n"} c\n\n\r\n', "STR S={c\r\nd} S\r\n", 'Copyright={"x\ty \u3000z"}\tc', "c \u2028 d", 'TrackName={"a\r\n\r\nb"} r c\r']
        for _ in range(40 if big else 8):
            srcs.append(mml.pr(mml.gen_program(rng, depth=2, maxlen=6), sep="\r\n") + rng.choice(["\r\n", "", "\r"]) + rng.choice(['TrackName={"p\r\nq"}', 'Text{"x\r\n"}', ""]))
        # PlayFrom / `?` after several controllers and programs on one or more channels: the values re-issued at the point come in one order
        srcs += ["TR=1 CH=1 y1,10 y7,100 y10,20 y11,90 y91,40 y93,30 @5 c d ? e f", "y7,100 y10,20 c PlayFrom(1:2:0) d e f",
                 "CH=3 y7,90 @9 CH=5 y7,80 y1,2 @3 c r ? d", "TR=2 y64,127 y7,1 y11,2 c TR=3 y10,5 y91,6 d TIME(2:1:0) ? e"]
        for _ in range(30 if big else 6):
            ccs = rng.sample(range(0, 128), rng.randrange(2, 9))
            srcs.append(" ".join("y%d,%d" % (no, rng.randint(0, 127)) for no in ccs) + " @%d c d %s e" % (rng.randint(1, 128), rng.choice(["?", "PlayFrom(1:3:0)", "TIME(1:2:0) ?"])))
        srcs += [s for s in mml.sample_sources()]
        # variants: entry x debug x lang, each in nproc fresh processes
        variants = [(e, d, l) for e in ("lib", "midi", "obj") for d in (0, 1) for l in ("en", "ja")]
        results = {}     # (src index, variant, run) -> (bin, log)
        for run in range(nproc):
            reqs = []; idx = []
            for si, s in enumerate(srcs):
                for v in variants:
                    reqs.append("compile %s %d %s %s" % (hx(s), v[1], v[2], v[0])); idx.append((si, v))
            out = run_oracle(P, reqs, 20.0, tag="c08")
            for (si, v), line in zip(idx, out):
                results[(si, v, run)] = line
        # history: the object API after earlier compilations
        hist = {}
        reqs = []
        for si, s in enumerate(srcs):
            earlier = [rng.choice(srcs) for _ in range(rng.randrange(1, 4))]
            if s in tbsrcs: earlier = [x for x in tbsrcs if x != s]      # (all the other time bases first)
            reqs.append("objseq en 0 %s %s" % (" ".join(hx(e) for e in earlier), hx(s)))
        for si, line in enumerate(run_oracle(P, reqs, 30.0, tag="c08h")):
            hist[si] = line
        cs = []
        for si, s in enumerate(srcs):
            cs.append(dict(req="compile %s 0 en lib" % hx(s), src=s, show=s[:200], key="d%d" % si,
                           variants={"%s/%d/%s/%d" % (v[0], v[1], v[2], run): results[(si, v, run)] for v in variants for run in range(nproc)}, hist=hist[si],
                           uses_random=("Random" in s or "Rnd" in s) and "RandomSeed" not in s))
        return cs
    def judge(c, impl, m):
        st, f = impl
        if st != "ok": return ("violation", "baseline compile failed: " + st)
        base_bin = f["bin"]; logs = {"en": None, "ja": None}
        for name, line in c["variants"].items():
            parts = line.split(" ")
            if parts[0] != "ok": return ("violation", "variant %s did not compile: %s" % (name, parts[0]))
            d = dict(p.split("=", 1) for p in parts[1:] if "=" in p)
            if d["bin"] != base_bin: return ("violation", "MIDI bytes differ for entry/debug/lang/process %s" % name)
            e, dbg, lang, run = name.split("/")
            if e == "lib": lang = "en"      # the function API has no language parameter: always English
            if e != "midi":
                if logs[lang] is None: logs[lang] = d["log"]
                elif logs[lang] != d["log"]: return ("violation", "log text differs between runs/entry points (%s)" % name)
        h = c["hist"].split(" ")
        if h[0] != "ok": return ("violation", "object API failed after earlier compilations: " + h[0])
        hd = dict(p.split("=", 1) for p in h[1:] if "=" in p)
        if hd["bins"].split(",")[-1] != base_bin: return ("violation", "SakuraCompiler output depends on earlier compilations")
        if hd["log"] != (logs["en"] or "~"): return ("violation", "SakuraCompiler log depends on earlier compilations")
        # CLI (fresh process), only for programs without clock-seeded randomness
        if not c["uses_random"]:
            tmp = tempfile.mkdtemp(prefix="sv-cli-", dir=WORK)
            try:
                srcf = os.path.join(tmp, "a.mml"); outf = os.path.join(tmp, "a.mid")
                open(srcf, "w", encoding="utf-8").write(c["src"])
                for _ in range(2):
                    r = subprocess.run([P.cli, srcf, outf], stdout=subprocess.PIPE, stderr=subprocess.PIPE, timeout=60)
                    if r.returncode != 0: return ("violation", "command-line tool failed: rc=%d" % r.returncode)
                    got = open(outf, "rb").read().hex() or "~"
                    if got != base_bin: return ("violation", "command-line tool writes a different file than the library")
                    os.remove(outf)
            finally:
                shutil.rmtree(tmp, ignore_errors=True)
        return None
    s1 = Stream("determinism", cases if (cases and only == "determinism") else mk(), lambda c, st, f: [], judge,
                lambda c, i, m: i[1].get("bin") if i[0] == "ok" else None, "entry points x config x processes x history", timeout_case=30.0)
    return [s for s in (s1,) if only in (None, s.name)]
