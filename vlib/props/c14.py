"""C14 — TIME, MeasureShift, rests and PlayFrom: streams."""
from ..core import Stream, hx, unhx
from .. import gen, mml

RULE = ("time: TIME(m:b:t) and TIME(n) under every signature n/2,4,8,16, measure shifts and time bases — the tick of the following note in the real "
        "output must be the formula (Lean getTime); playfrom: random event lists through the real Track::play_from vs the declarative law pfLaw "
        "(independent of the model's loop) and vs the model; pfsrc: programs with PlayFrom(m:b:t)/'?' — remaining events shifted so that the point is "
        "tick 0, earlier notes omitted, latest program/controller values re-issued before the first remaining note; restshift: a program and the same "
        "program preceded by a rest of length L — every event later by exactly L, nothing else changed. "
        "non-trivial = distinct outputs with >= 2 events")
ASSUMPTIONS = ["rest-shift programs contain no absolute TIME/PlayFrom and no tempo ramps (those are absolute by definition)",
               "controller numbers outside 0..127 before the play-from point are ignored when re-issuing (repaired code)"]
TRUSTED = ["Driver.pfLaw (declarative PlayFrom law) and Time.getTime are my reading of the documented behaviour"]

def streams(tier, rng, P, only=None, cases=None):
    big = tier == "thorough"
    # ---- TIME formula
    def mk_time():
        cs = []
        n = 6000 if big else 800
        for i in range(n):
            tb = rng.choice([48, 96, 96, 120, 480, 960, 50, 49, 90, 100, 250, 333])      # also time bases whose whole note is no multiple of the denominator
            num = rng.choice([2, 3, 4, 5, 6, 7, 9, 12]); den = rng.choice([2, 4, 8, 16])
            sh = rng.choice([0, 0, 0, 1, 2, -1, 5])
            m = rng.randint(1, 60); b = rng.randint(1, num); t = rng.randint(0, 4 * tb // den - 1) if rng.random() < 0.8 else rng.randint(0, 2000)
            parts = []
            if tb != 96 or rng.random() < 0.3: parts.append("TimeBase(%d)" % tb)
            if (num, den) != (4, 4) or rng.random() < 0.3: parts.append("TimeSignature(%d,%d)" % (num, den))
            if sh != 0: parts.append(rng.choice(["MeasureShift(%d)", "System.MeasureShift(%d)", "MEASURE_SHIFT(%d)"]) % sh)
            if rng.random() < 0.85:
                kw = rng.choice(["TIME", "Time"])
                parts.append(rng.choice(["%s(%d:%d:%d)", "%s(%d:%d:%d);", "%s=%d:%d:%d;"]) % (kw, m, b, t))
                args = "%d,%d,%d" % (m, b, t)
            else:
                # (also ticks at and beyond the four-byte limit of a delta time: the file still carries the whole value)
                nn = rng.randint(0, 5000) if rng.random() < 0.8 else rng.choice([16383, 16384, 2097151, 2097152, 268435455, 268435456, 268435457, 300000000, 2147483653, 4294967301])
                if rng.random() < 0.25:
                    # the argument may be an expression over the system values (`TIMEBASE` is the time base, not a position)
                    k = rng.randint(0, 9); nn = tb * k
                    parts.append(rng.choice(["TIME(TIMEBASE*%d)", "TIME(%d*TIMEBASE)", "Time(TIMEBASE * %d)"]) % k); args = str(nn)
                else:
                    parts.append("TIME(%d)" % nn); args = str(nn)
            parts.append("n60")
            src = " ".join(parts)
            cs.append(dict(req="run " + hx(src), src=src, show=src, mreq="timespec %d %d %d %d %s" % (tb, num, den, sh, args), key="t%d" % i))
        return cs
    def time_judge(c, impl, m):
        st, f = impl
        if st != "ok": return ("violation", "program did not compile: " + st)
        ons = [e for e in f["tracks"].split(";")[0].split(",") if e.startswith("on:")]
        if not ons: return ("violation", "no note in the output")
        got = int(ons[-1].split(":")[1]); want = int(m[0].split("out=")[1])
        if got != want: return ("violation", "note placed at tick %d, TIME denotes tick %d" % (got, want))
        # ... and in the file that is written (the delta times carry the position, however large)
        try:
            from ..smfpy import smf_events
            trk = smf_events(f.get("bin", "~"))
            fons = [e for e in (trk[0] if trk else []) if e[1] == "on"]
        except Exception:
            fons = None
        if fons is not None and want >= 0:
            if not fons: return ("violation", "no note in the file")
            if fons[-1][0] != want: return ("violation", "in the file the note stands at tick %d, TIME denotes tick %d" % (fons[-1][0], want))
        return None
    s1 = Stream("time", cases if (cases and only == "time") else mk_time(), lambda c, st, f: [c["mreq"]], time_judge,
                lambda c, i, m: m[0], "TIME(m:b:t) placements")
    # ---- play_from on event lists
    def mk_pf():
        cs = []
        n = 6000 if big else 800
        for i in range(n):
            evs = gen.rand_track(rng, maxlen=rng.choice([6, 12, 25]), wild=(i % 4 == 0))
            p = rng.choice([0, 1, 10, 96, 200, 480, rng.randint(0, 1500)])
            cs.append(dict(req="playfrom %d %s" % (p, evs), show="play_from(%d) on %s" % (p, evs[:200]), p=p, evs=evs, key="pf%d" % i))
        # the same controllers and programs written several times, out of time order and on two channels of one track: the values
        # re-issued are the latest in time before the point, each on its own channel
        for i in range(1500 if big else 250):
            chs = rng.sample(range(16), 2); nos = rng.sample([0, 1, 7, 10, 11, 64, 91, 127], 2); l = []
            for _ in range(rng.randrange(2, 9)):
                t = rng.choice([0, 10, 96, 200, 480, rng.randint(0, 700)])
                if rng.random() < 0.7: l.append("cc:%d:%d:%d:%d:0:~" % (t, rng.choice(chs), rng.choice(nos), rng.randint(0, 127)))
                else: l.append("voice:%d:%d:%d:0:0:~" % (t, rng.choice(chs), rng.randint(0, 127)))
            l.append("on:%d:%d:60:48:100:~" % (rng.randint(0, 900), chs[0]))
            p = rng.choice([1, 10, 96, 200, 480, 700, rng.randint(0, 800)]); evs = ",".join(l)
            cs.append(dict(req="playfrom %d %s" % (p, evs), show="play_from(%d) on %s" % (p, evs[:200]), p=p, evs=evs, key="pfo%d" % i))
        return cs
    def pf_model(c, st, f): return [c["req"], "pflaw %d %s" % (c["p"], c["evs"])]
    def pf_judge(c, impl, m):
        st, f = impl
        if st != "ok": return ("violation", "play_from did not return: " + st)
        if m[1] != "ok ev=" + f["ev"]: return ("violation", "play_from result differs from the documented law: got %s want %s" % (f["ev"][:200], m[1][6:206]))
        if m[0] != "ok ev=" + f["ev"]: return ("mismatch", "model playFrom differs from the implementation")
        return None
    s2 = Stream("playfrom", cases if (cases and only == "playfrom") else mk_pf(), pf_model, pf_judge,
                lambda c, i, m: i[1].get("ev") if i[0] == "ok" and i[1].get("ev", "").count(",") >= 1 else None, "event lists through Track::play_from")
    # ---- programs with a play-from point: the real event snapshot + real bytes are judged by C02's predicate with the point applied by the law
    def mk_src():
        cs = []
        n = 3000 if big else 400
        for i in range(n):
            body = []
            for _ in range(rng.randrange(2, 7)):
                body.append(rng.choice(["c", "d8", "e2", "r4", "n50,8", "y7,%d" % rng.randint(0, 127), "@%d;" % rng.randint(1, 128), "y10,%d" % rng.randint(0, 127), "[2 c d]", "l8 e f g", "V(%d)" % rng.randint(0, 127)]))
            k = rng.randrange(0, len(body) + 1)
            form = rng.random()
            if form < 0.5: body.insert(k, "?")
            else:
                m = rng.randint(1, 3); b = rng.randint(1, 4); t = rng.choice([0, 0, 10, 48])
                body.insert(k, rng.choice(["PlayFrom(%d:%d:%d)", "PlayFrom(%d:%d:%d)", "PLAY_FROM(%d:%d:%d)"]) % (m, b, t))      # (both spellings of the command)
            src = " ".join(body)
            cs.append(dict(req="run " + hx(src), src=src, show=src, key="ps%d" % i))
            if form >= 0.5: cs[-1]["want_pf"] = (m - 1) * 384 + (b - 1) * 96 + t      # (time base 96, 4/4: the point the text names, under either spelling)
        cs.append(dict(req="run " + hx("y7,100 @5; c d e PlayFrom(1:2:0)"), src="y7,100 @5; c d e PlayFrom(1:2:0)", show="y7,100 @5; c d e PlayFrom(1:2:0)", key="fixed0"))
        cs.append(dict(req="run " + hx("y200,1 c c PlayFrom(1:2:0)"), src="y200,1 c c PlayFrom(1:2:0)", show="y200,1 c c PlayFrom(1:2:0)", key="fixed1"))
        # the point at tick 0 is a point like any other: what starts before it (a negative timing, a position before the first bar) is omitted
        for j, src in enumerate(["PlayFrom(0) t-10 c t0 d", "? t-10 c t0 d", "PlayFrom(1:1:0) TIME(1:1:-24) c TIME(1:1:0) d", "t-5 y7,90 c PlayFrom(0) t0 e", "? r-8 y10,3 c r8 d",
                                 "PlayFrom(0) c d", "TR=2 t-20 c d TR=1 ? e", "PlayFrom(0) TIME(0:4:0) @9; c TIME(1:1:0) d"]):
            cs.append(dict(req="run " + hx(src), src=src, show=src, key="zero%d" % j))
        return cs
    def src_model(c, st, f):
        if st != "ok": return []
        pf = int(f["pf"])
        trs = f["tracks"].split(";")
        # expected chunk bodies: generate over the law applied to each track (play_from = -1 afterwards)
        reqs = ["pflaw %d %s" % (pf, t) for t in trs] if pf >= 0 else []
        return reqs
    def src_judge(c, impl, m):
        st, f = impl
        if st != "ok": return ("violation", "program with a play-from point did not compile: " + st)
        return None   # second phase below
    # two-phase: build a generate request from the law's output and compare bytes
    def src_model2(c, st, f):
        return src_model(c, st, f)
    s3cases = cases if (cases and only == "pfsrc") else mk_src()
    def src_judge2(c, impl, m):
        st, f = impl
        if st != "ok": return ("violation", "program with a play-from point did not compile: " + st)
        pf = int(f["pf"])
        if c.get("want_pf") is not None and pf != c["want_pf"]:
            return ("violation", "the play-from point in force is tick %d, the text names tick %d" % (pf, c["want_pf"]))
        if pf < 0: return None
        lawed = ";".join(x.split("ev=")[1] for x in m)
        c["_lawed"] = lawed
        # first remaining note must come after the restored events: check order in law output == what the real generate wrote
        from ..core import run_driver
        exp = run_driver(["generate %s -1 %s" % (f["tb"], lawed)])[0]
        if exp != "ok bin=" + f["bin"]:
            return ("violation", "bytes differ from the PlayFrom law applied to the event list (point %d)" % pf)
        return None
    s3 = Stream("pfsrc", s3cases, src_model2, src_judge2, lambda c, i, m: i[1].get("bin") if i[0] == "ok" else None, "programs with PlayFrom / ?")
    # ---- rest shift
    def mk_rs():
        cs = []
        n = 4000 if big else 500
        for i in range(n):
            prog = mml.gen_program(rng, depth=rng.choice([1, 2, 3]), maxlen=8, top=False)
            if rng.random() < 0.25:
                # PLAY: the parts start where the command stands (on tracks that may not exist yet), so they shift with it
                parts = [mml.gen_cmds(rng, 1, rng.choice([1, 2, 3]), top=False) for _ in range(rng.randrange(1, 4))]
                prog = prog + [('play', parts)] + mml.gen_cmds(rng, 0, rng.randrange(0, 3), top=False)
            if rng.random() < 0.3:
                # ramps written from the pointer onwards (tempo, controller, bend): every step of the ramp shifts with the pointer, also off the beat grid
                prog = list(prog); prog.insert(rng.randrange(0, len(prog) + 1), ('raw', rng.choice(["TempoChange(80,120,!4)", "TempoChange(100,!2)", "TempoChange(140,90,!1)", "y7.onTime(0,127,!8)",
                                                                                                       "p.onTime(0,64,!16)", "y11.T(127,0,!4)", "TempoChange(60,61,%50)"])))
            src = mml.pr(prog)
            L = rng.choice(["1", "4", "8.", "2^8", "%37", "16", "", "%5", "12"])
            if rng.random() < 0.25:
                # a reverse rest `r-L` (after a whole-note rest, so that nothing is pushed before tick 0): the shift is 384 - L, whatever the
                # form of the length (digits, ticks, dots only, omitted)
                L = rng.choice(["4", "8.", "%48", "%37", "", ".", "1", "2^8", "16"])
                cs.append(dict(req="run2 %s %s" % (hx(src), hx("r1 r-" + L + " " + src)), src=src, show="r1 r-%s + [%s]" % (L, src[:200]), L=L, rev=True, key="rs%d" % i))
                continue
            cs.append(dict(req="run2 %s %s" % (hx(src), hx("r" + L + " " + src)), src=src, show="r%s + [%s]" % (L, src[:200]), L=L, key="rs%d" % i))
        return cs
    def rs_model(c, st, f): return ["lenspec 96 96 %s" % _len_syn(c["L"])]
    def rs_judge(c, impl, m):
        st, f = impl
        if st != "ok": return None
        L = int(m[0].split("out=")[1])
        if c.get("rev"): L = 384 - L
        t1 = f["tracks1"].split(";"); t2 = f["tracks2"].split(";")
        if len(t1) != len(t2): return ("violation", "track count changed by a leading rest")
        for a, b in zip(t1, t2):      # (the programs do not switch tracks: every track that exists was created by PLAY at the shifted position)
            ea = [] if a == "~" else a.split(","); eb = [] if b == "~" else b.split(",")
            if len(ea) != len(eb): return ("violation", "a leading rest changed the number of events")
            for x, y in zip(ea, eb):
                px = x.split(":"); py = y.split(":")
                if px[0] != py[0] or px[2:] != py[2:] or int(py[1]) != int(px[1]) + L:
                    return ("violation", "event %s became %s after a leading rest of %d ticks" % (x, y, L))
        return None
    s4 = Stream("restshift", cases if (cases and only == "restshift") else mk_rs(), rs_model, rs_judge,
                lambda c, i, m: i[1].get("tracks1") if i[0] == "ok" and i[1].get("tracks1", "").count(",") >= 1 else None, "program vs rest + program")
    # ---- in the file: every value re-issued at the point stands before the first remaining note (long tracks whose events were written
    #      out of time order — chords, a second voice in Sub — and share ticks: only a stable sort keeps the re-issued values in front)
    from ..smfpy import smf_events
    def mk_pm():
        cs = []
        for i in range(400 if big else 60):
            ccs = rng.sample([1, 7, 10, 11, 64, 91, 93], rng.randrange(1, 5))
            head = "TR=%d @%d %s l4 " % (rng.choice([0, 1, 2]), rng.randint(1, 128), " ".join("y%d,%d" % (no, rng.randint(0, 127)) for no in ccs))
            body = []
            for _ in range(rng.randrange(6, 14)):
                body.append(rng.choice(["cdef", "Sub{ l1 'ceg' 'dfa' } l8 cdefgab>c<", "'ce' 'df' 'eg'", "l8 cdefgab", "Sub{ l2 c e } l4 g a b g", "[2 c e g]", "l16 cdefgfed"]))
            pf = rng.choice(["PlayFrom(2:1:0)", "PlayFrom(1:3:0)", "PlayFrom(3:1:0)", "TIME(2:1:0) ?", "PLAY_FROM(1:3:0)", "TIME(2:1:0) PlayFromHere"])
            src = head + " ".join(body) + " " + pf
            cs.append(dict(req="compile %s 0 en lib" % hx(src), src=src, show=src[:300], key="pm%d" % i))
        return cs
    def pm_judge(c, impl, m):
        st, f = impl
        if st != "ok": return ("violation", "program with a play-from point did not compile: " + st)
        trs = smf_events(f["bin"])
        if trs is None: return ("violation", "output is not a MIDI file")
        for ti, evs in enumerate(trs):
            seen_note = False
            for e in evs:
                if e[1] == "on": seen_note = True
                elif e[1] in ("cc", "pc") and seen_note:
                    return ("violation", "track %d: a re-issued controller / program value is written after the first remaining note (tick %d)" % (ti, e[0]))
        return None
    s5 = Stream("pfmidi", cases if (cases and only == "pfmidi") else mk_pm(), lambda c, st, f: [], pm_judge, lambda c, i, m: i[1].get("bin") if i[0] == "ok" else None,
                "re-issued values stand before the first remaining note in the file")
    return [s for s in (s1, s2, s3, s4, s5) if only in (None, s.name)]

def _len_syn(L):
    """syntax tree (wire form of C04's lenspec) of the few fixed rest lengths used above"""
    table = {"1": "0:0:1:0", "4": "0:0:4:0", "8.": "0:0:8:1", "2^8": "0:0:2:0;94/0:0:8:0", "%37": "1:0:37:0", "16": "0:0:16:0", "": "0:0:~:0", "%48": "1:0:48:0", ".": "0:0:~:1", "%5": "1:0:5:0", "12": "0:0:12:0"}
    return table[L]
