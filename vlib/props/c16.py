"""C16 — onNote/onCycle/onTime reservations and .Random: streams."""
from ..core import Stream, hx, unhx

RULE = ("reserve: single-track programs of lettered notes mixed with v/q/t/o/l .onNote/.onCycle lists, plain v/q/t/o/l commands (cancel), Controller.onNote, "
        "controller and pitch-bend .onTime ramps (1..3 segments, frequencies 1..12), v.onTime, and v/q/t/o .Random widths (xorshift from the fixed seed) "
        "run by the real lexer+runner; the event list (notes, controller and pitch-bend events with their ticks, values, gate and velocity) must equal "
        "the model's (interpolated values may differ by 1: f32); consume: `x.Random(r) <notes>` must leave every following note in place. "
        "non-trivial = distinct event lists of programs with >= 1 reservation and >= 3 notes")
ASSUMPTIONS = ["lettered notes only (n-notes honour v/q/t reservations but not o/l/Controller.onNote: documented restriction)", "frequencies >= 1, widths >= 0 (the property's domain)",
               "ramp / v.onTime values are f32 products in the code: compared with tolerance 1"]
TRUSTED = ["Model.Reserve is tied to the code by this stream; the laws are proved about it"]

SEMI = {'c': 0, 'd': 2, 'e': 4, 'f': 5, 'g': 7, 'a': 9, 'b': 11}
KINDS = ["v", "q", "t", "o", "l"]

def gen_case(rng):
    src = []; sx = []
    nres = 0; nnotes = 0; interp = False
    for _ in range(rng.randrange(3, 14)):
        x = rng.random()
        if x < 0.33:
            n = rng.choice("cdefgab"); src.append(n); sx.append("(note %d)" % SEMI[n]); nnotes += 1
        elif x < 0.45:
            # notes that carry their own gate / velocity / timing, lettered and numbered: a pending reservation still consumes one entry per note
            q = rng.choice([None, None, 50, 100, 70]); v = rng.choice([None, None, 90, 127, 1]); tm = rng.choice([None, None, 3, -2])
            oi = lambda z: "_" if z is None else str(z)
            args = "," + ",".join("" if z is None else str(z) for z in (q, v, tm))
            if rng.random() < 0.5:
                n = rng.choice("cdefgab"); src.append(n + args); sx.append("(notex %d %s %s %s)" % (SEMI[n], oi(q), oi(v), oi(tm)))
            else:
                no = rng.randint(36, 96); src.append("n%d,%s" % (no, args)); sx.append("(noten %d %s %s %s)" % (no, oi(q), oi(v), oi(tm)))
            nnotes += 1
        elif x < 0.5: src.append("r"); sx.append("(rest)")
        elif x < 0.62:
            k = rng.randrange(0, 5); vals = {0: lambda: rng.randint(1, 127), 1: lambda: rng.choice([rng.randint(1, 100), rng.randint(1, 100), rng.randint(1, 100), 101, 120, 150, 200]), 2: lambda: rng.randint(0, 10), 3: lambda: rng.choice([0, 0, 1, 2, 3, 4, 5, 6, 7, 8, 9]), 4: lambda: rng.choice([12, 24, 48, 96, 30])}[k]
            vs = [vals() for _ in range(rng.randrange(1, 5))]
            cyc = rng.random() < 0.4
            name = rng.choice(["onCycle", "C"]) if cyc else rng.choice(["onNote", "N"])
            # (an empty list reserves nothing; a trailing comma adds no value)
            if rng.random() < 0.08: vs = []
            tail = "," if vs and rng.random() < 0.1 else ""
            src.append("%s.%s(%s%s)" % (KINDS[k], name, ",".join(map(str, vs)), tail)); sx.append("(onnote %d (%s) %d)" % (k, " ".join(map(str, vs)), 1 if cyc else 0)); nres += 1
        elif x < 0.70:
            k = rng.randrange(0, 5)
            v = {0: rng.randint(0, 127), 1: rng.randint(1, 100), 2: rng.randint(0, 5), 3: rng.randint(2, 8), 4: rng.choice([8, 4, 16])}[k]
            if k == 4: src.append("l%d" % v); sx.append("(l %d)" % (384 // v))
            else: src.append("%s%d" % (KINDS[k], v)); sx.append("(%s %d)" % (KINDS[k], v))
        elif x < 0.78:
            k = rng.randrange(0, 4); r = rng.choice([0, 1, 2, 5, 10, 16, 30]) if k != 3 else rng.choice([0, 1, 2, 3])
            src.append("%s.Random(%d)" % (KINDS[k], r) if rng.random() < 0.6 else "%s.Random=%d" % (KINDS[k], r)); sx.append("(random %d %d)" % (k, r)); nres += 1
        elif x < 0.84:
            no = rng.choice([1, 7, 10, 11, 91]); vs = [rng.randint(0, 127) for _ in range(rng.randrange(1, 5))]
            src.append("y%d.onNote(%s)" % (no, ",".join(map(str, vs)))); sx.append("(cconnote %d (%s))" % (no, " ".join(map(str, vs)))); nres += 1
        elif x < 0.90:
            no = rng.choice([1, 7, 10, 11]); tri = []
            # (bounds outside 0..127 too: the samples are clamped, not the end points — the slope is the one asked for)
            for _ in range(rng.randrange(1, 4)): tri += [rng.choice([rng.randint(0, 127), rng.randint(0, 127), -127, -20, 200, 300]), rng.choice([rng.randint(0, 127), rng.randint(0, 127), 255, 140, -64]), rng.choice([4, 8, 24, 48, 96, 97, 13])]
            form = rng.choice(["y%d.onTime(%s)", "y%d.T(%s)"])
            src.append(form % (no, ",".join(map(str, tri)))); sx.append("(ccontime %d (%s))" % (no, " ".join(map(str, tri)))); nres += 1; interp = True
        elif x < 0.93:
            f = rng.choice([1, 2, 3, 4, 6, 12]); src.append("y1.Frequency(%d)" % f); sx.append("(freq %d)" % f)
        elif x < 0.97:
            big = rng.random() < 0.5; tri = []
            for _ in range(rng.randrange(1, 3)):
                # (bounds outside the bend range too: the samples stay inside 14 bits)
                if big: tri += [rng.choice([rng.randint(-8192, 8191), rng.randint(-8192, 8191), 10000, -9000, 20000]), rng.choice([rng.randint(-8192, 8191), rng.randint(-8192, 8191), 12000, -10000, 30000]), rng.choice([12, 48, 96, 30])]
                else: tri += [rng.choice([rng.randint(0, 127), rng.randint(0, 127), 140, 200, -3]), rng.choice([rng.randint(0, 127), rng.randint(0, 127), 128, 255]), rng.choice([12, 48, 96, 30])]
            # (every spelling of the command and of the resolution word: PitchBend / PB / p with .onTime / .T)
            src.append((rng.choice(["PitchBend.onTime(%s)", "PitchBend.T(%s)", "PB.onTime(%s)", "PB.T(%s)"]) if big else rng.choice(["p.onTime(%s)", "p.T(%s)"])) % ",".join(map(str, tri))); sx.append("(pbontime %d (%s))" % (1 if big else 0, " ".join(map(str, tri)))); nres += 1; interp = True
        else:
            tri = []
            # (end points may lie outside 0..127: the note's velocity is the interpolated value, clamped afterwards)
            ep = lambda: rng.randint(0, 127) if rng.random() < 0.7 else rng.choice([-100, -20, 140, 200, 254, 300])
            for _ in range(rng.randrange(1, 3)): tri += [ep(), ep(), rng.choice([96, 192, 384, 100])]
            src.append("v.onTime(%s)" % ",".join(map(str, tri))); sx.append("(vontime (%s))" % " ".join(map(str, tri))); nres += 1; interp = True
    text = " ".join(src)
    if rng.random() < 0.25:
        # blanks (or a range comment) around the commas of a reservation list: the same list
        import re
        text = re.sub(r"\.(onNote|onTime|onCycle|T|N|C)\(([^)]*)\)", lambda m_: ".%s(%s)" % (m_.group(1), re.sub(",", lambda _: rng.choice([" ,", " , ", ", ", ",", " /*k*/ ,"]), m_.group(2))), text)
    return text, "(" + " ".join(sx) + ")", nres, nnotes, interp

def close(a, b, tol):
    if a == b: return True
    pa = a.split(":"); pb = b.split(":")
    if len(pa) != len(pb) or pa[0] != pb[0] or pa[1] != pb[1] or pa[2] != pb[2]: return False
    if pa[0] == "on": return pa[3] == pb[3] and pa[4] == pb[4] and abs(int(pa[5]) - int(pb[5])) <= tol
    if pa[0] == "cc": return pa[3] == pb[3] and abs(int(pa[4]) - int(pb[4])) <= tol
    if pa[0] == "pb": return abs(int(pa[3]) - int(pb[3])) <= max(tol, 2 * tol)
    return False

def streams(tier, rng, P, only=None, cases=None):
    big = tier == "thorough"
    def mk():
        cs = []
        n = 10000 if big else 1200
        for i in range(n):
            src, sx, nres, nnotes, interp = gen_case(rng)
            cs.append(dict(req="run " + hx(src), src=src, show=src, sexp=sx, nres=nres, nnotes=nnotes, interp=interp, key="r%d" % i))
        for j, (src, sx) in enumerate([("t.Random=5 c d e f g a b", "((random 2 5) (note 0) (note 2) (note 4) (note 5) (note 7) (note 9) (note 11))"),
                                        ("y1.onTime(0,96,24,100,4,24) c", "((ccontime 1 (0 96 24 100 4 24)) (note 0))"),
                                        ("v.onNote(10,20,30) c d e f", "((onnote 0 (10 20 30) 0) (note 0) (note 2) (note 4) (note 5))")]):
            cs.append(dict(req="run " + hx(src), src=src, show=src, sexp=sx, nres=1, nnotes=3, interp=(j == 1), key="fixed%d" % j))
        return cs
    def model(c, st, f): return ["reserve " + hx(c["sexp"])]
    def judge(c, impl, m):
        st, f = impl
        if st != "ok": return ("violation", "program did not compile normally: " + st)
        if "ev=" not in m[0]: return ("mismatch", "model failed: " + m[0])
        want = m[0].split("ev=")[1].split(" ")[0]; got = f["tracks"].split(";")[0]
        we = [] if want == "~" else want.split(","); ge = [] if got == "~" else got.split(",")
        log = unhx(f.get("log", "~")).decode("utf-8", "replace")
        if "[ERROR]" in log or "[WARN]" in log: return ("violation", "reservation program logs: " + log[:160])
        if len(we) != len(ge): return ("violation", "%d events, the reservation laws give %d (first got %s / want %s)" % (len(ge), len(we), ge[:3], we[:3]))
        tol = 1 if c["interp"] else 0
        for i, (a, b) in enumerate(zip(ge, we)):
            if not close(a, b, tol): return ("violation", "event %d is %s, the reservation laws give %s" % (i, a, b))
        wtp = m[0].split("tp=")[1]
        gtp = f["state"].split(";")[0].split(",")[0].replace("tp:", "")
        if wtp != gtp: return ("violation", "time pointer %s, expected %s" % (gtp, wtp))
        return None
    def nt(c, impl, m): return impl[1].get("tracks") if impl[0] == "ok" and c["nres"] >= 1 and c["nnotes"] >= 3 else None
    s1 = Stream("reserve", cases if (cases and only == "reserve") else mk(), model, judge, nt, "reservation programs vs Model.Reserve")
    # ---- chords: a reserved velocity list is consumed by the members of a chord one by one, like by single notes — the program equals
    #      the one with every velocity written at its note
    def mk_ch():
        cs = []
        for i in range(1500 if big else 250):
            items = []      # each item: list of note letters (1 = single note, >= 2 = chord)
            for _ in range(rng.randrange(2, 6)):
                items.append([rng.choice("cdefgab") for _ in range(rng.choice([1, 1, 2, 3, 4]))])
            if all(len(it) == 1 for it in items): items[rng.randrange(len(items))] = ["c", "e", "g"]
            nn = sum(len(it) for it in items)
            cyc = rng.random() < 0.4
            vals = [rng.randint(1, 127) for _ in range(rng.randint(2, 4) if cyc else nn + rng.randint(0, 2))]
            head = "v.%s(%s)" % (rng.choice(["onCycle", "C"]) if cyc else rng.choice(["onNote", "N"]), ",".join(map(str, vals)))
            k = 0; a = []; b = []
            for it in items:
                vs = [vals[(k + j) % len(vals)] for j in range(len(it))]; k += len(it)
                if len(it) == 1:
                    a.append(it[0]); b.append("%s,,%d" % (it[0], vs[0]))
                else:
                    ln = rng.choice(["", "4", "8"])
                    a.append("'" + " ".join(it) + "'" + ln); b.append("'" + " ".join("%s,,%d" % (n_, v_) for n_, v_ in zip(it, vs)) + "'" + ln)
            pre = rng.choice(["l4 ", "l8 q100 ", "o4 l4 "])
            sa = pre + head + " " + " ".join(a); sb = pre + " ".join(b)
            cs.append(dict(req="compile2 %s %s" % (hx(sa), hx(sb)), src=sa, src2=sb, show="%s   vs   %s" % (sa, sb), key="ch%d" % i))
        # a reservation runs on through Sub / tuplet / loop blocks that hold no plain command of its kind: every note takes its value in turn
        for i in range(300 if big else 60):
            x = rng.choice("vqtl")
            def item(depth):
                if depth > 0 and rng.random() < 0.35:
                    inner = [item(depth - 1) for _ in range(rng.randrange(1, 4))]
                    return (rng.choice(["Sub{%s}", "Div{%s}4", "{%s}2", "[1 %s]"]), inner)
                return rng.choice("cdefgab")
            items = [item(1) for _ in range(rng.randrange(2, 6))]
            if not any(isinstance(it, tuple) for it in items): items.insert(1, ("Div{%s}4", ["d", "e"]))
            def count(its): return sum(count(it[1]) if isinstance(it, tuple) else 1 for it in its)
            nn = count(items)
            vals = [{"v": rng.randint(1, 127), "q": rng.randint(1, 100), "t": rng.randint(0, 9), "l": rng.choice([6, 12, 24, 48, 96])}[x] for _ in range(nn)]
            it_v = iter(vals)
            def ra(its): return " ".join((it[0] % ra(it[1])) if isinstance(it, tuple) else it for it in its)
            def rb(its):
                out = []
                for it in its:
                    if isinstance(it, tuple): out.append(it[0] % rb(it[1]))
                    else:
                        v_ = next(it_v)
                        out.append({"v": "%s,,%d", "q": "%s,%d", "t": "%s,,,%d", "l": "%s%%%d"}[x] % (it, v_))
                return " ".join(out)
            sa = "l4 %s.onNote(%s) %s" % (x, ",".join(map(str, vals)), ra(items)); sb = "l4 " + rb(items)
            cs.append(dict(req="compile2 %s %s" % (hx(sa), hx(sb)), src=sa, src2=sb, show="%s   vs   %s" % (sa, sb), key="thru%d" % i, thru=True))
        # a plain command inside Sub{ } cancels the reservation for good: the notes after the block are those of the program without it
        for i in range(300 if big else 60):
            x = rng.choice("vqt")
            plain = {"v": "v%d" % rng.randint(1, 127), "q": "q%d" % rng.randint(1, 100), "t": "t%d" % rng.randint(-5, 9)}[x]
            vals = ",".join(str(rng.randint(1, 100)) for _ in range(rng.randint(2, 4)))
            res = rng.choice(["%s.onNote(%s)" % (x, vals), "%s.onCycle(%s)" % (x, vals)] + (["v.onTime(%d,%d,%d)" % (rng.randint(0, 127), rng.randint(0, 127), rng.choice([96, 384, 768]))] if x == "v" else []))
            inner = " ".join(rng.choice("cdefgab") for _ in range(rng.randrange(1, 3)))
            after = " ".join(rng.choice("cdefgab") for _ in range(rng.randrange(2, 5)))
            blk = rng.choice(["Sub{ %s %s }", "Sub{ %s %s } r", "{ %s %s }4", "[1 %s %s ]"]) % (plain, inner)
            sa = "l4 %s %s %s" % (res, blk, after); sb = "l4 %s %s" % (blk, after)
            cs.append(dict(req="compile2 %s %s" % (hx(sa), hx(sb)), src=sa, src2=sb, show="%s   vs   %s" % (sa, sb), key="sc%d" % i, cancel=True))
        return cs
    def ch_judge(c, impl, m):
        st, f = impl
        if st != "ok": return ("violation", "reservation program did not compile normally: " + st)
        if f["bin1"] != f["bin2"]:
            if c.get("thru"): return ("violation", "a reservation does not run on through a block: %s vs %s" % (c["src"][:120], c["src2"][:120]))
            if c.get("cancel"): return ("violation", "a reservation cancelled by a plain command inside a block still acts after the block: %s vs %s" % (c["src"][:120], c["src2"][:120]))
            return ("violation", "a reserved velocity list over chords is not the program with the velocities written at the notes: %s vs %s" % (c["src"][:120], c["src2"][:120]))
        return None
    s2 = Stream("chordres", cases if (cases and only == "chordres") else mk_ch(), lambda c, st, f: [], ch_judge, lambda c, i, m: i[1].get("bin1") if i[0] == "ok" else None,
                "velocity reservations over chords vs explicit velocities")
    return [s for s in (s1, s2) if only in (None, s.name)]
