"""Correspondence stream for Model.Exec: the real lexer+runner (harness op `lexrun`) against the Lean model of `runner::exec`
run on the *real* token list (driver op `exec`).  Token lists outside the modelled subset are skipped and counted."""
from .core import Stream, hx, unhx
from . import mml, lexstream

EXTRA = ["[1 c : [2 d] e] f", "[1 a : [2 b : c] [1 d : [2 e]] g] a", "[2 [1 c : [3 d]] : e] f", "[2 c : [2 d] e] f", "[3 a : [2 b : c] d] e", "[2 [2 c : [3 d]] : [2 e : f] g] a", "[2 c : {d [2 e]}4 ] f", "TR(2) c TR(1) d CH(5) e TrackSync f", "TR=3 c d TR(0) e TrackSync TR(3) f", "CH(17) c CH(0) d CH=10 e", "[3 c [2 d : e] ] f", "[0 c] d [1 c : d] e",
         "'c e r g' d 'ce n67'4,50,99", "{c d [2 e] {f g}8^}2 a", "c&c&d e Sub{ c& } d", "c&d&e& f g&g a", "l8 c&d l4 e&e&e f", "`c `d \"e \"f o9 ``c o0 \"c d",
         "v.Random(10) t.Random(4) q.Random(20) o.Random(2) c d e f g", "v.Random(1) c d e v.Random(0) f", "q++ q++ v++ ( ( c ) d v__2 50 e", "? c d ? e",
         "[ c d ]", "[3 c : ]", ": c ] d", "[2 [2 c : d] : e] f", "{ }4 c", "{c}0 d", "Sub{ Sub{ c } d } e", "'c' 'd'0 'e',0 'f',,0 g", "n60,4,0,0 n61,,100,127,-5",
         "r-4 c r4 d r-1 e", "l0 c d l-4 e", "o11 c o-1 d", "v200 c v-5 d", "q0 c q200 d q100 e", "t50 c t-50 d", "c,0,0 d,100,127,5,9 e,,,,0", "TR(1) 'c&e' d", "c4& 'ce' d",
         "'ceg'4,, d", "'ce'2,50, e", "v70 'c,,90 e'8,, f", "'ce',,-5 d", "'ce',-3,-1 d", "TimeBase(480) c d 'ce' r", "TimeBase=960 TR(1) c TR(0) d"]

def g_upper(rng):
    r = rng.randint
    return rng.choice([
        "KeyShift(%d)" % r(-13, 13), "Key(%d)" % r(-5, 5), "TrackKey(%d)" % r(-13, 13), "TrackKey=%d" % r(-3, 3),
        "KeyFlag%s(%s)" % (rng.choice("+-"), "".join(rng.sample("cdefgab", r(1, 4)))), "KeyFlag=(%s)" % ",".join(str(r(-1, 1)) for _ in range(7)),
        "UseKeyShift(%d)" % r(0, 1), "Slur(%d)" % r(-1, 4), "Slur(%d,%d)" % (r(0, 3), rng.choice([0, 0, 10, 24, 48, 96, -5])),
        "@%d" % r(0, 130), "@%d,%d" % (r(1, 128), r(0, 127)), "@%d,%d,%d" % (r(1, 128), r(0, 127), r(0, 127)), "Voice(%d)" % r(1, 128),
        "y%d,%d" % (r(0, 127), r(-5, 140)), "%s(%d)" % (rng.choice(["V", "EP", "P", "M", "PT", "REV", "CHO"]), r(-5, 140)),
        "Tempo(%d)" % rng.choice([5, 10, 60, 120, 299, 300, 301, r(1, 400)]), "TimeSignature(%d,%d)" % (r(1, 70), rng.choice([2, 4, 8, 16, 3, 1, 32])), "TimeSig(3)",
        "TIME(%d:%d:%d)" % (r(0, 5), r(0, 6), r(-10, 200)), "TIME(%d)" % r(-10, 2000), "Time(%d:%d:%d)" % (r(1, 3), r(1, 4), r(0, 95)),
        "MeasureShift(%d)" % r(-2, 3), "PlayFrom(%d:%d:%d)" % (r(1, 4), r(1, 4), r(0, 95)), "PlayFrom(%d)" % r(0, 1000),
        "PB(%d)" % r(-9000, 9000), "p%d" % r(-5, 140), "vAdd(%d)" % r(-3, 20), "qAdd(%d)" % r(-3, 20),
        "@%d,0,0" % r(1, 128), "@%d,0" % r(1, 128), "TimeBase(%d)" % rng.choice([48, 96, 100, 120, 480]),
        "Slur(%d%s) %s" % (r(0, 3), rng.choice(["", "", ",0", ",10", ",48"]), "&".join(rng.choice("cdefgab") + rng.choice(["", "8", "4", "+"]) for _ in range(r(2, 5)))),
        "TimeBase(%d) TimeSignature(%d,%d) TIME(%d:%d:%d)" % (rng.choice([100, 120, 90, 96, 50]), r(2, 12), rng.choice([2, 4, 8, 16]), r(1, 6), r(1, 6), r(0, 40)),
        "TR(%d)" % r(0, 6), "TR=%d" % r(0, 4), "CH(%d)" % r(-1, 18), "TrackSync", "Track(%d)" % r(1, 3), "Channel(%d)" % r(1, 16)])

def g_text2(rng):
    out = []
    for _ in range(rng.randrange(2, 14)):
        out.append(g_upper(rng) if rng.random() < 0.45 else lexstream.g_token(rng, 2))
        out.append(rng.choice([" ", " ", " ", "\n", " | ", "; "]))
    return "".join(out)

def exec_stream(tier, rng, P, only=None, cases=None):
    big = tier == "thorough"
    def mk():
        cs = []
        n = 30000 if big else 3000
        texts = list(EXTRA) + list(lexstream.FIXED)
        for i in range(n): texts.append(lexstream.g_text(rng))
        for i in range(n): texts.append(g_text2(rng))
        for i in range(n // 2):
            # printed programs of the core-language generator: tracks, channels, chords, tuplets, Sub, loops (others are skipped as unsupported)
            texts.append(mml.pr(mml.gen_cmds(rng, 2, rng.randrange(1, 9), top=(rng.random() < 0.5))))
        # gate sweep: every (length in ticks, gate rate) pair of a dense grid — the sounding length is the truncated exact product
        # len*q/100 (an almost-equal rounding of the binary32 arithmetic shows on a few dozen pairs of this grid only)
        for q in range(1, 151 if big else 101):
            texts.append("q%d " % q + " ".join("c%%%d" % L for L in range(1, 1201 if big else 501)))
        for i, t in enumerate(texts):
            cs.append(dict(req="lexrun " + hx(t), src=t, show=repr(t)[:300], key="e%d" % i))
        return cs
    def model(c, st, f): return ["exec %s %s" % (f["toks"], f["tb"])] if st == "ok" else []
    def judge(c, impl, m):
        st, f = impl
        if st != "ok": return None       # crashes and hangs are C07's subject
        if not m or "unsupported" in m[0]: return None
        mf = dict(p.split("=", 1) for p in m[0].split(" ")[1:] if "=" in p)
        for k in ("state", "cur", "pf", "seed", "song", "ties"):
            if mf.get(k) != f.get(k): return ("mismatch", "%s differs: real %s model %s" % (k, str(f.get(k))[:160], str(mf.get(k))[:160]))
        if mf.get("tracks") != f.get("tracks"):
            ta = f["tracks"].split(";"); tb_ = mf.get("tracks", "").split(";")
            if len(ta) != len(tb_): return ("mismatch", "number of tracks differs: real %d model %d" % (len(ta), len(tb_)))
            for ti, (a, b) in enumerate(zip(ta, tb_)):
                ea = [] if a == "~" else a.split(","); eb = [] if b == "~" else b.split(",")
                if len(ea) != len(eb): return ("mismatch", "track %d: %d events, model %d" % (ti, len(ea), len(eb)))
                for x, y in zip(ea, eb):
                    if x == y: continue
                    px, py = x.split(":"), y.split(":")
                    # glide samples of tied groups come from f32 products: compared with tolerance 1 (relative 2^-21 for values far outside the
                    # bend range, where one unit in the last place of a binary32 is more than 1)
                    if px[0] == "pb" and py[0] == "pb" and px[1:3] == py[1:3] and abs(int(px[3]) - int(py[3])) <= max(1, abs(int(px[3])) >> 21): continue
                    return ("mismatch", "track %d: event %s, model %s" % (ti, x, y))
        return None
    def nt(c, impl, m):
        return m[0][:300] if m and "tracks=" in m[0] and impl[0] == "ok" else None
    return Stream("exec", cases if (cases and only == "exec") else mk(), model, judge, nt,
                  "exec: raw texts (the lexer stream's generator; the same mixed with upper-case commands with constant arguments — KeyShift/Key/TrackKey/KeyFlag/UseKeyShift, Slur(mode[,value]), @/Voice with banks, y and named controllers, Tempo, TimeSignature, TIME, MeasureShift, PlayFrom, PB/p, vAdd/qAdd, TR/CH/TrackSync; printed core programs; fixed corner cases: loop counts 0/1, "
                  "stray ':' and ']', empty tuplets, chords with rests, ties in and around chords/Sub, octave-once, Random settings, negative rests, out-of-range "
                  "values) are lexed and run by the real code; Model.Exec runs on the *real* token list; events of every track (glide samples +-1), final "
                  "track states (pointer, channel, l, o, v, q, t, key; tie mode/value/bend range), song state (key shift, key flags, vAdd, qAdd, measure shift, time signature, tempo), current track, play-from point and random seed must be identical; token lists "
                  "outside the modelled subset are skipped. non-trivial = distinct event lists", timeout_case=20.0)


SUPPORTED = {"note", "noteN", "rest", "l", "o", "orel", "v", "vrel", "q", "t", "loop", "sub", "div", "chord", "tr", "ch", "tsync"}
def _supported(cmds):
    for c in cmds:
        if c[0] not in SUPPORTED: return False
        if c[0] == "loop" and not (_supported(c[2]) and _supported(c[3] or [])): return False
        if c[0] in ("sub", "div", "chord") and not _supported(c[1]): return False
    return True

def compile_stream(tier, rng, P, only=None, cases=None):
    """the token list Ex2.compileL assigns to a program (the list exec_refines_sem is about) against the real lexer on the printed program"""
    big = tier == "thorough"
    def mk():
        cs = []
        n = 12000 if big else 1500
        tries = 0
        while len(cs) < n and tries < n * 6:
            tries += 1
            prog = mml.gen_cmds(rng, 2, rng.randrange(1, 8), top=(rng.random() < 0.4))
            if not _supported(prog): continue
            src = mml.pr(prog)
            if "\n" in src: continue
            cs.append(dict(req="tokens " + hx(src), src=src, show=src[:300], sexp=mml.sexp(prog), prog=prog, key="k%d" % len(cs)))
        return cs
    def model(c, st, f): return ["compile " + hx(c["sexp"])]
    def judge(c, impl, m):
        st, f = impl
        if st != "ok": return None
        if "toks=" not in m[0]: return ("mismatch", "compileL failed: " + m[0][:100])
        mt = m[0].split("toks=")[1].split(" ")[0]
        if mt != f["toks"]:
            a = unhx(f["toks"]).decode("utf-8", "replace").split(" ("); b = unhx(mt).decode("utf-8", "replace").split(" (")
            for x, y in zip(a, b):
                if x != y: return ("mismatch", "the lexer's tokens for the printed program differ from compileL: real (%s  compileL (%s" % (x[:150], y[:150]))
            return ("mismatch", "token lists differ in length: real %d compileL %d" % (len(a), len(b)))
        return None
    def nt(c, impl, m): return m[0][:300] if impl[0] == "ok" else None
    return Stream("compile", cases if (cases and only == "compile") else mk(), model, judge, nt,
                  "compile: random programs of the core language (the fragment of exec_refines_sem: notes, numbered notes, rests, l o v q t, < > ( ), loops with ':', "
                  "Sub, tuplets, chords, TR, CH, TrackSync) printed on one line and lexed by the real lexer; the token list must be exactly Ex2.compileL of the "
                  "program (the list the refinement theorem is about). non-trivial = distinct token lists", timeout_case=20.0)


PRINTABLE = {"note", "rest", "l", "o", "orel", "v", "vrel", "q", "t", "loop"}
def _printable(cmds):
    for c in cmds:
        if c[0] not in PRINTABLE and c[0] not in ("sub", "div", "chord"): return False
        if c[0] == "loop" and not (_printable(c[2]) and _printable(c[3] or [])): return False
        if c[0] in ("sub", "div") and not _printable(c[1]): return False
        if c[0] == "div" and len(c) >= 4 and c[3] != '{': return False          # the printer writes `{…}L`, not `Div{…}L`
        if c[0] == "chord":
            # members: notes, rests and plain setters; a written chord length starts with a digit or `^` (Lp.ChordLenOK)
            if not _printable(c[1]) or any(x[0] in ("loop", "sub", "div", "chord") for x in c[1]): return False
            lt = mml.lenstr(c[2])
            if lt and not (lt[0].isdigit() or lt[0] == "^"): return False
        if c[0] == "l" and c[1] is not None and mml.pr([c]).startswith("l."): return False     # `l.` goes through the reservation check
    return True

def print_stream(tier, rng, P, only=None, cases=None):
    """the canonical text Lp.printKL of a program (the text lex_print is about) through the REAL lexer: tokens must be Ex2.compileL of the program"""
    from .core import run_driver
    big = tier == "thorough"
    def mk():
        raw = []
        n = 8000 if big else 1000
        tries = 0
        while len(raw) < n and tries < n * 10:
            tries += 1
            prog = mml.gen_cmds(rng, 3, rng.randrange(1, 8), top=False)
            if not _printable(prog): continue
            raw.append(prog)
        outs = run_driver(["printk " + hx(mml.sexp(p)) for p in raw])
        cs = []
        for i, (prog, o) in enumerate(zip(raw, outs)):
            f = dict(x.split("=", 1) for x in o.split(" ")[1:] if "=" in x)
            text = unhx(f.get("text", "~")).decode("utf-8", "replace") if f.get("text", "~") != "~" else ""
            cs.append(dict(req="tokens " + hx(text), src=text, show=text[:300], want=f.get("toks"), lexed=f.get("lexed"), prog=prog, key="p%d" % i))
        return cs
    def judge(c, impl, m):
        st, f = impl
        if st != "ok": return ("mismatch", "the real lexer did not return normally on a printed program: " + st)
        if c["lexed"] != c["want"]: return ("mismatch", "the model lexer on the printed text does not give compileL (theorem lex_print would be false): %s" % c["src"][:120])
        if f["toks"] != c["want"]:
            a = unhx(f["toks"]).decode("utf-8", "replace").split(" ("); b = unhx(c["want"]).decode("utf-8", "replace").split(" (")
            for x, y in zip(a, b):
                if x != y: return ("mismatch", "the real lexer on the printed text differs from compileL: real (%s  compileL (%s" % (x[:150], y[:150]))
            return ("mismatch", "token lists differ in length: real %d compileL %d" % (len(a), len(b)))
        if f.get("log", "~") != "~": return ("mismatch", "the real lexer reports errors on a printed program")
        return None
    return Stream("print", cases if (cases and only == "print") else mk(), lambda c, st, f: [], judge,
                  lambda c, i, m: c["want"][:300] if i[0] == "ok" else None,
                  "print: random programs of the printable fragment (notes with all parameters, rests, l o v q t, < > ( ), loops with ':', chords, Sub{} and tuplets nested in "
                  "one another) written by the Lean printer Lp.printKL2 (the text the theorems lex_print / lex_print2 are about) and lexed by the REAL lexer: the token list must be Ex2.compileL of the program, "
                  "with an empty log; the model lexer's answer on the same text is checked too. non-trivial = distinct token lists", timeout_case=20.0)
