"""Core of the sakuramml verification machinery: snapshot/build of /repo, running the oracle
(real code) and the Lean driver (model) over a line protocol, verdict logic, evidence."""
import os, sys, json, time, hashlib, subprocess, shutil, fcntl, random, re, tempfile, resource

VERIF = os.path.dirname(os.path.dirname(os.path.abspath(__file__)))
REPO = os.environ.get("VERIF_REPO", "/repo")
WORK = os.environ.get("VERIF_WORK", "/var/tmp/sakura-verif")
CACHE = os.path.join(VERIF, ".cache")
LEAN = os.path.join(VERIF, "lean")
SNAP = os.path.join(WORK, "snap")
ALLOWED_AXIOMS = {"propext", "Classical.choice", "Quot.sound"}
NCPU = min(16, os.cpu_count() or 4)

def log(*a):
    print(*a, file=sys.stderr, flush=True)

def hx(s):
    b = s.encode("utf-8") if isinstance(s, str) else bytes(s)
    return b.hex() if b else "~"

def unhx(h):
    return b"" if h in ("~", "") else bytes.fromhex(h)

def parse_resp(line):
    """'ok k=v k=v' -> ('ok', {k:v}); 'panic cls msg=..' -> ('panic', {...})"""
    parts = line.strip().split(" ")
    d = {}
    for p in parts[1:]:
        if "=" in p:
            k, v = p.split("=", 1)
            d[k] = v
        else:
            d.setdefault("_", []).append(p)
    return parts[0], d

# ------------------------------------------------------------------ snapshot / build
TREE_FILES = ["src", "Cargo.toml", "Cargo.lock", "build.rs", "command.md", "voice.md", "README.md", "README_ja.md", "samples"]

def tree_hash(repo=REPO):
    h = hashlib.sha256()
    for top in TREE_FILES:
        p = os.path.join(repo, top)
        if os.path.isdir(p):
            for root, dirs, files in os.walk(p):
                dirs.sort()
                for f in sorted(files):
                    fp = os.path.join(root, f)
                    h.update(os.path.relpath(fp, repo).encode())
                    with open(fp, "rb") as fh:
                        h.update(fh.read())
        elif os.path.exists(p):
            h.update(top.encode())
            with open(p, "rb") as fh:
                h.update(fh.read())
    for f in ["harness/src/main.rs", "harness/Cargo.toml"]:
        with open(os.path.join(VERIF, f), "rb") as fh:
            h.update(fh.read())
    return h.hexdigest()[:16]

class Lock:
    def __init__(self, name):
        os.makedirs(WORK, exist_ok=True)
        self.path = os.path.join(WORK, name + ".lock")
    def __enter__(self):
        self.f = open(self.path, "w")
        fcntl.flock(self.f, fcntl.LOCK_EX)
        return self
    def __exit__(self, *a):
        fcntl.flock(self.f, fcntl.LOCK_UN)
        self.f.close()

def sh(cmd, cwd=None, env=None, timeout=None, check=True):
    e = dict(os.environ)
    e["CARGO_NET_OFFLINE"] = "true"
    if env: e.update(env)
    r = subprocess.run(cmd, cwd=cwd, env=e, stdout=subprocess.PIPE, stderr=subprocess.STDOUT, text=True, timeout=timeout)
    if check and r.returncode != 0:
        raise RuntimeError("command failed (%d): %s\n%s" % (r.returncode, " ".join(cmd), r.stdout[-4000:]))
    return r

class Prepared:
    pass

def prepare(need_cli=False, need_src=True, need_ovf=False):
    """Snapshot /repo's working tree, build the oracle against it (cached by content hash),
    regenerate the Lean tables.  Returns paths."""
    t0 = time.time()
    P = Prepared()
    P.hash = tree_hash()
    os.makedirs(os.path.join(CACHE, "bin"), exist_ok=True)
    P.oracle = os.path.join(CACHE, "bin", "oracle-" + P.hash)
    P.cli = os.path.join(CACHE, "bin", "cli-" + P.hash)
    P.oracle_ovf = os.path.join(CACHE, "bin", "oracleovf-" + P.hash)
    P.srcdir = os.path.join(CACHE, "src-" + P.hash)
    with Lock("build"):
        if not os.path.exists(P.oracle) or not os.path.isdir(P.srcdir) or (need_cli and not os.path.exists(P.cli)) or (need_ovf and not os.path.exists(P.oracle_ovf)):
            os.makedirs(SNAP, exist_ok=True)
            sh(["rsync", "-a", "--delete", "--exclude", "target", "--exclude", ".git", "--exclude", "pkg",
                "--exclude", "build_number.txt", REPO + "/", SNAP + "/"])
            # keep a copy of the sources for the translator (tables regenerated from exactly this tree)
            if os.path.isdir(P.srcdir): shutil.rmtree(P.srcdir)
            os.makedirs(P.srcdir)
            for f in ["src", "command.md", "voice.md", "README.md", "Cargo.toml"]:
                s = os.path.join(SNAP, f)
                if os.path.isdir(s): shutil.copytree(s, os.path.join(P.srcdir, f))
                elif os.path.exists(s): shutil.copy(s, os.path.join(P.srcdir, f))
            if not os.path.exists(os.path.join(SNAP, "Cargo.lock")):
                # Cargo.lock is git-ignored in the repository: fall back to the recorded copy
                shutil.copy(os.path.join(VERIF, "harness", "Cargo.lock.base"), os.path.join(SNAP, "Cargo.lock"))
            shutil.copy(os.path.join(SNAP, "Cargo.lock"), os.path.join(VERIF, "harness", "Cargo.lock"))
            tgt = os.path.join(CACHE, "target")
            r = sh(["cargo", "build", "--release", "--offline"], cwd=os.path.join(VERIF, "harness"),
                   env={"CARGO_TARGET_DIR": tgt}, check=False, timeout=1200)
            if r.returncode != 0:
                P.build_error = r.stdout[-6000:]
                return P
            shutil.copy(os.path.join(tgt, "release", "sakura-oracle"), P.oracle + ".tmp")
            os.replace(P.oracle + ".tmp", P.oracle)
            if need_ovf:
                r = sh(["cargo", "build", "--profile", "ovf", "--offline"], cwd=os.path.join(VERIF, "harness"),
                       env={"CARGO_TARGET_DIR": tgt}, check=False, timeout=1200)
                if r.returncode != 0:
                    P.build_error = r.stdout[-6000:]
                    return P
                shutil.copy(os.path.join(tgt, "ovf", "sakura-oracle"), P.oracle_ovf + ".tmp")
                os.replace(P.oracle_ovf + ".tmp", P.oracle_ovf)
            if need_cli:
                r = sh(["cargo", "build", "--release", "--offline", "--bin", "sakuramml"], cwd=SNAP,
                       env={"CARGO_TARGET_DIR": os.path.join(CACHE, "target-cli")}, check=False, timeout=1200)
                if r.returncode != 0:
                    P.build_error = r.stdout[-6000:]
                    return P
                shutil.copy(os.path.join(CACHE, "target-cli", "release", "sakuramml"), P.cli + ".tmp")
                os.replace(P.cli + ".tmp", P.cli)
            # prune old cached binaries / sources
            # (entries of other trees are kept for two hours: a check of another tree may be running at the same time)
            keep = P.hash; old = time.time() - 7200
            for d in os.listdir(os.path.join(CACHE, "bin")):
                fp = os.path.join(CACHE, "bin", d)
                if keep not in d and os.path.getmtime(fp) < old:
                    try: os.remove(fp)
                    except OSError: pass
            for d in os.listdir(CACHE):
                if d.startswith("src-") and keep not in d and os.path.getmtime(os.path.join(CACHE, d)) < old:
                    shutil.rmtree(os.path.join(CACHE, d), ignore_errors=True)
            shutil.rmtree(SNAP, ignore_errors=True)
    P.build_error = None
    P.build_s = time.time() - t0
    return P

# ------------------------------------------------------------------ Lean side
def gen_tables(P):
    """Run the translator on the snapshot sources; write Gen/*.lean only when content changes."""
    from tools import gen_tables as gt
    with Lock("lean"):
        return gt.generate(P.srcdir, os.path.join(LEAN, "SakuraVerif", "Gen"))

def restore_committed_gen():
    """For the search only: put the translator's tables back as they are committed (the model of the unchanged code), when the
       regenerated ones do not fit the model any more (a constant became an expression, a table changed its shape …)."""
    ok = True
    with Lock("lean"):
        for f in ("Consts.lean", "Tables.lean"):
            r = sh(["git", "-C", VERIF, "show", "HEAD:lean/SakuraVerif/Gen/" + f], check=False, timeout=60)
            if r.returncode != 0 or not r.stdout.strip(): ok = False; continue
            open(os.path.join(LEAN, "SakuraVerif", "Gen", f), "w").write(r.stdout)
    return ok

def lake_build(targets, timeout=3000):
    with Lock("lean"):
        r = sh(["lake", "build"] + targets, cwd=LEAN, check=False, timeout=timeout)
    return r.returncode == 0, r.stdout

def theorem_names(prop_file):
    """(namespace-qualified) names of every theorem in a Props file"""
    src = open(os.path.join(LEAN, "SakuraVerif", "Props", prop_file)).read()
    # strip block comments
    src = re.sub(r"/-.*?-/", "", src, flags=re.S)
    ns = re.search(r"^namespace\s+(\S+)", src, flags=re.M)
    ns = ns.group(1) if ns else ""
    names = re.findall(r"^theorem\s+(\S+)", src, flags=re.M)
    return [(ns + "." + n) if ns else n for n in names]

FORBIDDEN = re.compile(r"\b(sorry|admit|native_decide|bv_decide|implemented_by|unsafe)\b|^\s*axiom\s|maxHeartbeats 0", re.M)

def audit_sources(mods_dir=None):
    """grep the Lean sources (comments stripped) for forbidden constructs"""
    bad = []
    root = os.path.join(LEAN, "SakuraVerif")
    for dp, dn, fn in os.walk(root):
        for f in fn:
            if not f.endswith(".lean"): continue
            s = open(os.path.join(dp, f)).read()
            s = re.sub(r"/-.*?-/", "", s, flags=re.S)
            s = re.sub(r"--.*", "", s)
            for m in FORBIDDEN.finditer(s):
                bad.append("%s: %s" % (os.path.relpath(os.path.join(dp, f), LEAN), m.group(0).strip()))
    return bad

def print_axioms(prop_module, names):
    """#print axioms for each theorem; returns {name: [axioms]} or raises"""
    txt = "import SakuraVerif.Props.%s\n" % prop_module + "".join("#print axioms %s\n" % n for n in names)
    os.makedirs(os.path.join(CACHE, "audit"), exist_ok=True)
    f = os.path.join(CACHE, "audit", "Audit_%s_%d.lean" % (prop_module, os.getpid()))
    open(f, "w").write(txt)
    r = sh(["lake", "env", "lean", f], cwd=LEAN, check=False, timeout=1200)
    os.remove(f)
    out = r.stdout
    res = {}
    for m in re.finditer(r"'([^']+)' depends on axioms: \[([^\]]*)\]", out):
        res[m.group(1)] = [a.strip() for a in m.group(2).replace("\n", " ").split(",") if a.strip()]
    for m in re.finditer(r"'([^']+)' does not depend on any axioms", out):
        res[m.group(1)] = []
    return res, out, r.returncode

def driver_path():
    return os.path.join(LEAN, ".lake", "build", "bin", "sakura-driver")

# ------------------------------------------------------------------ running cases
def _limits():
    resource.setrlimit(resource.RLIMIT_AS, (6 << 30, 6 << 30))

def run_oracle(P, reqs, timeout_case=10.0, capture_stdout=False, tag="o", binary=None):
    """Run the real code on a list of request lines.  Survives hangs/aborts: a case that kills or
    stalls the process gets the response 'hang' / 'abort' and the run resumes after it.
    Returns list of response lines (and per-case stdout when asked)."""
    n = len(reqs)
    if n == 0: return ([], []) if capture_stdout else []
    tmp = tempfile.mkdtemp(prefix="sv-" + tag + "-", dir=WORK)
    # split over workers
    nw = min(NCPU, max(1, n // 50))
    chunks = [list(range(i, n, nw)) for i in range(nw)]
    procs = []
    for w, idxs in enumerate(chunks):
        rq = os.path.join(tmp, "req%d" % w)
        with open(rq, "w") as f:
            for i in idxs: f.write(reqs[i] + "\n")
        procs.append(dict(w=w, idxs=idxs, rq=rq, rs=os.path.join(tmp, "res%d" % w), so=os.path.join(tmp, "out%d" % w), start=0, extra={}))
    def launch(p):
        p["fo"] = open(p["so"], "ab")
        p["proc"] = subprocess.Popen([binary or P.oracle, p["rq"], p["rs"], str(p["start"])], stdout=p["fo"], stderr=subprocess.DEVNULL, preexec_fn=_limits)
        p["last_n"] = -1; p["last_t"] = time.time()
    def nres(p):
        try:
            with open(p["rs"], "rb") as f: return f.read().count(b"\n")
        except FileNotFoundError: return 0
    for p in procs: launch(p)
    active = list(procs)
    while active:
        time.sleep(0.05)
        for p in list(active):
            rc = p["proc"].poll()
            k = nres(p)
            if k != p["last_n"]:
                p["last_n"] = k; p["last_t"] = time.time()
            if rc is not None:
                p["fo"].close()
                k = nres(p)
                if k >= len(p["idxs"]):
                    active.remove(p)
                else:
                    # died on case k
                    with open(p["rs"], "a") as f: f.write("abort rc=%s\n" % rc)
                    p["start"] = k + 1
                    if p["start"] >= len(p["idxs"]): active.remove(p)
                    else: launch(p)
            elif time.time() - p["last_t"] > timeout_case:
                p["proc"].kill(); p["proc"].wait(); p["fo"].close()
                k = nres(p)
                with open(p["rs"], "a") as f: f.write("hang\n")
                p["start"] = k + 1
                if p["start"] >= len(p["idxs"]): active.remove(p)
                else: launch(p)
    res = [None] * n
    outs = [""] * n
    for p in procs:
        with open(p["rs"]) as f: lines = f.read().split("\n")
        for j, i in enumerate(p["idxs"]):
            res[i] = lines[j] if j < len(lines) else "abort missing"
        if capture_stdout:
            try:
                so = open(p["so"], "rb").read().decode("utf-8", "replace")
            except FileNotFoundError:
                so = ""
            cur = None; buf = []
            for ln in so.split("\n"):
                m = re.match(r"^@@(\d+|end)$", ln)
                if m:
                    if cur is not None and cur < len(p["idxs"]): outs[p["idxs"][cur]] += "\n".join(buf)
                    buf = []
                    cur = None if m.group(1) == "end" else int(m.group(1))
                else:
                    buf.append(ln)
            if cur is not None and cur < len(p["idxs"]) and buf: outs[p["idxs"][cur]] += "\n".join(buf)
    shutil.rmtree(tmp, ignore_errors=True)
    return (res, outs) if capture_stdout else res

def run_driver(reqs, timeout=1800):
    """Run the Lean model driver on request lines (stdin/stdout), split over workers."""
    n = len(reqs)
    if n == 0: return []
    nw = min(NCPU, max(1, n // 200))
    chunks = [list(range(i, n, nw)) for i in range(nw)]
    procs = []
    for idxs in chunks:
        data = "".join(reqs[i] + "\n" for i in idxs).encode()
        p = subprocess.Popen([driver_path()], stdin=subprocess.PIPE, stdout=subprocess.PIPE, stderr=subprocess.PIPE)
        procs.append((idxs, p, data))
    res = [None] * n
    import threading
    def work(idxs, p, data):
        try:
            out, err = p.communicate(data, timeout=timeout)
        except subprocess.TimeoutExpired:
            p.kill(); out, err = p.communicate()
        lines = out.decode("utf-8", "replace").split("\n")
        for j, i in enumerate(idxs):
            res[i] = lines[j] if j < len(lines) and lines[j] != "" else "driver-error " + err.decode("utf-8", "replace")[:200].replace("\n", " ")
    ths = [threading.Thread(target=work, args=a) for a in procs]
    for t in ths: t.start()
    for t in ths: t.join()
    return res

# ------------------------------------------------------------------ known findings
def load_known():
    p = os.path.join(VERIF, "known_findings.json")
    if not os.path.exists(p): return {"open": [], "fixed": []}
    return json.load(open(p))

# ------------------------------------------------------------------ a check run
class Stream:
    """One correspondence/spec stream.  cases: list of dict(key=..., req=<impl request>, ...).
    model_reqs(case, status, fields) -> list of driver request lines.
    judge(case, (status, fields), [driver resp lines]) -> None | ('violation', why) | ('mismatch', why)
    nontrivial(case, impl, model) -> hashable or None (for distinct_nontrivial)."""
    def __init__(self, name, cases, model_reqs, judge, nontrivial=None, rule="", timeout_case=10.0, capture_stdout=False):
        self.name = name; self.cases = cases; self.model_reqs = model_reqs; self.judge = judge
        self.nontrivial = nontrivial; self.rule = rule; self.timeout_case = timeout_case
        self.capture_stdout = capture_stdout

def run_stream(P, st):
    reqs = [c["req"] for c in st.cases]
    binary = P.oracle_ovf if getattr(st, "variant", None) == "ovf" else None      # the build with arithmetic overflow checks on
    if st.capture_stdout:
        impl, outs = run_oracle(P, reqs, st.timeout_case, True, tag=st.name, binary=binary)
    else:
        impl = run_oracle(P, reqs, st.timeout_case, tag=st.name, binary=binary); outs = None
    parsed = [parse_resp(l) for l in impl]
    mreqs = []; spans = []
    for i, c in enumerate(st.cases):
        if outs is not None: c["_stdout"] = outs[i]
        rs = st.model_reqs(c, parsed[i][0], parsed[i][1]) or []
        spans.append((len(mreqs), len(mreqs) + len(rs)))
        mreqs.extend(rs)
    mres = run_driver(mreqs)
    results = []
    seen = set()
    for i, c in enumerate(st.cases):
        a, b = spans[i]
        mr = mres[a:b]
        v = st.judge(c, parsed[i], mr)
        if st.nontrivial:
            k = st.nontrivial(c, parsed[i], mr)
            if k is not None: seen.add(k)
        results.append(dict(case=c, impl=impl[i], model_req=mreqs[a:b], model=mr, verdict=v))
    return results, len(seen)

def write_json(path, obj):
    os.makedirs(os.path.dirname(path), exist_ok=True)
    tmp = path + ".tmp%d" % os.getpid()
    with open(tmp, "w") as f: json.dump(obj, f, indent=1, ensure_ascii=False)
    os.replace(tmp, path)
