"""MML source generators: the core note-language AST (generator, printer, reference semantics
prototype kept for cross-checks), multi-track layouts, sample songs."""
import random, os, glob
from fractions import Fraction
from .core import REPO

SEMI={'c':0,'d':2,'e':4,'f':5,'g':7,'a':9,'b':11}
def tdiv(a,b): return int(Fraction(a,b)) if b else 0   # trunc toward zero
def clamp(lo,v,hi): return lo if v<lo else hi if v>hi else v

class Trk:
    def __init__(s,tb,ch): s.tp=0; s.ch=clamp(0,ch,15); s.l=tb; s.o=5; s.v=100; s.q=90; s.t=0; s.key=0; s.ev=[]
class St:
    def __init__(s): s.tb=96; s.tr=[Trk(96,0)]; s.cur=0; s.keyflag=[0]*12; s.kshift=0; s.harm=None
    def t(s): return s.tr[s.cur]

def length(L,tb,dflt):
    # L = (head, parts) ; head/part = (pct, n or None, dots)
    def dotv(v,k): return v+int(Fraction(v*(2**k-1),2**k)) if k else v
    (pct,n,dots),parts=L
    step=pct
    if n is None: res=dflt
    elif step: res=n
    else: res=tdiv(tb*4,n) if n>0 else 0
    res=dotv(res,dots)
    for (pct,n,dots) in parts:
        step=step or pct
        if n is None: res+=dflt   # no digits: default, dots not consumed (generator never adds dots then)
        else:
            v=n if step else (dflt if n==0 else tdiv(tb*4,n))
            res+=dotv(v,dots)
    return res
def lenstr(L):
    if L is None: return ""
    (pct,n,dots),parts=L
    s=("%" if pct else "")+("" if n is None else str(n))+"."*dots
    for (pct,n,dots) in parts: s+="^"+("%" if pct else "")+("" if n is None else str(n))+"."*dots
    return s
def hats(L):
    return 0 if L is None else len(L[1])

def note_on(st,key,ln,q,v,tm):
    t=st.t()
    dur=int(Fraction(ln*q,100)) if ln*q>=0 else -int(Fraction(-ln*q,100))
    ev=('n',t.tp+tm,t.ch,key,dur,clamp(0,v,127))
    t.tp+=ln
    return ev

def sem(cmds,st):
    for c in cmds:
        k=c[0]; t=st.t()
        if k=='note':
            _,name,acc,nat,L,q,v,tm,o=c
            qq=t.q if q in (None,0) else q; vv=t.v if v is None else v; tt=t.t if tm is None else tm; oo=t.o if o is None else o
            key=oo*12+SEMI[name]+acc+(0 if nat else st.keyflag[SEMI[name]])+st.kshift+t.key
            ln=length(L,st.tb,t.l) if L else t.l
            ev=note_on(st,key,ln,qq,vv,tt)
            if st.harm is not None: st.tr[st.cur].tp=st.harm[0]; st.harm[1].append(ev)
            else: t.ev.append(ev)
        elif k=='raw': pass      # verbatim text of a command without effect on the sounded notes
        elif k=='noten':
            _,no,L,q,v,tm=c
            qq=t.q if q in (None,0) else q; vv=t.v if (v is None or v<0) else v; tt=t.t if tm is None else tm
            ln=length(L,st.tb,t.l) if L else t.l
            t.ev.append(note_on(st,no+t.key+st.kshift,ln,qq,vv,tt))
        elif k=='rest':
            _,L,d=c; t.tp+=(length(L,st.tb,t.l) if L else t.l)*d
        elif k=='l': t.l=length(c[1],st.tb,st.tb) if c[1] else st.tb
        elif k=='o': t.o=clamp(0,c[1],10)
        elif k=='orel': t.o=clamp(0,t.o+c[1],10)
        elif k=='v': t.v=clamp(0,c[1],127)
        elif k=='q': t.q=clamp(0,c[1],100)
        elif k=='t': t.t=c[1]
        elif k=='loop':
            _,n,a,b=c
            for i in range(n):
                sem(a,st)
                if i==n-1 and b is not None: break
                if b: sem(b,st)
        elif k=='sub':
            tp=t.tp; sem(c[1],st); st.t().tp=tp
        elif k=='div':
            _,body_,L,cnt=c
            dl=length(L,st.tb,t.l) if L else t.l
            end=t.tp+dl; lo=t.l; t.l=tdiv(dl,cnt) if cnt>0 else 0
            sem(body_,st); st.t().tp=end; st.t().l=lo
        elif k=='chord':
            _,body_,L,q,v=c
            st.harm=[t.tp,[]]; sem(body_,st)
            ht,evs=st.harm; st.harm=None
            qq=t.q if (q is None or q<0) else q
            ln=length(L,st.tb,t.l) if L else t.l
            for e in reversed(evs):
                e=list(e); e[1]=ht
                if qq!=0: e[4]=int(Fraction(ln*qq,100))
                if v is not None: e[5]=v
                t.ev.append(tuple(e))
            t.tp=ht+ln
        elif k=='tr':
            n=c[1]
            while len(st.tr)<=n: st.tr.append(Trk(st.tb,n-1))      # D#8 reproduced: channel of the *requested* track
            st.cur=n
        elif k=='ch': t.ch=clamp(1,c[1],16)-1
        elif k=='kshift': st.kshift=c[1]
        elif k=='tkey': t.key=c[1]
        elif k=='keyflag':
            kf=[0]*12
            for nm in c[2]: kf[SEMI[nm]]=c[1]
            st.keyflag=kf
    return st

def pr(cmds,sep=" "):
    out=[]
    for c in cmds:
        k=c[0]
        if k=='note':
            _,name,acc,nat,L,q,v,tm,o=c
            s=name+("+"*acc if acc>0 else "-"*(-acc))+("*" if nat else "")+lenstr(L)
            tail=[q,v,tm,o]
            while tail and tail[-1] is None: tail.pop()
            for x in tail: s+=","+("" if x is None else str(x))
            out.append(s)
        elif k=='noten':
            _,no,L,q,v,tm=c
            s="n%d,"%no+lenstr(L); tail=[q,v,tm]
            while tail and tail[-1] is None: tail.pop()
            for x in tail: s+=","+("" if x is None else str(x))
            out.append(s)
        elif k=='rest': out.append("r"+("-" if c[2]<0 else "")+lenstr(c[1]))
        elif k=='l': out.append("l"+lenstr(c[1]))
        elif k=='o': out.append("o%d"%c[1])
        elif k=='orel': out.append(">" if c[1]>0 else "<")
        elif k=='vrel': out.append(")" if c[1]>0 else "(")
        elif k=='tsync': out.append("TrackSync")
        elif k=='play':
            # an empty part is written as an empty argument slot (`PLAY({c},,{e})`), a part holding only ('raw','') as `{}`
            out.append("PLAY(%s)" % ",".join(("" if (p == [] and len(c[1]) > 1) else "{%s}" % pr(p)) for p in c[1]))
        elif k=='raw': out.append(c[1])      # verbatim text (a command that writes non-note events on the current track, a second `:` in a loop)
        elif k=='voice': out.append("@%d;"%c[1])
        elif k=='v': out.append("v%d"%c[1])
        elif k=='q': out.append("q%d"%c[1])
        elif k=='t': out.append("t%d"%c[1])
        elif k=='loop':
            # blanks, tabs or a range comment may stand between '[' and the count (chosen deterministically from the loop's shape)
            sp = ["", "", " ", "  ", "\t", " /*n*/ "][(c[1] * 7 + len(c[2]) * 3) % 6]
            out.append("[%s%d %s%s]"%(sp,c[1],pr(c[2]),"" if c[3] is None else " : "+pr(c[3])))
        elif k=='sub': out.append("Sub{%s}"%pr(c[1]))
        elif k=='div': out.append(("{%s}%s" if len(c)<4 or c[3]=='{' else "Div{%s}%s")%(pr(c[1]),lenstr(c[2])))
        elif k=='chord':
            s="'%s'%s"%(pr(c[1]),lenstr(c[2]))
            if c[3] is not None or c[4] is not None:
                s+=","+("" if c[3] is None else str(c[3]))
                if c[4] is not None: s+=","+str(c[4])
            out.append(s)
        elif k=='tr': out.append("TR(%d)"%c[1])
        elif k=='ch': out.append("CH(%d)"%c[1])
        elif k=='kshift': out.append("KeyShift(%d)"%c[1])
        elif k=='tkey': out.append("TrackKey(%d)"%c[1])
        elif k=='keyflag': out.append("KeyFlag%s(%s)"%("+" if c[1]>0 else "-","".join(c[2])))
    return sep.join(out)

def expected_streams(st):
    res=[]
    for t in st.tr:
        evs=[]
        for (_,tm,ch,key,dur,vel) in t.ev:
            evs.append((tm,0x90+ch,key,vel)); evs.append((tm+dur,0x80+ch,key,vel))
        evs=sorted(evs,key=lambda e:e[0])  # python sort is stable
        res.append(evs)
    return res

R=random.Random
def gen_len(r,allow_none=True,in_div=False):
    if allow_none and r.random()<0.5: return None
    def part(first):
        pct=r.random()<0.12
        n=None if (not first and r.random()<0.3) else (r.choice([1,2,4,8,16,3,6,12,24,32]) if not pct else r.randrange(1,200))
        dots=0 if n is None else r.choice([0,0,0,1,1,2,3,4])
        return (pct,n,dots)
    h=part(True); parts=[part(False) for _ in range(r.choice([0,0,0,1,2]))]
    if any(p[0] for p in [h]+parts):   # avoid sticky-step ambiguity (D#30): once %, all later numeric parts are %
        seen=False; fixed=[]
        for p in [h]+parts:
            seen=seen or p[0]
            fixed.append((p[0], p[1], p[2]) if not seen or p[1] is None else (True if p[0] else False, p[1], p[2]))
        # keep as is: semantics function already implements sticky mode
    return (h,parts)
def gen_note(r,depth,in_div):
    if r.random()<0.2:
        return ('noten',r.randrange(20,100),gen_len(r),r.choice([None,None,50,100,120]),r.choice([None,None,30,127]),r.choice([None,None,0,3]))
    L=gen_len(r)
    v=r.choice([None,None,None,40,127,200])
    tm=r.choice([None,None,None,0,2,7]); o=r.choice([None,None,None,3,6,0,10])
    q=r.choice([None,None,None,50,100,110])
    if tm is None and o is not None: tm=0   # an empty timing slot followed by an octave slot is not part of the grammar
    return ('note',r.choice("cdefgab"),r.choice([0,0,0,1,-1,2]),r.random()<0.1,L,q,v,tm,o)
def gen_cmds(r,depth,n,in_div=False,in_chord=False,top=False):
    out=[]
    for _ in range(n):
        x=r.random()
        if x<0.42: out.append(gen_note(r,depth,in_div))
        elif x<0.50 and not in_chord: out.append(('rest',gen_len(r) if not in_div else None,(-1 if (r.random()<0.08 and not in_div) else 1)))      # r- moves the pointer back
        elif x<0.56: out.append(('l',gen_len(r,False)))
        elif x<0.61: out.append(('o',r.randrange(0,12)))
        elif x<0.66: out.append(('orel',r.choice([1,-1])))
        elif x<0.70: out.append(('v',r.randrange(0,160)))
        elif x<0.74: out.append(('q',r.randrange(1,130)))
        elif x<0.755: out.append(('t',r.randrange(0,6)))
        elif x<0.76:
            y=r.random()
            if y<0.45: out.append(('vrel',r.choice([1,-1])))
            elif y<0.6:
                # a burst that crosses a bound, then a step back (state must stay clamped)
                d=r.choice([1,-1]); out.extend([('vrel',d)]*r.randrange(3,18)); out.append(('note','c',0,False,None,None,None,None,None)); out.extend([('vrel',-d)]*r.randrange(1,3))
            elif y<0.75:
                d=r.choice([1,-1]); out.extend([('orel',d)]*r.randrange(3,12)); out.append(('note','d',0,False,None,None,None,None,None)); out.extend([('orel',-d)]*r.randrange(1,3))
            else: out.append(('voice',r.randrange(1,129)))
        elif x<0.82 and depth>0 and not in_chord:
            nn=r.randrange(1,4); a=gen_cmds(r,depth-1,r.randrange(1,4),in_div=in_div)
            b=None if r.random()<0.5 else gen_cmds(r,depth-1,r.randrange(0,3),in_div=in_div)
            out.append(('loop',nn,a,b))
        elif x<0.86 and depth>0 and not in_chord: out.append(('sub',gen_cmds(r,depth-1,r.randrange(1,4),in_div=False)))
        elif x<0.90 and depth>0 and not in_div and not in_chord:
            b=gen_cmds(r,1 if r.random()<0.3 else 0,r.randrange(1,5),in_div=True)
            out.append(('div',b,gen_len(r),r.choice(['{','{','D'])))
        elif x<0.94 and not in_chord:
            # (inside a tuplet every member of a chord is one counted element: the lexer counts note tokens)
            b=[gen_note(r,0,in_div) for _ in range(r.randrange(1,4))]; b=[c for c in b if c[0]=='note'] or [('note','c',0,False,None,None,None,None,None)]
            if in_div:
                out.append(('chord',b,None,r.choice([None,None,50,100]),r.choice([None,None,77])))
                continue
            if r.random()<0.3:
                # other time-moving elements inside a chord (a rest, a numbered note): the chord still advances by exactly its own length
                extra=('rest',gen_len(r),1) if r.random()<0.6 else None
                if extra is None:
                    nn=gen_note(r,0,False)
                    for _ in range(8):
                        if nn[0]=='noteN': break
                        nn=gen_note(r,0,False)
                    extra=nn if nn[0]=='noteN' else ('rest',None,1)
                b.insert(r.choice([len(b),len(b),r.randrange(0,len(b)+1)]),extra)
            L=gen_len(r)
            if L is not None and (L[0][0] or L[0][1] is None): L=((False,r.choice([1,2,4,8]),L[0][2]),L[1])
            out.append(('chord',b,L,r.choice([None,None,50,100]),r.choice([None,None,77])))
        elif x<0.96 and top: out.append(('tr',r.randrange(0,5) if r.random()<0.85 else r.choice([9,10,15,16,17,18,20,33])))      # (tracks at and beyond the sixteen channels: default channel = number - 1, at most 16)
        elif x<0.97 and top: out.append(('ch',r.randrange(0,18)))
        elif x<0.98 and top: out.append(('kshift',r.randrange(-3,4)))
        elif x<0.99 and top: out.append(('tkey',r.randrange(-2,3)))
        elif top: out.append(('keyflag',r.choice([1,-1]),r.sample("cdefgab",r.randrange(1,4))))
    return out


def _part_sexp(p):
    pct, n, dots = p
    return "(p %d %d %s %d)" % (1 if pct else 0, 1 if (n is not None and n < 0) else 0, "_" if n is None else str(abs(n)), dots)
def _len_sexp(L):
    if L is None: return "_"
    h, parts = L
    return "(len %s%s)" % (_part_sexp(h), "".join(" (94 %s)" % _part_sexp(p) for p in parts))
def _oi(x): return "_" if x is None else str(x)
def sexp(cmds):
    out = []
    for c in cmds:
        k = c[0]
        if k == 'note':
            _, name, acc, nat, L, q, v, tm, o = c
            out.append("(note %d %d %d %s %s %s %s %s)" % (SEMI[name], acc, 1 if nat else 0, _len_sexp(L), _oi(q), _oi(v), _oi(tm), _oi(o)))
        elif k == 'noten':
            _, no, L, q, v, tm = c
            out.append("(noten %d %s %s %s %s)" % (no, _len_sexp(L), _oi(q), _oi(v), _oi(tm)))
        elif k == 'rest': out.append("(rest %s %d)" % (_len_sexp(c[1]), c[2]))
        elif k == 'l': out.append("(l %s)" % _len_sexp(c[1]))
        elif k == 'raw': out.append("(voice 1)")      # no effect on the sounded notes
        elif k in ('o', 'orel', 'v', 'vrel', 'q', 't', 'tr', 'ch', 'voice', 'kshift', 'tkey'): out.append("(%s %d)" % (k, c[1]))
        elif k == 'tsync': out.append("(tsync)")
        elif k == 'play': out.append("(play (%s))" % " ".join(sexp(p) for p in c[1]))
        elif k == 'loop': out.append("(loop %d %s %d %s _)" % (c[1], sexp(c[2]), 0 if c[3] is None else 1, sexp(c[3] or [])))
        elif k == 'sub': out.append("(sub %s)" % sexp(c[1]))
        elif k == 'div': out.append("(div %s %s)" % (sexp(c[1]), _len_sexp(c[2])))
        elif k == 'chord': out.append("(chord %s %s %s %s _)" % (sexp(c[1]), _len_sexp(c[2]), _oi(c[3]), _oi(c[4])))
        elif k == 'keyflag': out.append("(keyflag %d (%s))" % (c[1], " ".join(str(SEMI[n]) for n in c[2])))
        else: raise Exception("sexp: " + k)
    return "(" + " ".join(out) + ")"

def gen_program(rng, depth=3, maxlen=10, top=True):
    return gen_cmds(rng, depth, rng.randrange(1, maxlen), top=top)

SEPS = [" ", "  ", "\n", "\t", " | ", ";", " ; "]

def multitrack_source(rng, malformed=False):
    """(source, number of tracks expected >= , time base in effect or None)"""
    parts = []
    tb = None
    if rng.random() < 0.5:
        tbv = rng.choice([48, 96, 120, 192, 480, 960, 9600, 32767, rng.randint(48, 32767), 1, 0, 47, -5, 32768, 40000, 65536, 70000])
        kw = rng.choice(["TimeBase", "TIMEBASE", "Timebase", "System.TimeBase", "SYSTEM.TimeBase"])
        form = rng.choice(["%s(%d)", "%s=%d", "%s = %d", "%s(%d);"])
        if tbv < 0 and "=" in form: form = "%s(%d)"
        parts.append(form % (kw, tbv))
        tb = min(max(48, tbv), 32767)      # the division of the header is a positive 15-bit number
    else:
        tb = 96
    ntr = rng.choice([1, 2, 3, 5, 12])
    order = [rng.choice([0, 1, 2, 3, 7, 15, 16, 40, 200, 999, rng.randint(0, 999)]) for _ in range(ntr)]
    for n in order:
        parts.append(rng.choice(["TR(%d)", "TR=%d", "Track(%d)", "TRACK(%d)"]) % n)
        parts.append(pr(gen_cmds(rng, 2, rng.randrange(0, 6), top=False)))
    if rng.random() < 0.12:
        # a verbatim End-of-Track written by the source in the middle of a track: the chunk must still END with End-of-Track
        parts.insert(rng.randrange(1, len(parts)), rng.choice(["DirectSMF($FF,$2F,$00)", "DirectSMF($FF,$2F,0) c", "DirectSMF(255,47,0) r8 d"]))
    if rng.random() < 0.25:
        # comments of every form between the commands (also the empty range comment and the `/** … */` form), in front of the time base too
        for _ in range(rng.randrange(1, 4)):
            parts.insert(rng.randrange(0, len(parts) + 1), rng.choice(["/**/", "/* x */", "/** doc */", "// c\n", "/***/", "/**/ /**/", "/* TimeBase(77) */"]))
    if rng.random() < 0.15: parts.insert(0, rng.choice(["/**/", "/**/", "/***/", "/* */", "/**/ /**/"]))      # … the first thing of all
    if malformed:
        junk = ["!", "ZZZ", "}", "]", "'", "[", "{", "(", "\u3042", "\x00", "$", "~{x}", "Sub{", "#?1", "TR(", "v", "@", "y", ",,,", "^^",
                "FUNCTION F{c}", "FUNCTION FA){c}", "FUNCTION Foo", "INT A=1", "STR Mel={d} Mel", "#M={e}", "FOR(INT I=0;I<2;I++){c}", "Sub{ FUNCTION G(){d} G() }"]      # (broken definitions followed by anything that writes a variable)
        for _ in range(rng.randrange(1, 4)):
            parts.insert(rng.randrange(1, len(parts) + 1), rng.choice(junk))
    src = rng.choice([" ", "\n"]).join(parts)
    return src, max(order) + 1, (tb if not malformed else None)

def sample_sources():
    out = []
    for f in sorted(glob.glob(os.path.join(REPO, "samples", "*.mml"))):
        try: out.append(open(f, encoding="utf-8").read())
        except Exception: pass
    return out
