"""Greedy structural shrinking of core-language ASTs (vlib.mml) for replay files."""

def _children_idx(c):
    k = c[0]
    if k == 'loop': return [2, 3]
    if k in ('sub', 'div', 'chord'): return [1]
    return []

def candidates(prog):
    """smaller variants of a command list (each differs by one local simplification)"""
    out = []
    for i, c in enumerate(prog):
        out.append(prog[:i] + prog[i + 1:])                      # delete
        k = c[0]
        if k in ('loop', 'sub', 'div', 'chord'):
            body = c[2] if k == 'loop' else c[1]
            if k != 'chord': out.append(prog[:i] + list(body) + prog[i + 1:])   # splice the body in
            if k == 'loop':
                if c[3]: out.append(prog[:i] + [('loop', c[1], c[2], None)] + prog[i + 1:])
                if c[1] > 2: out.append(prog[:i] + [('loop', 2, c[2], c[3])] + prog[i + 1:])
                if c[1] > 1: out.append(prog[:i] + [('loop', 1, c[2], c[3])] + prog[i + 1:])
            for ci in _children_idx(c):
                sub = c[ci]
                if sub is None: continue
                for v in candidates(list(sub)):
                    nc = list(c); nc[ci] = v
                    out.append(prog[:i] + [tuple(nc)] + prog[i + 1:])
        elif k == 'note':
            plain = ('note', c[1], 0, False, None, None, None, None, None)
            if c != plain: out.append(prog[:i] + [plain] + prog[i + 1:])
        elif k == 'noten':
            plain = ('noten', c[1], None, None, None, None)
            if c != plain: out.append(prog[:i] + [plain] + prog[i + 1:])
        elif k in ('rest', 'l') and c[1] is not None:
            nc = list(c); nc[1] = None
            out.append(prog[:i] + [tuple(nc)] + prog[i + 1:])
    return out

def shrink(prog, fails, max_rounds=60, batch=400):
    """fails(list_of_progs) -> list of bool.  Returns a locally minimal failing program."""
    cur = prog
    for _ in range(max_rounds):
        cands = candidates(cur)
        if not cands: break
        cands.sort(key=lambda p: len(repr(p)))
        found = None
        for a in range(0, len(cands), batch):
            chunk = cands[a:a + batch]
            res = fails(chunk)
            for p, f in zip(chunk, res):
                if f:
                    found = p; break
            if found is not None: break
        if found is None: break
        cur = found
    return cur
