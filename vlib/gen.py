"""Shared generators."""
import random
from .core import hx

KINDS = ["on", "cc", "pb", "pbr", "voice", "meta", "sysex"]
DELTA_EDGES = [0, 1, 127, 128, 129, 255, 16383, 16384, 16385, 2097151, 2097152, 2097153, 268435455]

def rand_value(rng, lo_in=0, hi_in=127):
    r = rng.random()
    if r < 0.7: return rng.randint(lo_in, hi_in)
    if r < 0.8: return rng.choice([-1, -128, -300, 128, 200, 255, 256, 300, 1000, 70000])
    if r < 0.9: return rng.choice([0, 1, 126, 127])
    if r < 0.94:      # beyond 16 and 32 bits: a narrowing cast before the clamp would bring these back into range
        return rng.choice([1, -1]) * (rng.choice([1 << 16, 1 << 31, 1 << 32, 1 << 40]) + rng.choice([0, 5, 64, 100, 127, 128]))
    return rng.randint(-500, 500)

def rand_event(rng, t, allow_smf=False, wild=True):
    k = rng.choice(KINDS + (["smf"] if allow_smf else []))
    ch = rng.randint(0, 15)
    val = (lambda: rand_value(rng)) if wild else (lambda: rng.randint(0, 127))
    if k == "on":
        return "on:%d:%d:%d:%d:%d:~" % (t, ch, val(), rng.choice([0, 1, 10, 48, 96, 500, rng.randint(0, 2000), -1, -10, -rng.randint(1, 600)]), val())
    if k == "cc":
        return "cc:%d:%d:%d:%d:0:~" % (t, ch, val(), val())
    if k == "pb":
        return "pb:%d:%d:%d:0:0:~" % (t, ch, rng.choice([0, 8192, 16383, rng.randint(0, 16383), rng.randint(-20000, 40000)]))
    if k == "pbr":
        return "pbr:%d:%d:%d:0:0:~" % (t, ch, rng.choice([0, 2, 12, 24, 25, -1, rng.randint(0, 30)]))
    if k == "voice":
        return "voice:%d:%d:%d:0:0:~" % (t, ch, val())
    if k == "meta":
        n = rng.choice([0, 1, 3, 10, 60, 127])
        ty = rng.choice([1, 2, 3, 4, 5, 6, 7, 0x51, 0x58, 0x59, 0x20])
        data = bytes(rng.randint(0, 255) for _ in range(n))
        return "meta:%d:0:255:%d:%d:%s" % (t, ty, n, data.hex() or "~")
    if k == "sysex":
        n = rng.choice([0, 1, 2, 5, 10, 126, 127, 128, 129, 200, 300])
        if n == 0 and rng.random() < 0.5:
            return "sysex:%d:0:0:0:0:~" % t
        data = bytes([0xF0] + [rng.randint(0, 127) for _ in range(n)] + [0xF7])
        return "sysex:%d:0:0:0:0:%s" % (t, data.hex())
    data = bytes(rng.choice([[0x90, 60, 100], [0xA0, 60, 10], [0xD0, 5], []]))
    return "smf:%d:0:0:0:0:%s" % (t, data.hex() or "~")

def rand_track(rng, maxlen=12, wild=True, allow_smf=False):
    n = rng.choice([0, 1, 2, 3, 5, 8, maxlen])
    evs = []
    t = 0
    mode = rng.random()
    for _ in range(n):
        r = rng.random()
        if mode < 0.15: step = 0                       # long same-tick run
        elif r < 0.35: step = 0
        elif r < 0.55: step = rng.choice(DELTA_EDGES)
        elif r < 0.9: step = rng.randint(1, 500)
        else: step = -rng.randint(1, 300)              # out of order / negative ticks
        t2 = t + step
        if wild and rng.random() < 0.03: t2 = -rng.randint(1, 50)
        evs.append(rand_event(rng, t2, allow_smf, wild))
        if step > 0: t = t2
    return ",".join(evs) if evs else "~"

def same_tick_run(rng, n):
    """n events at one tick, all distinguishable: exposes an unstable sort"""
    t = rng.choice([0, 10, 480])
    evs = ["cc:%d:%d:%d:%d:0:~" % (t, rng.randint(0, 15), i % 128, (i * 7) % 128) for i in range(n)]
    # plus some earlier-issued later-tick events in between
    return ",".join(evs)
