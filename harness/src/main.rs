//! Oracle harness: runs the real sakuramml code in-process on requests read from a file
//! (one per line) and writes one response line per request to the output file.
//! Usage: sakura-oracle <requests> <responses> [start_index]
//! stdout of the process only carries what the *library* prints, bracketed by `@@<n>` markers.
use sakuramml::song::{Event, EventType, Song, Track};
use sakuramml::svalue::SValue;
use sakuramml::{lexer, midi, runner, sutoton};
use std::fs::File;
use std::io::{BufRead, BufReader, Write};
use std::panic;

fn hex(b: &[u8]) -> String {
    if b.is_empty() { return "~".to_string(); }
    let mut s = String::with_capacity(b.len() * 2);
    for x in b { s.push_str(&format!("{:02x}", x)); }
    s
}
fn unhex(s: &str) -> Vec<u8> {
    if s == "~" { return vec![]; }
    let b = s.as_bytes();
    let mut r = Vec::with_capacity(b.len() / 2);
    let mut i = 0;
    while i + 1 < b.len() {
        r.push(u8::from_str_radix(&s[i..i + 2], 16).unwrap_or(0));
        i += 2;
    }
    r
}
fn unhex_s(s: &str) -> String { String::from_utf8_lossy(&unhex(s)).to_string() }

fn kind_name(k: &EventType) -> &'static str {
    match k {
        EventType::NoteOn => "on", EventType::NoteOff => "off", EventType::ControllChange => "cc",
        EventType::PitchBend => "pb", EventType::PitchBendRange => "pbr", EventType::Voice => "voice",
        EventType::Meta => "meta", EventType::SysEx => "sysex", EventType::DirectSMF => "smf",
    }
}
fn kind_of(s: &str) -> EventType {
    match s {
        "on" => EventType::NoteOn, "off" => EventType::NoteOff, "cc" => EventType::ControllChange,
        "pb" => EventType::PitchBend, "pbr" => EventType::PitchBendRange, "voice" => EventType::Voice,
        "meta" => EventType::Meta, "sysex" => EventType::SysEx, _ => EventType::DirectSMF,
    }
}
fn ev_str(e: &Event) -> String {
    let d = match &e.data { None => "~".to_string(), Some(d) => hex(d) };
    format!("{}:{}:{}:{}:{}:{}:{}", kind_name(&e.etype), e.time, e.channel, e.v1, e.v2, e.v3, d)
}
fn evs_str(es: &Vec<Event>) -> String {
    if es.is_empty() { return "~".to_string(); }
    es.iter().map(ev_str).collect::<Vec<_>>().join(",")
}
fn parse_ev(s: &str) -> Event {
    let p: Vec<&str> = s.split(':').collect();
    let i = |k: usize| p[k].parse::<isize>().unwrap_or(0);
    let etype = kind_of(p[0]);
    let data = match etype {
        EventType::Meta | EventType::SysEx | EventType::DirectSMF => Some(unhex(p[6])),
        _ => None,
    };
    Event { etype, time: i(1), channel: i(2), v1: i(3), v2: i(4), v3: i(5), data }
}
fn parse_evs(s: &str) -> Vec<Event> {
    if s == "~" || s.is_empty() { return vec![]; }
    s.split(',').map(parse_ev).collect()
}
fn parse_tracks(s: &str) -> Vec<Vec<Event>> { s.split(';').map(parse_evs).collect() }
fn tracks_str(song: &Song) -> String {
    song.tracks.iter().map(|t| evs_str(&t.events)).collect::<Vec<_>>().join(";")
}

fn song_with(tb: isize, pf: isize, tracks: Vec<Vec<Event>>) -> Song {
    let mut song = Song::new();
    song.timebase = tb;
    song.play_from = pf;
    song.tracks.clear();
    for (i, evs) in tracks.into_iter().enumerate() {
        let mut t = Track::new(tb, i as isize);
        t.events = evs;
        song.tracks.push(t);
    }
    song
}

fn sv_str(v: &SValue) -> String {
    match v {
        SValue::Int(i) => format!("I{}", i),
        SValue::Str(s, t) => format!("S{}:{}", hex(s.as_bytes()), t),
        SValue::Bool(b) => format!("B{}", if *b { 1 } else { 0 }),
        SValue::Array(a) => format!("A[{}]", a.iter().map(sv_str).collect::<Vec<_>>().join(",")),
        SValue::IntArray(a) => format!("IA[{}]", a.iter().map(|x| x.to_string()).collect::<Vec<_>>().join(",")),
        SValue::StrArray(a) => format!("SA[{}]", a.iter().map(|x| hex(x.as_bytes())).collect::<Vec<_>>().join(",")),
        SValue::UserFunc(i) => format!("F{}", i),
        SValue::None => "N".to_string(),
    }
}

/// one token as text: `(Type i=.. g=.. s=.. d=[..] c=[..])`; LineNo tokens carry their line
fn tok_str(t: &sakuramml::token::Token) -> String {
    let ty = format!("{:?}", t.ttype);
    let mut out = format!("({} i={} g={}", ty, t.value_i, t.tag);
    if ty == "LineNo" { out.push_str(&format!(" n={}", t.lineno)); }
    match &t.value_s { Some(s) => out.push_str(&format!(" s={}", if s.is_empty() { "~".to_string() } else { hex(s.as_bytes()) })), None => {} }
    if !t.data.is_empty() { out.push_str(&format!(" d=[{}]", t.data.iter().map(sv_tok).collect::<Vec<_>>().join(" "))); }
    match &t.children { Some(c) => out.push_str(&format!(" c=[{}]", c.iter().map(tok_str).collect::<Vec<_>>().join(" "))), None => {} }
    out.push(')');
    out
}
/// one token as an S-expression: `(Type value_i line (data…) (children…)|_)`
fn tok_sexp(t: &sakuramml::token::Token) -> String {
    let kids = match &t.children { Some(c) => format!("({})", c.iter().map(tok_sexp).collect::<Vec<_>>().join(" ")), None => "_".to_string() };
    format!("({:?} {} {} ({}) {})", t.ttype, t.value_i, t.lineno, t.data.iter().map(sv_sexp).collect::<Vec<_>>().join(" "), kids)
}
/// one token for the script tie: `(Type value_i tag line S|_ (data…) (children…)|_)` with S = value_s in hex
fn stok_sexp(t: &sakuramml::token::Token) -> String {
    let kids = match &t.children { Some(c) => format!("({})", c.iter().map(stok_sexp).collect::<Vec<_>>().join(" ")), None => "_".to_string() };
    let vs = match &t.value_s { Some(s) => format!("S{}", if s.is_empty() { "~".to_string() } else { hex(s.as_bytes()) }), None => "_".to_string() };
    format!("({:?} {} {} {} {} ({}) {})", t.ttype, t.value_i, t.tag, t.lineno, vs, t.data.iter().map(sv_sexp).collect::<Vec<_>>().join(" "), kids)
}
fn sv_sexp(v: &SValue) -> String {
    match v {
        SValue::Int(i) => format!("I{}", i),
        SValue::Str(s, _) => format!("S{}", if s.is_empty() { "~".to_string() } else { hex(s.as_bytes()) }),
        SValue::Bool(b) => format!("B{}", if *b { 1 } else { 0 }),
        SValue::Array(a) => format!("(A {})", a.iter().map(sv_sexp).collect::<Vec<_>>().join(" ")),
        SValue::IntArray(a) => format!("(IA {})", a.iter().map(|x| x.to_string()).collect::<Vec<_>>().join(" ")),
        SValue::StrArray(a) => format!("(SA {})", a.iter().map(|x| hex(x.as_bytes())).collect::<Vec<_>>().join(" ")),
        SValue::UserFunc(i) => format!("F{}", i),
        SValue::None => "N".to_string(),
    }
}
fn sv_tok(v: &SValue) -> String {
    match v {
        SValue::Int(i) => format!("I{}", i),
        SValue::Str(s, _) => format!("S{}", if s.is_empty() { "~".to_string() } else { hex(s.as_bytes()) }),
        SValue::Bool(b) => format!("B{}", if *b { 1 } else { 0 }),
        SValue::Array(a) => format!("A<{}>", a.iter().map(sv_tok).collect::<Vec<_>>().join(" ")),
        SValue::IntArray(a) => format!("IA<{}>", a.iter().map(|x| x.to_string()).collect::<Vec<_>>().join(" ")),
        SValue::StrArray(a) => format!("SA<{}>", a.iter().map(|x| hex(x.as_bytes())).collect::<Vec<_>>().join(" ")),
        SValue::UserFunc(i) => format!("F{}", i),
        SValue::None => "N".to_string(),
    }
}

fn track_state(t: &Track) -> String {
    format!("tp:{},ch:{},l:{},o:{},v:{},q:{},t:{},key:{}", t.timepos, t.channel, t.length, t.octave, t.velocity, t.qlen, t.timing, t.track_key)
}

fn run_pipeline(src: &str, debug: bool, lang: &str) -> (Song, Vec<Vec<Event>>, isize, Vec<u8>) {
    let mut song = Song::new();
    song.debug = debug;
    song.set_language(lang);
    let mml = sutoton::convert(src);
    let tokens = lexer::lex(&mut song, &mml, 0);
    runner::exec(&mut song, &tokens);
    let snap: Vec<Vec<Event>> = song.tracks.iter().map(|t| t.events.clone()).collect();
    let pf = song.play_from;
    let bin = midi::generate(&mut song);
    (song, snap, pf, bin)
}

fn handle(line: &str) -> String {
    let a: Vec<&str> = line.split(' ').collect();
    match a[0] {
        "generate" => {
            // generate <tb> <pf> <tracks>
            let mut song = song_with(a[1].parse().unwrap(), a[2].parse().unwrap(), parse_tracks(a[3]));
            let bin = midi::generate(&mut song);
            format!("ok bin={}", hex(&bin))
        }
        "compile" => {
            // compile <srchex> <debug> <lang> <entry>
            let src = unhex_s(a[1]);
            let debug: u32 = a[2].parse().unwrap();
            let lang = a[3];
            match a[4] {
                "lib" => {
                    let r = sakuramml::compile(&src, debug);
                    format!("ok bin={} log={}", hex(&r.bin), hex(r.log.as_bytes()))
                }
                "midi" => {
                    let bin = sakuramml::compile_to_midi(&src, debug);
                    format!("ok bin={} log=~", hex(&bin))
                }
                _ => {
                    let mut c = sakuramml::SakuraCompiler::new();
                    c.set_language(lang);
                    c.set_debug_level(debug);
                    let bin = c.compile(&src);
                    format!("ok bin={} log={}", hex(&bin), hex(c.get_log().as_bytes()))
                }
            }
        }
        "objseq" => {
            // objseq <lang> <debug> <src1hex> <src2hex> ... : one SakuraCompiler, several compiles
            let mut c = sakuramml::SakuraCompiler::new();
            c.set_language(a[1]);
            c.set_debug_level(a[2].parse().unwrap());
            let mut outs = vec![];
            for s in &a[3..] {
                let bin = c.compile(&unhex_s(s));
                outs.push(hex(&bin));
            }
            format!("ok bins={} log={}", outs.join(","), hex(c.get_log().as_bytes()))
        }
        "run" => {
            // run <srchex> [lang]: pipeline with an event snapshot before generate
            let src = unhex_s(a[1]);
            let lang = if a.len() > 2 { a[2] } else { "en" };
            let (song, snap, pf, bin) = run_pipeline(&src, false, lang);
            let tr = snap.iter().map(evs_str).collect::<Vec<_>>().join(";");
            let st = song.tracks.iter().map(track_state).collect::<Vec<_>>().join(";");
            format!("ok tb={} pf={} cur={} tracks={} state={} bin={} log={}", song.timebase, pf, song.cur_track, tr, st, hex(&bin), hex(song.get_logs_str().as_bytes()))
        }
        "run2" => {
            // two sources: event snapshots of both (rest-shift and similar relational checks)
            let (_s1, snap1, _pf1, _b1) = run_pipeline(&unhex_s(a[1]), false, "en");
            let (_s2, snap2, _pf2, _b2) = run_pipeline(&unhex_s(a[2]), false, "en");
            let t1 = snap1.iter().map(evs_str).collect::<Vec<_>>().join(";");
            let t2 = snap2.iter().map(evs_str).collect::<Vec<_>>().join(";");
            format!("ok tracks1={} tracks2={}", t1, t2)
        }
        "dump" => {
            let bin = unhex(a[1]);
            let s = midi::dump_midi(&bin, false);
            format!("ok text={}", hex(s.as_bytes()))
        }
        "compile_dump" => {
            let src = unhex_s(a[1]);
            let r = sakuramml::compile(&src, 0);
            let s = midi::dump_midi(&r.bin, false);
            format!("ok bin={} text={}", hex(&r.bin), hex(s.as_bytes()))
        }
        "compile2" => {
            // two sources, both compiled by the library entry point: bins + logs
            let r1 = sakuramml::compile(&unhex_s(a[1]), 0);
            let r2 = sakuramml::compile(&unhex_s(a[2]), 0);
            format!("ok bin1={} bin2={} log1={} log2={}", hex(&r1.bin), hex(&r2.bin), hex(r1.log.as_bytes()), hex(r2.log.as_bytes()))
        }
        "convert" => {
            let s = sutoton::convert(&unhex_s(a[1]));
            format!("ok out={}", hex(s.as_bytes()))
        }
        "zen2han" => {
            let c = char::from_u32(a[1].parse().unwrap()).unwrap_or('\0');
            format!("ok out={}", sakuramml::token::zen2han(c) as u32)
        }
        "calc_length" => {
            let v = runner::calc_length(&unhex_s(a[1]), a[2].parse().unwrap(), a[3].parse().unwrap());
            format!("ok out={}", v)
        }
        "playfrom" => {
            let mut t = Track::new(96, 0);
            t.events = parse_evs(a[2]);
            t.play_from(a[1].parse().unwrap());
            format!("ok ev={}", evs_str(&t.events))
        }
        "rand" => {
            let mut song = Song::new();
            song.rand_seed = a[1].parse().unwrap();
            let n: usize = a[2].parse().unwrap();
            let v: Vec<String> = (0..n).map(|_| song.rand().to_string()).collect();
            format!("ok out={}", v.join(","))
        }
        "randval" => {
            let mut song = Song::new();
            song.rand_seed = a[1].parse().unwrap();
            let v = song.calc_rand_value(a[2].parse().unwrap(), a[3].parse().unwrap());
            format!("ok out={} seed={}", v, song.rand_seed)
        }
        "sysex" => {
            let vals: Vec<SValue> = if a[2] == "~" { vec![] } else { a[2].split(',').map(|x| SValue::from_i(x.parse().unwrap())).collect() };
            let e = Event::sysex(0, &vals, a[1] == "1");
            format!("ok data={}", hex(&e.data.unwrap()))
        }
        "lexvars" => {
            // variables (global scope) after lexing+running: name=SValue sorted
            let src = unhex_s(a[1]);
            let (song, _, _, _) = run_pipeline(&src, false, "en");
            let mut names: Vec<(&String, &SValue)> = song.variables_stack[0].iter().collect();
            names.sort_by(|x, y| x.0.cmp(y.0));
            let want: Vec<&str> = a[2..].to_vec();
            let mut out = vec![];
            for (k, v) in names { if want.contains(&k.as_str()) { out.push(format!("{}={}", k, sv_str(v))); } }
            format!("ok vars={}", out.join(","))
        }
        "tokens" => {
            // the real lexer on the given text (no sutoton step): token list and the log
            let src = unhex_s(a[1]);
            let mut song = Song::new();
            let toks = lexer::lex(&mut song, &src, 0);
            let log = song.get_logs_str();
            format!("ok toks={} log={}", hex(toks.iter().map(tok_str).collect::<Vec<_>>().join(" ").as_bytes()), if log.is_empty() { "~".to_string() } else { hex(log.as_bytes()) })
        }
        "lexrun" => {
            // lexer + runner on the given text: token list, events per track, final track states
            let src = unhex_s(a[1]);
            let mut song = Song::new();
            let toks = lexer::lex(&mut song, &src, 0);
            runner::exec(&mut song, &toks);
            let st: Vec<String> = song.tracks.iter().map(track_state).collect();
            let log = song.get_logs_str();
            let sg = format!("ks:{},kf:{},uk:{},va:{},qa:{},ms:{},tsf:{},tsd:{},tempo:{}", song.key_shift, song.key_flag.iter().map(|x| x.to_string()).collect::<Vec<_>>().join("/"),
                if song.use_key_shift { 1 } else { 0 }, song.v_add, song.q_add, song.flags.measure_shift, song.timesig_frac, song.timesig_deno, song.tempo);
            let ties: Vec<String> = song.tracks.iter().map(|t| format!("{}:{}:{}", t.tie_mode as isize, t.tie_value, t.bend_range)).collect();
            format!("ok toks={} tracks={} state={} cur={} tb={} pf={} seed={} song={} ties={} log={}", hex(toks.iter().map(tok_sexp).collect::<Vec<_>>().join(" ").as_bytes()), tracks_str(&song), st.join(";"), song.cur_track, song.timebase, song.play_from, song.rand_seed, sg, ties.join(";"), if log.is_empty() { "~".to_string() } else { hex(log.as_bytes()) })
        }
        "scriptrun" => {
            // lexer + runner on a script program: tokens (with tag and value_s), the function table, the log, the sounded note numbers
            let src = unhex_s(a[1]);
            let mut song = Song::new();
            let toks = lexer::lex(&mut song, &src, 0);
            let funcs: Vec<String> = song.functions.iter().map(|f| format!("(fn S{} ({}) ({}) ({}))", hex(f.name.as_bytes()),
                f.arg_names.iter().map(|n| format!("S{}", hex(n.as_bytes()))).collect::<Vec<_>>().join(" "),
                f.arg_def_values.iter().map(sv_sexp).collect::<Vec<_>>().join(" "),
                f.tokens.iter().map(stok_sexp).collect::<Vec<_>>().join(" "))).collect();
            runner::exec(&mut song, &toks);
            let log = song.get_logs_str();
            let notes: Vec<String> = song.tracks.iter().flat_map(|t| t.events.iter()).filter(|e| e.etype == EventType::NoteOn).map(|e| e.v1.to_string()).collect();
            format!("ok toks={} funcs={} notes={} stack={} log={}", hex(toks.iter().map(stok_sexp).collect::<Vec<_>>().join(" ").as_bytes()),
                if funcs.is_empty() { "~".to_string() } else { hex(funcs.join(" ").as_bytes()) },
                if notes.is_empty() { "~".to_string() } else { notes.join(",") }, song.stack.len(),
                if log.is_empty() { "~".to_string() } else { hex(log.as_bytes()) })
        }
        "ping" => "ok pong".to_string(),
        _ => "bad-op".to_string(),
    }
}

fn panic_class(msg: &str) -> &'static str {
    if msg.contains("index out of bounds") || msg.contains("out of range for slice") || msg.contains("range end index") || msg.contains("range start index") { "index" }
    else if msg.contains("Option::unwrap()") || msg.contains("on a `None` value") { "unwrap" }
    else if msg.contains("char boundary") || msg.contains("out of bounds of") { "slice" }
    else if msg.contains("divisor of zero") || msg.contains("divide by zero") { "divzero" }
    else if msg.contains("overflow") { "overflow" }
    else if msg.contains("capacity") || msg.contains("alloc") { "alloc" }
    else { "other" }
}

fn main() {
    let args: Vec<String> = std::env::args().collect();
    let reqs = BufReader::new(File::open(&args[1]).expect("requests"));
    let mut out = std::fs::OpenOptions::new().create(true).append(true).open(&args[2]).expect("responses");
    let start: usize = if args.len() > 3 { args[3].parse().unwrap_or(0) } else { 0 };
    let last_msg = std::sync::Arc::new(std::sync::Mutex::new(String::new()));
    let lm = last_msg.clone();
    panic::set_hook(Box::new(move |info| {
        let mut s = String::new();
        if let Some(p) = info.payload().downcast_ref::<&str>() { s = p.to_string(); }
        else if let Some(p) = info.payload().downcast_ref::<String>() { s = p.clone(); }
        if let Some(l) = info.location() { s = format!("{} at {}:{}", s, l.file().rsplit('/').next().unwrap_or(""), l.line()); }
        *lm.lock().unwrap() = s;
    }));
    for (i, line) in reqs.lines().enumerate() {
        if i < start { continue; }
        let line = line.unwrap();
        println!("@@{}", i);
        let _ = std::io::stdout().flush();
        let l2 = line.clone();
        let r = panic::catch_unwind(move || handle(&l2));
        let resp = match r {
            Ok(s) => s,
            Err(_) => {
                let m = last_msg.lock().unwrap().clone();
                format!("panic {} msg={}", panic_class(&m), hex(m.as_bytes()))
            }
        };
        writeln!(out, "{}", resp).unwrap();
        let _ = out.flush();
    }
    println!("@@end");
}
