#!/usr/bin/env python3
"""Development-time helper: confirm a sub-agent's seeded change and run the checks against it.
usage: tools/seedverify.py <worktree> <seed-id> <Cxx> [<Cyy> ...]
 1. in the worktree (change applied, tests/seeded_demo.rs present): the existing suite passes, the demo fails;
 2. with the source change reverted the demo passes;  3. store patch/demo/meta under /verif/seeded/<seed-id>/;
 4. run the given checks against a scratch copy with the patch (tools/seedtest.py) and record the verdicts."""
import sys, os, subprocess, json, shutil, re

def sh(cmd, cwd, timeout=1800):
    r = subprocess.run(cmd, cwd=cwd, shell=True, stdout=subprocess.PIPE, stderr=subprocess.STDOUT, text=True, timeout=timeout,
                       env=dict(os.environ, CARGO_NET_OFFLINE="true"))
    return r.returncode, r.stdout

def passed(out):
    return sum(int(x) for x in re.findall(r"test result: \w+\. (\d+) passed", out)), sum(int(x) for x in re.findall(r"(\d+) failed", out))

def main():
    wt, sid = sys.argv[1], sys.argv[2]; checks = sys.argv[3:]
    prop = sid.split("-")[0]
    meta = {"seed": sid, "breaks_property": prop}
    rc, out = sh("cargo test --offline --lib --bins 2>&1 | tail -30", wt)
    p, f = passed(out); meta["suite_with_change"] = "%d passed, %d failed" % (p, f)
    rc1, out1 = sh("cargo test --offline --test seeded_demo 2>&1 | tail -40", wt)
    p1, f1 = passed(out1); meta["demo_with_change"] = "%d passed, %d failed (rc=%d)" % (p1, f1, rc1)
    sh("git diff -- src command.md voice.md > /tmp/%s.patch" % sid, wt)
    sh("git checkout -- src command.md voice.md", wt)
    rc2, out2 = sh("cargo test --offline --test seeded_demo 2>&1 | tail -40", wt)
    p2, f2 = passed(out2); meta["demo_without_change"] = "%d passed, %d failed (rc=%d)" % (p2, f2, rc2)
    sh("git apply /tmp/%s.patch" % sid, wt)
    ok = (p >= 75 and f == 0 and f1 > 0 and f2 == 0 and p2 > 0)
    meta["confirmed"] = ok
    d = os.path.join("/verif/seeded", sid); os.makedirs(d, exist_ok=True)
    shutil.copy("/tmp/%s.patch" % sid, os.path.join(d, "patch.diff"))
    for fn in ("seeded_demo.rs",):
        src = os.path.join(wt, "tests", fn)
        if os.path.exists(src): shutil.copy(src, os.path.join(d, fn))
    notes = os.path.join("/tmp/seed%s-out" % ("" if sid.endswith("-a") else sid.split("-")[1]), prop, "notes.md")
    if os.path.exists(notes):
        shutil.copy(notes, os.path.join(d, "notes.md"))
        meta["needs_to_manifest"] = open(notes, encoding="utf-8").read()[:1500]
    meta["ran"] = ["cargo test --offline --lib --bins (with change)", "cargo test --offline --test seeded_demo (with change / with src reverted)", "tools/seedtest.py patch.diff " + " ".join(checks)]
    print("confirmed" if ok else "NOT CONFIRMED", meta["suite_with_change"], "| demo with:", meta["demo_with_change"], "| without:", meta["demo_without_change"])
    verdicts = {}
    if ok and checks:
        r = subprocess.run([sys.executable, "/verif/tools/seedtest.py", os.path.join(d, "patch.diff")] + checks, stdout=subprocess.PIPE, stderr=subprocess.STDOUT, text=True, timeout=7200)
        print(r.stdout[-3000:])
        for line in r.stdout.split("\n"):
            m = re.match(r"^(C\d\d) rc=(\d+) (.*)$", line)
            if m: verdicts[m.group(1)] = {"rc": int(m.group(2)), "line": m.group(3)[:200]}
    meta["check_verdicts"] = verdicts
    json.dump(meta, open(os.path.join(d, "meta.json"), "w"), indent=1, ensure_ascii=False)

if __name__ == "__main__":
    main()
