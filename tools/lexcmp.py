#!/usr/bin/env python3
"""dev helper: compare the model lexer with the real lexer on given texts (args) or stdin lines"""
import sys, os
sys.path.insert(0, os.path.dirname(os.path.dirname(os.path.abspath(__file__))))
from vlib import core
P = core.prepare()
srcs = sys.argv[1:] or [l.rstrip("\n") for l in sys.stdin]
srcs = [s.encode().decode("unicode_escape").encode("latin-1").decode("utf-8") if "\\" in s else s for s in srcs]
real = core.run_oracle(P, ["tokens " + core.hx(s) for s in srcs])
mod = core.run_driver(["lex " + core.hx(s) for s in srcs])
for s, r, m in zip(srcs, real, mod):
    st, f = core.parse_resp(r)
    if "unsupported" in m: print("UNSUPPORTED %r" % s[:80]); continue
    a = core.unhx(f["toks"]).decode(); b = core.unhx(m.split("toks=")[1].split(" ")[0]).decode()
    la = core.unhx(f["log"]).decode() if f["log"] != "~" else ""; lb = core.unhx(m.split("log=")[1]).decode() if not m.endswith("log=~") else ""
    if a == b and la == lb: print("same %r" % s[:80])
    else:
        print("DIFF %r" % s[:80])
        if a != b:
            ta = a.split(" ("); tb_ = b.split(" (")
            for i, (x, y) in enumerate(zip(ta, tb_)):
                if x != y: print("   real: (%s\n   model: (%s" % (x[:200], y[:200])); break
            else: print("   lengths", len(ta), len(tb_))
        if la != lb: print("   log real: %r\n   log model: %r" % (la[:300], lb[:300]))
