import sys; sys.path.insert(0,'/verif')
from vlib import core
import random, collections
from vlib.props import c07
P=core.prepare()
groups=collections.defaultdict(list)
for st in c07.streams('quick', random.Random(int(sys.argv[1]) if len(sys.argv)>1 else 20260930), P):
    res,nt=core.run_stream(P, st)
    for r in res:
        if r['verdict']:
            groups[r['verdict'][1][:110]].append(r['case']['src'])
for k,v in sorted(groups.items(), key=lambda kv:-len(kv[1])):
    v.sort(key=len)
    print(len(v), k, '::', [repr(x)[:60] for x in v[:4]])
