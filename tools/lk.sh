#!/bin/sh
# dev helper: build one Lean module, show errors / trace_state output of that module only (truncated).
# usage: lk.sh Module FilePattern [maxlines] [maxcols]; GOAL=1 shows only the error headline and the goal (from ⊢) of each message
cd /verif/lean && timeout 1200 lake build "$1" 2>&1 | awk -v f="$2" -v goal="${GOAL:-0}" '
/^(error|info): / { show = (index($0, f) > 0); ing = 0; if (show) print; next }
/^warning: / { show = 0 }
/^Hint:/ { show = 0 }
/^⊢/ { ing = 1 }
/^case / { if (goal == 1 && show && ing) { ing = 0 } }
show { if (goal == 0 || ing) print }' | cut -c1-${4:-180} | head -${3:-80}
