#!/bin/sh
# dev helper: build one Lean module, show errors and trace_state output of that module only (truncated)
cd /verif/lean && timeout 1200 lake build "$1" 2>&1 | awk -v f="$2" '
/^(error|info): / { show = (index($0, f) > 0); }
/^warning: / { show = 0 }
/^Hint:/ { show = 0 }
show { print }' | cut -c1-${4:-180} | head -${3:-80}
