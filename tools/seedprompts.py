#!/usr/bin/env python3
"""Development-time helper: write the prompts for one round of seeded changes and create the scratch worktrees.
usage: tools/seedprompts.py <round letter>   ->  /tmp/seed<r>-out/Cxx.prompt.txt, worktrees /tmp/seed<r>-Cxx (at /repo HEAD)
The sub-agents get only the text of the property and their own worktree — nothing from /verif."""
import json, re, subprocess, os, sys
R = sys.argv[1]
T = '''You are helping to test a verification suite by seeding one realistic bug into a Rust project.

Project: kujirahand/sakuramml-rust (an MML/ABC music-macro-language to Standard MIDI File compiler: hand-written lexer src/lexer.rs, tree-walking interpreter src/runner.rs, song/track state src/song.rs, SMF writer and dump src/midi.rs, Japanese "sutoton" preprocessor src/sutoton.rs, command tables src/mml_def.rs). Your own scratch git worktree of it is at: @@WT@@  (work ONLY there; never touch /repo or /verif; do not read anything under /verif).

The property you must break (a semantic property the project is supposed to satisfy):

@@PROP@@

Task: make ONE small change to the Rust source in your worktree that breaks this property, such that
 1. the project still compiles and its whole existing test suite still passes:  cd @@WT@@ && cargo test --offline   (75 tests; must all pass WITH your change);
 2. the breakage is REAL but needs something specific to manifest — a particular multi-step sequence of commands, an unusual but legal input, a boundary value, a particular nesting, a rarely used command or option, or two cooperating code sites that each look fine alone — NOT something that every ordinary one-line program would expose at once. It should look like a plausible mistake a maintainer could make (an off-by-one, a wrong comparison, a missed case, a changed default in a rarely used path, a state leak, a refactoring that is almost equivalent), not sabotage. Prefer breaking a clause of the statement that is easy to overlook (read the statement sentence by sentence and pick a clause, a boundary or an interaction that a test generator built around the obvious cases would not reach);
 3. you provide a demonstration: a small Rust integration test file (put it at @@WT@@/tests/seeded_demo.rs, using the public API e.g. sakuramml::compile(src, 0).bin / .log, sakuramml::midi::dump_midi) that FAILS with your change and PASSES on the unchanged code (verify both: use `git diff -- src > /tmp/y-@@ID@@.patch; git checkout -- src; cargo test --offline --test seeded_demo; git apply /tmp/y-@@ID@@.patch` to compare). Do not modify existing tests.
 4. Earlier experiments already changed these places: @@AVOID@@ — choose a DIFFERENT function and a different mechanism.
 5. If, while probing, you find inputs on which the UNCHANGED code already violates the property as stated (spend up to a third of your effort looking for such inputs: boundaries of every number the statement mentions, combinations of two features the statement relates, values just outside a documented range), list them at the end of notes.md under a heading "Unchanged code" (input + what happens + why the statement says otherwise); this is valuable, but still deliver a seeded change.

Deliver (write these files, create the directory):
  /tmp/seed@@R@@-out/@@ID@@/patch.diff      — `git diff -- src` of your change (source only, without the demo test)
  /tmp/seed@@R@@-out/@@ID@@/seeded_demo.rs  — the demonstration test
  /tmp/seed@@R@@-out/@@ID@@/notes.md        — which property it breaks, what exactly is needed for the bug to manifest (the triggering input), and what you ran (commands + observed results with and without the change)
Finally leave the worktree with your change applied and the demo test in place. Keep your final answer short: the triggering input and a one-line description of the change.
'''
props = {}
for l in open('/verif/properties.jsonl'):
    d = json.loads(l); props[d['id']] = d
os.makedirs('/tmp/seed%s-out' % R, exist_ok=True)
for i in range(1, 21):
    pid = "C%02d" % i
    d = props[pid]
    pt = "%s — %s\n\nStatement: %s\n\nQuantified over: %s\n\nRelevant code sites:\n%s\nObserve at: %s" % (pid, d['title'], d['statement'], d['quantifier']['text'], "\n".join(" - %s (%s)" % (m['name'], m['where']) for m in d['anchors'].get('mechanism', [])), "; ".join(d['anchors'].get('observe_at', [])))
    av = []
    for r in "abcdefghijklmnop":
        if r >= R: break
        fp = '/verif/seeded/%s-%s/patch.diff' % (pid, r)
        if not os.path.exists(fp): continue
        diff = open(fp).read()
        files = re.findall(r'^\+\+\+ b/(\S+)', diff, re.M); funcs = re.findall(r'^@@.*@@ (.*)$', diff, re.M)
        av.append("; ".join(sorted(set(files))) + " near: " + " | ".join(sorted(set(f.strip()[:60] for f in funcs))))
    open('/tmp/seed%s-out/%s.prompt.txt' % (R, pid), 'w').write(T.replace('@@WT@@', '/tmp/seed%s-%s' % (R, pid)).replace('@@ID@@', pid).replace('@@R@@', R).replace('@@PROP@@', pt).replace('@@AVOID@@', " || ".join(av)))
    subprocess.run(['git', '-C', '/repo', 'worktree', 'add', '--detach', '/tmp/seed%s-%s' % (R, pid), 'HEAD'], stdout=subprocess.DEVNULL, stderr=subprocess.DEVNULL)
print("ok")
