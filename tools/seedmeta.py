#!/usr/bin/env python3
"""usage: tools/seedmeta.py <seed-id> <Cxx> <text>  — record the verdict after strengthening in seeded/<id>/meta.json"""
import sys, json
p = "/verif/seeded/%s/meta.json" % sys.argv[1]
d = json.load(open(p)); d.setdefault("after_strengthening", {})[sys.argv[2]] = sys.argv[3]
json.dump(d, open(p, "w"), indent=1, ensure_ascii=False)
