#!/usr/bin/env python3
"""Regenerates /verif/MANIFEST.json from the table of claims below (development-time helper)."""
import json, os
ROOT = os.path.dirname(os.path.dirname(os.path.abspath(__file__)))
NOTE = ("Trusted: Lean 4.33 kernel (axioms ⊆ propext, Classical.choice, Quot.sound, audited per theorem with #print axioms), the Spec/*.lean "
        "statements, tools/gen_tables.py, the correspondence harness on the inputs explored; Rust std (Vec, String, HashMap, stable sort_by, f32 in its exact domain) modelled, not verified.")
CLAIMS = {
 "C01": ("Theorem C01_container: for every song the strict SMF container parser accepts generate's bytes and reads back format 1, the track count, the time base and exactly the chunk bodies; every body ends with EOT; time-base clamp and track materialisation lemmas; frame facts (single writer of timebase/tracks) regenerated from source. Tie: model bytes = real bytes and Spec.parseSmf on real bytes for random songs and sources.",
         "Lean 4 proof (strict container parser inverts the writer, induction over chunks) + differential correspondence"),
 "C02": ("Theorems: VLQ round trip for every n; C02_track_decodes — for every valid event list the independent SMF decoder reads the written track back as exactly the normalised events + one EOT; normalisation is a stable time sort with one note-off per note-on at start+gate. Tie: independent decoder on the real bytes vs the real event snapshot; model bytes = real bytes.",
         "Lean 4 proof (decoder inverts encoder by induction on the event list; mergeSort stability) + differential correspondence"),
 "C04": ("Theorems: closed form of calc_length for every expression of the grammar (any number of parts/digits, any time base and default): head value + sum of part values; n ↦ 4*tb/n, omitted ↦ default, %t ↦ t, dot laws, empty part ↦ default, additivity len(A^B)=len(A)+len(B); !L = calc_length(L,tb,tb). Tie: real calc_length vs closed form (from the generator's syntax tree) and vs the model on the text; note ticks in whole programs.",
         "Lean 4 proof (reader-consumes-exactly-its-text lemmas, induction over parts) + differential correspondence"),
 "C10": ("Theorems: C10_parse_print — for every expression tree (any depth; 13 binary operators in four precedence classes, unary minus, atoms) the model of the lexer's precedence-climbing read_calc_level reads the minimal-parenthesis print back as exactly that tree, so evaluating the parsed text is the conventional value; kernel-checked instances (2*3+1, 10-2-3, 1<2&2<3); value laws of the CalcTree arm (÷0 = %0 = 0, + concatenates with strings, comparisons/&| yield booleans, unary minus); MID/SizeOf/REPLACE laws on any text. Tie: PRINT of random well-typed trees (minimal and redundant parentheses, all literal forms, variables) by the real lexer+runner = evalTree of the tree; built-ins over ASCII/non-ASCII text.",
         "Lean 4 proof (relational big-step semantics of the parser, induction on the tree with a follow-set invariant) + differential correspondence"),
 "C15": ("Theorems: table facts decided in the kernel over tables regenerated from mml_def.rs/command.md/voice.md on every run (each controller/RPN/NRPN/text/tempo/time-signature/voice/pitch-bend command and every alias has the standard number from the hand-written Spec tables, no command of those classes is unspecified, doc CC#n = table, every voice.md name = its GM number) and byte-layout lemmas on the model arms (tempo FF 51 03 + 60,000,000/bpm for every bpm, time signature nn log2(dd) 24 8, 14-bit LSB-first bend centred 8192, p×128, Roland checksum law, text cut prefix/≤127 bytes/maximal). Tie: exhaustive sweeps of one-command programs through the real code, decoded bytes = Spec messages.",
         "Lean 4 proof (kernel-decided table facts over regenerated tables; arithmetic byte-layout lemmas) + exhaustive sweep correspondence"),
 "C17": ("Theorems: zen2han for every scalar value; the first match in a vocabulary sorted by byte length is a longest match, and the stable sort re-establishes sortedness after every ~{name}={value} (any vocabulary, incl. user words); definitions act from their position on; plain ASCII passes the loop unchanged for every vocabulary whose words start non-ASCII (decided in the kernel for the regenerated built-in vocabulary); terminated {\"..\"} strings are copied verbatim. Tie: real convert vs the model and vs an independent explicit-maximum longest-match specification on structured inputs; ASCII identity; exhaustive width map; Japanese piece vs transliteration bytes.",
         "Lean 4 proof (sortedness invariant ⇒ longest match; induction over text) + differential correspondence with an independent greedy specification"),
 "C20": ("Theorems: the dump's delta reader inverts the VLQ encoder for every value at any file offset (incl. 0x7F bytes); position round trip TIME(m:b:t); negation witness for the unrepaired reader. Tie: real dump text of real compiler outputs vs lines derived from the independent decoder and the position formula.",
         "Lean 4 proof (index-loop reader inverts encoder) + spec-on-real-output correspondence"),
}
PENDING_REASON = "not yet claimed: check under construction in this session (DESIGN.md §8 order of work)"
ALL = ["C%02d" % i for i in range(1, 21)]
def chk(pid):
    text, tech = CLAIMS[pid]
    return {"property_id": pid, "quick_cmd": "python3 check.py %s --tier quick" % pid, "thorough_cmd": "python3 check.py %s --tier thorough" % pid,
            "evidence_file": "/verif/evidence/%s.json" % pid, "replay_cmd_template": "python3 check.py %s --replay {path}" % pid, "engine": "lean4-proof+correspondence",
            "level_claimed": {"category": "proof", "text": text, "design_ref": "DESIGN.md §6 " + pid}, "level_note": NOTE, "technique": tech}
m = {"version": 1, "setup_cmd": "sh /verif/setup.sh",
 "hooks": {"guard": "sakura_verif_hooks", "enable": "no hooks are needed: every API the oracle harness calls is already pub; the harness crate path-depends on a snapshot of /repo's working tree", "baseline_off_cmd": "cd /repo && cargo test --workspace --no-fail-fast --offline", "source_commits": [], "add_only": True},
 "engines": [{"name": "lean4-proof+correspondence", "path": "/verif/check.py", "serves_properties": sorted(CLAIMS), "kind_free_text": "Lean 4 theorems about a model (lean/SakuraVerif) tied to /repo by tables regenerated on every run (tools/gen_tables.py) and by a correspondence check that runs the real code (harness/) and the compiled Lean model/spec (lean/Main.lean) on the same generated inputs"}],
 "checks": [chk(p) for p in sorted(CLAIMS)],
 "not_applicable": [{"property_id": p, "reason": PENDING_REASON} for p in ALL if p not in CLAIMS],
 "notes": "Machine-checked proof in Lean 4 over a model of sakuramml-rust; see DESIGN.md."}
json.dump(m, open(os.path.join(ROOT, "MANIFEST.json"), "w"), indent=1, ensure_ascii=False)
print("claimed:", sorted(CLAIMS))
