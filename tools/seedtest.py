#!/usr/bin/env python3
"""Development-time helper: run checks against a seeded change.
usage: tools/seedtest.py <patch.diff> <Cxx> [<Cyy> ...]
Applies the patch to a scratch copy of /repo (never to /repo itself), runs the given checks with
VERIF_REPO pointing at the copy, prints one line per check (exit code + VIOLATION line), removes the copy.
Afterwards the Gen/*.lean files are regenerated from /repo (a run against another tree rewrites them)."""
import sys, os, subprocess, shutil, tempfile

def main():
    patch = os.path.abspath(sys.argv[1]); checks = sys.argv[2:]
    scratch = tempfile.mkdtemp(prefix="seedtest-", dir="/var/tmp")
    try:
        subprocess.run(["rsync", "-a", "--exclude", "target", "--exclude", ".git", "/repo/", scratch + "/"], check=True)
        r = subprocess.run(["patch", "-p1", "-d", scratch, "-i", patch], stdout=subprocess.PIPE, stderr=subprocess.STDOUT, text=True)
        if r.returncode != 0:
            print("PATCH FAILED:", r.stdout[-500:]); return 2
        env = dict(os.environ); env["VERIF_REPO"] = scratch
        # the evidence files describe runs on /repo: a run against the scratch tree must not leave its record behind
        saved = {}
        for c in checks:
            ev = os.path.join("/verif/evidence", c + ".json")
            if os.path.exists(ev): saved[ev] = open(ev).read()
        for c in checks:
            r = subprocess.run([sys.executable, "/verif/check.py", c], env=env, stdout=subprocess.PIPE, stderr=subprocess.PIPE, text=True, timeout=3600)
            vio = [l for l in r.stdout.split("\n") if l.startswith("VIOLATION")]
            why = [l.strip() for l in r.stderr.split("\n") if l.strip().startswith(("failing input", "why:", "broken", "first disagreement"))]
            print("%s rc=%d %s" % (c, r.returncode, vio[0] if vio else "(no violation)"))
            for w in why[:3]: print("    " + w[:300])
    finally:
        for ev, txt in (saved if "saved" in dir() else {}).items():
            open(ev, "w").write(txt)
        shutil.rmtree(scratch, ignore_errors=True)
        # restore generated tables from the real repository
        subprocess.run([sys.executable, "/verif/tools/gen_tables.py", "/repo"], stdout=subprocess.DEVNULL)
    return 0

if __name__ == "__main__":
    sys.exit(main())
