#!/usr/bin/env python3
"""dev helper: run one request through the oracle (real code) and print the response decoded.
usage: tools/o.py run 'c d e'   |  tools/o.py raw 'generate 96 -1 ~'"""
import sys, os
sys.path.insert(0, os.path.dirname(os.path.dirname(os.path.abspath(__file__))))
from vlib import core
P = core.prepare()
op = sys.argv[1]
if op == "raw": reqs = sys.argv[2:]
else: reqs = ["%s %s%s" % (op, core.hx(sys.argv[2]), (" " + " ".join(sys.argv[3:])) if len(sys.argv) > 3 else "")]
for r in core.run_oracle(P, reqs):
    st, f = core.parse_resp(r)
    print(st)
    for k, v in f.items():
        if k in ("log", "text", "out", "msg", "stdout"):
            try: v = core.unhx(v).decode("utf-8", "replace")
            except Exception: pass
        print("  %s = %s" % (k, v if len(str(v)) < 3000 else str(v)[:3000] + "..."))
