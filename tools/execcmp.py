#!/usr/bin/env python3
"""dev helper: compare Model.Exec (on the real token list) with the real runner on given texts"""
import sys, os
sys.path.insert(0, os.path.dirname(os.path.dirname(os.path.abspath(__file__))))
from vlib import core
P = core.prepare()
srcs = sys.argv[1:] or [l.rstrip("\n") for l in sys.stdin]
real = core.run_oracle(P, ["lexrun " + core.hx(s) for s in srcs])
reqs = []
for r in real:
    st, f = core.parse_resp(r)
    reqs.append("exec %s %s" % (f["toks"], f["tb"]) if st == "ok" else "ping")
mod = core.run_driver(reqs)
for s, r, m in zip(srcs, real, mod):
    st, f = core.parse_resp(r)
    if st != "ok": print("IMPL", st, repr(s)[:80]); continue
    if "unsupported" in m: print("UNSUPPORTED %r %s" % (s[:80], m[:40])); continue
    mf = dict(p.split("=", 1) for p in m.split(" ")[1:] if "=" in p)
    bad = [k for k in ("tracks", "state", "cur", "pf", "seed") if mf.get(k) != f.get(k)]
    if not bad: print("same %r" % s[:80])
    else:
        print("DIFF %r" % s[:80])
        for k in bad: print("   %s real: %s\n   %s model: %s" % (k, f.get(k)[:300], k, mf.get(k, "")[:300]))
