#!/usr/bin/env python3
"""Translator: regenerates SakuraVerif/Gen/*.lean (Lean *data*, never code that needs proof) from
the Rust sources and the project's documentation tables.  Run on every check; the theorems in
Props refer to these definitions, so a changed table row / default / constant / frame fact in the
source changes Gen and the affected theorem stops checking."""
import re, sys, os, json

class TranslateError(Exception):
    pass

def between(text, a, b, what=""):
    try:
        i = text.index(a); j = text.index(b, i + len(a))
    except ValueError:
        raise TranslateError("anchor not found: %r .. %r %s" % (a, b, what))
    return text[i + len(a):j]

def cps(s):
    return "[" + ", ".join(str(ord(c)) for c in s) + "]"

def lstr(s):
    return '"' + s.replace("\\", "\\\\").replace('"', '\\"') + '"'

def rust_unescape(s):
    out = []; i = 0
    while i < len(s):
        if s[i] == "\\" and i + 1 < len(s):
            c = s[i + 1]
            if c == "n": out.append("\n")
            elif c == "t": out.append("\t")
            elif c == "r": out.append("\r")
            elif c == "u":
                m = re.match(r"\\u\{([0-9A-Fa-f]+)\}", s[i:])
                out.append(chr(int(m.group(1), 16))); i += len(m.group(0)); continue
            else: out.append(c)
            i += 2
        else:
            out.append(s[i]); i += 1
    return "".join(out)

def int_expr(v):
    """evaluate a small Rust integer constant expression"""
    v = v.split("//")[0].strip().replace("_", "")
    v = re.sub(r"(\d)(usize|isize|u32|u8|i32)\b", r"\1", v)
    if re.fullmatch(r"[0-9xXa-fA-F*+\-\s()]+", v):
        return int(eval(v))
    raise TranslateError("cannot evaluate constant %r" % v)

def enclosing_fns(text):
    """list of (start_line, name) for each fn"""
    res = []
    for n, l in enumerate(text.split("\n"), 1):
        m = re.match(r"\s*(?:pub\s+)?fn\s+(\w+)", l)
        if m: res.append((n, m.group(1)))
    return res

def fn_of(fns, line):
    name = "?"
    for n, f in fns:
        if n <= line: name = f
        else: break
    return name

def fn_body(text, name):
    """text of function `name` (brace matched)"""
    m = re.search(r"fn\s+" + re.escape(name) + r"\s*[(<]", text)
    if not m: raise TranslateError("function not found: " + name)
    i = text.index("{", m.end())
    depth = 0; j = i
    while j < len(text):
        if text[j] == "{": depth += 1
        elif text[j] == "}":
            depth -= 1
            if depth == 0: break
        j += 1
    return text[i:j + 1]

def extract(root):
    def src(name):
        return open(os.path.join(root, "src", name), encoding="utf-8").read()
    T = {}
    mml = src("mml_def.rs"); song = src("song.rs"); lex = src("lexer.rs"); run = src("runner.rs")
    tok = src("token.rs"); lib = src("lib.rs"); sut = src("sutoton.rs"); midi = src("midi.rs")
    mainrs = src("main.rs")
    # ---- system functions
    sf = between(mml, "//<SYSTEM_FUNCTION>", "//</SYSTEM_FUNCTION>")
    rows = []
    for l in sf.split("\n"):
        l = l.strip()
        if l.startswith("//") or not l.startswith("sysfunc"): continue
        m = re.match(r'sysfunc(?:_cc|_rpn)?_add!\(sf, "([^"]+)", TokenType::(\w+), \'(.)\'(?:, ([^,)]+))?(?:, ([^,)]+))?\);\s*(?://\s*(.*))?$', l)
        if not m: raise TranslateError("system function row does not parse: " + l[:80])
        name, tt, at, t1, t2, doc = m.groups()
        rows.append(dict(name=name, tt=tt, at=at, tag1=int_expr(t1) if t1 else 0, tag2=int_expr(t2) if t2 else 0, doc=doc or ""))
    if len(rows) < 150: raise TranslateError("too few system function rows: %d" % len(rows))
    T["sysFuncs"] = rows
    # ---- variables
    vs = between(mml, "//<VARIABLES>", "//</VARIABLES>")
    vars_ = []
    for l in vs.split("\n"):
        l = l.strip()
        if not l.startswith("var.insert"): continue
        m = re.match(r'var\.insert\(String::from\("(\w+)"\), SValue::from_i\((\d+)\)\);\s*(?://\s*(.*))?', l)
        if m: vars_.append(dict(name=m.group(1), kind="i", i=int(m.group(2)), s="", doc=m.group(3) or "")); continue
        m = re.match(r'var\.insert\(String::from\("(\w+)"\), SValue::from_str\("((?:[^"\\]|\\.)*)"\)\);\s*(?://\s*(.*))?', l)
        if m: vars_.append(dict(name=m.group(1), kind="s", i=0, s=rust_unescape(m.group(2)), doc=m.group(3) or "")); continue
        m = re.match(r'var\.insert\(String::from\("(\w+)"\), SValue::from_b\((true|false)\)\);\s*(?://\s*(.*))?', l)
        if m: vars_.append(dict(name=m.group(1), kind="b", i=1 if m.group(2) == "true" else 0, s="", doc=m.group(3) or "")); continue
        m = re.match(r'var\.insert\(String::from\("(\w+)"\), SValue::from_s\(', l)
        if m: vars_.append(dict(name=m.group(1), kind="x", i=0, s="", doc="")); continue
        raise TranslateError("variable row does not parse: " + l[:80])
    if len(vars_) < 150: raise TranslateError("too few variable rows")
    T["variables"] = vars_
    # ---- reserved
    rs = between(mml, "//<RESERVED>", "//</RESERVED>") if "//</RESERVED>" in mml else mml[mml.index("//<RESERVED>"):mml.index("macro_rules! sysfunc_add")]
    T["reserved"] = re.findall(r'var\.insert\(String::from\("(\w+)"\), (\d+)\)', rs)
    # ---- rhythm macro
    rm = re.findall(r"rhthm_macro\['(.)' as usize - 0x40\] = String::from\(\"([^\"]*)\"\)", between(mml, "// <RHYTHM_MACRO>", "// </RHYTHM_MACRO>"))
    T["rhythm"] = rm
    # ---- sutoton vocabulary
    su = re.findall(r'items\.set_item\("((?:[^"\\]|\\.)*)", "((?:[^"\\]|\\.)*)"\);', between(sut, "// <SUTOTON>", "// </SUTOTON>"))
    if len(su) < 50: raise TranslateError("too few sutoton rows")
    T["sutoton"] = [(rust_unescape(a), rust_unescape(b)) for a, b in su]
    # ---- constants
    consts = {}
    for text, pat in [(song, r'pub const (SAKURA_\w+): \w+ = ([^;]+);'), (lex, r'const (LEX_\w+): \w+ = ([^;]+);'), (midi, r'const (_?MIDI_\w+): \w+ = ([^;]+);')]:
        for k, v in re.findall(pat, text): consts[k.lstrip("_")] = int_expr(v)
    T["consts"] = consts
    # ---- struct defaults
    def fields(body): return dict((k, v.split("//")[0].strip()) for k, v in re.findall(r'^\s*(\w+):\s*([^,\n]+),', body, re.M))
    T["trackNew"] = fields(between(song, "        Track {\n", "        }\n"))
    T["flagsNew"] = fields(between(song, "        Flags {\n", "        }\n"))
    sn = between(song, "        Self {\n            debug: false,", "        }\n")
    T["songNew"] = fields("            debug: false," + sn)
    m = re.search(r"let timebase = (\d+);", fn_body(song[song.index("impl Song"):], "new"))
    T["songNew"]["timebase"] = m.group(1) if m else "?"
    # ---- match tables
    T["noteLetters"] = re.findall(r"'([a-g])' => (\d+),", between(lex, "TokenType::Note,\n        match ch {", "_ => 0,"))
    T["priorities"] = re.findall(r"'(.)' => (LEX_\w+),", between(lex, "let priority = match ch {", "_ => { 0 }")) if "let priority = match ch {" in lex else []
    T["denoLog2"] = re.findall(r"(\d+) => (\d+),", between(run, "let deno_v = match song.timesig_deno {", "_ => 2,"))
    T["tieMode"] = re.findall(r"(\d) => Self::(\w+),", between(mml, "pub fn from_i(i: isize) -> Self {", "_ => Self::Port"))
    T["tokenTypes"] = re.findall(r"^\s{4}(\w+),", between(tok, "pub enum TokenType {", "}\n"), re.M)
    # zen2han ranges
    z = fn_body(tok, "zen2han")
    T["zen2hanSrc"] = re.sub(r"\s+", " ", re.sub(r"//.*", "", z)).strip()
    # ---- entry points
    CALLS = r"(sutoton::convert|lexer::lex|runner::exec|midi::generate|get_logs_str|set_language|Song::new|rand_seed)"
    def pipeline(text): return re.findall(CALLS, re.sub(r"//.*", "", text))
    lib_nc = lib
    T["entry"] = {
        "objCompile": pipeline(fn_body(lib_nc[lib_nc.index("impl SakuraCompiler"):], "compile")),
        "compileToMidi": pipeline(fn_body(lib_nc, "compile_to_midi")),
        "compile": pipeline(fn_body(lib_nc[lib_nc.index("pub struct SakuraResult"):], "compile")),
        "cli": re.findall(r"(sutoton::convert|lex\(|exec\(|generate\(|get_logs_str|Song::new|rand_seed)", re.sub(r"//.*", "", fn_body(mainrs, "compile_to_midi"))) if "fn compile_to_midi" in mainrs else [],
    }
    # ---- frame facts
    files = ["lexer.rs", "runner.rs", "song.rs", "midi.rs", "lib.rs", "sutoton.rs", "svalue.rs", "token.rs", "source_cursor.rs", "mml_def.rs", "sakura_message.rs"]
    allsrc = {f: src(f) for f in files}
    def strip_tests(t):
        i = t.find("#[cfg(test)]")
        return t if i < 0 else t[:i]
    def sites(pat, only=None, skip_tests=True):
        r = []
        for f, t in allsrc.items():
            if only and f not in only: continue
            t2 = strip_tests(t) if skip_tests else t
            fns = enclosing_fns(t2)
            for n, l in enumerate(t2.split("\n"), 1):
                code = l.split("//")[0]
                if re.search(pat, code):
                    r.append("%s:%s" % (f, fn_of(fns, n)))
        # unique, order kept
        seen = []; 
        for x in r:
            if x not in seen: seen.append(x)
        return seen
    fr = {}
    fr["timebaseWriters"] = sites(r"\.timebase\s*=[^=]")
    fr["tracksMutators"] = sites(r"tracks\.(push|remove|clear|pop|truncate|insert|swap|drain|retain)\b|\.tracks\s*=[^=]")
    # println! not guarded by song.debug / flag_stdout on the same line or an enclosing `if ...debug` block
    unguarded = []
    for f, t in allsrc.items():
        t2 = strip_tests(t); fns = enclosing_fns(t2)
        lines = t2.split("\n")
        stack = []  # (guarded?) per open brace
        for n, l in enumerate(lines, 1):
            code = l.split("//")[0]
            if "println!" in code or "print!(" in code:
                guarded = any(stack) or re.search(r"debug|flag_stdout", code)
                if not guarded: unguarded.append("%s:%s" % (f, fn_of(fns, n)))
            # update brace stack
            opens = code.count("{"); closes = code.count("}")
            is_guard = bool(re.search(r"\bif\b.*(debug|flag_stdout)", code))
            for _ in range(closes):
                if stack: stack.pop()
            for k in range(opens):
                stack.append(is_guard and k == opens - 1 or (any(stack)))
            # closes processed before opens is imprecise for `} else {`; good enough for this code base
    seen = []
    for x in unguarded:
        if x not in seen: seen.append(x)
    fr["printlnUnguarded"] = seen
    fr["ambient"] = sites(r"static mut|thread_local|lazy_static|OnceCell|OnceLock|SystemTime|Instant::|env::var")
    # every name declared anywhere in the library with a hash-map / hash-set type (fields, locals, parameters), plus the known ones
    hnames = set(["variables_stack", "system_functions", "reserved_words", "sys_funcs", "vars", "var", "sf"])
    for f, t in allsrc.items():
        t2 = strip_tests(t)
        hnames.update(re.findall(r"\b(\w+)\s*:\s*&?(?:mut\s+)?(?:std::collections::)?Hash(?:Map|Set)\s*<", t2))
        hnames.update(re.findall(r"\blet\s+(?:mut\s+)?(\w+)[^=;\n]*=\s*(?:std::collections::)?Hash(?:Map|Set)\s*::", t2))
    hn = "|".join(sorted(re.escape(x) for x in hnames))
    fr["hashIter"] = sites(r"\b(%s)\b[\w\[\]\.]*\.(iter|keys|values|into_iter|drain|iter_mut|into_keys|into_values|retain)\(|\bfor\b[^;{]*\bin\s+&?(?:mut\s+)?(?:self\.|song\.)?(%s)\b\s*\{" % (hn, hn))
    fr["unsafeOrSwap"] = sites(r"\bunsafe\b|mem::swap|mem::replace|mem::take")
    # writers of pos / loop_stack inside runner::exec
    ex = fn_body(run, "exec")
    arms = []
    cur_arm = "?"
    for l in ex.split("\n"):
        code = l.split("//")[0]
        m = re.match(r" {12}TokenType::(\w+)(?:\s*\|\s*TokenType::\w+)*\s*=>", code)
        if m: cur_arm = m.group(1)
        if re.search(r"\bpos\s*=[^=]", code) and "let mut" not in code and cur_arm not in arms: arms.append(cur_arm)
    fr["execPosJumpArms"] = arms
    lsa = []
    cur_arm = "?"
    for l in ex.split("\n"):
        code = l.split("//")[0]
        m = re.match(r" {12}TokenType::(\w+)(?:\s*\|\s*TokenType::\w+)*\s*=>", code)
        if m: cur_arm = m.group(1)
        if "loop_stack" in code and "let mut" not in code and cur_arm not in lsa: lsa.append(cur_arm)
    fr["loopStackArms"] = lsa
    # panic-site audit: functions that contain `.unwrap()` / `.expect(` (library code, tests stripped)
    fr["unwrapSites"] = sites(r"\.unwrap\(\)|\.expect\(")
    T["frame"] = fr
    # ---- documentation tables
    cmd = open(os.path.join(root, "command.md"), encoding="utf-8").read()
    T["commandMd"] = re.findall(r"^\| ([^|]+?) \| ([^|]*?) \|$", cmd, re.M)
    voice = open(os.path.join(root, "voice.md"), encoding="utf-8").read()
    T["voiceMd"] = re.findall(r"^\|\s*(\d+)\s*\|\s*(\w+)\s*\|", voice, re.M)
    return T

# ---------------------------------------------------------------------------------- emit Lean
def chunked(name, ty, rows, n=40):
    """emit a long list literal as a concatenation of chunks (big literals elaborate slowly)"""
    if len(rows) <= n:
        return "def %s : List (%s) := [\n%s]\n" % (name, ty, ",\n".join(rows))
    parts = []
    names = []
    for i in range(0, len(rows), n):
        nm = "%s_%d" % (name, i // n)
        names.append(nm)
        parts.append("def %s : List (%s) := [\n%s]\n" % (nm, ty, ",\n".join(rows[i:i + n])))
    parts.append("def %s : List (%s) := %s\n" % (name, ty, " ++ ".join(names)))
    return "\n".join(parts)

def emit(T):
    out = {}
    c = ["-- GENERATED by tools/gen_tables.py from the Rust sources — do not edit", "namespace Sakura.Gen", ""]
    for k, v in sorted(T["consts"].items()):
        c.append("def %s : Int := %d" % (k, v))
    c.append("")
    def emit_fields(prefix, d, keys):
        for k in keys:
            v = d.get(k)
            if v is None:
                c.append("-- %s_%s: field not found" % (prefix, k)); continue
            v2 = v.replace("timebase", "96") if prefix == "trackNew" and k == "length" else v
            if re.fullmatch(r"-?\d+|0x[0-9a-fA-F]+", v2):
                c.append("def %s_%s : Int := %d" % (prefix, k, int(v2, 0)))
            elif v2 in ("true", "false"):
                c.append("def %s_%s : Bool := %s" % (prefix, k, v2))
            elif v2 == "SAKURA_DEFAULT_RANDOM_SEED":
                c.append("def %s_%s : Int := SAKURA_DEFAULT_RANDOM_SEED" % (prefix, k))
            else:
                c.append("def %s_%s : String := %s" % (prefix, k, lstr(v2)))
    emit_fields("trackNew", T["trackNew"], ["timepos", "length", "velocity", "octave", "qlen", "timing", "track_key", "tie_mode", "tie_value", "v_rand", "q_rand", "t_rand", "o_rand", "cc_on_time_freq", "bend_range", "v_on_time_start"])
    emit_fields("songNew", T["songNew"], ["timebase", "tempo", "cur_track", "timesig_frac", "timesig_deno", "key_shift", "play_from", "v_add", "q_add", "rand_seed", "device_number", "use_key_shift", "debug"])
    emit_fields("flagsNew", T["flagsNew"], ["max_loop", "break_flag", "measure_shift", "octave_once", "harmony_flag"])
    c.append("")
    c.append("/-- note letter → semitone (`read_note`) -/")
    c.append("def noteLetters : List (Nat × Int) := [" + ", ".join("(%d, %s)" % (ord(a), b) for a, b in T["noteLetters"]) + "]")
    c.append("def denoLog2 : List (Int × Int) := [" + ", ".join("(%s, %s)" % (a, b) for a, b in T["denoLog2"]) + "]")
    c.append("def tieModes : List (Int × String) := [" + ", ".join("(%s, %s)" % (a, lstr(b)) for a, b in T["tieMode"]) + "]")
    c.append("def zen2hanSrc : String := " + lstr(T["zen2hanSrc"]))
    c.append("")
    for k, v in T["entry"].items():
        c.append("def entry_%s : List String := [%s]" % (k, ", ".join(lstr(x) for x in v)))
    c.append("")
    for k, v in T["frame"].items():
        c.append("def frame_%s : List String := [%s]" % (k, ", ".join(lstr(x) for x in v)))
    c.append("")
    c.append("end Sakura.Gen")
    out["Consts.lean"] = "\n".join(c) + "\n"
    # ---- tables with code-point names (kernel-reducible)
    t = ["-- GENERATED by tools/gen_tables.py from the Rust sources and command.md / voice.md — do not edit", "namespace Sakura.Gen", ""]
    tts = T["tokenTypes"]
    t.append("/-- system function row: name (code points), token type index, arg type (char code), tag1, tag2,")
    t.append("    controller number named in the doc comment as `CC#n` (or -1), doc stem id -/")
    t.append("structure SysFuncRow where\n  name : List Nat\n  tt : Nat\n  argt : Nat\n  tag1 : Int\n  tag2 : Int\n  docCc : Int\n  stem : Nat\nderiving DecidableEq, Repr\n")
    t.append("def tokenTypeNames : List String := [%s]" % ", ".join(lstr(x) for x in tts))
    for i, x in enumerate(tts):
        t.append("def tt_%s : Nat := %d" % (x, i))
    stems = {}
    def stem_of(doc):
        d = re.sub(r"\(ex\).*", "", doc)
        d = re.sub(r"互換性:綴りミス \[typo\]\s*", "", d).strip()
        return stems.setdefault(d, len(stems))
    rows = []
    for r in T["sysFuncs"]:
        m = re.search(r"CC#(\d+)", r["doc"])
        cc = int(m.group(1)) if m else -1
        tti = tts.index(r["tt"]) if r["tt"] in tts else 9999
        rows.append("  ⟨%s, %d, %d, %d, %d, %d, %d⟩" % (cps(r["name"]), tti, ord(r["at"]), r["tag1"], r["tag2"], cc, stem_of(r["doc"])))
    t.append(chunked("sysFuncs", "SysFuncRow", rows))
    t.append("/-- built-in variables: name, kind (0 int, 1 string, 2 bool, 3 other), int value, string value -/")
    t.append("structure VarRow where\n  name : List Nat\n  kind : Nat\n  i : Int\n  s : List Nat\nderiving DecidableEq, Repr\n")
    kinds = {"i": 0, "s": 1, "b": 2, "x": 3}
    t.append(chunked("variables", "VarRow", ["  ⟨%s, %d, %d, %s⟩" % (cps(v["name"]), kinds[v["kind"]], v["i"], cps(v["s"])) for v in T["variables"]]))
    t.append(chunked("reserved", "List Nat × Nat", ["  (%s, %s)" % (cps(a), b) for a, b in T["reserved"]]))
    t.append("def rhythmMacro : List (Nat × List Nat) := [" + ", ".join("(%d, %s)" % (ord(a), cps(b)) for a, b in T["rhythm"]) + "]\n")
    t.append("/-- sutoton vocabulary in source order: (name, value) as scalar values -/")
    t.append(chunked("sutoton", "List Nat × List Nat", ["  (%s, %s)" % (cps(a), cps(b)) for a, b in T["sutoton"]]))
    t.append("/-- voice.md rows: (documented GM number, name) -/")
    t.append(chunked("voiceMd", "Int × List Nat", ["  (%s, %s)" % (a, cps(b)) for a, b in T["voiceMd"]]))
    # command.md rows: (command, CC number in description or -1)
    crow = []
    for a, b in T["commandMd"]:
        m = re.search(r"CC#(\d+)", b)
        crow.append("  (%s, %d)" % (cps(a.strip()), int(m.group(1)) if m else -1))
    srow = []
    for a, b in T["commandMd"]:
        m = re.search(r'\(値:"(.*)"\)\s*$', b)
        if m: srow.append("  (%s, %s)" % (cps(a.strip()), cps(m.group(1))))
    t.append("/-- command.md rows that document a string value: (name, documented text) -/")
    t.append(chunked("commandMdStr", "List Nat × List Nat", srow))
    t.append("/-- command.md rows: (command, controller number named in the description or -1) -/")
    t.append(chunked("commandMd", "List Nat × Int", crow))
    t.append("end Sakura.Gen")
    out["Tables.lean"] = "\n".join(t) + "\n"
    return out

def generate(root, outdir):
    """returns (changed_files, error or None)"""
    os.makedirs(outdir, exist_ok=True)
    try:
        T = extract(root)
        files = emit(T)
    except TranslateError as e:
        return [], str(e)
    changed = []
    for name, content in files.items():
        p = os.path.join(outdir, name)
        old = open(p, encoding="utf-8").read() if os.path.exists(p) else None
        if old != content:
            with open(p, "w", encoding="utf-8") as f: f.write(content)
            changed.append(name)
    return changed, None

if __name__ == "__main__":
    root = sys.argv[1] if len(sys.argv) > 1 else "/repo"
    outdir = sys.argv[2] if len(sys.argv) > 2 else os.path.join(os.path.dirname(os.path.dirname(os.path.abspath(__file__))), "lean", "SakuraVerif", "Gen")
    print(generate(root, outdir))
