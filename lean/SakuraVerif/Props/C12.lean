import SakuraVerif.Lemmas.Core
import SakuraVerif.Lemmas.ExecInv
import SakuraVerif.Lemmas.ExecFrame
import SakuraVerif.Lemmas.ExecLocal
/-! # C12 (T0) — tracks are independent; TrackSync and PLAY align them as documented

On `Spec.Core.sem`: selecting a track materialises every missing track with **its own** default
channel and leaves existing tracks untouched (so first use after a higher-numbered track does not
matter); `TrackSync` puts every pointer at the current track's; `PLAY` restores the current track
and leaves all tracks at one common position.  On the runner model `Ex2.exec`: a block
without `TR`/`TrackSync` writes only the selected track (`C12_exec_other_tracks_untouched`) and reads only that track and the
song-level settings (`C12_depends_only_on_own_track`), so blocks addressed to different tracks commute
(`C12_blocks_commute`); the block-permutation correspondence stream checks the same on the real compiler on every run. -/
namespace Sakura.Props.C12
open Sakura.Core

/-- existing tracks are untouched and every new track `i` is `newTrk tb i` -/
theorem growTracks_spec (tb : Int) (n : Nat) : ∀ f (ts : List Trk) (i : Nat),
    (i < ts.length → (growTracks tb n f ts)[i]? = ts[i]?) ∧
    (ts.length ≤ i → i < (growTracks tb n f ts).length → (growTracks tb n f ts)[i]? = some (newTrk tb i)) := by
  intro f
  induction f with
  | zero => intro ts i; simp [growTracks]; omega
  | succ f ih =>
    intro ts i
    simp only [growTracks]
    split
    · have h := ih (ts ++ [newTrk tb ts.length]) i
      refine ⟨?_, ?_⟩
      · intro hi
        rw [h.1 (by simp; omega)]
        simp [List.getElem?_append_left hi]
      · intro hle hlt
        by_cases he : i = ts.length
        · subst he
          rw [h.1 (by simp)]
          simp
        · exact h.2 (by simp; omega) hlt
    · refine ⟨fun _ => rfl, ?_⟩
      intro hle hlt; omega

/-- a track that comes into existence by selecting track `n` — whichever `n` — has its own default
    channel (index − 1, clamped to the 16 channels) -/
theorem C12_own_default_channel (s : St) (n i : Nat) (hi : s.tr.length ≤ i) (hin : i ≤ n) :
    ((sem (.track n) s).tr[i]?).map (·.ch) = some (clamp 0 ((i : Int) - 1) 15) := by
  simp only [sem]
  have hlen : i < (growTracks s.tb n (n + 1) s.tr).length :=
    Nat.lt_of_le_of_lt hin (growTracks_len s.tb n (n + 1) s.tr (by omega))
  rw [(growTracks_spec s.tb n (n + 1) s.tr i).2 hi hlen]
  rfl

/-- selecting a track never changes an existing one -/
theorem C12_select_keeps_tracks (s : St) (n i : Nat) (hi : i < s.tr.length) :
    (sem (.track n) s).tr[i]? = s.tr[i]? := by
  simp only [sem]
  exact (growTracks_spec s.tb n (n + 1) s.tr i).1 hi

/-- TrackSync: every track's pointer becomes the current track's -/
theorem C12_trackSync (s : St) : ∀ t ∈ (sem .trackSync s).tr, t.tp = s.t.tp := by
  intro t ht
  simp only [sem, List.mem_map] at ht
  obtain ⟨t0, _, rfl⟩ := ht
  rfl

/-- PLAY: the current track is restored and all tracks share one position -/
theorem C12_play_aligns (parts : List (List Cmd)) (s : St) :
    (sem (.play parts) s).cur = s.cur ∧
    ∃ pos, ∀ t ∈ (sem (.play parts) s).tr, t.tp = pos := by
  simp only [sem]
  refine ⟨by first | rfl | trivial, (playParts parts 1 s.t.tp s.t.tp s).1, ?_⟩
  intro t ht
  simp only [List.mem_map] at ht
  obtain ⟨t0, _, rfl⟩ := ht
  rfl

/-- …and that position is not before the common start nor before the end of any part -/
theorem playParts_last_ge (ps : List (List Cmd)) : ∀ (i : Nat) (start last : Int) (s : St),
    last ≤ (playParts ps i start last s).1 := by
  induction ps with
  | nil => intro i start last s; simp [playParts]
  | cons p ps ih =>
    intro i start last s
    simp only [playParts]
    refine Int.le_trans ?_ (ih _ _ _ _)
    split <;> omega

theorem C12_play_not_before_start (parts : List (List Cmd)) (s : St) :
    s.t.tp ≤ (playParts parts 1 s.t.tp s.t.tp s).1 := playParts_last_ge parts 1 _ _ s

/-- the end of the first part is covered (and inductively every later one: `playParts_last_ge`) -/
theorem C12_play_covers_first (p : List Cmd) (ps : List (List Cmd)) (i : Nat) (start last : Int) (s : St) :
    let s1 : St := { s with tr := growTracks s.tb i (i + 1) s.tr, cur := i }
    (semL p (s1.setT { s1.t with tp := start })).t.tp ≤ (playParts (p :: ps) i start last s).1 := by
  simp only [playParts]
  refine Int.le_trans ?_ (playParts_last_ge ps _ _ _ _)
  split <;> omega

-- non-vacuity: TR(3) c TR(2) d on the initial state: tracks 1..3 get channels 0,1,2
example : ((semL [.track 3, .track 2] St.init).tr.map (·.ch)) = [0, 0, 1, 2] := by decide

/-! ## independence on the literal runner model (T1)

`Ex2.exec` is the model of `runner::exec` tied to the code by the `exec` stream.  For **every** token list without
`TR`/`TrackSync` at any depth — notes, chords, tuplets, `Sub`, loops, ties, Random settings, controllers, tempo, `TIME`,
key and slur settings … — and every state: the run leaves the current track selected and all other tracks (pointer,
settings, events) exactly as they were.  No well-formedness assumption, any fuel, any nesting depth. -/

theorem C12_exec_other_tracks_untouched (F D : Nat) (toks : List Lx.Tok) (h : ∀ a ∈ toks, Ex2.NoTrack a)
    (s s' : Ex2.Song) (he : Ex2.exec F D toks s = some s') :
    s'.cur = s.cur ∧ s'.tracks.length = s.tracks.length ∧ ∀ i : Nat, i ≠ s.cur → s'.tracks[i]? = s.tracks[i]? :=
  Ex2.exec_indep F D toks h s s' he

/-- the same for a single command of any kind other than `TR`/`TrackSync` (e.g. a whole `Sub{…}` or tuplet with its children) -/
theorem C12_command_local (F d : Nat) (tk : Lx.Tok) (h : Ex2.NoTrack tk) (s : Ex2.Song) :
    (Ex2.leaf F d tk s).cur = s.cur ∧ ∀ i : Nat, i ≠ s.cur → (Ex2.leaf F d tk s).tracks[i]? = s.tracks[i]? :=
  ⟨(Ex2.leaf_indep F d tk s h).1, (Ex2.leaf_indep F d tk s h).2.2⟩

/-- **what a block writes depends only on its own track and on the song-level settings**: run the same block (no `TR`/`TrackSync`
    at any depth) in two states that agree on the selected track and on every song-level setting but hold anything whatever in
    the other tracks — the second run ends exactly when the first does, and its result is the first run's result with those
    other tracks put in place (`withOthers`): same selected track, same settings, same `bad` flag -/
theorem C12_depends_only_on_own_track (F D : Nat) (toks : List Lx.Tok) (h : ∀ a ∈ toks, Ex2.NoTrack a) (s1 s2 : Ex2.Song)
    (hg : { s2 with tracks := s1.tracks } = s1) (hl : s2.tracks.length = s1.tracks.length)
    (hc : s2.tracks[s2.cur]? = s1.tracks[s2.cur]?) :
    Ex2.exec F D toks s2 = (Ex2.exec F D toks s1).map (fun x => Ex2.withOthers x s2.tracks) :=
  Ex2.exec_reads_own F D toks h s1 s2 hg hl hc

/-- `withOthers` is what its name says: the selected track and every setting of `x`, the other tracks from `o` -/
theorem C12_withOthers_spec (x : Ex2.Song) (o : List Ex2.Trk) (h : o.length = x.tracks.length) :
    (Ex2.withOthers x o).t = x.t ∧ (Ex2.withOthers x o).tracks = o.set x.cur x.t ∧
      ({ Ex2.withOthers x o with tracks := x.tracks } : Ex2.Song) = x :=
  ⟨Ex2.wo_t x o, Ex2.withOthers_tracks x o h, rfl⟩

/-- **reordering blocks of different tracks leaves every track unchanged**: blocks `A` (for track `a`) and `B` (for track `b ≠ a`)
    that leave the song-level settings as they found them can be run in either order — both orders end, with the same tracks:
    track `a` as `A` alone leaves it, track `b` as `B` alone leaves it, all others untouched -/
theorem C12_blocks_commute (F D : Nat) (A B : List Lx.Tok) (hA : ∀ x ∈ A, Ex2.NoTrack x) (hB : ∀ x ∈ B, Ex2.NoTrack x)
    (s : Ex2.Song) (a b : Nat) (hab : a ≠ b) (ha : a < s.tracks.length) (hb : b < s.tracks.length)
    (sA sB : Ex2.Song) (eA : Ex2.exec F D A (Ex2.onTrack s a) = some sA) (eB : Ex2.exec F D B (Ex2.onTrack s b) = some sB)
    (gA : Ex2.SameGlobals s sA) (gB : Ex2.SameGlobals s sB) :
    ∃ r1 r2, Ex2.exec F D B (Ex2.onTrack sA b) = some r1 ∧ Ex2.exec F D A (Ex2.onTrack sB a) = some r2 ∧ r1.tracks = r2.tracks ∧
      Ex2.SameGlobals s r1 ∧ Ex2.SameGlobals s r2 ∧
      ∀ i, r1.tracks[i]? = if i = a then sA.tracks[a]? else if i = b then sB.tracks[b]? else s.tracks[i]? :=
  Ex2.blocks_commute F D A B hA hB s a b hab ha hb sA sB eA eB gA gB

/-- **…without a semantic premise for blocks of track-local commands**: blocks that consist of notes, numbered notes, rests, `l o v q t`
    and their relative forms, channel, voice, controllers, pitch bend, track key, slur mode, and `Sub{…}`, tuplets and loops of these
    (`Ex2.Local`: a condition on token kinds, at any depth) — run on two different existing tracks whose Random settings are off, from a
    state outside a chord with no pending octave-once mark (`Ex2.Quiet`), both staying inside the modelled subset — give the same
    tracks in either order -/
theorem C12_local_blocks_commute (F D : Nat) (A B : List Lx.Tok) (hA : ∀ x ∈ A, Ex2.Local x) (hB : ∀ x ∈ B, Ex2.Local x)
    (s : Ex2.Song) (a b : Nat) (hab : a ≠ b) (qa : Ex2.Quiet (Ex2.onTrack s a)) (qb : Ex2.Quiet (Ex2.onTrack s b))
    (sA sB : Ex2.Song) (eA : Ex2.exec F D A (Ex2.onTrack s a) = some sA) (eB : Ex2.exec F D B (Ex2.onTrack s b) = some sB)
    (bA : sA.bad = s.bad) (bB : sB.bad = s.bad) :
    ∃ r1 r2, Ex2.exec F D B (Ex2.onTrack sA b) = some r1 ∧ Ex2.exec F D A (Ex2.onTrack sB a) = some r2 ∧ r1.tracks = r2.tracks ∧
      Ex2.SameGlobals s r1 ∧ Ex2.SameGlobals s r2 ∧
      ∀ i, r1.tracks[i]? = if i = a then sA.tracks[a]? else if i = b then sB.tracks[b]? else s.tracks[i]? :=
  Ex2.local_blocks_commute F D A B hA hB s a b hab qa qb sA sB eA eB bA bB

/-- a track-local block keeps the song-level settings and the quiet state (what makes the premise of `C12_blocks_commute` true) -/
theorem C12_local_keeps_settings (F D : Nat) (toks : List Lx.Tok) (h : ∀ x ∈ toks, Ex2.Local x) (s s' : Ex2.Song)
    (he : Ex2.exec F D toks s = some s') (hq : Ex2.Quiet s) : Ex2.glob s' = Ex2.glob s ∧ Ex2.Quiet s' :=
  Ex2.exec_keeps F D toks h s s' he hq

-- non-vacuity for `C12_blocks_commute`: three tracks, an octave step on track 1 and a velocity on track 2 — both runs end and keep the settings
def demoSong3 : Ex2.Song := { tracks := [Ex2.Trk.new 96 0, Ex2.Trk.new 96 0, Ex2.Trk.new 96 1] }
example : ∃ sA sB, Ex2.exec 5 1 [Lx.tok .octaveRel 1 []] (Ex2.onTrack demoSong3 1) = some sA ∧
    Ex2.exec 5 1 [Lx.tok .qlen 50 []] (Ex2.onTrack demoSong3 2) = some sB ∧ Ex2.SameGlobals demoSong3 sA ∧ Ex2.SameGlobals demoSong3 sB :=
  ⟨_, _, rfl, rfl, rfl, rfl⟩

-- non-vacuity for `C12_local_blocks_commute`: the demo song is quiet on tracks 1 and 2, the two demo tokens are track-local
example : Ex2.Quiet (Ex2.onTrack demoSong3 1) ∧ Ex2.Quiet (Ex2.onTrack demoSong3 2) := by
  constructor <;> (unfold Ex2.Quiet; decide)
example : Ex2.Local (Lx.tok .octaveRel 1 []) ∧ Ex2.Local (Lx.tok .qlen 50 []) :=
  ⟨.mk _ _ _ _ _ _ rfl (fun _ h => by cases h), .mk _ _ _ _ _ _ rfl (fun _ h => by cases h)⟩

-- non-vacuity: a state with three tracks, the second selected; a run of note / Sub tokens changes only that track
example : Ex2.NoTrack (Lx.tok .octaveRel 1 []) := .mk _ _ _ _ _ _ (by decide) (by decide) (fun _ h => by cases h)

end Sakura.Props.C12
