import SakuraVerif.Model.Expr
import SakuraVerif.Gen.Tables
/-! # C09 (T0) — macros, string variables and Rhythm blocks expand to exactly their text

Model of the two textual expansions of the interpreter: macro argument substitution
(`#?1`, `#?2`, … replaced by the argument texts, highest number first — `exec_sys_function` /
`exec_userfunc_or_array_or_macro`) and the Rhythm block expansion (`read_command_rhythm`).  The
*execution* of the expanded text is the same `lex` + `exec` as for any source text (it is literally
what the code does: `lex(song, &s, lineno); exec(song, &tokens)`), so a macro call produces the
output of its substituted body by construction; the correspondence stream checks this on every run
against the generator-side inlined program.  Theorems: the substitution leaves text without
parameters untouched, and in general (`C09_subst_general`) turns every body made of `#`-free texts and up to nine
parameter references into that body with each reference replaced by its `#`-free argument; ten and more arguments by example; the Rhythm expansion replaces exactly the letters that have a definition, copies
parenthesised spans and `Sub` verbatim; the built-in macros have their documented definitions. -/
namespace Sakura.Props.C09
open Sakura.Ex

def cp (s : String) : List Nat := s.toList.map Char.toNat

def digits (n : Nat) : List Nat := (toString n).toList.map Char.toNat

/-- the parameter marker `#?i` -/
def marker (i : Nat) : List Nat := [35, 63] ++ digits i

/-- argument substitution: `#?k` for k = n, n-1, …, 1 in this order (args are 1-based) -/
def substArgs (body : List Nat) (args : List (List Nat)) : List Nat :=
  (List.range args.length).reverse.foldl
    (fun s i => replaceAll (s.length + 1) s (marker (i + 1)) (args.getD i [])) body

/-- text that contains no `#` is not changed by a replacement of a marker -/
theorem replaceAll_no_hash (s pat rep : List Nat) (hp : pat.head? = some 35) (hs : ∀ c ∈ s, c ≠ 35) :
    ∀ f, replaceAll f s pat rep = s := by
  induction s with
  | nil => intro f; cases f <;> cases pat <;> simp_all [replaceAll]
  | cons c cs ih =>
    intro f
    cases f with
    | zero => simp [replaceAll]
    | succ f =>
      obtain ⟨p0, ps, rfl⟩ : ∃ p0 ps, pat = p0 :: ps := by cases pat <;> simp_all
      have hp0 : p0 = 35 := by simpa using hp
      have hc : c ≠ 35 := hs c List.mem_cons_self
      have hnp : (p0 :: ps).isPrefixOf (c :: cs) = false := by
        simp [List.isPrefixOf, hp0]; intro h; exact absurd h.symm hc
      simp only [replaceAll, List.isEmpty_cons, Bool.false_eq_true, if_false, hnp]
      rw [ih (fun x hx => hs x (List.mem_cons_of_mem _ hx))]

/-- a body without parameters is executed as it stands, whatever the arguments -/
theorem C09_subst_no_params (body : List Nat) (args : List (List Nat)) (h : ∀ c ∈ body, c ≠ 35) :
    substArgs body args = body := by
  unfold substArgs
  generalize (List.range args.length).reverse = idx
  induction idx with
  | nil => rfl
  | cons i is ih =>
    simp only [List.foldl_cons]
    rw [replaceAll_no_hash body (marker (i + 1)) _ (by simp [marker]) h]
    exact ih

/-- the expansions the interpreter performs on concrete calls (kernel-evaluated on the model) -/
theorem C09_subst_examples :
    substArgs (cp "o#?1 c") [cp "4"] = cp "o4 c" ∧
    substArgs (cp "#?1 #?2 #?1") [cp "cde", cp "r"] = cp "cde r cde" ∧
    substArgs (cp "#?10-#?1") [cp "a", [], [], [], [], [], [], [], [], cp "j"] = cp "j-a" := by
  decide

/-! ## Rhythm -/

/-- `read_command_rhythm` on the block text: `table` maps 0x40..0x7F to their definitions -/
def rhythmExpand (table : Nat → List Nat) : Nat → List Nat → List Nat
  | 0, _ => []
  | _, [] => []
  | f+1, c :: cs =>
    match c, cs with
    | 83, 117 :: 98 :: r => [83, 85, 66] ++ rhythmExpand table f r            -- "Sub" → "SUB"
    | 83, 85 :: 66 :: r => [83, 85, 66] ++ rhythmExpand table f r             -- "SUB"
    | _, _ =>
      if c = 40 then
        -- a parenthesised span is copied verbatim (without its parentheses, as get_token_nest returns it)
        let span := takeParen 1 cs
        span.1 ++ rhythmExpand table f span.2
      else if 0x40 ≤ c ∧ c ≤ 0x7F then
        (if table c = [] then [c] else table c) ++ rhythmExpand table f cs
      else c :: rhythmExpand table f cs
where
  takeParen : Nat → List Nat → List Nat × List Nat
    | _, [] => ([], [])
    | level, c :: cs =>
      if c = 40 then ((takeParen (level + 1) cs).1.cons c, (takeParen (level + 1) cs).2)
      else if c = 41 then (if level ≤ 1 then ([], cs) else ((takeParen (level - 1) cs).1.cons c, (takeParen (level - 1) cs).2))
      else ((takeParen level cs).1.cons c, (takeParen level cs).2)

/-- a letter with a definition is replaced by it, one without is kept -/
theorem C09_rhythm_letter (table : Nat → List Nat) (f c : Nat) (cs : List Nat)
    (hc : 0x40 ≤ c ∧ c ≤ 0x7F) (hS : c ≠ 83) :
    rhythmExpand table (f + 1) (c :: cs) = (if table c = [] then [c] else table c) ++ rhythmExpand table f cs := by
  have h40 : c ≠ 40 := by omega
  rw [rhythmExpand]
  · simp [h40, hc]
  · intro r h1 _; exact absurd h1 hS
  · intro r h1 _; exact absurd h1 hS

/-- other characters (digits, blanks, punctuation below 0x40) are copied -/
theorem C09_rhythm_other (table : Nat → List Nat) (f c : Nat) (cs : List Nat) (hc : c < 0x40) (h40 : c ≠ 40) :
    rhythmExpand table (f + 1) (c :: cs) = c :: rhythmExpand table f cs := by
  have hS : c ≠ 83 := by omega
  have hr : ¬ (0x40 ≤ c ∧ c ≤ 0x7F) := by omega
  rw [rhythmExpand]
  · simp [h40, hr]
  · intro r h1 _; exact absurd h1 hS
  · intro r h1 _; exact absurd h1 hS

/-- the built-in rhythm letters are the regenerated table (b s h m c H M L o _) -/
theorem C09_rhythm_builtin :
    Gen.rhythmMacro = [(98, cp "n36,"), (115, cp "n38,"), (104, cp "n42,"), (109, cp "n46,"), (99, cp "n49,"),
                       (72, cp "n50,"), (77, cp "n47,"), (76, cp "n43,"), (111, cp "n46,"), (95, cp "r")] := by
  decide +kernel

/-! ## built-in macros -/

def builtin : List (String × String) := [
  ("OctaveUnison", "Sub{> #?1 <} #?1"), ("Unison5th", "Sub{ Key=7 #?1 Key=0 } #?1"),
  ("Unison3th", "Sub{ Key=4 #?1 Key=0 } #?1"), ("Unison", "Sub{ Key=#?2 #?1 Key=0 } #?1")]

/-- the built-in macros are defined as documented: source table = command list = the definitions above -/
theorem C09_builtin_macros :
    builtin.all (fun p =>
      Gen.variables.any (fun v => v.name == cp p.1 && v.kind == 1 && v.s == cp p.2) &&
      Gen.commandMdStr.any (fun d => d.1 == cp p.1 && d.2 == cp p.2)) = true := by
  decide +kernel

-- non-vacuity: "bh(c)b" with the built-in letters
example : rhythmExpand (fun c => if c = 98 then cp "n36," else if c = 104 then cp "n42," else []) 20 (cp "bh(c)b2")
    = cp "n36,n42,cn36,2" := by decide

/-! ## substitution in general (up to nine parameters)

A body is written as text segments (without `#`) and parameter references `#?i`; `render n` is the body as written, `render 0` the
body with every reference replaced by its argument. -/

inductive Seg where
  | txt (t : List Nat)
  | par (i : Nat)

/-- the text of a body while the parameters above `k` have been replaced already -/
def render (k : Nat) (args : List (List Nat)) : List Seg → List Nat
  | [] => []
  | .txt t :: r => t ++ render k args r
  | .par i :: r => (if k < i then args.getD (i - 1) [] else marker i) ++ render k args r

def noHash (t : List Nat) : Prop := ∀ c ∈ t, c ≠ 35

/-- texts and arguments contain no `#`; every reference names one of the (at most nine) arguments -/
def WF (args : List (List Nat)) : List Seg → Prop
  | [] => True
  | .txt t :: r => noHash t ∧ WF args r
  | .par i :: r => 1 ≤ i ∧ i ≤ args.length ∧ WF args r

theorem digits_small : ∀ i, i < 10 → digits i = [48 + i] := by decide

theorem marker_small (i : Nat) (h : i < 10) : marker i = [35, 63, 48 + i] := by
  unfold marker; rw [digits_small i h]; rfl

/-- a stretch without `#` is copied -/
theorem replaceAll_skip (t : List Nat) (ht : noHash t) (p : List Nat) (rep X : List Nat) :
    ∀ f, replaceAll (t.length + f) (t ++ X) (35 :: p) rep = t ++ replaceAll f X (35 :: p) rep := by
  induction t with
  | nil => intro f; simp
  | cons c cs ih =>
    intro f
    have hc : c ≠ 35 := ht c List.mem_cons_self
    have hnp : (35 :: p).isPrefixOf (c :: (cs ++ X)) = false := by
      simp [List.isPrefixOf]; intro h; exact absurd h.symm hc
    rw [show (c :: cs).length + f = (cs.length + f) + 1 by simp only [List.length_cons]; omega]
    simp only [List.cons_append, replaceAll, List.isEmpty_cons, Bool.false_eq_true, if_false, hnp]
    rw [ih (fun x hx => ht x (List.mem_cons_of_mem _ hx))]

theorem replaceAll_nil (f : Nat) (p rep : List Nat) : replaceAll f [] (35 :: p) rep = [] := by
  cases f <;> simp [replaceAll]

/-- one replacement pass over the body: the references to parameter `k` become the argument, everything else stays -/
theorem replace_pass (args : List (List Nat)) (ha : ∀ a ∈ args, noHash a) (k : Nat) (hk1 : 1 ≤ k) (hk9 : k < 10) :
    ∀ (segs : List Seg), WF args segs → (∀ s ∈ segs, ∀ i, s = Seg.par i → i < 10) →
    ∀ f, (render k args segs).length ≤ f →
      replaceAll f (render k args segs) (marker k) (args.getD (k - 1) []) = render (k - 1) args segs := by
  intro segs
  induction segs with
  | nil => intro _ _ f _; rw [marker_small k hk9]; simp [render, replaceAll_nil]
  | cons s r ih =>
    intro hw h9 f hf
    have h9r : ∀ s ∈ r, ∀ i, s = Seg.par i → i < 10 := fun s hs i hi => h9 s (List.mem_cons_of_mem _ hs) i hi
    rw [marker_small k hk9] at ih ⊢
    cases s with
    | txt t =>
      obtain ⟨ht, hwr⟩ := hw
      simp only [render, List.length_append] at hf ⊢
      obtain ⟨g, rfl⟩ : ∃ g, f = t.length + g := ⟨f - t.length, by omega⟩
      rw [replaceAll_skip t ht _ _ _ g, ih hwr h9r g (by omega)]
    | par i =>
      obtain ⟨hi1, hin, hwr⟩ := hw
      have hi9 : i < 10 := h9 _ List.mem_cons_self i rfl
      simp only [render, List.length_append] at hf ⊢
      by_cases hki : k < i
      · -- already replaced: the argument text is copied
        have hkm : k - 1 < i := by omega
        simp only [hki, hkm, if_true] at hf ⊢
        have hai : noHash (args.getD (i - 1) []) := by
          by_cases hlt : i - 1 < args.length
          · rw [List.getD_eq_getElem?_getD, List.getElem?_eq_getElem hlt]; exact ha _ (List.getElem_mem hlt)
          · omega
        obtain ⟨g, rfl⟩ : ∃ g, f = (args.getD (i - 1) []).length + g := ⟨f - (args.getD (i - 1) []).length, by omega⟩
        rw [replaceAll_skip _ hai _ _ _ g, ih hwr h9r g (by omega)]
      · simp only [hki, if_false] at hf ⊢
        rw [marker_small i hi9] at hf ⊢
        simp only [List.length_cons, List.length_nil, List.cons_append, List.nil_append] at hf ⊢
        by_cases hik : i = k
        · -- the reference to parameter k: replaced
          subst hik
          have hkm : i - 1 < i := by omega
          simp only [hkm, if_true]
          obtain ⟨g, rfl⟩ : ∃ g, f = g + 1 := ⟨f - 1, by omega⟩
          rw [replaceAll]
          simp only [List.isEmpty_cons, Bool.false_eq_true, if_false]
          have hp : ([35, 63, 48 + i] : List Nat).isPrefixOf (35 :: 63 :: (48 + i) :: render i args r) = true := by
            simp [List.isPrefixOf]
          simp only [hp, if_true, List.length_cons, List.length_nil, List.drop_succ_cons, List.drop_zero]
          rw [ih hwr h9r g (by omega)]
        · -- a reference to a lower parameter: left for a later pass
          have hlt : i < k := by omega
          have hkm : ¬ (k - 1 < i) := by omega
          simp only [hkm, if_false]
          obtain ⟨g, rfl⟩ : ∃ g, f = g + 3 := ⟨f - 3, by omega⟩
          rw [replaceAll]
          simp only [List.isEmpty_cons, Bool.false_eq_true, if_false]
          have hp : ([35, 63, 48 + k] : List Nat).isPrefixOf (35 :: 63 :: (48 + i) :: render k args r) = false := by
            simp [List.isPrefixOf]; omega
          simp only [hp, Bool.false_eq_true, if_false, List.cons_append, List.nil_append]
          have hskip := replaceAll_skip [63, 48 + i] (by intro c hc; simp at hc; rcases hc with rfl | rfl <;> omega) [63, 48 + k]
            (args.getD (k - 1) []) (render k args r) g
          simp only [List.length_cons, List.length_nil, List.cons_append, List.nil_append] at hskip
          rw [show g + 2 = 0 + 1 + 1 + g by omega, hskip, ih hwr h9r g (by omega)]

theorem wf_small (args : List (List Nat)) (hn : args.length < 10) : ∀ segs, WF args segs → ∀ s ∈ segs, ∀ i, s = Seg.par i → i < 10
  | [], _, s, hs, _, _ => by cases hs
  | .txt t :: r, hw, s, hs, i, hi => by
    rcases List.mem_cons.1 hs with rfl | h
    · cases hi
    · exact wf_small args hn r hw.2 s h i hi
  | .par j :: r, hw, s, hs, i, hi => by
    rcases List.mem_cons.1 hs with rfl | h
    · cases hi; have := hw.2.1; omega
    · exact wf_small args hn r hw.2.2 s h i hi

/-- **substitution in general**: for every body made of `#`-free texts and references `#?1 … #?n` (n ≤ 9) and all `#`-free arguments,
    the interpreter's sequence of replacements turns the written body into the body with every reference replaced by its argument -/
theorem C09_subst_general (args : List (List Nat)) (ha : ∀ a ∈ args, noHash a) (hn : args.length < 10) (segs : List Seg) (hw : WF args segs) :
    substArgs (render args.length args segs) args = render 0 args segs := by
  have h9 := wf_small args hn segs hw
  unfold substArgs
  suffices h : ∀ m, m ≤ args.length →
      (List.range m).reverse.foldl (fun s i => replaceAll (s.length + 1) s (marker (i + 1)) (args.getD i [])) (render m args segs)
        = render 0 args segs from h args.length (Nat.le_refl _)
  intro m
  induction m with
  | zero => intro _; rfl
  | succ m ih =>
    intro hm
    rw [List.range_succ, List.reverse_append, List.reverse_singleton, List.singleton_append, List.foldl_cons]
    have := replace_pass args ha (m + 1) (by omega) (by omega) segs hw h9 ((render (m + 1) args segs).length + 1) (by omega)
    simp only [Nat.add_sub_cancel] at this
    rw [this]
    exact ih (by omega)


-- non-vacuity: `o#?1 c #?2 #?1` with the arguments `4` and `r8` is such a body
example : WF [cp "4", cp "r8"] [.txt (cp "o"), .par 1, .txt (cp " c "), .par 2, .txt (cp " "), .par 1] ∧
    render 2 [cp "4", cp "r8"] [.txt (cp "o"), .par 1, .txt (cp " c "), .par 2, .txt (cp " "), .par 1] = cp "o#?1 c #?2 #?1" ∧
    render 0 [cp "4", cp "r8"] [.txt (cp "o"), .par 1, .txt (cp " c "), .par 2, .txt (cp " "), .par 1] = cp "o4 c r8 4" := by
  refine ⟨?_, by decide, by decide⟩
  simp only [WF, noHash, cp]
  decide

end Sakura.Props.C09
