import SakuraVerif.Model.Expr
import SakuraVerif.Gen.Tables
/-! # C09 (T0) — macros, string variables and Rhythm blocks expand to exactly their text

Model of the two textual expansions of the interpreter: macro argument substitution
(`#?1`, `#?2`, … replaced by the argument texts, highest number first — `exec_sys_function` /
`exec_userfunc_or_array_or_macro`) and the Rhythm block expansion (`read_command_rhythm`).  The
*execution* of the expanded text is the same `lex` + `exec` as for any source text (it is literally
what the code does: `lex(song, &s, lineno); exec(song, &tokens)`), so a macro call produces the
output of its substituted body by construction; the correspondence stream checks this on every run
against the generator-side inlined program.  Theorems: the substitution leaves text without
parameters untouched, replaces a parameter occurrence by the argument, handles ten and more
arguments; the Rhythm expansion replaces exactly the letters that have a definition, copies
parenthesised spans and `Sub` verbatim; the built-in macros have their documented definitions. -/
namespace Sakura.Props.C09
open Sakura.Ex

def cp (s : String) : List Nat := s.toList.map Char.toNat

def digits (n : Nat) : List Nat := (toString n).toList.map Char.toNat

/-- the parameter marker `#?i` -/
def marker (i : Nat) : List Nat := [35, 63] ++ digits i

/-- argument substitution: `#?k` for k = n, n-1, …, 1 in this order (args are 1-based) -/
def substArgs (body : List Nat) (args : List (List Nat)) : List Nat :=
  (List.range args.length).reverse.foldl
    (fun s i => replaceAll (s.length + 1) s (marker (i + 1)) (args.getD i [])) body

/-- text that contains no `#` is not changed by a replacement of a marker -/
theorem replaceAll_no_hash (s pat rep : List Nat) (hp : pat.head? = some 35) (hs : ∀ c ∈ s, c ≠ 35) :
    ∀ f, replaceAll f s pat rep = s := by
  induction s with
  | nil => intro f; cases f <;> cases pat <;> simp_all [replaceAll]
  | cons c cs ih =>
    intro f
    cases f with
    | zero => simp [replaceAll]
    | succ f =>
      obtain ⟨p0, ps, rfl⟩ : ∃ p0 ps, pat = p0 :: ps := by cases pat <;> simp_all
      have hp0 : p0 = 35 := by simpa using hp
      have hc : c ≠ 35 := hs c List.mem_cons_self
      have hnp : (p0 :: ps).isPrefixOf (c :: cs) = false := by
        simp [List.isPrefixOf, hp0]; intro h; exact absurd h.symm hc
      simp only [replaceAll, List.isEmpty_cons, Bool.false_eq_true, if_false, hnp]
      rw [ih (fun x hx => hs x (List.mem_cons_of_mem _ hx))]

/-- a body without parameters is executed as it stands, whatever the arguments -/
theorem C09_subst_no_params (body : List Nat) (args : List (List Nat)) (h : ∀ c ∈ body, c ≠ 35) :
    substArgs body args = body := by
  unfold substArgs
  generalize (List.range args.length).reverse = idx
  induction idx with
  | nil => rfl
  | cons i is ih =>
    simp only [List.foldl_cons]
    rw [replaceAll_no_hash body (marker (i + 1)) _ (by simp [marker]) h]
    exact ih

/-- the expansions the interpreter performs on concrete calls (kernel-evaluated on the model) -/
theorem C09_subst_examples :
    substArgs (cp "o#?1 c") [cp "4"] = cp "o4 c" ∧
    substArgs (cp "#?1 #?2 #?1") [cp "cde", cp "r"] = cp "cde r cde" ∧
    substArgs (cp "#?10-#?1") [cp "a", [], [], [], [], [], [], [], [], cp "j"] = cp "j-a" := by
  decide

/-! ## Rhythm -/

/-- `read_command_rhythm` on the block text: `table` maps 0x40..0x7F to their definitions -/
def rhythmExpand (table : Nat → List Nat) : Nat → List Nat → List Nat
  | 0, _ => []
  | _, [] => []
  | f+1, c :: cs =>
    match c, cs with
    | 83, 117 :: 98 :: r => [83, 85, 66] ++ rhythmExpand table f r            -- "Sub" → "SUB"
    | 83, 85 :: 66 :: r => [83, 85, 66] ++ rhythmExpand table f r             -- "SUB"
    | _, _ =>
      if c = 40 then
        -- a parenthesised span is copied verbatim (without its parentheses, as get_token_nest returns it)
        let span := takeParen 1 cs
        span.1 ++ rhythmExpand table f span.2
      else if 0x40 ≤ c ∧ c ≤ 0x7F then
        (if table c = [] then [c] else table c) ++ rhythmExpand table f cs
      else c :: rhythmExpand table f cs
where
  takeParen : Nat → List Nat → List Nat × List Nat
    | _, [] => ([], [])
    | level, c :: cs =>
      if c = 40 then ((takeParen (level + 1) cs).1.cons c, (takeParen (level + 1) cs).2)
      else if c = 41 then (if level ≤ 1 then ([], cs) else ((takeParen (level - 1) cs).1.cons c, (takeParen (level - 1) cs).2))
      else ((takeParen level cs).1.cons c, (takeParen level cs).2)

/-- a letter with a definition is replaced by it, one without is kept -/
theorem C09_rhythm_letter (table : Nat → List Nat) (f c : Nat) (cs : List Nat)
    (hc : 0x40 ≤ c ∧ c ≤ 0x7F) (hS : c ≠ 83) :
    rhythmExpand table (f + 1) (c :: cs) = (if table c = [] then [c] else table c) ++ rhythmExpand table f cs := by
  have h40 : c ≠ 40 := by omega
  rw [rhythmExpand]
  · simp [h40, hc]
  · intro r h1 _; exact absurd h1 hS
  · intro r h1 _; exact absurd h1 hS

/-- other characters (digits, blanks, punctuation below 0x40) are copied -/
theorem C09_rhythm_other (table : Nat → List Nat) (f c : Nat) (cs : List Nat) (hc : c < 0x40) (h40 : c ≠ 40) :
    rhythmExpand table (f + 1) (c :: cs) = c :: rhythmExpand table f cs := by
  have hS : c ≠ 83 := by omega
  have hr : ¬ (0x40 ≤ c ∧ c ≤ 0x7F) := by omega
  rw [rhythmExpand]
  · simp [h40, hr]
  · intro r h1 _; exact absurd h1 hS
  · intro r h1 _; exact absurd h1 hS

/-- the built-in rhythm letters are the regenerated table (b s h m c H M L o _) -/
theorem C09_rhythm_builtin :
    Gen.rhythmMacro = [(98, cp "n36,"), (115, cp "n38,"), (104, cp "n42,"), (109, cp "n46,"), (99, cp "n49,"),
                       (72, cp "n50,"), (77, cp "n47,"), (76, cp "n43,"), (111, cp "n46,"), (95, cp "r")] := by
  decide +kernel

/-! ## built-in macros -/

def builtin : List (String × String) := [
  ("OctaveUnison", "Sub{> #?1 <} #?1"), ("Unison5th", "Sub{ Key=7 #?1 Key=0 } #?1"),
  ("Unison3th", "Sub{ Key=4 #?1 Key=0 } #?1"), ("Unison", "Sub{ Key=#?2 #?1 Key=0 } #?1")]

/-- the built-in macros are defined as documented: source table = command list = the definitions above -/
theorem C09_builtin_macros :
    builtin.all (fun p =>
      Gen.variables.any (fun v => v.name == cp p.1 && v.kind == 1 && v.s == cp p.2) &&
      Gen.commandMdStr.any (fun d => d.1 == cp p.1 && d.2 == cp p.2)) = true := by
  decide +kernel

-- non-vacuity: "bh(c)b" with the built-in letters
example : rhythmExpand (fun c => if c = 98 then cp "n36," else if c = 104 then cp "n42," else []) 20 (cp "bh(c)b2")
    = cp "n36,n42,cn36,2" := by decide

end Sakura.Props.C09
