import SakuraVerif.Model.Reserve
import SakuraVerif.Gen.Consts
/-! # C16 — onNote/onCycle/onTime reservations and .Random act on the right notes and ticks

Theorems about the model of the reservation calculators (`calc_*_on_note`), the ramp writers
(`write_cc_on_time` / `write_pb_on_time`) and `calc_rand_value`:
* `x.onNote(v1..vk)`: the i-th following note gets `vi`, after the k-th the reservation is cleared
  and later notes get the default; `x.onCycle`: the list repeats; a plain command cancels;
* ramps: samples at `start + j` with `j ≡ 0 (mod freq)`, `0 ≤ j < len`, the first sample exactly `lo`
  (clamped), every value inside the range, segment k starting after the lengths of the earlier ones;
* `.Random(r)`: the value moves by at most r/2 either way, as a function of the seed only; the
  default seed is the regenerated constant. -/
namespace Sakura.Props.C16
open Sakura Sakura.Reserve

/-- the i-th following note gets the i-th value (while values remain) -/
theorem C16_onNote_ith (ia : List Int) (i : Nat) (cyc : Bool) (cur dflt : Int) (hi : i < ia.length) :
    calcOnNote ⟨some ia, i, cyc⟩ cur dflt = (ia.getD i 0, ⟨some ia, i + 1, cyc⟩, ia.getD i 0) := by
  have hne : ia.isEmpty = false := by cases ia <;> simp_all
  have h2 : ¬ (i ≥ ia.length) := by omega
  simp [calcOnNote, hne, h2, Nat.mod_eq_of_lt hi]

/-- after the last value a non-cyclic reservation stops: the note gets the default and the slot is cleared -/
theorem C16_onNote_then_stops (ia : List Int) (i : Nat) (cur dflt : Int) (hne : ia ≠ []) (hi : ia.length ≤ i) :
    calcOnNote ⟨some ia, i, false⟩ cur dflt = (dflt, ⟨none, 0, false⟩, cur) := by
  have hne' : ia.isEmpty = false := by cases ia <;> simp_all
  simp [calcOnNote, hne', hi]

/-- onCycle starts over -/
theorem C16_onCycle_wraps (ia : List Int) (i : Nat) (cur dflt : Int) (hne : ia ≠ []) (hi : ia.length ≤ i) :
    calcOnNote ⟨some ia, i, true⟩ cur dflt = (ia.getD 0 0, ⟨some ia, 1, true⟩, ia.getD 0 0) := by
  have hne' : ia.isEmpty = false := by cases ia <;> simp_all
  simp [calcOnNote, hne', hi]

/-- without a reservation the default is used and nothing changes -/
theorem C16_no_reservation (i : Nat) (cyc : Bool) (cur dflt : Int) :
    calcOnNote ⟨none, i, cyc⟩ cur dflt = (dflt, ⟨none, i, cyc⟩, cur) := rfl

/-- a plain v / q / t / o / l command cancels the reservation of its kind -/
theorem C16_plain_cancels (t : Trk) (n : Int) :
    (step t (.setV n)).vS.vals = none ∧ (step t (.setV n)).vTime = none ∧ (step t (.setQ n)).qS.vals = none ∧
    (step t (.setT n)).tS.vals = none ∧ (step t (.setO n)).oS.vals = none ∧ (step t (.setL n)).lS.vals = none := by
  simp [step]

/-- .Random(r), r > 0: the value moves by at most r/2 either way -/
theorem C16_random_range (seed : Nat) (val r : Int) (hr : 0 < r) :
    val - r / 2 ≤ (calcRand seed val r).1 ∧ (calcRand seed val r).1 ≤ val + r / 2 := by
  simp only [calcRand]
  have h1 : 0 ≤ (xorshift seed : Int) % r := Int.emod_nonneg _ (by omega)
  have h2 : (xorshift seed : Int) % r < r := Int.emod_lt_of_pos _ hr
  have h3 : Int.tdiv r 2 = r / 2 := Int.tdiv_eq_ediv_of_nonneg (by omega)
  rw [h3]
  omega

/-- the generator is a pure function of the seed, which starts at the regenerated default -/
theorem C16_default_seed : ({} : Trk).seed = 3958587042 ∧ Gen.SAKURA_DEFAULT_RANDOM_SEED = 3958587042 := by decide

/-- ramp samples of one segment: ticks `start + j` with `0 ≤ j < len`, `j ≡ 0 (mod freq)`, values inside the range -/
theorem C16_rampSeg_samples (start low high len freq lo hi : Int) (hlh : lo ≤ hi) :
    ∀ (f : Nat) (j0 : Int), ∀ p ∈ rampSeg start low high len freq lo hi f j0,
      ∃ j, j0 ≤ j ∧ j < len ∧ j % freq = 0 ∧ p.1 = start + j ∧ lo ≤ p.2 ∧ p.2 ≤ hi := by
  intro f
  induction f with
  | zero => intro j0 p hp; simp [rampSeg] at hp
  | succ f ih =>
    intro j0 p hp
    simp only [rampSeg] at hp
    split at hp
    · simp at hp
    · rename_i hlt
      split at hp
      · rename_i hmod
        rcases List.mem_cons.mp hp with rfl | h
        · refine ⟨j0, Int.le_refl _, by omega, hmod, rfl, ?_, ?_⟩ <;> (simp only []; split <;> (try split) <;> omega)
        · obtain ⟨j, h1, h2, h3, h4, h5⟩ := ih (j0 + 1) p h
          exact ⟨j, by omega, h2, h3, h4, h5⟩
      · obtain ⟨j, h1, h2, h3, h4, h5⟩ := ih (j0 + 1) p hp
        exact ⟨j, by omega, h2, h3, h4, h5⟩

/-- every sample of a whole ramp (any number of segments) lies inside the range it was asked to stay in -/
theorem C16_ramp_in_range (freq lo hi : Int) (hlh : lo ≤ hi) : ∀ (tri : List Int) (start : Int), ∀ p ∈ ramp freq lo hi start tri, lo ≤ p.2 ∧ p.2 ≤ hi
  | [], _, p, hp => by simp [ramp] at hp
  | [_], _, p, hp => by simp [ramp] at hp
  | [_, _], _, p, hp => by simp [ramp] at hp
  | low :: high :: len :: rest, start, p, hp => by
    simp only [ramp] at hp
    rcases List.mem_append.mp hp with h | h
    · obtain ⟨j, _, _, _, _, h5, h6⟩ := C16_rampSeg_samples start low high len _ lo hi hlh _ 0 p h
      exact ⟨h5, h6⟩
    · exact C16_ramp_in_range freq lo hi hlh rest _ p h

/-- **a bend ramp stays inside the 14-bit range, a controller ramp inside the 7-bit range**: every pitch-bend event written by
    `PB.onTime` / `p.onTime` carries a value in 0..16383 and every controller event written by `Controller.onTime` a value in 0..127,
    whatever bounds, lengths and number of segments the program asks for.  (Before the repair 6f934a1 the bend samples were clamped at
    0x7f7f = 32639 and a ramp above 16383 wrapped around in the file.) -/
theorem C16_ramp_events_in_range (t : Trk) :
    (∀ big tri, ∀ e ∈ (step t (.pbOnTime big tri)).ev, e ∈ t.ev ∨ (e.kind = .pitchBend ∧ 0 ≤ e.v1 ∧ e.v1 ≤ 16383)) ∧
    (∀ no tri, ∀ e ∈ (step t (.ccOnTime no tri)).ev, e ∈ t.ev ∨ (e.kind = .cc ∧ 0 ≤ e.v2 ∧ e.v2 ≤ 127)) := by
  constructor
  · intro big tri e he
    simp only [step] at he
    rcases List.mem_append.mp he with h | h
    · exact Or.inl h
    · obtain ⟨p, hp, rfl⟩ := List.mem_map.mp h
      have := C16_ramp_in_range 3 0 0x3fff (by decide) _ _ p hp
      exact Or.inr ⟨rfl, this.1, this.2⟩
  · intro no tri e he
    simp only [step] at he
    rcases List.mem_append.mp he with h | h
    · exact Or.inl h
    · obtain ⟨p, hp, rfl⟩ := List.mem_map.mp h
      have := C16_ramp_in_range t.freq 0 127 (by decide) _ _ p hp
      exact Or.inr ⟨rfl, this.1, this.2⟩

/-- the ramp starts exactly at `lo` (clamped into the range) at the current position -/
theorem C16_ramp_starts_at_low (start low high len freq lo hi : Int) (f : Nat) (hlen : 0 < len) (hf : 0 < freq) :
    (rampSeg start low high len freq lo hi (f + 1) 0).head? =
      some (start, if low < lo then lo else if low > hi then hi else low) := by
  have h1 : ¬ ((0:Int) ≥ len) := by omega
  simp [rampSeg, h1, Int.zero_emod]

/-- segment k starts after the lengths of the segments before it -/
theorem C16_segments_consecutive (freq lo hi start low high len : Int) (rest : List Int) (hlen : 0 < len) :
    ramp freq lo hi start (low :: high :: len :: rest) =
      rampSeg start low high len (if freq ≤ 0 then 1 else freq) lo hi len.toNat 0 ++ ramp freq lo hi (start + len) rest := by
  simp [ramp, hlen]

/-- Controller.onNote: at a note start each reservation writes its next value at that tick -/
theorem C16_ccOnNote_step (start ch : Int) (r : CcRes) (h : r.index < r.data.length) :
    (ccOnNoteStep start ch [r]).1 = [⟨.cc, start, ch, r.no, r.data.getD r.index 0, 0, []⟩] := by
  simp [ccOnNoteStep, h]

/-- …and an exhausted reservation writes nothing and is dropped -/
theorem C16_ccOnNote_exhausted (start ch : Int) (r : CcRes) (h : r.data.length ≤ r.index) :
    ccOnNoteStep start ch [r] = ([], []) := by
  have : ¬ (r.index < r.data.length) := by omega
  simp [ccOnNoteStep, this]

/-! ## v.onTime: the velocity of a note is the value of the piecewise-linear ramp at the note's start -/

/-- inside a segment `(low, high, len)` that begins `area` ticks after the command: the linearly interpolated value
    `low + (high − low)·(cur − area)/len` (truncated), when no later segment claims the tick -/
theorem C16_vOnTime_in_segment (cur area low high len : Int) (rest : List Int) (h0 : area ≤ cur) (h1 : cur < area + len)
    (hr : vOnTimeAt cur (area + len) rest = none) :
    vOnTimeAt cur area (low :: high :: len :: rest) = some (low + Int.tdiv ((high - low) * (cur - area)) len) := by
  simp only [vOnTimeAt, hr, h0, h1, and_self, if_true]
  rw [Int.add_comm]

/-- a tick before a segment's start is not claimed by that segment or any later one (lengths are not negative) -/
theorem C16_vOnTime_before (cur : Int) : ∀ (tri : List Int) (area : Int), cur < area → (∀ x ∈ tri, 0 ≤ x) → vOnTimeAt cur area tri = none
  | [], _, _, _ => rfl
  | [_], _, _, _ => rfl
  | [_, _], _, _, _ => rfl
  | low :: high :: len :: rest, area, h, hp => by
    have hl : 0 ≤ len := hp len (by simp)
    have ih := C16_vOnTime_before cur rest (area + len) (by omega) (fun x hx => hp x (by simp [hx]))
    simp only [vOnTimeAt, ih]
    rw [if_neg (by omega)]

/-- a single segment: the note that starts `cur` ticks after the command (0 ≤ cur < len) gets `low + (high − low)·cur/len` -/
theorem C16_vOnTime_single (cur low high len : Int) (h0 : 0 ≤ cur) (h1 : cur < len) :
    vOnTimeAt cur 0 [low, high, len] = some (low + Int.tdiv ((high - low) * cur) len) := by
  have := C16_vOnTime_in_segment cur 0 low high len [] h0 (by omega) rfl
  simpa using this

/-- …so it starts exactly at `low` -/
theorem C16_vOnTime_starts_at_low (low high len : Int) (hl : 0 < len) : vOnTimeAt 0 0 [low, high, len] = some low := by
  rw [C16_vOnTime_single 0 low high len (Int.le_refl 0) hl]
  simp

/-- …and stays between its end points (for a rising segment; a falling one symmetrically) -/
theorem C16_vOnTime_between (cur low high len : Int) (h0 : 0 ≤ cur) (h1 : cur < len) (hlh : low ≤ high) :
    low ≤ low + Int.tdiv ((high - low) * cur) len ∧ low + Int.tdiv ((high - low) * cur) len ≤ high := by
  have hd : 0 ≤ high - low := by omega
  have hn : 0 ≤ (high - low) * cur := Int.mul_nonneg hd h0
  have hlen : 0 < len := by omega
  rw [Int.tdiv_eq_ediv_of_nonneg hn]
  have hq0 : 0 ≤ (high - low) * cur / len := Int.ediv_nonneg hn (by omega)
  have hle : (high - low) * cur ≤ (high - low) * len := Int.mul_le_mul_of_nonneg_left (by omega) hd
  have hq1 : (high - low) * cur / len ≤ high - low := by
    calc (high - low) * cur / len ≤ (high - low) * len / len := Int.ediv_le_ediv hlen hle
      _ = high - low := Int.mul_ediv_cancel _ (by omega)
  omega

/-- after the last segment has ended no value is reserved: the note keeps its own velocity -/
theorem C16_vOnTime_after (cur low high len : Int) (h : len ≤ cur) : vOnTimeAt cur 0 [low, high, len] = none := by
  simp only [vOnTimeAt]
  rw [if_neg (by omega)]

/-- the second of two segments begins where the first ends -/
theorem C16_vOnTime_second (cur l1 h1 n1 l2 h2 n2 : Int) (ha : n1 ≤ cur) (hb : cur < n1 + n2) (hn : 0 ≤ n1) :
    vOnTimeAt cur 0 [l1, h1, n1, l2, h2, n2] = some (l2 + Int.tdiv ((h2 - l2) * (cur - n1)) n2) := by
  have h2' := C16_vOnTime_in_segment cur (0 + n1) l2 h2 n2 [] (by omega) (by omega) rfl
  simp only [vOnTimeAt] at h2' ⊢
  simp only [Int.zero_add] at h2' ⊢
  rw [h2']

-- non-vacuity: v.onTime(0,96,96): a note a quarter of the way in gets 24; v.onTime(0,100,48,100,-60,48) at tick 60 is on the falling segment
example : vOnTimeAt 24 0 [0, 96, 96] = some 24 := by decide
example : vOnTimeAt 60 0 [0, 100, 48, 100, -60, 48] = some 60 := by decide

-- non-vacuity: v.onNote(10,20) c d e  → velocities 10, 20, then the last value stays as track value
example : ((run [.onNote 0 [10, 20] false, .note 0, .note 2, .note 4]).ev.map (·.v3)) = [10, 20, 20] := by decide
example : ((run [.ccOnTime 1 [0, 127, 8, 100, 0, 4]]).ev.map (fun e => (e.time, e.v2))) = [(0, 0), (4, 63), (8, 100)] := by decide

end Sakura.Props.C16
