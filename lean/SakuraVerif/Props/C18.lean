import SakuraVerif.Model.Sutoton
import SakuraVerif.Model.Lexer
import SakuraVerif.Lemmas.LexTerm
import SakuraVerif.Lemmas.LexCompose
/-! # C18 (T0) — spacing, bar lines, separators and comments never change the music

Model of the main loop of `lexer::lex` restricted to what it does *between* commands: the
separator arm (`' ' \t \r | ;`), the line-break arm (a `LineNo` token, which only feeds line numbers
of messages), and the comment arms (`// …`, `/* … */`, `## …`, `# …`, `#- …`; `/// …` and `/** … */`
yield `Comment` tokens that the runner ignores).  The loop is **parametric in the command readers**
(`read`), so the theorems hold whatever the commands are: a layout item in front of any text
yields no command token and the loop resumes exactly after it.  Full-width forms are reduced to
half-width ones by `zen2han` before dispatch (C17). -/
namespace Sakura.Props.C18
open Sakura.Sut

inductive LTok (α : Type) where
  | lineNo | comment | cmd (a : α)
deriving DecidableEq, Repr

def isSep (c : Nat) : Bool := c == 32 || c == 9 || c == 13 || c == 124 || c == 59

/-- text up to and including the next line break (`get_token_ch('\n')`) is dropped -/
def dropLine : List Nat → List Nat
  | [] => []
  | c :: cs => if c = 10 then cs else dropLine cs

/-- text up to and including the next `*/` (`get_token_s("*/")`) is dropped -/
def dropRange : List Nat → List Nat
  | [] => []
  | c :: cs => match c, cs with
    | 42, 47 :: r => r
    | _, _ => dropRange cs

/-- main loop; `read` stands for every command reader: it is given the text starting at the
    command character and returns the token and the rest (at least one character is consumed) -/
def lexLoop {α} (read : List Nat → α × List Nat) : Nat → List Nat → List (LTok α)
  | 0, _ => []
  | _, [] => []
  | f+1, c :: cs =>
    let ch := zen2han c
    if isSep ch then lexLoop read f cs
    else if ch = 10 then .lineNo :: lexLoop read f cs
    else if c = 47 then       -- '/': comments are recognised on the raw text
      (match cs with
       | 47 :: 47 :: r => .comment :: lexLoop read f (dropLine r)
       | 47 :: r => lexLoop read f (dropLine r)
       | 42 :: 42 :: r => .comment :: lexLoop read f (dropRange (42 :: 42 :: r))
       | 42 :: r => lexLoop read f (dropRange (42 :: r))
       | _ => lexLoop read f cs)      -- a lone '/' is reported as an error and skipped
    else if c = 35 then       -- '#': `##`, `# `, `#-` are line comments
      (match cs with
       | 35 :: r => lexLoop read f (dropLine r)
       | 32 :: r => lexLoop read f (dropLine r)
       | 45 :: r => lexLoop read f (dropLine r)
       | _ => .cmd (read (c :: cs)).1 :: lexLoop read f (read (c :: cs)).2)
    else .cmd (read (c :: cs)).1 :: lexLoop read f (read (c :: cs)).2

/-- the command tokens (what the runner acts on): `LineNo` and `Comment` tokens carry no music -/
def cmds {α} (l : List (LTok α)) : List α := l.filterMap (fun t => match t with | .cmd a => some a | _ => none)

/-- a blank, tab, CR, bar line or ';' — also in their full-width forms — yields nothing -/
theorem C18_separator_skipped {α} (read : List Nat → α × List Nat) (f : Nat) (c : Nat) (r : List Nat)
    (h : isSep (zen2han c) = true) : lexLoop read (f + 1) (c :: r) = lexLoop read f r := by
  simp [lexLoop, h]

theorem C18_separator_set : ([32, 9, 13, 124, 59, 0x3000, 0xFF5C, 0xFF1B].map (fun c => isSep (zen2han c))) = List.replicate 8 true := by
  decide

/-- a line break yields only a `LineNo` token -/
theorem C18_newline {α} (read : List Nat → α × List Nat) (f : Nat) (r : List Nat) :
    cmds (lexLoop read (f + 1) (10 :: r)) = cmds (lexLoop read f r) := by
  simp [lexLoop, isSep, zen2han, cmds]

theorem dropLine_append (body r : List Nat) (h : ∀ c ∈ body, c ≠ 10) : dropLine (body ++ 10 :: r) = r := by
  induction body with
  | nil => simp [dropLine]
  | cons b bs ih =>
    have hb : b ≠ 10 := h b List.mem_cons_self
    simp only [List.cons_append, dropLine, hb, if_false]
    exact ih (fun c hc => h c (List.mem_cons_of_mem _ hc))

/-- `// comment` up to the end of the line yields no command and the loop resumes on the next line -/
theorem C18_line_comment {α} (read : List Nat → α × List Nat) (f : Nat) (body r : List Nat)
    (h : ∀ c ∈ body, c ≠ 10) :
    cmds (lexLoop read (f + 1) (47 :: 47 :: (body ++ 10 :: r))) = cmds (lexLoop read f r) := by
  have hz : zen2han 47 = 47 := by decide
  cases body with
  | nil => simp [lexLoop, hz, isSep, dropLine]
  | cons b bs =>
    by_cases hb : b = 47
    · subst hb
      have := dropLine_append bs r (fun c hc => h c (List.mem_cons_of_mem _ hc))
      simp [lexLoop, hz, isSep, this, cmds]
    · have := dropLine_append (b :: bs) r h
      simp only [List.cons_append] at this
      simp [lexLoop, hz, isSep, hb, this]

/-- `## …`, `# …`, `#- …` line comments likewise -/
theorem C18_hash_comment {α} (read : List Nat → α × List Nat) (f : Nat) (k : Nat) (body r : List Nat)
    (hk : k = 35 ∨ k = 32 ∨ k = 45) (h : ∀ c ∈ body, c ≠ 10) :
    lexLoop read (f + 1) (35 :: k :: (body ++ 10 :: r)) = lexLoop read f r := by
  have hz : zen2han 35 = 35 := by decide
  have := dropLine_append body r h
  rcases hk with rfl | rfl | rfl <;> simp [lexLoop, hz, isSep, this]

theorem dropRange_append (body r : List Nat) (h : ∀ c ∈ body, c ≠ 42) :
    dropRange (body ++ 42 :: 47 :: r) = r := by
  induction body with
  | nil => simp [dropRange]
  | cons b bs ih =>
    have hb : b ≠ 42 := h b List.mem_cons_self
    have ih' := ih (fun c hc => h c (List.mem_cons_of_mem _ hc))
    simp only [List.cons_append]
    rw [dropRange]
    · exact ih'
    · intro r' h1 _; exact absurd h1 hb

/-- `/* comment */` (no `*` inside, not starting with `/`) yields no command and the loop resumes right after the `*/` -/
theorem C18_range_comment {α} (read : List Nat → α × List Nat) (f : Nat) (body r : List Nat)
    (h : ∀ c ∈ body, c ≠ 42) (hs : body.head? ≠ some 47) :
    cmds (lexLoop read (f + 1) (47 :: 42 :: (body ++ 42 :: 47 :: r))) = cmds (lexLoop read f r) := by
  have hz : zen2han 47 = 47 := by decide
  have hd : dropRange (42 :: (body ++ 42 :: 47 :: r)) = r := by
    cases body with
    | nil => simp [dropRange]
    | cons b bs =>
      have hb47 : b ≠ 47 := by simpa using hs
      have := dropRange_append (b :: bs) r h
      simp only [List.cons_append] at this ⊢
      rw [dropRange]
      · exact this
      · intro r' _ h2; simp at h2; exact absurd h2.1 hb47
  cases body with
  | nil =>
    simp only [List.nil_append] at hd ⊢
    simp [lexLoop, hz, isSep, hd, cmds]
  | cons b bs =>
    have hb : b ≠ 42 := h b List.mem_cons_self
    simp only [List.cons_append] at hd ⊢
    simp [lexLoop, hz, isSep, hb, hd]

/-- full-width text is dispatched like its half-width form -/
theorem C18_fullwidth_dispatch (c : Nat) (h : 0xFF01 ≤ c ∧ c ≤ 0xFF5E) : zen2han c = c - 0xFEE0 := by
  unfold zen2han
  have h1 : ¬ (0x20 ≤ c ∧ c ≤ 0x7E) := by omega
  simp only [h1, if_false, h, and_self, if_true]
  omega

-- non-vacuity: a reader that takes one character as a command
def oneChar (cs : List Nat) : Nat × List Nat := (cs.headD 0, cs.drop 1)
example : cmds (lexLoop oneChar 50 [99, 32, 124, 47, 47, 120, 121, 10, 100, 59, 47, 42, 122, 42, 47, 101]) = [99, 100, 101] := by decide

/-! ## the same laws on the literal lexer model (`Model.Lexer`, tied to `lexer.rs` by the `lexer` stream)

`Lx.lexLoop` is the function-by-function model of `lex`; the layout arms below are theorems about it for **every**
following text, fuel, line number and chord flag. -/

/-- a blank, tab, CR, bar line or ';' (also full-width) yields nothing: the loop resumes after it -/
theorem C18_lex_separator (tb : Int) (f : Nat) (c : Nat) (cs : List Nat) (ln : Int) (harm : Bool)
    (h : isSep (zen2han c) = true) : Lx.lexLoop tb (f + 1) (c :: cs) ln harm = Lx.lexLoop tb f cs ln harm := by
  simp only [isSep, Bool.or_eq_true, beq_iff_eq] at h
  have h' : zen2han c = 32 ∨ zen2han c = 9 ∨ zen2han c = 13 ∨ zen2han c = 124 ∨ zen2han c = 59 := by
    rcases h with (((h | h) | h) | h) | h <;> simp [h]
  rw [Lx.lexLoop]
  simp only [h', if_true]

/-- a line break yields exactly one `LineNo` token carrying the next line number -/
theorem C18_lex_newline (tb : Int) (f : Nat) (cs : List Nat) (ln : Int) (harm : Bool) :
    Lx.lexLoop tb (f + 1) (10 :: cs) ln harm =
      (Lx.lexLoop tb f cs (ln + 1) harm).map (fun o => ⟨Lx.Tok.mk .lineNo 0 (ln + 1) none [] none :: o.toks, o.errs⟩) := by
  rw [Lx.lexLoop]
  have hz : zen2han 10 = 10 := by decide
  simp only [hz]
  simp only [show ¬ ((10:Nat) = 32 ∨ (10:Nat) = 9 ∨ (10:Nat) = 13 ∨ (10:Nat) = 124 ∨ (10:Nat) = 59) by decide, if_false, if_true]
  cases Lx.lexLoop tb f cs (ln + 1) harm <;> rfl

theorem getLine_append (body r : List Nat) (ln : Int) (h : ∀ c ∈ body, c ≠ 10) :
    (Lx.getLine (body ++ 10 :: r) ln).2 = ⟨r, ln + 1⟩ := by
  induction body with
  | nil => simp [Lx.getLine]
  | cons b bs ih =>
    have hb : b ≠ 10 := h b List.mem_cons_self
    simp only [List.cons_append, Lx.getLine, hb, if_false]
    exact ih (fun c hc => h c (List.mem_cons_of_mem _ hc))

/-- `// comment` up to the end of the line: no token, the loop resumes on the next line with the line counted -/
theorem C18_lex_line_comment (tb : Int) (f : Nat) (body r : List Nat) (ln : Int) (harm : Bool)
    (h : ∀ c ∈ body, c ≠ 10) (hs : body.head? ≠ some 47) :
    Lx.lexLoop tb (f + 1) (47 :: 47 :: (body ++ 10 :: r)) ln harm = Lx.lexLoop tb f r (ln + 1) harm := by
  have hz : zen2han 47 = 47 := by decide
  have hg : (Lx.getLine (47 :: 47 :: (body ++ 10 :: r)) ln).2 = ⟨r, ln + 1⟩ := by
    have := getLine_append (47 :: 47 :: body) r ln (by
      intro c hc
      simp only [List.mem_cons] at hc
      rcases hc with rfl | rfl | hc
      · decide
      · decide
      · exact h c hc)
    simpa using this
  rw [Lx.lexLoop]
  simp only [hz]
  simp only [show ¬ ((47:Nat) = 32 ∨ (47:Nat) = 9 ∨ (47:Nat) = 13 ∨ (47:Nat) = 124 ∨ (47:Nat) = 59) by decide, if_false,
    show ¬ ((47:Nat) = 10) by decide, show ¬ ((47:Nat) = 99 ∨ (47:Nat) = 100 ∨ (47:Nat) = 101 ∨ (47:Nat) = 102 ∨ (47:Nat) = 103 ∨ (47:Nat) = 97 ∨ (47:Nat) = 98) by decide,
    show ¬ ((47:Nat) = 110) by decide, show ¬ ((47:Nat) = 114) by decide, show ¬ ((47:Nat) = 108) by decide, show ¬ ((47:Nat) = 111) by decide,
    show ¬ ((47:Nat) = 113) by decide, show ¬ ((47:Nat) = 118) by decide, show ¬ ((47:Nat) = 116) by decide,
    show ¬ (Lx.isUpper 47 = true ∨ (47:Nat) = 95) by decide, show ¬ ((47:Nat) = 35) by decide, show ¬ ((47:Nat) = 62) by decide,
    show ¬ ((47:Nat) = 60) by decide, show ¬ ((47:Nat) = 41) by decide, show ¬ ((47:Nat) = 40) by decide, if_true]
  cases body with
  | nil => simp only [List.nil_append] at hg ⊢; simp [hg]
  | cons b bs =>
    have hb : b ≠ 47 := by simpa using hs
    simp only [List.cons_append] at hg ⊢
    split
    · rename_i heq; simp at heq; exact absurd heq.1 hb
    · simp [hg]
    · rename_i heq; simp at heq
    · rename_i heq; simp at heq
    · rename_i h1 h2 h3 h4; exact absurd rfl (h2 _)

/-! ### the same for `lex` itself, whose step budget is the length of the text (no fuel in the statements: `C07_lexer_terminates`
    makes the budget irrelevant) -/

/-- a separator in front of any text: `lex` gives exactly what it gives without it -/
theorem C18_lex_leading_separator (tb : Int) (c : Nat) (cs : List Nat) (ln : Int) (h : isSep (zen2han c) = true) :
    Lx.lex tb (c :: cs) ln = Lx.lex tb cs ln := by
  unfold Lx.lex
  simp only [List.length_cons]
  rw [C18_lex_separator tb (cs.length + 1) c cs ln false h]

/-- any run of separators in front of a text -/
theorem C18_lex_leading_separators (tb : Int) (seps cs : List Nat) (ln : Int) (h : ∀ c ∈ seps, isSep (zen2han c) = true) :
    Lx.lex tb (seps ++ cs) ln = Lx.lex tb cs ln := by
  induction seps with
  | nil => rfl
  | cons c r ih =>
    rw [List.cons_append, C18_lex_leading_separator tb c (r ++ cs) ln (h c List.mem_cons_self)]
    exact ih (fun x hx => h x (List.mem_cons_of_mem _ hx))

/-- a `// …` comment line in front of a text: the loop (with the budget `lex` gives it) continues on the next line as if the text
    began there -/
theorem C18_lex_leading_line_comment (tb : Int) (body r : List Nat) (ln : Int) (harm : Bool)
    (h : ∀ c ∈ body, c ≠ 10) (hs : body.head? ≠ some 47) :
    Lx.lexLoop tb ((47 :: 47 :: (body ++ 10 :: r)).length + 1) (47 :: 47 :: (body ++ 10 :: r)) ln harm
      = Lx.lexLoop tb (r.length + 1) r (ln + 1) harm := by
  rw [C18_lex_line_comment tb _ body r ln harm h hs]
  have : (47 :: 47 :: (body ++ 10 :: r)).length = r.length + 1 + (body.length + 2) := by
    simp only [List.length_cons, List.length_append]; omega
  rw [this]
  exact Lx.lexLoop_fuel_stable tb r (ln + 1) harm (body.length + 2)

/-- **a command's meaning does not depend on what follows its `;`**: for every program of the block language (notes, rests, setters,
    loops, chords, `Sub{…}`, tuplets, nested to any depth) and every text `X` whatsoever, `lex` reads `program ; X` as the compiled
    tokens of the program followed by exactly what it makes of `X` on its own — tokens, error entries, and the answer "outside the
    modelled subset" alike -/
theorem C18_semicolon_isolates (cs : List Core.Cmd) (hw : Lp.pwfL2 cs) (X : List Nat) :
    Lx.lex 96 (Lp.printKL2 cs (59 :: X)) 0
      = (Lx.lexLoop 96 (X.length + 1) X 0 false).map (fun o => ⟨Ex2.compileL cs ++ o.toks, o.errs⟩) := by
  unfold Lx.lex
  rw [Lp.lex_semicolon_isolates cs hw X]
  cases Lx.lexLoop 96 (X.length + 1) X 0 false <;> simp [Lp.preL, Ex2.compileL, Ex2.lineTok]

-- non-vacuity on the concrete lexer: separators, a line break and a line comment between three notes
example : ((Lx.lex 96 [99, 32, 124, 47, 47, 120, 121, 10, 100, 59, 10, 101] 0).map (fun o => o.toks.map Lx.Tok.ty)) =
    some [.lineNo, .note, .note, .lineNo, .note] := by decide

end Sakura.Props.C18
