import SakuraVerif.Lemmas.LoopMachine
import SakuraVerif.Spec.Core
import SakuraVerif.Gen.Consts
/-! # C05 — loop brackets mean repetition, with ':' leaving the loop on the last pass

Two levels.  **Machine level**: the three loop arms of `runner::exec` (a program counter and a
stack of `{start, end, index, count}`, with the forward scan for the matching `]`) are modelled
literally, *parametric in the effect of every other token*; `C05_machine_refines_tree` says that for
every well-formed nest of loops (any depth, counts ≥ 1, with or without `:`) and **any** effect,
running the machine over the flattened token list reaches the end with an empty stack and exactly
the state of the structurally repeated program.  The frame facts regenerated from the source say
that no other arm of `exec` writes `pos` or the loop stack, which is what makes the abstraction
sound.  **Semantics level**: in `Spec.Core.sem` (the semantics the real compiler is compared with
on every run) a loop is literally the unrolled command list, for any body and any nesting
(`C05_loop_unroll`), with state carried from pass to pass. -/
namespace Sakura.Props.C05
open Sakura Sakura.Core

/-- machine level: any nesting, any counts ≥ 1, any effect of the non-loop tokens -/
theorem C05_machine_refines_tree {α σ} (act : α → σ → σ) (ts : List (Loop.Tree α))
    (hw : Loop.wfL ts = true) (s : σ) :
    Loop.Reach act (Loop.flattenL ts) (0, [], s) ((Loop.flattenL ts).length, [], Loop.runL act ts s) :=
  Loop.machine_refines_tree act ts hw s

/-- only the loop arms move the program counter other than by +1, and only they touch the stack -/
theorem C05_frame_pos_writers : Gen.frame_execPosJumpArms = ["LoopBreak", "LoopEnd"] := rfl
theorem C05_frame_loop_stack : Gen.frame_loopStackArms = ["LoopBegin", "LoopBreak", "LoopEnd"] := rfl

/-- the command list `[n a : b]` stands for: (a b) written n-1 times followed by a
    (without `:` the second part is empty: a written n times) -/
def unroll (a b : List Cmd) : Nat → List Cmd
  | 0 => []
  | 1 => a
  | k+2 => a ++ b ++ unroll a b (k+1)

theorem semL_append (xs ys : List Cmd) (s : St) : semL (xs ++ ys) s = semL ys (semL xs s) := by
  induction xs generalizing s with
  | nil => simp [semL]
  | cons x xs ih => simp [semL, ih]

/-- semantics level: a loop is its unrolled text, for every body, count and state -/
theorem C05_loop_unroll (n : Nat) (a b : List Cmd) (hb : Bool) (s : St) :
    sem (.loop n a hb b) s = semL (unroll a b n) s := by
  simp only [sem]
  induction n using Nat.strongRecOn generalizing s with
  | _ n ih =>
    match n with
    | 0 => simp [iter, unroll, semL]
    | 1 => simp [iter, unroll]
    | k+2 =>
      simp only [iter, unroll]
      rw [semL_append, semL_append, ih (k+1) (by omega)]

/-- `[n body]` = body written n times -/
theorem C05_loop_plain (n : Nat) (a : List Cmd) (s : St) :
    sem (.loop n a false []) s = semL (List.replicate n a).flatten s := by
  rw [C05_loop_unroll]
  congr 1
  induction n using Nat.strongRecOn with
  | _ n ih =>
    match n with
    | 0 => rfl
    | 1 => simp [unroll]
    | k+2 => simp [unroll, ih (k+1) (by omega), List.replicate_succ]

mutual
/-- textual unrolling of **every** loop of a program, at any depth, also inside Sub, tuplets and chords -/
def unrollC : Cmd → List Cmd
  | .loop n a _ b => unroll (unrollL a) (unrollL b) n
  | .sub body => [.sub (unrollL body)]
  | .div body len => [.div (unrollL body) len]
  | .chord body len q v => [.chord (unrollL body) len q v]
  | .note a b c d e f g h => [.note a b c d e f g h]
  | .noteN a b c d e => [.noteN a b c d e]
  | .rest a b => [.rest a b]
  | .setL a => [.setL a] | .setO a => [.setO a] | .octRel a => [.octRel a] | .setV a => [.setV a]
  | .velRel a => [.velRel a] | .setQ a => [.setQ a] | .setT a => [.setT a]
  | .track a => [.track a] | .channel a => [.channel a] | .voice a => [.voice a]
  | .keyShift a => [.keyShift a] | .trackKey a => [.trackKey a] | .keyFlag a b => [.keyFlag a b]
  | .trackSync => [.trackSync] | .play ps => [.play ps]
def unrollL : List Cmd → List Cmd
  | [] => []
  | c :: cs => unrollC c ++ unrollL cs
end

theorem semL_unroll (a b : List Cmd) (n : Nat) (s : St) :
    semL (unroll a b n) s = iter (semL a) (semL b) n s := by
  induction n using Nat.strongRecOn generalizing s with
  | _ n ih =>
    match n with
    | 0 => simp [iter, unroll, semL]
    | 1 => simp [iter, unroll]
    | k+2 =>
      simp only [iter, unroll]
      rw [semL_append, semL_append, ih (k+1) (by omega)]

theorem countElems_append (xs ys : List Cmd) : countElems (xs ++ ys) = countElems xs + countElems ys := by
  induction xs with
  | nil => simp [countElems]
  | cons x xs ih => simp [countElems, ih]; omega

theorem countElems_unroll (a b : List Cmd) (n : Nat) :
    countElems (unroll a b n) = if n = 0 then 0 else (n : Int) * countElems a + ((n : Int) - 1) * countElems b := by
  induction n using Nat.strongRecOn with
  | _ n ih =>
    match n with
    | 0 => simp [unroll, countElems]
    | 1 => simp [unroll]
    | k+2 =>
      simp only [unroll, countElems_append, ih (k+1) (by omega)]
      have h1 : (k + 1 = 0) = False := by simp
      have h2 : (k + 2 = 0) = False := by simp
      simp only [h1, h2, if_false]
      push_cast
      generalize countElems a = x
      generalize countElems b = y
      have e1 : ((k:Int) + 1) * x = (k:Int) * x + x := by rw [Int.add_mul]; omega
      have e2 : ((k:Int) + 1 + 1) * x = (k:Int) * x + 2 * x := by rw [Int.add_mul, Int.add_mul]; omega
      have e3 : ((k:Int) + 1 - 1) * y = (k:Int) * y := by congr 1; omega
      have e4 : ((k:Int) + 1 + 1 - 1) * y = (k:Int) * y + y := by
        have : (k:Int) + 1 + 1 - 1 = (k:Int) + 1 := by omega
        rw [this, Int.add_mul]; omega
      rw [e1, e2, e3, e4]; omega

mutual
theorem unrollC_spec : ∀ (c : Cmd), (∀ s, semL (unrollC c) s = sem c s) ∧ countElems (unrollC c) = countElem c
  | .loop n a hb b => by
    have ha := unrollL_spec a
    have hb' := unrollL_spec b
    refine ⟨?_, ?_⟩
    · intro s
      simp only [unrollC, sem, semL_unroll]
      have e1 : semL (unrollL a) = semL a := funext ha.1
      have e2 : semL (unrollL b) = semL b := funext hb'.1
      rw [e1, e2]
    · simp only [unrollC, countElem, countElems_unroll, ha.2, hb'.2]
  | .sub body => by
    have h := unrollL_spec body
    refine ⟨?_, ?_⟩
    · intro s; simp only [unrollC, semL, sem, h.1]
    · simp [unrollC, countElems, countElem]
  | .div body len => by
    have h := unrollL_spec body
    refine ⟨?_, ?_⟩
    · intro s; simp only [unrollC, semL, sem, h.1, h.2]
    · simp [unrollC, countElems, countElem]
  | .chord body len q v => by
    have h := unrollL_spec body
    refine ⟨?_, ?_⟩
    · intro s; simp only [unrollC, semL, sem, h.1]
    · simp [unrollC, countElems, countElem, h.2]
  | .note a b c d e f g h => ⟨fun s => by simp [unrollC, semL], by simp [unrollC, countElems]⟩
  | .noteN a b c d e => ⟨fun s => by simp [unrollC, semL], by simp [unrollC, countElems]⟩
  | .rest a b => ⟨fun s => by simp [unrollC, semL], by simp [unrollC, countElems]⟩
  | .setL a => ⟨fun s => by simp [unrollC, semL], by simp [unrollC, countElems]⟩
  | .setO a => ⟨fun s => by simp [unrollC, semL], by simp [unrollC, countElems]⟩
  | .octRel a => ⟨fun s => by simp [unrollC, semL], by simp [unrollC, countElems]⟩
  | .setV a => ⟨fun s => by simp [unrollC, semL], by simp [unrollC, countElems]⟩
  | .velRel a => ⟨fun s => by simp [unrollC, semL], by simp [unrollC, countElems]⟩
  | .setQ a => ⟨fun s => by simp [unrollC, semL], by simp [unrollC, countElems]⟩
  | .setT a => ⟨fun s => by simp [unrollC, semL], by simp [unrollC, countElems]⟩
  | .track a => ⟨fun s => by simp [unrollC, semL], by simp [unrollC, countElems]⟩
  | .channel a => ⟨fun s => by simp [unrollC, semL], by simp [unrollC, countElems]⟩
  | .voice a => ⟨fun s => by simp [unrollC, semL], by simp [unrollC, countElems]⟩
  | .keyShift a => ⟨fun s => by simp [unrollC, semL], by simp [unrollC, countElems]⟩
  | .trackKey a => ⟨fun s => by simp [unrollC, semL], by simp [unrollC, countElems]⟩
  | .keyFlag a b => ⟨fun s => by simp [unrollC, semL], by simp [unrollC, countElems]⟩
  | .trackSync => ⟨fun s => by simp [unrollC, semL], by simp [unrollC, countElems]⟩
  | .play ps => ⟨fun s => by simp [unrollC, semL], by simp [unrollC, countElems]⟩
theorem unrollL_spec : ∀ (cs : List Cmd), (∀ s, semL (unrollL cs) s = semL cs s) ∧ countElems (unrollL cs) = countElems cs
  | [] => ⟨fun s => rfl, rfl⟩
  | c :: cs => by
    have hc := unrollC_spec c
    have hcs := unrollL_spec cs
    refine ⟨?_, ?_⟩
    · intro s; simp only [unrollL, semL_append, hc.1, hcs.1, semL]
    · simp only [unrollL, countElems_append, hc.2, hcs.2, countElems]
end

/-- C05, full strength at the semantics level: replacing **every** loop of a program — nested ones,
    loops inside Sub blocks, tuplets and chords, with or without `:` — by its unrolled text leaves the
    meaning of the program unchanged, for every initial state; state changed inside a body carries
    from pass to pass exactly as in the unrolled text -/
theorem C05_unroll_everywhere (cs : List Cmd) (s : St) : semL (unrollL cs) s = semL cs s :=
  (unrollL_spec cs).1 s

/-- …and a tuplet counts a loop as its repetitions, so its elements keep their share -/
theorem C05_unroll_keeps_tuplet_count (cs : List Cmd) : countElems (unrollL cs) = countElems cs :=
  (unrollL_spec cs).2

-- non-vacuity: a nest with ':' inside a tuplet inside Sub
example : unrollL [.sub [.div [.loop 2 [.rest none 1] true [.setO 3]] none]]
    = [.sub [.div [.rest none 1, .setO 3, .rest none 1] none]] := by
  simp [unrollL, unrollC, unroll]

end Sakura.Props.C05
