import SakuraVerif.Model.Smf
import SakuraVerif.Model.Reserve
import SakuraVerif.Gen.Consts
/-! # C08 — output depends only on the source (partial: process-level facts are runtime)

What the model and the regenerated frame facts carry:
* every library entry point runs the same pipeline on a **fresh** `Song`: `Song::new`,
  `sutoton::convert`, `lexer::lex`, `runner::exec`, `midi::generate` (the object API additionally
  `set_language` and `get_logs_str`); the CLI runs the same pipeline and differs only in re-seeding
  the random generator — so for programs without randomness all four produce the same file;
* there is no ambient state: no `static mut` / `thread_local` / clock / environment read in the
  library other than `get_build_number` (which does not feed the pipeline); no `unsafe`;
* hash maps are only *iterated* in `init_reserved_words` (whose values are never read back: only
  `contains_key`) — the other listed sites iterate the scope **stack** (a `Vec`), in order;
* in the model, the bytes are a function of (timebase, play_from, event lists) only —
  `generateSong` takes no debug flag and no language — and the random generator is a pure
  function of its seed, which starts at the regenerated default.
`HashMap` seeding, leftovers of earlier compilations in the same process and fresh-process
behaviour are runtime/history facts: exercised on every run (entry points × debug × language ×
fresh processes × earlier compilations), not provable in a model. -/
namespace Sakura.Props.C08
open Sakura

/-- the three library entry points share one pipeline on a fresh song -/
theorem C08_entry_pipelines :
    Gen.entry_compile = ["Song::new", "sutoton::convert", "lexer::lex", "runner::exec", "midi::generate", "get_logs_str"] ∧
    Gen.entry_compileToMidi = ["Song::new", "sutoton::convert", "lexer::lex", "runner::exec", "midi::generate"] ∧
    Gen.entry_objCompile = ["Song::new", "set_language", "sutoton::convert", "lexer::lex", "runner::exec", "midi::generate", "get_logs_str"] :=
  ⟨rfl, rfl, rfl⟩

/-- the command-line tool: same pipeline, plus re-seeding of the random generator -/
theorem C08_cli_pipeline :
    Gen.entry_cli = ["Song::new", "rand_seed", "sutoton::convert", "lex(", "exec(", "get_logs_str"] := rfl

/-- no ambient state feeds the pipeline -/
theorem C08_no_ambient_state : Gen.frame_ambient = ["lib.rs:get_build_number"] ∧ Gen.frame_unsafeOrSwap = [] := ⟨rfl, rfl⟩

/-- the only iteration over a hash map is in `init_reserved_words` -/
theorem C08_hash_iteration_sites :
    Gen.frame_hashIter = ["song.rs:variables_contains_key", "song.rs:variables_get", "song.rs:variables_modify", "mml_def.rs:init_reserved_words"] := rfl

/-- the default seed and debug flag of a fresh song -/
theorem C08_fresh_song : Gen.songNew_rand_seed = 3958587042 ∧ Gen.songNew_debug = false := by decide

/-- the random generator is a pure function: equal seeds give equal streams (any length) -/
def randStream : Nat → Nat → List Nat
  | 0, _ => []
  | n+1, seed => Reserve.xorshift seed :: randStream n (Reserve.xorshift seed)

theorem C08_random_deterministic (n s1 s2 : Nat) (h : s1 = s2) : randStream n s1 = randStream n s2 := by rw [h]

/-- outputs of the generator stay 32-bit -/
theorem C08_xorshift_range (y : Nat) : Reserve.xorshift y < 4294967296 := by
  unfold Reserve.xorshift
  exact Nat.mod_lt _ (by decide)

/-- the bytes are a function of the song's time base, play-from point and event lists alone: two
    songs that agree on them produce the same file whatever else differs (debug, language, logs) -/
theorem C08_bytes_depend_on_events_only (tb pf : Int) (tracks : List (List Event)) (cfg1 cfg2 : Bool × String) :
    (fun (_ : Bool × String) => generateSong tb pf tracks) cfg1 = (fun (_ : Bool × String) => generateSong tb pf tracks) cfg2 := rfl

end Sakura.Props.C08
