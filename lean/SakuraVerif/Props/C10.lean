import SakuraVerif.Lemmas.Expr
import SakuraVerif.Model.Lexer
import SakuraVerif.Lemmas.ScriptExpr
/-! # C10 — script expressions: conventional precedence, associativity, total arithmetic

`parseLevel` is the model of the lexer's `read_calc_level` (precedence climbing over the four
priority classes of `read_operator`), `print` writes an expression tree with the *minimal*
parentheses that conventional precedence and left associativity require.  `C10_parse_print`:
for **every** tree (any depth, any mix of the 13 binary operators, unary minus and atoms) the
parser reads the printed form back as exactly that tree — so evaluation of the parsed text is the
conventional value of the expression.  The value laws are stated on the model of `SValue` and of
the `CalcTree` arm: ÷0 = %0 = 0, `+` concatenates when either side is a string, comparisons and
`& |` yield booleans printed TRUE/FALSE, unary minus at any depth; MID/SizeOf/REPLACE on any text. -/
namespace Sakura.Props.C10
open Sakura.Ex

/-- every well-formed tree is recovered from its minimal-parenthesis print -/
theorem C10_parse_print (e : Expr) (hw : wfE e) :
    ∃ F0, ∀ F, F0 ≤ F → parseLevel F top (print top e) = some (e, []) := parse_print e hw

/-- hence parsing then evaluating the printed text gives the conventional value of the tree -/
theorem C10_eval_parse_print (ρ : Nat → Val) (e : Expr) (hw : wfE e) :
    ∃ F, (parseLevel F top (print top e)).map (fun p => evalTree ρ p.1) = some (evalTree ρ e) := by
  obtain ⟨F0, h⟩ := parse_print e hw
  exact ⟨F0, by rw [h F0 (Nat.le_refl _)]; rfl⟩

def mul : Op := ⟨0, 1⟩
def sub : Op := ⟨4, 2⟩
def add : Op := ⟨3, 2⟩
def lt : Op := ⟨9, 3⟩
def and' : Op := ⟨11, 4⟩

/-- `2*3+1` is `(2*3)+1`, `1+2*3` is `1+(2*3)` (tighter operators bind first) -/
theorem C10_precedence :
    parseLevel 20 top [.atom 0, .op mul, .atom 1, .op add, .atom 2] = some (.bin add (.bin mul (.atom 0) (.atom 1)) (.atom 2), []) ∧
    parseLevel 20 top [.atom 0, .op add, .atom 1, .op mul, .atom 2] = some (.bin add (.atom 0) (.bin mul (.atom 1) (.atom 2)), []) := by
  decide

/-- `10-2-3` is `(10-2)-3` (equal precedence associates to the left) -/
theorem C10_left_assoc :
    parseLevel 20 top [.atom 0, .op sub, .atom 1, .op sub, .atom 2] = some (.bin sub (.bin sub (.atom 0) (.atom 1)) (.atom 2), []) := by
  decide

/-- `1<2&2<3` is `(1<2)&(2<3)` -/
theorem C10_compare_then_logic :
    parseLevel 20 top [.atom 0, .op lt, .atom 1, .op and', .atom 1, .op lt, .atom 2]
      = some (.bin and' (.bin lt (.atom 0) (.atom 1)) (.bin lt (.atom 1) (.atom 2)), []) := by decide

/-- the printer uses no parentheses exactly for the conventional readings … -/
theorem C10_print_minimal :
    print top (.bin sub (.bin sub (.atom 0) (.atom 1)) (.atom 2)) = [.atom 0, .op sub, .atom 1, .op sub, .atom 2] ∧
    print top (.bin sub (.atom 0) (.bin sub (.atom 1) (.atom 2))) = [.atom 0, .op sub, .lp, .atom 1, .op sub, .atom 2, .rp] ∧
    print top (.bin mul (.bin add (.atom 0) (.atom 1)) (.atom 2)) = [.lp, .atom 0, .op add, .atom 1, .rp, .op mul, .atom 2] := by
  decide

/-- the level of each operator is the priority class of `read_operator` -/
theorem C10_levels : (List.range 13).map lvlOf = [1, 1, 1, 2, 2, 3, 3, 3, 3, 3, 3, 4, 4] := by decide

/-! ## value laws -/

theorem C10_div_zero (a b : Val) (h : b.toI = 0) : evalOp 1 a b = .int 0 ∧ evalOp 2 a b = .int 0 := by
  simp [evalOp, h]

theorem C10_div_mod (a b : Val) (h : b.toI ≠ 0) :
    evalOp 1 a b = .int (Int.tdiv a.toI b.toI) ∧ evalOp 2 a b = .int (Int.tmod a.toI b.toI) := by
  simp [evalOp, h]

theorem C10_add_concat (a b : Val) (h : a.isStr = true ∨ b.isStr = true) :
    evalOp 3 a b = .str (a.toS ++ b.toS) := by
  rcases h with h | h <;> simp [evalOp, h]

theorem C10_add_int (a b : Int) : evalOp 3 (.int a) (.int b) = .int (a + b) := by simp [evalOp, Val.isStr, Val.toI]
theorem C10_arith (a b : Int) :
    evalOp 0 (.int a) (.int b) = .int (a * b) ∧ evalOp 4 (.int a) (.int b) = .int (a - b) := by
  simp [evalOp, Val.toI]

/-- comparisons and `& |` always yield a boolean, printed TRUE / FALSE -/
theorem C10_compare_bool (id : Nat) (h5 : 5 ≤ id) (a b : Val) : ∃ r, evalOp id a b = .bool r := by
  unfold evalOp
  split <;> first | omega | exact ⟨_, rfl⟩

theorem C10_compare_int (a b : Int) :
    evalOp 5 (.int a) (.int b) = .bool (a == b) ∧ evalOp 6 (.int a) (.int b) = .bool (!(a == b)) ∧
    evalOp 7 (.int a) (.int b) = .bool (decide (a > b)) ∧ evalOp 9 (.int a) (.int b) = .bool (decide (a < b)) ∧
    evalOp 8 (.int a) (.int b) = .bool (decide (a ≥ b)) ∧ evalOp 10 (.int a) (.int b) = .bool (decide (a ≤ b)) := by
  refine ⟨by simp [evalOp, valEq, Val.toI], by simp [evalOp, valEq, Val.toI], by simp [evalOp, valGt, Val.toI],
    ?_, ?_, ?_⟩
  · simp only [evalOp, valCmp, Val.toI]
    congr 1; by_cases h : a < b <;> simp [h]
  · simp only [evalOp, valGt, Val.toI, Bool.true_and]
    congr 1; by_cases h : a > b <;> by_cases h2 : a = b <;> simp [h, h2] <;> omega
  · simp only [evalOp, valCmp, Val.toI, Bool.true_and, Bool.not_true, Bool.false_and, Bool.or_false]
    congr 1; by_cases h : a < b <;> by_cases h2 : a = b <;> simp [h, h2] <;> omega

theorem C10_show_bool : (Val.bool true).toS = [84, 82, 85, 69] ∧ (Val.bool false).toS = [70, 65, 76, 83, 69] := by
  decide

theorem C10_neg (ρ : Nat → Val) (e : Expr) : evalTree ρ (.neg e) = .int (-(evalTree ρ e).toI) := by
  simp [evalTree]

/-! ## string built-ins, for any text -/

/-- MID(s,i,n): the n characters from 1-based position i, clamped to the string -/
theorem C10_mid (s : List Nat) (i n : Nat) :
    mid s i n = (s.drop (i - 1)).take n ∧ (mid s i n).length ≤ n ∧ (mid s i n).length ≤ s.length ∧
    (i - 1 + n ≤ s.length → (mid s i n).length = n) := by
  refine ⟨rfl, ?_, ?_, ?_⟩ <;> simp [mid] <;> omega

theorem C10_mid_whole (s : List Nat) : mid s 1 s.length = s := by simp [mid]

theorem C10_sizeof (s t : List Nat) : sizeOfStr (s ++ t) = sizeOfStr s + sizeOfStr t := by simp [sizeOfStr]

/-- REPLACE with a pattern that does not occur leaves the text unchanged -/
theorem C10_replace_absent (s pat rep : List Nat) (hp : pat ≠ []) :
    ∀ f, (∀ k, ¬ pat <+: s.drop k) → replaceAll f s pat rep = s := by
  induction s with
  | nil => intro f _; cases f <;> simp [replaceAll, hp]
  | cons c cs ih =>
    intro f h
    cases f with
    | zero => simp [replaceAll]
    | succ f =>
      have hpe : pat.isEmpty = false := by cases pat <;> simp_all
      have h0 : pat.isPrefixOf (c :: cs) = false := by
        cases hh : pat.isPrefixOf (c :: cs) with
        | false => rfl
        | true => exact absurd (List.isPrefixOf_iff_prefix.mp hh) (by simpa using h 0)
      simp only [replaceAll, hpe, Bool.false_eq_true, if_false, h0]
      rw [ih f (fun k => by simpa using h (k + 1))]

-- non-vacuity: a deep mixed tree is well-formed and round-trips
example : wfE (.bin and' (.bin lt (.neg (.bin add (.atom 0) (.atom 1))) (.atom 2)) (.bin lt (.atom 1) (.bin mul (.atom 2) (.neg (.neg (.atom 3)))))) := by
  simp [wfE, and', lt, add, mul, top]
example : parseLevel 40 top (print top (.bin mul (.neg (.bin add (.atom 0) (.atom 1))) (.atom 2)))
    = some (.bin mul (.neg (.bin add (.atom 0) (.atom 1))) (.atom 2), []) := by decide

/-! ## what the runner computes -/

open Sakura.Sx in
/-- **`runner::exec` computes the tree's value** (literal script runner, `CalcTree` arm with `exec_args` and the value stack): for every
    expression tree — any operators, any nesting, unary minus — and any environment held by the variable scopes, running the token
    tree the lexer builds for it pushes exactly `evalTree ρ e` and changes nothing else.  With `C10_eval_parse_print` the value of a
    printed expression is therefore the value the documented precedence prescribes. -/
theorem C10_runner_computes_tree (fns : List Fn) (ρ : Nat → Val) (e : Expr) (f : Nat) (s : St) (hf : fuelE e ≤ f) (hb : s.brk = 0)
    (hρ : ∀ a, getVar s.scopes [a] = some (some (ρ a))) :
    execTok fns f (compileE e) s = push s (some (evalTree ρ e)) :=
  exec_calc_tree fns ρ e f s hf hb hρ

open Sakura.Sx in
/-- the operator characters stored in `CalcTree` tokens select exactly the operations of the expression model -/
theorem C10_calc_ops (id : Nat) (a b : Val) : calcOp (flagOf id) (some a) (some b) = some (some (evalOp id a b)) := calcOp_eval id a b

/-! ## literals (the number readers of the literal lexer model) -/

/-- the value of a string of decimal digits, and of a string of hexadecimal digits -/
def decValue (ds : List Nat) : Int := ds.foldl (fun (a : Int) (c : Nat) => a * 10 + ((c : Int) - 48)) 0
def hexValue (ds : List Nat) : Int := ds.foldl (fun (a : Int) (c : Nat) => a * 16 + (Lx.hexVal c).getD 0) 0

theorem accDec_digits (ds rest : List Nat) (hd : ∀ c ∈ ds, Lx.isDigit c = true) (hr : ∀ c r, rest = c :: r → Lx.isDigit c = false) :
    ∀ acc, Lx.accDec acc (ds ++ rest) = (ds.foldl (fun (a : Int) (c : Nat) => a * 10 + ((c : Int) - 48)) acc, rest) := by
  induction ds with
  | nil =>
    intro acc
    cases rest with
    | nil => simp [Lx.accDec]
    | cons c r => simp [Lx.accDec, hr c r rfl]
  | cons d ds ih =>
    intro acc
    have h1 : Lx.isDigit d = true := hd d (by simp)
    simp only [List.cons_append, Lx.accDec, h1, if_true, List.foldl_cons]
    exact ih (fun c hc => hd c (by simp [hc])) _

theorem accHex_digits (ds rest : List Nat) (hd : ∀ c ∈ ds, (Lx.hexVal c).isSome = true) (hr : ∀ c r, rest = c :: r → Lx.hexVal c = none) :
    ∀ acc, Lx.accHex acc (ds ++ rest) = (ds.foldl (fun (a : Int) (c : Nat) => a * 16 + (Lx.hexVal c).getD 0) acc, rest) := by
  induction ds with
  | nil =>
    intro acc
    cases rest with
    | nil => simp [Lx.accHex]
    | cons c r => simp [Lx.accHex, hr c r rfl]
  | cons d ds ih =>
    intro acc
    obtain ⟨v, hv⟩ := Option.isSome_iff_exists.mp (hd d (by simp))
    simp only [List.cons_append, Lx.accHex, hv, List.foldl_cons, Option.getD_some]
    exact ih (fun c hc => hd c (by simp [hc])) _

/-- a decimal literal denotes its value — every digit counts, however many there are (no truncation to 32 bits, no saturation): the digit
    loop of `get_int` on a run of digits followed by anything that is not a digit -/
theorem C10_decimal_literal (ds rest : List Nat) (hd : ∀ c ∈ ds, Lx.isDigit c = true) (hr : ∀ c r, rest = c :: r → Lx.isDigit c = false) :
    Lx.accDec 0 (ds ++ rest) = (decValue ds, rest) := accDec_digits ds rest hd hr 0

/-- … and so does a hexadecimal literal (the digit loop of `get_hex`, after `$` or `0x`) -/
theorem C10_hex_literal (ds rest : List Nat) (hd : ∀ c ∈ ds, (Lx.hexVal c).isSome = true) (hr : ∀ c r, rest = c :: r → Lx.hexVal c = none) :
    Lx.accHex 0 (ds ++ rest) = (hexValue ds, rest) := accHex_digits ds rest hd hr 0

/-- `get_int` itself on a decimal literal (not the beginning of a `0x` / `0o` literal): the value of its digits, the rest of the text left
    where it is; with a leading `-` the negated value -/
theorem C10_get_int_decimal (dflt : Int) (d : Nat) (ds rest : List Nat) (hd : ∀ c ∈ d :: ds, Lx.isDigit c = true)
    (hr : ∀ c r, rest = c :: r → Lx.isDigit c = false)
    (hx : Lx.startsWith [48, 120] (d :: ds ++ rest) = false) (ho : Lx.startsWith [48, 111] (d :: ds ++ rest) = false) :
    Lx.getInt dflt (d :: ds ++ rest) = (decValue (d :: ds), rest) ∧
    Lx.getInt dflt (45 :: d :: ds ++ rest) = (-decValue (d :: ds), rest) := by
  have hd0 : Lx.isDigit d = true := hd d (by simp)
  have hd36 : d ≠ 36 := by intro h; subst h; simp [Lx.isDigit] at hd0
  have hd45 : d ≠ 45 := by intro h; subst h; simp [Lx.isDigit] at hd0
  have hbody : ∀ sgn : Int, Lx.getIntBody dflt (sgn, d :: ds ++ rest) = (decValue (d :: ds) * sgn, rest) := by
    intro sgn
    have hacc := C10_decimal_literal (d :: ds) rest hd hr
    simp only [List.cons_append] at hacc hx ho
    simp only [Lx.getIntBody, List.cons_append, hx, ho, Lx.peek, List.headD_cons, hd36, hd0, hacc]
    simp
  constructor
  · have : Lx.stripMinus (d :: ds ++ rest) = (1, d :: ds ++ rest) := by
      simp only [List.cons_append]
      unfold Lx.stripMinus
      split
      · rename_i h; simp at h; exact absurd h.1 hd45
      · rfl
    rw [Lx.getInt, this, hbody 1]; simp
  · have : Lx.stripMinus (45 :: d :: ds ++ rest) = (-1, d :: ds ++ rest) := by simp [Lx.stripMinus]
    rw [Lx.getInt, this, hbody (-1)]; simp

/-- `get_int` on a `$` literal: the value of its hexadecimal digits -/
theorem C10_get_int_hex (dflt : Int) (d : Nat) (ds rest : List Nat) (hd : ∀ c ∈ d :: ds, (Lx.hexVal c).isSome = true)
    (hr : ∀ c r, rest = c :: r → Lx.hexVal c = none) (hx : Lx.startsWith [48, 120] (d :: ds ++ rest) = false) :
    Lx.getInt dflt (36 :: d :: ds ++ rest) = (hexValue (d :: ds), rest) := by
  obtain ⟨v, hv⟩ := Option.isSome_iff_exists.mp (hd d (by simp))
  have hacc := C10_hex_literal (d :: ds) rest hd hr
  simp only [List.cons_append] at hacc hx
  have hx' : ∀ r, d :: (ds ++ rest) = 48 :: 120 :: r → False := by
    intro r h
    have : Lx.startsWith [48, 120] (d :: (ds ++ rest)) = true := by rw [h]; simp [Lx.startsWith]
    rw [hx] at this; exact absurd this (by decide)
  have hhex : Lx.getHex dflt (36 :: d :: (ds ++ rest)) = (hexValue (d :: ds), rest) := by
    unfold Lx.getHex
    simp only [Lx.stripMinus]
    split
    · rename_i h; simp [Lx.peek, hv] at h
    · rw [hacc]; simp
  simp only [Lx.getInt, Lx.stripMinus, Lx.getIntBody, List.cons_append, Lx.peek, List.headD_cons, hhex]
  simp

/-- where no number stands (not a digit, `$` or `-`), `get_int` returns the default it was given and consumes nothing: an omitted
    argument is the command's default, not 0 -/
theorem C10_get_int_absent (dflt : Int) (s : List Nat) (h1 : Lx.isDigit (Lx.peek s) = false) (h2 : Lx.peek s ≠ 36) (h3 : Lx.peek s ≠ 45) :
    Lx.getInt dflt s = (dflt, s) := by
  cases s with
  | nil => simp [Lx.getInt, Lx.stripMinus, Lx.getIntBody, Lx.startsWith, Lx.peek]
  | cons c r =>
    simp only [Lx.peek, List.headD_cons] at h1 h2 h3
    have hs : Lx.stripMinus (c :: r) = (1, c :: r) := by
      unfold Lx.stripMinus
      split
      · rename_i r' h; simp at h; exact absurd h.1 h3
      · rfl
    have h48 : c ≠ 48 := by intro h; subst h; simp [Lx.isDigit] at h1
    have h48' : ¬ (48 = c) := fun h => h48 h.symm
    simp [Lx.getInt, hs, Lx.getIntBody, Lx.startsWith, Lx.peek, h1, h2, h48']

example : Lx.getInt 7 ([49, 50] ++ [41]) = (12, [41]) ∧ Lx.getInt 7 (45 :: [49, 50] ++ [41]) = (-12, [41]) ∧ Lx.getInt 7 [41] = (7, [41]) := by decide +kernel

-- `$100000000` is 2^32, `9223372036854775808` is 2^63 (the readers themselves do not wrap: the 64-bit domain is the tie's)
example : hexValue [49, 48, 48, 48, 48, 48, 48, 48, 48] = 4294967296 ∧ decValue [57, 50, 50, 51, 51, 55, 50, 48, 51, 54, 56, 53, 52, 55, 55, 53, 56, 48, 56] = 9223372036854775808 := by decide +kernel

end Sakura.Props.C10
