import SakuraVerif.Lemmas.Core
import SakuraVerif.Lemmas.ExecInv
import SakuraVerif.Lemmas.ExecChord
/-! # C06 — Sub, tuplets and chords obey their time-pointer laws for any contents

Stated on `Spec.Core.sem` (the semantics the real compiler is compared with on every run), for
**every** body (any commands, any nesting of the three constructs in one another and in loops) and
every length: `Sub{X}` restores the time pointer; `{X}L` advances the pointer by exactly `L`,
runs `X` with the default length `L / count(X)` — `count` being the notes, rests, nested tuplets,
each `^` and loop repetitions — and restores the default length; a chord starts all its notes at
one tick, gives them the chord's length and gate, and advances by exactly one `L`.
All statements are for well-formed states (the current track exists), an invariant of every run
(`sem_wf`, proved by induction over all programs). -/
namespace Sakura.Props.C06
open Sakura.Core

/-- the current track always exists: invariant of every program from the initial state -/
theorem C06_wf_invariant (cs : List Cmd) : (semL cs St.init).WF := semL_wf cs _ wf_init

/-- Sub{X}: whatever X contains, the pointer is where it was -/
theorem C06_sub_restores (body : List Cmd) (s : St) (h : s.WF) :
    (sem (.sub body) s).t.tp = s.t.tp := by
  simp only [sem]
  rw [setT_t _ _ (semL_wf body s h)]

/-- …and everything else is what X left (only the pointer is touched) -/
theorem C06_sub_only_pointer (body : List Cmd) (s : St) (h : s.WF) :
    (sem (.sub body) s).t = { (semL body s).t with tp := s.t.tp } := by
  simp only [sem]
  rw [setT_t _ _ (semL_wf body s h)]

/-- {X}L: the pointer advances by exactly L and the default length is restored -/
theorem C06_div_advances (body : List Cmd) (len : Option LenExpr) (s : St) (h : s.WF) :
    (sem (.div body len) s).t.tp = s.t.tp + lenOpt s.tb s.t.l len ∧ (sem (.div body len) s).t.l = s.t.l := by
  simp only [sem]
  rw [setT_t _ _ (semL_wf body _ (setT_wf _ _ h))]
  exact ⟨rfl, rfl⟩

/-- {X}L: X runs with every counted element getting an equal share of L -/
theorem C06_div_share (body : List Cmd) (len : Option LenExpr) (s : St) (h : s.WF) :
    ∃ s1 : St, s1.t.l = (if countElems body > 0 then tdiv (lenOpt s.tb s.t.l len) (countElems body) else 0) ∧
      s1.t.tp = s.t.tp ∧
      sem (.div body len) s = (semL body s1).setT { (semL body s1).t with tp := s.t.tp + lenOpt s.tb s.t.l len, l := s.t.l } := by
  refine ⟨s.setT { s.t with l := if countElems body > 0 then tdiv (lenOpt s.tb s.t.l len) (countElems body) else 0 }, ?_, ?_, ?_⟩
  · rw [setT_t _ _ h]
  · rw [setT_t _ _ h]
  · simp only [sem]

/-- what is counted: notes, rests, nested tuplets, each `^`, and loops as their repetitions -/
theorem C06_count_rules (len : Option LenExpr) (a b : List Cmd) (n : Nat) (hn : 0 < n) :
    countElem (.note 0 0 false len none none none none) = 1 + hats len ∧
    countElem (.rest len 1) = 1 + hats len ∧
    countElem (.div a len) = 1 + hats len ∧
    countElem (.loop n a true b) = (n : Int) * countElems a + ((n : Int) - 1) * countElems b ∧
    countElem (.setO 3) = 0 ∧ countElem (.sub a) = 0 := by
  have : ¬ (n = 0) := by omega
  simp [countElem, this]

theorem chordFix_time (ht ln qq : Int) (v : Option Int) (e : NoteEv) : (chordFix ht ln qq v e).time = ht := by
  unfold chordFix
  split <;> split <;> (try split) <;> rfl

theorem chordFix_dur (ht ln qq : Int) (v : Option Int) (e : NoteEv) (hq : qq ≠ 0) :
    (chordFix ht ln qq v e).dur = tdiv (ln * qq) 100 := by
  unfold chordFix
  simp only [hq, ne_eq, not_false_eq_true, if_true]
  split <;> (try split) <;> rfl

/-- chord: every collected note starts at the chord's tick with the chord's length×gate (and
    velocity when given), in reverse collection order; the pointer advances by exactly one L -/
theorem C06_chord_laws (body : List Cmd) (len : Option LenExpr) (q v : Option Int) (s : St) (h : s.WF)
    (ht : Int) (evs : List NoteEv) (hh : (semL body { s with harm := some (s.t.tp, []) }).harm = some (ht, evs)) :
    let s1 := semL body { s with harm := some (s.t.tp, []) }
    let ln := lenOpt s1.tb s1.t.l len
    let qq := match q with | none => s1.t.q | some x => if x < 0 then s1.t.q else x
    (sem (.chord body len q v) s).t.tp = ht + ln ∧ (sem (.chord body len q v) s).harm = none ∧
    (sem (.chord body len q v) s).t.ev = s1.t.ev ++ evs.reverse.map (chordFix ht ln qq v) ∧
    (∀ e ∈ evs.reverse.map (chordFix ht ln qq v), e.time = ht) ∧
    (qq ≠ 0 → ∀ e ∈ evs.reverse.map (chordFix ht ln qq v), e.dur = tdiv (ln * qq) 100) := by
  intro s1 ln qq
  have hw : s1.WF := semL_wf body _ h
  simp only [sem, hh]
  refine ⟨?_, by simp, ?_, ?_, ?_⟩
  · rw [harm_t, setT_t _ _ hw]
  · rw [harm_t, setT_t _ _ hw]
    try rfl
  · intro e he
    simp only [List.mem_map] at he
    obtain ⟨e0, _, rfl⟩ := he
    exact chordFix_time _ _ _ _ _
  · intro hq e he
    simp only [List.mem_map] at he
    obtain ⟨e0, _, rfl⟩ := he
    exact chordFix_dur _ _ _ _ _ hq

/-- a note inside a chord does not move the pointer -/
theorem C06_chord_member_keeps_pointer (s : St) (h : s.WF) (ht : Int) (evs : List NoteEv)
    (hh : s.harm = some (ht, evs)) (semi acc : Int) (nat : Bool) (len : Option LenExpr) (q v t o : Option Int) :
    (sem (.note semi acc nat len q v t o) s).t.tp = ht := by
  simp only [sem, hh]
  rw [harm_t, setT_t _ _ (noteOn_wf s _ _ _ _ _ h)]

-- non-vacuity: nested blocks on the initial state
example : (semL [.sub [.div [.note 0 0 false none none none none none, .rest none 1] none], .note 2 0 false none none none none none] St.init).t.ev
    = [⟨0, 0, 60, 43, 100⟩, ⟨0, 0, 62, 86, 100⟩] := by decide

/-! ## the block laws on the literal runner model (T1)

For the model of `runner::exec` (`Ex2.leaf`, tied to the code by the `exec` stream): whatever the children of the block are —
any tokens, any nesting, no `TR`/`TrackSync` inside — if the block runs to its end then `Sub{X}` leaves the time pointer
where it was, and a tuplet `{X}L` advances it by exactly `L` and restores the default length. -/

theorem C06_sub_restores_pointer_exec (F d : Nat) (data : List Lx.SV) (vi ln : Int) (vs : Option (List Nat)) (ch : List Lx.Tok)
    (hch : ∀ a ∈ ch, Ex2.NoTrack a) (s : Ex2.Song) (hc : s.cur < s.tracks.length) (hb : s.bad = false)
    (hok : (Ex2.leaf F (d + 1) (.mk .sub vi ln vs data (some ch)) s).bad = false) :
    (Ex2.leaf F (d + 1) (.mk .sub vi ln vs data (some ch)) s).t.timepos = s.t.timepos :=
  Ex2.sub_restores_pointer F d data vi ln vs ch hch s hc hb hok

theorem C06_tuplet_advances_exactly_exec (F d : Nat) (lenS : List Nat) (vi ln : Int) (vs : Option (List Nat)) (ch : List Lx.Tok)
    (hch : ∀ a ∈ ch, Ex2.NoTrack a) (s : Ex2.Song) (hc : s.cur < s.tracks.length) (hb : s.bad = false)
    (hok : (Ex2.leaf F (d + 1) (.mk .div vi ln vs [.str lenS] (some ch)) s).bad = false) :
    (Ex2.leaf F (d + 1) (.mk .div vi ln vs [.str lenS] (some ch)) s).t.timepos = s.t.timepos + Len.calcLength s.tb s.t.length lenS ∧
    (Ex2.leaf F (d + 1) (.mk .div vi ln vs [.str lenS] (some ch)) s).t.length = s.t.length :=
  Ex2.div_advances_exactly F d lenS vi ln vs ch hch s hc hb hok

/-- **the chord laws on the literal runner model** (`exec_harmony(…, false)`, tied by the `exec` stream): closing a chord — whatever notes
    were collected, with whatever lengths and gates of their own — writes one event per collected note, all at the tick where the chord
    was opened, each with the chord's length × gate as its duration (when the gate rate in force is not 0), leaves chord mode, and puts
    the time pointer exactly one chord length after the chord's tick -/
theorem C06_chord_laws_exec (s : Ex2.Song) (tk : Lx.Tok) (hf : s.harmonyFlag = true) (hc : s.cur < s.tracks.length) :
    (Ex2.execHarmonyEnd s tk).harmonyFlag = false ∧ (Ex2.execHarmonyEnd s tk).harmonyEvents = [] ∧
    (Ex2.execHarmonyEnd s tk).t.timepos = s.harmonyTime + Ex2.chordLen s tk ∧
    ∃ evs, (Ex2.execHarmonyEnd s tk).t.events = s.t.events ++ evs ∧ evs.length = s.harmonyEvents.length ∧
      ∀ e ∈ evs, e.time = s.harmonyTime ∧ (Ex2.chordQ s tk ≠ 0 → e.v2 = Int.tdiv (Ex2.chordLen s tk * Ex2.chordQ s tk) 100) :=
  Ex2.execHarmonyEnd_laws s tk hf hc

/-- the members keep what they are: kind, channel and key of a collected note are not touched when the chord is closed -/
theorem C06_chord_member_identity_exec (s : Ex2.Song) (tk : Lx.Tok) (e : Event) :
    (Ex2.chordFixEv s tk e).kind = e.kind ∧ (Ex2.chordFixEv s tk e).ch = e.ch ∧ (Ex2.chordFixEv s tk e).v1 = e.v1 :=
  Ex2.chordFixEv_keeps s tk e

-- non-vacuity: a song in chord mode with two collected notes
example : ({ harmonyFlag := true, harmonyTime := 96, harmonyEvents := [⟨.noteOn, 96, 0, 60, 86, 100, []⟩, ⟨.noteOn, 96, 0, 64, 86, 100, []⟩] } : Ex2.Song).harmonyFlag = true ∧
    ({} : Ex2.Song).cur < ({} : Ex2.Song).tracks.length := by decide

end Sakura.Props.C06
