import SakuraVerif.Model.Time
import SakuraVerif.Model.Smf
import SakuraVerif.Model.Messages
/-! # C14 — TIME, MeasureShift, rests and PlayFrom put events at the documented ticks

* `C14_time_formula`: `TIME(m:b:t)` = ((m−1+shift)·numerator + (b−1))·beat + t with
  beat = 4·timebase/denominator, for all arguments; `TIME(n)` = n.
* PlayFrom on event lists (model of `Track::play_from`, tied to the code by the correspondence):
  the result is the re-issued controller values (in controller order) and program, all at tick 0
  and **ahead of every remaining event**, followed by exactly the events kept by `keepOf` in their
  original order: notes/programs/controllers at or after the point shifted by −p, meta/SysEx
  shifted and clamped at 0, everything before the point dropped. -/
namespace Sakura.Props.C14
open Sakura Sakura.Time

/-- TIME(m:b:t) -/
theorem C14_time_formula (tb frac deno shift m b t : Int) :
    getTime tb frac deno shift [m, b, t] = ((m - 1 + shift) * frac + (b - 1)) * (Int.tdiv (tb * 4) deno) + t := by
  simp only [getTime, getTime3]
  generalize Int.tdiv (tb * 4) deno = base
  have h1 : (m + shift - 1) * (base * frac) = ((m - 1 + shift) * frac) * base := by
    rw [show m + shift - 1 = m - 1 + shift by omega, Int.mul_comm base frac, Int.mul_assoc]
  rw [h1]
  generalize (m - 1 + shift) * frac = A
  generalize b - 1 = B
  rw [Int.add_mul]

/-- TIME(n) is tick n -/
theorem C14_time_single (tb frac deno shift n : Int) : getTime tb frac deno shift [n] = n := rfl

/-- for the documented denominators the beat is 4·timebase/denominator exactly (floor = truncation) -/
theorem C14_beat (tb deno : Int) (htb : 0 ≤ tb) (hd : 0 < deno) : Int.tdiv (tb * 4) deno = tb * 4 / deno :=
  Int.tdiv_eq_ediv_of_nonneg (by omega)

/-- the time signature in force is clamped to 2..64 / {2,4,8,16} (else 4) -/
theorem C14_timesig_domain (d : Int) : timeSigDeno d = 2 ∨ timeSigDeno d = 4 ∨ timeSigDeno d = 8 ∨ timeSigDeno d = 16 := by
  unfold timeSigDeno
  simp only []
  split <;> (try (split <;> (try (split <;> (try split))))) <;> simp

/-! ## PlayFrom -/

/-- what happens to one event: `none` = dropped -/
def keepOf (p : Int) (e : Event) : Option Event :=
  match e.kind with
  | .metaEv | .sysex => some { e with time := if e.time - p < 0 then 0 else e.time - p }
  | .noteOn | .voice | .cc => if e.time - p < 0 then none else some { e with time := e.time - p }
  | _ => none

theorem out_step (p : Int) (a : PfAcc) (e : Event) :
    (pfStep p a e).out = (keepOf p e).toList ++ a.out := by
  unfold pfStep keepOf
  cases e.kind <;> simp <;> (try split) <;> (try split) <;> simp

theorem out_fold (p : Int) (es : List Event) (a : PfAcc) :
    (es.foldl (pfStep p) a).out.reverse = a.out.reverse ++ es.filterMap (keepOf p) := by
  induction es generalizing a with
  | nil => simp
  | cons e es ih =>
    rw [List.foldl_cons, ih, out_step]
    cases h : keepOf p e <;> simp [List.filterMap_cons, h]

/-- shape of the result: restored controllers, restored program, then the kept events in order -/
theorem C14_playFrom_shape (p : Int) (es : List Event) :
    ∃ (ch : Int) (cc : List (Nat × Int)) (voice : Int),
      playFrom p es = restoreCc ch cc ++ (if voice ≥ 0 then [voiceEvent ch voice] else []) ++ es.filterMap (keepOf p) := by
  refine ⟨(es.foldl (pfStep p) ⟨[], [], -1, 0⟩).ch, (es.foldl (pfStep p) ⟨[], [], -1, 0⟩).cc,
    (es.foldl (pfStep p) ⟨[], [], -1, 0⟩).voice, ?_⟩
  unfold playFrom
  simp only []
  rw [out_fold]
  simp

/-- every re-issued event is a controller or program change at tick 0 -/
theorem C14_restored_at_zero (ch : Int) (cc : List (Nat × Int)) (voice : Int) :
    ∀ e ∈ restoreCc ch cc ++ (if voice ≥ 0 then [voiceEvent ch voice] else []),
      e.time = 0 ∧ (e.kind = .cc ∨ e.kind = .voice) := by
  intro e he
  rcases List.mem_append.mp he with h | h
  · unfold restoreCc at h
    obtain ⟨no, _, hno⟩ := List.mem_filterMap.mp h
    split at hno
    · split at hno
      · simp at hno
      · simp only [Option.some.injEq] at hno; subst hno; simp [ccEvent]
    · simp at hno
  · split at h
    · simp at h; subst h; simp [voiceEvent]
    · simp at h

/-- restored controllers come in controller-number order and each number at most once -/
theorem C14_restored_order (ch : Int) (cc : List (Nat × Int)) :
    ((restoreCc ch cc).map (·.v1)).Pairwise (· < ·) := by
  unfold restoreCc
  have hr : (List.range 128).Pairwise (· < ·) := List.pairwise_lt_range
  revert hr
  generalize List.range 128 = l
  intro hr
  induction l with
  | nil => simp
  | cons x xs ih =>
    obtain ⟨hx, hxs⟩ := List.pairwise_cons.mp hr
    simp only [List.filterMap_cons]
    split
    · exact ih hxs
    · rename_i ev hev
      simp only [List.map_cons, List.pairwise_cons]
      refine ⟨?_, ih hxs⟩
      intro v hv
      obtain ⟨e, he, rfl⟩ := List.mem_map.mp hv
      obtain ⟨no, hno, hno2⟩ := List.mem_filterMap.mp he
      have hxno := hx no hno
      split at hev
      · split at hev
        · simp at hev
        · simp only [Option.some.injEq] at hev; subst hev
          split at hno2
          · split at hno2
            · simp at hno2
            · simp only [Option.some.injEq] at hno2; subst hno2
              simp [ccEvent]; omega
          · simp at hno2
      · simp at hev

/-- notes that start before the point are omitted; the others keep their distance to the point -/
theorem C14_keep_law (p : Int) (e : Event) (hk : e.kind = .noteOn) :
    (e.time < p → keepOf p e = none) ∧ (p ≤ e.time → keepOf p e = some { e with time := e.time - p }) := by
  constructor
  · intro h; simp [keepOf, hk]; omega
  · intro h; simp [keepOf, hk]; omega

/-- with no play-from point (`play_from < 0`) nothing is touched -/
theorem C14_no_playfrom (tracks : List (List Event)) (pf : Int) (h : pf < 0) :
    songBodies pf tracks = tracks.map (fun es => genTrack (normalize es)) := by
  simp [songBodies, h]

-- non-vacuity
example : getTime 96 3 8 1 [2, 2, 5] = ((2 - 1 + 1) * 3 + (2 - 1)) * 48 + 5 := by decide
example : playFrom 10 [⟨.cc, 0, 1, 7, 100, 0, []⟩, ⟨.voice, 2, 1, 5, 0, 0, []⟩, ⟨.noteOn, 5, 1, 60, 10, 100, []⟩, ⟨.noteOn, 10, 1, 62, 10, 100, []⟩]
    = [⟨.cc, 0, 1, 7, 100, 0, []⟩, ⟨.voice, 0, 1, 5, 0, 0, []⟩, ⟨.noteOn, 0, 1, 62, 10, 100, []⟩] := by decide

end Sakura.Props.C14
