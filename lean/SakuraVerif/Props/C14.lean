import SakuraVerif.Model.Time
import SakuraVerif.Model.Smf
import SakuraVerif.Model.Messages
import SakuraVerif.Lemmas.Normalize
/-! # C14 — TIME, MeasureShift, rests and PlayFrom put events at the documented ticks

* `C14_time_formula`: `TIME(m:b:t)` = ((m−1+shift)·numerator + (b−1))·beat + t with
  beat = 4·timebase/denominator, for all arguments; `TIME(n)` = n.
* PlayFrom on event lists (model of `Track::play_from`, tied to the code by the correspondence):
  the result is the re-issued controller values and programs (channel by channel, controllers in number order), all at tick 0
  and **ahead of every remaining event**, followed by exactly the events kept by `keepOf` in time order (issue order within a
  tick): notes/programs/controllers at or after the point shifted by −p, meta/SysEx shifted and clamped at 0, everything
  before the point dropped.
* `C14_restores_latest_in_time` / `C14_restores_latest_program`: every re-issued value is the value of an event written before the
  point **on that channel** that no other such event is later than — the value in force at the point, even when the program
  wrote its events out of time order (`TIME` jumping back) or changed channel within the track.  (Before the repairs the scan
  ran in issue order and re-issued everything on the last channel seen.) -/
namespace Sakura.Props.C14
open Sakura Sakura.Time

/-- TIME(m:b:t) -/
theorem C14_time_formula (tb frac deno shift m b t : Int) :
    getTime tb frac deno shift [m, b, t] = ((m - 1 + shift) * frac + (b - 1)) * (Int.tdiv (tb * 4) deno) + t := by
  simp only [getTime, getTime3]
  generalize Int.tdiv (tb * 4) deno = base
  have h1 : (m + shift - 1) * (base * frac) = ((m - 1 + shift) * frac) * base := by
    rw [show m + shift - 1 = m - 1 + shift by omega, Int.mul_comm base frac, Int.mul_assoc]
  rw [h1]
  generalize (m - 1 + shift) * frac = A
  generalize b - 1 = B
  rw [Int.add_mul]

/-- TIME(n) is tick n -/
theorem C14_time_single (tb frac deno shift n : Int) : getTime tb frac deno shift [n] = n := rfl

/-- for the documented denominators the beat is 4·timebase/denominator exactly (floor = truncation) -/
theorem C14_beat (tb deno : Int) (htb : 0 ≤ tb) (hd : 0 < deno) : Int.tdiv (tb * 4) deno = tb * 4 / deno :=
  Int.tdiv_eq_ediv_of_nonneg (by omega)

/-- the time signature in force is clamped to 2..64 / {2,4,8,16} (else 4) -/
theorem C14_timesig_domain (d : Int) : timeSigDeno d = 2 ∨ timeSigDeno d = 4 ∨ timeSigDeno d = 8 ∨ timeSigDeno d = 16 := by
  unfold timeSigDeno
  simp only []
  split <;> (try (split <;> (try (split <;> (try split))))) <;> simp

/-! ## PlayFrom -/

/-- what happens to one event: `none` = dropped -/
def keepOf (p : Int) (e : Event) : Option Event :=
  match e.kind with
  | .metaEv | .sysex => some { e with time := if e.time - p < 0 then 0 else e.time - p }
  | .noteOn | .voice | .cc => if e.time - p < 0 then none else some { e with time := e.time - p }
  | _ => none

theorem out_step (p : Int) (a : PfAcc) (e : Event) :
    (pfStep p a e).out = (keepOf p e).toList ++ a.out := by
  unfold pfStep keepOf
  cases e.kind <;> simp <;> (try split) <;> (try split) <;> simp

theorem out_fold (p : Int) (es : List Event) (a : PfAcc) :
    (es.foldl (pfStep p) a).out.reverse = a.out.reverse ++ es.filterMap (keepOf p) := by
  induction es generalizing a with
  | nil => simp
  | cons e es ih =>
    rw [List.foldl_cons, ih, out_step]
    cases h : keepOf p e <;> simp [List.filterMap_cons, h]

/-- shape of the result: the restored values, then the kept events in time order -/
theorem C14_playFrom_shape (p : Int) (es : List Event) :
    playFrom p es = restoreAll (pfAcc p es) ++ (sortByTime es).filterMap (keepOf p) := by
  unfold playFrom
  rw [show (pfAcc p es).out.reverse = (sortByTime es).filterMap (keepOf p) from by
    unfold pfAcc; rw [out_fold]; simp]

/-- every re-issued event is a controller or program change at tick 0 whose value is the one remembered for its channel -/
theorem C14_restored_at_zero (a : PfAcc) :
    ∀ x ∈ restoreAll a, x.time = 0 ∧
      ((x.kind = .cc ∧ 0 ≤ x.ch ∧ 0 ≤ x.v1 ∧ a.cc.lookup (x.ch.toNat, x.v1.toNat) = some x.v2) ∨
       (x.kind = .voice ∧ 0 ≤ x.ch ∧ a.voice.lookup x.ch.toNat = some x.v1)) := by
  intro x hx
  unfold restoreAll at hx
  obtain ⟨l, hl, hxl⟩ := List.mem_flatten.mp hx
  obtain ⟨ch, _, rfl⟩ := List.mem_map.mp hl
  unfold restoreCh at hxl
  rcases List.mem_append.mp hxl with h | h
  · obtain ⟨no, _, hno⟩ := List.mem_filterMap.mp h
    split at hno
    · rename_i v hv
      split at hno
      · simp at hno
      · simp only [Option.some.injEq] at hno; subst hno
        refine ⟨rfl, Or.inl ⟨rfl, ?_, ?_, ?_⟩⟩
        · simp [ccEvent]
        · simp [ccEvent]
        · simpa [ccEvent] using hv
    · simp at hno
  · split at h
    · rename_i v hv
      split at h
      · simp only [List.mem_singleton] at h; subst h
        refine ⟨rfl, Or.inr ⟨rfl, ?_, ?_⟩⟩
        · simp [voiceEvent]
        · simpa [voiceEvent] using hv
      · simp at h
    · simp at h

/-! ### which value is remembered: the latest in time on that channel -/

theorem lookup_setKey {κ : Type} [BEq κ] [LawfulBEq κ] [DecidableEq κ] (l : List (κ × Int)) (k k' : κ) (v : Int) :
    (setKey l k v).lookup k' = if k' = k then some v else l.lookup k' := by
  unfold setKey
  by_cases h : k' = k
  · subst h; simp [List.lookup]
  · simp only [h, if_false]
    have hb : (k' == k) = false := by simpa using h
    simp only [List.lookup, hb]
    induction l with
    | nil => rfl
    | cons q r ih =>
      simp only [List.filter_cons]
      by_cases hq : q.1 = k
      · have : (q.1 == k) = true := by simpa using hq
        simp only [this, Bool.not_true]
        rw [if_neg (by simp)]
        rw [ih]
        have : (k' == q.1) = false := by rw [hq]; exact hb
        simp [List.lookup, this]
      · have : (q.1 == k) = false := by simpa using hq
        simp only [this, Bool.not_false, if_true]
        simp only [List.lookup]
        split
        · rfl
        · exact ih

/-- the controller events the scan remembers for key `(channel, controller)` -/
def isCcFor (p : Int) (k : Nat × Nat) (e : Event) : Bool :=
  decide (e.kind = .cc) && decide (e.time - p < 0) && decide (0 ≤ e.v1 ∧ e.v1 < 128 ∧ 0 ≤ e.ch ∧ e.ch < 16) && decide ((e.ch.toNat, e.v1.toNat) = k)
def isVoiceFor (p : Int) (k : Nat) (e : Event) : Bool :=
  decide (e.kind = .voice) && decide (e.time - p < 0) && decide (0 ≤ e.ch ∧ e.ch < 16) && decide (e.ch.toNat = k)

theorem cc_step (p : Int) (a : PfAcc) (e : Event) (k : Nat × Nat) :
    (pfStep p a e).cc.lookup k = if isCcFor p k e then some e.v2 else a.cc.lookup k := by
  by_cases hk : e.kind = .cc
  · unfold pfStep isCcFor
    simp only [hk]
    by_cases ht : e.time - p < 0
    · simp only [ht, if_true]
      by_cases hr : 0 ≤ e.v1 ∧ e.v1 < 128 ∧ 0 ≤ e.ch ∧ e.ch < 16
      · simp only [hr, and_self, if_true, lookup_setKey]
        by_cases hkk : k = (e.ch.toNat, e.v1.toNat)
        · subst hkk; simp
        · have : ¬ (e.ch.toNat, e.v1.toNat) = k := fun h => hkk h.symm
          simp [hkk, this]
      · simp [hr]
    · simp [ht]
  · have hf : isCcFor p k e = false := by simp [isCcFor, hk]
    have hc : (pfStep p a e).cc = a.cc := by
      unfold pfStep
      cases hk' : e.kind <;> simp only [] <;> (try rfl) <;> (try (split <;> (try split) <;> rfl))
      exact absurd hk' hk
    rw [hf, hc]; simp

theorem voice_step (p : Int) (a : PfAcc) (e : Event) (k : Nat) :
    (pfStep p a e).voice.lookup k = if isVoiceFor p k e then some e.v1 else a.voice.lookup k := by
  by_cases hk : e.kind = .voice
  · unfold pfStep isVoiceFor
    simp only [hk]
    by_cases ht : e.time - p < 0
    · simp only [ht, if_true]
      by_cases hr : 0 ≤ e.ch ∧ e.ch < 16
      · simp only [hr, and_self, if_true, lookup_setKey]
        by_cases hkk : k = e.ch.toNat
        · subst hkk; simp
        · have : ¬ e.ch.toNat = k := fun h => hkk h.symm
          simp [hkk, this]
      · simp [hr]
    · simp [ht]
  · have hf : isVoiceFor p k e = false := by simp [isVoiceFor, hk]
    have hc : (pfStep p a e).voice = a.voice := by
      unfold pfStep
      cases hk' : e.kind <;> simp only [] <;> (try rfl) <;> (try (split <;> (try split) <;> rfl))
      exact absurd hk' hk
    rw [hf, hc]; simp

theorem fold_last {β : Type} (step : PfAcc → Event → PfAcc) (get : PfAcc → Option β) (sel : Event → Bool) (val : Event → β)
    (hstep : ∀ a e, get (step a e) = if sel e then some (val e) else get a) (l : List Event) (a : PfAcc) :
    get (l.foldl step a) = match (l.filter sel).getLast? with | some e => some (val e) | none => get a := by
  induction l generalizing a with
  | nil => simp
  | cons e r ih =>
    rw [List.foldl_cons, ih, hstep]
    simp only [List.filter_cons]
    by_cases hs : sel e = true
    · simp only [hs, if_true]
      cases hr : (r.filter sel).getLast? with
      | none =>
        have : r.filter sel = [] := by simpa using hr
        simp [this]
      | some e' =>
        have hne : r.filter sel ≠ [] := by intro h; rw [h] at hr; simp at hr
        rw [List.getLast?_cons_of_ne_nil hne, hr]
    · have hs' : sel e = false := by simpa using hs
      rw [hs']
      simp only [Bool.false_eq_true, if_false]

/-- in a list in time order, the last selected event is not earlier than any selected event -/
theorem last_is_latest (l : List Event) (hs : l.Pairwise (fun a b => a.time ≤ b.time)) (sel : Event → Bool) (e : Event)
    (h : (l.filter sel).getLast? = some e) : e ∈ l ∧ sel e = true ∧ ∀ e' ∈ l, sel e' = true → e'.time ≤ e.time := by
  obtain ⟨ys, hys⟩ := List.getLast?_eq_some_iff.mp h
  have hmem : e ∈ l.filter sel := by rw [hys]; simp
  have hp : (l.filter sel).Pairwise (fun a b => a.time ≤ b.time) := hs.sublist List.filter_sublist
  rw [hys] at hp
  obtain ⟨_, _, hall⟩ := List.pairwise_append.mp hp
  refine ⟨(List.mem_filter.mp hmem).1, (List.mem_filter.mp hmem).2, ?_⟩
  intro e' he' hsel
  have : e' ∈ ys ++ [e] := by rw [← hys]; exact List.mem_filter.mpr ⟨he', hsel⟩
  rcases List.mem_append.mp this with h1 | h1
  · exact hall e' h1 e (by simp)
  · simp only [List.mem_singleton] at h1; subst h1; exact Int.le_refl _

theorem sortByTime_sorted (es : List Event) : (sortByTime es).Pairwise (fun a b => a.time ≤ b.time) := by
  have := List.pairwise_mergeSort timeLe_trans timeLe_total es
  simpa [timeLe, sortByTime] using this
theorem mem_sortByTime (es : List Event) (e : Event) : e ∈ sortByTime es ↔ e ∈ es :=
  (List.mergeSort_perm es timeLe).mem_iff

/-- **the controller value re-issued for a channel is the one in force at the point**: it was written on that channel before the
    point, and no controller event of the same number on that channel before the point is later in time -/
theorem C14_restores_latest_in_time (p : Int) (es : List Event) (ch no : Nat) (v : Int)
    (h : (pfAcc p es).cc.lookup (ch, no) = some v) :
    ∃ e ∈ es, e.kind = .cc ∧ e.ch = ch ∧ e.v1 = no ∧ e.v2 = v ∧ e.time < p ∧
      ∀ e' ∈ es, e'.kind = .cc → e'.ch = (ch : Int) → e'.v1 = (no : Int) → e'.time < p → e'.time ≤ e.time := by
  unfold pfAcc at h
  rw [fold_last (pfStep p) (fun a => a.cc.lookup (ch, no)) (isCcFor p (ch, no)) (·.v2) (fun a e => cc_step p a e (ch, no))] at h
  cases hl : ((sortByTime es).filter (isCcFor p (ch, no))).getLast? with
  | none => rw [hl] at h; simp at h
  | some e =>
    rw [hl] at h
    simp only [Option.some.injEq] at h
    obtain ⟨hm, hsel, hlate⟩ := last_is_latest _ (sortByTime_sorted es) _ e hl
    simp only [isCcFor, Bool.and_eq_true, decide_eq_true_eq, Prod.mk.injEq] at hsel
    obtain ⟨⟨⟨hk, ht⟩, hr⟩, hch, hno⟩ := hsel
    refine ⟨e, (mem_sortByTime es e).mp hm, hk, by omega, by omega, h, by omega, ?_⟩
    intro e' he' hk' hch' hno' ht'
    apply hlate e' ((mem_sortByTime es e').mpr he')
    simp only [isCcFor, Bool.and_eq_true, decide_eq_true_eq, Prod.mk.injEq]
    refine ⟨⟨⟨hk', by omega⟩, by omega⟩, by omega, by omega⟩

/-- the same for the program re-issued for a channel -/
theorem C14_restores_latest_program (p : Int) (es : List Event) (ch : Nat) (v : Int)
    (h : (pfAcc p es).voice.lookup ch = some v) :
    ∃ e ∈ es, e.kind = .voice ∧ e.ch = ch ∧ e.v1 = v ∧ e.time < p ∧
      ∀ e' ∈ es, e'.kind = .voice → e'.ch = (ch : Int) → e'.time < p → e'.time ≤ e.time := by
  unfold pfAcc at h
  rw [fold_last (pfStep p) (fun a => a.voice.lookup ch) (isVoiceFor p ch) (·.v1) (fun a e => voice_step p a e ch)] at h
  cases hl : ((sortByTime es).filter (isVoiceFor p ch)).getLast? with
  | none => rw [hl] at h; simp at h
  | some e =>
    rw [hl] at h
    simp only [Option.some.injEq] at h
    obtain ⟨hm, hsel, hlate⟩ := last_is_latest _ (sortByTime_sorted es) _ e hl
    simp only [isVoiceFor, Bool.and_eq_true, decide_eq_true_eq] at hsel
    obtain ⟨⟨⟨hk, ht⟩, hr⟩, hch⟩ := hsel
    refine ⟨e, (mem_sortByTime es e).mp hm, hk, by omega, h, by omega, ?_⟩
    intro e' he' hk' hch' ht'
    apply hlate e' ((mem_sortByTime es e').mpr he')
    simp only [isVoiceFor, Bool.and_eq_true, decide_eq_true_eq]
    refine ⟨⟨⟨hk', by omega⟩, by omega⟩, by omega⟩

/-- put together, on the file's events: every re-issued controller event carries, on its own channel, the value of the latest
    controller event of that number written on that channel before the point -/
theorem C14_reissued_controller_in_force (p : Int) (es : List Event) (x : Event) (hx : x ∈ restoreAll (pfAcc p es)) (hk : x.kind = .cc) :
    x.time = 0 ∧ ∃ e ∈ es, e.kind = .cc ∧ e.ch = x.ch ∧ e.v1 = x.v1 ∧ e.v2 = x.v2 ∧ e.time < p ∧
      ∀ e' ∈ es, e'.kind = .cc → e'.ch = x.ch → e'.v1 = x.v1 → e'.time < p → e'.time ≤ e.time := by
  obtain ⟨h0, hcase⟩ := C14_restored_at_zero (pfAcc p es) x hx
  rcases hcase with ⟨_, hch, hv1, hl⟩ | ⟨hv, _⟩
  · obtain ⟨e, he, h1, h2, h3, h4, h5, h6⟩ := C14_restores_latest_in_time p es _ _ _ hl
    refine ⟨h0, e, he, h1, by omega, by omega, h4, h5, ?_⟩
    intro e' he' hk' hc' hn' ht'
    exact h6 e' he' hk' (by omega) (by omega) ht'
  · rw [hk] at hv; cases hv

/-- notes that start before the point are omitted; the others keep their distance to the point -/
theorem C14_keep_law (p : Int) (e : Event) (hk : e.kind = .noteOn) :
    (e.time < p → keepOf p e = none) ∧ (p ≤ e.time → keepOf p e = some { e with time := e.time - p }) := by
  constructor
  · intro h; simp [keepOf, hk]; omega
  · intro h; simp [keepOf, hk]; omega

/-- with no play-from point (`play_from < 0`) nothing is touched -/
theorem C14_no_playfrom (tracks : List (List Event)) (pf : Int) (h : pf < 0) :
    songBodies pf tracks = tracks.map (fun es => genTrack (normalize es)) := by
  simp [songBodies, h]

-- non-vacuity
example : getTime 96 3 8 1 [2, 2, 5] = ((2 - 1 + 1) * 3 + (2 - 1)) * 48 + 5 := by decide
example : playFrom 10 [⟨.cc, 0, 1, 7, 100, 0, []⟩, ⟨.voice, 2, 1, 5, 0, 0, []⟩, ⟨.noteOn, 5, 1, 60, 10, 100, []⟩, ⟨.noteOn, 10, 1, 62, 10, 100, []⟩]
    = [⟨.cc, 0, 1, 7, 100, 0, []⟩, ⟨.voice, 0, 1, 5, 0, 0, []⟩, ⟨.noteOn, 0, 1, 62, 10, 100, []⟩] := by
  unfold playFrom pfAcc sortByTime
  rw [List.mergeSort_of_pairwise (by decide)]
  decide
-- two channels in one track, in time order: the value in force at tick 10 on channel 1 is 30 (tick 8), on channel 2 it is 99, each
-- re-issued on its own channel
example : playFrom 10 [⟨.cc, 2, 1, 7, 20, 0, []⟩, ⟨.cc, 3, 2, 7, 99, 0, []⟩, ⟨.cc, 8, 1, 7, 30, 0, []⟩, ⟨.noteOn, 10, 2, 62, 10, 100, []⟩]
    = [⟨.cc, 0, 1, 7, 30, 0, []⟩, ⟨.cc, 0, 2, 7, 99, 0, []⟩, ⟨.noteOn, 0, 2, 62, 10, 100, []⟩] := by
  unfold playFrom pfAcc sortByTime
  rw [List.mergeSort_of_pairwise (by decide)]
  decide

end Sakura.Props.C14
