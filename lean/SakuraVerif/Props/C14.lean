import SakuraVerif.Model.Time
import SakuraVerif.Model.Smf
import SakuraVerif.Model.Messages
import SakuraVerif.Lemmas.Normalize
import SakuraVerif.Lemmas.CoreShift
/-! # C14 — TIME, MeasureShift, rests and PlayFrom put events at the documented ticks

* `C14_time_formula`: `TIME(m:b:t)` = ((m−1+shift)·numerator + (b−1))·beat + t with
  beat = 4·timebase/denominator, for all arguments; `TIME(n)` = n.
* PlayFrom on event lists (model of `Track::play_from`, tied to the code by the correspondence):
  the result is the re-issued controller values and programs (channel by channel, controllers in number order), all at tick 0
  and **ahead of every remaining event**, followed by exactly the events kept by `keepOf` in time order (issue order within a
  tick): notes/programs/controllers at or after the point shifted by −p, meta/SysEx shifted and clamped at 0, everything
  before the point dropped.
* `C14_restores_latest_in_time` / `C14_restores_latest_program`: every re-issued value is the value of an event written before the
  point **on that channel** that no other such event is later than — the value in force at the point, even when the program
  wrote its events out of time order (`TIME` jumping back) or changed channel within the track.  (Before the repairs the scan
  ran in issue order and re-issued everything on the last channel seen.) -/
namespace Sakura.Props.C14
open Sakura Sakura.Time

/-- TIME(m:b:t) -/
theorem C14_time_formula (tb frac deno shift m b t : Int) :
    getTime tb frac deno shift [m, b, t] = ((m - 1 + shift) * frac + (b - 1)) * (Int.tdiv (tb * 4) deno) + t := by
  simp only [getTime, getTime3]
  generalize Int.tdiv (tb * 4) deno = base
  have h1 : (m + shift - 1) * (base * frac) = ((m - 1 + shift) * frac) * base := by
    rw [show m + shift - 1 = m - 1 + shift by omega, Int.mul_comm base frac, Int.mul_assoc]
  rw [h1]
  generalize (m - 1 + shift) * frac = A
  generalize b - 1 = B
  rw [Int.add_mul]

/-- TIME(n) is tick n -/
theorem C14_time_single (tb frac deno shift n : Int) : getTime tb frac deno shift [n] = n := rfl

/-- for the documented denominators the beat is 4·timebase/denominator exactly (floor = truncation) -/
theorem C14_beat (tb deno : Int) (htb : 0 ≤ tb) (hd : 0 < deno) : Int.tdiv (tb * 4) deno = tb * 4 / deno :=
  Int.tdiv_eq_ediv_of_nonneg (by omega)

/-- the time signature in force is clamped to 2..64 / {2,4,8,16} (else 4) -/
theorem C14_timesig_domain (d : Int) : timeSigDeno d = 2 ∨ timeSigDeno d = 4 ∨ timeSigDeno d = 8 ∨ timeSigDeno d = 16 := by
  unfold timeSigDeno
  simp only []
  split <;> (try (split <;> (try (split <;> (try split))))) <;> simp

/-! ## PlayFrom -/

/-- the meta / SysEx events among a list, moved to tick 0 -/
def metasAtZero (l : List Event) : List Event :=
  l.filterMap (fun e => if e.kind = .metaEv ∨ e.kind = .sysex then some { e with time := 0 } else none)

theorem out_step (a : PfAcc) (e : Event) : (pfStep a e).out = metasAtZero [e] ++ a.out := by
  unfold pfStep metasAtZero
  cases hk : e.kind <;> simp [hk] <;> (try split) <;> simp

theorem out_fold (es : List Event) (a : PfAcc) : (es.foldl pfStep a).out.reverse = a.out.reverse ++ metasAtZero es := by
  induction es generalizing a with
  | nil => simp [metasAtZero]
  | cons e es ih =>
    rw [List.foldl_cons, ih, out_step]
    simp [metasAtZero, List.filterMap_cons]
    split <;> simp

/-- shape of the result: the values in force at the point, the meta/SysEx events from before the point (tick 0, time order), then
    the events at or after the point — shifted, in the order they were issued -/
theorem C14_playFrom_shape (p : Int) (es : List Event) :
    playFrom p es = restoreAll (pfAcc p es) ++ metasAtZero (pfBefore p es) ++
      (es.filter (fun e => decide (¬ e.time < p))).filterMap (pfKeep p) := by
  unfold playFrom
  rw [show (pfAcc p es).out.reverse = metasAtZero (pfBefore p es) from by unfold pfAcc; rw [out_fold]; simp]

/-- every re-issued event is a controller or program change at tick 0 whose value is the one remembered for its channel -/
theorem C14_restored_at_zero (a : PfAcc) :
    ∀ x ∈ restoreAll a, x.time = 0 ∧
      ((x.kind = .cc ∧ 0 ≤ x.ch ∧ 0 ≤ x.v1 ∧ a.cc.lookup (x.ch.toNat, x.v1.toNat) = some x.v2) ∨
       (x.kind = .voice ∧ 0 ≤ x.ch ∧ a.voice.lookup x.ch.toNat = some x.v1)) := by
  intro x hx
  unfold restoreAll at hx
  obtain ⟨l, hl, hxl⟩ := List.mem_flatten.mp hx
  obtain ⟨ch, _, rfl⟩ := List.mem_map.mp hl
  unfold restoreCh at hxl
  rcases List.mem_append.mp hxl with h | h
  · obtain ⟨no, _, hno⟩ := List.mem_filterMap.mp h
    split at hno
    · rename_i v hv
      split at hno
      · simp at hno
      · simp only [Option.some.injEq] at hno; subst hno
        refine ⟨rfl, Or.inl ⟨rfl, ?_, ?_, ?_⟩⟩
        · simp [ccEvent]
        · simp [ccEvent]
        · simpa [ccEvent] using hv
    · simp at hno
  · split at h
    · rename_i v hv
      split at h
      · simp only [List.mem_singleton] at h; subst h
        refine ⟨rfl, Or.inr ⟨rfl, ?_, ?_⟩⟩
        · simp [voiceEvent]
        · simpa [voiceEvent] using hv
      · simp at h
    · simp at h

/-- **the re-issued events depend on the remembered values only, not on the order in which they were remembered**: two scans that
    remember the same value for every (channel, controller) and the same program for every channel re-issue the same list — channel
    by channel, controllers in number order, then the program (the code walks a dense table; an iteration over a hash map here would
    make the file depend on hash seeding, C08) -/
theorem C14_reissue_order_canonical (a b : PfAcc) (hcc : ∀ k, a.cc.lookup k = b.cc.lookup k) (hv : ∀ k, a.voice.lookup k = b.voice.lookup k) :
    restoreAll a = restoreAll b := by
  unfold restoreAll restoreCh
  simp only [hcc, hv]

/-- within one channel the re-issued controllers come in controller-number order, each number once -/
theorem C14_restored_order (a : PfAcc) (ch : Nat) :
    (((List.range 128).filterMap (fun no =>
      match a.cc.lookup (ch, no) with
      | some v => if v < 0 then none else some (ccEvent ch no v)
      | none => none)).map (·.v1)).Pairwise (· < ·) := by
  have hr : (List.range 128).Pairwise (· < ·) := List.pairwise_lt_range
  revert hr
  generalize List.range 128 = l
  intro hr
  induction l with
  | nil => simp
  | cons x xs ih =>
    obtain ⟨hx, hxs⟩ := List.pairwise_cons.mp hr
    simp only [List.filterMap_cons]
    split
    · exact ih hxs
    · rename_i ev hev
      simp only [List.map_cons, List.pairwise_cons]
      refine ⟨?_, ih hxs⟩
      intro v hv
      obtain ⟨e, he, rfl⟩ := List.mem_map.mp hv
      obtain ⟨no, hno, hno2⟩ := List.mem_filterMap.mp he
      have hxno := hx no hno
      split at hev
      · split at hev
        · simp at hev
        · simp only [Option.some.injEq] at hev; subst hev
          split at hno2
          · split at hno2
            · simp at hno2
            · simp only [Option.some.injEq] at hno2; subst hno2
              simp [ccEvent]; omega
          · simp at hno2
      · simp at hev

/-! ### which value is remembered: the latest in time on that channel -/

theorem lookup_setKey {κ : Type} [BEq κ] [LawfulBEq κ] [DecidableEq κ] (l : List (κ × Int)) (k k' : κ) (v : Int) :
    (setKey l k v).lookup k' = if k' = k then some v else l.lookup k' := by
  unfold setKey
  by_cases h : k' = k
  · subst h; simp [List.lookup]
  · simp only [h, if_false]
    have hb : (k' == k) = false := by simpa using h
    simp only [List.lookup, hb]
    induction l with
    | nil => rfl
    | cons q r ih =>
      simp only [List.filter_cons]
      by_cases hq : q.1 = k
      · have : (q.1 == k) = true := by simpa using hq
        simp only [this, Bool.not_true]
        rw [if_neg (by simp)]
        rw [ih]
        have : (k' == q.1) = false := by rw [hq]; exact hb
        simp [List.lookup, this]
      · have : (q.1 == k) = false := by simpa using hq
        simp only [this, Bool.not_false, if_true]
        simp only [List.lookup]
        split
        · rfl
        · exact ih

/-- the controller events the scan remembers for key `(channel, controller)` -/
def isCcFor (k : Nat × Nat) (e : Event) : Bool :=
  decide (e.kind = .cc) && decide (0 ≤ e.v1 ∧ e.v1 < 128 ∧ 0 ≤ e.ch ∧ e.ch < 16) && decide ((e.ch.toNat, e.v1.toNat) = k)
def isVoiceFor (k : Nat) (e : Event) : Bool :=
  decide (e.kind = .voice) && decide (0 ≤ e.ch ∧ e.ch < 16) && decide (e.ch.toNat = k)

theorem cc_step (a : PfAcc) (e : Event) (k : Nat × Nat) :
    (pfStep a e).cc.lookup k = if isCcFor k e then some e.v2 else a.cc.lookup k := by
  by_cases hk : e.kind = .cc
  · unfold pfStep isCcFor
    simp only [hk]
    by_cases hr : 0 ≤ e.v1 ∧ e.v1 < 128 ∧ 0 ≤ e.ch ∧ e.ch < 16
    · simp only [hr, and_self, if_true, lookup_setKey]
      by_cases hkk : k = (e.ch.toNat, e.v1.toNat)
      · subst hkk; simp
      · have : ¬ (e.ch.toNat, e.v1.toNat) = k := fun h => hkk h.symm
        simp [hkk, this]
    · simp [hr]
  · have hf : isCcFor k e = false := by simp [isCcFor, hk]
    have hc : (pfStep a e).cc = a.cc := by
      unfold pfStep
      cases hk' : e.kind <;> simp only [] <;> (try rfl) <;> (try (split <;> rfl))
      exact absurd hk' hk
    rw [hf, hc]; simp

theorem voice_step (a : PfAcc) (e : Event) (k : Nat) :
    (pfStep a e).voice.lookup k = if isVoiceFor k e then some e.v1 else a.voice.lookup k := by
  by_cases hk : e.kind = .voice
  · unfold pfStep isVoiceFor
    simp only [hk]
    by_cases hr : 0 ≤ e.ch ∧ e.ch < 16
    · simp only [hr, and_self, if_true, lookup_setKey]
      by_cases hkk : k = e.ch.toNat
      · subst hkk; simp
      · have : ¬ e.ch.toNat = k := fun h => hkk h.symm
        simp [hkk, this]
    · simp [hr]
  · have hf : isVoiceFor k e = false := by simp [isVoiceFor, hk]
    have hc : (pfStep a e).voice = a.voice := by
      unfold pfStep
      cases hk' : e.kind <;> simp only [] <;> (try rfl) <;> (try (split <;> rfl))
      exact absurd hk' hk
    rw [hf, hc]; simp

theorem fold_last {β : Type} (step : PfAcc → Event → PfAcc) (get : PfAcc → Option β) (sel : Event → Bool) (val : Event → β)
    (hstep : ∀ a e, get (step a e) = if sel e then some (val e) else get a) (l : List Event) (a : PfAcc) :
    get (l.foldl step a) = match (l.filter sel).getLast? with | some e => some (val e) | none => get a := by
  induction l generalizing a with
  | nil => simp
  | cons e r ih =>
    rw [List.foldl_cons, ih, hstep]
    simp only [List.filter_cons]
    by_cases hs : sel e = true
    · simp only [hs, if_true]
      cases hr : (r.filter sel).getLast? with
      | none =>
        have : r.filter sel = [] := by simpa using hr
        simp [this]
      | some e' =>
        have hne : r.filter sel ≠ [] := by intro h; rw [h] at hr; simp at hr
        rw [List.getLast?_cons_of_ne_nil hne, hr]
    · have hs' : sel e = false := by simpa using hs
      rw [hs']
      simp only [Bool.false_eq_true, if_false]

/-- in a list in time order, the last selected event is not earlier than any selected event -/
theorem last_is_latest (l : List Event) (hs : l.Pairwise (fun a b => a.time ≤ b.time)) (sel : Event → Bool) (e : Event)
    (h : (l.filter sel).getLast? = some e) : e ∈ l ∧ sel e = true ∧ ∀ e' ∈ l, sel e' = true → e'.time ≤ e.time := by
  obtain ⟨ys, hys⟩ := List.getLast?_eq_some_iff.mp h
  have hmem : e ∈ l.filter sel := by rw [hys]; simp
  have hp : (l.filter sel).Pairwise (fun a b => a.time ≤ b.time) := hs.sublist List.filter_sublist
  rw [hys] at hp
  obtain ⟨_, _, hall⟩ := List.pairwise_append.mp hp
  refine ⟨(List.mem_filter.mp hmem).1, (List.mem_filter.mp hmem).2, ?_⟩
  intro e' he' hsel
  have : e' ∈ ys ++ [e] := by rw [← hys]; exact List.mem_filter.mpr ⟨he', hsel⟩
  rcases List.mem_append.mp this with h1 | h1
  · exact hall e' h1 e (by simp)
  · simp only [List.mem_singleton] at h1; subst h1; exact Int.le_refl _

theorem pfBefore_sorted (p : Int) (es : List Event) : (pfBefore p es).Pairwise (fun a b => a.time ≤ b.time) := by
  have := List.pairwise_mergeSort timeLe_trans timeLe_total (es.filter (fun e => decide (e.time < p)))
  simpa [timeLe, pfBefore, sortByTime] using this
theorem mem_pfBefore (p : Int) (es : List Event) (e : Event) : e ∈ pfBefore p es ↔ e ∈ es ∧ e.time < p := by
  unfold pfBefore sortByTime
  rw [(List.mergeSort_perm _ timeLe).mem_iff, List.mem_filter]
  simp

/-- **the controller value re-issued for a channel is the one in force at the point**: it was written on that channel before the
    point, and no controller event of the same number on that channel before the point is later in time -/
theorem C14_restores_latest_in_time (p : Int) (es : List Event) (ch no : Nat) (v : Int)
    (h : (pfAcc p es).cc.lookup (ch, no) = some v) :
    ∃ e ∈ es, e.kind = .cc ∧ e.ch = ch ∧ e.v1 = no ∧ e.v2 = v ∧ e.time < p ∧
      ∀ e' ∈ es, e'.kind = .cc → e'.ch = (ch : Int) → e'.v1 = (no : Int) → e'.time < p → e'.time ≤ e.time := by
  unfold pfAcc at h
  rw [fold_last pfStep (fun a => a.cc.lookup (ch, no)) (isCcFor (ch, no)) (·.v2) (fun a e => cc_step a e (ch, no))] at h
  cases hl : ((pfBefore p es).filter (isCcFor (ch, no))).getLast? with
  | none => rw [hl] at h; simp at h
  | some e =>
    rw [hl] at h
    simp only [Option.some.injEq] at h
    obtain ⟨hm, hsel, hlate⟩ := last_is_latest _ (pfBefore_sorted p es) _ e hl
    simp only [isCcFor, Bool.and_eq_true, decide_eq_true_eq, Prod.mk.injEq] at hsel
    obtain ⟨⟨hk, hr⟩, hch, hno⟩ := hsel
    obtain ⟨hmem, ht⟩ := (mem_pfBefore p es e).mp hm
    refine ⟨e, hmem, hk, by omega, by omega, h, ht, ?_⟩
    intro e' he' hk' hch' hno' ht'
    apply hlate e' ((mem_pfBefore p es e').mpr ⟨he', ht'⟩)
    simp only [isCcFor, Bool.and_eq_true, decide_eq_true_eq, Prod.mk.injEq]
    refine ⟨⟨hk', by omega⟩, by omega, by omega⟩

/-- the same for the program re-issued for a channel -/
theorem C14_restores_latest_program (p : Int) (es : List Event) (ch : Nat) (v : Int)
    (h : (pfAcc p es).voice.lookup ch = some v) :
    ∃ e ∈ es, e.kind = .voice ∧ e.ch = ch ∧ e.v1 = v ∧ e.time < p ∧
      ∀ e' ∈ es, e'.kind = .voice → e'.ch = (ch : Int) → e'.time < p → e'.time ≤ e.time := by
  unfold pfAcc at h
  rw [fold_last pfStep (fun a => a.voice.lookup ch) (isVoiceFor ch) (·.v1) (fun a e => voice_step a e ch)] at h
  cases hl : ((pfBefore p es).filter (isVoiceFor ch)).getLast? with
  | none => rw [hl] at h; simp at h
  | some e =>
    rw [hl] at h
    simp only [Option.some.injEq] at h
    obtain ⟨hm, hsel, hlate⟩ := last_is_latest _ (pfBefore_sorted p es) _ e hl
    simp only [isVoiceFor, Bool.and_eq_true, decide_eq_true_eq] at hsel
    obtain ⟨⟨hk, hr⟩, hch⟩ := hsel
    obtain ⟨hmem, ht⟩ := (mem_pfBefore p es e).mp hm
    refine ⟨e, hmem, hk, by omega, h, ht, ?_⟩
    intro e' he' hk' hch' ht'
    apply hlate e' ((mem_pfBefore p es e').mpr ⟨he', ht'⟩)
    simp only [isVoiceFor, Bool.and_eq_true, decide_eq_true_eq]
    refine ⟨⟨hk', by omega⟩, by omega⟩

/-- put together, on the file's events: every re-issued controller event carries, on its own channel, the value of the latest
    controller event of that number written on that channel before the point -/
theorem C14_reissued_controller_in_force (p : Int) (es : List Event) (x : Event) (hx : x ∈ restoreAll (pfAcc p es)) (hk : x.kind = .cc) :
    x.time = 0 ∧ ∃ e ∈ es, e.kind = .cc ∧ e.ch = x.ch ∧ e.v1 = x.v1 ∧ e.v2 = x.v2 ∧ e.time < p ∧
      ∀ e' ∈ es, e'.kind = .cc → e'.ch = x.ch → e'.v1 = x.v1 → e'.time < p → e'.time ≤ e.time := by
  obtain ⟨h0, hcase⟩ := C14_restored_at_zero (pfAcc p es) x hx
  rcases hcase with ⟨_, hch, hv1, hl⟩ | ⟨hv, _⟩
  · obtain ⟨e, he, h1, h2, h3, h4, h5, h6⟩ := C14_restores_latest_in_time p es _ _ _ hl
    refine ⟨h0, e, he, h1, by omega, by omega, h4, h5, ?_⟩
    intro e' he' hk' hc' hn' ht'
    exact h6 e' he' hk' (by omega) (by omega) ht'
  · rw [hk] at hv; cases hv

/-- the notes of the result are exactly the notes at or after the point, each at its distance to the point (notes that start before
    the point are omitted, nothing else becomes a note) -/
theorem C14_keep_law (p : Int) (es : List Event) :
    (∀ x ∈ playFrom p es, x.kind = .noteOn → ∃ e ∈ es, e.kind = .noteOn ∧ p ≤ e.time ∧ x = { e with time := e.time - p }) ∧
    (∀ e ∈ es, e.kind = .noteOn → p ≤ e.time → { e with time := e.time - p } ∈ playFrom p es) := by
  rw [C14_playFrom_shape]
  constructor
  · intro x hx hk
    rcases List.mem_append.mp hx with h | h
    · rcases List.mem_append.mp h with h | h
      · rcases (C14_restored_at_zero _ x h).2 with ⟨hc, _⟩ | ⟨hc, _⟩ <;> rw [hk] at hc <;> cases hc
      · unfold metasAtZero at h
        obtain ⟨e, _, he⟩ := List.mem_filterMap.mp h
        split at he
        · rename_i hm
          simp only [Option.some.injEq] at he; subst he
          rcases hm with hm | hm <;> simp only [] at hk <;> rw [hk] at hm <;> cases hm
        · cases he
    · obtain ⟨e, he, hke⟩ := List.mem_filterMap.mp h
      obtain ⟨hmem, ht⟩ := List.mem_filter.mp he
      simp only [decide_eq_true_eq] at ht
      unfold pfKeep at hke
      cases hk' : e.kind
      all_goals simp only [hk'] at hke
      case noteOn =>
        simp only [Option.some.injEq] at hke
        refine ⟨e, hmem, hk', by omega, ?_⟩
        rw [← hke, hk']
      all_goals first
        | (cases hke; done)
        | (simp only [Option.some.injEq] at hke; subst hke; simp [hk'] at hk)
  · intro e he hk ht
    apply List.mem_append_right
    refine List.mem_filterMap.mpr ⟨e, List.mem_filter.mpr ⟨he, by simp only [decide_eq_true_eq]; omega⟩, ?_⟩
    simp [pfKeep, hk]

/-- the events at or after the point come last, shifted, in the order they were issued -/
theorem C14_kept_in_issue_order (p : Int) (es : List Event) :
    (es.filter (fun e => decide (¬ e.time < p))).filterMap (pfKeep p) <:+ playFrom p es := by
  rw [C14_playFrom_shape]
  exact List.suffix_append _ _

/-- **the re-issued values take effect before the first remaining note, in the file**: in the event sequence the writer encodes
    for a track (`normalize`: note-offs made, stable sort by tick) every re-issued controller / program event stands before every
    remaining note-on — they are at tick 0 and were put in front, and the sort is stable.  (`sort_by` is modelled by the stable
    `List.mergeSort`; an unstable sort breaks exactly this, which the `pfmidi` stream watches in the real files.) -/
theorem C14_reissued_before_notes (p : Int) (es : List Event) (x e : Event) (hx : x ∈ restoreAll (pfAcc p es))
    (he : e ∈ es) (hk : e.kind = .noteOn) (ht : p ≤ e.time) :
    List.Sublist [x, { e with time := e.time - p }] (normalize (playFrom p es)) := by
  have hx0 : x.time = 0 := (C14_restored_at_zero _ x hx).1
  have hmem : ({ e with time := e.time - p } : Event) ∈ (es.filter (fun e => decide (¬ e.time < p))).filterMap (pfKeep p) :=
    List.mem_filterMap.mpr ⟨e, List.mem_filter.mpr ⟨he, by simp only [decide_eq_true_eq]; omega⟩, by simp [pfKeep, hk]⟩
  -- x stands before the kept note in the list handed to the writer
  have hsub : List.Sublist [x, { e with time := e.time - p }] (playFrom p es) := by
    rw [C14_playFrom_shape, List.append_assoc]
    have h1 : List.Sublist [x] (restoreAll (pfAcc p es)) := List.singleton_sublist.mpr hx
    have h2 : List.Sublist [({ e with time := e.time - p } : Event)] (metasAtZero (pfBefore p es) ++ (es.filter (fun e => decide (¬ e.time < p))).filterMap (pfKeep p)) :=
      List.singleton_sublist.mpr (List.mem_append_right _ hmem)
    exact List.Sublist.append h1 h2
  exact normalize_stable _ _ _ (by simp only [hx0]; omega) (hsub.trans (split_keeps_order _))

/-- with no play-from point (`play_from < 0`) nothing is touched -/
theorem C14_no_playfrom (tracks : List (List Event)) (pf : Int) (h : pf < 0) :
    songBodies pf tracks = tracks.map (fun es => genTrack (normalize es)) := by
  simp [songBodies, h]

-- non-vacuity
example : getTime 96 3 8 1 [2, 2, 5] = ((2 - 1 + 1) * 3 + (2 - 1)) * 48 + 5 := by decide
example : playFrom 10 [⟨.cc, 0, 1, 7, 100, 0, []⟩, ⟨.voice, 2, 1, 5, 0, 0, []⟩, ⟨.noteOn, 5, 1, 60, 10, 100, []⟩, ⟨.noteOn, 10, 1, 62, 10, 100, []⟩]
    = [⟨.cc, 0, 1, 7, 100, 0, []⟩, ⟨.voice, 0, 1, 5, 0, 0, []⟩, ⟨.noteOn, 0, 1, 62, 10, 100, []⟩] := by
  have hb : pfBefore 10 [⟨.cc, 0, 1, 7, 100, 0, []⟩, ⟨.voice, 2, 1, 5, 0, 0, []⟩, ⟨.noteOn, 5, 1, 60, 10, 100, []⟩, ⟨.noteOn, 10, 1, 62, 10, 100, []⟩]
      = [⟨.cc, 0, 1, 7, 100, 0, []⟩, ⟨.voice, 2, 1, 5, 0, 0, []⟩, ⟨.noteOn, 5, 1, 60, 10, 100, []⟩] := by
    unfold pfBefore sortByTime
    rw [show List.filter _ _ = [(⟨.cc, 0, 1, 7, 100, 0, []⟩ : Event), ⟨.voice, 2, 1, 5, 0, 0, []⟩, ⟨.noteOn, 5, 1, 60, 10, 100, []⟩] from by decide]
    exact List.mergeSort_of_pairwise (by decide)
  unfold playFrom pfAcc
  rw [hb]
  decide
-- two channels in one track, written out of time order: the value in force at tick 10 on channel 1 is 30 (tick 8), not 20 (written
-- last, at tick 2); on channel 2 it is 99; each re-issued on its own channel; the controller at tick 12 stays behind the note it was
-- written after
example : playFrom 10 [⟨.cc, 8, 1, 7, 30, 0, []⟩, ⟨.cc, 3, 2, 7, 99, 0, []⟩, ⟨.noteOn, 12, 2, 62, 10, 100, []⟩, ⟨.cc, 12, 2, 1, 5, 0, []⟩, ⟨.cc, 2, 1, 7, 20, 0, []⟩]
    = [⟨.cc, 0, 1, 7, 30, 0, []⟩, ⟨.cc, 0, 2, 7, 99, 0, []⟩, ⟨.noteOn, 2, 2, 62, 10, 100, []⟩, ⟨.cc, 2, 2, 1, 5, 0, []⟩] := by
  have hb : pfBefore 10 [⟨.cc, 8, 1, 7, 30, 0, []⟩, ⟨.cc, 3, 2, 7, 99, 0, []⟩, ⟨.noteOn, 12, 2, 62, 10, 100, []⟩, ⟨.cc, 12, 2, 1, 5, 0, []⟩, ⟨.cc, 2, 1, 7, 20, 0, []⟩]
      = [⟨.cc, 2, 1, 7, 20, 0, []⟩, ⟨.cc, 3, 2, 7, 99, 0, []⟩, ⟨.cc, 8, 1, 7, 30, 0, []⟩] := by
    unfold pfBefore sortByTime
    rw [show List.filter _ _ = [(⟨.cc, 8, 1, 7, 30, 0, []⟩ : Event), ⟨.cc, 3, 2, 7, 99, 0, []⟩, ⟨.cc, 2, 1, 7, 20, 0, []⟩] from by decide]
    simp [List.mergeSort, List.MergeSort.Internal.splitInTwo, List.merge, timeLe]
  unfold playFrom pfAcc
  rw [hb]
  decide

/-! ## a leading rest (on `Spec.Core.sem`, the semantics the compiler is compared with on every run) -/

/-- **nothing in the core language reads the absolute position**: every program without `TR` / `PLAY` (notes, chords, tuplets, `Sub`,
    loops with `:`, settings, `TrackSync` … at any depth) run in a state moved `L` ticks later (`shSt`: pointers, written notes, an
    open chord) ends in the state it ends in otherwise, moved `L` ticks later -/
theorem C14_shift_commutes (L : Int) (cs : List Core.Cmd) (hk : Core.okL cs = true) (s : Core.St) (h : s.WF) :
    Core.semL cs (Core.shSt L s) = Core.shSt L (Core.semL cs s) :=
  Core.semL_sh L cs s hk h

/-- **inserting a rest of length L before a program shifts every later event by exactly L and changes nothing else**: on a fresh
    single-track song, `r<len>` followed by the program ends in the state of the program alone moved by the rest's length — every
    note the same note `L` ticks later, every pointer `L` ticks later, all settings the same -/
theorem C14_leading_rest_shifts (len : Option Core.LenExpr) (cs : List Core.Cmd) (hk : Core.okL cs = true) (s : Core.St) (t : Core.Trk)
    (hs : s.tr = [t]) (ht : t.ev = []) (hc : s.cur = 0) (hh : s.harm = none) :
    Core.semL (.rest len 1 :: cs) s = Core.shSt (Core.lenOpt s.tb t.l len) (Core.semL cs s) :=
  Core.leading_rest_shifts len cs hk s t hs ht hc hh

/-- what the move does to a track: the pointer and every note `L` later, nothing else touched -/
theorem C14_shift_spec (L : Int) (t : Core.Trk) :
    (Core.shTrk L t).tp = t.tp + L ∧ (Core.shTrk L t).ev = t.ev.map (fun e => { e with time := e.time + L }) ∧
      (Core.shTrk L t).ch = t.ch ∧ (Core.shTrk L t).l = t.l ∧ (Core.shTrk L t).o = t.o ∧ (Core.shTrk L t).v = t.v ∧
      (Core.shTrk L t).q = t.q ∧ (Core.shTrk L t).t = t.t ∧ (Core.shTrk L t).key = t.key :=
  ⟨rfl, rfl, rfl, rfl, rfl, rfl, rfl, rfl, rfl⟩

-- non-vacuity: the initial song is such a fresh single-track song; a program with a chord, a tuplet and a loop is admitted
example : Core.St.init.tr = [Core.newTrk 96 0] ∧ (Core.newTrk 96 0).ev = [] ∧ Core.St.init.cur = 0 ∧ Core.St.init.harm = none := ⟨rfl, rfl, rfl, rfl⟩
example : Core.okL [.chord [.note 0 0 false none none none none none] none none none,
    .div [.rest none 1, .loop 2 [.noteN 60 none none none none] true [.setO 4]] none, .trackSync] = true := by decide

end Sakura.Props.C14
