import SakuraVerif.Spec.Core
import SakuraVerif.Lemmas.ExecNote
import SakuraVerif.Gen.Consts
import SakuraVerif.Lemmas.ExecRefine
import SakuraVerif.Lemmas.LexPrint
import SakuraVerif.Lemmas.LexPrint2
/-! # C03 (T0) — defaults, clamps and single-command laws of the core note language

`Spec.Core.sem` is the denotational semantics the real compiler is compared with on every run.
The theorems below pin its documented constants to the values regenerated from the Rust source
(`Track::new`, `Song::new`), so a changed default in the code breaks an obligation, and state the
single-command laws: pitch formula, gate, velocity clamp, pointer advance independent of gate,
`(`/`)` step, octave/velocity/gate clamps, transposition. -/
namespace Sakura.Props.C03
open Sakura.Core

/-- documented defaults = the numerals in `Spec.Core` = the values in the source -/
theorem C03_defaults :
    (newTrk 96 0).o = 5 ∧ (newTrk 96 0).v = 100 ∧ (newTrk 96 0).q = 90 ∧ (newTrk 96 0).l = 96 ∧ (newTrk 96 0).t = 0 ∧
    St.init.tb = 96 ∧ St.init.vAdd = 8 ∧
    Gen.trackNew_octave = 5 ∧ Gen.trackNew_velocity = 100 ∧ Gen.trackNew_qlen = 90 ∧ Gen.trackNew_length = 96 ∧
    Gen.trackNew_timing = 0 ∧ Gen.songNew_timebase = 96 ∧ Gen.songNew_v_add = 8 ∧ Gen.songNew_key_shift = 0 ∧
    Gen.trackNew_track_key = 0 := by decide

/-- note letters → semitones as in `read_note` -/
theorem C03_note_letters : Gen.noteLetters = [(99, 0), (100, 2), (101, 4), (102, 5), (103, 7), (97, 9), (98, 11)] := rfl

/-- default channel = track number (1-based), clamped to the 16 MIDI channels -/
theorem C03_default_channel (tb : Int) (i : Nat) :
    (newTrk tb i).ch = (if i ≤ 1 then 0 else if i ≥ 17 then 15 else (i : Int) - 1) := by
  simp only [newTrk, clamp]
  split <;> split <;> (try split) <;> omega

/-- the time pointer advances by the full length whatever the gate, and the duration is len·q/100 -/
theorem C03_note_advances (s : St) (key ln q v tm : Int) :
    (noteOn s key ln q v tm).2.t.tp = s.t.tp + ln ∨ s.cur ≥ s.tr.length := by
  by_cases h : s.cur < s.tr.length
  · left
    simp [noteOn, St.t, St.setT, List.getD, List.getElem?_set, h]
  · right; omega

theorem C03_note_event (s : St) (key ln q v tm : Int) :
    (noteOn s key ln q v tm).1 = ⟨s.t.tp + tm, s.t.ch, key, gate ln q, clamp 0 v 127⟩ := rfl

theorem C03_gate_90 (ln : Int) (h : 0 ≤ ln) : gate ln 90 = ln * 90 / 100 := by
  unfold gate tdiv
  simp only [show ¬ ((100:Int) = 0) by decide, if_false]
  exact Int.tdiv_eq_ediv_of_nonneg (by omega)

/-- clamps of o, v, q and the `(` `)` step -/
theorem C03_clamp_range (lo hi v : Int) (h : lo ≤ hi) : lo ≤ clamp lo v hi ∧ clamp lo v hi ≤ hi ∧ (lo ≤ v → v ≤ hi → clamp lo v hi = v) := by
  unfold clamp; refine ⟨?_, ?_, ?_⟩ <;> (try intro _ _) <;> split <;> (try split) <;> omega

-- non-vacuity / concrete readings of the laws on the semantics itself
example : (semL [.setV 10, .velRel 1, .note 0 0 false none none none none none] St.init).t.ev = [⟨0, 0, 60, 86, 18⟩] := by decide
example : (semL [.setO 10, .note 11 0 false none none none none none] St.init).t.ev = [⟨0, 0, 131, 86, 100⟩] := by decide
example : (semL [.keyShift 2, .note 0 1 false none (some 50) (some 200) (some 3) (some 4)] St.init).t.ev = [⟨3, 0, 51, 48, 127⟩] := by decide

/-! ## the runner refines the semantics (T1)

`Ex2.exec` is the literal model of `runner::exec` (tied to the code on every run by the `exec`
stream, on the real lexer's token lists); `Ex2.compileL` writes a program as the token list the
lexer produces for it; `Ex2.abs` forgets the runner-level detail.  For **every** well-formed program
— any nesting of loops with `:`, `Sub`, tuplets, chords, on any tracks — the run of the token machine
ends in the state the one-page semantics assigns to the program. -/

theorem C03_exec_refines_sem (cs : List Cmd) (hw : Ex2.cwfL cs) :
    ∃ F0, ∀ F, F0 ≤ F → ∃ s', Ex2.exec F (Ex2.depthL cs) (Ex2.compileL cs) {} = some s' ∧ Ex2.abs s' = semL cs St.init :=
  Ex2.exec_refines_sem_init cs hw

/-- from any reachable state (invariant of compiled programs, outside a chord) -/
theorem C03_exec_refines_sem_from (cs : List Cmd) (hw : Ex2.cwfL cs) :
    ∃ F0, ∀ F, F0 ≤ F → ∀ s, Ex2.Inv s → s.harmonyFlag = false →
      ∃ s', Ex2.exec F (Ex2.depthL cs) (Ex2.compileL cs) s = some s' ∧ Ex2.abs s' = semL cs (Ex2.abs s) ∧ Ex2.Inv s' :=
  Ex2.exec_refines_sem cs hw

-- non-vacuity: a nested program that meets the well-formedness premise, and the machine run on its compiled tokens
def demoProg : List Cmd :=
  [.setL (some ⟨⟨false, false, [56], 0⟩, []⟩),
   .loop 2 [.note 0 0 false none none none none none, .sub [.note 4 0 false none none none none none]] true [.octRel 1],
   .div [.note 2 0 false none none none none none, .rest none 1] (some ⟨⟨false, false, [52], 0⟩, []⟩),
   .chord [.note 0 0 false none none none none none, .note 7 1 false none none none none none] none (some 50) none,
   .track 2, .noteN 60 none (some 80) none (some 3)]

example : Ex2.cwfL demoProg := by
  simp [demoProg, Ex2.cwfL, Ex2.cwf, Ex2.noteWF, Ex2.lenOK, Ex2.simple, Len.isDigit, Len.render, Len.segs, Lx.intMin]
example : (Ex2.exec 1000 3 (Ex2.compileL demoProg) {}).map (fun s => (Ex2.abs s).tr.map (fun t => (t.tp, t.ev))) =
    some ((semL demoProg St.init).tr.map (fun t => (t.tp, t.ev))) := by decide

/-! ## from the text to the semantics, inside the model (T2)

`Lp.printKL` writes a program in a canonical layout; `Lx.lex` is the literal model of `lexer::lex` (tied to the code by the
`lexer` stream; the printed texts themselves are also lexed by the real lexer on every run, stream `print`).  For every
program of the printable fragment — notes with all parameters, rests, `l o v q t`, `< > ( )`, loops with `:` nested to any
depth — the model lexer reads the text back as the compiled token list with no error, and the model runner then yields
the state the semantics prescribes. -/

theorem C03_lex_print (cs : List Cmd) (hp : Lp.pwfL cs) : Lx.lex 96 (Lp.printKL cs []) 0 = some ⟨Ex2.compileL cs, []⟩ :=
  Lp.lex_print cs hp

theorem C03_text_to_semantics (cs : List Cmd) (hp : Lp.pwfL cs) (hw : Ex2.cwfL cs) :
    ∃ F0, ∀ F, F0 ≤ F → ∃ o s', Lx.lex 96 (Lp.printKL cs []) 0 = some o ∧ o.errs = [] ∧
      Ex2.exec F (Ex2.depthL cs) o.toks {} = some s' ∧ Ex2.abs s' = semL cs St.init := by
  obtain ⟨F0, h⟩ := Ex2.exec_refines_sem_init cs hw
  refine ⟨F0, fun F hF => ?_⟩
  obtain ⟨s', h1, h2⟩ := h F hF
  exact ⟨_, s', Lp.lex_print cs hp, rfl, h1, h2⟩

-- non-vacuity: a nested-loop program inside both fragments; its printed text and the model lexer's answer
def demoText : List Cmd :=
  [.setL (some ⟨⟨false, false, [56], 0⟩, []⟩), .setO 4,
   .loop 2 [.note 0 1 false none (some 80) none none (some 5), .loop 3 [.rest none 1, .octRel 1] true [.velRel (-1)]] true [.setQ 50],
   .note 11 (-1) true (some ⟨⟨true, false, [57, 54], 0⟩, [(94, ⟨false, false, [52], 1⟩)]⟩) none (some 127) (some (-3)) none]

example : Lp.pwfL demoText ∧ Ex2.cwfL demoText := by
  constructor
  · simp [demoText, Lp.pwfL, Lp.pwf, Ex2.lenOK, Lp.LenHeadOK, Ex2.lenText, Len.isDigit, Len.render, Len.segs, Len.PartSyn.wf]
  · simp [demoText, Ex2.cwfL, Ex2.cwf, Ex2.noteWF, Ex2.lenOK, Len.isDigit, Len.render, Len.segs, Len.PartSyn.wf, Lx.intMin]
-- (the printed text of `demoText` is "l8 o4 [2 c+,80,,,5 [3 r > : ( ] : q50 ] b-*%96^4.,,127,-3, "; texts are produced and
--  fed to the real lexer by the `print` stream on every run)

/-- **print → lex for the whole block language**: notes, rests, setters, loops with `:`, chords `'…'L,q,v`, `Sub{…}` and tuplets `{…}L`
    nested in one another to any depth.  The nested `lex` calls of `Sub`/tuplets are part of the statement (their token lists are the
    children of the block token, the tuplet's element count is the one `Core.countElems` prescribes). -/
theorem C03_lex_print_blocks (cs : List Cmd) (hp : Lp.pwfL2 cs) :
    Lx.lex 96 (Lp.printKL2 cs []) 0 = some ⟨Ex2.compileL cs, []⟩ := Lp.lex_print2 cs hp

theorem C03_text_to_semantics_blocks (cs : List Cmd) (hp : Lp.pwfL2 cs) (hw : Ex2.cwfL cs) :
    ∃ F0, ∀ F, F0 ≤ F → ∃ o s', Lx.lex 96 (Lp.printKL2 cs []) 0 = some o ∧ o.errs = [] ∧
      Ex2.exec F (Ex2.depthL cs) o.toks {} = some s' ∧ Ex2.abs s' = semL cs St.init := by
  obtain ⟨F0, h⟩ := Ex2.exec_refines_sem_init cs hw
  refine ⟨F0, fun F hF => ?_⟩
  obtain ⟨s', h1, h2⟩ := h F hF
  exact ⟨_, s', Lp.lex_print2 cs hp, rfl, h1, h2⟩

-- non-vacuity: a program with a chord, a `Sub` and a tuplet that holds a loop and a chord
def demoBlocks : List Cmd :=
  [.setL (some ⟨⟨false, false, [56], 0⟩, []⟩),
   .chord [.note 0 0 false none none none none none, .note 4 0 false none none none none none] (some ⟨⟨false, false, [52], 0⟩, []⟩) (some 80) none,
   .sub [.note 7 0 false none none none none none, .div [.note 0 0 false none none none none none, .rest none 1] none],
   .div [.loop 2 [.note 2 0 false none none none none none] true [.rest none 1],
         .chord [.note 0 0 false none none none none none, .note 7 0 false none none none none none] none none none]
     (some ⟨⟨false, false, [50], 0⟩, []⟩)]

example : Lp.pwfL2 demoBlocks ∧ Ex2.cwfL demoBlocks := by
  constructor
  · simp [demoBlocks, Lp.pwfL2, Lp.pwf2, Lp.pwf, Ex2.lenOK, Lp.LenHeadOK, Lp.ChordLenOK, Ex2.lenText, Ex2.simple, Len.isDigit, Lx.isDigit, Len.render, Len.segs, Len.PartSyn.wf]
  · simp [demoBlocks, Ex2.cwfL, Ex2.cwf, Ex2.noteWF, Ex2.lenOK, Ex2.simple, Len.isDigit, Len.render, Len.segs, Len.PartSyn.wf, Lx.intMin]
-- (printed: "l8 'c e '4,80 Sub{g {c r } } {[2 d : r ] 'c g ' }2 ")

/-- **the time pointer advances by each note's full length regardless of gate** — on the literal model of `exec_note` (tied by the `exec`
    stream): outside a chord the pointer after a note is the pointer before it plus the value of its length text (the default length
    when none is written), whatever the gate rate, velocity, timing, the Random settings, and whether the note is written at once,
    collected into a tied group or closes one -/
theorem C03_note_advances_exec (s : Ex2.Song) (tk : Lx.Tok) (hh : s.harmonyFlag = false) (hc : s.cur < s.tracks.length) (h8 : 8 ≤ tk.data.length) :
    (Ex2.execNote s tk).t.timepos = s.t.timepos + Len.calcLength s.tb s.t.length (Ex2.dataS tk.data 2) :=
  Ex2.execNote_advances s tk hh hc h8

end Sakura.Props.C03
