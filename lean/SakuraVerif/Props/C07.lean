import SakuraVerif.Lemmas.LoopMachine
import SakuraVerif.Model.ControlFlow
import SakuraVerif.Model.Expr
import SakuraVerif.Model.Reserve
import SakuraVerif.Lemmas.SutotonTerm
import SakuraVerif.Gen.Consts
/-! # C07 — compilation never crashes or hangs (what the model can carry; partial)

Whether the *process* panics, aborts or hangs is a fact about the running Rust code; it is decided
on every run by the outcome-class stream (bounded-exhaustive fragment sequences, mutants, arbitrary
Unicode) under a worker supervisor.  What the model carries, layer by layer:
* **guards**: every division/remainder of the modelled arithmetic has its zero guard (`÷0 = %0 = 0`,
  ramp frequency ≥ 1, `Random` width > 0), so the corresponding Rust operations cannot fault;
* **termination**: the loop machine of `exec` halts on every well-formed nest of loops (C05); WHILE
  and FOR stop at the iteration limit (C11); the sutoton preprocessor consumes at least one
  character per step once empty words are rejected, so `length + 1` steps always suffice;
* **panic-site audit** (frame fact regenerated on every run): the set of library functions that
  contain `.unwrap()` / `.expect(` is exactly the audited list, so a new unchecked unwrap breaks an
  obligation and triggers the search.
Stack exhaustion from deeply nested brackets and allocator aborts are runtime behaviour no model
exhibits: named here, observed only by the supervisor. -/
namespace Sakura.Props.C07
open Sakura

/-- division and remainder of script expressions are total: zero divisors give 0 -/
theorem C07_div_mod_total (a b : Ex.Val) : ∃ i, Ex.evalOp 1 a b = .int i ∧ ∃ j, Ex.evalOp 2 a b = .int j := by
  simp [Ex.evalOp]

/-- the ramp writers never divide by a zero sampling frequency -/
theorem C07_ramp_freq_positive (freq : Int) : 0 < (if freq ≤ 0 then (1 : Int) else freq) := by
  split <;> omega

/-- the loop machine halts on every well-formed nest of loops, for any effect of the other tokens -/
theorem C07_loops_halt {α σ} (act : α → σ → σ) (ts : List (Loop.Tree α)) (hw : Loop.wfL ts = true) (s : σ) :
    ∃ k c, Loop.runN act (Loop.flattenL ts) k (0, [], s) = some c ∧ c.1 = (Loop.flattenL ts).length :=
  let ⟨k, hk⟩ := Loop.machine_refines_tree act ts hw s
  ⟨k, _, hk, rfl⟩

/-- WHILE with a condition that never fails still stops: at most `fuel` passes are modelled and the
    cut-off branch is reached when the counter exceeds the limit (see C11_loop_limit) -/
theorem C07_while_cutoff {σ} (o : Ctl.Ops σ) (maxLoop f : Nat) (s : σ) (hc : o.cond s = true) :
    Ctl.execWhile o maxLoop (f + 1) maxLoop s = Ctl.cutOff o (o.body s) := by
  simp [Ctl.execWhile, hc]

/-- sutoton: the built-in vocabulary and every vocabulary reachable by user definitions contains no
    empty word (they are rejected when defined) -/
theorem C07_vocabulary_nonempty (rows : List (List Nat × List Nat)) (cs : List Nat) :
    Sut.NonEmptyNames (Sut.initItems rows) ∧ Sut.NonEmptyNames (Sut.defineWord (Sut.initItems rows) cs).1 :=
  ⟨Sut.initItems_nonempty rows, Sut.defineWord_nonempty _ _ (Sut.initItems_nonempty rows)⟩

/-- `sutoton::convert` terminates on every text: each step consumes at least one character, so
    `length + 1` steps suffice and any further fuel changes nothing — for every vocabulary, including
    all user definitions made on the way.  (Before empty words were rejected no such bound existed:
    `~{}={x}` made the loop spin.) -/
theorem C07_convert_terminates (rows : List (List Nat × List Nat)) (src : List Nat) (extra : Nat) :
    Sut.convertLoop (src.length + 1 + extra) (Sut.initItems rows) src
      = Sut.convertLoop (src.length + 1) (Sut.initItems rows) src :=
  Sut.convert_fuel_sufficient _ (Sut.initItems_nonempty rows) src extra

/-- progress of the individual arms: a vocabulary match, a string/comment span and a word definition
    all leave strictly/weakly shorter text -/
theorem C07_arms_progress (items : List Sut.Item) (h : Sut.NonEmptyNames items) (c : Nat) (cs : List Nat) (sp : List Nat) (hsp : sp ≠ []) :
    (Sut.getTokenS sp (c :: cs)).2.length < (c :: cs).length ∧ (Sut.defineWord items cs).2.length ≤ cs.length ∧
    (∀ it, Sut.firstMatch items (c :: cs) = some it → 1 ≤ it.name.length) :=
  ⟨Sut.getTokenS_len_lt sp c cs hsp, Sut.defineWord_len items cs, fun it hf => Sut.firstMatch_pos items h _ it hf⟩

/-- the audited list of functions that may call `.unwrap()` / `.expect(` -/
theorem C07_unwrap_sites :
    Gen.frame_unwrapSites = ["runner.rs:exec", "runner.rs:exec_userfunc_or_array_or_macro", "runner.rs:exec_if",
      "runner.rs:exec_while", "runner.rs:exec_for", "runner.rs:exec_harmony", "song.rs:variables_insert", "midi.rs:generate_track"] := rfl

/-- no `unsafe`, `mem::swap/replace/take` on the watched state -/
theorem C07_no_unsafe : Gen.frame_unsafeOrSwap = [] := rfl

end Sakura.Props.C07
