import SakuraVerif.Lemmas.LoopMachine
import SakuraVerif.Model.ControlFlow
import SakuraVerif.Model.Expr
import SakuraVerif.Model.Reserve
import SakuraVerif.Model.Sutoton
import SakuraVerif.Gen.Consts
/-! # C07 — compilation never crashes or hangs (what the model can carry; partial)

Whether the *process* panics, aborts or hangs is a fact about the running Rust code; it is decided
on every run by the outcome-class stream (bounded-exhaustive fragment sequences, mutants, arbitrary
Unicode) under a worker supervisor.  What the model carries, layer by layer:
* **guards**: every division/remainder of the modelled arithmetic has its zero guard (`÷0 = %0 = 0`,
  ramp frequency ≥ 1, `Random` width > 0), so the corresponding Rust operations cannot fault;
* **termination**: the loop machine of `exec` halts on every well-formed nest of loops (C05); WHILE
  and FOR stop at the iteration limit (C11); the sutoton preprocessor consumes at least one
  character per step once empty words are rejected, so `length + 1` steps always suffice;
* **panic-site audit** (frame fact regenerated on every run): the set of library functions that
  contain `.unwrap()` / `.expect(` is exactly the audited list, so a new unchecked unwrap breaks an
  obligation and triggers the search.
Stack exhaustion from deeply nested brackets and allocator aborts are runtime behaviour no model
exhibits: named here, observed only by the supervisor. -/
namespace Sakura.Props.C07
open Sakura

/-- division and remainder of script expressions are total: zero divisors give 0 -/
theorem C07_div_mod_total (a b : Ex.Val) : ∃ i, Ex.evalOp 1 a b = .int i ∧ ∃ j, Ex.evalOp 2 a b = .int j := by
  simp [Ex.evalOp]

/-- the ramp writers never divide by a zero sampling frequency -/
theorem C07_ramp_freq_positive (freq : Int) : 0 < (if freq ≤ 0 then (1 : Int) else freq) := by
  split <;> omega

/-- the loop machine halts on every well-formed nest of loops, for any effect of the other tokens -/
theorem C07_loops_halt {α σ} (act : α → σ → σ) (ts : List (Loop.Tree α)) (hw : Loop.wfL ts = true) (s : σ) :
    ∃ k c, Loop.runN act (Loop.flattenL ts) k (0, [], s) = some c ∧ c.1 = (Loop.flattenL ts).length :=
  let ⟨k, hk⟩ := Loop.machine_refines_tree act ts hw s
  ⟨k, _, hk, rfl⟩

/-- WHILE with a condition that never fails still stops: at most `fuel` passes are modelled and the
    cut-off branch is reached when the counter exceeds the limit (see C11_loop_limit) -/
theorem C07_while_cutoff {σ} (o : Ctl.Ops σ) (maxLoop f : Nat) (s : σ) (hc : o.cond s = true) :
    Ctl.execWhile o maxLoop (f + 1) maxLoop s = Ctl.cutOff o (o.body s) := by
  simp [Ctl.execWhile, hc]

/-- sutoton: a vocabulary never contains an empty word (they are rejected when defined) -/
def NonEmptyNames (items : List Sut.Item) : Prop := ∀ it ∈ items, it.name ≠ []

theorem C07_setItem_nonempty (items : List Sut.Item) (name value : List Nat) (h : NonEmptyNames items) :
    NonEmptyNames (Sut.setItem items name value) := by
  unfold Sut.setItem
  split
  · exact h
  · rename_i hne
    have hn : name ≠ [] := by intro h0; simp [h0] at hne
    split
    · intro it hit
      obtain ⟨x, hx, rfl⟩ := List.mem_map.mp hit
      split
      · simpa using h x hx
      · exact h x hx
    · intro it hit
      rcases List.mem_append.mp hit with h1 | h1
      · exact h it h1
      · simp at h1; subst h1; exact hn

theorem C07_sort_nonempty (items : List Sut.Item) (h : NonEmptyNames items) : NonEmptyNames (Sut.sortItems items) := by
  intro it hit
  exact h it ((List.mergeSort_perm _ _).mem_iff.mp hit)

/-- a match of the vocabulary always consumes at least one character -/
theorem C07_match_consumes (items : List Sut.Item) (h : NonEmptyNames items) (rest : List Nat) (it : Sut.Item)
    (hf : Sut.firstMatch items rest = some it) : 1 ≤ it.name.length := by
  unfold Sut.firstMatch at hf
  have := List.mem_of_find?_eq_some hf
  have hne := h it this
  cases hn : it.name with
  | nil => exact absurd hn hne
  | cons _ _ => simp

/-- `get_token_s` always consumes the separator or the whole rest: progress of the string/comment arms -/
theorem C07_getTokenS_progress (sp : List Nat) : ∀ cs : List Nat, (Sut.getTokenS sp cs).2.length ≤ cs.length := by
  intro cs
  induction cs with
  | nil => simp [Sut.getTokenS]
  | cons c cs ih =>
    simp only [Sut.getTokenS]
    split
    · simp
    · simp only [List.length_cons]; omega

/-- the audited list of functions that may call `.unwrap()` / `.expect(` -/
theorem C07_unwrap_sites :
    Gen.frame_unwrapSites = ["runner.rs:exec", "runner.rs:exec_userfunc_or_array_or_macro", "runner.rs:exec_if",
      "runner.rs:exec_while", "runner.rs:exec_for", "runner.rs:exec_harmony", "song.rs:variables_insert", "midi.rs:generate_track"] := rfl

/-- no `unsafe`, `mem::swap/replace/take` on the watched state -/
theorem C07_no_unsafe : Gen.frame_unsafeOrSwap = [] := rfl

end Sakura.Props.C07
