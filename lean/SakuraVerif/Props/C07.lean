import SakuraVerif.Lemmas.LoopMachine
import SakuraVerif.Model.ControlFlow
import SakuraVerif.Model.Expr
import SakuraVerif.Model.Reserve
import SakuraVerif.Lemmas.SutotonTerm
import SakuraVerif.Gen.Consts
import SakuraVerif.Lemmas.ScriptProgress
import SakuraVerif.Lemmas.ScriptCheck
import SakuraVerif.Lemmas.LexTerm
/-! # C07 — compilation never crashes or hangs (what the model can carry; partial)

Whether the *process* panics, aborts or hangs is a fact about the running Rust code; it is decided
on every run by the outcome-class stream (bounded-exhaustive fragment sequences, mutants, arbitrary
Unicode) under a worker supervisor.  What the model carries, layer by layer:
* **guards**: every division/remainder of the modelled arithmetic has its zero guard (`÷0 = %0 = 0`,
  ramp frequency ≥ 1, `Random` width > 0), so the corresponding Rust operations cannot fault;
* **termination**: the loop machine of `exec` halts on every well-formed nest of loops (C05); WHILE
  and FOR stop at the iteration limit (C11); the sutoton preprocessor consumes at least one
  character per step once empty words are rejected, so `length + 1` steps always suffice;
* **lexer** (literal model `Model.Lexer`, tied by the `lexer` stream on raw texts): every arm of the main loop consumes its command
  character before it continues and every nested block (`Sub{…}`, tuplets) is strictly shorter than the text it is cut from, so
  `length + 1` steps always suffice (`C07_lexer_terminates`); the proof is arm by arm, and it is the arm of `{` where it failed
  before the repair e3063ef (a full-width brace left the block containing itself);
* **script layer** (literal model `Model.ScriptExec`, tied by the streams `scriptexec`/`exprexec`): every program whose
  function table has no call cycle finishes — the fuel `needList` computes from the text suffices and more changes nothing,
  because the counter cuts `WHILE`/`FOR` off after `maxLoop` passes — and on lexer-shaped programs the run never reaches the
  model's failure state; user recursion without bound is the case the property excludes;
* **panic-site audit** (frame fact regenerated on every run): the set of library functions that
  contain `.unwrap()` / `.expect(` is exactly the audited list, so a new unchecked unwrap breaks an
  obligation and triggers the search.
Stack exhaustion from deeply nested brackets and allocator aborts are runtime behaviour no model
exhibits: named here, observed only by the supervisor. -/
namespace Sakura.Props.C07
open Sakura

/-- division and remainder of script expressions are total: zero divisors give 0 -/
theorem C07_div_mod_total (a b : Ex.Val) : ∃ i, Ex.evalOp 1 a b = .int i ∧ ∃ j, Ex.evalOp 2 a b = .int j := by
  simp [Ex.evalOp]

/-- the ramp writers never divide by a zero sampling frequency -/
theorem C07_ramp_freq_positive (freq : Int) : 0 < (if freq ≤ 0 then (1 : Int) else freq) := by
  split <;> omega

/-- the loop machine halts on every well-formed nest of loops, for any effect of the other tokens -/
theorem C07_loops_halt {α σ} (act : α → σ → σ) (ts : List (Loop.Tree α)) (hw : Loop.wfL ts = true) (s : σ) :
    ∃ k c, Loop.runN act (Loop.flattenL ts) k (0, [], s) = some c ∧ c.1 = (Loop.flattenL ts).length :=
  let ⟨k, hk⟩ := Loop.machine_refines_tree act ts hw s
  ⟨k, _, hk, rfl⟩

/-- WHILE with a condition that never fails still stops: at most `fuel` passes are modelled and the
    cut-off branch is reached when the counter exceeds the limit (see C11_loop_limit) -/
theorem C07_while_cutoff {σ} (o : Ctl.Ops σ) (maxLoop f : Nat) (s : σ) (hc : o.cond s = true) :
    Ctl.execWhile o maxLoop (f + 1) maxLoop s = Ctl.cutOff o (o.body s) := by
  simp [Ctl.execWhile, hc]

/-- sutoton: the built-in vocabulary and every vocabulary reachable by user definitions contains no
    empty word (they are rejected when defined) -/
theorem C07_vocabulary_nonempty (rows : List (List Nat × List Nat)) (cs : List Nat) :
    Sut.NonEmptyNames (Sut.initItems rows) ∧ Sut.NonEmptyNames (Sut.defineWord (Sut.initItems rows) cs).1 :=
  ⟨Sut.initItems_nonempty rows, Sut.defineWord_nonempty _ _ (Sut.initItems_nonempty rows)⟩

/-- `sutoton::convert` terminates on every text: each step consumes at least one character, so
    `length + 1` steps suffice and any further fuel changes nothing — for every vocabulary, including
    all user definitions made on the way.  (Before empty words were rejected no such bound existed:
    `~{}={x}` made the loop spin.) -/
theorem C07_convert_terminates (rows : List (List Nat × List Nat)) (src : List Nat) (extra : Nat) :
    Sut.convertLoop (src.length + 1 + extra) (Sut.initItems rows) src
      = Sut.convertLoop (src.length + 1) (Sut.initItems rows) src :=
  Sut.convert_fuel_sufficient _ (Sut.initItems_nonempty rows) src extra

/-- progress of the individual arms: a vocabulary match, a string/comment span and a word definition
    all leave strictly/weakly shorter text -/
theorem C07_arms_progress (items : List Sut.Item) (h : Sut.NonEmptyNames items) (c : Nat) (cs : List Nat) (sp : List Nat) (hsp : sp ≠ []) :
    (Sut.getTokenS sp (c :: cs)).2.length < (c :: cs).length ∧ (Sut.defineWord items cs).2.length ≤ cs.length ∧
    (∀ it, Sut.firstMatch items (c :: cs) = some it → 1 ≤ it.name.length) :=
  ⟨Sut.getTokenS_len_lt sp c cs hsp, Sut.defineWord_len items cs, fun it hf => Sut.firstMatch_pos items h _ it hf⟩

/-- **the lexer finishes**: for every text, line and chord flag, any fuel above the length of the text gives the answer that
    `length + 1` gives — so the `none` the model may answer at that fuel always means "outside the modelled subset", never "ran out
    of steps", and `lex`, which passes exactly `length + 1`, is total in the sense that matters -/
theorem C07_lexer_terminates (tb : Int) (text : List Nat) (ln : Int) (harm : Bool) (extra : Nat) :
    Lx.lexLoop tb (text.length + 1 + extra) text ln harm = Lx.lexLoop tb (text.length + 1) text ln harm :=
  Lx.lexLoop_fuel_stable tb text ln harm extra

/-- the reason, one step at a time: after the command character `c` the loop asks its continuation only about texts no longer
    than the rest `cs` — two continuations that agree on those give the same answer for `c :: cs` -/
theorem C07_lexer_step_consumes (tb : Int) (f g c : Nat) (cs : List Nat) (ln : Int) (harm : Bool)
    (h : ∀ t l b, t.length ≤ cs.length → Lx.lexLoop tb f t l b = Lx.lexLoop tb g t l b) :
    Lx.lexLoop tb (f + 1) (c :: cs) ln harm = Lx.lexLoop tb (g + 1) (c :: cs) ln harm :=
  Lx.lexLoop_congr tb f g c cs ln harm h

/-- **scripts finish**: for every function table without a call cycle (`rankedB`, decided on the real table by the driver) and
    every token list, the fuel `needList (nfOf fns) toks` — one per list member and nesting level, `maxLoop + 2` per `WHILE`/`FOR`,
    the callee's need per call — is enough: any further fuel gives the same final state.  No hypothesis on conditions, bodies or
    values: the loop counter alone bounds the passes. -/
theorem C07_script_terminates (fns : List Sx.Fn) (toks : List Sx.Tok) (hr : Sx.rankedB fns = true) (extra : Nat) :
    Sx.run fns toks (Sx.needList (Sx.nfOf fns) toks + extra) = Sx.run fns toks (Sx.needList (Sx.nfOf fns) toks) :=
  Sx.ranked_run_fuel_stable fns (Sx.rankedB_sound fns hr) toks extra

/-- the same for any sound table of per-function needs (`FnsNeed`), from any state -/
theorem C07_script_fuel_independent (fns : List Sx.Fn) (nf : List Nat) (h : Sx.FnsNeed fns nf) (toks : List Sx.Tok) (s : Sx.St)
    (f extra : Nat) (hf : Sx.needList nf toks ≤ f) : Sx.execList fns (f + extra) toks s = Sx.execList fns f toks s :=
  Sx.run_fuel_stable fns nf h toks s f extra hf

/-- **scripts never get stuck**: on a lexer-shaped program (`progB`, decided by the driver on the real token lists) without a call
    cycle, run with at least its need as fuel, the model's failure state — fuel exhausted, unknown token shape or operator,
    missing function or scope — is not reached, and the answer is the fuel-independent final state -/
theorem C07_script_never_stuck (fns : List Sx.Fn) (toks : List Sx.Tok) (d : Nat) (hr : Sx.rankedB fns = true)
    (hw : Sx.progB fns toks d = true) (extra : Nat) :
    (Sx.run fns toks (Sx.needList (Sx.nfOf fns) toks + extra)).bad = false ∧
    Sx.run fns toks (Sx.needList (Sx.nfOf fns) toks + extra) = Sx.run fns toks (Sx.needList (Sx.nfOf fns) toks) := by
  obtain ⟨ht, hok⟩ := Sx.progB_sound fns toks d hw
  exact ⟨Sx.run_not_stuck fns (Sx.nfOf fns) (Sx.ranked_fnsNeed fns (Sx.rankedB_sound fns hr)) hok toks ht _ (Nat.le_add_right _ _),
    C07_script_terminates fns toks hr extra⟩

/-- a `WHILE` pass past the limit stops the loop whatever the body did: the cut-off arm of the literal model -/
theorem C07_while_limit_stops (line : Int) (k : Nat) (s : Sx.St) (hk : Sx.maxLoop ≤ k) : ∃ s', Sx.whileNext line k s = .stop s' := by
  unfold Sx.whileNext
  have : k + 1 > Sx.maxLoop := by omega
  simp only [this, if_true]
  exact ⟨_, rfl⟩

/-- … and so does a `FOR` pass past the limit — also one that ended in `CONTINUE`, `BREAK` or `RETURN`: the count is taken before the
pending control flag is looked at -/
theorem C07_for_limit_stops (line : Int) (k : Nat) (s : Sx.St) (hk : Sx.maxLoop ≤ k) : ∃ s', Sx.forNext line k s = .stop s' := by
  unfold Sx.forNext
  have : k + 1 > Sx.maxLoop := by omega
  simp only [this, if_true]
  exact ⟨_, rfl⟩

/-- the pass with number `maxLoop` is the last one: from there `exec_while` / `exec_for` return without another round, whatever the
condition and the body do (the result is the condition's state when it fails, the cut-off state otherwise) -/
theorem C07_while_last_pass (fns : List Sx.Fn) (f : Nat) (line : Int) (c b : List Sx.Tok) (k : Nat) (s : Sx.St) (hk : Sx.maxLoop ≤ k) :
    Sx.whileGo fns (f + 1) line c b k s = (Sx.valueWith (Sx.execList fns f) c s).2 ∨
    ∃ s', Sx.whileNext line k (Sx.execList fns f b (Sx.valueWith (Sx.execList fns f) c s).2) = .stop s' ∧ Sx.whileGo fns (f + 1) line c b k s = s' := by
  obtain ⟨s', hs'⟩ := C07_while_limit_stops line k (Sx.execList fns f b (Sx.valueWith (Sx.execList fns f) c s).2) hk
  rw [Sx.whileGo]
  by_cases hc : (Sx.valueWith (Sx.execList fns f) c s).1.toB = false
  · left; simp only [hc, if_true]
  · right; refine ⟨s', hs', ?_⟩; simp [hc, hs']

theorem C07_for_last_pass (fns : List Sx.Fn) (f : Nat) (line : Int) (c n b : List Sx.Tok) (k : Nat) (s : Sx.St) (hk : Sx.maxLoop ≤ k) :
    Sx.forGo fns (f + 1) line c n b k s = (Sx.valueWith (Sx.execList fns f) c s).2 ∨
    ∃ s', Sx.forNext line k (Sx.execList fns f b (Sx.valueWith (Sx.execList fns f) c s).2) = .stop s' ∧ Sx.forGo fns (f + 1) line c n b k s = s' := by
  obtain ⟨s', hs'⟩ := C07_for_limit_stops line k (Sx.execList fns f b (Sx.valueWith (Sx.execList fns f) c s).2) hk
  rw [Sx.forGo]
  by_cases hc : (Sx.valueWith (Sx.execList fns f) c s).1.toB = false
  · left; simp only [hc, if_true]
  · right; refine ⟨s', hs', ?_⟩; simp [hc, hs']

-- non-vacuity: `WHILE(1){ PRINT(1) }` followed by a call of `FUNCTION FA(){ FOR(;1;){ } }` is lexer-shaped and has no call cycle
def demoScriptFns : List Sx.Fn :=
  [⟨[], [], [.mk .for_ 0 0 0 none [] (some [.mk .tokens 0 0 0 none [] (some []), .mk .tokens 0 0 0 none [] (some [.mk .constInt 1 0 0 none [] none]),
      .mk .tokens 0 0 0 none [] (some []), .mk .tokens 0 0 0 none [] (some [])])]⟩]
def demoScriptToks : List Sx.Tok :=
  [.mk .while_ 0 0 1 none [] (some [.mk .tokens 0 0 0 none [] (some [.mk .constInt 1 0 0 none [] none]),
      .mk .tokens 0 0 0 none [] (some [.mk .print 0 0 1 none [] (some [.mk .constInt 1 0 0 none [] none])])]),
   .mk .callUser 0 0 2 none [] (some [])]
example : Sx.rankedB demoScriptFns = true ∧ Sx.progB demoScriptFns demoScriptToks 8 = true := by decide

/-- the audited list of functions that may call `.unwrap()` / `.expect(` -/
theorem C07_unwrap_sites :
    Gen.frame_unwrapSites = ["runner.rs:exec", "runner.rs:exec_userfunc_or_array_or_macro", "runner.rs:exec_if",
      "runner.rs:exec_while", "runner.rs:exec_for", "runner.rs:exec_harmony", "song.rs:variables_insert", "midi.rs:generate_track"] := rfl

/-- no `unsafe`, `mem::swap/replace/take` on the watched state -/
theorem C07_no_unsafe : Gen.frame_unsafeOrSwap = [] := rfl

end Sakura.Props.C07
