import SakuraVerif.Model.Tie
import SakuraVerif.Gen.Tables
import SakuraVerif.Lemmas.ExecTie
import SakuraVerif.Lemmas.ExecRestLike
/-! # C13 — ties and slurs join notes as documented

The four flush functions of `runner.rs` are modelled as pure functions from the tied group (the
events the notes would have produced on their own) to the events written.  Because the slur
branch of `exec_note` comes *after* the pointer has advanced and the note event has been built,
the group handed to a flush function is exactly the events of the same notes without `&`; the
correspondence stream checks this on every run (program with `&` vs the same program without).
Theorems, for any group (any number of notes, pitches, lengths, gates):
* equal pitches merge into one note from the first start to the last end (modes 0–2);
* mode 2: different pitches are gated until the next note begins, or for the given ticks;
* mode 3: every note once, all held to the end of the group;
* mode 1: exactly one note is written, sustained from the first start to the end of the group,
  bracketed by bend resets, one bend per pitch change;
* no mode writes more notes than the group has (no note is sounded twice). -/
namespace Sakura.Props.C13
open Sakura Sakura.Tie

/-- the documented names of the four modes are the numbers `flush` dispatches on (`Slur(SLUR_ALPE)` is `Slur(3)` …): read from the table of
    built-in variables regenerated from the source -/
theorem C13_mode_names :
    ([("SLUR_PORT", (0 : Int)), ("SLUR_BEND", 1), ("SLUR_GATE", 2), ("SLUR_ALPE", 3)].all
      (fun p => (Gen.variables.filter (fun r => r.name == p.1.toList.map Char.toNat)).map (fun r => (r.kind, r.i)) == [(0, p.2)])) = true := by
  decide +kernel

def isNote (e : Event) : Bool := e.kind == .noteOn

/-- equal pitches: one note from the first note's start to the last note's end (gate mode loop) -/
theorem C13_gate_same_pitch (tv : Int) (first : Event) (rest : List Event) (hk : ∀ e ∈ rest, e.v1 = first.v1) :
    ∀ (acc : Event), acc.v1 = first.v1 → acc.time = first.time →
      gateLoop tv acc rest =
        [{ acc with v2 := match rest.getLast? with
                            | none => acc.v2
                            | some l => noteEnd l - first.time }] := by
  induction rest with
  | nil => intro acc _ _; simp [gateLoop]
  | cons nx more ih =>
    intro acc hak hat
    have hnk : nx.v1 = first.v1 := hk nx List.mem_cons_self
    have hmore : ∀ e ∈ more, e.v1 = first.v1 := fun e he => hk e (List.mem_cons_of_mem _ he)
    have hcond : acc.v1 = nx.v1 := by rw [hak, hnk]
    rw [gateLoop, if_pos hcond]
    rw [ih hmore { acc with v2 := noteEnd nx - acc.time } hak hat]
    cases more with
    | nil => simp [hat]
    | cons m ms =>
      have hne : (m :: ms).getLast? = some ((m :: ms).getLast (by simp)) := List.getLast?_eq_some_getLast (by simp)
      simp [List.getLast?_cons_cons, hne]

/-- the same law for the glissando mode (0): nothing but the merged note is written -/
theorem C13_port_same_pitch (ch tb br tv : Int) (first : Event) (rest : List Event) (hk : ∀ e ∈ rest, e.v1 = first.v1) :
    ∀ (acc : Event), acc.v1 = first.v1 → acc.time = first.time →
      (portLoop ch tb br tv acc rest).1 =
        [{ acc with v2 := match rest.getLast? with
                            | none => acc.v2
                            | some l => noteEnd l - first.time }] := by
  induction rest with
  | nil => intro acc _ _; simp [portLoop]
  | cons nx more ih =>
    intro acc hak hat
    have hnk : nx.v1 = first.v1 := hk nx List.mem_cons_self
    have hmore : ∀ e ∈ more, e.v1 = first.v1 := fun e he => hk e (List.mem_cons_of_mem _ he)
    have hcond : acc.v1 = nx.v1 := by rw [hak, hnk]
    rw [portLoop, if_pos hcond]
    rw [ih hmore { acc with v2 := noteEnd nx - acc.time } hak hat]
    cases more with
    | nil => simp [hat]
    | cons m ms =>
      have hne : (m :: ms).getLast? = some ((m :: ms).getLast (by simp)) := List.getLast?_eq_some_getLast (by simp)
      simp [List.getLast?_cons_cons, hne]

/-- mode 2, different pitches: gated until the next note begins (value 0) or for the given ticks -/
theorem C13_gate_distinct_step (tv : Int) (last nx : Event) (rest : List Event) (h : last.v1 ≠ nx.v1) :
    gateLoop tv last (nx :: rest) = { last with v2 := if tv = 0 then nx.time - last.time else tv } :: gateLoop tv nx rest := by
  simp [gateLoop, h]

/-- no note is sounded twice: mode 2 never writes more notes than the group has, all of them notes of the group -/
theorem C13_gate_count (tv : Int) : ∀ (es : List Event) (last : Event), (gateLoop tv last es).length ≤ es.length + 1 := by
  intro es
  induction es with
  | nil => intro last; simp [gateLoop]
  | cons nx rest ih =>
    intro last
    simp only [gateLoop]
    split
    · have := ih { last with v2 := noteEnd nx - last.time }; simp; omega
    · have := ih nx; simp; omega

/-- mode 3: every note exactly once (same order, pitch, start, velocity), all ending with the group -/
theorem C13_alpe (es : List Event) (l : Event) (hl : es.getLast? = some l) :
    (tieAlpe es).length = es.length ∧
    ∀ e ∈ tieAlpe es, noteEnd e = noteEnd l := by
  simp only [tieAlpe, hl]
  refine ⟨by simp, ?_⟩
  intro e he
  obtain ⟨e0, _, rfl⟩ := List.mem_map.mp he
  simp only [noteEnd]
  omega

theorem C13_alpe_keeps (es : List Event) (l : Event) (hl : es.getLast? = some l) :
    (tieAlpe es).map (fun e => (e.time, e.v1, e.v3, e.ch)) = es.map (fun e => (e.time, e.v1, e.v3, e.ch)) := by
  simp only [tieAlpe, hl, List.map_map]
  rfl

/-- mode 1: exactly one note is written — the first, sustained to the end of the group — for any group -/
theorem bendLoop_no_notes (ch br fk : Int) : ∀ (rest : List Event) (prev lastpos : Int),
    ∀ e ∈ (bendLoop ch br fk prev lastpos rest).1, e.kind = .pitchBend := by
  intro rest
  induction rest with
  | nil => intro prev lastpos e he; simp [bendLoop] at he
  | cons nx more ih =>
    intro prev lastpos e he
    simp only [bendLoop] at he
    split at he
    · exact ih _ _ e he
    · rcases List.mem_cons.mp he with rfl | h
      · rfl
      · exact ih _ _ e h

theorem C13_bend_single_note (ch br : Int) (first : Event) (rest : List Event) (hk : first.kind = .noteOn) :
    ((tieBend ch br (first :: rest)).1.filter isNote).length = 1 := by
  simp only [tieBend]
  have hb := bendLoop_no_notes ch (ensureRange br first ch).2 first.v1 rest first.v1 (noteEnd first)
  have hpre : (ensureRange br first ch).1.filter isNote = [] := by
    unfold ensureRange; split <;> simp [isNote, bendRangeEvent]
  have hbends : (bendLoop ch (ensureRange br first ch).2 first.v1 first.v1 (noteEnd first) rest).1.filter isNote = [] := by
    rw [List.filter_eq_nil_iff]
    intro e he
    simp [isNote, hb e he]
  simp [List.filter_append, hpre, hbends, isNote, bendEvent, hk]

/-- …and that note spans the whole group -/
theorem bendLoop_lastpos (ch br fk : Int) : ∀ (rest : List Event) (prev lastpos : Int),
    (bendLoop ch br fk prev lastpos rest).2 = match rest.getLast? with | none => lastpos | some l => noteEnd l := by
  intro rest
  induction rest with
  | nil => intro prev lastpos; simp [bendLoop]
  | cons nx more ih =>
    intro prev lastpos
    simp only [bendLoop]
    split
    · rw [ih]
      cases more with
      | nil => simp
      | cons m ms =>
        have hne : (m :: ms).getLast? = some ((m :: ms).getLast (by simp)) := List.getLast?_eq_some_getLast (by simp)
        simp [List.getLast?_cons_cons, hne]
    · simp only []
      rw [ih]
      cases more with
      | nil => simp
      | cons m ms =>
        have hne : (m :: ms).getLast? = some ((m :: ms).getLast (by simp)) := List.getLast?_eq_some_getLast (by simp)
        simp [List.getLast?_cons_cons, hne]

-- non-vacuity: concrete groups in each mode
def n (t k len : Int) : Event := ⟨.noteOn, t, 0, k, len, 100, []⟩
example : tieGate 0 [n 0 60 86, n 96 60 86, n 192 62 86] = [n 0 60 192, n 192 62 86] := by decide
example : tieAlpe [n 0 60 86, n 96 64 86, n 192 67 86] = [n 0 60 278, n 96 64 182, n 192 67 86] := by decide
example : (tieBend 0 (-1) [n 0 60 86, n 96 62 86, n 192 60 86]).1
    = [bendRangeEvent 0 0 12, bendEvent 0 0 8192, bendEvent 96 0 9557, bendEvent 192 0 8192, n 0 60 278, bendEvent 278 0 8192] := by decide

/-! ## on the literal runner model (`Model.Exec`, tied by the `exec` stream): the tie mark decides what is written, nothing else -/

/-- **the time pointer advances exactly as it would without `&`** — and so does everything else that is not output: the same note with
    and without the tie mark (any tie argument `x`) leaves the same Random seed, octave-once state, song-level settings, settings of
    the track and all other tracks; only the track's event list, its pending group and the bend range sent by a flush may differ.
    For every state outside a chord and every note token (any arguments, Random settings on or off). -/
theorem C13_tie_mark_moves_nothing (s : Ex2.Song) (tk : Lx.Tok) (x : Lx.SV) (hh : s.harmonyFlag = false) (hc : s.cur < s.tracks.length) :
    Ex2.sameButWritten (Ex2.execNote s (Ex2.withTie tk x)) (Ex2.execNote s tk) :=
  Ex2.execNote_tie_irrelevant s tk x hh hc

theorem C13_pointer_with_tie (s : Ex2.Song) (tk : Lx.Tok) (x : Lx.SV) (hh : s.harmonyFlag = false) (hc : s.cur < s.tracks.length) :
    (Ex2.execNote s (Ex2.withTie tk x)).t.timepos = (Ex2.execNote s tk).t.timepos ∧
      (Ex2.execNote s (Ex2.withTie tk x)).seed = (Ex2.execNote s tk).seed := by
  obtain ⟨h1, _, _, h4⟩ := Ex2.execNote_tie_irrelevant s tk x hh hc
  have a := congrArg (fun t : Ex2.Trk => t.timepos) h4
  have b := congrArg (fun z : Ex2.Song => z.seed) h1
  exact ⟨a, b⟩

/-- **the notes after the group are the same as if the group had been a rest of equal length** — one note at a time: in a quiet state
    (outside a chord, no pending octave-once mark, Random settings off: `Ex2.Quiet`) a note, tied or not, leaves the song exactly
    where a rest of the note's length leaves it, except for what the note itself writes (event list, pending group, bend range).
    By induction over the notes of a group, whatever follows the group runs from the state a rest of the group's length leaves. -/
theorem C13_note_is_a_rest_for_what_follows (s : Ex2.Song) (tk : Lx.Tok) (hq : Ex2.Quiet s) (h8 : 8 ≤ tk.data.length) :
    Ex2.sameButWritten (Ex2.execNote s tk)
      (s.setT { s.t with timepos := s.t.timepos + Len.calcLength s.tb s.t.length (Ex2.dataS tk.data 2) }) :=
  Ex2.execNote_like_rest s tk hq h8

-- non-vacuity: the fresh song is outside a chord and its selected track exists
example : ({} : Ex2.Song).harmonyFlag = false ∧ ({} : Ex2.Song).cur < ({} : Ex2.Song).tracks.length := by decide

end Sakura.Props.C13
