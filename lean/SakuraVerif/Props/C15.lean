import SakuraVerif.Model.Messages
import SakuraVerif.Spec.Messages
import SakuraVerif.Lemmas.Smf
import SakuraVerif.Gen.Tables
/-! # C15 — every command emits the MIDI message the standard and the command list prescribe

Two kinds of theorems.  (1) **Table facts**, decided by kernel evaluation over the tables
regenerated from `mml_def.rs`, `command.md` and `voice.md` on every run: each named controller,
RPN/NRPN, text, tempo … command carries the number the MIDI standard assigns (hand-written
`Spec.std*` tables), no command of those classes is missing from the specification, the
controller number named in each doc comment is the one in the table, every documented voice name
has its General MIDI number.  (2) **Byte-layout lemmas** about the model of the runner arms: tempo
`FF 51 03` + 60,000,000/bpm for the whole clamped domain, time signature `nn log2(dd) 24 8`,
pitch bend 14-bit LSB first centred at 8192, `p` in steps of 128, Roland checksum law, text cut at
a character boundary, ≤ 127 bytes and maximal. -/
namespace Sakura.Props.C15
open Sakura Sakura.Spec

/-! ## table facts -/

def hasRow (name : String) (tt : Nat) (t1 t2 : Int) : Bool :=
  Gen.sysFuncs.any (fun r => r.name == cp name && r.tt == tt && r.tag1 == t1 && r.tag2 == t2)

/-- a command word without its spelling: upper-cased, without the `System.` prefix, without underscores -/
def wordOf (n : List Nat) : List Nat :=
  let u := n.map (fun c => if 97 ≤ c ∧ c ≤ 122 then c - 32 else c)
  ((if [83, 89, 83, 84, 69, 77, 46].isPrefixOf u then u.drop 7 else u).filter (· ≠ 95))

/-- all spellings of a command word (`PlayFrom` / `PLAY_FROM`, `Continue` / `CONTINUE`, `System.TimeBase` / `TIMEBASE` …) stand for the same
    command: the same token type, argument kind and tags in the command table regenerated from the source -/
theorem C15_spellings_agree :
    Gen.sysFuncs.all (fun r => Gen.sysFuncs.all (fun r' =>
      wordOf r.name != wordOf r'.name || (r.tt == r'.tt && r.argt == r'.argt && r.tag1 == r'.tag1 && r.tag2 == r'.tag2))) = true := by
  decide +kernel

-- non-vacuity: the table holds words with several spellings
example : (Gen.sysFuncs.filter (fun r => wordOf r.name == wordOf (cp "PLAY_FROM"))).length = 2 ∧
    (Gen.sysFuncs.filter (fun r => wordOf r.name == wordOf (cp "System.TimeBase"))).length ≥ 3 := by decide +kernel

/-- every named controller command has the standard controller number -/
theorem C15_cc_numbers : stdCc.all (fun p => hasRow p.1 Gen.tt_ControlChangeCommand p.2 0) = true := by
  decide +kernel

/-- …and the table contains no controller command that the specification does not list -/
theorem C15_cc_complete :
    (Gen.sysFuncs.filter (fun r => r.tt == Gen.tt_ControlChangeCommand)).all
      (fun r => stdCc.any (fun p => cp p.1 == r.name && (p.2 : Int) == r.tag1)) = true := by
  decide +kernel

theorem C15_rpn_addresses : stdRpn.all (fun p => hasRow p.1 Gen.tt_RPNCommand p.2.1 p.2.2) = true := by
  decide +kernel
theorem C15_rpn_complete :
    (Gen.sysFuncs.filter (fun r => r.tt == Gen.tt_RPNCommand)).all
      (fun r => stdRpn.any (fun p => cp p.1 == r.name && (p.2.1 : Int) == r.tag1 && (p.2.2 : Int) == r.tag2)) = true := by
  decide +kernel
theorem C15_nrpn_addresses : stdNrpn.all (fun p => hasRow p.1 Gen.tt_NRPNCommand p.2.1 p.2.2) = true := by
  decide +kernel
theorem C15_nrpn_complete :
    (Gen.sysFuncs.filter (fun r => r.tt == Gen.tt_NRPNCommand)).all
      (fun r => stdNrpn.any (fun p => cp p.1 == r.name && (p.2.1 : Int) == r.tag1 && (p.2.2 : Int) == r.tag2)) = true := by
  decide +kernel

/-- text commands carry their SMF meta type; all spellings listed -/
theorem C15_text_types : stdText.all (fun p => hasRow p.1 Gen.tt_MetaText p.2 0) = true := by
  decide +kernel
theorem C15_text_complete :
    (Gen.sysFuncs.filter (fun r => r.tt == Gen.tt_MetaText)).all
      (fun r => stdText.any (fun p => cp p.1 == r.name && (p.2 : Int) == r.tag1)) = true := by
  decide +kernel

/-- all spellings of Tempo / TimeSignature / Voice / PitchBend / CC are the same command -/
theorem C15_alias_families :
    stdTempo.all (fun n => hasRow n Gen.tt_Tempo 0 0) = true ∧
    stdTimeSig.all (fun n => hasRow n Gen.tt_TimeSignature 0 0) = true ∧
    stdVoice.all (fun n => hasRow n Gen.tt_Voice 0 0) = true ∧
    stdBendBig.all (fun n => hasRow n Gen.tt_PitchBend 0 0) = true ∧
    stdCcDirect.all (fun n => hasRow n Gen.tt_ControlChange 0 0) = true := by
  decide +kernel
theorem C15_alias_families_complete :
    (Gen.sysFuncs.filter (fun r => r.tt == Gen.tt_Tempo)).all (fun r => stdTempo.any (fun n => cp n == r.name)) = true ∧
    (Gen.sysFuncs.filter (fun r => r.tt == Gen.tt_TimeSignature)).all (fun r => stdTimeSig.any (fun n => cp n == r.name)) = true ∧
    (Gen.sysFuncs.filter (fun r => r.tt == Gen.tt_Voice)).all (fun r => stdVoice.any (fun n => cp n == r.name)) = true ∧
    (Gen.sysFuncs.filter (fun r => r.tt == Gen.tt_PitchBend)).all (fun r => stdBendBig.any (fun n => cp n == r.name)) = true := by
  decide +kernel

/-- resets: GM/GS/XG selectors -/
theorem C15_reset_rows :
    hasRow "ResetGM" Gen.tt_SysexReset 0 0 = true ∧ hasRow "ResetGS" Gen.tt_SysexReset 1 0 = true ∧
    hasRow "ResetXG" Gen.tt_SysexReset 2 0 = true := by decide +kernel

/-- the controller number named in a doc comment (`CC#n`) is the number in the table -/
theorem C15_doc_cc_agree :
    Gen.sysFuncs.all (fun r => r.docCc < 0 || (r.tag1 == r.docCc && r.tt == Gen.tt_ControlChangeCommand)) = true := by
  decide +kernel

/-- the same for the published command list `command.md` -/
theorem C15_command_md_cc_agree :
    Gen.commandMd.all (fun p => p.2 < 0 ||
      Gen.sysFuncs.any (fun r => r.name == p.1 && r.tag1 == p.2 && r.tt == Gen.tt_ControlChangeCommand)) = true := by
  decide +kernel

/-- every documented voice name (voice.md) is a variable whose value is its General MIDI number -/
theorem C15_voice_names :
    Gen.voiceMd.all (fun p => Gen.variables.any (fun v => v.name == p.2 && v.kind == 0 && v.i == p.1)) = true := by
  decide +kernel
theorem C15_voice_table_covers_gm :
    (List.range 128).all (fun i => Gen.voiceMd.any (fun p => p.1 == (i : Int) + 1)) = true := by
  decide +kernel

/-! ## byte layouts -/

def be24 (bs : List Nat) : Nat := match bs with | [a, b, c] => (a * 256 + b) * 256 + c | _ => 0

theorem valueRange_bounds (lo v hi : Int) (h : lo ≤ hi) : lo ≤ valueRange lo v hi ∧ valueRange lo v hi ≤ hi := by
  unfold valueRange; split <;> first | omega | (split <;> omega)

/-- the quotient 60,000,000 / t as a natural number below 2^24, for t in 10..300 -/
theorem mpq_nat (t : Int) (h1 : 10 ≤ t) (h2 : t ≤ 300) :
    ∃ n : Nat, Int.tdiv 60000000 t = (n : Int) ∧ (60000000:Int) / t = (n : Int) ∧ n ≤ 6000000 := by
  have hq0 : 0 ≤ (60000000:Int) / t := Int.ediv_nonneg (by omega) (by omega)
  have hm : (60000000:Int) / t * t ≤ 60000000 := Int.ediv_mul_le _ (by omega)
  have hm2 : (60000000:Int) / t * 10 ≤ (60000000:Int) / t * t := Int.mul_le_mul_of_nonneg_left h1 hq0
  generalize hq : (60000000:Int) / t = q at hq0 hm hm2
  obtain ⟨n, rfl⟩ := Int.eq_ofNat_of_zero_le hq0
  refine ⟨n, ?_, rfl, by omega⟩
  rw [Int.tdiv_eq_ediv_of_nonneg (by omega), hq]

/-- `tempo_change` for a tempo in 10..300: data bytes = 60,000,000 / tempo, big-endian 24 bit -/
theorem tempoEvent_bytes (time t : Int) (h1 : 10 ≤ t) (h2 : t ≤ 300) :
    (be24 (tempoEvent time t).data : Int) = 60000000 / t := by
  obtain ⟨n, hq, he, hn⟩ := mpq_nat t h1 h2
  have hpos : t > 0 := by omega
  simp only [tempoEvent, tempoData, tempoMpq, hpos, if_true, hq, he, be24, u8]
  omega

/-- `Tempo(bpm)`: FF 51 03 and the three data bytes are exactly 60,000,000 / clamp(bpm), for every bpm -/
theorem C15_tempo_bytes (time bpm : Int) :
    (tempoCmd time bpm).v1 = 0xFF ∧ (tempoCmd time bpm).v2 = 0x51 ∧ (tempoCmd time bpm).v3 = 3 ∧
    (tempoCmd time bpm).data.length = 3 ∧
    (be24 (tempoCmd time bpm).data : Int) = 60000000 / (valueRange 10 bpm 300) := by
  have hr := valueRange_bounds 10 bpm 300 (by decide)
  exact ⟨rfl, rfl, rfl, rfl, tempoEvent_bytes time _ hr.1 hr.2⟩

/-- the model's Tempo event is the message the specification prescribes -/
theorem C15_tempo_spec (time bpm : Int) :
    decodeMsg (body (tempoCmd time bpm)) = some (tempoMsg bpm, []) := by
  have hr := valueRange_bounds 10 bpm 300 (by decide)
  have hc : clampI 10 bpm 300 = valueRange 10 bpm 300 := rfl
  unfold tempoCmd
  simp only [tempoMsg, hc]
  generalize valueRange 10 bpm 300 = t at hr
  obtain ⟨n, hq, he, hn⟩ := mpq_nat t hr.1 hr.2
  have hpos : t > 0 := by omega
  simp only [tempoEvent, tempoData, tempoMpq, hpos, if_true, hq, he, body, u8]
  have e1 : ((n:Int) / 65536 % 256 % 256).toNat = n / 65536 % 256 := by omega
  have e2 : ((n:Int) / 256 % 256 % 256).toNat = n / 256 % 256 := by omega
  have e3 : ((n:Int) % 256 % 256).toNat = n % 256 := by omega
  have e0 : ((255:Int) % 256).toNat = 255 := by decide
  have e51 : ((81:Int) % 256).toNat = 81 := by decide
  have e03 : ((3:Int) % 256).toNat = 3 := by decide
  simp only [e0, e1, e2, e3, e51, e03, Int.toNat_natCast]
  have b1 : n / 65536 % 256 < 256 := Nat.mod_lt _ (by decide)
  have b2 : n / 256 % 256 < 256 := Nat.mod_lt _ (by decide)
  have b3 : n % 256 < 256 := Nat.mod_lt _ (by decide)
  simp [decodeMsg, d7, decodeVlq, b1, b2, b3]

/-- pitch bend is 14-bit, LSB first; a value outside the 14 bits is written as the nearest end of the range -/
theorem C15_bend_bytes (e : Event) (hk : e.kind = .pitchBend) (h0 : 0 ≤ e.ch) (h1 : e.ch < 16) :
    body e = [0xE0 + e.ch.toNat, (clamp14 e.v1 % 128).toNat, (clamp14 e.v1 / 128 % 128).toNat] := by
  simp [body, hk, status_eq _ _ h0 h1]

/-- …so the two data bytes always denote `clamp14 v`: the value itself inside 0..16383, (0,0) below, (127,127) above — never a wrapped value -/
theorem C15_bend_never_wraps (v : Int) :
    (clamp14 v / 128 % 128) * 128 + clamp14 v % 128 = clamp14 v ∧ (0 ≤ v → v ≤ 16383 → clamp14 v = v) ∧
      (v < 0 → clamp14 v = 0) ∧ (16383 < v → clamp14 v = 16383) := by
  unfold clamp14
  refine ⟨?_, ?_, ?_, ?_⟩
  · split
    · decide
    · split
      · decide
      · omega
  · intro h0 h1; rw [if_neg (by omega), if_neg (by omega)]
  · intro h; rw [if_pos h]
  · intro h; rw [if_neg (by omega), if_pos h]

/-- `PitchBend(0)` is the centre 8192 = (LSB 0, MSB 64); `PitchBend(v)` is v + 8192 -/
theorem C15_bend_centre : bendValue false 0 = 8192 ∧ ((8192:Int) % 128, (8192:Int) / 128 % 128) = (0, 64) := by decide
theorem C15_bend_big_roundtrip (v : Int) (h0 : -8192 ≤ v) (h1 : v ≤ 8191) :
    (bendValue false v / 128 % 128) * 128 + bendValue false v % 128 = v + 8192 := by
  unfold bendValue; simp only [Bool.false_eq_true, if_false]; omega
/-- `p(n)` is n × 128: LSB 0, MSB n -/
theorem C15_bend_small (n : Int) (h0 : 0 ≤ n) (h1 : n < 128) :
    bendValue true n % 128 = 0 ∧ bendValue true n / 128 % 128 = n := by
  unfold bendValue; simp only [if_true]; omega

/-- time signature: FF 58 04 nn log2(dd) 24 8 -/
theorem C15_timesig_bytes (time a b : Int) (ha : 2 ≤ a ∧ a ≤ 64) (hb : b = 2 ∨ b = 4 ∨ b = 8 ∨ b = 16) :
    (timeSigEvent time a b).v2 = 0x58 ∧ (timeSigEvent time a b).v3 = 4 ∧
    (timeSigEvent time a b).data = [a.toNat, log2d b, 24, 8] := by
  refine ⟨rfl, rfl, ?_⟩
  have hva : valueRange 2 a 64 = a := by unfold valueRange; split <;> first | omega | (split <;> omega)
  have hu : u8 a = a.toNat := by unfold u8; omega
  rcases hb with rfl | rfl | rfl | rfl <;> simp [timeSigEvent, hva, hu] <;> decide

/-- Roland checksum: address + data + checksum ≡ 0 (mod 128), for every sum -/
theorem C15_checksum_law (sum : Int) :
    (sum + (128 - sum % 128) % 128) % 128 = 0 ∧ 0 ≤ (128 - sum % 128) % 128 ∧ (128 - sum % 128) % 128 < 128 := by
  omega

/-- inside a checksum group the bytes are copied and summed; the closing marker writes the byte that makes the sum 0 modulo 128 -/
theorem sysexGo_group (g : List Int) (hg : ∀ x ∈ g, 0 ≤ x ∧ x < 128) (rest : List Int) : ∀ (sum : Int),
    sysexGo true sum (g ++ -2 :: rest) =
      g.map Int.toNat ++ ((128 - (sum + g.foldl (· + ·) 0) % 128) % 128).toNat :: sysexGo false (sum + g.foldl (· + ·) 0) rest := by
  induction g with
  | nil => intro sum; simp [sysexGo]
  | cons x r ih =>
    intro sum
    obtain ⟨h0, h1⟩ := hg x List.mem_cons_self
    have hr : ∀ y ∈ r, 0 ≤ y ∧ y < 128 := fun y hy => hg y (List.mem_cons_of_mem _ hy)
    have hx2 : ¬ (x = -2) := by omega
    have hx1 : ¬ (x = -1) := by omega
    have hu : u8 x = x.toNat := by unfold u8; omega
    have hf : ∀ (a : Int) (l : List Int), l.foldl (· + ·) a = a + l.foldl (· + ·) 0 := by
      intro a l
      induction l generalizing a with
      | nil => simp
      | cons y t iht => simp only [List.foldl_cons]; rw [iht (a + y), iht (0 + y)]; omega
    simp only [List.cons_append, sysexGo, hx2, hx1, Bool.true_and, decide_false, Bool.false_eq_true, if_false, if_true, hu, List.map_cons,
      List.foldl_cons]
    rw [ih hr (sum + x), hf (0 + x) r]
    simp only [Int.zero_add, Int.add_assoc]

/-- **every checksum group of a SysEx gets its own Roland checksum**: a group `{g}` (bytes 0..127) is written as its bytes followed by
    the byte that makes their sum a multiple of 128 — whatever groups came before it -/
theorem C15_sysex_group_checksum (flag : Bool) (sum : Int) (g : List Int) (hg : ∀ x ∈ g, 0 ≤ x ∧ x < 128) (rest : List Int) :
    ∃ tail, sysexGo flag sum (-1 :: g ++ -2 :: rest) = g.map Int.toNat ++ ((128 - (g.foldl (· + ·) 0) % 128) % 128).toNat :: tail ∧
      (g.foldl (· + ·) 0 + (128 - (g.foldl (· + ·) 0) % 128) % 128) % 128 = 0 := by
  refine ⟨sysexGo false (0 + g.foldl (· + ·) 0) rest, ?_, by omega⟩
  have h1 : ¬ ((-1 : Int) = -2) := by decide
  rw [List.cons_append, sysexGo]
  simp only [h1, decide_false, Bool.and_false, Bool.false_eq_true, if_false, if_true]
  rw [sysexGo_group g hg rest 0]
  simp

/-- text cut: the kept text is a prefix… -/
theorem C15_text_cut_prefix (cs : List Nat) : ∀ cnt, ∃ r, cs = metaTextCut cnt cs ++ r := by
  induction cs with
  | nil => intro _; exact ⟨[], rfl⟩
  | cons c cs ih =>
    intro cnt
    simp only [metaTextCut]
    split
    · obtain ⟨r, hr⟩ := ih (cnt + utf8Len1 c); exact ⟨r, by simp [← hr]⟩
    · exact ⟨c :: cs, rfl⟩

def utf8Len (cs : List Nat) : Nat := (cs.map utf8Len1).sum

/-- …of whole characters with at most 127 bytes of UTF-8… -/
theorem C15_text_cut_bound (cs : List Nat) : ∀ cnt, cnt + utf8Len (metaTextCut cnt cs) < 128 ∨ cnt ≥ 128 := by
  induction cs with
  | nil => intro cnt; simp [metaTextCut, utf8Len]; omega
  | cons c cs ih =>
    intro cnt
    simp only [metaTextCut]
    split
    · rename_i h
      rcases ih (cnt + utf8Len1 c) with h2 | h2
      · left; simp [utf8Len] at h2 ⊢; omega
      · omega
    · simp [utf8Len]; omega

/-- …and maximal: the first dropped character would not have fitted -/
theorem C15_text_cut_maximal (cs : List Nat) : ∀ cnt r c, cs = metaTextCut cnt cs ++ c :: r →
    (∀ x ∈ cs, 1 ≤ utf8Len1 x) → cnt + utf8Len (metaTextCut cnt cs) + utf8Len1 c ≥ 128 := by
  induction cs with
  | nil => intro cnt r c h; simp [metaTextCut] at h
  | cons d ds ih =>
    intro cnt r c h hp
    simp only [metaTextCut] at h ⊢
    split at h
    · rename_i hlt
      simp only [hlt, if_true]
      simp only [List.cons_append, List.cons.injEq, true_and] at h
      have := ih (cnt + utf8Len1 d) r c h (fun x hx => hp x (List.mem_cons_of_mem _ hx))
      simp [utf8Len] at this ⊢; omega
    · rename_i hge
      simp only [hge, if_false]
      simp only [List.nil_append, List.cons.injEq] at h
      simp [utf8Len, ← h.1]; omega

/-- the spec's text cut and the model's loop are the same function -/
theorem C15_text_cut_spec (cs : List Nat) (cnt : Nat) : metaTextCut cnt cs = Spec.textCut cnt cs := by
  induction cs generalizing cnt with
  | nil => rfl
  | cons c cs ih =>
    simp only [metaTextCut, Spec.textCut, ih]
    rfl

-- non-vacuity
example : be24 (tempoCmd 0 120).data = 500000 := by decide
example : metaTextCut 0 (List.replicate 200 65) = List.replicate 127 65 := by decide

end Sakura.Props.C15
