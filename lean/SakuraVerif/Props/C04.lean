import SakuraVerif.Lemmas.Length
/-! # C04 — note-length expressions denote the documented tick counts and compose additively

`calcLength tb dflt s` is the model of `runner::calc_length(s, timebase, def_len)` on the text `s`.
For **every** expression of the grammar `[%]?[-]?digits? dots? ((^|+) part)*` (any number of parts,
any digits, any time base and default) the theorems give its value in closed form, from which the
documented laws follow: `n` ↦ whole note / n, omitted ↦ default, `%t` ↦ t ticks, dots add the
successive halves, `^`/`+` add the value of the following part (default when empty), and
`len(A^B) = len(A) + len(B)`.  The result is a function of `(s, tb, dflt)` only (by type). -/
namespace Sakura.Props.C04
open Sakura.Len

/-- closed form for every expression of the grammar: head value + sum of the part values -/
theorem C04_closed_form (tb dflt : Int) (h : PartSyn) (ps : List (Nat × PartSyn))
    (hd : ∀ c ∈ h.digs, isDigit c = true) (hk : h.dots ≤ 4)
    (hsep : ∀ sp ∈ ps, sp.1 = 94 ∨ sp.1 = 43) (hw : ∀ sp ∈ ps, sp.2.wf)
    (hne : render h ++ segs ps ≠ []) :
    calcLength tb dflt (render h ++ segs ps) = headVal tb dflt h + sumVals tb dflt ps := by
  unfold calcLength
  simp only [hne, if_false]
  rw [head_closed tb dflt h hd hk (fun _ => Or.inr trivial) (segs ps) (segs_boundary ps hsep)]
  simp only []
  rw [loop_sum tb dflt ps hsep hw _ (by have := segs_length_ge ps; omega)]

/-- the empty expression is the default length -/
theorem C04_empty (tb dflt : Int) : calcLength tb dflt [] = dflt := by simp [calcLength]

/-- additivity: appending parts `B` (each introduced by `^` or `+`) to any expression `A` adds
    exactly the value of `B`; `len(A^B) = len(A) + len(B)` -/
theorem C04_additive (tb dflt : Int) (h : PartSyn) (ps qs : List (Nat × PartSyn))
    (hd : ∀ c ∈ h.digs, isDigit c = true) (hk : h.dots ≤ 4)
    (hsp : ∀ sp ∈ ps, sp.1 = 94 ∨ sp.1 = 43) (hwp : ∀ sp ∈ ps, sp.2.wf)
    (hsq : ∀ sp ∈ qs, sp.1 = 94 ∨ sp.1 = 43) (hwq : ∀ sp ∈ qs, sp.2.wf)
    (hne : render h ++ segs ps ≠ []) :
    calcLength tb dflt (render h ++ segs ps ++ segs qs)
      = calcLength tb dflt (render h ++ segs ps) + sumVals tb dflt qs := by
  have hs : ∀ sp ∈ ps ++ qs, sp.1 = 94 ∨ sp.1 = 43 := by
    intro sp h; rcases List.mem_append.mp h with h | h; exact hsp sp h; exact hsq sp h
  have hw : ∀ sp ∈ ps ++ qs, sp.2.wf := by
    intro sp h; rcases List.mem_append.mp h with h | h; exact hwp sp h; exact hwq sp h
  have hne' : render h ++ segs (ps ++ qs) ≠ [] := by
    rw [segs_append, ← List.append_assoc]
    intro h0
    exact hne (List.append_eq_nil_iff.mp h0).1
  rw [List.append_assoc, ← segs_append, C04_closed_form tb dflt h (ps ++ qs) hd hk hs hw hne',
    C04_closed_form tb dflt h ps hd hk hsp hwp hne, sumVals_append]
  omega

/-- an empty part (`^` followed by nothing numeric) adds the default length -/
theorem C04_empty_part (tb dflt : Int) (p : PartSyn) (h : p.digs = [] ∧ p.neg = false) :
    partVal tb dflt p = dflt := by simp [partVal, h]

/-- `n` (n > 0): a whole note divided by n, i.e. `4*timebase/n` ticks, then the dots -/
theorem C04_len_n (tb dflt : Int) (p : PartSyn) (hp : p.pct = false) (hn : rawOf p 4 > 0)
    (hd : p.digs ≠ []) :
    headVal tb dflt p = dotV p.dots (Int.tdiv (tb * 4) (rawOf p 4)) ∧
    partVal tb dflt p = dotV p.dots (Int.tdiv (tb * 4) (rawOf p 4)) := by
  have h0 : ¬ (rawOf p 4 = 0) := by omega
  simp [headVal, partVal, hp, hn, hd, h0]

/-- `%t`: exactly t ticks -/
theorem C04_len_step (tb dflt : Int) (p : PartSyn) (hp : p.pct = true) (hd : p.digs ≠ []) :
    headVal tb dflt p = dotV p.dots (rawOf p 0) ∧ partVal tb dflt p = dotV p.dots (rawOf p 0) := by
  simp [headVal, partVal, hp, hd]

/-- omitted length: the current default (dotted if dots follow) -/
theorem C04_len_omitted (tb dflt : Int) (p : PartSyn) (h : p.digs = [] ∧ p.neg = false) :
    headVal tb dflt p = dotV p.dots dflt := by simp [headVal, h]

/-- dots add the successive halves of the undotted value (exactly, when it is divisible) -/
theorem C04_dots (v : Int) (h : 0 ≤ v) :
    dotV 0 v = v ∧
    (2 ∣ v → dotV 1 v = v + v / 2) ∧
    (4 ∣ v → dotV 2 v = v + v / 2 + v / 4) ∧
    (8 ∣ v → dotV 3 v = v + v / 2 + v / 4 + v / 8) ∧
    (16 ∣ v → dotV 4 v = v + v / 2 + v / 4 + v / 8 + v / 16) := by
  refine ⟨rfl, ?_, ?_, ?_, ?_⟩
  · intro ⟨k, hk⟩; subst hk
    simp only [dotV]; rw [Int.tdiv_eq_ediv_of_nonneg (by omega)]
  · intro ⟨k, hk⟩; subst hk
    simp only [dotV]; rw [Int.tdiv_eq_ediv_of_nonneg (by omega)]; omega
  · intro ⟨k, hk⟩; subst hk
    simp only [dotV]; rw [Int.tdiv_eq_ediv_of_nonneg (by omega)]; omega
  · intro ⟨k, hk⟩; subst hk
    simp only [dotV]; rw [Int.tdiv_eq_ediv_of_nonneg (by omega)]; omega

/-- in general the dotted value is `v + ⌊v·(2ᵏ−1)/2ᵏ⌋` (truncation, as the `as isize` cast) -/
theorem C04_dots_general (v : Int) :
    dotV 1 v = v + Int.tdiv v 2 ∧ dotV 2 v = v + Int.tdiv (v * 3) 4 ∧
    dotV 3 v = v + Int.tdiv (v * 7) 8 ∧ dotV 4 v = v + Int.tdiv (v * 15) 16 := ⟨rfl, rfl, rfl, rfl⟩

/-- `!L` as a numeric argument: `read_arg_value` evaluates `calc_length(L, timebase, timebase)` -/
def bangValue (tb : Int) (L : List Nat) : Int := calcLength tb tb L
theorem C04_bang (tb : Int) (L : List Nat) : bangValue tb L = calcLength tb tb L := rfl

-- non-vacuity: concrete expressions at several time bases (kernel-evaluated on the model itself)
example : calcLength 96 96 [52, 46] = 144 := by decide                  -- "4."
example : calcLength 48 48 [56, 94, 52, 46] = 96 := by decide          -- "8^4."
example : calcLength 480 240 [52, 46, 94] = 960 := by decide            -- "4.^"
example : calcLength 96 96 [37, 49, 48, 94, 52] = 106 := by decide      -- "%10^4" = 10 + 96
example : calcLength 96 48 [94, 37, 45, 49] = 47 := by decide           -- "^%-1"

end Sakura.Props.C04
