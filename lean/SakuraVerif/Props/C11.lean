import SakuraVerif.Model.ControlFlow
import SakuraVerif.Gen.Consts
import SakuraVerif.Lemmas.ScriptStack
import SakuraVerif.Lemmas.ScriptScope
import SakuraVerif.Lemmas.ScriptFlags
import SakuraVerif.Lemmas.ScriptLaws
/-! # C11 (mechanism level) — IF/FOR/WHILE/BREAK/CONTINUE behave like the unrolled program

`execWhile` / `execFor` model `runner::exec_while` / `exec_for` literally, parametric in the effect
of condition, body and increment (so the theorems hold for **every** body, any nesting inside it).
Unrolling equations, scope of BREAK/CONTINUE (consumed by exactly the innermost loop), RETURN
propagating with flag 3, and the iteration limit: after `max_loop + 1 = 10001` passes exactly one
error entry is logged, a pending BREAK/CONTINUE is cleared and execution continues. -/
namespace Sakura.Props.C11
open Sakura.Ctl

/-- WHILE = the body written once per true condition -/
theorem C11_while_unroll {σ} (o : Ops σ) (maxLoop : Nat) :
    ∀ (k F c : Nat) (s : σ), RunsFor o o.body k s → c + k ≤ maxLoop → k + 1 ≤ F →
      execWhile o maxLoop F c s = iterate o.body k s := by
  intro k
  induction k with
  | zero =>
    intro F c s h _ hF
    obtain ⟨f, rfl⟩ : ∃ f, F = f + 1 := ⟨F - 1, by omega⟩
    simp only [RunsFor] at h
    simp [execWhile, h, iterate]
  | succ k ih =>
    intro F c s h hc hF
    obtain ⟨f, rfl⟩ : ∃ f, F = f + 1 := ⟨F - 1, by omega⟩
    obtain ⟨h1, h2, h3⟩ := h
    have hl : ¬ (c + 1 > maxLoop) := by omega
    simp only [execWhile, h1, hl, h2, iterate]
    simp
    exact ih f (c+1) (o.body s) h3 (by omega) (by omega)

/-- FOR = (body; increment) written once per true condition -/
theorem C11_for_unroll {σ} (o : Ops σ) (maxLoop : Nat) :
    ∀ (k F c : Nat) (s : σ), RunsFor o (fun s => o.inc (o.body s)) k s → c + k ≤ maxLoop → k + 1 ≤ F →
      execFor o maxLoop F c s = iterate (fun s => o.inc (o.body s)) k s := by
  intro k
  induction k with
  | zero =>
    intro F c s h _ hF
    obtain ⟨f, rfl⟩ : ∃ f, F = f + 1 := ⟨F - 1, by omega⟩
    simp only [RunsFor] at h
    simp [execFor, h, iterate]
  | succ k ih =>
    intro F c s h hc hF
    obtain ⟨f, rfl⟩ : ∃ f, F = f + 1 := ⟨F - 1, by omega⟩
    obtain ⟨h1, h2, h3⟩ := h
    have hl : ¬ (c + 1 > maxLoop) := by omega
    simp only [execFor, h1, hl, h2, iterate]
    simp
    exact ih f (c+1) _ h3 (by omega) (by omega)

/-- BREAK leaves exactly this loop and is consumed by it -/
theorem C11_break {σ} (o : Ops σ) (maxLoop f c : Nat) (s : σ)
    (hc : o.cond s = true) (hl : c + 1 ≤ maxLoop) (hb : o.flag (o.body s) = 1) :
    execWhile o maxLoop (f+1) c s = o.clearFlag (o.body s) ∧ execFor o maxLoop (f+1) c s = o.clearFlag (o.body s) := by
  have : ¬ (c + 1 > maxLoop) := by omega
  simp [execWhile, execFor, hc, this, hb]

/-- CONTINUE is consumed by this loop, which goes on with the next pass (FOR: after the increment) -/
theorem C11_continue {σ} (o : Ops σ) (maxLoop f c : Nat) (s : σ)
    (hc : o.cond s = true) (hl : c + 1 ≤ maxLoop) (hb : o.flag (o.body s) = 2) :
    execWhile o maxLoop (f+1) c s = execWhile o maxLoop f (c+1) (o.clearFlag (o.body s)) ∧
    execFor o maxLoop (f+1) c s = execFor o maxLoop f (c+1) (o.inc (o.clearFlag (o.body s))) := by
  have : ¬ (c + 1 > maxLoop) := by omega
  simp [execWhile, execFor, hc, this, hb]

/-- RETURN (flag 3) ends a WHILE at once and is *not* consumed: it propagates to the call -/
theorem C11_return_leaves_while {σ} (o : Ops σ) (maxLoop f c : Nat) (s : σ)
    (hc : o.cond s = true) (hl : c + 1 ≤ maxLoop) (hb : o.flag (o.body s) = 3) :
    execWhile o maxLoop (f+1) c s = o.body s := by
  have : ¬ (c + 1 > maxLoop) := by omega
  simp [execWhile, hc, this, hb]

/-- the cut-off: a loop that never ends stops after maxLoop + 1 passes with one logged entry -/
theorem C11_loop_limit {σ} (o : Ops σ) (maxLoop : Nat)
    (hc : ∀ s, o.cond s = true) (hf : ∀ s, o.flag (o.body s) = 0) :
    ∀ (c F : Nat) (s : σ), c ≤ maxLoop → maxLoop + 2 - c ≤ F →
      execWhile o maxLoop F c s = cutOff o (iterate o.body (maxLoop + 1 - c) s) := by
  intro c F s hcm hF
  induction h : maxLoop - c generalizing c F s with
  | zero =>
    have : c = maxLoop := by omega
    subst this
    obtain ⟨f, rfl⟩ : ∃ f, F = f + 1 := ⟨F - 1, by omega⟩
    have e : c + 1 - c = 1 := by omega
    simp [execWhile, hc, e, iterate]
  | succ d ih =>
    obtain ⟨f, rfl⟩ : ∃ f, F = f + 1 := ⟨F - 1, by omega⟩
    have hl : ¬ (c + 1 > maxLoop) := by omega
    have e : maxLoop + 1 - c = (maxLoop + 1 - (c+1)) + 1 := by omega
    simp only [execWhile, hc, hl, hf, e, iterate]
    simp
    have e2 : maxLoop - c = maxLoop + 1 - (c + 1) := by omega
    rw [e2]
    exact ih (c+1) f (o.body s) (by omega) (by omega) (by omega)

/-- after the cut-off no BREAK/CONTINUE is pending, whatever the last pass did: compilation
    continues with the statement after the loop -/
theorem C11_cutoff_clears {σ} (o : Ops σ) (s : σ) (hclear : ∀ x, o.flag (o.clearFlag x) = 0) :
    o.flag (cutOff o s) ≠ 1 ∧ o.flag (cutOff o s) ≠ 2 := by
  unfold cutOff
  split
  · simp [hclear]
  · rename_i h; omega

/-- the limit is the regenerated `Flags::new().max_loop` -/
theorem C11_max_loop : Gen.flagsNew_max_loop = 10000 ∧ Gen.flagsNew_break_flag = 0 := by decide

-- non-vacuity: counting loop `WHILE(I<3){I++}` and `WHILE(1){ I++ CONTINUE }` on a concrete state
def cnt : Ops (Nat × Nat × Nat) :=   -- (I, flag, logs)
  { cond := fun s => s.1 < 3, body := fun s => (s.1 + 1, s.2), inc := id, flag := fun s => s.2.1,
    clearFlag := fun s => (s.1, 0, s.2.2), logLimit := fun s => (s.1, s.2.1, s.2.2 + 1) }
example : execWhile cnt 10000 10 0 (0, 0, 0) = (3, 0, 0) := by decide
def spin : Ops (Nat × Nat × Nat) :=
  { cond := fun _ => true, body := fun s => (s.1 + 1, 2, s.2.2), inc := id, flag := fun s => s.2.1,
    clearFlag := fun s => (s.1, 0, s.2.2), logLimit := fun s => (s.1, s.2.1, s.2.2 + 1) }
example : execWhile spin 5 20 0 (0, 0, 0) = (6, 0, 1) := by decide

/-! ## the literal script runner (`Model.ScriptExec`, tied to `runner::exec` on real token lists by the stream `scriptexec`) -/

open Sakura.Sx in
/-- **a call leaves no value behind** — stack discipline of the whole script layer: for every function table whose bodies are
    statement lists and every program of statement tokens (the shapes the lexer produces: declarations, assignments, PRINT, IF,
    FOR, WHILE, BREAK, CONTINUE, RETURN, calls as statements and inside expressions with any arguments, empty argument slots),
    with any nesting and any fuel, the value stack is empty again after the run.  An omitted argument therefore never finds a
    stale value and takes its declared default.  (Before the repair d9451f4 this was false of the code: the flag
    `function_needs_return_value` stayed set inside a called function's body.) -/
theorem C11_call_leaves_no_value (fns : List Fn) (hfn : FnsOK fns) (toks : List Tok) (ht : ∀ t ∈ toks, Stm fns t) (fuel : Nat) :
    (run fns toks fuel).stack = [] :=
  run_stack_empty fns hfn toks ht fuel

open Sakura.Sx in
/-- evaluating an expression or an argument list (`exec_value`, `exec_args`) leaves the needs-a-value flag as it found it — whatever the
    tokens do, and also when they leave nothing on the stack (`INT N` without an initial value: the value is then 0).  A statement that
    follows, on this track or a later one, is therefore run as a statement. -/
theorem C11_value_restores_flag (run : List Tok → St → St) (runArgs : List Tok → St → List V × St) (toks : List Tok) (s : St) :
    (valueWith run toks s).2.needRet = s.needRet ∧ (argsWith runArgs toks s).2.needRet = s.needRet ∧
    ((run toks { s with needRet := true }).stack = [] → (valueWith run toks s).1 = some (.int 0)) := by
  refine ⟨rfl, rfl, fun h => ?_⟩
  simp only [valueWith, pop, h]

open Sakura.Sx in
/-- the same for every statement in every reachable context: run from an empty stack with the flag clear, a statement leaves
    the stack empty and the flag clear; an argument run with the flag set leaves at most one value -/
theorem C11_stack_discipline (fns : List Fn) (hfn : FnsOK fns) (f : Nat) :
    (∀ t s, Stm fns t → s.stack = [] → s.needRet = false → (execTok fns f t s).stack = [] ∧ (execTok fns f t s).needRet = false) ∧
    (∀ t s, Arg fns t → s.stack = [] → s.needRet = true → (execTok fns f t s).stack.length ≤ 1 ∧ (execTok fns f t s).needRet = true) :=
  ⟨(allOK fns hfn f).1, (allOK fns hfn f).2.2.1⟩

open Sakura.Sx in
/-- **parameters and local declarations never change the caller's variables**: after the call arm — whatever the arguments and
    the body do: declarations, assignments, nested calls, RETURN from inside loops — the stack of variable scopes is exactly the
    caller's again (no hypothesis on the tokens or on the function table) -/
theorem C11_call_keeps_callers_scopes (fns : List Fn) (f : Nat) (vi tag line : Int) (vs : Option (List Nat)) (data : List Dat)
    (ch : Option (List Tok)) (s : St) :
    (execTok fns f (.mk .callUser vi tag line vs data ch) s).scopes = s.scopes :=
  call_scopes fns f vi tag line vs data ch s

open Sakura.Sx in
/-- no statement, loop or expression touches any scope below the innermost one -/
theorem C11_only_innermost_scope_written (fns : List Fn) (f : Nat) (l : List Tok) (s : St) :
    (execList fns f l s).scopes.length = s.scopes.length ∧ (execList fns f l s).scopes.drop 1 = s.scopes.drop 1 :=
  exec_frame fns f l s

open Sakura.Sx in
/-- **BREAK and CONTINUE affect only the innermost enclosing loop**: whatever the body is (any tokens), a WHILE loop that is
    entered without a pending BREAK/CONTINUE returns without one; its condition — an expression, which may call functions —
    cannot raise the flag -/
theorem C11_while_consumes_break (fns : List Fn) (f : Nat) (line : Int) (c b : List Tok) (k : Nat) (s : St) (hc : ValL fns c)
    (hs : s.brk ≠ 1 ∧ s.brk ≠ 2) :
    (whileGo fns f line c b k s).brk ≠ 1 ∧ (whileGo fns f line c b k s).brk ≠ 2 :=
  while_consumes_break fns f line c b k s hc hs

open Sakura.Sx in
/-- the same for FOR (the increment clause must itself not raise the flags, as `I++` and assignments do not) -/
theorem C11_for_consumes_break (fns : List Fn) (f : Nat) (line : Int) (c n b : List Tok) (k : Nat) (s : St) (hc : ValL fns c)
    (hn : ∀ g s, s.brk ≠ 1 ∧ s.brk ≠ 2 → (execList fns g n s).brk ≠ 1 ∧ (execList fns g n s).brk ≠ 2) (hs : s.brk ≠ 1 ∧ s.brk ≠ 2) :
    (forGo fns f line c n b k s).brk ≠ 1 ∧ (forGo fns f line c n b k s).brk ≠ 2 :=
  for_consumes_break fns f line c n b k s hc hn hs

open Sakura.Sx in
/-- **IF runs exactly one branch** (literal runner): the THEN block when the condition's value is not 0, else the ELSE block -/
theorem C11_if_runs_one_branch (fns : List Fn) (f : Nat) (vi tag line : Int) (vs : Option (List Nat)) (data : List Dat) (c th el : Tok)
    (rest : List Tok) (s : St) :
    execTok fns (f + 1) (.mk .if_ vi tag line vs data (some (c :: th :: el :: rest))) s =
      (if (valueWith (execList fns f) c.kids s).1.toI ≠ 0
       then execList fns f th.kids (valueWith (execList fns f) c.kids s).2
       else execList fns f el.kids (valueWith (execList fns f) c.kids s).2) :=
  if_one_branch fns f vi tag line vs data c th el rest s

open Sakura.Sx in
/-- **RETURN (and BREAK, CONTINUE) end the run of a block at once**: what follows a statement that leaves a flag pending is not executed -/
theorem C11_return_ends_block (fns : List Fn) (f : Nat) (t : Tok) (rest : List Tok) (s : St) (hs : s.brk = 0)
    (ht : (execTok fns (f + 1) t s).brk ≠ 0) :
    execList fns (f + 2) (t :: rest) s = execTok fns (f + 1) t s :=
  after_flag_nothing_runs fns f t rest s hs ht

open Sakura.Sx in
/-- **arguments are bound positionally; an omitted one takes its declared default** -/
theorem C11_args_bound_positionally (fn : Fn) (argv : List V) (s : St) (hs : s.scopes ≠ []) (hnd : fn.args.Nodup) (i : Nat)
    (hi : i < fn.args.length) :
    getVar (bindParams fn argv s).scopes (fn.args[i]) =
      some (match argv.getD i none with | none => fn.defs.getD i none | some x => some x) :=
  bindParams_binds fn argv s hs hnd i hi

-- non-vacuity: the token list of `FUNCTION FA(JB=7){ RETURN(JB) } FA(); PRINT(FA())` is inside the classes
open Sakura.Sx in
def demoFns : List Fn :=
  [⟨[[74, 66]], [some (.int 7)], [.mk .return_ 0 0 0 none [] (some [.mk .tokens 0 0 0 none [] (some [.mk .getVariable 0 0 0 (some [74, 66]) [] none])])]⟩]
open Sakura.Sx in
def demoToks : List Tok :=
  [.mk .callUser 0 0 0 none [] (some [.mk .tokens 0 0 0 none [] (some [])]),
   .mk .print 0 0 0 none [] (some [.mk .tokens 0 0 0 none [] (some [.mk .callUser 1 0 0 none [] (some [])])])]
open Sakura.Sx in
example : FnsOK demoFns ∧ (∀ t ∈ demoToks, Stm demoFns t) := by
  constructor
  · intro fn hfn t ht
    simp only [demoFns, List.mem_cons, List.not_mem_nil, or_false] at hfn
    subst hfn
    simp only [List.mem_cons, List.not_mem_nil, or_false] at ht
    subst ht
    exact Stm.return_ _ _ _ _ _ _ (Or.inr ⟨_, rfl, Arg.ex (Ex.wrap _ _ _ _ _ _ (Ex.getVar _ _ _ _ _ _))⟩)
  · intro t ht
    simp only [demoToks, List.mem_cons, List.not_mem_nil, or_false] at ht
    rcases ht with rfl | rfl
    · exact Stm.call _ _ _ _ _ _ (by decide) (by decide) (by intro a ha; simp at ha; subst ha; exact Arg.empty _ _ _ _ _)
    · refine Stm.print _ _ _ _ _ _ ?_
      intro a ha; simp at ha; subst ha
      exact Arg.ex (Ex.wrap _ _ _ _ _ _ (Ex.call _ _ _ _ _ _ (by decide) (by decide) (by intro a ha; simp at ha)))

end Sakura.Props.C11
