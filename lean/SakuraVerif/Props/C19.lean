import SakuraVerif.Gen.Consts
import SakuraVerif.Lemmas.LexUnknown
import SakuraVerif.Lemmas.LexCompose
/-! # C19 — errors carry the right line, never derail the music, and the log stays bounded

Model of the logging primitives of `song.rs` / `lexer.rs` (`Song::add_log`, `get_logs_str`,
`lex_error`) with the limits regenerated from the source, and of the cursor's line accounting.
* the log never holds more than 100 entries, for every sequence of logging calls;
* lexer errors alone produce at most 30 entries plus one "too many errors" notice;
* the log text is cut at 4096 characters plus `...`;
* no `println!` outside an `if …debug` / `flag_stdout` guard exists in the library (frame fact,
  regenerated on every run): with debug off nothing is written to standard output;
* `get_token_ch` / line counting: the line of a position is the number of `\n` before it;
* on the literal lexer model (`Model.Lexer`, tied by the `lexer` stream): an unknown character written between two programs of the
  block language costs exactly one error entry — its line, the character, the text after it — and the tokens are those of the
  two programs written one after the other (`C19_unknown_char_skipped`). -/
namespace Sakura.Props.C19
open Sakura

def maxLogs : Nat := 100
def maxChars : Nat := 4096
def lexMax : Nat := 30

/-- `Song::add_log` -/
def addLog (logs : List String) (msg : String) : List String :=
  if maxLogs ≤ logs.length then logs else logs ++ [msg]

/-- `lex_error`: the entry, or the notice at exactly 30 entries, or nothing beyond -/
def lexError (logs : List String) (entry notice : String) : List String :=
  if logs.length = lexMax then addLog logs notice
  else if logs.length < lexMax then addLog logs entry
  else logs

/-- `get_logs_str` on the character list of the joined text -/
def logsStr (chars : List Char) : List Char :=
  if chars.length ≤ maxChars then chars else chars.take maxChars ++ ['.', '.', '.']

/-- the limits are the constants of the source -/
theorem C19_limits : Gen.SAKURA_MAX_LOGS = 100 ∧ Gen.SAKURA_MAX_LOGS_CHARS = 4096 ∧ Gen.LEX_MAX_ERROR = 30 := by decide

/-- one logging call keeps the bound -/
theorem addLog_le (logs : List String) (msg : String) (h : logs.length ≤ maxLogs) : (addLog logs msg).length ≤ maxLogs := by
  unfold addLog; split
  · exact h
  · simp; unfold maxLogs at *; omega

/-- the log never exceeds 100 entries, whatever is logged and however often -/
theorem C19_log_bounded (msgs : List String) : (msgs.foldl addLog []).length ≤ maxLogs := by
  suffices h : ∀ logs : List String, logs.length ≤ maxLogs → (msgs.foldl addLog logs).length ≤ maxLogs from h [] (by decide)
  induction msgs with
  | nil => intro logs h; simpa using h
  | cons m ms ih => intro logs h; exact ih _ (addLog_le logs m h)

/-- entries are only ever appended: what was logged stays, in order -/
theorem C19_log_prefix (logs : List String) (msg : String) : logs <+: addLog logs msg := by
  unfold addLog; split
  · exact List.prefix_refl _
  · exact List.prefix_append _ _

/-- lexer errors alone: at most 30 entries plus the notice -/
theorem lexError_le (logs : List String) (e n : String) (h : logs.length ≤ lexMax + 1) : (lexError logs e n).length ≤ lexMax + 1 := by
  unfold lexError addLog maxLogs lexMax at *
  split
  · split <;> simp <;> omega
  · split
    · split <;> simp <;> omega
    · exact h

theorem C19_lex_errors_bounded (errs : List (String × String)) :
    (errs.foldl (fun l p => lexError l p.1 p.2) []).length ≤ lexMax + 1 := by
  suffices h : ∀ logs : List String, logs.length ≤ lexMax + 1 → (errs.foldl (fun l p => lexError l p.1 p.2) logs).length ≤ lexMax + 1 from h [] (by decide)
  induction errs with
  | nil => intro logs h; simpa using h
  | cons m ms ih => intro logs h; exact ih _ (lexError_le logs m.1 m.2 h)

/-- the 31st entry is the notice, and after it lexer errors add nothing -/
theorem C19_lex_notice (logs : List String) (e n : String) :
    (logs.length = 30 → lexError logs e n = logs ++ [n]) ∧ (30 < logs.length → lexError logs e n = logs) := by
  unfold lexError addLog lexMax maxLogs
  constructor
  · intro h; simp [h]
  · intro h
    have h1 : ¬ (logs.length = 30) := by omega
    have h2 : ¬ (logs.length < 30) := by omega
    simp [h1, h2]

/-- the log text: at most 4096 characters plus an ellipsis -/
theorem C19_log_text_bounded (chars : List Char) : (logsStr chars).length ≤ maxChars + 3 := by
  unfold logsStr; split
  · omega
  · simp; unfold maxChars; omega

/-- short logs are returned unchanged -/
theorem C19_log_text_identity (chars : List Char) (h : chars.length ≤ 4096) : logsStr chars = chars := by
  unfold logsStr maxChars; simp [h]

/-- with debug off the library writes nothing to standard output: no unguarded `println!` in the
    library sources (regenerated frame fact) -/
theorem C19_no_unguarded_println : Gen.frame_printlnUnguarded = [] := rfl

/-- line accounting: the number of line breaks in the text consumed so far -/
def lineOf (consumed : List Nat) : Nat := (consumed.filter (· == 10)).length

theorem C19_line_additive (a b : List Nat) : lineOf (a ++ b) = lineOf a + lineOf b := by
  simp [lineOf, List.filter_append]

theorem C19_line_no_break (a : List Nat) (h : ∀ c ∈ a, c ≠ 10) : lineOf a = 0 := by
  unfold lineOf
  rw [List.length_eq_zero_iff, List.filter_eq_nil_iff]
  intro c hc; simpa using h c hc

-- non-vacuity
example : ((List.replicate 150 "x").foldl addLog []).length ≤ 100 := C19_log_bounded _
example : addLog ["a"] "b" = ["a", "b"] := by decide

/-- **compilation continues as if only the offending character were absent**: for every two programs of the block language (notes,
    rests, setters, loops, chords, `Sub{…}`, tuplets, nested to any depth) and every character that starts no command, lexing
    `program₁ ‹c› program₂` gives the token list of `program₁ program₂` and exactly one error entry: the line (0 — canonical texts
    have no line break), the half-width form of the character, and the eight characters that follow it -/
theorem C19_unknown_char_skipped (cs1 cs2 : List Core.Cmd) (hw1 : Lp.pwfL2 cs1) (hw2 : Lp.pwfL2 cs2) (c : Nat)
    (hc : Lp.UnknownCh (Sut.zen2han c)) (hs : Lp.Start c) :
    Lx.lex 96 (Lp.printKL2 cs1 (c :: Lp.printKL2 cs2 [])) 0
      = some ⟨Ex2.compileL (cs1 ++ cs2), [⟨0, [Sut.zen2han c], (Lp.printKL2 cs2 []).take 8⟩]⟩ :=
  Lp.lex_unknown_between cs1 cs2 hw1 hw2 c hc hs

/-- the same with **any** text after the character — well-formed or not, inside the modelled subset or not: the program before it
    compiles to its tokens, the character costs one entry, and the rest is read exactly as it would be read alone -/
theorem C19_unknown_char_then_anything (cs : List Core.Cmd) (hw : Lp.pwfL2 cs) (c : Nat) (hc : Lp.UnknownCh (Sut.zen2han c)) (hs : Lp.Start c)
    (X : List Nat) :
    Lx.lex 96 (Lp.printKL2 cs (c :: X)) 0
      = (Lx.lexLoop 96 (X.length + 1) X 0 false).map (fun o => ⟨Ex2.compileL cs ++ o.toks, ⟨0, [Sut.zen2han c], X.take 8⟩ :: o.errs⟩) := by
  unfold Lx.lex
  rw [Lp.lex_unknown_then_any cs hw c hc hs X]
  cases Lx.lexLoop 96 (X.length + 1) X 0 false <;> simp [Lp.preL, Lp.addErr, Ex2.compileL, Ex2.lineTok]

/-- **everything after `End` is ignored**: for every program of the block language and every text `X` that does not continue the
    word, `program End X` lexes to exactly the tokens of the program — nothing of `X` is read and nothing is logged for it -/
theorem C19_end_ignores_rest (cs : List Core.Cmd) (hw : Lp.pwfL2 cs) (X : List Nat) (hX : Lx.isWordChar (Lx.peek X) = false) :
    Lx.lex 96 (Lp.printKL2 cs (69 :: 110 :: 100 :: X)) 0 = some ⟨Ex2.compileL cs, []⟩ :=
  Lp.lex_end_ignores_rest cs hw X hX

/-- one step of the lexer at such a character, from any state of the loop (any line, inside or outside a chord) -/
theorem C19_unknown_char_step (tb : Int) (f c : Nat) (cs : List Nat) (ln : Int) (harm : Bool) (h : Lp.UnknownCh (Sut.zen2han c)) :
    Lx.lexLoop tb (f + 1) (c :: cs) ln harm = Lp.addErr ⟨ln, [Sut.zen2han c], cs.take 8⟩ (Lx.lexLoop tb f cs ln harm) :=
  Lp.lex_unknown tb f c cs ln harm h

-- non-vacuity: `!`, `=`, `~`, `あ`, `漢`, an emoji and full-width `！` are such characters
example : ∀ c ∈ [33, 61, 126, 0x3042, 0x6F22, 0x1F600, 0xFF01], Lp.UnknownCh (Sut.zen2han c) ∧ Lp.Start c := by
  intro c hc
  simp only [List.mem_cons, List.not_mem_nil, or_false] at hc
  rcases hc with rfl | rfl | rfl | rfl | rfl | rfl | rfl
  · exact ⟨by unfold Lp.UnknownCh; rw [show Sut.zen2han 33 = 33 from by decide]; omega, by unfold Lp.Start; decide⟩
  · exact ⟨by unfold Lp.UnknownCh; rw [show Sut.zen2han 61 = 61 from by decide]; omega, by unfold Lp.Start; decide⟩
  · exact ⟨by unfold Lp.UnknownCh; rw [show Sut.zen2han 126 = 126 from by decide]; omega, by unfold Lp.Start; decide⟩
  · exact ⟨by unfold Lp.UnknownCh; rw [show Sut.zen2han 0x3042 = 0x3042 from by decide]; omega, by unfold Lp.Start; decide⟩
  · exact ⟨by unfold Lp.UnknownCh; rw [show Sut.zen2han 0x6F22 = 0x6F22 from by decide]; omega, by unfold Lp.Start; decide⟩
  · exact ⟨by unfold Lp.UnknownCh; rw [show Sut.zen2han 0x1F600 = 0x1F600 from by decide]; omega, by unfold Lp.Start; decide⟩
  · exact ⟨by unfold Lp.UnknownCh; rw [show Sut.zen2han 0xFF01 = 33 from by decide]; omega, by unfold Lp.Start; decide⟩

end Sakura.Props.C19
