import SakuraVerif.Lemmas.Container
import SakuraVerif.Lemmas.Normalize
import SakuraVerif.Model.SongOps
import SakuraVerif.Gen.Consts
/-! # C01 — the output is a complete, self-consistent SMF container

Statement proved: for **every** song (any number of tracks, any event lists, any play-from point)
the strict container parser of `Spec.Smf` accepts the bytes `midi::generate` writes and reads back
format 1, a track count equal to the number of tracks, the time base, and exactly the track
bodies — so nothing precedes, separates or trails the chunks — and every body ends with the
End-of-Track bytes.  The bounds are the quantifier's domain (15-bit time base, 16-bit track
count, 32-bit chunk length). -/
namespace Sakura.Props.C01
open Sakura Sakura.Spec List

/-- C01, container level -/
theorem C01_container (tb : Nat) (pf : Int) (tracks : List (List Event))
    (htb : tb < 32768) (hn : tracks.length < 65536)
    (hl : ∀ b ∈ songBodies pf tracks, b.length < 4294967296) :
    parseSmf (generateSong (tb : Int) pf tracks)
      = some (⟨1, tracks.length, tb⟩, songBodies pf tracks) := by
  unfold generateSong
  rw [containerI_eq_container, parse_container tb _ htb (by rw [songBodies_length]; exact hn) hl,
    songBodies_length]

/-- every chunk body ends with `00 FF 2F 00` -/
theorem C01_every_chunk_ends_with_eot (pf : Int) (tracks : List (List Event)) :
    ∀ b ∈ songBodies pf tracks, eotBytes <:+ b := by
  intro b hb
  unfold songBodies at hb
  obtain ⟨es, _, rfl⟩ := List.mem_map.mp hb
  exact ⟨_, rfl⟩

/-- the chunk count equals the number of tracks of the song -/
theorem C01_chunk_count (pf : Int) (tracks : List (List Event)) :
    (songBodies pf tracks).length = tracks.length := songBodies_length pf tracks

/-- `TIMEBASE` is clamped into 48..32767 at lex time, whatever is written: the division is a positive 15-bit number for every source -/
theorem C01_timebase_clamp (v : Int) : 48 ≤ readTimebase v ∧ readTimebase v ≤ 32767 := by
  unfold readTimebase; split
  · omega
  · split <;> omega

/-- within the documented range the time base is taken as written -/
theorem C01_timebase_identity (v : Int) (h : 48 ≤ v) (h2 : v ≤ 32767) : readTimebase v = v := by
  unfold readTimebase; split
  · omega
  · split <;> omega

/-- selecting track `no` materialises every track up to the (capped) number, so `tracks.len()` covers `cur_track` -/
theorem C01_tracks_materialised (len no : Nat) :
    changeCurTrackNo no < changeCurTrackLen len no ∧ len ≤ changeCurTrackLen len no := by
  unfold changeCurTrackLen; split <;> omega

/-- the number of tracks fits the header's 16-bit count after every track selection: the premise `tracks.length < 65536` of
    `C01_container` is an invariant of every run, whatever track numbers the program names.  (Before the repair the number was
    taken as written: `TR=65535` made 65536 chunks under a header that counts 0.) -/
theorem C01_track_count_fits (nos : List Nat) : 1 ≤ nos.foldl changeCurTrackLen 1 ∧ nos.foldl changeCurTrackLen 1 < 65536 := by
  suffices h : ∀ len, 1 ≤ len → len < 65536 → 1 ≤ nos.foldl changeCurTrackLen len ∧ nos.foldl changeCurTrackLen len < 65536 from
    h 1 (by omega) (by omega)
  induction nos with
  | nil => intro len h1 h2; exact ⟨h1, h2⟩
  | cons n r ih =>
    intro len h1 h2
    simp only [List.foldl_cons]
    apply ih
    · unfold changeCurTrackLen; split <;> omega
    · unfold changeCurTrackLen changeCurTrackNo; split <;> split <;> omega

/-! Frame facts regenerated from the source on every run: the time base has one writer (the
    clamping `read_timebase`) and the default 96, tracks are only ever added by
    `change_cur_track`; so `48 ≤ timebase` and `tracks.len() ≥ 1` are invariants of every run. -/
theorem C01_timebase_single_writer : Gen.frame_timebaseWriters = ["lexer.rs:read_timebase"] := rfl
theorem C01_tracks_single_mutator : Gen.frame_tracksMutators = ["song.rs:change_cur_track"] := rfl
theorem C01_default_timebase : Gen.songNew_timebase = 96 ∧ (48:Int) ≤ Gen.songNew_timebase := by decide

-- non-vacuity: the hypotheses are size bounds only; a concrete song meets them and parses
example : parseSmf (generateSong (96 : Nat) (-1) [[], []])
    = some (⟨1, 2, 96⟩, [eotBytes, eotBytes]) := by
  have h : songBodies (-1) [[], []] = [eotBytes, eotBytes] := by
    simp [songBodies, normalize, sortByTime, splitNoteOff, genTrack, genEvents]
  have := C01_container 96 (-1) [[], []] (by decide) (by decide) (by rw [h]; decide)
  rw [h] at this; exact this

end Sakura.Props.C01
