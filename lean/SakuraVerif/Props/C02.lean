import SakuraVerif.Lemmas.Normalize
/-! # C02 — each track is a legal MIDI event stream reproducing the song's events

`decodeTrack` is an SMF 1.0 decoder written independently of the writer.  The theorems say, for
**every** event list (all kinds, any values inside or outside 7 bits, any ticks including
negative ones, any payload length), that the track the writer produces decodes to exactly the
expected delta/message list followed by one final End-of-Track, that normalisation is a stable
time sort of the events plus one note-off per note-on at start + gate, and that the
variable-length encoder is inverted for every natural number. -/
namespace Sakura.Props.C02
open Sakura Sakura.Spec List

/-- VLQ: the SMF reader inverts the writer for every value (no bound) -/
theorem C02_vlq_roundtrip (n : Nat) (rest : List Nat) :
    decodeVlq 0 (encodeDelta n ++ rest) = some (n, rest) := vlq_roundtrip n rest

/-- deltas in the SMF range are written in at most four bytes, each a byte -/
theorem C02_vlq_four_bytes (n : Nat) (h : n < 268435456) :
    (encodeDelta n).length ≤ 4 ∧ ∀ b ∈ encodeDelta n, b < 256 :=
  ⟨encodeDelta_len_le4 n h, encodeDelta_bytes n⟩

/-- the track bytes of a sorted valid event list decode to the expected messages + one EOT -/
theorem C02_decode_sorted (es : List Event) (hv : ∀ e ∈ es, Valid e) (hs : SortedFrom 0 es) :
    decodeTrack (3 * es.length + 1) (genTrack es) = some (expected 0 es ++ [eotMsg]) :=
  decode_events es hv 0 _ hs (Nat.le_refl _)

/-- C02 main: for every valid event list the chunk body written by `generate`
    (split note-offs, stable sort, encode) is a legal stream decoding to exactly the normalised
    events, End-of-Track once and last -/
theorem C02_track_decodes (es : List Event) (hv : ∀ e ∈ es, Valid e) :
    decodeTrack (3 * (normalize es).length + 1) (genTrack (normalize es))
      = some (expected 0 (normalize es) ++ [eotMsg]) :=
  decode_events _ (valid_normalize es hv) 0 _ (sortedFrom_normalize es) (Nat.le_refl _)

/-- normalisation neither loses nor invents events -/
theorem C02_normalize_perm (es : List Event) : (normalize es).Perm (splitNoteOff es) :=
  normalize_perm es

/-- …and orders them by tick -/
theorem C02_normalize_sorted (es : List Event) :
    (normalize es).Pairwise (fun a b => a.time ≤ b.time) := normalize_sorted es

/-- same-tick (more generally: in-order) events keep the order in which they were issued -/
theorem C02_issue_order_kept (es : List Event) (a b : Event) (hab : a.time ≤ b.time)
    (h : [a, b] <+ es) : [a, b] <+ normalize es :=
  normalize_stable es a b hab (h.trans (split_keeps_order es))

/-- every note-on — whatever its gate — is paired with a note-off of the same channel/key/velocity that comes after it in the track,
    at start + gate (a negative gate counts as 0: the note-off never precedes its note-on, no note is left sounding) -/
theorem C02_note_off_pairing (es : List Event) (e : Event) (he : e ∈ es) (hk : e.kind = .noteOn) :
    [e, noteOffOf e] <+ normalize es ∧ (noteOffOf e).time = e.time + (if e.v2 < 0 then 0 else e.v2) ∧ e.time ≤ (noteOffOf e).time ∧
      (0 ≤ e.v2 → (noteOffOf e).time = e.time + e.v2) ∧
      (noteOffOf e).ch = e.ch ∧ (noteOffOf e).v1 = e.v1 ∧ (noteOffOf e).v3 = e.v3 :=
  ⟨normalize_stable es e (noteOffOf e) (by simp only [noteOffOf]; split <;> omega) (split_pairs es e he hk),
   rfl, by simp only [noteOffOf]; split <;> omega, fun h => by simp only [noteOffOf]; rw [if_neg (by omega)], rfl, rfl, rfl⟩

/-- decoded data bytes are always 7-bit: values outside the range appear clamped, never wrapped -/
theorem C02_data_bytes_7bit (v : Int) : clamp7 v < 128 ∧ (0 ≤ v → v ≤ 127 → clamp7 v = v.toNat) := by
  refine ⟨clamp7_lt v, ?_⟩
  intro h0 h1; unfold clamp7; split
  · omega
  · split <;> omega

-- non-vacuity: a concrete mixed list (note, out-of-range note, meta, bend range, 200-byte SysEx,
-- an event before tick 0) satisfies the hypotheses
example : ∀ e ∈ ([⟨.noteOn, 0, 0, 60, 86, 100, []⟩, ⟨.noteOn, -10, 3, 131, 40, 300, []⟩,
    ⟨.metaEv, 200, 0, 0xFF, 3, 2, [65,66]⟩, ⟨.pitchBendRange, 300, 2, 12, 0, 0, []⟩,
    ⟨.sysex, 300, 0, 0, 0, 0, 0xF0 :: List.replicate 200 1 ++ [0xF7]⟩] : List Event), Valid e := by
  decide

end Sakura.Props.C02
