import SakuraVerif.Lemmas.Dump
/-! # C20 — the dump lists every event at its true position

T0 theorems: the dump's delta-time reader (`array_readl_delta_time`) inverts the writer's
variable-length encoder for **every** delta value and any surrounding bytes — in particular for
values whose encoding contains the byte 0x7F — and stops exactly after the encoded quantity; the
position formula is consistent (`TIME(m:b:t)` shown for the tick that `TIME(m:b:t)` denotes).
`readDeltaOld_wrong` records that the reader of the unrepaired code (`< 0x7F`) did not have this
property (kernel-checked witness: delta 127).  Rendering of values (`format!`) and the event walk
are tied by the correspondence stream only. -/
namespace Sakura.Props.C20
open Sakura

/-- the reader returns exactly the encoded delta and the position right after it, wherever the
    quantity sits in the file -/
theorem C20_readDelta_inverts (n : Nat) (pre rest : List Nat) (f : Nat)
    (hf : (encodeDelta n).length ≤ f) :
    readDelta (pre ++ encodeDelta n ++ rest) (f + 1) pre.length 0
      = (n, pre.length + (encodeDelta n).length) :=
  readDelta_inverts n pre rest f hf

/-- for the SMF range four steps of fuel are enough; the reader's `while` loop has as many
    iterations as the file has bytes, so it always has them -/
theorem C20_readDelta_smf_range (n : Nat) (h : n < 268435456) (pre rest : List Nat) :
    readDelta (pre ++ encodeDelta n ++ rest) 5 pre.length 0 = (n, pre.length + (encodeDelta n).length) :=
  readDelta_inverts n pre rest 4 (encodeDelta_len_le4 n h)

/-- negation witness for the unrepaired reader: delta 127 (single byte 0x7F) is mis-read -/
theorem C20_readDeltaOld_wrong :
    readDeltaOld (encodeDelta 127 ++ [0x90, 60, 100]) 10 0 0 ≠ (127, 1) := by decide

example : readDelta (encodeDelta 127 ++ [0x90, 60, 100]) 10 0 0 = (127, 1) := by decide
example : readDelta ([0x90, 60, 100] ++ encodeDelta 16383 ++ [0x80]) 10 3 0 = (16383, 5) := by decide

/-- position round trip: the tick that `TIME(m:b:t)` denotes (C14: ((m-1)*frac + (b-1))*beat + t)
    is displayed as `(m, b, t)` whenever `b ≤ frac` and `t < beat` -/
theorem C20_position_roundtrip (tb frac deno m b t : Nat) (hm : 1 ≤ m) (hb : 1 ≤ b) (hbf : b ≤ frac)
    (hbb : 0 < tb * 4 / deno) (ht : t < tb * 4 / deno) :
    dumpPos tb frac deno (((m - 1) * frac + (b - 1)) * (tb * 4 / deno) + t) = (m, b, t) := by
  unfold dumpPos
  generalize hB : tb * 4 / deno = B at *
  have hB0 : ¬ (B = 0) := by omega
  simp only [hB0, if_false]
  have h1 : (((m - 1) * frac + (b - 1)) * B + t) / B = (m - 1) * frac + (b - 1) := by
    rw [Nat.mul_comm, Nat.mul_add_div hbb, Nat.div_eq_of_lt ht]; simp
  have h2 : (((m - 1) * frac + (b - 1)) * B + t) % B = t := by
    rw [Nat.mul_comm, Nat.mul_add_mod, Nat.mod_eq_of_lt ht]
  have hf : 0 < frac := by omega
  have hf0 : ¬ (frac = 0) := by omega
  simp only [hf0, if_false]
  have h3 : ((m - 1) * frac + (b - 1)) / frac = m - 1 := by
    rw [Nat.mul_comm, Nat.mul_add_div hf, Nat.div_eq_of_lt (by omega)]; simp
  have h4 : ((m - 1) * frac + (b - 1)) % frac = b - 1 := by
    rw [Nat.mul_comm, Nat.mul_add_mod, Nat.mod_eq_of_lt (by omega)]
  rw [h1, h2, h3, h4]
  have : m - 1 + 1 = m := by omega
  have : b - 1 + 1 = b := by omega
  simp [*]

-- non-vacuity: 4/4 at time base 96, TIME(3:2:10)
example : dumpPos 96 4 4 (((3 - 1) * 4 + (2 - 1)) * (96 * 4 / 4) + 10) = (3, 2, 10) := by decide

end Sakura.Props.C20
