import SakuraVerif.Lemmas.DumpFile
import SakuraVerif.Lemmas.Dump
/-! # C20 — the dump lists every event at its true position

T0 theorems: the dump's delta-time reader (`array_readl_delta_time`) inverts the writer's
variable-length encoder for **every** delta value and any surrounding bytes — in particular for
values whose encoding contains the byte 0x7F — and stops exactly after the encoded quantity; the
position formula is consistent (`TIME(m:b:t)` shown for the tick that `TIME(m:b:t)` denotes).
`readDeltaOld_wrong` records that the reader of the unrepaired code (`< 0x7F`) did not have this
property (kernel-checked witness: delta 127).  Rendering of values (`format!`) and the event walk
are tied by the correspondence stream only. -/
namespace Sakura.Props.C20
open Sakura

/-- the reader returns exactly the encoded delta and the position right after it, wherever the
    quantity sits in the file -/
theorem C20_readDelta_inverts (n : Nat) (pre rest : List Nat) (f : Nat)
    (hf : (encodeDelta n).length ≤ f) :
    readDelta (pre ++ encodeDelta n ++ rest) (f + 1) pre.length 0
      = (n, pre.length + (encodeDelta n).length) :=
  readDelta_inverts n pre rest f hf

/-- for the SMF range four steps of fuel are enough; the reader's `while` loop has as many
    iterations as the file has bytes, so it always has them -/
theorem C20_readDelta_smf_range (n : Nat) (h : n < 268435456) (pre rest : List Nat) :
    readDelta (pre ++ encodeDelta n ++ rest) 5 pre.length 0 = (n, pre.length + (encodeDelta n).length) :=
  readDelta_inverts n pre rest 4 (encodeDelta_len_le4 n h)

/-- negation witness for the unrepaired reader: delta 127 (single byte 0x7F) is mis-read -/
theorem C20_readDeltaOld_wrong :
    readDeltaOld (encodeDelta 127 ++ [0x90, 60, 100]) 10 0 0 ≠ (127, 1) := by decide

example : readDelta (encodeDelta 127 ++ [0x90, 60, 100]) 10 0 0 = (127, 1) := by decide
example : readDelta ([0x90, 60, 100] ++ encodeDelta 16383 ++ [0x80]) 10 3 0 = (16383, 5) := by decide

/-- position round trip: the tick that `TIME(m:b:t)` denotes (C14: ((m-1)*frac + (b-1))*beat + t)
    is displayed as `(m, b, t)` whenever `b ≤ frac` and `t < beat` -/
theorem C20_position_roundtrip (tb frac deno m b t : Nat) (hm : 1 ≤ m) (hb : 1 ≤ b) (hbf : b ≤ frac)
    (hbb : 0 < tb * 4 / deno) (ht : t < tb * 4 / deno) :
    dumpPos tb frac deno (((m - 1) * frac + (b - 1)) * (tb * 4 / deno) + t) = (m, b, t) := by
  unfold dumpPos
  generalize hB : tb * 4 / deno = B at *
  have hB0 : ¬ (B = 0) := by omega
  simp only [hB0, if_false]
  have h1 : (((m - 1) * frac + (b - 1)) * B + t) / B = (m - 1) * frac + (b - 1) := by
    rw [Nat.mul_comm, Nat.mul_add_div hbb, Nat.div_eq_of_lt ht]; simp
  have h2 : (((m - 1) * frac + (b - 1)) * B + t) % B = t := by
    rw [Nat.mul_comm, Nat.mul_add_mod, Nat.mod_eq_of_lt ht]
  have hf : 0 < frac := by omega
  have hf0 : ¬ (frac = 0) := by omega
  simp only [hf0, if_false]
  have h3 : ((m - 1) * frac + (b - 1)) / frac = m - 1 := by
    rw [Nat.mul_comm, Nat.mul_add_div hf, Nat.div_eq_of_lt (by omega)]; simp
  have h4 : ((m - 1) * frac + (b - 1)) % frac = b - 1 := by
    rw [Nat.mul_comm, Nat.mul_add_mod, Nat.mod_eq_of_lt (by omega)]
  rw [h1, h2, h3, h4]
  have : m - 1 + 1 = m := by omega
  have : b - 1 + 1 = b := by omega
  simp [*]

-- non-vacuity: 4/4 at time base 96, TIME(3:2:10)
example : dumpPos 96 4 4 (((3 - 1) * 4 + (2 - 1)) * (96 * 4 / 4) + 10) = (3, 2, 10) := by decide

/-! ## the literal dump (`Model.DumpText`, tied to the real text character for character by the stream `dumptext`) -/
open Sakura.Dt in
/-- **every event, once, in order, at its true position**: on the bytes of any track whose events are well-formed messages
    (`Dt.WF`: channel messages of every kind, meta events, SysEx; any deltas) and end with End-of-Track, the loop of `dump_midi`
    prints exactly the lines `absLines` — one per event, in file order, each at the running sum of the delta times under the
    signature in force, showing kind and values as written (`textOf`) — and stops exactly at the end of the track body. -/
theorem C20_walker_lists_every_event (tb : Nat) (evs : List (Nat × Spec.Msg)) (hw : ∀ e ∈ evs, WF e.2) (pre post : List Nat) (info : Info)
    (heot : (updAll info evs).eot = true) (ht : total evs < 18446744073709551616) (f : Nat) (hf : evs.length + 1 ≤ f) :
    trackGo (pre ++ (encTrack evs ++ post)) tb f pre.length (pre.length + (encTrack evs).length) 0 info [] =
      (absLines tb info 0 evs, pre.length + (encTrack evs).length, updAll info evs) :=
  trackGo_enc tb evs hw pre post info heot ht f hf

open Sakura.Dt in
/-- **a SysEx of any length with any data**: the dump reads the length field (a variable-length quantity) and lists exactly that many
    bytes — an F7 among them is data, not the end of the message — and goes on with the byte after them -/
theorem C20_sysex_any_data (pre rest d : List Nat) (info : Info) :
    eventStep (pre ++ (0xF0 :: (encodeDelta d.length ++ d) ++ rest)) pre.length info =
      ("SysEx$=" ++ ("F0," ++ "/*len:" ++ hexUp d.length ++ "*/" ++ sysexJoin d) ++ ";",
        pre.length + (1 + ((encodeDelta d.length).length + d.length)), info) := by
  have h := eventStep_sysex pre rest info d trivial
  simp only [encMsg, textOf, upd, List.length_cons, List.length_append] at h
  rw [h]
  refine Prod.ext rfl (Prod.ext ?_ rfl)
  simp only; omega

open Sakura.Dt in
/-- a line's position is `dumpPos` of the event's absolute time — with `C20_position_roundtrip`: a note placed with TIME(m:b:t)
    is listed at TIME(m:b:t) -/
theorem C20_line_position (tb : Nat) (info : Info) (m b t : Nat) (txt : String) (htb : 0 < tb) (hd : 0 < info.deno)
    (hm : 1 ≤ m) (hb : 1 ≤ b) (hbf : b ≤ info.frac) (hbb : 0 < tb * 4 / info.deno) (ht : t < tb * 4 / info.deno) :
    lineOf tb info (((m - 1) * info.frac + (b - 1)) * (tb * 4 / info.deno) + t) txt = s!"TIME({pad3 m}:{pad3 b}:{pad3 t}) {txt}" := by
  rw [lineOf_dumpPos tb info _ txt htb hd, C20_position_roundtrip tb info.frac info.deno m b t hm hb hbf hbb ht]

open Sakura.Dt in
/-- **the dump terminates on every byte string** (compiler output or not): each pass of the track loop consumes at least one byte -/
theorem C20_dump_loop_terminates (b : List Nat) (tb pos E time : Nat) (info : Info) (acc : List String) (f : Nat)
    (hf : b.length - pos + 1 ≤ f) :
    trackGo b tb f pos E time info acc = trackGo b tb (b.length - pos + 1) pos E time info acc :=
  trackGo_fuel_stable b tb (b.length - pos) pos E time info acc f _ (Nat.le_refl _) hf (Nat.le_refl _)

open Sakura.Dt in
/-- **dump ∘ generate** — the property for the whole pipeline of models: for every song whose events the writer accepts, any number
    of tracks, the literal dump of the bytes the writer model produces is the four header lines, then per track two header lines and
    exactly one line per written message, in file order, at the running sum of the deltas under the signature in force, kind and
    values as written, End-of-Track last.  (The writer model is tied to `midi::generate` by the C01/C02 streams, the dump model to
    `midi::dump_midi` by `dumptext`.) -/
theorem C20_dump_generate (tb : Nat) (tracks : List (List Event)) (htb : tb < 65536) (hn : tracks.length < 65536)
    (hv : ∀ es ∈ tracks, ∀ e ∈ es, DValid e)
    (hsz : ∀ es ∈ tracks, total (writtenTrack es) < 18446744073709551616 ∧ (genTrack (normalize es)).length < 4294967296) :
    dump (generateSong (tb : Int) (-1) tracks) =
      ["// ----- MIDI DUMP DATA -----", "/// [MThd] midi format=1", s!"/// [MThd] track_count={tracks.length}", s!"TIMEBASE={tb}"] ++
        trackLinesAll tb {} 0 (tracks.map writtenTrack) :=
  dump_generate tb tracks htb hn hv hsz

-- non-vacuity for `C20_dump_generate`: a two-track song (conductor track with tempo and time signature; a note, a bend, a SysEx)
open Sakura.Dt in
def demoSong : List (List Event) :=
  [[⟨.metaEv, 0, 0, 255, 0x51, 3, [7, 161, 32]⟩, ⟨.metaEv, 0, 0, 255, 0x58, 4, [3, 3, 24, 8]⟩],
   [⟨.noteOn, 96, 1, 60, 90, 100, []⟩, ⟨.pitchBend, 0, 1, 8292, 0, 0, []⟩, ⟨.sysex, 10, 0, 0, 0, 0, [0xF0, 0x41, 0xF7, 0x10, 0xF7]⟩,
    ⟨.pitchBendRange, 20, 1, 12, 0, 0, []⟩]]

open Sakura.Dt in
example : ∀ es ∈ demoSong, ∀ e ∈ es, DValid e := by
  intro es hes e he
  simp only [demoSong, List.mem_cons, List.not_mem_nil, or_false] at hes
  rcases hes with rfl | rfl <;> simp only [List.mem_cons, List.not_mem_nil, or_false] at he
  · rcases he with rfl | rfl <;> (simp only [DValid, Spec.Valid]; decide)
  · rcases he with rfl | rfl | rfl | rfl
    · simp only [DValid, Spec.Valid]; decide
    · simp only [DValid, Spec.Valid]; decide
    · refine ⟨by simp only [Spec.Valid]; decide, [0x41, 0xF7, 0x10, 0xF7], rfl⟩
    · simp only [DValid, Spec.Valid]; decide

-- non-vacuity: a track with a time signature, a program change, a bend, a note, a text meta, a SysEx and End-of-Track
open Sakura.Dt in
def demoTrack : List (Nat × Spec.Msg) :=
  [(0, .metaM 0x58 [3, 3, 24, 8]), (0, .prog 2 40), (10, .bend 2 0 64), (200, .noteOn 2 60 100), (16383, .noteOff 2 60 0),
   (0, .metaM 3 [97, 98]), (5, .sysex [0x41, 0xF7, 0x10, 0xF7]), (0, .metaM 0x2F [])]

open Sakura.Dt in
example : (∀ e ∈ demoTrack, WF e.2) ∧ (updAll {} demoTrack).eot = true ∧ total demoTrack < 18446744073709551616 := by
  refine ⟨?_, by decide, by decide⟩
  intro e he
  simp only [demoTrack, List.mem_cons, List.not_mem_nil, or_false] at he
  rcases he with rfl | rfl | rfl | rfl | rfl | rfl | rfl | rfl
  all_goals first | (simp only [WF]; omega) | (simp only [WF]; decide) | simp only [WF]

end Sakura.Props.C20
