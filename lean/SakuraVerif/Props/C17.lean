import SakuraVerif.Model.Sutoton
import SakuraVerif.Gen.Tables
/-! # C17 — sutoton and full-width text become the same MML; ASCII is untouched

Theorems about the model of `sutoton::convert` / `token::zen2han`:
* `C17_zen2han_spec` — the width map for **every** scalar value;
* `C17_first_match_is_longest` — the vocabulary search (first match in the list) returns a longest
  matching word whenever the list is sorted by byte length descending, and `C17_sort_sorted` — the
  stable sort establishes that invariant after every definition; hence the longest word wins at
  every position, for every vocabulary including user definitions;
* `C17_user_def_from_point` — a definition only affects text after it (it is applied to the
  continuation), `C17_setItem_*` — redefinition replaces the value in place, new words are added;
* `C17_ascii_identity` — text of plain ASCII (no `~`, no `{"`, no `//`, `/*`) is copied unchanged by
  the loop for every vocabulary whose words start with a non-ASCII character, and the regenerated
  built-in vocabulary has that property (`C17_vocabulary_non_ascii`, decided in the kernel);
* `C17_string_passthrough` / comment lemmas — a terminated `{"…"}`, `//…\n`, `/*…*/` span is copied
  verbatim and scanning resumes right after it. -/
namespace Sakura.Props.C17
open Sakura.Sut List

/-- the width map, for every scalar value -/
theorem C17_zen2han_spec (c : Nat) :
    (0x20 ≤ c ∧ c ≤ 0x7E → zen2han c = c) ∧
    (0xFF01 ≤ c ∧ c ≤ 0xFF5E → zen2han c = c - 0xFEE0 ∧ 0x21 ≤ zen2han c ∧ zen2han c ≤ 0x7E) ∧
    ((0x2002 ≤ c ∧ c ≤ 0x200B) ∨ c = 0x3000 ∨ c = 0xFEFF → zen2han c = 0x20) ∧
    (¬ (0x20 ≤ c ∧ c ≤ 0x7E) → ¬ (0xFF01 ≤ c ∧ c ≤ 0xFF5E) → ¬ (0x2002 ≤ c ∧ c ≤ 0x200B) → c ≠ 0x3000 → c ≠ 0xFEFF →
      zen2han c = c) := by
  unfold zen2han
  refine ⟨?_, ?_, ?_, ?_⟩
  · intro h; simp [h]
  · intro h
    have h1 : ¬ (0x20 ≤ c ∧ c ≤ 0x7E) := by omega
    simp only [h1, if_false, h, and_self, if_true]; omega
  · intro h
    have h1 : ¬ (0x20 ≤ c ∧ c ≤ 0x7E) := by omega
    have h2 : ¬ (0xFF01 ≤ c ∧ c ≤ 0xFF5E) := by omega
    simp only [h1, h2, if_false]
    rcases h with h | h | h
    · simp [h]
    · subst h; decide
    · subst h; decide
  · intro h1 h2 h3 h4 h5
    simp [h1, h2, h3, h4, h5]

/-- full-width ASCII and its half-width form convert alike; ASCII is a fixed point -/
theorem C17_zen2han_idempotent (c : Nat) : zen2han (zen2han c) = zen2han c := by
  unfold zen2han
  split
  · rename_i h; simp [h]
  · split
    · rename_i h1 h2
      have : 0x20 ≤ c - 0xFF01 + 0x21 ∧ c - 0xFF01 + 0x21 ≤ 0x7E := by omega
      simp [this]
    · split
      · simp
      · split
        · simp
        · rename_i h1 h2 h3 h4; simp [h1, h2, h3, h4]

/-- invariant kept by `sort_items` -/
def Sorted (items : List Item) : Prop := items.Pairwise (fun a b => blen b.name ≤ blen a.name)

theorem utf8Len_pos (c : Nat) : 1 ≤ utf8Len c := by
  unfold utf8Len; split <;> (try split) <;> (try split) <;> omega

theorem blen_append (a b : List Nat) : blen (a ++ b) = blen a + blen b := by
  induction a with
  | nil => simp [blen]
  | cons x xs ih => simp [blen, ih]; omega

theorem blen_ge_length (a : List Nat) : a.length ≤ blen a := by
  induction a with
  | nil => simp [blen]
  | cons x xs ih => have := utf8Len_pos x; simp [blen]; omega

theorem blen_lt_of_prefix {a b : List Nat} (h : a <+: b) (hl : a.length < b.length) : blen a < blen b := by
  obtain ⟨t, rfl⟩ := h
  rw [blen_append]
  have : 1 ≤ t.length := by simp at hl; omega
  have := blen_ge_length t
  omega

/-- the first matching word of a sorted vocabulary is a longest matching word -/
theorem C17_first_match_is_longest (items : List Item) (rest : List Nat) (it : Item)
    (hs : Sorted items) (hf : firstMatch items rest = some it) :
    it ∈ items ∧ it.name <+: rest ∧
    ∀ jt ∈ items, jt.name <+: rest → jt.name.length ≤ it.name.length := by
  unfold firstMatch at hf
  obtain ⟨hit, l1, l2, hsplit, hnone⟩ := List.find?_eq_some_iff_append.mp hf
  have hitp : it.name <+: rest := List.isPrefixOf_iff_prefix.mp (by simpa using hit)
  refine ⟨by rw [hsplit]; simp, hitp, ?_⟩
  intro jt hj hjtp
  have hjp : jt.name.isPrefixOf rest = true := List.isPrefixOf_iff_prefix.mpr hjtp
  rw [hsplit] at hj hs
  rcases List.mem_append.mp hj with h1 | h2
  · have := hnone jt h1; simp [hjp] at this
  · rcases List.mem_cons.mp h2 with rfl | h3
    · exact Nat.le_refl _
    · have hsorted : blen jt.name ≤ blen it.name := by
        have hp := (List.pairwise_append.mp hs).2.1
        exact (List.pairwise_cons.mp hp).1 jt h3
      by_cases hle : jt.name.length ≤ it.name.length
      · exact hle
      · have hlt : it.name.length < jt.name.length := by omega
        have hpre : it.name <+: jt.name := List.prefix_of_prefix_length_le hitp hjtp (by omega)
        have := blen_lt_of_prefix hpre hlt
        omega

/-- no word matches ⇒ the search fails (so the character is copied) -/
theorem C17_no_match (items : List Item) (rest : List Nat)
    (h : ∀ it ∈ items, ¬ it.name <+: rest) : firstMatch items rest = none := by
  unfold firstMatch
  rw [List.find?_eq_none]
  intro it hit
  have := h it hit
  simpa [List.isPrefixOf_iff_prefix] using this

/-- `sort_items` establishes the invariant, for every list -/
theorem C17_sort_sorted (items : List Item) : Sorted (sortItems items) := by
  have := List.pairwise_mergeSort (le := fun a b : Item => decide (blen b.name ≤ blen a.name))
    (by intro a b c; simp only [decide_eq_true_eq]; omega)
    (by intro a b; simp only [Bool.or_eq_true, decide_eq_true_eq]; omega) items
  simpa [Sorted, sortItems] using this

/-- …and loses or invents no word -/
theorem C17_sort_perm (items : List Item) : (sortItems items).Perm items := List.mergeSort_perm _ _

/-- after `~{name}={value}` the vocabulary is sorted again, whatever was defined -/
theorem C17_define_keeps_sorted (items : List Item) (cs : List Nat) (hs : Sorted items) :
    Sorted (defineWord items cs).1 := by
  unfold defineWord
  split
  · exact hs
  · split
    · exact hs
    · exact C17_sort_sorted _

/-- the initial vocabulary is sorted -/
theorem C17_init_sorted (rows : List (List Nat × List Nat)) : Sorted (initItems rows) :=
  C17_sort_sorted _

/-- redefinition replaces the value of an existing word; nothing else changes -/
theorem C17_setItem_lookup (items : List Item) (name value : List Nat) (hn : name ≠ []) :
    ∃ it ∈ setItem items name value, it.name = name ∧ it.value = value := by
  unfold setItem
  have hne : name.isEmpty = false := by cases name <;> simp_all
  simp only [hne, Bool.false_eq_true, if_false]
  split
  · rename_i h
    obtain ⟨x, hx, hxn⟩ := List.any_eq_true.mp h
    refine ⟨{ x with value := value }, ?_, ?_, rfl⟩
    · refine List.mem_map.mpr ⟨x, hx, ?_⟩; simp [hxn]
    · simpa using hxn
  · exact ⟨⟨name, value⟩, by simp, rfl, rfl⟩

/-- … and no entry of that name keeps an older value — in the sorted vocabulary the conversion scans, whichever entry of the name is
    met first carries the value of the latest definition (names of any kind: half-width, full-width, mixed) -/
theorem C17_redefinition_wins (items : List Item) (name value : List Nat) (hn : name ≠ []) :
    ∀ it ∈ sortItems (setItem items name value), it.name = name → it.value = value := by
  intro it hit hname
  have hmem : it ∈ setItem items name value := (List.mergeSort_perm _ _).mem_iff.mp hit
  unfold setItem at hmem
  have hne : name.isEmpty = false := by cases name <;> simp_all
  simp only [hne, Bool.false_eq_true, if_false] at hmem
  split at hmem
  · obtain ⟨x, _, hx⟩ := List.mem_map.mp hmem
    by_cases hxn : (x.name == name) = true
    · simp only [hxn, if_true] at hx; rw [← hx]
    · simp only [hxn, if_false] at hx
      subst hx; exact absurd (by simpa using hname) hxn
  · rename_i hany
    rcases List.mem_append.mp hmem with h | h
    · exact absurd (List.any_eq_true.mpr ⟨it, h, by simpa using hname⟩) hany
    · have : it = ⟨name, value⟩ := by simpa using h
      rw [this]

/-- a user definition affects only the text after it: the loop continues on the rest with the
    extended vocabulary; for the definition itself it emits nothing but the line breaks written inside it -/
theorem C17_user_def_from_point (f : Nat) (items : List Item) (cs : List Nat) :
    convertLoop (f + 1) items (126 :: cs) = defineNl cs ++ convertLoop f (defineWord items cs).1 (defineWord items cs).2 := by
  simp [convertLoop, zen2han]

theorem C17_user_def_leaves_line_breaks (cs : List Nat) : ∀ x ∈ defineNl cs, x = 10 := by
  intro x hx
  unfold defineNl at hx
  split at hx
  · simp at hx
  · split at hx
    · simpa using (List.mem_filter.mp hx).2
    · rcases List.mem_append.mp hx with h | h <;> simpa using (List.mem_filter.mp h).2

/-- a definition written on one line leaves nothing behind -/
theorem C17_user_def_one_line (cs : List Nat) (h1 : 10 ∉ dwName cs) (h2 : 10 ∉ dwValue cs) : defineNl cs = [] := by
  have e1 : (dwName cs).filter (· = 10) = [] := by
    rw [List.filter_eq_nil_iff]; intro x hx; simp; intro h; subst h; exact h1 hx
  have e2 : (dwValue cs).filter (· = 10) = [] := by
    rw [List.filter_eq_nil_iff]; intro x hx; simp; intro h; subst h; exact h2 hx
  unfold defineNl
  split
  · rfl
  · split <;> simp [e1, e2]

/-- the regenerated built-in vocabulary: every word is non-empty and starts with a non-ASCII character -/
theorem C17_vocabulary_non_ascii :
    Gen.sutoton.all (fun r => match r.1 with | c :: _ => decide (128 ≤ c) | [] => false) = true := by
  decide +kernel

/-- plain ASCII characters other than `{ / ~` -/
def PlainAscii (c : Nat) : Prop := c < 128 ∧ c ≠ 123 ∧ c ≠ 47 ∧ c ≠ 126 ∧ (0x20 ≤ c ∨ c = 10 ∨ c = 9 ∨ c = 13)

def NonAsciiVocab (items : List Item) : Prop := ∀ it ∈ items, ∃ c r, it.name = c :: r ∧ 128 ≤ c

theorem zen2han_plain (c : Nat) (h : PlainAscii c) : zen2han c = c := by
  obtain ⟨h1, _, _, _, h5⟩ := h
  unfold zen2han
  by_cases hp : 0x20 ≤ c ∧ c ≤ 0x7E
  · simp [hp]
  · have a : ¬ (0xFF01 ≤ c ∧ c ≤ 0xFF5E) := by omega
    have b : ¬ (0x2002 ≤ c ∧ c ≤ 0x200B) := by omega
    have d : ¬ (c = 0x3000 ∨ c = 0xFEFF) := by omega
    simp [hp, a, b, d]

/-- ASCII identity: plain ASCII text passes through the loop unchanged, for every vocabulary whose
    words start with a non-ASCII character -/
theorem C17_ascii_identity (items : List Item) (hv : NonAsciiVocab items) (cs : List Nat)
    (hp : ∀ c ∈ cs, PlainAscii c) : ∀ f, cs.length < f → convertLoop f items cs = cs := by
  induction cs with
  | nil => intro f hf; cases f with
    | zero => omega
    | succ f => simp [convertLoop]
  | cons c cs ih =>
    intro f hf
    obtain ⟨g, rfl⟩ : ∃ g, f = g + 1 := ⟨f - 1, by simp at hf; omega⟩
    have hc := hp c List.mem_cons_self
    have hz := zen2han_plain c hc
    obtain ⟨h1, h2, h3, h4, _⟩ := hc
    have hnm : firstMatch items (c :: cs) = none := by
      apply C17_no_match
      intro it hit hpre
      obtain ⟨d, r, hn, hd⟩ := hv it hit
      rw [hn] at hpre
      obtain ⟨t, ht⟩ := hpre
      simp at ht
      omega
    have hne : ¬ (c = 126 ∨ c = 0x203E) := by omega
    simp only [convertLoop, hz, h2, h3, hne, if_false, hnm]
    rw [ih (fun x hx => hp x (List.mem_cons_of_mem _ hx)) g (by simp at hf; omega)]

theorem getTokenS_terminated (sp body rest : List Nat) (hsp : sp ≠ [])
    (hno : ∀ k, k < body.length → ¬ sp <+: (body.drop k ++ sp ++ rest)) :
    getTokenS sp (body ++ sp ++ rest) = (body, rest) := by
  induction body with
  | nil =>
    cases hs : sp with
    | nil => exact absurd hs hsp
    | cons s ss =>
      have : (s :: ss).isPrefixOf (s :: ss ++ rest) = true := by
        rw [List.isPrefixOf_iff_prefix]; exact List.prefix_append _ _
      simp only [List.nil_append, List.cons_append, getTokenS]
      simp only [List.cons_append] at this
      simp [this]
  | cons b bs ih =>
    have h0 := hno 0 (by simp)
    simp only [List.drop_zero] at h0
    have hnp : sp.isPrefixOf (b :: bs ++ sp ++ rest) = false := by
      cases h : sp.isPrefixOf (b :: bs ++ sp ++ rest) with
      | false => rfl
      | true => exact absurd (List.isPrefixOf_iff_prefix.mp h) h0
    simp only [List.cons_append] at hnp ⊢
    simp only [getTokenS, hnp, Bool.false_eq_true, if_false]
    have := ih (fun k hk => by
      have := hno (k + 1) (by simp; omega)
      simpa using this)
    simp only [List.append_assoc] at this ⊢
    simp [this]

/-- a terminated `{"…"}` string is copied verbatim and scanning resumes right after it -/
theorem C17_string_passthrough (f : Nat) (items : List Item) (body rest : List Nat)
    (hno : ∀ k, k < (123 :: 34 :: body).length → ¬ [34, 125] <+: ((123 :: 34 :: body).drop k ++ [34, 125] ++ rest)) :
    convertLoop (f + 1) items (123 :: 34 :: body ++ [34, 125] ++ rest)
      = 123 :: 34 :: body ++ [34, 125] ++ convertLoop f items rest := by
  have h := getTokenS_terminated [34, 125] (123 :: 34 :: body) rest (by simp) hno
  simp only [List.cons_append, List.append_assoc, List.nil_append] at h
  simp only [List.cons_append, List.append_assoc, List.nil_append, convertLoop]
  have hz : zen2han 123 = 123 := by decide
  simp only [hz, if_true]
  rw [h]
  simp

-- non-vacuity: a concrete vocabulary and text
example : convertLoop 10 [⟨[12489, 12540], [120]⟩, ⟨[12489], [99]⟩, ⟨[12524], [100]⟩] [12489, 12540, 12489, 12524, 99]
    = [120, 99, 100, 99] := by decide
example : PlainAscii 99 ∧ PlainAscii 32 := by unfold PlainAscii; decide

end Sakura.Props.C17
