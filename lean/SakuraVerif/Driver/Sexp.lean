/-! Minimal S-expression reader for structured driver arguments. -/
namespace Sakura.Sexp

inductive S where
  | atom (s : String)
  | list (l : List S)
deriving Repr, Inhabited

def tokenize (s : String) : List String :=
  let rec go (cs : List Char) (cur : List Char) (acc : List String) : List String :=
    match cs with
    | [] => (if cur.isEmpty then acc else String.ofList cur.reverse :: acc).reverse
    | c :: r =>
      if c == '(' || c == ')' then
        let acc := if cur.isEmpty then acc else String.ofList cur.reverse :: acc
        go r [] (String.singleton c :: acc)
      else if c == ' ' || c == '\n' then
        go r [] (if cur.isEmpty then acc else String.ofList cur.reverse :: acc)
      else go r (c :: cur) acc
  go s.toList [] []

partial def parseList (ts : List String) (acc : List S) : List S × List String :=
  match ts with
  | [] => (acc.reverse, [])
  | ")" :: r => (acc.reverse, r)
  | "(" :: r =>
    let (l, r') := parseList r []
    parseList r' (.list l :: acc)
  | a :: r => parseList r (.atom a :: acc)

def parse (s : String) : S :=
  match (parseList (tokenize s) []).1 with
  | [x] => x
  | l => .list l

def S.int? : S → Option Int
  | .atom "_" => none
  | .atom a => a.toInt?
  | _ => none
def S.intD (d : Int) (s : S) : Int := (s.int?).getD d
def S.items : S → List S
  | .list l => l
  | _ => []
def S.sym : S → String
  | .atom a => a
  | _ => ""

end Sakura.Sexp
