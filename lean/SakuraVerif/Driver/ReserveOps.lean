import SakuraVerif.Driver.Sexp
import SakuraVerif.Driver.Wire
import SakuraVerif.Model.Reserve
namespace Sakura.Driver
open Sakura.Reserve Sakura.Sexp Sakura.Wire

def ints (s : S) : List Int := s.items.map (fun x => x.intD 0)

def rCmd (s : S) : Reserve.Cmd :=
  match s.items with
  | [k] => if k.sym == "rest" then .rest else .rest
  | [k, a] =>
    match k.sym with
    | "note" => .note (a.intD 0) | "v" => .setV (a.intD 0) | "q" => .setQ (a.intD 0) | "t" => .setT (a.intD 0)
    | "o" => .setO (a.intD 0) | "l" => .setL (a.intD 96) | "freq" => .freq (a.intD 4) | "vontime" => .vOnTime (ints a)
    | _ => .rest
  | [k, a, b] =>
    match k.sym with
    | "random" => .random (a.intD 0).toNat (b.intD 0) | "cconnote" => .ccOnNote (a.intD 0) (ints b)
    | "ccontime" => .ccOnTime (a.intD 0) (ints b) | "pbontime" => .pbOnTime (a.sym == "1") (ints b)
    | _ => .rest
  | [k, a, b, c] => if k.sym == "onnote" then .onNote (a.intD 0).toNat (ints b) (c.sym == "1") else .rest
  | [k, a, b, c, d] =>
    if k.sym == "notex" then .noteX (a.intD 0) b.int? c.int? d.int?
    else if k.sym == "noten" then .noteN (a.intD 0) b.int? c.int? d.int? else .rest
  | _ => .rest

def reserveRun (hexSexp : String) : String :=
  let cs := (parse (String.ofList ((utf8Decode (unhex hexSexp)).map Char.ofNat))).items.map rCmd
  let t := Reserve.run cs
  s!"ev={showEvents t.ev} tp={t.tp}"

end Sakura.Driver
