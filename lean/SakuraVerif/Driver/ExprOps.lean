import SakuraVerif.Driver.Wire
import SakuraVerif.Model.Expr
namespace Sakura.Driver
open Sakura.Ex Sakura.Wire

/-- Polish-notation wire form: `b<opid>` lhs rhs | `n` e | `I<int>` | `S<hex>` | `T` | `F`, comma separated.
    Returns the tree, the atom table (in order) and the remaining items. -/
partial def parsePolish (items : List String) (atoms : Array Val) : Option (Expr × Array Val × List String) :=
  match items with
  | [] => none
  | x :: rest =>
    if x.startsWith "b" then
      let id := parseNat (x.drop 1).toString
      match parsePolish rest atoms with
      | some (a, at1, r1) =>
        match parsePolish r1 at1 with
        | some (b, at2, r2) => some (.bin ⟨id, lvlOf id⟩ a b, at2, r2)
        | none => none
      | none => none
    else if x == "n" then
      match parsePolish rest atoms with
      | some (a, at1, r1) => some (.neg a, at1, r1)
      | none => none
    else if x.startsWith "I" then some (.atom atoms.size, atoms.push (.int (parseInt (x.drop 1).toString)), rest)
    else if x.startsWith "S" then some (.atom atoms.size, atoms.push (.str (text (x.drop 1).toString)), rest)
    else if x == "T" then some (.atom atoms.size, atoms.push (.bool true), rest)
    else if x == "F" then some (.atom atoms.size, atoms.push (.bool false), rest)
    else none

/-- value of the tree as `PRINT` shows it; also the value of parse(print(tree)) as a self-check -/
def exprEval (s : String) : String :=
  match parsePolish (s.splitOn ",") #[] with
  | some (e, atoms, _) =>
    let ρ := fun i => atoms.getD i (.int 0)
    let v := evalTree ρ e
    let toks := print top e
    let reparsed := match parseLevel (toks.length * 4 + 8) top toks with
      | some (e', []) => decide (e' = e)
      | _ => false
    s!"out={textOut v.toS} roundtrip={if reparsed then 1 else 0}"
  | none => "bad-tree"

def builtinEval (name : String) (args : List String) : String :=
  match name, args with
  | "mid", [s, i, n] => "out=" ++ textOut (mid (text s) (parseNat i) (parseNat n))
  | "sizeof", [s] => s!"out={textOut (showInt (sizeOfStr (text s)))}"
  | "replace", [s, a, b] => "out=" ++ textOut (replaceAll ((text s).length + 2) (text s) (text a) (text b))
  | "chr", [n] => "out=" ++ textOut [parseNat n]
  | _, _ => "bad-builtin"

end Sakura.Driver
