import SakuraVerif.Driver.Wire
import SakuraVerif.Lemmas.Length
namespace Sakura.Driver
open Sakura.Len Sakura.Wire

/-- part syntax on the wire: `pct:neg:digits:dots` (digits as text, `~` for none) -/
def parsePart (s : String) : PartSyn :=
  match s.splitOn ":" with
  | [p, n, d, k] => ⟨p == "1", n == "1", if d == "~" then [] else d.toList.map Char.toNat, parseNat k⟩
  | _ => ⟨false, false, [], 0⟩

/-- closed-form (documented) value of a length expression given by its syntax:
    `head;sep:part;sep:part…` -/
def lenSpec (tb dflt : Int) (s : String) : Int :=
  match s.splitOn ";" with
  | [] => dflt
  | h :: ps =>
    let parts := ps.map (fun x => match x.splitOn "/" with
      | [sep, p] => (parseNat sep, parsePart p)
      | _ => (94, ⟨false, false, [], 0⟩))
    headVal tb dflt (parsePart h) + sumVals tb dflt parts

end Sakura.Driver
