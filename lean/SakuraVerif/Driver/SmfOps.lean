import SakuraVerif.Driver.Wire
import SakuraVerif.Spec.SmfExpected
/-! Driver operations for the SMF layer (C01, C02). -/
namespace Sakura.Driver
open Sakura Sakura.Spec Sakura.Wire

/-- C01 predicate on real bytes: strict parse, format 1, counts, division, EOT suffix per chunk -/
def specC01 (bin : List Nat) (ntracks : Nat) (tb : Nat) : String :=
  match parseSmf bin with
  | none => "holds=0 why=container-does-not-parse"
  | some (h, bodies) =>
    if h.fmt != 1 then s!"holds=0 why=format-{h.fmt}"
    else if h.ntrks != ntracks then s!"holds=0 why=ntrks-{h.ntrks}-expected-{ntracks}"
    else if bodies.length != ntracks then "holds=0 why=chunk-count"
    else if h.division != tb then s!"holds=0 why=division-{h.division}-expected-{tb}"
    else if h.division == 0 || h.division ≥ 32768 then "holds=0 why=division-not-positive-15-bit"
    else if bodies.any (fun b => b.drop (b.length - 4) != eotBytes) then "holds=0 why=chunk-without-final-eot"
    else if bodies.any (fun b => (decodeTrack (b.length + 1) b).isNone) then "holds=1 note=body-does-not-decode"
    else "holds=1"

def showMsg : Msg → String
  | .noteOff c k v => s!"off({c},{k},{v})" | .noteOn c k v => s!"on({c},{k},{v})"
  | .polyAt c k v => s!"pat({c},{k},{v})" | .cc c k v => s!"cc({c},{k},{v})"
  | .prog c p => s!"prog({c},{p})" | .chanAt c p => s!"cat({c},{p})"
  | .bend c l m => s!"bend({c},{l},{m})" | .metaM t d => s!"meta({t},{hex d})" | .sysex d => s!"sysex({hex d})"

def firstDiff (a b : List (Nat × Msg)) (i : Nat := 0) : String :=
  match a, b with
  | [], [] => "none"
  | x :: xs, y :: ys => if x == y then firstDiff xs ys (i+1) else s!"at-{i}-got-{x.1}:{showMsg x.2}-expected-{y.1}:{showMsg y.2}"
  | x :: _, [] => s!"at-{i}-extra-{x.1}:{showMsg x.2}"
  | [], y :: _ => s!"at-{i}-missing-{y.1}:{showMsg y.2}"

/-- C02 predicate on real bytes: every chunk decodes under the SMF grammar to exactly the expected
    stream of the (valid part of the) song's event snapshot.  Tracks containing events outside the
    property's domain (verbatim bytes, malformed meta/SysEx) are only required to frame correctly. -/
def specC02 (bin : List Nat) (pf : Int) (tracks : List (List Event)) : String :=
  match parseSmf bin with
  | none => "holds=0 why=container-does-not-parse"
  | some (_, bodies) =>
    if bodies.length != tracks.length then "holds=0 why=chunk-count"
    else
      let tr := if pf < 0 then tracks else tracks.map (playFrom pf)
      let rec go (i : Nat) : List (List Nat) → List (List Event) → String
        | b :: bs, es :: ess =>
          if es.all (fun e => decide (Valid e)) then
            match decodeTrack (b.length + 1) b with
            | none => s!"holds=0 why=track-{i}-is-not-a-legal-event-stream"
            | some l =>
              let exp := expected 0 (normalize es) ++ [eotMsg]
              if l == exp then go (i+1) bs ess
              else s!"holds=0 why=track-{i}-" ++ firstDiff l exp
          else if es.any (fun e => e.kind == .directSmf && !e.data.isEmpty) then go (i+1) bs ess   -- user-injected bytes: excluded
          else match decodeTrack (b.length + 1) b with
            | none => s!"holds=0 why=track-{i}-is-not-a-legal-event-stream"
            | some _ => go (i+1) bs ess
        | _, _ => "holds=1"
      go 0 bodies tr

end Sakura.Driver
