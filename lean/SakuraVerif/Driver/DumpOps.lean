import SakuraVerif.Driver.Wire
import SakuraVerif.Spec.Dump
import SakuraVerif.Model.DumpText
namespace Sakura.Driver
open Sakura Sakura.Spec Sakura.Wire

/-- cut a trailing explanatory comment (` // …` or ` /* … */`) from a dump description -/
def cutComment (s : String) : String :=
  if s.startsWith "/*" || s.startsWith "//" then s
  else
    let a := (s.splitOn " //").head!
    let b := (a.splitOn " /*").head!
    b.trimAsciiEnd.toString

/-- the track grammar of SMF 1.0 in full, i.e. with running status (a channel message may omit its status byte when it equals that
    of the previous channel message; meta and SysEx events cancel it).  On tracks with explicit status bytes throughout — what the
    unchanged writer produces — this is `decodeTrack`; it is what "the events of the file" means if the writer ever omits one. -/
def decodeTrackRS : Nat → Option Nat → List Nat → Option (List (Nat × Msg))
  | 0, _, _ => none
  | f+1, last, bs =>
    match decodeVlq 0 bs with
    | none => none
    | some (d, r) =>
      let r1 := match r, last with
        | b :: _, some st => if b < 128 then st :: r else r
        | _, _ => r
      match decodeMsg r1 with
      | none => none
      | some (m, r') =>
        let last' := match r1 with
          | st :: _ => if 128 ≤ st && st < 240 then some st else none
          | [] => none
        if isEot m then (if r' = [] then some [(d, m)] else none)
        else match decodeTrackRS f last' r' with
          | some rest => some ((d, m) :: rest)
          | none => none

/-- C20 predicate on the real dump text of real compiler output -/
def specC20 (bin : List Nat) (text : String) : String :=
  match parseSmf bin with
  | none => "holds=1 note=not-a-compiler-output"
  | some (h, bodies) =>
    let decoded := bodies.map (fun b => decodeTrackRS (b.length + 1) none b)
    if decoded.any Option.isNone then "holds=1 note=track-outside-the-smf-grammar"
    else
      let trs := decoded.map (fun o => o.getD [])
      let exp := fileLines h.division {} trs
      let lines := (text.splitOn "\n").filter (· ≠ "")
      let hdr := ["// ----- MIDI DUMP DATA -----", s!"/// [MThd] midi format={h.fmt}", s!"/// [MThd] track_count={h.ntrks}", s!"TIMEBASE={h.division}"]
      if lines.take 4 != hdr then "holds=0 why=header-lines"
      else
        let rec goTrack (no : Nat) (ls : List String) : List (List (String × Option String)) → String
          | [] => if ls.isEmpty then "holds=1" else "holds=0 why=extra-lines-after-last-track"
          | tr :: rest =>
            match ls with
            | a :: b :: ls' =>
              if a != "// ----- TRACK -----" || b != s!"TRACK({no})" then s!"holds=0 why=track-{no}-header"
              else
                let rec goEv (i : Nat) (ls : List String) : List (String × Option String) → Option (List String) × String
                  | [] => (some ls, "")
                  | (pos, desc) :: es =>
                    match ls with
                    | [] => (none, s!"track-{no}-event-{i}-missing-line-expected-{pos}")
                    | l :: ls' =>
                      if !l.startsWith (pos ++ " ") then (none, s!"track-{no}-event-{i}-position-expected-{pos}-got-{(l.take 17).toString}")
                      else match desc with
                        | none => goEv (i+1) ls' es
                        | some d =>
                          let got := cutComment (l.drop (pos.length + 1)).toString
                          if got == d then goEv (i+1) ls' es
                          else (none, s!"track-{no}-event-{i}-expected-{hex (d.toList.map Char.toNat)}-got-{hex (got.toList.map Char.toNat)}")
                match goEv 0 ls' tr with
                | (some restLines, _) => goTrack (no+1) restLines rest
                | (none, why) => "holds=0 why=" ++ why
            | _ => s!"holds=0 why=track-{no}-header-missing"
        goTrack 0 (lines.drop 4) exp

/-- `dumptext <hex bytes>` → the whole text the literal model `Dt.dump` gives for the byte string -/
def dumpTextOp (bin : List Nat) : String :=
  let t := String.join ((Dt.dump bin).map (· ++ "\n"))
  "text=" ++ hex (t.toUTF8.toList.map (fun b => b.toNat))

end Sakura.Driver
