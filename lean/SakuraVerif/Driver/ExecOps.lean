import SakuraVerif.Model.Exec
import SakuraVerif.Driver.LexOps
import SakuraVerif.Driver.Sexp
import SakuraVerif.Driver.CoreOps
import SakuraVerif.Lemmas.ExecRefine
import SakuraVerif.Lemmas.LexPrint2
/-! Driver side of the runner tie: parses the real token list (S-expression form written by the
    harness op `lexrun`), runs `Model.Exec` and prints events and track states in the harness's
    text form. -/
namespace Sakura.Driver
open Sakura.Lx Sakura.Wire Sakura.Sexp

def ttOfName : String → TT
  | "LineNo" => .lineNo | "Length" => .length | "Note" => .note | "NoteN" => .noteN | "Rest" => .rest
  | "Octave" => .octave | "OctaveRel" => .octaveRel | "OctaveOnce" => .octaveOnce | "QLen" => .qlen | "QLenRel" => .qlenRel
  | "Velocity" => .velocity | "VelocityRel" => .velocityRel | "Timing" => .timing | "LoopBegin" => .loopBegin
  | "LoopBreak" => .loopBreak | "LoopEnd" => .loopEnd | "HarmonyBegin" => .harmonyBegin | "HarmonyEnd" => .harmonyEnd
  | "Div" => .div | "Sub" => .sub | "PlayFromHere" => .playFromHere | "Comment" => .comment
  | "OctaveRandom" => .octaveRandom | "QLenRandom" => .qlenRandom | "VelocityRandom" => .velocityRandom | "TimingRandom" => .timingRandom
  | "KeyShift" => .keyShift | "TrackKey" => .trackKey | "KeyFlag" => .keyFlag | "UseKeyShift" => .useKeyShift | "TieMode" => .tieMode
  | "SongVelocityAdd" => .songVelocityAdd | "SongQAdd" => .songQAdd | "MeasureShift" => .measureShift | "Voice" => .voice
  | "ControlChange" => .controlChange | "PitchBend" => .pitchBend | "Tempo" => .tempo | "TimeSignature" => .timeSignature | "Time" => .time
  | "PlayFrom" => .playFrom
  | "TimeBase" => .timeBase
  | "Track" => .track | "Channel" => .channel | "TrackSync" => .trackSync | "Tokens" => .tokens | "ConstInt" => .constInt
  | _ => .other

partial def svOfS : S → SV
  | .atom a =>
    if a.startsWith "I" then .int (parseInt (a.drop 1).toString)
    else if a.startsWith "S" then .str (text (a.drop 1).toString)
    else if a.startsWith "B" then .int (parseInt (a.drop 1).toString)
    else .none
  | .list (.atom "A" :: items) => .arr (items.map svOfS)
  | .list (.atom "IA" :: items) => .arr (items.map (fun x => .int (x.intD 0)))
  | .list _ => .none

partial def tokOfS : S → Tok
  | .list [ty, vi, line, data, kids] =>
    let ch := match kids with
      | .list l => some (l.map tokOfS)
      | _ => none
    .mk (ttOfName ty.sym) (vi.intD 0) (line.intD 0) none (data.items.map svOfS) ch
  | _ => .mk .other 0 0 none [] none

def trkState (t : Ex2.Trk) : String :=
  s!"tp:{t.timepos},ch:{t.channel},l:{t.length},o:{t.octave},v:{t.velocity},q:{t.qlen},t:{t.timing},key:{t.trackKey}"

/-- `exec <hex of token S-expressions>` → `tracks=… state=… cur=… pf=… seed=…` or `unsupported` -/
def execOp (toksHex : String) (tb : Int) : String :=
  let txt := String.ofList ((unhex toksHex).map Char.ofNat)
  let toks := (parse ("(" ++ txt ++ ")")).items.map tokOfS
  -- (the first track is created before the text is read; `TimeBase` keeps its default length a quarter note of the new time base)
  match Ex2.exec 400000 24 toks { tb := tb, tracks := [Ex2.Trk.new tb 0] } with
  | none => "unsupported fuel"
  | some s =>
    if s.bad then "unsupported" else
    let tr := ";".intercalate (s.tracks.map (fun t => showEvents t.events))
    let st := ";".intercalate (s.tracks.map trkState)
    let kf := "/".intercalate (s.keyFlag.map toString)
    let sg := s!"ks:{s.keyShift},kf:{kf},uk:{if s.useKeyShift then 1 else 0},va:{s.vAdd},qa:{s.qAdd},ms:{s.measureShift},tsf:{s.timesigFrac},tsd:{s.timesigDeno},tempo:{s.tempo}"
    let ties := ";".intercalate (s.tracks.map (fun t => s!"{t.tieMode}:{t.tieValue}:{t.bendRange}"))
    s!"tracks={tr} state={st} cur={s.cur} pf={s.playFrom} seed={s.seed} song={sg} ties={ties}"

/-- `compile <hex of program S-expression>` → the token list `Ex2.compileL` assigns to the program, in the text form of op `lex` -/
def compileOp (progHex : String) : String :=
  let cs := progOf progHex
  let t := " ".intercalate ((Ex2.compileL cs).map tokStr)
  "toks=" ++ hex (t.toUTF8.toList.map (fun b => b.toNat))

/-- `printk <hex of program S-expression>` → the canonical text `Lp.printKL2` of the program, the compiled token list, and the model
    lexer's answer on that text -/
def printkOp (progHex : String) : String :=
  let cs := progOf progHex
  let txt := Lp.printKL2 cs []
  let t := " ".intercalate ((Ex2.compileL cs).map tokStr)
  let lexed := match Lx.lex 96 txt 0 with
    | some o => if o.errs.isEmpty then " ".intercalate (o.toks.map tokStr) else "errors"
    | none => "unsupported"
  "text=" ++ textOut txt ++ " toks=" ++ hex (t.toUTF8.toList.map (fun b => b.toNat)) ++ " lexed=" ++ hex (lexed.toUTF8.toList.map (fun b => b.toNat))

end Sakura.Driver
