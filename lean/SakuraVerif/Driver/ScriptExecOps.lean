import SakuraVerif.Model.ScriptExec
import SakuraVerif.Driver.Sexp
import SakuraVerif.Driver.Wire
import SakuraVerif.Lemmas.ScriptCheck
/-! Driver side of the script tie: parses the real token list and function table (S-expression form written by the harness op
    `scriptrun`), runs `Model.ScriptExec` and prints log, notes and the height of the value stack. -/
namespace Sakura.Driver
open Sakura.Sx Sakura.Wire Sakura.Sexp

def sttOfName : String → Sx.TT
  | "LineNo" => .lineNo | "DefInt" => .defInt | "DefStr" => .defStr | "LetVar" => .letVar | "ValueInc" => .valueInc
  | "GetVariable" => .getVariable | "ConstInt" => .constInt | "ConstStr" => .constStr | "CalcTree" => .calcTree | "Tokens" => .tokens
  | "Print" => .print | "If" => .if_ | "For" => .for_ | "While" => .while_ | "Break" => .break_ | "Continue" => .continue_
  | "Return" => .return_ | "CallUserFunction" => .callUser | "NoteN" => .noteN
  | _ => .other

def strOfAtom (a : String) : List Nat := if a == "S~" then [] else text (a.drop 1).toString

def datOfS : S → Sx.Dat
  | .atom a => if a.startsWith "I" then .int (parseInt (a.drop 1).toString) else if a.startsWith "S" then .str (strOfAtom a) else .other
  | _ => .other

def valOfS : S → Sx.V
  | .atom a =>
    if a.startsWith "I" then some (.int (parseInt (a.drop 1).toString))
    else if a.startsWith "S" then some (.str (strOfAtom a))
    else if a.startsWith "B" then some (.bool (a == "B1"))
    else none
  | _ => none

partial def stokOfS : S → Sx.Tok
  | .list [ty, vi, tag, line, vs, data, kids] =>
    let ch := match kids with
      | .list l => some (l.map stokOfS)
      | _ => none
    let s := match vs with
      | .atom a => if a == "_" then none else some (strOfAtom a)
      | _ => none
    .mk (sttOfName ty.sym) (vi.intD 0) (tag.intD 0) (line.intD 0) s (data.items.map datOfS) ch
  | _ => .mk .other 0 0 0 none [] none

def fnOfS : S → Sx.Fn
  | .list [_, _, args, defs, body] => ⟨args.items.map (fun a => strOfAtom a.sym), defs.items.map valOfS, body.items.map stokOfS⟩
  | _ => ⟨[], [], []⟩

def showLog (l : List (Int × List Nat)) : String :=
  "\n".intercalate (l.map (fun p =>
    if p.2 == [87] then s!"[LIMIT-W]({p.1})" else if p.2 == [70] then s!"[LIMIT-F]({p.1})"
    else s!"[PRINT]({p.1}) " ++ String.ofList (p.2.map Char.ofNat)))

/-! the premises of the script theorems are decided with the checkers of `Lemmas/ScriptCheck.lean` (`progB`, `rankedB`), which are
    proved sound there -/

/-- `scriptexec <hex tokens> <hex functions|~>` -/
def scriptExecOp (toksHex funcsHex : String) : String :=
  let txt := String.ofList ((unhex toksHex).map Char.ofNat)
  let toks := (parse ("(" ++ txt ++ ")")).items.map stokOfS
  let ftxt := if funcsHex == "~" then "" else String.ofList ((unhex funcsHex).map Char.ofNat)
  let fns := (parse ("(" ++ ftxt ++ ")")).items.map fnOfS
  -- without a call cycle the need computed from the text is enough fuel (C07_script_terminates); otherwise a fixed depth
  let ranked := Sx.rankedB fns
  let need := Sx.needList (Sx.nfOf fns) toks
  let wf := Sx.progB fns toks 2000
  let s := Sx.run fns toks (if ranked then need else 400000)
  if s.bad then s!"unsupported wf={if wf then 1 else 0} ranked={if ranked then 1 else 0}" else
  let lg := showLog s.log
  let big := s.scopes.any (fun sc => sc.any (fun p => match p.2 with | some (.int i) => decide (i.natAbs ≥ 4611686018427387904) | _ => false))
  s!"big={if big then 1 else 0} wf={if wf then 1 else 0} ranked={if ranked then 1 else 0} need={need} log={if lg.isEmpty then "~" else hex (lg.toUTF8.toList.map (fun b => b.toNat))} notes={if s.notes.isEmpty then "~" else ",".intercalate (s.notes.map toString)} stack={s.stack.length} brk={s.brk}"

end Sakura.Driver
