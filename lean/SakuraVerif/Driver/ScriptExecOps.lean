import SakuraVerif.Model.ScriptExec
import SakuraVerif.Driver.Sexp
import SakuraVerif.Driver.Wire
/-! Driver side of the script tie: parses the real token list and function table (S-expression form written by the harness op
    `scriptrun`), runs `Model.ScriptExec` and prints log, notes and the height of the value stack. -/
namespace Sakura.Driver
open Sakura.Sx Sakura.Wire Sakura.Sexp

def sttOfName : String → Sx.TT
  | "LineNo" => .lineNo | "DefInt" => .defInt | "DefStr" => .defStr | "LetVar" => .letVar | "ValueInc" => .valueInc
  | "GetVariable" => .getVariable | "ConstInt" => .constInt | "ConstStr" => .constStr | "CalcTree" => .calcTree | "Tokens" => .tokens
  | "Print" => .print | "If" => .if_ | "For" => .for_ | "While" => .while_ | "Break" => .break_ | "Continue" => .continue_
  | "Return" => .return_ | "CallUserFunction" => .callUser | "NoteN" => .noteN
  | _ => .other

def strOfAtom (a : String) : List Nat := if a == "S~" then [] else text (a.drop 1).toString

def datOfS : S → Sx.Dat
  | .atom a => if a.startsWith "I" then .int (parseInt (a.drop 1).toString) else if a.startsWith "S" then .str (strOfAtom a) else .other
  | _ => .other

def valOfS : S → Sx.V
  | .atom a =>
    if a.startsWith "I" then some (.int (parseInt (a.drop 1).toString))
    else if a.startsWith "S" then some (.str (strOfAtom a))
    else if a.startsWith "B" then some (.bool (a == "B1"))
    else none
  | _ => none

partial def stokOfS : S → Sx.Tok
  | .list [ty, vi, tag, line, vs, data, kids] =>
    let ch := match kids with
      | .list l => some (l.map stokOfS)
      | _ => none
    let s := match vs with
      | .atom a => if a == "_" then none else some (strOfAtom a)
      | _ => none
    .mk (sttOfName ty.sym) (vi.intD 0) (tag.intD 0) (line.intD 0) s (data.items.map datOfS) ch
  | _ => .mk .other 0 0 0 none [] none

def fnOfS : S → Sx.Fn
  | .list [_, _, args, defs, body] => ⟨args.items.map (fun a => strOfAtom a.sym), defs.items.map valOfS, body.items.map stokOfS⟩
  | _ => ⟨[], [], []⟩

def showLog (l : List (Int × List Nat)) : String :=
  "\n".intercalate (l.map (fun p =>
    if p.2 == [87] then s!"[LIMIT-W]({p.1})" else if p.2 == [70] then s!"[LIMIT-F]({p.1})"
    else s!"[PRINT]({p.1}) " ++ String.ofList (p.2.map Char.ofNat)))

/-! executable versions of the token classes `Sx.Ex` / `Sx.Arg` / `Sx.Stm` of `Lemmas/ScriptStack.lean` (the premises of the stack
    theorem): the stream reports whether the real token lists are inside them -/
mutual
partial def isEx (n : Nat) (t : Sx.Tok) : Bool :=
  match t with
  | .mk .constInt .. | .mk .constStr .. => true
  | .mk .getVariable _ _ _ (some _) _ _ => true
  | .mk .calcTree _ tag _ _ _ (some kids) =>
    if tag = 0 then (match kids with | [e] => isEx n e | _ => false)
    else if tag = 33 then kids.all (isArg n)
    else (Sx.calcOp tag none none).isSome && kids.all (isArg n)
  | .mk .tokens _ _ _ _ _ (some [e]) => isEx n e
  | .mk .callUser _ tag _ _ _ (some kids) => decide (0 ≤ tag) && decide (tag.toNat < n) && kids.all (isArg n)
  | _ => false
partial def isArg (n : Nat) (t : Sx.Tok) : Bool :=
  match t with
  | .mk .tokens _ _ _ _ _ (some []) => true
  | _ => isEx n t
end
def isValL (n : Nat) (l : List Sx.Tok) : Bool := match l with | [] => true | [a] => isArg n a | _ => false
partial def isStm (n : Nat) (t : Sx.Tok) : Bool :=
  match t with
  | .mk .lineNo .. | .mk .valueInc .. | .mk .break_ .. | .mk .continue_ .. => true
  | .mk .defInt _ _ _ (some _) _ (some kids) | .mk .defStr _ _ _ (some _) _ (some kids) => isValL n kids
  | .mk .letVar _ _ _ _ (.str _ :: _) (some kids) => isValL n kids
  | .mk .print _ _ _ _ _ (some kids) => kids.all (isArg n)
  | .mk .tokens _ _ _ _ _ (some kids) => kids.all (isStm n)
  | .mk .if_ _ _ _ _ _ (some (c :: th :: el :: _)) => isValL n c.kids && th.kids.all (isStm n) && el.kids.all (isStm n)
  | .mk .while_ _ _ _ _ _ (some (c :: b :: _)) => isValL n c.kids && b.kids.all (isStm n)
  | .mk .for_ _ _ _ _ _ (some (i :: c :: k :: b :: _)) => i.kids.all (isStm n) && isValL n c.kids && k.kids.all (isStm n) && b.kids.all (isStm n)
  | .mk .return_ _ _ _ _ _ (some kids) => isValL n kids
  | .mk .callUser _ tag _ _ _ (some kids) => decide (0 ≤ tag) && decide (tag.toNat < n) && kids.all (isArg n)
  | .mk .noteN _ _ _ _ (.int _ :: _) _ => true
  | _ => false

/-- `scriptexec <hex tokens> <hex functions|~>` -/
def scriptExecOp (toksHex funcsHex : String) : String :=
  let txt := String.ofList ((unhex toksHex).map Char.ofNat)
  let toks := (parse ("(" ++ txt ++ ")")).items.map stokOfS
  let ftxt := if funcsHex == "~" then "" else String.ofList ((unhex funcsHex).map Char.ofNat)
  let fns := (parse ("(" ++ ftxt ++ ")")).items.map fnOfS
  let s := Sx.run fns toks 400000
  if s.bad then "unsupported" else
  let lg := showLog s.log
  let wf := toks.all (isStm fns.length) && fns.all (fun fn => fn.body.all (isStm fns.length))
  s!"wf={if wf then 1 else 0} log={if lg.isEmpty then "~" else hex (lg.toUTF8.toList.map (fun b => b.toNat))} notes={if s.notes.isEmpty then "~" else ",".intercalate (s.notes.map toString)} stack={s.stack.length} brk={s.brk}"

end Sakura.Driver
