import SakuraVerif.Driver.Wire
import SakuraVerif.Model.Time
import SakuraVerif.Model.Smf
namespace Sakura.Driver
open Sakura Sakura.Wire

/-- declarative PlayFrom law (independent of the loop/accumulator formulation of the model): the events before the point are looked
    at in time order (issue order within a tick): per channel their latest controller values and program are re-issued, their meta and
    SysEx events move to tick 0; the events at or after the point follow, shifted, in the order they were issued -/
def pfDropped (e : Event) : Bool :=
  decide (0 ≤ e.ch ∧ e.ch < 16) && (e.kind == .voice || (e.kind == .cc && decide (0 ≤ e.v1 ∧ e.v1 < 128)))

def pfLaw (p : Int) (es0 : List Event) : List Event :=
  let before := (es0.filter (fun e => decide (e.time < p))).mergeSort (fun a b => decide (a.time ≤ b.time))
  let dropped := before.filter pfDropped
  let perCh := (List.range 16).map (fun (c : Nat) =>
    let mine := dropped.filter (fun e => e.ch == (c : Int))
    let ccs := (List.range 128).filterMap (fun (no : Nat) =>
      match (mine.filter (fun e => e.kind == .cc && e.v1 == (no : Int))).getLast? with
      | some e => if e.v2 < 0 then none else some (⟨.cc, 0, (c : Int), (no : Int), e.v2, 0, []⟩ : Event)
      | none => none)
    let voice := match (mine.filter (fun e => e.kind == .voice)).getLast? with
      | some e => if e.v1 ≥ 0 then [(⟨.voice, 0, (c : Int), e.v1, 0, 0, []⟩ : Event)] else []
      | none => []
    ccs ++ voice)
  let metas := (before.filter (fun e => e.kind == .metaEv || e.kind == .sysex)).map (fun e => { e with time := 0 })
  let kept := (es0.filter (fun e => decide (p ≤ e.time))).filterMap (fun e =>
    match e.kind with
    | .metaEv | .sysex | .noteOn | .voice | .cc => some { e with time := e.time - p }
    | _ => none)
  perCh.flatten ++ metas ++ kept

end Sakura.Driver
