import SakuraVerif.Driver.Wire
import SakuraVerif.Model.Time
import SakuraVerif.Model.Smf
namespace Sakura.Driver
open Sakura Sakura.Wire

/-- declarative PlayFrom law (independent of the loop/accumulator formulation of the model): in time order (issue order within a
    tick), per channel the latest controller values and program written before the point, then the kept events -/
def pfDropped (p : Int) (e : Event) : Bool :=
  decide (e.time - p < 0) && decide (0 ≤ e.ch ∧ e.ch < 16) && (e.kind == .voice || (e.kind == .cc && decide (0 ≤ e.v1 ∧ e.v1 < 128)))

def pfLaw (p : Int) (es0 : List Event) : List Event :=
  let es := es0.mergeSort (fun a b => decide (a.time ≤ b.time))
  let dropped := es.filter (pfDropped p)
  let perCh := (List.range 16).map (fun (c : Nat) =>
    let mine := dropped.filter (fun e => e.ch == (c : Int))
    let ccs := (List.range 128).filterMap (fun (no : Nat) =>
      match (mine.filter (fun e => e.kind == .cc && e.v1 == (no : Int))).getLast? with
      | some e => if e.v2 < 0 then none else some (⟨.cc, 0, (c : Int), (no : Int), e.v2, 0, []⟩ : Event)
      | none => none)
    let voice := match (mine.filter (fun e => e.kind == .voice)).getLast? with
      | some e => if e.v1 ≥ 0 then [(⟨.voice, 0, (c : Int), e.v1, 0, 0, []⟩ : Event)] else []
      | none => []
    ccs ++ voice)
  let kept := es.filterMap (fun e =>
    match e.kind with
    | .metaEv | .sysex => some { e with time := if e.time - p < 0 then 0 else e.time - p }
    | .noteOn | .voice | .cc => if e.time - p < 0 then none else some { e with time := e.time - p }
    | _ => none)
  perCh.flatten ++ kept

end Sakura.Driver
