import SakuraVerif.Driver.Wire
import SakuraVerif.Model.Time
import SakuraVerif.Model.Smf
namespace Sakura.Driver
open Sakura Sakura.Wire

/-- declarative PlayFrom law (independent of the loop/accumulator formulation of the model) -/
def pfDropped (p : Int) (e : Event) : Bool :=
  decide (e.time - p < 0) && (e.kind == .voice || (e.kind == .cc && decide (0 ≤ e.v1 ∧ e.v1 < 128)))

def pfLaw (p : Int) (es : List Event) : List Event :=
  let dropped := es.filter (pfDropped p)
  let ch := match dropped.getLast? with | some e => e.ch | none => 0
  let ccs := (List.range 128).filterMap (fun (no : Nat) =>
    match (dropped.filter (fun e => e.kind == .cc && e.v1 == (no : Int))).getLast? with
    | some e => if e.v2 < 0 then none else some (⟨.cc, 0, ch, (no : Int), e.v2, 0, []⟩ : Event)
    | none => none)
  let voice := match (dropped.filter (fun e => e.kind == .voice)).getLast? with
    | some e => if e.v1 ≥ 0 then [(⟨.voice, 0, ch, e.v1, 0, 0, []⟩ : Event)] else []
    | none => []
  let kept := es.filterMap (fun e =>
    match e.kind with
    | .metaEv | .sysex => some { e with time := if e.time - p < 0 then 0 else e.time - p }
    | .noteOn | .voice | .cc => if e.time - p < 0 then none else some { e with time := e.time - p }
    | _ => none)
  ccs ++ voice ++ kept

end Sakura.Driver
