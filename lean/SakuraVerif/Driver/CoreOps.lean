import SakuraVerif.Driver.Sexp
import SakuraVerif.Driver.SmfOps
import SakuraVerif.Spec.Core
namespace Sakura.Driver
open Sakura Sakura.Core Sakura.Sexp Sakura.Wire Sakura.Len

def partOf (s : S) : PartSyn :=
  match s.items with
  | [_, p, n, d, k] => ⟨p.sym == "1", n.sym == "1", if d.sym == "_" then [] else d.sym.toList.map Char.toNat, (k.intD 0).toNat⟩
  | _ => ⟨false, false, [], 0⟩

def lenOf (s : S) : Option LenExpr :=
  match s with
  | .atom _ => none
  | .list (_ :: h :: ps) =>
    some ⟨partOf h, ps.map (fun x => match x.items with
      | [sep, p] => ((sep.intD 94).toNat, partOf p)
      | _ => (94, ⟨false, false, [], 0⟩))⟩
  | _ => none

instance : Inhabited Cmd := ⟨.rest none 0⟩

partial def cmdOf (s : S) : Cmd :=
  match s.items with
  | [k, a, b, c, d, e, f, g, h] =>
    if k.sym == "note" then .note (a.intD 0) (b.intD 0) (c.sym == "1") (lenOf d) e.int? f.int? g.int? h.int? else .rest none 0
  | [k, a, b, c, d, e] =>
    if k.sym == "noten" then .noteN (a.intD 0) (lenOf b) c.int? d.int? e.int?
    else if k.sym == "chord" then .chord (a.items.map cmdOf) (lenOf b) c.int? d.int? -- (chord body len q v _)
    else if k.sym == "loop" then .loop (a.intD 0).toNat (b.items.map cmdOf) (c.sym == "1") (d.items.map cmdOf)
    else .rest none 0
  | [k, a, b] =>
    if k.sym == "rest" then .rest (lenOf a) (b.intD 1)
    else if k.sym == "div" then .div (a.items.map cmdOf) (lenOf b)
    else if k.sym == "keyflag" then .keyFlag (a.intD 0) (b.items.map (fun x => (x.intD 0).toNat))
    else .rest none 0
  | [k] => if k.sym == "tsync" then .trackSync else .rest none 0
  | [k, a] =>
    match k.sym with
    | "play" => .play (a.items.map (fun p => p.items.map cmdOf))
    | "l" => .setL (lenOf a) | "o" => .setO (a.intD 0) | "orel" => .octRel (a.intD 0) | "v" => .setV (a.intD 0)
    | "vrel" => .velRel (a.intD 0) | "q" => .setQ (a.intD 0) | "t" => .setT (a.intD 0)
    | "sub" => .sub (a.items.map cmdOf) | "tr" => .track (a.intD 0).toNat | "ch" => .channel (a.intD 0)
    | "voice" => .voice (a.intD 0) | "kshift" => .keyShift (a.intD 0) | "tkey" => .trackKey (a.intD 0)
    | _ => .rest none 0
  | _ => .rest none 0

def progOf (hexSexp : String) : List Cmd :=
  (parse (String.ofList ((utf8Decode (unhex hexSexp)).map Char.ofNat))).items.map cmdOf

def showStream (l : List (Int × Int × Int × Int)) : String :=
  if l.isEmpty then "~" else ",".intercalate (l.map (fun (t, s, k, v) => s!"{t}:{s}:{k}:{v}"))

/-- expected note messages per track (ticks clamped at 0, data clamped to 7 bits as the writer does) -/
def expectedNotes (s : St) : List (List (Int × Int × Int × Int)) :=
  s.tr.map (fun t => (stream t).map (fun (tm, st, k, v) => ((if tm < 0 then 0 else tm), st, (clamp7 k : Int), (clamp7 v : Int))))

def coreSem (hexSexp : String) : String :=
  let s := semL (progOf hexSexp) St.init
  "notes=" ++ ";".intercalate ((expectedNotes s).map showStream) ++
  " tp=" ++ ",".intercalate (s.tr.map (fun t => toString t.tp)) ++ s!" cur={s.cur}"

/-- note messages (absolute tick, status, key, velocity) of a decoded track -/
def notesOf : Int → List (Nat × Spec.Msg) → List (Int × Int × Int × Int)
  | _, [] => []
  | t, (d, m) :: r =>
    let t' := t + d
    match m with
    | .noteOn c k v => (t', 0x90 + (c : Int), (k : Int), (v : Int)) :: notesOf t' r
    | .noteOff c k v => (t', 0x80 + (c : Int), (k : Int), (v : Int)) :: notesOf t' r
    | _ => notesOf t' r

/-- C03 predicate: the note messages in the real bytes are exactly the notes `sem` prescribes, track by track -/
def specC03 (hexSexp : String) (bin : List Nat) : String :=
  let s := semL (progOf hexSexp) St.init
  let exp := expectedNotes s
  match Spec.parseSmf bin with
  | none => "holds=0 why=container-does-not-parse"
  | some (_, bodies) =>
    if bodies.length != exp.length then s!"holds=0 why=track-count-{bodies.length}-expected-{exp.length}"
    else
      let rec go (i : Nat) : List (List Nat) → List (List (Int × Int × Int × Int)) → String
        | b :: bs, e :: es =>
          match Spec.decodeTrack (b.length + 1) b with
          | none => s!"holds=0 why=track-{i}-is-not-a-legal-event-stream"
          | some l =>
            let got := notesOf 0 l
            if got == e then go (i+1) bs es
            else s!"holds=0 why=track-{i}-got-{showStream (got.take 6)}-expected-{showStream (e.take 6)}"
        | _, _ => "holds=1"
      go 0 bodies exp

end Sakura.Driver
