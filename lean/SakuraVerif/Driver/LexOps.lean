import SakuraVerif.Model.Lexer
import SakuraVerif.Driver.Wire
/-! Driver side of the lexer tie: prints the model's token list in the text form the harness uses
    for the real `Vec<Token>` (`tok_str` in harness/src/main.rs). -/
namespace Sakura.Driver
open Sakura.Lx Sakura.Wire

def ttName : TT → String
  | .lineNo => "LineNo" | .length => "Length" | .note => "Note" | .noteN => "NoteN" | .rest => "Rest"
  | .octave => "Octave" | .octaveRel => "OctaveRel" | .octaveOnce => "OctaveOnce" | .qlen => "QLen" | .qlenRel => "QLenRel"
  | .velocity => "Velocity" | .velocityRel => "VelocityRel" | .timing => "Timing" | .loopBegin => "LoopBegin"
  | .loopBreak => "LoopBreak" | .loopEnd => "LoopEnd" | .harmonyBegin => "HarmonyBegin" | .harmonyEnd => "HarmonyEnd"
  | .div => "Div" | .sub => "Sub" | .playFromHere => "PlayFromHere" | .comment => "Comment"
  | .track => "Track" | .channel => "Channel" | .trackSync => "TrackSync" | .tokens => "Tokens" | .constInt => "ConstInt" | .other => "Other"
  | .keyShift => "KeyShift" | .trackKey => "TrackKey" | .keyFlag => "KeyFlag" | .useKeyShift => "UseKeyShift" | .tieMode => "TieMode"
  | .songVelocityAdd => "SongVelocityAdd" | .songQAdd => "SongQAdd" | .measureShift => "MeasureShift" | .voice => "Voice"
  | .controlChange => "ControlChange" | .pitchBend => "PitchBend" | .tempo => "Tempo" | .timeSignature => "TimeSignature" | .time => "Time"
  | .playFrom => "PlayFrom" | .timeBase => "TimeBase"
  | .octaveRandom => "OctaveRandom" | .qlenRandom => "QLenRandom" | .velocityRandom => "VelocityRandom" | .timingRandom => "TimingRandom"

partial def svStr : SV → String
  | .int i => s!"I{i}"
  | .str s => "S" ++ textOut s
  | .arr a => "A<" ++ " ".intercalate (a.map svStr) ++ ">"
  | .none => "N"

partial def tokStr : Tok → String
  | .mk ty vi line vs data children =>
    let base := s!"({ttName ty} i={vi} g=0"
    let l := if ty == .lineNo then s!" n={line}" else ""
    let s := match vs with | some t => " s=" ++ textOut t | none => ""
    let d := if data.isEmpty then "" else " d=[" ++ " ".intercalate (data.map svStr) ++ "]"
    let c := match children with | some ch => " c=[" ++ " ".intercalate (ch.map tokStr) ++ "]" | none => ""
    base ++ l ++ s ++ d ++ c ++ ")"

def lexMaxError : Nat := 30

/-- the log lines `lex_error` produces for the recorded errors (English catalogue), with its cap: 30 entries,
    then one notice, then nothing -/
def errLines (errs : List Err) : List String :=
  let line (e : Err) : String :=
    let near := String.ofList ((e.near.map (fun c => if c = 10 then 0x21B5 else c)).map Char.ofNat)
    let near := if e.near.isEmpty then "[EOS]" else near
    s!"[ERROR]({e.line}) Unknown Character: \"{String.ofList (e.msg.map Char.ofNat)}\" near \"{near}\""
  let first := (errs.take lexMaxError).map line
  match errs.drop lexMaxError with
  | [] => first
  | e :: _ => first ++ [s!"[ERROR]({e.line}) Too many errors in Lexer"]

/-- `lex <hex text>` → `toks=<hex of token text> log=<hex>` or `unsupported` -/
def lexOp (src : String) : String :=
  match Lx.lex 96 (text src) 0 with
  | none => "unsupported"
  | some o =>
    let t := " ".intercalate (o.toks.map tokStr)
    let lg := "\n".intercalate (errLines o.errs)
    let bytes (x : String) : List Nat := x.toUTF8.toList.map (fun b => b.toNat)
    "toks=" ++ hex (bytes t) ++ " log=" ++ hex (bytes lg)

end Sakura.Driver
