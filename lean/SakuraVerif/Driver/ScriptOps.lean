import SakuraVerif.Driver.Sexp
import SakuraVerif.Driver.Wire
import SakuraVerif.Spec.Script
namespace Sakura.Driver
open Sakura.Script Sakura.Sexp Sakura.Wire

instance : Inhabited Script.Expr := ⟨.lit 0⟩
instance : Inhabited Script.Stmt := ⟨.brk⟩

partial def sExpr (s : S) : Script.Expr :=
  match s with
  | .atom a => (match a.toInt? with | some i => .lit i | none => .var a)
  | .list [k, a, b, c] => if k.sym == "b" then .bin (a.intD 0).toNat (sExpr b) (sExpr c) else .lit 0
  | .list [k, f, args] => if k.sym == "call" then .call f.sym (args.items.map sExpr) else .lit 0
  | _ => .lit 0

partial def sStmt (s : S) : Script.Stmt :=
  match s.items with
  | [k] => if k.sym == "break" then .brk else .cont
  | [k, a] =>
    if k.sym == "print" then .print (sExpr a) else if k.sym == "note" then .note (a.intD 60)
    else .ret (sExpr a)
  | [k, a, b] =>
    match k.sym with
    | "decl" => .decl a.sym (sExpr b) | "assign" => .assign a.sym (sExpr b) | "inc" => .inc a.sym (b.intD 1)
    | "while" => .while (sExpr a) (b.items.map sStmt) | "call" => .callS a.sym (b.items.map sExpr)
    | _ => .brk
  | [k, a, b, c] => if k.sym == "if" then .ifte (sExpr a) (b.items.map sStmt) (c.items.map sStmt) else .brk
  | [_, x, i, c, inc, body] => .for x.sym (sExpr i) (sExpr c) (sStmt inc) (body.items.map sStmt)
  | _ => .brk

def sFunc (s : S) : Func :=
  match s.items with
  | [_, n, ps, body] => ⟨n.sym, ps.items.map (fun p => match p.items with
      | [x, d] => (x.sym, d.int?)
      | _ => ("_", none)), body.items.map sStmt⟩
  | _ => ⟨"_", [], []⟩

def scriptRun (hexSexp : String) : String :=
  match (parse (String.ofList ((utf8Decode (unhex hexSexp)).map Char.ofNat))).items with
  | [fs, prog] =>
    let st := run (fs.items.map sFunc) (prog.items.map sStmt) 400000
    let logText := "\n".intercalate st.log
    -- values at or beyond 2^62 in the final scopes: the run left the 64-bit domain the tie is about (the model's integers are unbounded)
    let big := st.scopes.any (fun sc => sc.any (fun p => match p.2 with | some (.int i) => decide (i.natAbs ≥ 4611686018427387904) | _ => false))
    s!"log={hex (logText.toList.flatMap (fun c => utf8Encode1 c.toNat))} notes={",".intercalate (st.notes.map toString)} flag={st.flag} big={if big then 1 else 0}"
  | _ => "bad-script"

end Sakura.Driver
