import SakuraVerif.Model.Smf
/-! Wire format helpers for the model driver (parsing request fields, printing canonical forms). -/
namespace Sakura.Wire
open Sakura

def hexDigit (c : Char) : Nat :=
  if '0' ≤ c ∧ c ≤ '9' then c.toNat - 48
  else if 'a' ≤ c ∧ c ≤ 'f' then c.toNat - 87
  else if 'A' ≤ c ∧ c ≤ 'F' then c.toNat - 55
  else 0

partial def unhexL : List Char → List Nat
  | a :: b :: r => (hexDigit a * 16 + hexDigit b) :: unhexL r
  | _ => []

def unhex (s : String) : List Nat := if s == "~" then [] else unhexL s.toList

def hexNib (n : Nat) : Char := if n < 10 then Char.ofNat (48 + n) else Char.ofNat (87 + n)

def hex (bs : List Nat) : String :=
  if bs.isEmpty then "~" else String.ofList (bs.flatMap (fun b => [hexNib (b / 16 % 16), hexNib (b % 16)]))

def parseInt (s : String) : Int :=
  match s.toInt? with
  | some v => v
  | none => 0

def parseNat (s : String) : Nat := (parseInt s).toNat

/-- UTF-8 bytes → scalar values (malformed sequences are not expected: inputs come from the generator) -/
partial def utf8Decode : List Nat → List Nat
  | [] => []
  | b :: r =>
    if b < 0x80 then b :: utf8Decode r
    else if b < 0xE0 then match r with
      | c :: r' => ((b % 32) * 64 + c % 64) :: utf8Decode r'
      | _ => []
    else if b < 0xF0 then match r with
      | c :: d :: r' => ((b % 16) * 4096 + (c % 64) * 64 + d % 64) :: utf8Decode r'
      | _ => []
    else match r with
      | c :: d :: e :: r' => ((b % 8) * 262144 + (c % 64) * 4096 + (d % 64) * 64 + e % 64) :: utf8Decode r'
      | _ => []

def utf8Encode1 (c : Nat) : List Nat :=
  if c < 0x80 then [c]
  else if c < 0x800 then [0xC0 + c / 64, 0x80 + c % 64]
  else if c < 0x10000 then [0xE0 + c / 4096, 0x80 + c / 64 % 64, 0x80 + c % 64]
  else [0xF0 + c / 262144, 0x80 + c / 4096 % 64, 0x80 + c / 64 % 64, 0x80 + c % 64]

def utf8Encode (cs : List Nat) : List Nat := cs.flatMap utf8Encode1

/-- text argument: hex UTF-8 → scalar values -/
def text (s : String) : List Nat := utf8Decode (unhex s)
def textOut (cs : List Nat) : String := hex (utf8Encode cs)

def kindOf (s : String) : Kind :=
  if s == "on" then .noteOn else if s == "off" then .noteOff else if s == "cc" then .cc
  else if s == "pb" then .pitchBend else if s == "pbr" then .pitchBendRange else if s == "voice" then .voice
  else if s == "meta" then .metaEv else if s == "sysex" then .sysex else .directSmf

def kindName : Kind → String
  | .noteOn => "on" | .noteOff => "off" | .cc => "cc" | .pitchBend => "pb" | .pitchBendRange => "pbr"
  | .voice => "voice" | .metaEv => "meta" | .sysex => "sysex" | .directSmf => "smf"

def parseEvent (s : String) : Event :=
  match s.splitOn ":" with
  | [k, t, c, a, b, d, x] => ⟨kindOf k, parseInt t, parseInt c, parseInt a, parseInt b, parseInt d, unhex x⟩
  | _ => ⟨.directSmf, 0, 0, 0, 0, 0, []⟩

def parseEvents (s : String) : List Event :=
  if s == "~" || s == "" then [] else (s.splitOn ",").map parseEvent

def parseTracks (s : String) : List (List Event) := (s.splitOn ";").map parseEvents

def showEvent (e : Event) : String :=
  let d := match e.kind with
    | .metaEv | .sysex | .directSmf => hex e.data
    | _ => "~"
  s!"{kindName e.kind}:{e.time}:{e.ch}:{e.v1}:{e.v2}:{e.v3}:{d}"

def showEvents (es : List Event) : String :=
  if es.isEmpty then "~" else ",".intercalate (es.map showEvent)

def parseIntList (s : String) : List Int :=
  if s == "~" || s == "" then [] else (s.splitOn ",").map parseInt

end Sakura.Wire
