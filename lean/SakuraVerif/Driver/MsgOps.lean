import SakuraVerif.Driver.SmfOps
import SakuraVerif.Spec.Messages
import SakuraVerif.Gen.Tables
namespace Sakura.Driver
open Sakura Sakura.Spec Sakura.Wire

/-- GS effect parameter addresses 40 01 xx (Roland SC-55/88 MIDI implementation) -/
def stdGs : List (String × Nat) := [
  ("GSReverbMacro", 0x30), ("GSReverbCharacter", 0x31), ("GSReverbPRE_LPE", 0x32), ("GSReverbLevel", 0x33),
  ("GSReverbTime", 0x34), ("GSReverbFeedback", 0x35), ("GSReverbSendToChorus", 0x36),
  ("GSChorusMacro", 0x38), ("GSChorusPRE_LPF", 0x39), ("GSChorusLevel", 0x3A), ("GSChorusFeedback", 0x3B),
  ("GSChorusDelay", 0x3C), ("GSChorusRate", 0x3D), ("GSChorusDepth", 0x3E), ("GSChorusSendToReverb", 0x3F),
  ("GSChorusSendToDelay", 0x40)]

def lookupS {α} (l : List (String × α)) (k : String) : Option α := (l.find? (fun p => p.1 == k)).map (·.2)

/-- the messages the specification prescribes for `name(args)` on channel `ch` (device `dev`) -/
def expectedFor (name : String) (ch dev : Nat) (args : List Int) (txt : List Nat) : Option (List Msg) :=
  let a (i : Nat) : Int := args.getD i 0
  match lookupS stdCc name with
  | some n => some [ccMsg ch n (a 0)]
  | none =>
  match lookupS stdRpn name with
  | some (m, l) => some (rpnMsgs ch m l (a 0))
  | none =>
  match lookupS stdNrpn name with
  | some (m, l) => some (nrpnMsgs ch m l (a 0))
  | none =>
  match lookupS stdText name with
  | some ty => some [.metaM ty (utf8Encode (textCut 0 txt))]
  | none =>
  match lookupS stdGs name with
  | some num => some [.sysex (gsDataSet dev [0x40, 0x01, num, ((a 0) % 256).toNat])]
  | none =>
  if stdTempo.contains name then some [tempoMsg (a 0)]
  else if stdTimeSig.contains name then some [timeSigMsg (a 0) (a 1)]
  else if stdVoice.contains name || name == "@" then some (voiceMsgs ch args)
  else if name == "@name" then
    -- documented voice name: program = documented number - 1
    match Gen.voiceMd.find? (fun p => p.2 == txt) with
    | some (no, _) => some [.prog ch (no - 1).toNat]
    | none => none
  else if stdBendBig.contains name then some [bendBigMsg ch (a 0)]
  else if name == "p" then some [bendSmallMsg ch (a 0)]
  else if stdCcDirect.contains name || name == "y" then some [ccMsg ch (a 0) (a 1)]
  else if name == "RPN" then some (rpnMsgs ch (a 0) (a 1) (a 2))
  else if name == "NRPN" then some (nrpnMsgs ch (a 0) (a 1) (a 2))
  else if name == "ResetGM" then some [.sysex resetGM]
  else if name == "ResetGS" then some [.sysex (resetGS dev)]
  else if name == "ResetXG" then some [.sysex (resetXG dev)]
  else if name == "MasterVolume" then some [.sysex (masterVolume (a 0))]
  else if name == "MasterBalance" then some [.sysex (masterBalance (a 0))]
  else if name == "GSEffect" then some [.sysex (gsDataSet dev [0x40, 0x01, ((a 0) % 256).toNat, ((a 1) % 256).toNat])]
  else none

/-- C15 predicate: track 0 of the real bytes decodes to exactly the prescribed messages (all at delta 0) + EOT -/
def specC15 (name : String) (ch dev : Nat) (args : List Int) (txt : List Nat) (bin : List Nat) : String :=
  match expectedFor name ch dev args txt with
  | none => "holds=1 note=command-not-in-specification"
  | some msgs =>
    match parseSmf bin with
    | none => "holds=0 why=container-does-not-parse"
    | some (_, bodies) =>
      match bodies with
      | [] => "holds=0 why=no-track"
      | b :: _ =>
        match decodeTrack (b.length + 1) b with
        | none => "holds=0 why=track-is-not-a-legal-event-stream"
        | some l =>
          let exp := msgs.map (fun m => (0, m)) ++ [eotMsg]
          if l == exp then "holds=1" else "holds=0 why=" ++ firstDiff l exp

/-- Roland checksum property on a SysEx payload `41 dev 42 12 addr.. data.. sum F7` -/
def checksumOk (payload : List Nat) : Bool :=
  match payload with
  | 0x41 :: _ :: 0x42 :: 0x12 :: rest =>
    let body := rest.dropLast   -- without F7
    body.foldl (· + ·) 0 % 128 == 0
  | _ => true

end Sakura.Driver
