import SakuraVerif.Driver.Wire
import SakuraVerif.Spec.Sutoton
import SakuraVerif.Gen.Tables
namespace Sakura.Driver
open Sakura Sakura.Wire

def parseSeg (s : String) : Spec.Sut.Seg :=
  if s.startsWith "T" then .text (text (s.drop 1).toString)
  else if s.startsWith "V" then .verbatim (text (s.drop 1).toString)
  else match (s.drop 1).toString.splitOn ":" with
    | [n, v] => .defn (text n) (text v)
    | _ => .text []

def sutConvert (src : String) : String := "out=" ++ textOut (Sut.convert Gen.sutoton (text src))

def sutExpected (segs : String) : String :=
  "out=" ++ textOut (Spec.Sut.expected Gen.sutoton ((segs.splitOn ",").map parseSeg))

end Sakura.Driver
