import SakuraVerif.Model.Vlq
namespace Sakura

/-- most-significant-first continuation groups -/
def hi : Nat → List Nat
  | 0 => []
  | v+1 => hi ((v+1) / 128) ++ [128 + (v+1) % 128]
decreasing_by omega

theorem vlqMore_rev (fuel v : Nat) (h : v < fuel) : (vlqMore fuel v).reverse = hi v := by
  induction fuel generalizing v with
  | zero => omega
  | succ f ih =>
    cases v with
    | zero => simp [vlqMore, hi]
    | succ w =>
      have hlt : (w+1)/128 < f := by omega
      rw [vlqMore, hi.eq_2]
      simp [ih _ hlt]

theorem hi_succ (w : Nat) : ∃ q r, q < w + 1 ∧ r < 128 ∧ q * 128 + r = w + 1 ∧ hi (w+1) = hi q ++ [128 + r] :=
  ⟨(w+1)/128, (w+1)%128, by omega, Nat.mod_lt _ (by decide), by omega, hi.eq_2 w⟩

theorem encodeDelta_eq (n : Nat) : encodeDelta n = hi (n / 128) ++ [n % 128] := by
  unfold encodeDelta
  rw [List.reverse_cons, vlqMore_rev _ _ (by omega : n / 128 < n + 1)]

theorem decode_hi (v : Nat) : ∀ acc rest, ∃ k, decodeVlq acc (hi v ++ rest) = decodeVlq (acc * 128^k + v) rest := by
  induction v using Nat.strongRecOn with
  | _ v ih =>
    intro acc rest
    cases v with
    | zero => exact ⟨0, by simp [hi]⟩
    | succ w =>
      obtain ⟨q, r, hq, hr, hqr, hhi⟩ := hi_succ w
      obtain ⟨k, hk⟩ := ih q hq acc ([128 + r] ++ rest)
      refine ⟨k+1, ?_⟩
      rw [hhi, List.append_assoc, hk]
      simp only [List.cons_append, List.nil_append, decodeVlq]
      have : ¬ (128 + r < 128) := by omega
      simp only [this, if_false]
      have hacc : (acc * 128 ^ k + q) * 128 + (128 + r - 128) = acc * 128 ^ (k + 1) + (w + 1) := by
        have h1 : 128 + r - 128 = r := by omega
        rw [h1, Nat.pow_succ, Nat.add_mul, ← hqr]
        generalize 128 ^ k = p
        rw [Nat.mul_assoc]
        omega
      rw [hacc]

/-- the SMF reader inverts the writer, for every value (no bound) and any following bytes -/
theorem vlq_roundtrip (n : Nat) (rest : List Nat) :
    decodeVlq 0 (encodeDelta n ++ rest) = some (n, rest) := by
  rw [encodeDelta_eq, List.append_assoc]
  obtain ⟨k, hk⟩ := decode_hi (n/128) 0 ([n % 128] ++ rest)
  rw [hk]
  simp only [List.cons_append, List.nil_append, decodeVlq, Nat.zero_mul, Nat.zero_add]
  have : n % 128 < 128 := Nat.mod_lt _ (by decide)
  simp only [this, if_true]
  have h : n / 128 * 128 + n % 128 = n := by have := Nat.div_add_mod n 128; omega
  rw [h]

theorem vlq_small (n : Nat) (h : n < 128) (r : List Nat) : decodeVlq 0 (n :: r) = some (n, r) := by
  simp [decodeVlq, h]

theorem hi_all_ge (v : Nat) : ∀ b ∈ hi v, 128 ≤ b ∧ b < 256 := by
  induction v using Nat.strongRecOn with
  | _ v ih =>
    cases v with
    | zero => simp [hi]
    | succ w =>
      obtain ⟨q, r, hq, hr, _, hhi⟩ := hi_succ w
      rw [hhi]
      intro b hb
      rcases List.mem_append.mp hb with h | h
      · exact ih q hq b h
      · simp at h; omega

/-- every byte written by the delta encoder is a byte, all but the last carry the continuation bit -/
theorem encodeDelta_bytes (n : Nat) : ∀ b ∈ encodeDelta n, b < 256 := by
  rw [encodeDelta_eq]
  intro b hb
  rcases List.mem_append.mp hb with h | h
  · exact (hi_all_ge _ b h).2
  · simp at h; omega

/-- length of `hi`: number of 7-bit groups above the lowest one -/
theorem hi_length_le (v : Nat) : ∀ k, v < 128 ^ k → (hi v).length ≤ k := by
  induction v using Nat.strongRecOn with
  | _ v ih =>
    intro k hk
    cases v with
    | zero => simp [hi]
    | succ w =>
      obtain ⟨q, r, hq, hr, hqr, hhi⟩ := hi_succ w
      rw [hhi]
      cases k with
      | zero => simp at hk
      | succ j =>
        have : q < 128 ^ j := by
          rw [Nat.pow_succ] at hk
          generalize 128 ^ j = p at *
          omega
        have := ih q hq j this
        simp; omega

/-- deltas in the SMF range 0..2^28-1 take at most four bytes -/
theorem encodeDelta_len_le4 (n : Nat) (h : n < 268435456) : (encodeDelta n).length ≤ 4 := by
  rw [encodeDelta_eq]
  have h2 : n / 128 < 128 ^ 3 := by
    have : (128:Nat) ^ 3 = 2097152 := by decide
    omega
  have := hi_length_le (n / 128) 3 h2
  simp; omega

end Sakura
