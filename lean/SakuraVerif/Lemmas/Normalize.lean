import SakuraVerif.Lemmas.Smf
namespace Sakura
open Sakura.Spec List

theorem timeLe_trans : ∀ a b c : Event, timeLe a b → timeLe b c → timeLe a c := by
  intro a b c; simp only [timeLe, decide_eq_true_eq]; omega
theorem timeLe_total : ∀ a b : Event, timeLe a b || timeLe b a := by
  intro a b; simp only [timeLe, Bool.or_eq_true, decide_eq_true_eq]; omega

theorem normalize_perm (es : List Event) : (normalize es).Perm (splitNoteOff es) :=
  List.mergeSort_perm _ _

theorem normalize_sorted (es : List Event) : (normalize es).Pairwise (fun a b => a.time ≤ b.time) := by
  have := List.pairwise_mergeSort timeLe_trans timeLe_total (splitNoteOff es)
  simpa [timeLe, normalize, sortByTime] using this

/-- stability: two events issued in this order whose ticks are in order stay in this order -/
theorem normalize_stable (es : List Event) (a b : Event) (hab : a.time ≤ b.time)
    (h : [a, b] <+ splitNoteOff es) : [a, b] <+ normalize es :=
  List.pair_sublist_mergeSort timeLe_trans timeLe_total (by simpa [timeLe] using hab) h

theorem split_pairs (es : List Event) (e : Event) (he : e ∈ es) (hk : e.kind = .noteOn) :
    [e, noteOffOf e] <+ splitNoteOff es := by
  induction es with
  | nil => cases he
  | cons x xs ih =>
    rcases List.mem_cons.mp he with rfl | hx
    · simp only [splitNoteOff, hk, if_true]
      exact (List.Sublist.cons_cons _ (List.Sublist.cons_cons _ (List.nil_sublist _)))
    · have := ih hx
      simp only [splitNoteOff]
      split
      · exact (this.cons _).cons _
      · exact this.cons _

theorem split_keeps_order (es : List Event) : es <+ splitNoteOff es := by
  induction es with
  | nil => exact List.Sublist.slnil
  | cons x xs ih =>
    simp only [splitNoteOff]
    split
    · exact List.Sublist.cons_cons _ (ih.cons _)
    · exact List.Sublist.cons_cons _ ih

theorem split_length (es : List Event) :
    (splitNoteOff es).length = es.length + (es.filter (fun e => e.kind = .noteOn)).length := by
  induction es with
  | nil => rfl
  | cons x xs ih =>
    simp only [splitNoteOff, List.filter_cons]
    split <;> simp_all <;> omega

theorem mem_split (es : List Event) (x : Event) (hx : x ∈ splitNoteOff es) :
    x ∈ es ∨ ∃ e ∈ es, e.kind = .noteOn ∧ x = noteOffOf e := by
  induction es with
  | nil => simp [splitNoteOff] at hx
  | cons y ys ih =>
    simp only [splitNoteOff] at hx
    split at hx
    · rename_i hk
      rcases List.mem_cons.mp hx with rfl | hx
      · exact Or.inl List.mem_cons_self
      · rcases List.mem_cons.mp hx with rfl | hx
        · exact Or.inr ⟨y, List.mem_cons_self, hk, rfl⟩
        · rcases ih hx with h | ⟨e, he, hk', rfl⟩
          · exact Or.inl (List.mem_cons_of_mem _ h)
          · exact Or.inr ⟨e, List.mem_cons_of_mem _ he, hk', rfl⟩
    · rcases List.mem_cons.mp hx with rfl | hx
      · exact Or.inl List.mem_cons_self
      · rcases ih hx with h | ⟨e, he, hk', rfl⟩
        · exact Or.inl (List.mem_cons_of_mem _ h)
        · exact Or.inr ⟨e, List.mem_cons_of_mem _ he, hk', rfl⟩

theorem valid_noteOffOf (e : Event) (h : Valid e) : Valid (noteOffOf e) := by
  obtain ⟨h0, h1, _⟩ := h
  exact ⟨h0, h1, by simp [noteOffOf]⟩

theorem valid_normalize (es : List Event) (hv : ∀ e ∈ es, Valid e) : ∀ e ∈ normalize es, Valid e := by
  intro x hx
  have hx' : x ∈ splitNoteOff es := (normalize_perm es).mem_iff.mp hx
  rcases mem_split es x hx' with h | ⟨e, he, _, rfl⟩
  · exact hv x h
  · exact valid_noteOffOf e (hv e he)

theorem etime_nonneg (e : Event) : 0 ≤ etime e := by unfold etime; split <;> omega
theorem etime_mono (a b : Event) (h : a.time ≤ b.time) : etime a ≤ etime b := by
  unfold etime; split <;> split <;> omega

theorem sortedFrom_of_pairwise (l : List Event) (h : l.Pairwise (fun a b => a.time ≤ b.time)) :
    ∀ tp, (∀ e ∈ l, tp ≤ etime e) → SortedFrom tp l := by
  induction l with
  | nil => intro _ _; trivial
  | cons x xs ih =>
    intro tp htp
    obtain ⟨hx, hxs⟩ := List.pairwise_cons.mp h
    exact ⟨htp x List.mem_cons_self, ih hxs (etime x) (fun e he => etime_mono x e (hx e he))⟩

theorem sortedFrom_normalize (es : List Event) : SortedFrom 0 (normalize es) :=
  sortedFrom_of_pairwise _ (normalize_sorted es) 0 (fun e _ => etime_nonneg e)

end Sakura
