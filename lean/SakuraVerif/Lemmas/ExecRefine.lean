import SakuraVerif.Model.Exec
import SakuraVerif.Lemmas.Trace
import SakuraVerif.Lemmas.Core
/-! # exec_refines_sem — the token machine run on the compiled program is the denotational semantics

`compileL : List Core.Cmd → List Lx.Tok` writes a program of the core note language as the token
list the lexer produces for it (loops as `LoopBegin … LoopBreak … LoopEnd`, `Sub`/tuplets with their
children, chords as `HarmonyBegin … HarmonyEnd`, lengths as their text).  `abs` maps the runner-level
state of `Model.Exec` to the state of `Spec.Core`.  The theorem: for every well-formed program, any
nesting, with enough fuel, `Ex2.exec` on the compiled tokens ends in a state whose abstraction is
`Core.semL` of the program. -/
namespace Sakura.Ex2
open Sakura Sakura.Lx
open Sakura.Core (Cmd LenExpr NoteEv)

/-- the text of a length expression -/
def lenText : Option LenExpr → List Nat
  | none => []
  | some L => Len.render L.head ++ Len.segs L.parts

/-- the expression is one of the grammar of C04 and is not the empty text -/
def lenOK : Option LenExpr → Prop
  | none => True
  | some L => (∀ c ∈ L.head.digs, Len.isDigit c = true) ∧ L.head.dots ≤ 4 ∧
      (∀ sp ∈ L.parts, sp.1 = 94 ∨ sp.1 = 43) ∧ (∀ sp ∈ L.parts, sp.2.wf) ∧ Len.render L.head ++ Len.segs L.parts ≠ []

theorem calcLength_lenText (tb dflt : Int) (len : Option LenExpr) (h : lenOK len) :
    Len.calcLength tb dflt (lenText len) = Core.lenOpt tb dflt len := by
  cases len with
  | none => simp [lenText, Core.lenOpt, Len.calcLength]
  | some L =>
    obtain ⟨hd, hk, hsep, hw, hne⟩ := h
    simp only [lenText, Core.lenOpt, Core.lenVal]
    unfold Len.calcLength
    simp only [hne, if_false]
    rw [Len.head_closed tb dflt L.head hd hk (fun _ => Or.inr trivial) (Len.segs L.parts) (Len.segs_boundary L.parts hsep)]
    simp only []
    rw [Len.loop_sum tb dflt L.parts hsep hw _ (by have := Len.segs_length_ge L.parts; omega)]

def lenSV : Option LenExpr → SV
  | none => .none
  | some L => .str (lenText (some L))
def velSV : Option Int → SV
  | none => .none
  | some x => .int x

def optInt (d : Int) : Option Int → SV
  | none => .int d
  | some x => .int x

def constKids (n : Int) : Option (List Tok) := some [Tok.mk .tokens 0 0 none [] (some [Tok.mk .constInt n 0 none [] none])]

mutual
/-- the token list of loop trees in the lexer's form (`LoopBegin n … [LoopBreak …] LoopEnd`) -/
def rawT : Loop.Tree Tok → List Tok
  | .leaf a => [a]
  | .loop n b hb k => [tok .loopBegin 0 [.int n]] ++ (rawL b ++ ((if hb then [tok .loopBreak 0 []] ++ rawL k else []) ++ [tok .loopEnd 0 []]))
def rawL : List (Loop.Tree Tok) → List Tok
  | [] => []
  | t :: ts => rawT t ++ rawL ts
end

/-- commands that may stand inside a chord: notes, rests and the plain setters -/
def simple : Cmd → Bool
  | .note .. | .noteN .. | .rest .. | .setL .. | .setO .. | .octRel .. | .setV .. | .velRel .. | .setQ .. | .setT .. => true
  | _ => false

/-- the `LineNo` token that opens every token list the lexer returns (its line value only feeds messages) -/
def lineTok : Tok := .mk .lineNo 0 0 none [] none

mutual
/-- the loop trees of a program over leaf tokens -/
def toTrees : Cmd → List (Loop.Tree Tok)
  | .note semi acc nat len q v t o =>
    [.leaf (tok .note semi [.int acc, .int (if nat then 1 else 0), .str (lenText len), optInt 0 q, optInt (-1) v, optInt intMin t, optInt (-1) o, .none])]
  | .noteN no len q v t => [.leaf (tok .noteN 0 [.int no, .str (lenText len), optInt 0 q, optInt (-1) v, optInt intMin t, .none])]
  | .rest len dir => [.leaf (tok .rest dir [.str (lenText len)])]
  | .setL len => [.leaf (tok .length 0 [.str (lenText len)])]
  | .setO n => [.leaf (tok .octave n [])]
  | .octRel d => [.leaf (tok .octaveRel d [])]
  | .setV n => [.leaf (tok .velocity n [.int (-1)])]
  | .velRel d => [.leaf (tok .velocityRel d [])]
  | .setQ n => [.leaf (tok .qlen n [])]
  | .setT n => [.leaf (tok .timing n [])]
  | .loop n body hb brk => [.loop n (toTreesL body) hb (toTreesL brk)]
  | .sub body => [.leaf (.mk .sub 0 0 none [] (some (lineTok :: rawL (toTreesL body))))]
  | .div body len => [.leaf (.mk .div (Core.countElems body) 0 none [.str (lenText len)] (some (lineTok :: rawL (toTreesL body))))]
  | .chord body len q v =>
    [.leaf (tok .harmonyBegin 0 [])] ++ toTreesL body ++
      [.leaf (tok .harmonyEnd 0 [lenSV len, optInt (-1) q, velSV v])]
  | .track n => [.leaf (.mk .track 0 0 none [] (constKids n))]
  | .channel n => [.leaf (.mk .channel 0 0 none [] (constKids n))]
  | .trackSync => [.leaf (tok .trackSync 0 [])]
  | .voice _ | .keyShift _ | .trackKey _ | .keyFlag _ _ | .play _ => []
def toTreesL : List Cmd → List (Loop.Tree Tok)
  | [] => []
  | c :: cs => toTrees c ++ toTreesL cs
end


/-! ## abstraction to the state of `Spec.Core` and the invariant of compiled programs -/

def absE (e : Event) : NoteEv := ⟨e.time, e.ch, e.v1, e.v2, e.v3⟩
def absT (t : Trk) : Core.Trk :=
  { tp := t.timepos, ch := t.channel, l := t.length, o := t.octave, v := t.velocity, q := t.qlen, t := t.timing, key := t.trackKey,
    ev := t.events.map absE }
def abs (s : Song) : Core.St :=
  { tb := s.tb, tr := s.tracks.map absT, cur := s.cur, keyflag := s.keyFlag, kshift := s.keyShift, vAdd := s.vAdd,
    harm := match s.harmonyFlag with
      | true => some (s.harmonyTime, s.harmonyEvents.map absE)
      | false => none }

/-- no Random setting, no open tied group (the compiled subset never sets them) -/
def TrkOK (t : Trk) : Prop := t.oRand = 0 ∧ t.vRand = 0 ∧ t.tRand = 0 ∧ t.qRand = 0 ∧ t.tieNotes = []

structure Inv (s : Song) : Prop where
  nb : s.bad = false
  ks : s.useKeyShift = true
  oo : s.octaveOnce = 0
  cur : s.cur < s.tracks.length
  he : s.harmonyFlag = false → s.harmonyEvents = []
  tr : ∀ t ∈ s.tracks, TrkOK t

theorem absT_new (tb : Int) (i : Nat) : absT (Trk.new tb ((i : Int) - 1)) = Core.newTrk tb i := by
  simp [absT, Trk.new, Core.newTrk, clampI, Core.clamp]
  decide

theorem abs_t (s : Song) : (abs s).t = absT s.t := by
  simp only [Core.St.t, abs, Song.t, List.getD_eq_getElem?_getD, List.getElem?_map]
  cases h : s.tracks[s.cur]? with
  | none => simp [absT_new]
  | some t => simp

theorem abs_setT (s : Song) (t : Trk) : abs (s.setT t) = (abs s).setT (absT t) := by
  simp only [abs, Song.setT, Core.St.setT, List.map_set]

theorem inv_t (s : Song) (h : Inv s) : TrkOK s.t := by
  have hc := h.cur
  simp only [Song.t, List.getD_eq_getElem?_getD]
  rw [List.getElem?_eq_getElem hc]
  exact h.tr _ (List.getElem_mem hc)

theorem inv_setT (s : Song) (t : Trk) (h : Inv s) (ht : TrkOK t) : Inv (s.setT t) := by
  refine ⟨h.nb, h.ks, h.oo, by simpa [Song.setT] using h.cur, h.he, ?_⟩
  intro x hx
  simp only [Song.setT] at hx
  rcases List.mem_or_eq_of_mem_set hx with h1 | h1
  · exact h.tr x h1
  · subst h1; exact ht


/-! ## simulation of the leaf tokens -/

@[simp] theorem abs_tb (s : Song) : (abs s).tb = s.tb := rfl
@[simp] theorem abs_vAdd (s : Song) : (abs s).vAdd = s.vAdd := rfl
@[simp] theorem abs_keyflag (s : Song) : (abs s).keyflag = s.keyFlag := rfl
@[simp] theorem abs_kshift (s : Song) : (abs s).kshift = s.keyShift := rfl
@[simp] theorem abs_cur (s : Song) : (abs s).cur = s.cur := rfl

theorem trkOK_upd (t : Trk) (h : TrkOK t) (tp ch l o v q tm key : Int) (ev : List Event) :
    TrkOK { t with timepos := tp, channel := ch, length := l, octave := o, velocity := v, qlen := q, timing := tm, trackKey := key, events := ev } := h

theorem leaf_lineNo (F d : Nat) (s : Song) (h : Inv s) :
    abs (leaf F d lineTok s) = abs s ∧ Inv (leaf F d lineTok s) ∧ (leaf F d lineTok s).harmonyFlag = s.harmonyFlag := by
  unfold leaf
  simp only [h.nb, Bool.false_eq_true, if_false, lineTok, Tok.ty]
  exact ⟨rfl, ⟨by simpa using h.nb, by simpa using h.ks, by simpa using h.oo, by simpa using h.cur, by simpa using h.he, by simpa using h.tr⟩, trivial⟩

theorem leaf_setO (F d : Nat) (n : Int) (s : Song) (h : Inv s) :
    abs (leaf F d (tok .octave n []) s) = Core.sem (.setO n) (abs s) ∧ Inv (leaf F d (tok .octave n []) s) ∧ (leaf F d (tok .octave n []) s).harmonyFlag = s.harmonyFlag := by
  unfold leaf
  simp only [h.nb, Bool.false_eq_true, if_false, tok, Tok.ty, Tok.vi]
  refine ⟨?_, inv_setT _ _ h (inv_t s h), rfl⟩
  simp [abs_setT, Core.sem, abs_t, absT, clampI, Core.clamp]

theorem leaf_octRel (F d : Nat) (n : Int) (s : Song) (h : Inv s) :
    abs (leaf F d (tok .octaveRel n []) s) = Core.sem (.octRel n) (abs s) ∧ Inv (leaf F d (tok .octaveRel n []) s) ∧ (leaf F d (tok .octaveRel n []) s).harmonyFlag = s.harmonyFlag := by
  unfold leaf
  simp only [h.nb, Bool.false_eq_true, if_false, tok, Tok.ty, Tok.vi, Tok.data, dataI, dataS, SV.toI, SV.toS, List.getD_cons_zero]
  refine ⟨?_, inv_setT _ _ h (inv_t s h), rfl⟩
  simp [abs_setT, Core.sem, abs_t, absT, clampI, Core.clamp]

theorem leaf_setV (F d : Nat) (n : Int) (s : Song) (h : Inv s) :
    abs (leaf F d (tok .velocity n [.int (-1)]) s) = Core.sem (.setV n) (abs s) ∧ Inv (leaf F d (tok .velocity n [.int (-1)]) s) ∧ (leaf F d (tok .velocity n [.int (-1)]) s).harmonyFlag = s.harmonyFlag := by
  unfold leaf
  simp only [h.nb, Bool.false_eq_true, if_false, tok, Tok.ty, Tok.vi, Tok.data, dataI, dataS, SV.toI, SV.toS, List.getD_cons_zero]
  refine ⟨?_, inv_setT _ _ h (inv_t s h), rfl⟩
  simp [abs_setT, Core.sem, abs_t, absT, clampI, Core.clamp]

theorem leaf_velRel (F d : Nat) (n : Int) (s : Song) (h : Inv s) :
    abs (leaf F d (tok .velocityRel n []) s) = Core.sem (.velRel n) (abs s) ∧ Inv (leaf F d (tok .velocityRel n []) s) ∧ (leaf F d (tok .velocityRel n []) s).harmonyFlag = s.harmonyFlag := by
  unfold leaf
  simp only [h.nb, Bool.false_eq_true, if_false, tok, Tok.ty, Tok.vi, Tok.data, dataI, dataS, SV.toI, SV.toS, List.getD_cons_zero]
  refine ⟨?_, inv_setT _ _ h (inv_t s h), rfl⟩
  simp [abs_setT, Core.sem, abs_t, absT, clampI, Core.clamp]

theorem leaf_setQ (F d : Nat) (n : Int) (s : Song) (h : Inv s) :
    abs (leaf F d (tok .qlen n []) s) = Core.sem (.setQ n) (abs s) ∧ Inv (leaf F d (tok .qlen n []) s) ∧ (leaf F d (tok .qlen n []) s).harmonyFlag = s.harmonyFlag := by
  unfold leaf
  simp only [h.nb, Bool.false_eq_true, if_false, tok, Tok.ty, Tok.vi, Tok.data, dataI, dataS, SV.toI, SV.toS, List.getD_cons_zero]
  refine ⟨?_, inv_setT _ _ h (inv_t s h), rfl⟩
  simp [abs_setT, Core.sem, abs_t, absT, clampI, Core.clamp]

theorem leaf_setT (F d : Nat) (n : Int) (s : Song) (h : Inv s) :
    abs (leaf F d (tok .timing n []) s) = Core.sem (.setT n) (abs s) ∧ Inv (leaf F d (tok .timing n []) s) ∧ (leaf F d (tok .timing n []) s).harmonyFlag = s.harmonyFlag := by
  unfold leaf
  simp only [h.nb, Bool.false_eq_true, if_false, tok, Tok.ty, Tok.vi, Tok.data, dataI, dataS, SV.toI, SV.toS, List.getD_cons_zero]
  refine ⟨?_, inv_setT _ _ h (inv_t s h), rfl⟩
  simp [abs_setT, Core.sem, abs_t, absT, clampI, Core.clamp]

theorem leaf_rest (F d : Nat) (len : Option LenExpr) (dir : Int) (hl : lenOK len) (s : Song) (h : Inv s) :
    abs (leaf F d (tok .rest dir [.str (lenText len)]) s) = Core.sem (.rest len dir) (abs s) ∧ Inv (leaf F d (tok .rest dir [.str (lenText len)]) s) ∧ (leaf F d (tok .rest dir [.str (lenText len)]) s).harmonyFlag = s.harmonyFlag := by
  unfold leaf
  simp only [h.nb, Bool.false_eq_true, if_false, tok, Tok.ty, Tok.vi, Tok.data, dataI, dataS, SV.toI, SV.toS, List.getD_cons_zero]
  refine ⟨?_, inv_setT _ _ h (inv_t s h), rfl⟩
  simp [abs_setT, Core.sem, abs_t, absT, clampI, Core.clamp, calcLength_lenText _ _ len hl]

theorem leaf_setL (F d : Nat) (len : Option LenExpr) (hl : lenOK len) (s : Song) (h : Inv s) :
    abs (leaf F d (tok .length 0 [.str (lenText len)]) s) = Core.sem (.setL len) (abs s) ∧ Inv (leaf F d (tok .length 0 [.str (lenText len)]) s) ∧ (leaf F d (tok .length 0 [.str (lenText len)]) s).harmonyFlag = s.harmonyFlag := by
  unfold leaf
  simp only [h.nb, Bool.false_eq_true, if_false, tok, Tok.ty, Tok.vi, Tok.data, dataI, dataS, SV.toI, SV.toS, List.getD_cons_zero]
  refine ⟨?_, inv_setT _ _ h (inv_t s h), rfl⟩
  simp [abs_setT, Core.sem, abs_t, absT, clampI, Core.clamp, calcLength_lenText _ _ len hl]

@[simp] theorem setT_octaveOnce (s : Song) (t : Trk) : (s.setT t).octaveOnce = s.octaveOnce := rfl
@[simp] theorem setT_harmonyFlag (s : Song) (t : Trk) : (s.setT t).harmonyFlag = s.harmonyFlag := rfl
@[simp] theorem setT_harmonyTime (s : Song) (t : Trk) : (s.setT t).harmonyTime = s.harmonyTime := rfl
@[simp] theorem setT_harmonyEvents (s : Song) (t : Trk) : (s.setT t).harmonyEvents = s.harmonyEvents := rfl
@[simp] theorem setT_keyFlag (s : Song) (t : Trk) : (s.setT t).keyFlag = s.keyFlag := rfl
@[simp] theorem setT_keyShift (s : Song) (t : Trk) : (s.setT t).keyShift = s.keyShift := rfl
@[simp] theorem setT_vAdd (s : Song) (t : Trk) : (s.setT t).vAdd = s.vAdd := rfl
@[simp] theorem setT_useKeyShift (s : Song) (t : Trk) : (s.setT t).useKeyShift = s.useKeyShift := rfl
@[simp] theorem setT_bad (s : Song) (t : Trk) : (s.setT t).bad = s.bad := rfl
@[simp] theorem setT_cur (s : Song) (t : Trk) : (s.setT t).cur = s.cur := rfl
@[simp] theorem setT_tb (s : Song) (t : Trk) : (s.setT t).tb = s.tb := rfl
@[simp] theorem setT_len (s : Song) (t : Trk) : (s.setT t).tracks.length = s.tracks.length := by simp [Song.setT]

theorem setT_t (s : Song) (t : Trk) (h : s.cur < s.tracks.length) : (s.setT t).t = t := by
  simp [Song.t, Song.setT, h]

theorem setT_setT (s : Song) (t t' : Trk) : (s.setT t).setT t' = s.setT t' := by
  simp [Song.setT]

theorem drawIf_zero (v : Int) (s : Song) : drawIf 0 v s = (v, s) := by simp [drawIf]

/-- well-formedness of a lettered note for the refinement: a note name, a timing that is not the "unset" marker -/
def noteWF (semi : Int) (len : Option LenExpr) (t : Option Int) : Prop := 0 ≤ semi ∧ semi < 12 ∧ lenOK len ∧ t ≠ some intMin

theorem optInt_toI (d : Int) (o : Option Int) : (optInt d o).toI = o.getD d := by
  cases o <;> simp [optInt, SV.toI]

@[simp] theorem int_toI (i : Int) : (SV.int i).toI = i := rfl
@[simp] theorem none_toI : SV.none.toI = 0 := rfl
@[simp] theorem str_toS (x : List Nat) : (SV.str x).toS = x := rfl

theorem St_ext (a b : Core.St) (h1 : a.tb = b.tb) (h2 : a.tr = b.tr) (h3 : a.cur = b.cur) (h4 : a.keyflag = b.keyflag)
    (h5 : a.kshift = b.kshift) (h6 : a.vAdd = b.vAdd) (h7 : a.harm = b.harm) : a = b := by
  cases a; cases b; simp_all

set_option pp.deepTerms false in
set_option pp.deepTerms.threshold 3 in
theorem leaf_note (F d : Nat) (semi acc : Int) (nat : Bool) (len : Option LenExpr) (q v t o : Option Int)
    (hw : noteWF semi len t) (s : Song) (h : Inv s) :
    let tk := tok .note semi [.int acc, .int (if nat then 1 else 0), .str (lenText len), optInt 0 q, optInt (-1) v, optInt intMin t, optInt (-1) o, .none]
    abs (leaf F d tk s) = Core.sem (.note semi acc nat len q v t o) (abs s) ∧ Inv (leaf F d tk s) ∧ (leaf F d tk s).harmonyFlag = s.harmonyFlag := by
  intro tk
  obtain ⟨h0, h12, hl, ht⟩ := hw
  obtain ⟨ho, hv, htr, hq, hties⟩ := inv_t s h
  have hmod : Int.tmod semi 12 = semi := Int.tmod_eq_of_lt h0 h12
  unfold leaf
  simp only [h.nb, Bool.false_eq_true, if_false, tk, tok, Tok.ty]
  unfold execNote noteDraws advance
  simp only [Tok.data, Tok.vi, List.length_cons, List.length_nil, dataI, dataS, List.getD_cons_zero, List.getD_cons_succ, int_toI, none_toI, str_toS,
    optInt_toI, ho, hv, htr, hq, drawIf_zero, h.ks, h.oo, hmod, calcLength_lenText _ _ len hl, if_true, ne_eq, not_true_eq_false, if_false,
    Int.lt_irrefl, Nat.lt_irrefl, setT_t _ _ h.cur, setT_setT, setT_octaveOnce]
  unfold emitNote
  simp only [setT_harmonyFlag, setT_t _ _ h.cur, setT_setT, setT_harmonyTime, setT_harmonyEvents, hties]
  cases hf : s.harmonyFlag with
  | true =>
    simp only [if_true]
    refine ⟨?_, ?_, by first | trivial | simp [hf] | rfl⟩
    · have hh : (abs s).harm = some (s.harmonyTime, s.harmonyEvents.map absE) := by simp [abs, hf]
      have hcw : (abs s).WF := by simpa [Core.St.WF, abs] using h.cur
      simp only [Core.sem, hh, Core.noteOn, Core.setT_t _ _ hcw, abs_t]
      apply St_ext
      · simp [abs, Core.St.setT]
      · simp [abs, Core.St.setT, Song.setT, List.map_set, absT]
      · simp [abs, Core.St.setT]
      · simp [abs, Core.St.setT]
      · simp [abs, Core.St.setT]
      · simp [abs, Core.St.setT]
      · simp [abs, hf]
        simp only [absE, noteEvent, gate, Core.gate, Core.tdiv, clampI, Core.clamp, absT]
        have ht' : ∀ x, t = some x → x ≠ intMin := fun x hx hxe => ht (hxe ▸ hx)
        have hnm : semi.toNat % 12 = semi.toNat := Nat.mod_eq_of_lt (by omega)
        simp only [hnm]
        rcases q with _ | x
        · cases nat <;> cases v <;> cases t <;> cases o <;> simp_all
        · by_cases hx : x = 0
          · subst hx; cases nat <;> cases v <;> cases t <;> cases o <;> simp_all
          · cases nat <;> cases v <;> cases t <;> cases o <;> simp_all
    · refine ⟨h.nb, h.ks, h.oo, by simpa using h.cur, by simp [hf], ?_⟩
      intro x hx
      simp only [Song.setT] at hx
      rcases List.mem_or_eq_of_mem_set hx with h1 | h1
      · exact h.tr x h1
      · subst h1; exact ⟨rfl, rfl, rfl, rfl, rfl⟩
  | false =>
    simp only [Bool.false_eq_true, if_false, ge_iff_le]
    have hslur : ¬ (1 : Int) ≤ 0 := by omega
    simp only [hslur, if_false, ne_eq, not_true_eq_false]
    refine ⟨?_, ?_, by first | trivial | simp [hf] | rfl⟩
    · have hh : (abs s).harm = none := by simp [abs, hf]
      have hcw : (abs s).WF := by simpa [Core.St.WF, abs] using h.cur
      simp only [Core.sem, hh, Core.noteOn, Core.setT_t _ _ hcw, abs_t, abs_setT]
      simp only [Core.St.setT, List.set_set]
      apply St_ext
      · simp [abs]
      · simp only [abs, Song.setT, List.map_set]
        refine congrArg (fun x => (List.map absT s.tracks).set s.cur x) ?_
        simp only [absT, List.map_append, List.map_cons, List.map_nil, Core.Trk.mk.injEq, true_and, List.append_cancel_left_eq, List.cons.injEq, and_true]
        simp only [absE, noteEvent, gate, Core.gate, Core.tdiv, clampI, Core.clamp]
        have ht' : ∀ x, t = some x → x ≠ intMin := fun x hx hxe => ht (hxe ▸ hx)
        have hnm : semi.toNat % 12 = semi.toNat := Nat.mod_eq_of_lt (by omega)
        simp only [hnm]
        rcases q with _ | x
        · cases nat <;> cases v <;> cases t <;> cases o <;> simp_all
        · by_cases hx : x = 0
          · subst hx; cases nat <;> cases v <;> cases t <;> cases o <;> simp_all
          · cases nat <;> cases v <;> cases t <;> cases o <;> simp_all
      · simp [abs]
      · simp [abs]
      · simp [abs]
      · simp [abs]
      · simp [abs]
    · exact inv_setT _ _ h ⟨rfl, rfl, rfl, rfl, rfl⟩

@[simp] theorem int_notRef (i : Int) : isVarRef (.int i) = false := rfl
theorem ite_ge_lt (y a b : Int) : (if y ≥ 0 then a else b) = (if y < 0 then b else a) := by
  split <;> split <;> first | rfl | omega
theorem optInt_notRef (d : Int) (o : Option Int) : isVarRef (optInt d o) = false := by cases o <;> rfl

set_option pp.deepTerms false in
set_option pp.deepTerms.threshold 3 in
theorem leaf_noteN (F d : Nat) (no : Int) (len : Option LenExpr) (q v t : Option Int)
    (hl : lenOK len) (ht : t ≠ some intMin) (s : Song) (h : Inv s) :
    let tk := tok .noteN 0 [.int no, .str (lenText len), optInt 0 q, optInt (-1) v, optInt intMin t, .none]
    abs (leaf F d tk s) = Core.sem (.noteN no len q v t) (abs s) ∧ Inv (leaf F d tk s) ∧ (leaf F d tk s).harmonyFlag = s.harmonyFlag := by
  intro tk
  obtain ⟨ho, hv, htr, hq, hties⟩ := inv_t s h
  unfold leaf
  simp only [h.nb, Bool.false_eq_true, if_false, tk, tok, Tok.ty]
  unfold execNoteN
  simp only [Tok.data, Tok.vi, dataI, dataS, List.getD_cons_zero, List.getD_cons_succ, int_toI, none_toI, str_toS, int_notRef, optInt_notRef,
    Bool.or_self, Bool.or_false, Bool.false_eq_true, if_false,
    optInt_toI, ho, hv, htr, hq, drawIf_zero, calcLength_lenText _ _ len hl]
  refine ⟨?_, ?_, rfl⟩
  · have hcw : (abs s).WF := by simpa [Core.St.WF, abs] using h.cur
    simp only [Core.sem, Core.noteOn, Core.setT_t _ _ hcw, abs_t, abs_setT]
    simp only [Core.St.setT, List.set_set]
    apply St_ext
    · simp [abs]
    · simp only [abs, Song.setT, List.map_set]
      refine congrArg (fun x => (List.map absT s.tracks).set s.cur x) ?_
      simp only [absT, List.map_append, List.map_cons, List.map_nil, Core.Trk.mk.injEq, true_and, List.append_cancel_left_eq, List.cons.injEq, and_true]
      simp only [absE, noteEvent, gate, Core.gate, Core.tdiv, clampI, Core.clamp, ite_ge_lt]
      have ht' : ∀ x, t = some x → x ≠ intMin := fun x hx hxe => ht (hxe ▸ hx)
      rcases q with _ | x
      · cases v <;> cases t <;> simp_all
      · by_cases hx : x = 0
        · subst hx; cases v <;> cases t <;> simp_all
        · cases v <;> cases t <;> simp_all
    · simp [abs]
    · simp [abs]
    · simp [abs]
    · simp [abs]
    · simp [abs]
  · exact inv_setT _ _ h ⟨rfl, rfl, rfl, rfl, hties⟩

/-! ### chords: `HarmonyBegin … HarmonyEnd` -/

def chordBegin (s : Core.St) : Core.St := { s with harm := some (s.t.tp, []) }
def chordEnd (len : Option LenExpr) (q v : Option Int) (s1 : Core.St) : Core.St :=
  match s1.harm with
  | none => s1
  | some (ht, evs) =>
    let t1 := s1.t
    let qq := match q with | none => t1.q | some x => if x < 0 then t1.q else x
    let ln := Core.lenOpt s1.tb t1.l len
    { (s1.setT { t1 with ev := t1.ev ++ (evs.reverse.map (Core.chordFix ht ln qq v)), tp := ht + ln }) with harm := none }

theorem sem_chord (body : List Cmd) (len : Option LenExpr) (q v : Option Int) (s : Core.St) :
    Core.sem (.chord body len q v) s = chordEnd len q v (Core.semL body (chordBegin s)) := by
  simp only [Core.sem, chordEnd, chordBegin]
  generalize Core.semL body _ = s1
  rcases hh : s1.harm with _ | ⟨ht, evs⟩
  · rfl
  · simp only []
    cases q <;> rfl

theorem leaf_harmonyBegin (F d : Nat) (s : Song) (h : Inv s) (hf : s.harmonyFlag = false) :
    abs (leaf F d (tok .harmonyBegin 0 []) s) = chordBegin (abs s) ∧ Inv (leaf F d (tok .harmonyBegin 0 []) s) ∧
      (leaf F d (tok .harmonyBegin 0 []) s).harmonyFlag = true := by
  unfold leaf
  simp only [h.nb, Bool.false_eq_true, if_false, tok, Tok.ty]
  refine ⟨?_, ⟨by simpa using h.nb, by simpa using h.ks, by simpa using h.oo, by simpa using h.cur, by simp, by simpa using h.tr⟩, trivial⟩
  have e1 : (abs s).t.tp = s.t.timepos := by rw [abs_t]; rfl
  simp only [chordBegin, e1]
  apply St_ext <;> simp [abs, h.he hf]


theorem lenSV_toS (len : Option LenExpr) : (lenSV len).toS = lenText len := by
  cases len <;> rfl

set_option pp.deepTerms false in
set_option pp.deepTerms.threshold 3 in
theorem leaf_harmonyEnd (F d : Nat) (len : Option LenExpr) (q v : Option Int) (hl : lenOK len)
    (s : Song) (h : Inv s) (hf : s.harmonyFlag = true) :
    let tk := tok .harmonyEnd 0 [lenSV len, optInt (-1) q, velSV v]
    abs (leaf F d tk s) = chordEnd len q v (abs s) ∧ Inv (leaf F d tk s) ∧ (leaf F d tk s).harmonyFlag = false := by
  intro tk
  unfold leaf
  simp only [h.nb, Bool.false_eq_true, if_false, tk, tok, Tok.ty]
  unfold execHarmonyEnd
  simp only [hf, not_true_eq_false, if_false, Tok.data, dataI, dataS, List.getD_cons_zero, List.getD_cons_succ, optInt_toI, lenSV_toS,
    calcLength_lenText _ _ len hl]
  have hh : (abs s).harm = some (s.harmonyTime, s.harmonyEvents.map absE) := by simp [abs, hf]
  refine ⟨?_, ?_, trivial⟩
  · simp only [chordEnd, hh, abs_t]
    apply St_ext
    · simp [abs, Core.St.setT]
    · simp only [abs, Song.setT, Core.St.setT, List.map_set]
      refine congrArg (fun x => (List.map absT s.tracks).set s.cur x) ?_
      simp only [absT, List.map_append, List.map_reverse, List.map_map, Core.Trk.mk.injEq, true_and, List.append_cancel_left_eq, and_true]
      congr 2
      funext e
      simp only [Function.comp, absE, Core.chordFix, Core.tdiv]
      rcases q with _ | x <;> rcases v with _ | y
      all_goals (simp only [Option.getD, velSV])
      all_goals (repeat' split)
      all_goals (simp_all <;> try omega)
    · simp [abs, Core.St.setT]
    · simp [abs, Core.St.setT]
    · simp [abs, Core.St.setT]
    · simp [abs, Core.St.setT]
    · simp [abs]
  · refine ⟨by simpa using h.nb, by simpa using h.ks, by simpa using h.oo, by simpa using h.cur, by simp, ?_⟩
    intro x hx
    simp only [Song.setT] at hx
    rcases List.mem_or_eq_of_mem_set hx with h1 | h1
    · exact h.tr x h1
    · subst h1; exact inv_t s h

/-! ### tracks -/

theorem growTracks_abs (tb : Int) (n : Nat) : ∀ (f : Nat) (ts : List Trk),
    (growTracks tb n f ts).map absT = Core.growTracks tb n f (ts.map absT) := by
  intro f
  induction f with
  | zero => intro ts; rfl
  | succ f ih =>
    intro ts
    simp only [growTracks, Core.growTracks, List.length_map]
    split
    · rw [ih]; simp [absT_new]
    · rfl

theorem growTracks_ok (tb : Int) (n : Nat) : ∀ (f : Nat) (ts : List Trk), (∀ t ∈ ts, TrkOK t) → ∀ t ∈ growTracks tb n f ts, TrkOK t := by
  intro f
  induction f with
  | zero => intro ts h; exact h
  | succ f ih =>
    intro ts h
    simp only [growTracks]
    split
    · apply ih
      intro t ht
      rcases List.mem_append.mp ht with h1 | h1
      · exact h t h1
      · simp at h1; subst h1; exact ⟨rfl, rfl, rfl, rfl, rfl⟩
    · exact h

theorem growTracks_len' (tb : Int) (n : Nat) : ∀ f ts, n + 1 ≤ ts.length + f → n < (growTracks tb n f ts).length := by
  intro f
  induction f with
  | zero => intro ts h; simp [growTracks]; omega
  | succ f ih =>
    intro ts h
    simp only [growTracks]
    split
    · apply ih; simp; omega
    · omega

theorem leaf_track (F d : Nat) (n : Nat) (s : Song) (h : Inv s) :
    let tk := Tok.mk .track 0 0 none [] (constKids n)
    abs (leaf F d tk s) = Core.sem (.track n) (abs s) ∧ Inv (leaf F d tk s) ∧ (leaf F d tk s).harmonyFlag = s.harmonyFlag := by
  intro tk
  unfold leaf
  have hn : ¬ ((n : Int) < 0) := by omega
  simp only [h.nb, Bool.false_eq_true, if_false, tk, Tok.ty, constArg, Tok.children, constKids, hn, Int.toNat_natCast, changeTrack]
  refine ⟨?_, ⟨by simpa using h.nb, by simpa using h.ks, by simpa using h.oo, ?_, by simpa using h.he, ?_⟩, trivial⟩
  · apply St_ext <;> simp [abs, Core.sem, growTracks_abs]
  · show n < (growTracks s.tb n (n + 1) s.tracks).length
    exact growTracks_len' _ _ _ _ (by omega)
  · exact growTracks_ok _ _ _ _ h.tr

theorem leaf_channel (F d : Nat) (n : Int) (s : Song) (h : Inv s) :
    let tk := Tok.mk .channel 0 0 none [] (constKids n)
    abs (leaf F d tk s) = Core.sem (.channel n) (abs s) ∧ Inv (leaf F d tk s) ∧ (leaf F d tk s).harmonyFlag = s.harmonyFlag := by
  intro tk
  unfold leaf
  simp only [h.nb, Bool.false_eq_true, if_false, tk, Tok.ty, constArg, Tok.children, constKids]
  refine ⟨?_, inv_setT _ _ h (inv_t s h), rfl⟩
  simp [abs_setT, Core.sem, abs_t, absT, clampI, Core.clamp]

theorem leaf_trackSync (F d : Nat) (s : Song) (h : Inv s) :
    let tk := tok .trackSync 0 []
    abs (leaf F d tk s) = Core.sem .trackSync (abs s) ∧ Inv (leaf F d tk s) ∧ (leaf F d tk s).harmonyFlag = s.harmonyFlag := by
  intro tk
  unfold leaf
  simp only [h.nb, Bool.false_eq_true, if_false, tk, tok, Tok.ty]
  refine ⟨?_, ⟨by simpa using h.nb, by simpa using h.ks, by simpa using h.oo, by simpa using h.cur, by simpa using h.he, ?_⟩, trivial⟩
  · have e1 : (abs s).t.tp = s.t.timepos := by rw [abs_t]; rfl
    simp only [Core.sem, e1]
    apply St_ext <;> simp [abs, absT, Function.comp_def]
  · intro x hx
    simp only [List.mem_map] at hx
    obtain ⟨y, hy, rfl⟩ := hx
    exact h.tr y hy

/-! ## well-formed programs, nesting depth, and the link between the lexer-form token list and the loop trees -/

mutual
def cwf : Cmd → Prop
  | .note semi _ _ len _ _ t _ => noteWF semi len t
  | .noteN _ len _ _ t => lenOK len ∧ t ≠ some intMin
  | .rest len _ => lenOK len
  | .setL len => lenOK len
  | .setO _ | .octRel _ | .setV _ | .velRel _ | .setQ _ | .setT _ | .track _ | .channel _ | .trackSync => True
  | .loop n b hb k => 1 ≤ n ∧ cwfL b ∧ cwfL k ∧ (hb = true ∨ k = [])
  | .sub b => cwfL b
  | .div b len => cwfL b ∧ lenOK len
  | .chord b len _ _ => cwfL b ∧ b.all simple = true ∧ lenOK len
  | .voice _ | .keyShift _ | .trackKey _ | .keyFlag _ _ | .play _ => False
def cwfL : List Cmd → Prop
  | [] => True
  | c :: cs => cwf c ∧ cwfL cs
end

mutual
def depth : Cmd → Nat
  | .loop _ b _ k => max (depthL b) (depthL k)
  | .sub b => depthL b + 1
  | .div b _ => depthL b + 1
  | .chord b _ _ _ => depthL b
  | _ => 0
def depthL : List Cmd → Nat
  | [] => 0
  | c :: cs => max (depth c) (depthL cs)
end

/-- a leaf token is not one of the three loop tokens -/
def LeafTok (t : Tok) : Prop := t.ty ≠ .loopBegin ∧ t.ty ≠ .loopBreak ∧ t.ty ≠ .loopEnd

mutual
def leavesOK : Loop.Tree Tok → Prop
  | .leaf a => LeafTok a
  | .loop _ b _ k => leavesOKL b ∧ leavesOKL k
def leavesOKL : List (Loop.Tree Tok) → Prop
  | [] => True
  | t :: ts => leavesOK t ∧ leavesOKL ts
end

theorem toLoopTok_leaf (a : Tok) (h : LeafTok a) : toLoopTok a = .other a := by
  obtain ⟨h1, h2, h3⟩ := h
  cases a with
  | mk ty vi line vs data ch =>
    simp only [Tok.ty] at h1 h2 h3
    unfold toLoopTok
    cases ty <;> simp_all [Tok.ty, Tok.data]

mutual
theorem raw_flatten (t : Loop.Tree Tok) (h : leavesOK t) : (rawT t).map toLoopTok = Loop.flatten t := by
  cases t with
  | leaf a => simp [rawT, Loop.flatten, toLoopTok_leaf a h]
  | loop n b hb k =>
    simp only [leavesOK] at h
    simp only [rawT, Loop.flatten, List.map_append, List.map_cons, List.map_nil, raw_flattenL b h.1]
    have e1 : toLoopTok (tok .loopBegin 0 [.int (n : Int)]) = .lbegin n := by
      simp [toLoopTok, tok, Tok.ty, Tok.data]
    have e2 : toLoopTok (tok .loopBreak 0 []) = .lbreak := by simp [toLoopTok, tok, Tok.ty, Tok.data]
    have e3 : toLoopTok (tok .loopEnd 0 []) = .lend := by simp [toLoopTok, tok, Tok.ty, Tok.data]
    cases hb <;> simp [e1, e2, e3, raw_flattenL k h.2]
theorem raw_flattenL (ts : List (Loop.Tree Tok)) (h : leavesOKL ts) : (rawL ts).map toLoopTok = Loop.flattenL ts := by
  cases ts with
  | nil => simp [rawL, Loop.flattenL]
  | cons t ts =>
    simp only [leavesOKL] at h
    simp [rawL, Loop.flattenL, raw_flatten t h.1, raw_flattenL ts h.2]
end

theorem leavesOKL_append (a b : List (Loop.Tree Tok)) (ha : leavesOKL a) (hb : leavesOKL b) : leavesOKL (a ++ b) := by
  induction a with
  | nil => simpa using hb
  | cons t ts ih =>
    simp only [leavesOKL] at ha
    simp only [List.cons_append, leavesOKL]
    exact ⟨ha.1, ih ha.2⟩

theorem leafTok_of_ty (a : Tok) (h : a.ty ≠ .loopBegin ∧ a.ty ≠ .loopBreak ∧ a.ty ≠ .loopEnd) : LeafTok a := h

mutual
theorem toTrees_leaves (c : Cmd) : leavesOKL (toTrees c) := by
  cases c
  case loop n b hb k => simp only [toTrees, leavesOKL, leavesOK]; exact ⟨⟨toTreesL_leaves b, toTreesL_leaves k⟩, trivial⟩
  case chord b len q v =>
    simp only [toTrees]
    refine leavesOKL_append _ _ (leavesOKL_append _ _ ?_ (toTreesL_leaves b)) ?_
    · simp [leavesOKL, leavesOK, LeafTok, tok, Tok.ty]
    · simp [leavesOKL, leavesOK, LeafTok, tok, Tok.ty]
  all_goals simp [toTrees, leavesOKL, leavesOK, LeafTok, tok, Tok.ty]
theorem toTreesL_leaves (cs : List Cmd) : leavesOKL (toTreesL cs) := by
  cases cs with
  | nil => simp [toTreesL, leavesOKL]
  | cons c cs => simp only [toTreesL]; exact leavesOKL_append _ _ (toTrees_leaves c) (toTreesL_leaves cs)
end

theorem wfL_append (a b : List (Loop.Tree Tok)) (ha : Loop.wfL a = true) (hb : Loop.wfL b = true) : Loop.wfL (a ++ b) = true := by
  induction a with
  | nil => simpa using hb
  | cons t ts ih =>
    simp only [Loop.wfL, Bool.and_eq_true] at ha
    simp only [List.cons_append, Loop.wfL, Bool.and_eq_true]
    exact ⟨ha.1, ih ha.2⟩

mutual
theorem toTrees_wf (c : Cmd) (h : cwf c) : Loop.wfL (toTrees c) = true := by
  cases c
  case loop n b hb k =>
    simp only [cwf] at h
    obtain ⟨hn, hb1, hk1, hbk⟩ := h
    simp only [toTrees, Loop.wfL, Loop.wf, Bool.and_eq_true, decide_eq_true_eq, Bool.or_eq_true, and_true]
    refine ⟨⟨⟨hn, toTreesL_wf b hb1⟩, toTreesL_wf k hk1⟩, ?_⟩
    rcases hbk with h1 | h1
    · exact Or.inl h1
    · right; subst h1; simp [toTreesL]
  case chord b len q v =>
    simp only [cwf] at h
    simp only [toTrees]
    exact wfL_append _ _ (wfL_append _ _ (by simp [Loop.wfL, Loop.wf]) (toTreesL_wf b h.1)) (by simp [Loop.wfL, Loop.wf])
  all_goals simp [toTrees, Loop.wfL, Loop.wf]
theorem toTreesL_wf (cs : List Cmd) (h : cwfL cs) : Loop.wfL (toTreesL cs) = true := by
  cases cs with
  | nil => simp [toTreesL, Loop.wfL]
  | cons c cs =>
    simp only [cwfL] at h
    simp only [toTreesL]
    exact wfL_append _ _ (toTrees_wf c h.1) (toTreesL_wf cs h.2)
end

theorem unrollL_append {α} (a b : List (Loop.Tree α)) : Loop.unrollL (a ++ b) = Loop.unrollL a ++ Loop.unrollL b := by
  induction a with
  | nil => simp [Loop.unrollL]
  | cons t ts ih => simp [Loop.unrollL, ih]

/-! ## the refinement -/

/-- the executed leaves `A` (under the action `act`) implement `f` on abstract states; `nf` = the state must be outside a chord -/
def Impl (act : Tok → Song → Song) (A : List Tok) (f : Core.St → Core.St) (nf : Bool) : Prop :=
  ∀ s, Inv s → (nf = true → s.harmonyFlag = false) →
    abs (Loop.foldAct act A s) = f (abs s) ∧ Inv (Loop.foldAct act A s) ∧ (Loop.foldAct act A s).harmonyFlag = s.harmonyFlag

theorem Impl.weaken {act A f b b'} (h : Impl act A f b) (hb : b = true → b' = true) : Impl act A f b' :=
  fun s hi hf => h s hi (fun hb1 => hf (hb hb1))

theorem Impl.append {act A B f g b} (h1 : Impl act A f b) (h2 : Impl act B g b) : Impl act (A ++ B) (fun x => g (f x)) b := by
  intro s hi hf
  obtain ⟨a1, a2, a3⟩ := h1 s hi hf
  obtain ⟨b1, b2, b3⟩ := h2 _ a2 (fun hb => by rw [a3]; exact hf hb)
  rw [Loop.foldAct_append]
  exact ⟨by rw [b1, a1], b2, by rw [b3, a3]⟩

theorem Impl.nil (act : Tok → Song → Song) (b : Bool) : Impl act [] (fun x => x) b :=
  fun s hi _ => ⟨rfl, hi, rfl⟩

theorem Impl.iter {act A B fa fb b} (h1 : Impl act A fa b) (h2 : Impl act B fb b) :
    ∀ n, Impl act (Loop.iterL A B n) (Core.iter fa fb n) b := by
  intro n
  induction n using Nat.strongRecOn with
  | _ n ih =>
    match n with
    | 0 => exact Impl.nil act b
    | 1 => exact h1
    | k+2 =>
      have := (h1.append h2).append (ih (k+1) (by omega))
      intro s hi hf
      have r := this s hi hf
      simpa [Loop.iterL, Core.iter, List.append_assoc] using r

theorem Impl.single {act : Tok → Song → Song} {tk : Tok} {f b}
    (h : ∀ s, Inv s → (b = true → s.harmonyFlag = false) → abs (act tk s) = f (abs s) ∧ Inv (act tk s) ∧ (act tk s).harmonyFlag = s.harmonyFlag) :
    Impl act (Loop.unrollL [Loop.Tree.leaf tk]) f b := by
  intro s hi hf
  simpa [Loop.unrollL, Loop.unroll, Loop.foldAct] using h s hi hf

theorem all_simple_depth : ∀ (b : List Cmd), b.all simple = true → depthL b = 0 := by
  intro b
  induction b with
  | nil => intro _; rfl
  | cons c cs ih =>
    intro h
    simp only [List.all_cons, Bool.and_eq_true] at h
    have : depth c = 0 := by cases c <;> simp_all [simple, depth]
    simp [depthL, this, ih h.2]

/-- running the children of a block token (`LineNo` first, as the lexer writes them): with enough fuel the nested `exec` is
    the fold over the unrolled leaves -/
theorem block_run (b : List Cmd) (hw : cwfL b) :
    ∃ k, ∀ (act : Tok → Song → Song) (s : Song) (F : Nat), k + 1 ≤ F →
      Loop.runFuel act ((lineTok :: rawL (toTreesL b)).map toLoopTok) F (0, [], s) =
        some (Loop.foldAct act (Loop.unrollL (toTreesL b)) (act lineTok s)) := by
  have hwf : Loop.wfL (Loop.Tree.leaf lineTok :: toTreesL b) = true := by
    simp [Loop.wfL, Loop.wf, toTreesL_wf b hw]
  have hlv : leavesOKL (Loop.Tree.leaf lineTok :: toTreesL b) := by
    simp only [leavesOKL, leavesOK]
    exact ⟨by simp [LeafTok, lineTok, Tok.ty], toTreesL_leaves b⟩
  obtain ⟨k, hk⟩ := Loop.level_run _ hwf
  refine ⟨k, fun act s F hF => ?_⟩
  have e := raw_flattenL _ hlv
  simp only [rawL, rawT, List.singleton_append] at e
  rw [e, hk act s F hF]
  simp [Loop.unrollL, Loop.unroll, Loop.foldAct]

mutual
theorem refine (c : Cmd) (hw : cwf c) : ∀ d, depth c ≤ d → ∃ F0, ∀ F, F0 ≤ F →
    Impl (leaf F d) (Loop.unrollL (toTrees c)) (Core.sem c) (!simple c) := by
  intro d hd
  cases c
  case note semi acc nat len q v t o =>
    exact ⟨0, fun F _ => Impl.single (fun s hi _ => leaf_note F d semi acc nat len q v t o hw s hi)⟩
  case noteN no len q v t =>
    exact ⟨0, fun F _ => Impl.single (fun s hi _ => leaf_noteN F d no len q v t hw.1 hw.2 s hi)⟩
  case rest len dir => exact ⟨0, fun F _ => Impl.single (fun s hi _ => leaf_rest F d len dir hw s hi)⟩
  case setL len => exact ⟨0, fun F _ => Impl.single (fun s hi _ => leaf_setL F d len hw s hi)⟩
  case setO n => exact ⟨0, fun F _ => Impl.single (fun s hi _ => leaf_setO F d n s hi)⟩
  case octRel n => exact ⟨0, fun F _ => Impl.single (fun s hi _ => leaf_octRel F d n s hi)⟩
  case setV n => exact ⟨0, fun F _ => Impl.single (fun s hi _ => leaf_setV F d n s hi)⟩
  case velRel n => exact ⟨0, fun F _ => Impl.single (fun s hi _ => leaf_velRel F d n s hi)⟩
  case setQ n => exact ⟨0, fun F _ => Impl.single (fun s hi _ => leaf_setQ F d n s hi)⟩
  case setT n => exact ⟨0, fun F _ => Impl.single (fun s hi _ => leaf_setT F d n s hi)⟩
  case track n => exact ⟨0, fun F _ => Impl.single (fun s hi _ => leaf_track F d n s hi)⟩
  case channel n => exact ⟨0, fun F _ => Impl.single (fun s hi _ => leaf_channel F d n s hi)⟩
  case trackSync => exact ⟨0, fun F _ => Impl.single (fun s hi _ => leaf_trackSync F d s hi)⟩
  case voice n => exact absurd hw (by simp [cwf])
  case keyShift n => exact absurd hw (by simp [cwf])
  case trackKey n => exact absurd hw (by simp [cwf])
  case keyFlag a b => exact absurd hw (by simp [cwf])
  case play ps => exact absurd hw (by simp [cwf])
  case loop n b hb k =>
    simp only [cwf] at hw
    simp only [depth] at hd
    obtain ⟨Fb, hFb⟩ := refineL b hw.2.1 d (by omega)
    obtain ⟨Fk, hFk⟩ := refineL k hw.2.2.1 d (by omega)
    refine ⟨max Fb Fk, fun F hF => ?_⟩
    have hb' := (hFb F (by omega)).weaken (b' := true) (fun _ => rfl)
    have hk' := (hFk F (by omega)).weaken (b' := true) (fun _ => rfl)
    have := Impl.iter hb' hk' n
    simpa [toTrees, Loop.unrollL, Loop.unroll, Core.sem, simple] using this
  case sub b =>
    simp only [cwf] at hw
    simp only [depth] at hd
    obtain ⟨d', rfl⟩ : ∃ d', d = d' + 1 := ⟨d - 1, by omega⟩
    obtain ⟨Fb, hFb⟩ := refineL b hw d' (by omega)
    obtain ⟨k, hk⟩ := block_run b hw
    refine ⟨max Fb (k + 1), fun F hF => Impl.single (fun s hi hf => ?_)⟩
    have hrun := hk (leaf F d') s F (by omega)
    obtain ⟨l1, l2, l3⟩ := leaf_lineNo F d' s hi
    obtain ⟨a1, a2, a3⟩ := (hFb F (by omega)) _ l2 (fun _ => by rw [l3]; exact hf (by simp [simple]))
    rw [l1] at a1
    rw [l3] at a3
    have e1 : (abs s).t.tp = s.t.timepos := by rw [abs_t]; rfl
    unfold leaf
    simp only [hi.nb, Bool.false_eq_true, if_false, Tok.ty, Tok.children, hrun, a2.nb]
    refine ⟨?_, inv_setT _ _ a2 (inv_t _ a2), by simpa using a3⟩
    simp only [abs_setT, a1, Core.sem, e1]
    congr 1
    simp [abs_t, a1.symm, absT]
  case div b len =>
    simp only [cwf] at hw
    simp only [depth] at hd
    obtain ⟨d', rfl⟩ : ∃ d', d = d' + 1 := ⟨d - 1, by omega⟩
    obtain ⟨Fb, hFb⟩ := refineL b hw.1 d' (by omega)
    obtain ⟨k, hk⟩ := block_run b hw.1
    refine ⟨max Fb (k + 1), fun F hF => Impl.single (fun s hi hf => ?_)⟩
    have hfl : s.harmonyFlag = false := hf (by simp [simple])
    have e1 : (abs s).t = absT s.t := abs_t s
    -- the state the body starts in
    obtain ⟨s0, hs0d⟩ : ∃ s0, s0 = s.setT { s.t with length := if Core.countElems b > 0 then Int.tdiv (Core.lenOpt s.tb s.t.length len) (Core.countElems b) else 0 } := ⟨_, rfl⟩
    have hi0 : Inv s0 := hs0d ▸ inv_setT _ _ hi (inv_t s hi)
    have hfl0 : s0.harmonyFlag = false := by rw [hs0d]; exact hfl
    have ht0 : s0.tb = s.tb := by rw [hs0d]; rfl
    have hrun := hk (leaf F d') s0 F (by omega)
    obtain ⟨l1, l2, l3⟩ := leaf_lineNo F d' s0 hi0
    obtain ⟨a1, a2, a3⟩ := (hFb F (by omega)) _ l2 (fun _ => by rw [l3]; exact hfl0)
    rw [l1] at a1
    rw [l3] at a3
    have hs0 : abs s0 = (abs s).setT { (abs s).t with l := if Core.countElems b > 0 then Core.tdiv (Core.lenOpt (abs s).tb (abs s).t.l len) (Core.countElems b) else 0 } := by
      rw [hs0d, abs_setT, e1]
      congr 1
      simp only [absT, abs_tb]
      congr 1
      split
      · rename_i hc; simp [Core.tdiv, Int.ne_of_gt hc]
      · rfl
    generalize Loop.foldAct (leaf F d') (Loop.unrollL (toTreesL b)) (leaf F d' lineTok s0) = S' at hrun a1 a2 a3
    unfold leaf
    simp only [hi.nb, Bool.false_eq_true, if_false, Tok.ty, Tok.children, Tok.vi, Tok.data, dataS, List.getD_cons_zero, str_toS,
      calcLength_lenText _ _ len hw.2, ← hs0d, hrun, a2.nb]
    refine ⟨?_, inv_setT _ _ a2 (inv_t _ a2), by simpa [hfl0, hfl] using a3⟩
    simp only [abs_setT, Core.sem]
    rw [← hs0, ← a1]
    simp only [abs_t, abs_tb]
    congr 1
  case chord b len q v =>
    simp only [cwf] at hw
    obtain ⟨hwb, hsim, hl⟩ := hw
    simp only [depth] at hd
    obtain ⟨Fb, hFb⟩ := refineL b hwb d (by omega)
    refine ⟨Fb, fun F hF => ?_⟩
    intro s hi hf
    have hfl : s.harmonyFlag = false := hf (by simp [simple])
    have hshape : Loop.unrollL (toTrees (.chord b len q v)) =
        [tok .harmonyBegin 0 []] ++ (Loop.unrollL (toTreesL b) ++ [tok .harmonyEnd 0 [lenSV len, optInt (-1) q, velSV v]]) := by
      simp [toTrees, unrollL_append, Loop.unrollL, Loop.unroll]
    rw [hshape, Loop.foldAct_append, Loop.foldAct_append]
    have hsing : ∀ (x : Tok) (st : Song), Loop.foldAct (leaf F d) [x] st = leaf F d x st := fun x st => by simp [Loop.foldAct]
    rw [hsing, hsing]
    obtain ⟨b1, b2, b3⟩ := leaf_harmonyBegin F d s hi hfl
    obtain ⟨c1, c2, c3⟩ := (hFb F hF) _ b2 (fun h => by simp [hsim] at h)
    obtain ⟨e1, e2, e3⟩ := leaf_harmonyEnd F d len q v hl _ c2 (by rw [c3, b3])
    refine ⟨?_, e2, by rw [e3, hfl]⟩
    rw [e1, c1, b1, sem_chord]
theorem refineL (cs : List Cmd) (hw : cwfL cs) : ∀ d, depthL cs ≤ d → ∃ F0, ∀ F, F0 ≤ F →
    Impl (leaf F d) (Loop.unrollL (toTreesL cs)) (Core.semL cs) (!cs.all simple) := by
  intro d hd
  cases cs with
  | nil => exact ⟨0, fun F _ => by simpa [toTreesL, Loop.unrollL, Core.semL] using Impl.nil (leaf F d) false⟩
  | cons c cs =>
    simp only [cwfL] at hw
    simp only [depthL] at hd
    obtain ⟨F1, h1⟩ := refine c hw.1 d (by omega)
    obtain ⟨F2, h2⟩ := refineL cs hw.2 d (by omega)
    refine ⟨max F1 F2, fun F hF => ?_⟩
    have a1 := (h1 F (by omega)).weaken (b' := !(c :: cs).all simple) (by simp; intro h; simp [h])
    have a2 := (h2 F (by omega)).weaken (b' := !(c :: cs).all simple) (by simp; intro x hx hx2; exact Or.inr ⟨x, hx, hx2⟩)
    have := a1.append a2
    simpa [toTreesL, unrollL_append, Core.semL] using this
end

/-- the token list the lexer produces for a program (loops flat, blocks with their children) -/
def compileL (cs : List Cmd) : List Tok := lineTok :: rawL (toTreesL cs)

/-- **exec_refines_sem**: for every well-formed program of the core note language (any nesting of loops with `:`,
    `Sub`, tuplets and chords, on any tracks) there is a fuel bound such that `runner::exec` (the model `Ex2.exec`) run on the
    compiled token list, from any state satisfying the invariant and outside a chord, terminates in a state whose
    abstraction is the denotational semantics `Core.semL` of the program. -/
theorem exec_refines_sem (cs : List Cmd) (hw : cwfL cs) :
    ∃ F0, ∀ F, F0 ≤ F → ∀ s, Inv s → s.harmonyFlag = false →
      ∃ s', exec F (depthL cs) (compileL cs) s = some s' ∧ abs s' = Core.semL cs (abs s) ∧ Inv s' := by
  obtain ⟨F1, h1⟩ := refineL cs hw (depthL cs) (Nat.le_refl _)
  obtain ⟨k, hk⟩ := block_run cs hw
  refine ⟨max F1 (k + 1), fun F hF s hi hf => ?_⟩
  obtain ⟨l1, l2, l3⟩ := leaf_lineNo F (depthL cs) s hi
  obtain ⟨a1, a2, _⟩ := (h1 F (by omega)) _ l2 (fun _ => by rw [l3]; exact hf)
  exact ⟨_, hk (leaf F (depthL cs)) s F (by omega), by rw [a1, l1], a2⟩

theorem inv_init : Inv ({} : Song) := by
  refine ⟨rfl, rfl, rfl, by decide, fun _ => rfl, ?_⟩
  intro t ht
  simp at ht
  subst ht
  exact ⟨rfl, rfl, rfl, rfl, rfl⟩

theorem abs_init : abs ({} : Song) = Core.St.init := by
  simp [abs, Core.St.init, absT, Trk.new, Core.newTrk, clampI, Core.clamp]
  decide

/-- from the fresh song: the compiled program run by the model of `exec` yields `semL cs St.init` -/
theorem exec_refines_sem_init (cs : List Cmd) (hw : cwfL cs) :
    ∃ F0, ∀ F, F0 ≤ F → ∃ s', exec F (depthL cs) (compileL cs) {} = some s' ∧ abs s' = Core.semL cs Core.St.init := by
  obtain ⟨F0, h⟩ := exec_refines_sem cs hw
  refine ⟨F0, fun F hF => ?_⟩
  obtain ⟨s', h1, h2, _⟩ := h F hF {} inv_init rfl
  exact ⟨s', h1, by rw [h2, abs_init]⟩

#print axioms exec_refines_sem_init
end Sakura.Ex2
