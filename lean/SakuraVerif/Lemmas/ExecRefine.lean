import SakuraVerif.Model.Exec
import SakuraVerif.Lemmas.Trace
import SakuraVerif.Lemmas.Core
/-! # exec_refines_sem — the token machine run on the compiled program is the denotational semantics

`compileL : List Core.Cmd → List Lx.Tok` writes a program of the core note language as the token
list the lexer produces for it (loops as `LoopBegin … LoopBreak … LoopEnd`, `Sub`/tuplets with their
children, chords as `HarmonyBegin … HarmonyEnd`, lengths as their text).  `abs` maps the runner-level
state of `Model.Exec` to the state of `Spec.Core`.  The theorem: for every well-formed program, any
nesting, with enough fuel, `Ex2.exec` on the compiled tokens ends in a state whose abstraction is
`Core.semL` of the program. -/
namespace Sakura.Ex2
open Sakura Sakura.Lx
open Sakura.Core (Cmd LenExpr NoteEv)

/-- the text of a length expression -/
def lenText : Option LenExpr → List Nat
  | none => []
  | some L => Len.render L.head ++ Len.segs L.parts

/-- the expression is one of the grammar of C04 and is not the empty text -/
def lenOK : Option LenExpr → Prop
  | none => True
  | some L => (∀ c ∈ L.head.digs, Len.isDigit c = true) ∧ L.head.dots ≤ 4 ∧
      (∀ sp ∈ L.parts, sp.1 = 94 ∨ sp.1 = 43) ∧ (∀ sp ∈ L.parts, sp.2.wf) ∧ Len.render L.head ++ Len.segs L.parts ≠ []

theorem calcLength_lenText (tb dflt : Int) (len : Option LenExpr) (h : lenOK len) :
    Len.calcLength tb dflt (lenText len) = Core.lenOpt tb dflt len := by
  cases len with
  | none => simp [lenText, Core.lenOpt, Len.calcLength]
  | some L =>
    obtain ⟨hd, hk, hsep, hw, hne⟩ := h
    simp only [lenText, Core.lenOpt, Core.lenVal]
    unfold Len.calcLength
    simp only [hne, if_false]
    rw [Len.head_closed tb dflt L.head hd hk (fun _ => Or.inr trivial) (Len.segs L.parts) (Len.segs_boundary L.parts hsep)]
    simp only []
    rw [Len.loop_sum tb dflt L.parts hsep hw _ (by have := Len.segs_length_ge L.parts; omega)]

def optInt (d : Int) : Option Int → SV
  | none => .int d
  | some x => .int x

def constKids (n : Int) : Option (List Tok) := some [Tok.mk .tokens 0 0 none [] (some [Tok.mk .constInt n 0 none [] none])]

mutual
/-- the token list of loop trees in the lexer's form (`LoopBegin n … [LoopBreak …] LoopEnd`) -/
def rawT : Loop.Tree Tok → List Tok
  | .leaf a => [a]
  | .loop n b hb k => [tok .loopBegin 0 [.int n]] ++ (rawL b ++ ((if hb then [tok .loopBreak 0 []] ++ rawL k else []) ++ [tok .loopEnd 0 []]))
def rawL : List (Loop.Tree Tok) → List Tok
  | [] => []
  | t :: ts => rawT t ++ rawL ts
end

/-- commands that may stand inside a chord: notes, rests and the plain setters -/
def simple : Cmd → Bool
  | .note .. | .noteN .. | .rest .. | .setL .. | .setO .. | .octRel .. | .setV .. | .velRel .. | .setQ .. | .setT .. => true
  | _ => false

mutual
/-- the loop trees of a program over leaf tokens -/
def toTrees : Cmd → List (Loop.Tree Tok)
  | .note semi acc nat len q v t o =>
    [.leaf (tok .note semi [.int acc, .int (if nat then 1 else 0), .str (lenText len), optInt 0 q, optInt (-1) v, optInt intMin t, optInt (-1) o, .none])]
  | .noteN no len q v t => [.leaf (tok .noteN 0 [.int no, .str (lenText len), optInt 0 q, optInt (-1) v, optInt intMin t, .none])]
  | .rest len dir => [.leaf (tok .rest dir [.str (lenText len)])]
  | .setL len => [.leaf (tok .length 0 [.str (lenText len)])]
  | .setO n => [.leaf (tok .octave n [])]
  | .octRel d => [.leaf (tok .octaveRel d [])]
  | .setV n => [.leaf (tok .velocity n [.int (-1)])]
  | .velRel d => [.leaf (tok .velocityRel d [])]
  | .setQ n => [.leaf (tok .qlen n [])]
  | .setT n => [.leaf (tok .timing n [])]
  | .loop n body hb brk => [.loop n (toTreesL body) hb (toTreesL brk)]
  | .sub body => [.leaf (.mk .sub 0 0 none [] (some (rawL (toTreesL body))))]
  | .div body len => [.leaf (.mk .div (Core.countElems body) 0 none [.str (lenText len)] (some (rawL (toTreesL body))))]
  | .chord body len q v =>
    [.leaf (tok .harmonyBegin 0 [])] ++ toTreesL body ++
      [.leaf (tok .harmonyEnd 0 [match len with | none => SV.none | some _ => .str (lenText len), optInt (-1) q, match v with | none => SV.none | some x => .int x])]
  | .track n => [.leaf (.mk .track 0 0 none [] (constKids n))]
  | .channel n => [.leaf (.mk .channel 0 0 none [] (constKids n))]
  | .trackSync => [.leaf (tok .trackSync 0 [])]
  | .voice _ | .keyShift _ | .trackKey _ | .keyFlag _ _ | .play _ => []
def toTreesL : List Cmd → List (Loop.Tree Tok)
  | [] => []
  | c :: cs => toTrees c ++ toTreesL cs
end


/-! ## abstraction to the state of `Spec.Core` and the invariant of compiled programs -/

def absE (e : Event) : NoteEv := ⟨e.time, e.ch, e.v1, e.v2, e.v3⟩
def absT (t : Trk) : Core.Trk :=
  { tp := t.timepos, ch := t.channel, l := t.length, o := t.octave, v := t.velocity, q := t.qlen, t := t.timing, key := t.trackKey,
    ev := t.events.map absE }
def abs (s : Song) : Core.St :=
  { tb := s.tb, tr := s.tracks.map absT, cur := s.cur, keyflag := s.keyFlag, kshift := s.keyShift, vAdd := s.vAdd,
    harm := match s.harmonyFlag with
      | true => some (s.harmonyTime, s.harmonyEvents.map absE)
      | false => none }

/-- no Random setting, no open tied group (the compiled subset never sets them) -/
def TrkOK (t : Trk) : Prop := t.oRand = 0 ∧ t.vRand = 0 ∧ t.tRand = 0 ∧ t.qRand = 0 ∧ t.tieNotes = []

structure Inv (s : Song) : Prop where
  nb : s.bad = false
  ks : s.useKeyShift = true
  oo : s.octaveOnce = 0
  cur : s.cur < s.tracks.length
  he : s.harmonyFlag = false → s.harmonyEvents = []
  tr : ∀ t ∈ s.tracks, TrkOK t

theorem absT_new (tb : Int) (i : Nat) : absT (Trk.new tb ((i : Int) - 1)) = Core.newTrk tb i := by
  simp [absT, Trk.new, Core.newTrk, clampI, Core.clamp]
  decide

theorem abs_t (s : Song) : (abs s).t = absT s.t := by
  simp only [Core.St.t, abs, Song.t, List.getD_eq_getElem?_getD, List.getElem?_map]
  cases h : s.tracks[s.cur]? with
  | none => simp [absT_new]
  | some t => simp

theorem abs_setT (s : Song) (t : Trk) : abs (s.setT t) = (abs s).setT (absT t) := by
  simp only [abs, Song.setT, Core.St.setT, List.map_set]

theorem inv_t (s : Song) (h : Inv s) : TrkOK s.t := by
  have hc := h.cur
  simp only [Song.t, List.getD_eq_getElem?_getD]
  rw [List.getElem?_eq_getElem hc]
  exact h.tr _ (List.getElem_mem hc)

theorem inv_setT (s : Song) (t : Trk) (h : Inv s) (ht : TrkOK t) : Inv (s.setT t) := by
  refine ⟨h.nb, h.ks, h.oo, by simpa [Song.setT] using h.cur, h.he, ?_⟩
  intro x hx
  simp only [Song.setT] at hx
  rcases List.mem_or_eq_of_mem_set hx with h1 | h1
  · exact h.tr x h1
  · subst h1; exact ht


/-! ## simulation of the leaf tokens -/

@[simp] theorem abs_tb (s : Song) : (abs s).tb = s.tb := rfl
@[simp] theorem abs_vAdd (s : Song) : (abs s).vAdd = s.vAdd := rfl
@[simp] theorem abs_keyflag (s : Song) : (abs s).keyflag = s.keyFlag := rfl
@[simp] theorem abs_kshift (s : Song) : (abs s).kshift = s.keyShift := rfl
@[simp] theorem abs_cur (s : Song) : (abs s).cur = s.cur := rfl

theorem trkOK_upd (t : Trk) (h : TrkOK t) (tp ch l o v q tm key : Int) (ev : List Event) :
    TrkOK { t with timepos := tp, channel := ch, length := l, octave := o, velocity := v, qlen := q, timing := tm, trackKey := key, events := ev } := h

theorem leaf_setO (F d : Nat) (n : Int) (s : Song) (h : Inv s) :
    abs (leaf F d (tok .octave n []) s) = Core.sem (.setO n) (abs s) ∧ Inv (leaf F d (tok .octave n []) s) ∧ (leaf F d (tok .octave n []) s).harmonyFlag = s.harmonyFlag := by
  unfold leaf
  simp only [h.nb, Bool.false_eq_true, if_false, tok, Tok.ty, Tok.vi]
  refine ⟨?_, inv_setT _ _ h (inv_t s h), rfl⟩
  simp [abs_setT, Core.sem, abs_t, absT, clampI, Core.clamp]

theorem leaf_octRel (F d : Nat) (n : Int) (s : Song) (h : Inv s) :
    abs (leaf F d (tok .octaveRel n []) s) = Core.sem (.octRel n) (abs s) ∧ Inv (leaf F d (tok .octaveRel n []) s) ∧ (leaf F d (tok .octaveRel n []) s).harmonyFlag = s.harmonyFlag := by
  unfold leaf
  simp only [h.nb, Bool.false_eq_true, if_false, tok, Tok.ty, Tok.vi, Tok.data, dataI, dataS, SV.toI, SV.toS, List.getD_cons_zero]
  refine ⟨?_, inv_setT _ _ h (inv_t s h), rfl⟩
  simp [abs_setT, Core.sem, abs_t, absT, clampI, Core.clamp]

theorem leaf_setV (F d : Nat) (n : Int) (s : Song) (h : Inv s) :
    abs (leaf F d (tok .velocity n [.int (-1)]) s) = Core.sem (.setV n) (abs s) ∧ Inv (leaf F d (tok .velocity n [.int (-1)]) s) ∧ (leaf F d (tok .velocity n [.int (-1)]) s).harmonyFlag = s.harmonyFlag := by
  unfold leaf
  simp only [h.nb, Bool.false_eq_true, if_false, tok, Tok.ty, Tok.vi, Tok.data, dataI, dataS, SV.toI, SV.toS, List.getD_cons_zero]
  refine ⟨?_, inv_setT _ _ h (inv_t s h), rfl⟩
  simp [abs_setT, Core.sem, abs_t, absT, clampI, Core.clamp]

theorem leaf_velRel (F d : Nat) (n : Int) (s : Song) (h : Inv s) :
    abs (leaf F d (tok .velocityRel n []) s) = Core.sem (.velRel n) (abs s) ∧ Inv (leaf F d (tok .velocityRel n []) s) ∧ (leaf F d (tok .velocityRel n []) s).harmonyFlag = s.harmonyFlag := by
  unfold leaf
  simp only [h.nb, Bool.false_eq_true, if_false, tok, Tok.ty, Tok.vi, Tok.data, dataI, dataS, SV.toI, SV.toS, List.getD_cons_zero]
  refine ⟨?_, inv_setT _ _ h (inv_t s h), rfl⟩
  simp [abs_setT, Core.sem, abs_t, absT, clampI, Core.clamp]

theorem leaf_setQ (F d : Nat) (n : Int) (s : Song) (h : Inv s) :
    abs (leaf F d (tok .qlen n []) s) = Core.sem (.setQ n) (abs s) ∧ Inv (leaf F d (tok .qlen n []) s) ∧ (leaf F d (tok .qlen n []) s).harmonyFlag = s.harmonyFlag := by
  unfold leaf
  simp only [h.nb, Bool.false_eq_true, if_false, tok, Tok.ty, Tok.vi, Tok.data, dataI, dataS, SV.toI, SV.toS, List.getD_cons_zero]
  refine ⟨?_, inv_setT _ _ h (inv_t s h), rfl⟩
  simp [abs_setT, Core.sem, abs_t, absT, clampI, Core.clamp]

theorem leaf_setT (F d : Nat) (n : Int) (s : Song) (h : Inv s) :
    abs (leaf F d (tok .timing n []) s) = Core.sem (.setT n) (abs s) ∧ Inv (leaf F d (tok .timing n []) s) ∧ (leaf F d (tok .timing n []) s).harmonyFlag = s.harmonyFlag := by
  unfold leaf
  simp only [h.nb, Bool.false_eq_true, if_false, tok, Tok.ty, Tok.vi, Tok.data, dataI, dataS, SV.toI, SV.toS, List.getD_cons_zero]
  refine ⟨?_, inv_setT _ _ h (inv_t s h), rfl⟩
  simp [abs_setT, Core.sem, abs_t, absT, clampI, Core.clamp]

theorem leaf_rest (F d : Nat) (len : Option LenExpr) (dir : Int) (hl : lenOK len) (s : Song) (h : Inv s) :
    abs (leaf F d (tok .rest dir [.str (lenText len)]) s) = Core.sem (.rest len dir) (abs s) ∧ Inv (leaf F d (tok .rest dir [.str (lenText len)]) s) ∧ (leaf F d (tok .rest dir [.str (lenText len)]) s).harmonyFlag = s.harmonyFlag := by
  unfold leaf
  simp only [h.nb, Bool.false_eq_true, if_false, tok, Tok.ty, Tok.vi, Tok.data, dataI, dataS, SV.toI, SV.toS, List.getD_cons_zero]
  refine ⟨?_, inv_setT _ _ h (inv_t s h), rfl⟩
  simp [abs_setT, Core.sem, abs_t, absT, clampI, Core.clamp, calcLength_lenText _ _ len hl]

theorem leaf_setL (F d : Nat) (len : Option LenExpr) (hl : lenOK len) (s : Song) (h : Inv s) :
    abs (leaf F d (tok .length 0 [.str (lenText len)]) s) = Core.sem (.setL len) (abs s) ∧ Inv (leaf F d (tok .length 0 [.str (lenText len)]) s) ∧ (leaf F d (tok .length 0 [.str (lenText len)]) s).harmonyFlag = s.harmonyFlag := by
  unfold leaf
  simp only [h.nb, Bool.false_eq_true, if_false, tok, Tok.ty, Tok.vi, Tok.data, dataI, dataS, SV.toI, SV.toS, List.getD_cons_zero]
  refine ⟨?_, inv_setT _ _ h (inv_t s h), rfl⟩
  simp [abs_setT, Core.sem, abs_t, absT, clampI, Core.clamp, calcLength_lenText _ _ len hl]

@[simp] theorem setT_octaveOnce (s : Song) (t : Trk) : (s.setT t).octaveOnce = s.octaveOnce := rfl
@[simp] theorem setT_harmonyFlag (s : Song) (t : Trk) : (s.setT t).harmonyFlag = s.harmonyFlag := rfl
@[simp] theorem setT_harmonyTime (s : Song) (t : Trk) : (s.setT t).harmonyTime = s.harmonyTime := rfl
@[simp] theorem setT_harmonyEvents (s : Song) (t : Trk) : (s.setT t).harmonyEvents = s.harmonyEvents := rfl
@[simp] theorem setT_keyFlag (s : Song) (t : Trk) : (s.setT t).keyFlag = s.keyFlag := rfl
@[simp] theorem setT_keyShift (s : Song) (t : Trk) : (s.setT t).keyShift = s.keyShift := rfl
@[simp] theorem setT_vAdd (s : Song) (t : Trk) : (s.setT t).vAdd = s.vAdd := rfl
@[simp] theorem setT_useKeyShift (s : Song) (t : Trk) : (s.setT t).useKeyShift = s.useKeyShift := rfl
@[simp] theorem setT_bad (s : Song) (t : Trk) : (s.setT t).bad = s.bad := rfl
@[simp] theorem setT_cur (s : Song) (t : Trk) : (s.setT t).cur = s.cur := rfl
@[simp] theorem setT_tb (s : Song) (t : Trk) : (s.setT t).tb = s.tb := rfl
@[simp] theorem setT_len (s : Song) (t : Trk) : (s.setT t).tracks.length = s.tracks.length := by simp [Song.setT]

theorem setT_t (s : Song) (t : Trk) (h : s.cur < s.tracks.length) : (s.setT t).t = t := by
  simp [Song.t, Song.setT, h]

theorem setT_setT (s : Song) (t t' : Trk) : (s.setT t).setT t' = s.setT t' := by
  simp [Song.setT]

theorem drawIf_zero (v : Int) (s : Song) : drawIf 0 v s = (v, s) := by simp [drawIf]

/-- well-formedness of a lettered note for the refinement: a note name, a timing that is not the "unset" marker -/
def noteWF (semi : Int) (len : Option LenExpr) (t : Option Int) : Prop := 0 ≤ semi ∧ semi < 12 ∧ lenOK len ∧ t ≠ some intMin

theorem optInt_toI (d : Int) (o : Option Int) : (optInt d o).toI = o.getD d := by
  cases o <;> simp [optInt, SV.toI]

@[simp] theorem int_toI (i : Int) : (SV.int i).toI = i := rfl
@[simp] theorem none_toI : SV.none.toI = 0 := rfl
@[simp] theorem str_toS (x : List Nat) : (SV.str x).toS = x := rfl

theorem St_ext (a b : Core.St) (h1 : a.tb = b.tb) (h2 : a.tr = b.tr) (h3 : a.cur = b.cur) (h4 : a.keyflag = b.keyflag)
    (h5 : a.kshift = b.kshift) (h6 : a.vAdd = b.vAdd) (h7 : a.harm = b.harm) : a = b := by
  cases a; cases b; simp_all

set_option pp.deepTerms false in
set_option pp.deepTerms.threshold 3 in
theorem leaf_note (F d : Nat) (semi acc : Int) (nat : Bool) (len : Option LenExpr) (q v t o : Option Int)
    (hw : noteWF semi len t) (s : Song) (h : Inv s) :
    let tk := tok .note semi [.int acc, .int (if nat then 1 else 0), .str (lenText len), optInt 0 q, optInt (-1) v, optInt intMin t, optInt (-1) o, .none]
    abs (leaf F d tk s) = Core.sem (.note semi acc nat len q v t o) (abs s) ∧ Inv (leaf F d tk s) ∧ (leaf F d tk s).harmonyFlag = s.harmonyFlag := by
  intro tk
  obtain ⟨h0, h12, hl, ht⟩ := hw
  obtain ⟨ho, hv, htr, hq, hties⟩ := inv_t s h
  have hmod : Int.tmod semi 12 = semi := Int.tmod_eq_of_lt h0 h12
  unfold leaf
  simp only [h.nb, Bool.false_eq_true, if_false, tk, tok, Tok.ty]
  unfold execNote
  simp only [Tok.data, Tok.vi, List.length_cons, List.length_nil, dataI, dataS, List.getD_cons_zero, List.getD_cons_succ, int_toI, none_toI, str_toS,
    optInt_toI, ho, hv, htr, hq, drawIf_zero, h.ks, h.oo, hmod, calcLength_lenText _ _ len hl, if_true, ne_eq, not_true_eq_false, if_false,
    Int.lt_irrefl, Nat.lt_irrefl, setT_t _ _ h.cur, setT_setT, setT_octaveOnce]
  unfold emitNote
  simp only [setT_harmonyFlag, setT_t _ _ h.cur, setT_setT, setT_harmonyTime, setT_harmonyEvents, hties]
  cases hf : s.harmonyFlag with
  | true =>
    simp only [if_true]
    refine ⟨?_, ?_, by first | trivial | simp [hf] | rfl⟩
    · have hh : (abs s).harm = some (s.harmonyTime, s.harmonyEvents.map absE) := by simp [abs, hf]
      have hcw : (abs s).WF := by simpa [Core.St.WF, abs] using h.cur
      simp only [Core.sem, hh, Core.noteOn, Core.setT_t _ _ hcw, abs_t]
      apply St_ext
      · simp [abs, Core.St.setT]
      · simp [abs, Core.St.setT, Song.setT, List.map_set, absT]
      · simp [abs, Core.St.setT]
      · simp [abs, Core.St.setT]
      · simp [abs, Core.St.setT]
      · simp [abs, Core.St.setT]
      · simp [abs, hf]
        simp only [absE, noteEvent, gate, Core.gate, Core.tdiv, clampI, Core.clamp, absT]
        have ht' : ∀ x, t = some x → x ≠ intMin := fun x hx hxe => ht (hxe ▸ hx)
        have hnm : semi.toNat % 12 = semi.toNat := Nat.mod_eq_of_lt (by omega)
        simp only [hnm]
        rcases q with _ | x
        · cases nat <;> cases v <;> cases t <;> cases o <;> simp_all
        · by_cases hx : x = 0
          · subst hx; cases nat <;> cases v <;> cases t <;> cases o <;> simp_all
          · cases nat <;> cases v <;> cases t <;> cases o <;> simp_all
    · refine ⟨h.nb, h.ks, h.oo, by simpa using h.cur, by simp [hf], ?_⟩
      intro x hx
      simp only [Song.setT] at hx
      rcases List.mem_or_eq_of_mem_set hx with h1 | h1
      · exact h.tr x h1
      · subst h1; exact ⟨rfl, rfl, rfl, rfl, rfl⟩
  | false =>
    simp only [Bool.false_eq_true, if_false, ge_iff_le]
    have hslur : ¬ (1 : Int) ≤ 0 := by omega
    simp only [hslur, if_false, ne_eq, not_true_eq_false]
    refine ⟨?_, ?_, by first | trivial | simp [hf] | rfl⟩
    · have hh : (abs s).harm = none := by simp [abs, hf]
      have hcw : (abs s).WF := by simpa [Core.St.WF, abs] using h.cur
      simp only [Core.sem, hh, Core.noteOn, Core.setT_t _ _ hcw, abs_t, abs_setT]
      simp only [Core.St.setT, List.set_set]
      apply St_ext
      · simp [abs]
      · simp only [abs, Song.setT, List.map_set]
        refine congrArg (fun x => (List.map absT s.tracks).set s.cur x) ?_
        simp only [absT, List.map_append, List.map_cons, List.map_nil, Core.Trk.mk.injEq, true_and, List.append_cancel_left_eq, List.cons.injEq, and_true]
        simp only [absE, noteEvent, gate, Core.gate, Core.tdiv, clampI, Core.clamp]
        have ht' : ∀ x, t = some x → x ≠ intMin := fun x hx hxe => ht (hxe ▸ hx)
        have hnm : semi.toNat % 12 = semi.toNat := Nat.mod_eq_of_lt (by omega)
        simp only [hnm]
        rcases q with _ | x
        · cases nat <;> cases v <;> cases t <;> cases o <;> simp_all
        · by_cases hx : x = 0
          · subst hx; cases nat <;> cases v <;> cases t <;> cases o <;> simp_all
          · cases nat <;> cases v <;> cases t <;> cases o <;> simp_all
      · simp [abs]
      · simp [abs]
      · simp [abs]
      · simp [abs]
      · simp [abs]
    · exact inv_setT _ _ h ⟨rfl, rfl, rfl, rfl, rfl⟩

@[simp] theorem int_notRef (i : Int) : isVarRef (.int i) = false := rfl
theorem ite_ge_lt (y a b : Int) : (if y ≥ 0 then a else b) = (if y < 0 then b else a) := by
  split <;> split <;> first | rfl | omega
theorem optInt_notRef (d : Int) (o : Option Int) : isVarRef (optInt d o) = false := by cases o <;> rfl

set_option pp.deepTerms false in
set_option pp.deepTerms.threshold 3 in
theorem leaf_noteN (F d : Nat) (no : Int) (len : Option LenExpr) (q v t : Option Int)
    (hl : lenOK len) (ht : t ≠ some intMin) (s : Song) (h : Inv s) :
    let tk := tok .noteN 0 [.int no, .str (lenText len), optInt 0 q, optInt (-1) v, optInt intMin t, .none]
    abs (leaf F d tk s) = Core.sem (.noteN no len q v t) (abs s) ∧ Inv (leaf F d tk s) ∧ (leaf F d tk s).harmonyFlag = s.harmonyFlag := by
  intro tk
  obtain ⟨ho, hv, htr, hq, hties⟩ := inv_t s h
  unfold leaf
  simp only [h.nb, Bool.false_eq_true, if_false, tk, tok, Tok.ty]
  unfold execNoteN
  simp only [Tok.data, Tok.vi, dataI, dataS, List.getD_cons_zero, List.getD_cons_succ, int_toI, none_toI, str_toS, int_notRef, optInt_notRef,
    Bool.or_self, Bool.or_false, Bool.false_eq_true, if_false,
    optInt_toI, ho, hv, htr, hq, drawIf_zero, calcLength_lenText _ _ len hl]
  refine ⟨?_, ?_, rfl⟩
  · have hcw : (abs s).WF := by simpa [Core.St.WF, abs] using h.cur
    simp only [Core.sem, Core.noteOn, Core.setT_t _ _ hcw, abs_t, abs_setT]
    simp only [Core.St.setT, List.set_set]
    apply St_ext
    · simp [abs]
    · simp only [abs, Song.setT, List.map_set]
      refine congrArg (fun x => (List.map absT s.tracks).set s.cur x) ?_
      simp only [absT, List.map_append, List.map_cons, List.map_nil, Core.Trk.mk.injEq, true_and, List.append_cancel_left_eq, List.cons.injEq, and_true]
      simp only [absE, noteEvent, gate, Core.gate, Core.tdiv, clampI, Core.clamp, ite_ge_lt]
      have ht' : ∀ x, t = some x → x ≠ intMin := fun x hx hxe => ht (hxe ▸ hx)
      rcases q with _ | x
      · cases v <;> cases t <;> simp_all
      · by_cases hx : x = 0
        · subst hx; cases v <;> cases t <;> simp_all
        · cases v <;> cases t <;> simp_all
    · simp [abs]
    · simp [abs]
    · simp [abs]
    · simp [abs]
    · simp [abs]
  · exact inv_setT _ _ h ⟨rfl, rfl, rfl, rfl, hties⟩

/-! ### chords: `HarmonyBegin … HarmonyEnd` -/

def chordBegin (s : Core.St) : Core.St := { s with harm := some (s.t.tp, []) }
def chordEnd (len : Option LenExpr) (q v : Option Int) (s1 : Core.St) : Core.St :=
  match s1.harm with
  | none => s1
  | some (ht, evs) =>
    let t1 := s1.t
    let qq := match q with | none => t1.q | some x => if x < 0 then t1.q else x
    let ln := Core.lenOpt s1.tb t1.l len
    { (s1.setT { t1 with ev := t1.ev ++ (evs.reverse.map (Core.chordFix ht ln qq v)), tp := ht + ln }) with harm := none }

theorem sem_chord (body : List Cmd) (len : Option LenExpr) (q v : Option Int) (s : Core.St) :
    Core.sem (.chord body len q v) s = chordEnd len q v (Core.semL body (chordBegin s)) := by
  simp only [Core.sem, chordEnd, chordBegin]
  generalize Core.semL body _ = s1
  rcases hh : s1.harm with _ | ⟨ht, evs⟩
  · rfl
  · simp only []
    cases q <;> rfl

theorem leaf_harmonyBegin (F d : Nat) (s : Song) (h : Inv s) (hf : s.harmonyFlag = false) :
    abs (leaf F d (tok .harmonyBegin 0 []) s) = chordBegin (abs s) ∧ Inv (leaf F d (tok .harmonyBegin 0 []) s) ∧
      (leaf F d (tok .harmonyBegin 0 []) s).harmonyFlag = true := by
  unfold leaf
  simp only [h.nb, Bool.false_eq_true, if_false, tok, Tok.ty]
  refine ⟨?_, ⟨by simpa using h.nb, by simpa using h.ks, by simpa using h.oo, by simpa using h.cur, by simp, by simpa using h.tr⟩, trivial⟩
  have e1 : (abs s).t.tp = s.t.timepos := by rw [abs_t]; rfl
  simp only [chordBegin, e1]
  apply St_ext <;> simp [abs, h.he hf]

def lenSV : Option LenExpr → SV
  | none => .none
  | some L => .str (lenText (some L))
def velSV : Option Int → SV
  | none => .none
  | some x => .int x

theorem lenSV_toS (len : Option LenExpr) : (lenSV len).toS = lenText len := by
  cases len <;> rfl

set_option pp.deepTerms false in
set_option pp.deepTerms.threshold 3 in
theorem leaf_harmonyEnd (F d : Nat) (len : Option LenExpr) (q v : Option Int) (hl : lenOK len) (hv : ∀ x, v = some x → 0 ≤ x)
    (s : Song) (h : Inv s) (hf : s.harmonyFlag = true) :
    let tk := tok .harmonyEnd 0 [lenSV len, optInt (-1) q, velSV v]
    abs (leaf F d tk s) = chordEnd len q v (abs s) ∧ Inv (leaf F d tk s) ∧ (leaf F d tk s).harmonyFlag = false := by
  intro tk
  unfold leaf
  simp only [h.nb, Bool.false_eq_true, if_false, tk, tok, Tok.ty]
  unfold execHarmonyEnd
  simp only [hf, not_true_eq_false, if_false, Tok.data, dataI, dataS, List.getD_cons_zero, List.getD_cons_succ, optInt_toI, lenSV_toS,
    calcLength_lenText _ _ len hl]
  have hh : (abs s).harm = some (s.harmonyTime, s.harmonyEvents.map absE) := by simp [abs, hf]
  refine ⟨?_, ?_, trivial⟩
  · simp only [chordEnd, hh, abs_t]
    apply St_ext
    · simp [abs, Core.St.setT]
    · simp only [abs, Song.setT, Core.St.setT, List.map_set]
      refine congrArg (fun x => (List.map absT s.tracks).set s.cur x) ?_
      simp only [absT, List.map_append, List.map_reverse, List.map_map, Core.Trk.mk.injEq, true_and, List.append_cancel_left_eq, and_true]
      congr 2
      funext e
      simp only [Function.comp, absE, Core.chordFix, Core.tdiv]
      rcases q with _ | x <;> rcases v with _ | y
      all_goals (simp only [Option.getD, velSV])
      all_goals (try (have hy := hv _ rfl))
      all_goals (repeat' split)
      all_goals (simp_all <;> try omega)
    · simp [abs, Core.St.setT]
    · simp [abs, Core.St.setT]
    · simp [abs, Core.St.setT]
    · simp [abs, Core.St.setT]
    · simp [abs]
  · refine ⟨by simpa using h.nb, by simpa using h.ks, by simpa using h.oo, by simpa using h.cur, by simp, ?_⟩
    intro x hx
    simp only [Song.setT] at hx
    rcases List.mem_or_eq_of_mem_set hx with h1 | h1
    · exact h.tr x h1
    · subst h1; exact inv_t s h

/-! ### tracks -/

theorem growTracks_abs (tb : Int) (n : Nat) : ∀ (f : Nat) (ts : List Trk),
    (growTracks tb n f ts).map absT = Core.growTracks tb n f (ts.map absT) := by
  intro f
  induction f with
  | zero => intro ts; rfl
  | succ f ih =>
    intro ts
    simp only [growTracks, Core.growTracks, List.length_map]
    split
    · rw [ih]; simp [absT_new]
    · rfl

theorem growTracks_ok (tb : Int) (n : Nat) : ∀ (f : Nat) (ts : List Trk), (∀ t ∈ ts, TrkOK t) → ∀ t ∈ growTracks tb n f ts, TrkOK t := by
  intro f
  induction f with
  | zero => intro ts h; exact h
  | succ f ih =>
    intro ts h
    simp only [growTracks]
    split
    · apply ih
      intro t ht
      rcases List.mem_append.mp ht with h1 | h1
      · exact h t h1
      · simp at h1; subst h1; exact ⟨rfl, rfl, rfl, rfl, rfl⟩
    · exact h

theorem growTracks_len' (tb : Int) (n : Nat) : ∀ f ts, n + 1 ≤ ts.length + f → n < (growTracks tb n f ts).length := by
  intro f
  induction f with
  | zero => intro ts h; simp [growTracks]; omega
  | succ f ih =>
    intro ts h
    simp only [growTracks]
    split
    · apply ih; simp; omega
    · omega

theorem leaf_track (F d : Nat) (n : Nat) (s : Song) (h : Inv s) :
    let tk := Tok.mk .track 0 0 none [] (constKids n)
    abs (leaf F d tk s) = Core.sem (.track n) (abs s) ∧ Inv (leaf F d tk s) ∧ (leaf F d tk s).harmonyFlag = s.harmonyFlag := by
  intro tk
  unfold leaf
  have hn : ¬ ((n : Int) < 0) := by omega
  simp only [h.nb, Bool.false_eq_true, if_false, tk, Tok.ty, constArg, Tok.children, constKids, hn, Int.toNat_natCast, changeTrack]
  refine ⟨?_, ⟨by simpa using h.nb, by simpa using h.ks, by simpa using h.oo, ?_, by simpa using h.he, ?_⟩, trivial⟩
  · apply St_ext <;> simp [abs, Core.sem, growTracks_abs]
  · show n < (growTracks s.tb n (n + 1) s.tracks).length
    exact growTracks_len' _ _ _ _ (by omega)
  · exact growTracks_ok _ _ _ _ h.tr

theorem leaf_channel (F d : Nat) (n : Int) (s : Song) (h : Inv s) :
    let tk := Tok.mk .channel 0 0 none [] (constKids n)
    abs (leaf F d tk s) = Core.sem (.channel n) (abs s) ∧ Inv (leaf F d tk s) ∧ (leaf F d tk s).harmonyFlag = s.harmonyFlag := by
  intro tk
  unfold leaf
  simp only [h.nb, Bool.false_eq_true, if_false, tk, Tok.ty, constArg, Tok.children, constKids]
  refine ⟨?_, inv_setT _ _ h (inv_t s h), rfl⟩
  simp [abs_setT, Core.sem, abs_t, absT, clampI, Core.clamp]

theorem leaf_trackSync (F d : Nat) (s : Song) (h : Inv s) :
    let tk := tok .trackSync 0 []
    abs (leaf F d tk s) = Core.sem .trackSync (abs s) ∧ Inv (leaf F d tk s) ∧ (leaf F d tk s).harmonyFlag = s.harmonyFlag := by
  intro tk
  unfold leaf
  simp only [h.nb, Bool.false_eq_true, if_false, tk, tok, Tok.ty]
  refine ⟨?_, ⟨by simpa using h.nb, by simpa using h.ks, by simpa using h.oo, by simpa using h.cur, by simpa using h.he, ?_⟩, trivial⟩
  · have e1 : (abs s).t.tp = s.t.timepos := by rw [abs_t]; rfl
    simp only [Core.sem, e1]
    apply St_ext <;> simp [abs, absT, Function.comp_def]
  · intro x hx
    simp only [List.mem_map] at hx
    obtain ⟨y, hy, rfl⟩ := hx
    exact h.tr y hy

end Sakura.Ex2
