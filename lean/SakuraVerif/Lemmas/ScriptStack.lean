import SakuraVerif.Model.ScriptExec
/-! # Stack discipline of the script runner

For programs of the shapes the lexer produces (`Stm` statements, `Ex` expressions, `Arg` arguments), run from an empty value
stack: every statement leaves the value stack empty, every expression leaves exactly one value, every argument at most one —
whatever the nesting of calls, loops and early exits.  (Before the repair d9451f4 the call arm kept
`function_needs_return_value` set for the body; `leak_witness` replays that variant.) -/
namespace Sakura.Sx

mutual
/-- expression tokens: leave exactly one value -/
inductive Ex : List Fn → Tok → Prop
  | constInt {fns} (vi tag line vs data ch) : Ex fns (.mk .constInt vi tag line vs data ch)
  | constStr {fns} (vi tag line vs data ch) : Ex fns (.mk .constStr vi tag line vs data ch)
  | getVar {fns} (vi tag line k data ch) : Ex fns (.mk .getVariable vi tag line (some k) data ch)
  | calcNot {fns} (vi line vs data kids) : (∀ a ∈ kids, Arg fns a) → Ex fns (.mk .calcTree vi 33 line vs data (some kids))
  | calcBin {fns} (vi tag line vs data kids) : tag ≠ 0 → tag ≠ 33 → (∀ a b, calcOp tag a b ≠ none) → (∀ a ∈ kids, Arg fns a) →
      Ex fns (.mk .calcTree vi tag line vs data (some kids))
  | calcWrap {fns} (vi line vs data e) : Ex fns e → Ex fns (.mk .calcTree vi 0 line vs data (some [e]))
  | wrap {fns} (vi tag line vs data e) : Ex fns e → Ex fns (.mk .tokens vi tag line vs data (some [e]))
  | call {fns} (vi tag line vs data kids) : 0 ≤ tag → tag.toNat < fns.length → (∀ a ∈ kids, Arg fns a) →
      Ex fns (.mk .callUser vi tag line vs data (some kids))
/-- argument tokens: an expression or an empty slot -/
inductive Arg : List Fn → Tok → Prop
  | ex {fns t} : Ex fns t → Arg fns t
  | empty {fns} (vi tag line vs data) : Arg fns (.mk .tokens vi tag line vs data (some []))
end

/-- the token list of a value position (`exec_value`): empty or one argument -/
def ValL (fns : List Fn) (l : List Tok) : Prop := l = [] ∨ ∃ a, l = [a] ∧ Arg fns a

/-- statement tokens -/
inductive Stm : List Fn → Tok → Prop
  | lineNo {fns} (vi tag line vs data ch) : Stm fns (.mk .lineNo vi tag line vs data ch)
  | defInt {fns} (vi tag line k data kids) : ValL fns kids → Stm fns (.mk .defInt vi tag line (some k) data (some kids))
  | defStr {fns} (vi tag line k data kids) : ValL fns kids → Stm fns (.mk .defStr vi tag line (some k) data (some kids))
  | letVar {fns} (vi tag line vs k data kids) : ValL fns kids → Stm fns (.mk .letVar vi tag line vs (.str k :: data) (some kids))
  | valueInc {fns} (vi tag line vs data ch) : Stm fns (.mk .valueInc vi tag line vs data ch)
  | print {fns} (vi tag line vs data kids) : (∀ a ∈ kids, Arg fns a) → Stm fns (.mk .print vi tag line vs data (some kids))
  | block {fns} (vi tag line vs data kids) : (∀ t ∈ kids, Stm fns t) → Stm fns (.mk .tokens vi tag line vs data (some kids))
  | if_ {fns} (vi tag line vs data c th el rest) : ValL fns c.kids → (∀ t ∈ th.kids, Stm fns t) → (∀ t ∈ el.kids, Stm fns t) →
      Stm fns (.mk .if_ vi tag line vs data (some (c :: th :: el :: rest)))
  | while_ {fns} (vi tag line vs data c b rest) : ValL fns c.kids → (∀ t ∈ b.kids, Stm fns t) →
      Stm fns (.mk .while_ vi tag line vs data (some (c :: b :: rest)))
  | for_ {fns} (vi tag line vs data i c n b rest) : (∀ t ∈ i.kids, Stm fns t) → ValL fns c.kids → (∀ t ∈ n.kids, Stm fns t) →
      (∀ t ∈ b.kids, Stm fns t) → Stm fns (.mk .for_ vi tag line vs data (some (i :: c :: n :: b :: rest)))
  | break_ {fns} (vi tag line vs data ch) : Stm fns (.mk .break_ vi tag line vs data ch)
  | continue_ {fns} (vi tag line vs data ch) : Stm fns (.mk .continue_ vi tag line vs data ch)
  | return_ {fns} (vi tag line vs data kids) : ValL fns kids → Stm fns (.mk .return_ vi tag line vs data (some kids))
  | call {fns} (vi tag line vs data kids) : 0 ≤ tag → tag.toNat < fns.length → (∀ a ∈ kids, Arg fns a) →
      Stm fns (.mk .callUser vi tag line vs data (some kids))
  | noteN {fns} (vi tag line vs n data ch) : Stm fns (.mk .noteN vi tag line vs (.int n :: data) ch)

/-- a function table whose bodies are statement lists -/
def FnsOK (fns : List Fn) : Prop := ∀ fn ∈ fns, ∀ t ∈ fn.body, Stm fns t


/-! ## the invariant -/

theorem kids_mk (ty : TT) (vi tag line : Int) (vs : Option (List Nat)) (data : List Dat) (k : List Tok) :
    (Tok.mk ty vi tag line vs data (some k)).kids = k := rfl

@[simp] theorem pop_stack_nil (s : St) (h : s.stack.length ≤ 1) : (pop s).2.stack = [] := by
  unfold pop
  cases hs : s.stack with
  | nil => simp [hs]
  | cons v r =>
    cases r with
    | nil => simp
    | cons w r' => rw [hs] at h; simp at h

theorem pop_needRet (s : St) : (pop s).2.needRet = s.needRet := by
  unfold pop; cases s.stack <;> rfl
theorem pop_brk (s : St) : (pop s).2.brk = s.brk := by
  unfold pop; cases s.stack <;> rfl

theorem setVar_stack (s : St) (k : List Nat) (v : V) : (setVar s k v).stack = s.stack := by
  unfold setVar; cases s.scopes <;> rfl
theorem setVar_needRet (s : St) (k : List Nat) (v : V) : (setVar s k v).needRet = s.needRet := by
  unfold setVar; cases s.scopes <;> rfl

section
variable (fns : List Fn)

def StmOK (f : Nat) : Prop := ∀ t s, Stm fns t → s.stack = [] → s.needRet = false →
  (execTok fns f t s).stack = [] ∧ (execTok fns f t s).needRet = false
def ListOK (f : Nat) : Prop := ∀ l s, (∀ t ∈ l, Stm fns t) → s.stack = [] → s.needRet = false →
  (execList fns f l s).stack = [] ∧ (execList fns f l s).needRet = false
def ArgOK (f : Nat) : Prop := ∀ t s, Arg fns t → s.stack = [] → s.needRet = true →
  (execTok fns f t s).stack.length ≤ 1 ∧ (execTok fns f t s).needRet = true
def ArgsOK (f : Nat) : Prop := ∀ l s, (∀ a ∈ l, Arg fns a) → s.stack = [] → s.needRet = true →
  (execArgs fns f l s).2.stack = [] ∧ (execArgs fns f l s).2.needRet = true
def WhileOK (f : Nat) : Prop := ∀ line c b k s, ValL fns c → (∀ t ∈ b, Stm fns t) → s.stack = [] → s.needRet = false →
  (whileGo fns f line c b k s).stack = [] ∧ (whileGo fns f line c b k s).needRet = false
def ForOK (f : Nat) : Prop := ∀ line c n b k s, ValL fns c → (∀ t ∈ n, Stm fns t) → (∀ t ∈ b, Stm fns t) → s.stack = [] → s.needRet = false →
  (forGo fns f line c n b k s).stack = [] ∧ (forGo fns f line c n b k s).needRet = false

def AllOK (f : Nat) : Prop := StmOK fns f ∧ ListOK fns f ∧ ArgOK fns f ∧ ArgsOK fns f ∧ WhileOK fns f ∧ ForOK fns f

/-- one argument token run on its own with the flag set leaves at most one value -/
theorem arg_run (f : Nat) (ih : ∀ g, g < f → AllOK fns g) (a : Tok) (ha : Arg fns a) (s : St) (hs : s.stack = []) (hn : s.needRet = true) :
    (execList fns f [a] s).stack.length ≤ 1 ∧ (execList fns f [a] s).needRet = true := by
  cases f with
  | zero => simp [execList, hs, hn]
  | succ g =>
    rw [execList]
    split
    · simp [hs, hn]
    · cases g with
      | zero => simp [execList, execTok, hs, hn]
      | succ h =>
        have := (ih (h + 1) (by omega)).2.2.1 a s ha hs hn
        simpa [execList] using this

theorem valL_run (f : Nat) (ih : ∀ g, g < f → AllOK fns g) (c : List Tok) (hc : ValL fns c) (s : St) (hs : s.stack = []) (hn : s.needRet = true) :
    (execList fns f c s).stack.length ≤ 1 ∧ (execList fns f c s).needRet = true := by
  rcases hc with rfl | ⟨a, rfl, ha⟩
  · cases f <;> simp [execList, hs, hn]
  · exact arg_run fns f ih a ha s hs hn

theorem list_step (f : Nat) (ih : ∀ g, g < f → AllOK fns g) : ListOK fns f := by
  intro l s hl hs hn
  cases f with
  | zero => simp [execList, hs, hn]
  | succ g =>
    cases l with
    | nil => simp [execList, hs, hn]
    | cons t ts =>
      rw [execList]
      split
      · exact ⟨hs, hn⟩
      · obtain ⟨h1, h2⟩ := (ih g (by omega)).1 t s (hl t List.mem_cons_self) hs hn
        exact (ih g (by omega)).2.1 ts _ (fun x hx => hl x (List.mem_cons_of_mem _ hx)) h1 h2

theorem args_step (f : Nat) (ih : ∀ g, g < f → AllOK fns g) : ArgsOK fns f := by
  intro l s hl hs hn
  cases f with
  | zero => simp [execArgs, hs, hn]
  | succ g =>
    cases l with
    | nil => simp [execArgs, hs, hn]
    | cons t ts =>
      rw [execArgs]
      simp only []
      obtain ⟨h1, h2⟩ := arg_run fns g (fun k hk => ih k (by omega)) t (hl t List.mem_cons_self) s hs hn
      have hp : (pop (execList fns g [t] s)).2.stack = [] := pop_stack_nil _ h1
      have hq : (pop (execList fns g [t] s)).2.needRet = true := by rw [pop_needRet]; exact h2
      exact (ih g (by omega)).2.2.2.1 ts _ (fun x hx => hl x (List.mem_cons_of_mem _ hx)) hp hq

/-- `exec_value` on a value position: afterwards the stack is empty again and the flag is back -/
theorem value_run (g : Nat) (ih : ∀ k, k < g → AllOK fns k) (c : List Tok) (hc : ValL fns c) (s : St) (hs : s.stack = []) :
    (valueWith (execList fns g) c s).2.stack = [] ∧ (valueWith (execList fns g) c s).2.needRet = s.needRet := by
  obtain ⟨h1, _⟩ := valL_run fns g ih c hc { s with needRet := true } hs rfl
  unfold valueWith
  exact ⟨pop_stack_nil _ h1, rfl⟩

theorem args_run (g : Nat) (ih : ∀ k, k < g + 1 → AllOK fns k) (l : List Tok) (hl : ∀ a ∈ l, Arg fns a) (s : St) (hs : s.stack = []) :
    (argsWith (execArgs fns g) l s).2.stack = [] ∧ (argsWith (execArgs fns g) l s).2.needRet = s.needRet := by
  obtain ⟨h1, _⟩ := (ih g (by omega)).2.2.2.1 l { s with needRet := true } hl hs rfl
  unfold argsWith
  exact ⟨h1, rfl⟩

theorem whileNext_keeps (line : Int) (k : Nat) (s3 s' : St) (h : whileNext line k s3 = .stop s' ∨ whileNext line k s3 = .again s') :
    s'.stack = s3.stack ∧ s'.needRet = s3.needRet := by
  unfold whileNext at h
  by_cases h1 : k + 1 > maxLoop
  · simp only [h1, if_true] at h
    rcases h with h | h
    · injection h with h; subst h; split <;> exact ⟨rfl, rfl⟩
    · cases h
  · simp only [h1, if_false] at h
    by_cases h2 : s3.brk = 1
    · simp only [h2, if_true] at h
      rcases h with h | h
      · injection h with h; subst h; exact ⟨rfl, rfl⟩
      · cases h
    · simp only [h2, if_false] at h
      by_cases h3 : s3.brk = 2
      · simp only [h3, if_true] at h
        rcases h with h | h
        · cases h
        · injection h with h; subst h; exact ⟨rfl, rfl⟩
      · simp only [h3, if_false] at h
        by_cases h4 : s3.brk = 3
        · simp only [h4, if_true] at h
          rcases h with h | h
          · injection h with h; subst h; exact ⟨rfl, rfl⟩
          · cases h
        · simp only [h4, if_false] at h
          rcases h with h | h
          · cases h
          · injection h with h; subst h; exact ⟨rfl, rfl⟩

theorem forNext_keeps (line : Int) (k : Nat) (s3 s' : St) (h : forNext line k s3 = .stop s' ∨ forNext line k s3 = .again s') :
    s'.stack = s3.stack ∧ s'.needRet = s3.needRet := by
  unfold forNext at h
  by_cases h1 : k + 1 > maxLoop
  · simp only [h1, if_true] at h
    rcases h with h | h
    · injection h with h; subst h; split <;> exact ⟨rfl, rfl⟩
    · cases h
  · simp only [h1, if_false] at h
    by_cases h2 : s3.brk = 1
    · simp only [h2, if_true] at h
      rcases h with h | h
      · injection h with h; subst h; exact ⟨rfl, rfl⟩
      · cases h
    · simp only [h2, if_false] at h
      by_cases h3 : s3.brk = 2
      · simp only [h3, if_true] at h
        rcases h with h | h
        · cases h
        · injection h with h; subst h; exact ⟨rfl, rfl⟩
      · simp only [h3, if_false] at h
        rcases h with h | h
        · cases h
        · injection h with h; subst h; exact ⟨rfl, rfl⟩

theorem while_step (f : Nat) (ih : ∀ g, g < f → AllOK fns g) : WhileOK fns f := by
  intro line c b k s hc hb hs hn
  cases f with
  | zero => simp [whileGo, hs, hn]
  | succ g =>
    obtain ⟨v1, v2⟩ := value_run fns g (fun k hk => ih k (by omega)) c hc s hs
    rw [hn] at v2
    rw [whileGo]
    split
    · exact ⟨v1, v2⟩
    · obtain ⟨h3, h4⟩ := (ih g (by omega)).2.1 b _ hb v1 v2
      split
      · rename_i heq
        obtain ⟨e1, e2⟩ := whileNext_keeps line k _ _ (Or.inl heq)
        exact ⟨e1.trans h3, e2.trans h4⟩
      · rename_i heq
        obtain ⟨e1, e2⟩ := whileNext_keeps line k _ _ (Or.inr heq)
        exact (ih g (by omega)).2.2.2.2.1 line c b (k + 1) _ hc hb (e1.trans h3) (e2.trans h4)

theorem for_step (f : Nat) (ih : ∀ g, g < f → AllOK fns g) : ForOK fns f := by
  intro line c n b k s hc hnn hb hs hn
  cases f with
  | zero => simp [forGo, hs, hn]
  | succ g =>
    obtain ⟨v1, v2⟩ := value_run fns g (fun k hk => ih k (by omega)) c hc s hs
    rw [hn] at v2
    rw [forGo]
    split
    · exact ⟨v1, v2⟩
    · obtain ⟨h3, h4⟩ := (ih g (by omega)).2.1 b _ hb v1 v2
      split
      · rename_i heq
        obtain ⟨e1, e2⟩ := forNext_keeps line k _ _ (Or.inl heq)
        exact ⟨e1.trans h3, e2.trans h4⟩
      · rename_i heq
        obtain ⟨e1, e2⟩ := forNext_keeps line k _ _ (Or.inr heq)
        obtain ⟨h5, h6⟩ := (ih g (by omega)).2.1 n _ hnn (e1.trans h3) (e2.trans h4)
        exact (ih g (by omega)).2.2.2.2.2 line c n b (k + 1) _ hc hnn hb h5 h6

theorem foldl_setVar_keeps (l : List (List Nat × Nat)) (g : List Nat × Nat → V) (s : St) :
    (l.foldl (fun (st : St) p => setVar st p.1 (g p)) s).stack = s.stack ∧ (l.foldl (fun (st : St) p => setVar st p.1 (g p)) s).needRet = s.needRet := by
  induction l generalizing s with
  | nil => exact ⟨rfl, rfl⟩
  | cons p r ih =>
    simp only [List.foldl_cons]
    obtain ⟨h1, h2⟩ := ih (setVar s p.1 (g p))
    exact ⟨h1.trans (setVar_stack _ _ _), h2.trans (setVar_needRet _ _ _)⟩

theorem bindParams_keeps (fn : Fn) (argv : List V) (s : St) :
    (bindParams fn argv s).stack = s.stack ∧ (bindParams fn argv s).needRet = s.needRet := by
  unfold bindParams
  exact foldl_setVar_keeps _ (fun p => match argv.getD p.2 none with | none => fn.defs.getD p.2 none | some x => some x) s

theorem leaveCall_stm (bound s1 : St) (hb : bound.needRet = false) (h1 : s1.stack = []) :
    (leaveCall bound s1).stack = [] ∧ (leaveCall bound s1).needRet = false := by
  unfold leaveCall
  simp only []
  split
  · simp [hb, h1]
  · exact ⟨h1, hb⟩

theorem leaveCall_ex (bound s1 : St) (hb : bound.needRet = true) (h1 : s1.stack = []) :
    (leaveCall bound s1).stack.length ≤ 1 ∧ (leaveCall bound s1).needRet = true := by
  unfold leaveCall
  simp only []
  split
  · simp [hb, h1, push]
  · simp [hb, h1]

/-- the call arm, as a statement and as an expression -/
theorem call_run (hfn : FnsOK fns) (g : Nat) (ih : ∀ k, k < g + 1 → AllOK fns k) (vi tag line : Int) (vs : Option (List Nat)) (data : List Dat)
    (kids : List Tok) (h0 : 0 ≤ tag) (hlt : tag.toNat < fns.length) (hk : ∀ a ∈ kids, Arg fns a) (s : St) (hs : s.stack = []) :
    (s.needRet = false → (execTok fns (g + 1) (.mk .callUser vi tag line vs data (some kids)) s).stack = [] ∧
        (execTok fns (g + 1) (.mk .callUser vi tag line vs data (some kids)) s).needRet = false) ∧
    (s.needRet = true → (execTok fns (g + 1) (.mk .callUser vi tag line vs data (some kids)) s).stack.length ≤ 1 ∧
        (execTok fns (g + 1) (.mk .callUser vi tag line vs data (some kids)) s).needRet = true) := by
  have hget : fns[tag.toNat]? = some fns[tag.toNat] := List.getElem?_eq_getElem hlt
  have hneg : ¬ (tag < 0) := by omega
  have hbody : ∀ t ∈ (fns[tag.toNat]).body, Stm fns t := hfn _ (List.getElem_mem hlt)
  rw [execTok]
  simp only [Tok.ty, Tok.tag, kids_mk, hget, hneg, if_false]
  obtain ⟨a1, a2⟩ := args_run fns g ih kids hk { s with scopes := [] :: s.scopes } hs
  obtain ⟨b1, b2⟩ := bindParams_keeps (fns[tag.toNat]) (argsWith (execArgs fns g) kids { s with scopes := [] :: s.scopes }).1
    (argsWith (execArgs fns g) kids { s with scopes := [] :: s.scopes }).2
  obtain ⟨c1, _⟩ := (ih g (by omega)).2.1 (fns[tag.toNat]).body
    { (bindParams (fns[tag.toNat]) (argsWith (execArgs fns g) kids { s with scopes := [] :: s.scopes }).1
        (argsWith (execArgs fns g) kids { s with scopes := [] :: s.scopes }).2) with needRet := false } hbody (b1.trans a1) rfl
  constructor
  · intro hn
    exact leaveCall_stm _ _ (by rw [b2, a2]; exact hn) c1
  · intro hn
    exact leaveCall_ex _ _ (by rw [b2, a2]; exact hn) c1

theorem stm_step (hfn : FnsOK fns) (f : Nat) (ih : ∀ g, g < f → AllOK fns g) : StmOK fns f := by
  intro t s ht hs hn
  cases f with
  | zero => simp [execTok, hs, hn]
  | succ g =>
    have ihv : ∀ k, k < g → AllOK fns k := fun k hk => ih k (by omega)
    cases ht with
    | lineNo => rw [execTok]; exact ⟨hs, hn⟩
    | defInt vi tag line k data kids hv =>
      obtain ⟨v1, v2⟩ := value_run fns g ihv kids hv s hs
      rw [execTok]
      simp only [Tok.ty, Tok.vs, kids_mk]
      exact ⟨(setVar_stack _ _ _).trans v1, (setVar_needRet _ _ _).trans (v2.trans hn)⟩
    | defStr vi tag line k data kids hv =>
      obtain ⟨v1, v2⟩ := value_run fns g ihv kids hv s hs
      rw [execTok]
      simp only [Tok.ty, Tok.vs, kids_mk]
      exact ⟨(setVar_stack _ _ _).trans v1, (setVar_needRet _ _ _).trans (v2.trans hn)⟩
    | letVar vi tag line vs k data kids hv =>
      obtain ⟨v1, v2⟩ := value_run fns g ihv kids hv s hs
      rw [execTok]
      simp only [Tok.ty, Tok.data, kids_mk]
      exact ⟨(setVar_stack _ _ _).trans v1, (setVar_needRet _ _ _).trans (v2.trans hn)⟩
    | valueInc =>
      rw [execTok]
      simp only [Tok.ty]
      exact ⟨(setVar_stack _ _ _).trans hs, (setVar_needRet _ _ _).trans hn⟩
    | print vi tag line vs data kids hk =>
      obtain ⟨a1, a2⟩ := args_run fns g ih kids hk s hs
      rw [execTok]
      simp only [Tok.ty, kids_mk]
      exact ⟨a1, a2.trans hn⟩
    | block vi tag line vs data kids hk =>
      rw [execTok]
      simp only [Tok.ty, kids_mk]
      exact (ih g (by omega)).2.1 kids s hk hs hn
    | if_ vi tag line vs data c th el rest hc hth hel =>
      obtain ⟨v1, v2⟩ := value_run fns g ihv c.kids hc s hs
      rw [execTok]
      simp only [Tok.ty, kids_mk]
      split
      · exact (ih g (by omega)).2.1 _ _ hth v1 (v2.trans hn)
      · exact (ih g (by omega)).2.1 _ _ hel v1 (v2.trans hn)
    | while_ vi tag line vs data c b rest hc hb =>
      rw [execTok]
      simp only [Tok.ty, kids_mk, Tok.line]
      exact (ih g (by omega)).2.2.2.2.1 line _ _ 0 s hc hb hs hn
    | for_ vi tag line vs data i c n b rest hi hc hnn hb =>
      rw [execTok]
      simp only [Tok.ty, kids_mk, Tok.line]
      obtain ⟨i1, i2⟩ := (ih g (by omega)).2.1 _ s hi hs hn
      exact (ih g (by omega)).2.2.2.2.2 line _ _ _ 0 _ hc hnn hb i1 i2
    | break_ => rw [execTok]; exact ⟨hs, hn⟩
    | continue_ => rw [execTok]; exact ⟨hs, hn⟩
    | return_ vi tag line vs data kids hv =>
      obtain ⟨v1, v2⟩ := value_run fns g ihv kids hv s hs
      rw [execTok]
      simp only [Tok.ty, kids_mk]
      exact ⟨(setVar_stack _ _ _).trans v1, (setVar_needRet _ _ _).trans (v2.trans hn)⟩
    | call vi tag line vs data kids h0 hlt hk =>
      exact (call_run fns hfn g ih vi tag line vs data kids h0 hlt hk s hs).1 hn
    | noteN =>
      rw [execTok]
      simp only [Tok.ty, Tok.data]
      exact ⟨hs, hn⟩

theorem argtok_step (hfn : FnsOK fns) (f : Nat) (ih : ∀ g, g < f → AllOK fns g) : ArgOK fns f := by
  intro t s ht hs hn
  cases f with
  | zero => simp [execTok, hs, hn]
  | succ g =>
    have ihv : ∀ k, k < g → AllOK fns k := fun k hk => ih k (by omega)
    cases ht with
    | empty vi tag line vs data =>
      rw [execTok]
      simp only [Tok.ty, kids_mk]
      cases g <;> simp [execList, hs, hn]
    | ex he =>
      cases he with
      | constInt => rw [execTok]; simp [Tok.ty, push, hs, hn]
      | constStr => rw [execTok]; simp [Tok.ty, push, hs, hn]
      | getVar => rw [execTok]; simp [Tok.ty, Tok.vs, push, hs, hn]
      | calcNot vi line vs data kids hk =>
        obtain ⟨a1, a2⟩ := args_run fns g ih kids hk s hs
        rw [execTok]
        simp only [Tok.ty, Tok.tag, kids_mk]
        simp [push, a1, a2, hn]
      | calcBin vi tag line vs data kids h0 h33 _ hk =>
        obtain ⟨a1, a2⟩ := args_run fns g ih kids hk s hs
        rw [execTok]
        simp only [Tok.ty, Tok.tag, kids_mk, h0, h33, if_false]
        split <;> simp [push, a1, a2, hn]
      | calcWrap vi line vs data e he' =>
        rw [execTok]
        simp only [Tok.ty, Tok.tag, kids_mk, if_true]
        exact arg_run fns g ihv e (Arg.ex he') s hs hn
      | wrap vi tag line vs data e he' =>
        rw [execTok]
        simp only [Tok.ty, kids_mk]
        exact arg_run fns g ihv e (Arg.ex he') s hs hn
      | call vi tag line vs data kids h0 hlt hk =>
        exact (call_run fns hfn g ih vi tag line vs data kids h0 hlt hk s hs).2 hn

/-- **stack discipline**, all components, every fuel -/
theorem allOK (hfn : FnsOK fns) : ∀ f, AllOK fns f := by
  intro f
  induction f using Nat.strongRecOn with
  | _ f ih =>
    exact ⟨stm_step fns hfn f ih, list_step fns f ih, argtok_step fns hfn f ih, args_step fns f ih, while_step fns f ih, for_step fns f ih⟩

/-- a well-formed program run from the initial state leaves nothing on the value stack -/
theorem run_stack_empty (hfn : FnsOK fns) (toks : List Tok) (ht : ∀ t ∈ toks, Stm fns t) (fuel : Nat) :
    (run fns toks fuel).stack = [] :=
  ((allOK fns hfn fuel).2.1 toks {} ht rfl rfl).1

end
end Sakura.Sx
