import SakuraVerif.Lemmas.LexPrint
/-! # print → lex, second part: fuel-stable form, chords, `Sub`, tuplets

`Stab tb R ln harm K b` says that lexing the text `R` gives `K` for every fuel ≥ `b`.  Stated this way the reader lemmas
compose through the nested `lex` calls of `Sub{…}` and `{…}L` (whose inner call receives whatever fuel is left). -/
namespace Sakura.Lp
open Sakura Sakura.Lx
open Sakura.Core (Cmd)

/-- lexing `R` (line `ln`, chord flag `harm`) yields `K` for every fuel from `b` on -/
def Stab (tb : Int) (R : List Nat) (ln : Int) (harm : Bool) (K : Option Out) (b : Nat) : Prop :=
  ∀ F, b ≤ F → lexLoop tb F R ln harm = K

theorem Stab.nil (tb : Int) (ln : Int) (harm : Bool) : Stab tb [] ln harm (some ⟨[], []⟩) 1 := by
  intro F hF
  obtain ⟨f, rfl⟩ : ∃ f, F = f + 1 := ⟨F - 1, by omega⟩
  simp [lexLoop]

theorem Stab.mono {tb R ln harm K b} (h : Stab tb R ln harm K b) (b' : Nat) (hb : b ≤ b') : Stab tb R ln harm K b' :=
  fun F hF => h F (by omega)

/-- one iteration of the main loop in front of a stable text -/
theorem Stab.step {tb : Int} {text R : List Nat} {ln ln' : Int} {harm harm' : Bool} {K : Option Out} {b : Nat} (t : Tok)
    (hstep : ∀ f, lexLoop tb (f + 1) text ln harm = pre t (lexLoop tb f R ln' harm'))
    (h : Stab tb R ln' harm' K b) : Stab tb text ln harm (pre t K) (b + 1) := by
  intro F hF
  obtain ⟨f, rfl⟩ : ∃ f, F = f + 1 := ⟨F - 1, by omega⟩
  rw [hstep f, h f (by omega)]

/-- a blank in front of a stable text -/
theorem Stab.blank {tb : Int} {R : List Nat} {ln : Int} {harm : Bool} {K : Option Out} {b : Nat}
    (h : Stab tb R ln harm K b) : Stab tb (32 :: R) ln harm K (b + 1) := by
  intro F hF
  obtain ⟨f, rfl⟩ : ∃ f, F = f + 1 := ⟨F - 1, by omega⟩
  rw [lex_blank, h f (by omega)]


/-! ## balanced texts and `get_token_nest` -/

/-- a character that is neither a brace nor a line break -/
def Plain (c : Nat) : Prop := c ≠ 123 ∧ c ≠ 125 ∧ c ≠ 10

/-- texts whose braces are balanced and that contain no line break -/
inductive Bal : List Nat → Prop
  | nil : Bal []
  | plain (c : Nat) (T : List Nat) : Plain c → Bal T → Bal (c :: T)
  | group (A B : List Nat) : Bal A → Bal B → Bal (123 :: (A ++ 125 :: B))

theorem Bal.append {A B : List Nat} (hA : Bal A) (hB : Bal B) : Bal (A ++ B) := by
  induction hA with
  | nil => simpa using hB
  | plain c T hc _ ih => exact Bal.plain c _ hc ih
  | group A1 B1 _ _ ihA ihB =>
    have : 123 :: (A1 ++ 125 :: B1) ++ B = 123 :: (A1 ++ 125 :: (B1 ++ B)) := by simp
    rw [this]
    exact Bal.group A1 (B1 ++ B) ‹_› ihB

theorem Bal.of_plain (L : List Nat) (h : ∀ c ∈ L, Plain c) : Bal L := by
  induction L with
  | nil => exact Bal.nil
  | cons c cs ih => exact Bal.plain c cs (h c List.mem_cons_self) (ih (fun x hx => h x (List.mem_cons_of_mem _ hx)))

/-- a balanced text passes through the nesting scan at any positive level -/
theorem nestGo_bal {T : List Nat} (hT : Bal T) : ∀ (level : Nat) (X : List Nat) (ln : Int), 1 ≤ level →
    nestGo 123 125 level (T ++ X) ln = (T ++ (nestGo 123 125 level X ln).1, (nestGo 123 125 level X ln).2) := by
  induction hT with
  | nil => intro level X ln _; simp
  | plain c T hc _ ih =>
    intro level X ln hl
    obtain ⟨h1, h2, h3⟩ := hc
    rw [List.cons_append, nestGo]
    simp only [h1, h2, h3, if_false]
    rw [ih level X ln hl]
    rfl
  | group A B _ _ ihA ihB =>
    intro level X ln hl
    have e : 123 :: (A ++ 125 :: B) ++ X = 123 :: (A ++ (125 :: (B ++ X))) := by simp
    rw [e, nestGo]
    simp only [if_true, show ¬ ((123 : Nat) = 10) by decide, if_false]
    rw [ihA (level + 1) (125 :: (B ++ X)) ln (by omega)]
    simp only []
    rw [nestGo]
    simp only [show ¬ ((125 : Nat) = 123) by decide, show ¬ ((125 : Nat) = 10) by decide, if_false, if_true]
    have hne : ¬ (level = 0) := by omega
    simp only [Nat.add_sub_cancel, hne, if_false]
    rw [ihB level X ln hl]
    simp

/-- `get_token_nest('{', '}')` on `{` balanced-text `}` rest -/
theorem getTokenNest_bal (T : List Nat) (hT : Bal T) (R : List Nat) (ln : Int) :
    getTokenNest 123 125 (123 :: (T ++ 125 :: R)) ln = (T, ⟨R, ln⟩) := by
  unfold getTokenNest
  simp only [if_true]
  rw [nestGo_bal hT 1 (125 :: R) ln (Nat.le_refl _), nestGo]
  simp


/-! ## the end of a chord -/

/-- the text after the closing `'`: optional length, `,gate`, `,velocity`, then the blank -/
def chordTail (len : Option Core.LenExpr) (q v : Option Int) (R : List Nat) : List Nat :=
  Ex2.lenText len ++ (match q, v with
    | none, none => 32 :: R
    | some x, none => 44 :: (printInt x ++ 32 :: R)
    | q, some y => 44 :: (optText q ++ 44 :: (printInt y ++ 32 :: R)))

/-- where the cursor stands after the chord end: without arguments the blank is consumed by the reader -/
def afterChord (q v : Option Int) (R : List Nat) : List Nat :=
  match q, v with
  | none, none => R
  | _, _ => 32 :: R

/-- a chord length must be recognisable as one: it starts with a digit or `^` -/
def ChordLenOK (len : Option Core.LenExpr) : Prop :=
  match len with
  | none => True
  | some L => ∃ c r, Ex2.lenText (some L) = c :: r ∧ (isDigit c = true ∨ c = 94)

theorem lenText_none : Ex2.lenText none = [] := rfl

/-- the arguments after the length -/
def argTail (q v : Option Int) (R : List Nat) : List Nat :=
  match q, v with
  | none, none => 32 :: R
  | some x, none => 44 :: (printInt x ++ 32 :: R)
  | q, some y => 44 :: (optText q ++ 44 :: (printInt y ++ 32 :: R))

theorem chordTail_eq (len : Option Core.LenExpr) (q v : Option Int) (R : List Nat) :
    chordTail len q v R = Ex2.lenText len ++ argTail q v R := by
  unfold chordTail argTail; cases q <;> cases v <;> rfl

theorem harmLen_none (T : List Nat) (ln : Int) (h : ∀ c r, T = c :: r → isDigit c = false ∧ c ≠ 94) :
    harmLen ⟨T, ln⟩ = (.none, ⟨T, ln⟩) := by
  unfold harmLen
  cases T with
  | nil => simp
  | cons c r => obtain ⟨h1, h2⟩ := h c r rfl; simp [peek, h1, h2]

theorem harmLen_some (len : Option Core.LenExpr) (X : List Nat) (ln : Int) (L : Core.LenExpr) (hlen : len = some L)
    (hc : ChordLenOK len) :
    harmLen ⟨Ex2.lenText len ++ X, ln⟩ = (.str ((Cur.mk (Ex2.lenText len ++ X) ln).noteLength).1, ((Cur.mk (Ex2.lenText len ++ X) ln).noteLength).2) := by
  subst hlen
  obtain ⟨c, r, hcr, hcd⟩ := hc
  unfold harmLen
  have hp : (isDigit (peek (Ex2.lenText (some L) ++ X)) = true ∨ peek (Ex2.lenText (some L) ++ X) = 94) ∧ Ex2.lenText (some L) ++ X ≠ [] := by
    rw [hcr]; simpa [peek] using hcd
  rw [if_pos hp]

theorem harmArgs_next (lnv : SV) (R : List Nat) (ln : Int) (hR : Next R) :
    harmArgs lnv ⟨R, ln⟩ = (tok .harmonyEnd 0 [lnv, .int (-1), .none], ⟨R, ln⟩) := by
  unfold harmArgs
  rcases hR with rfl | ⟨c, r, rfl, hs⟩
  · rfl
  · simp only []
    split
    · rename_i heq; simp at heq; exact absurd heq.1 hs.2.2.2.2.2.2.2.2.1
    · rfl

theorem harmArgs_q (lnv : SV) (x : Int) (R : List Nat) (ln : Int) :
    harmArgs lnv ⟨44 :: (printInt x ++ 32 :: R), ln⟩ = (tok .harmonyEnd 0 [lnv, .int x, .none], ⟨32 :: R, ln⟩) := by
  unfold harmArgs
  simp only []
  rw [getInt_printInt (-1) x (32 :: R) (numEnd_blank R)]
  rfl

theorem harmArgs_qv (lnv : SV) (q : Option Int) (y : Int) (R : List Nat) (ln : Int) :
    harmArgs lnv ⟨44 :: (optText q ++ 44 :: (printInt y ++ 32 :: R)), ln⟩ =
      (tok .harmonyEnd 0 [lnv, Ex2.optInt (-1) q, .int y], ⟨32 :: R, ln⟩) := by
  unfold harmArgs
  simp only []
  have hq : getInt (-1) (optText q ++ 44 :: (printInt y ++ 32 :: R)) = (q.getD (-1), 44 :: (printInt y ++ 32 :: R)) := by
    cases q with
    | none => exact getInt_none (-1) _ (by intro c r h; cases h; decide)
    | some x => exact getInt_printInt (-1) x _ (numEnd_comma _)
  rw [hq]
  simp only []
  rw [getInt_printInt (-1) y (32 :: R) (numEnd_blank R)]
  cases q <;> rfl

theorem readHarmonyEnd_print (len : Option Core.LenExpr) (q v : Option Int) (R : List Nat) (ln : Int)
    (hl : Ex2.lenOK len) (hc : ChordLenOK len) (hR : Next R) :
    readHarmonyEnd ⟨chordTail len q v R, ln⟩ =
      (tok .harmonyEnd 0 [Ex2.lenSV len, Ex2.optInt (-1) q, Ex2.velSV v], ⟨afterChord q v R, ln⟩) := by
  have hL := lenText_lenchars len hl
  have hstop44 : Stop 44 := by unfold Stop; decide
  have hnb44 : (44 : Nat) ≠ 32 ∧ (44 : Nat) ≠ 9 ∧ (44 : Nat) ≠ 47 := by decide
  unfold readHarmonyEnd
  rw [chordTail_eq]
  cases len with
  | none =>
    simp only [lenText_none, List.nil_append]
    cases q with
    | none =>
      cases v with
      | none =>
        simp only [argTail]
        rw [harmLen_none _ ln (by intro c r h; cases h; decide)]
        simp only []
        rcases hR with rfl | ⟨c, r, rfl, hs⟩
        · rw [skipSpace_blank_nil, harmArgs_next _ [] ln (Or.inl rfl)]; rfl
        · rw [skipSpace_blank c r ln hs.nonblank, harmArgs_next _ _ ln (Or.inr ⟨c, r, rfl, hs⟩)]; rfl
      | some y =>
        simp only [argTail]
        rw [harmLen_none _ ln (by intro c r h; cases h; decide)]
        simp only []
        rw [skipSpace_nonblank 44 _ ln hnb44, harmArgs_qv]; rfl
    | some x =>
      cases v with
      | none =>
        simp only [argTail]
        rw [harmLen_none _ ln (by intro c r h; cases h; decide)]
        simp only []
        rw [skipSpace_nonblank 44 _ ln hnb44, harmArgs_q]; rfl
      | some y =>
        simp only [argTail]
        rw [harmLen_none _ ln (by intro c r h; cases h; decide)]
        simp only []
        rw [skipSpace_nonblank 44 _ ln hnb44, harmArgs_qv]; rfl
  | some L =>
    rw [harmLen_some (some L) _ ln L rfl hc]
    cases q with
    | none =>
      cases v with
      | none =>
        simp only [argTail]
        rw [noteLength_then_blank _ hL R ln (next_stop_or_nil hR)]
        simp only []
        rw [next_skipSpace R ln hR, harmArgs_next _ R ln hR]; rfl
      | some y =>
        simp only [argTail]
        rw [noteLength_then_stop _ hL 44 _ ln hstop44]
        simp only []
        rw [skipSpace_nonblank 44 _ ln hnb44, harmArgs_qv]; rfl
    | some x =>
      cases v with
      | none =>
        simp only [argTail]
        rw [noteLength_then_stop _ hL 44 _ ln hstop44]
        simp only []
        rw [skipSpace_nonblank 44 _ ln hnb44, harmArgs_q]; rfl
      | some y =>
        simp only [argTail]
        rw [noteLength_then_stop _ hL 44 _ ln hstop44]
        simp only []
        rw [skipSpace_nonblank 44 _ ln hnb44, harmArgs_qv]; rfl

/-! ## the extended printer: chords, `Sub`, tuplets -/

mutual
/-- the text of a command followed by `R`; the commands of `printK` unchanged, plus chords, `Sub{…}` and tuplets `{…}L` -/
def printK2 : Cmd → List Nat → List Nat
  | .loop n b hb k, R =>
    91 :: (decDigits n ++ 32 :: printKL2 b (if hb then 58 :: 32 :: printKL2 k (93 :: 32 :: R) else 93 :: 32 :: R))
  | .sub b, R => 83 :: 117 :: 98 :: 123 :: printKL2 b (125 :: 32 :: R)
  | .div b len, R => 123 :: printKL2 b (125 :: (Ex2.lenText len ++ 32 :: R))
  | .chord b len q v, R => 39 :: printKL2 b (39 :: chordTail len q v R)
  | c, R => printK c R
def printKL2 : List Cmd → List Nat → List Nat
  | [], R => R
  | c :: cs, R => printK2 c (printKL2 cs R)
end

theorem optText_plain (o : Option Int) : ∀ c ∈ optText o, Plain c := by
  intro c hc
  cases o with
  | none => simp [optText] at hc
  | some x =>
    simp only [optText, printInt] at hc
    split at hc
    · rcases List.mem_cons.mp hc with rfl | h
      · unfold Plain; decide
      · have := digit_facts c (decDigits_digit _ c h); unfold Plain; omega
    · have := digit_facts c (decDigits_digit _ c hc); unfold Plain; omega

theorem lenchar_plain (c : Nat) (h : isLenChar c = true) : Plain c := by
  unfold Plain
  simp only [isLenChar, isDigit, Bool.or_eq_true, Bool.and_eq_true, decide_eq_true_eq] at h
  omega

theorem printInt_plain (x : Int) : ∀ c ∈ printInt x, Plain c := optText_plain (some x)


theorem slots_append (q v t o : Option Int) (R : List Nat) : slots q v t o R = slots q v t o [] ++ R := by
  simp [slots]

theorem chordTail_append (len : Option Core.LenExpr) (q v : Option Int) (R : List Nat) : chordTail len q v R = chordTail len q v [] ++ R := by
  unfold chordTail; cases q <;> cases v <;> simp

theorem printK_append (c : Cmd) (R : List Nat) (hl : ∀ n b hb k, c ≠ .loop n b hb k) : printK c R = printK c [] ++ R := by
  cases c
  case loop n b hb k => exact absurd rfl (hl n b hb k)
  case note => simp only [printK]; rw [slots_append]; simp
  case octRel d => simp only [printK]; split <;> simp
  case velRel d => simp only [printK]; split <;> simp
  all_goals simp [printK]

mutual
theorem printK2_append (c : Cmd) (R : List Nat) : printK2 c R = printK2 c [] ++ R := by
  cases c
  case loop n b hb k =>
    simp only [printK2]
    cases hb with
    | true =>
      simp only [if_true]
      rw [printKL2_append b (58 :: 32 :: printKL2 k (93 :: 32 :: R)), printKL2_append k (93 :: 32 :: R),
        printKL2_append b (58 :: 32 :: printKL2 k [93, 32]), printKL2_append k [93, 32]]
      simp
    | false =>
      simp only [Bool.false_eq_true, if_false]
      rw [printKL2_append b (93 :: 32 :: R), printKL2_append b [93, 32]]
      simp
  case sub b =>
    simp only [printK2]
    rw [printKL2_append b (125 :: 32 :: R), printKL2_append b [125, 32]]
    simp
  case div b len =>
    simp only [printK2]
    rw [printKL2_append b (125 :: (Ex2.lenText len ++ 32 :: R)), printKL2_append b (125 :: (Ex2.lenText len ++ [32]))]
    simp
  case chord b len q v =>
    simp only [printK2]
    rw [printKL2_append b (39 :: chordTail len q v R), printKL2_append b (39 :: chordTail len q v []), chordTail_append]
    simp
  all_goals (simp only [printK2]; exact printK_append _ R (by intro n b hb k h; cases h))
theorem printKL2_append (cs : List Cmd) (R : List Nat) : printKL2 cs R = printKL2 cs [] ++ R := by
  cases cs with
  | nil => simp [printKL2]
  | cons c cs =>
    simp only [printKL2]
    rw [printK2_append c (printKL2 cs R), printKL2_append cs R, printK2_append c (printKL2 cs [])]
    simp
end


-- the fragment of the extended printer
mutual
def pwf2 : Cmd → Prop
  | .loop _ b hb k => pwfL2 b ∧ pwfL2 k ∧ (hb = true ∨ k = [])
  | .sub b => pwfL2 b
  | .div b len => pwfL2 b ∧ Ex2.lenOK len
  | .chord b len _ _ => pwfL2 b ∧ b.all Ex2.simple = true ∧ Ex2.lenOK len ∧ ChordLenOK len
  | .note semi acc nat len q v t o => pwf (.note semi acc nat len q v t o)
  | .rest len dir => pwf (.rest len dir)
  | .setL len => pwf (.setL len)
  | .setO n => pwf (.setO n)
  | .octRel d => pwf (.octRel d)
  | .setV n => pwf (.setV n)
  | .velRel d => pwf (.velRel d)
  | .setQ n => pwf (.setQ n)
  | .setT n => pwf (.setT n)
  | _ => False
def pwfL2 : List Cmd → Prop
  | [] => True
  | c :: cs => pwf2 c ∧ pwfL2 cs
end

theorem plain_of_list (L : List Nat) (allowed : List Nat) (hall : ∀ c ∈ allowed, Plain c) (h : ∀ c ∈ L, c ∈ allowed) : ∀ c ∈ L, Plain c :=
  fun c hc => hall c (h c hc)

theorem accText_plain (acc : Int) (nat : Bool) : ∀ c ∈ accText acc nat, Plain c := by
  intro c hc
  simp only [accText, List.mem_append] at hc
  rcases hc with h | h
  · split at h <;> (rw [List.mem_replicate] at h; rw [h.2]; unfold Plain; decide)
  · split at h <;> simp at h; subst h; unfold Plain; decide

theorem lenText_plain (len : Option Core.LenExpr) (h : Ex2.lenOK len) : ∀ c ∈ Ex2.lenText len, Plain c :=
  fun c hc => lenchar_plain c (lenText_lenchars len h c hc)

theorem slots_plain (q v t o : Option Int) : ∀ c ∈ slots q v t o [], Plain c := by
  intro c hc
  simp only [slots, List.mem_cons, List.mem_append, List.not_mem_nil, or_false] at hc
  have p44 : Plain 44 := by unfold Plain; decide
  have p32 : Plain 32 := by unfold Plain; decide
  rcases hc with rfl | h | rfl | h | rfl | h | rfl | h | rfl
  · exact p44
  · exact optText_plain q c h
  · exact p44
  · exact optText_plain v c h
  · exact p44
  · exact optText_plain t c h
  · exact p44
  · exact optText_plain o c h
  · exact p32


theorem letterOf_plain (semi : Int) : Plain (letterOf semi) := by
  rcases letterOf_cases semi with h | h | h | h | h | h | h <;> (rw [h]; unfold Plain; decide)

/-- the printed text of a simple (non-loop) command of the old fragment contains no brace and no line break -/
theorem printK_plain (c : Cmd) (hw : pwf c) (hl : ∀ n b hb k, c ≠ .loop n b hb k) : ∀ x ∈ printK c [], Plain x := by
  have p32 : Plain 32 := by unfold Plain; decide
  cases c
  case loop n b hb k => exact absurd rfl (hl n b hb k)
  case note semi acc nat len q v t o =>
    simp only [pwf] at hw
    intro x hx
    simp only [printK, List.mem_cons, List.mem_append] at hx
    rcases hx with rfl | h | h | h
    · exact letterOf_plain semi
    · exact accText_plain acc nat x h
    · exact lenText_plain len hw.2.1 x h
    · exact slots_plain q v t o x h
  case rest len dir =>
    simp only [pwf] at hw
    intro x hx
    simp only [printK, restSign, List.mem_cons, List.mem_append, List.not_mem_nil, or_false] at hx
    rcases hx with rfl | h | h | rfl
    · unfold Plain; decide
    · split at h <;> simp at h; subst h; unfold Plain; decide
    · exact lenText_plain len hw.2.1 x h
    · exact p32
  case setL len =>
    simp only [pwf] at hw
    intro x hx
    simp only [printK, List.mem_cons, List.mem_append, List.not_mem_nil, or_false] at hx
    rcases hx with rfl | h | rfl
    · unfold Plain; decide
    · exact lenText_plain len hw.1 x h
    · exact p32
  case setO n =>
    intro x hx
    simp only [printK, List.mem_cons, List.mem_append, List.not_mem_nil, or_false] at hx
    rcases hx with rfl | h | rfl
    · unfold Plain; decide
    · exact printInt_plain n x h
    · exact p32
  case setV n =>
    intro x hx
    simp only [printK, List.mem_cons, List.mem_append, List.not_mem_nil, or_false] at hx
    rcases hx with rfl | h | rfl
    · unfold Plain; decide
    · exact printInt_plain n x h
    · exact p32
  case setQ n =>
    intro x hx
    simp only [printK, List.mem_cons, List.mem_append, List.not_mem_nil, or_false] at hx
    rcases hx with rfl | h | rfl
    · unfold Plain; decide
    · exact printInt_plain n x h
    · exact p32
  case setT n =>
    intro x hx
    simp only [printK, List.mem_cons, List.mem_append, List.not_mem_nil, or_false] at hx
    rcases hx with rfl | h | rfl
    · unfold Plain; decide
    · exact printInt_plain n x h
    · exact p32
  case octRel d =>
    intro x hx
    simp only [printK, List.mem_cons, List.not_mem_nil, or_false] at hx
    rcases hx with rfl | rfl
    · split <;> (unfold Plain; decide)
    · exact p32
  case velRel d =>
    intro x hx
    simp only [printK, List.mem_cons, List.not_mem_nil, or_false] at hx
    rcases hx with rfl | rfl
    · split <;> (unfold Plain; decide)
    · exact p32
  all_goals exact absurd hw (by simp [pwf])


theorem Bal.cons_plain {T : List Nat} (c : Nat) (hc : Plain c) (h : Bal T) : Bal (c :: T) := Bal.plain c T hc h

theorem Bal.plain_append (L : List Nat) (hL : ∀ c ∈ L, Plain c) {T : List Nat} (h : Bal T) : Bal (L ++ T) :=
  (Bal.of_plain L hL).append h

theorem chordTail_plain (len : Option Core.LenExpr) (q v : Option Int) (hl : Ex2.lenOK len) : ∀ c ∈ chordTail len q v [], Plain c := by
  have p44 : Plain 44 := by unfold Plain; decide
  have p32 : Plain 32 := by unfold Plain; decide
  intro c hc
  rw [chordTail_eq] at hc
  rcases List.mem_append.mp hc with h | h
  · exact lenText_plain len hl c h
  · unfold argTail at h
    cases q <;> cases v <;> simp only [List.mem_cons, List.mem_append, List.not_mem_nil, or_false] at h
    · subst h; exact p32
    · rcases h with rfl | h | rfl | h | rfl
      · exact p44
      · exact optText_plain none c h
      · exact p44
      · exact printInt_plain _ c h
      · exact p32
    · rcases h with rfl | h | rfl
      · exact p44
      · exact printInt_plain _ c h
      · exact p32
    · rcases h with rfl | h | rfl | h | rfl
      · exact p44
      · exact optText_plain (some _) c h
      · exact p44
      · exact printInt_plain _ c h
      · exact p32

mutual
theorem printK2_bal (c : Cmd) (hw : pwf2 c) : Bal (printK2 c []) := by
  have p32 : Plain 32 := by unfold Plain; decide
  cases c
  case loop n b hb k =>
    simp only [pwf2] at hw
    obtain ⟨hb1, hk1, _⟩ := hw
    simp only [printK2]
    refine Bal.cons_plain 91 (by unfold Plain; decide) (Bal.plain_append _ (fun c hc => by
      have := digit_facts c (decDigits_digit n c hc); unfold Plain; omega) (Bal.cons_plain 32 p32 ?_))
    have hend : Bal [93, 32] := Bal.of_plain _ (by intro c hc; simp at hc; rcases hc with rfl | rfl <;> (unfold Plain; decide))
    cases hb with
    | true =>
      simp only [if_true]
      rw [printKL2_append b, printKL2_append k]
      exact (printKL2_bal b hb1).append (Bal.cons_plain 58 (by unfold Plain; decide) (Bal.cons_plain 32 p32 ((printKL2_bal k hk1).append hend)))
    | false =>
      simp only [Bool.false_eq_true, if_false]
      rw [printKL2_append b]
      exact (printKL2_bal b hb1).append hend
  case sub b =>
    simp only [pwf2] at hw
    simp only [printK2]
    rw [printKL2_append b]
    refine Bal.cons_plain 83 (by unfold Plain; decide) (Bal.cons_plain 117 (by unfold Plain; decide) (Bal.cons_plain 98 (by unfold Plain; decide) ?_))
    exact Bal.group _ _ (printKL2_bal b hw) (Bal.of_plain [32] (by intro c hc; simp at hc; subst hc; exact p32))
  case div b len =>
    simp only [pwf2] at hw
    simp only [printK2]
    rw [printKL2_append b]
    exact Bal.group _ _ (printKL2_bal b hw.1) (Bal.plain_append _ (lenText_plain len hw.2) (Bal.of_plain [32] (by intro c hc; simp at hc; subst hc; exact p32)))
  case chord b len q v =>
    simp only [pwf2] at hw
    simp only [printK2]
    rw [printKL2_append b]
    exact Bal.cons_plain 39 (by unfold Plain; decide) ((printKL2_bal b hw.1).append
      (Bal.cons_plain 39 (by unfold Plain; decide) (Bal.of_plain _ (chordTail_plain len q v hw.2.2.1))))
  case note semi acc nat len q v t o =>
    simp only [pwf2] at hw; simp only [printK2]
    exact Bal.of_plain _ (printK_plain _ hw (by intro n b hb k h; cases h))
  case rest len dir =>
    simp only [pwf2] at hw; simp only [printK2]
    exact Bal.of_plain _ (printK_plain _ hw (by intro n b hb k h; cases h))
  case setL len =>
    simp only [pwf2] at hw; simp only [printK2]
    exact Bal.of_plain _ (printK_plain _ hw (by intro n b hb k h; cases h))
  case setO n =>
    simp only [pwf2] at hw; simp only [printK2]
    exact Bal.of_plain _ (printK_plain _ hw (by intro n b hb k h; cases h))
  case octRel d =>
    simp only [pwf2] at hw; simp only [printK2]
    exact Bal.of_plain _ (printK_plain _ hw (by intro n b hb k h; cases h))
  case setV n =>
    simp only [pwf2] at hw; simp only [printK2]
    exact Bal.of_plain _ (printK_plain _ hw (by intro n b hb k h; cases h))
  case velRel d =>
    simp only [pwf2] at hw; simp only [printK2]
    exact Bal.of_plain _ (printK_plain _ hw (by intro n b hb k h; cases h))
  case setQ n =>
    simp only [pwf2] at hw; simp only [printK2]
    exact Bal.of_plain _ (printK_plain _ hw (by intro n b hb k h; cases h))
  case setT n =>
    simp only [pwf2] at hw; simp only [printK2]
    exact Bal.of_plain _ (printK_plain _ hw (by intro n b hb k h; cases h))
  all_goals exact absurd hw (by simp [pwf2])
theorem printKL2_bal (cs : List Cmd) (hw : pwfL2 cs) : Bal (printKL2 cs []) := by
  cases cs with
  | nil => exact Bal.nil
  | cons c cs =>
    simp only [pwfL2] at hw
    simp only [printKL2]
    rw [printK2_append]
    exact (printK2_bal c hw.1).append (printKL2_bal cs hw.2)
end

end Sakura.Lp
